(* C13 — "tap controllers never move a tap outside [tap_min, tap_max]" over whole run_control runs: the abstract invariant
   theorem (Proofs.run_control_keeps) instantiated for the concrete controllers *)
From Coq Require Import ZArith QArith Qabs List Bool Lia Lqa Sorted Permutation.
From PPV Require Import Base.QN C13.Model C13.Proofs C13.Taps.
Import ListNotations.
Open Scope Q_scope.

Lemma get_set_same k v m : get k (set k v m) = v.
Proof.
  induction m as [|[j w] m IH]; cbn.
  - rewrite Nat.eqb_refl. reflexivity.
  - destruct (Nat.eqb j k) eqn:E; cbn.
    + rewrite Nat.eqb_refl. reflexivity.
    + rewrite E. exact IH.
Qed.
Lemma get_set_other j k v m : j <> k -> get j (set k v m) = get j m.
Proof.
  intros H. induction m as [|[i w] m IH]; cbn.
  - destruct (Nat.eqb k j) eqn:E; [apply Nat.eqb_eq in E; congruence | reflexivity].
  - destruct (Nat.eqb i k) eqn:E; cbn.
    + apply Nat.eqb_eq in E. subst i.
      destruct (Nat.eqb k j) eqn:E2; [apply Nat.eqb_eq in E2; congruence | reflexivity].
    + destruct (Nat.eqb i j); [reflexivity | exact IH].
Qed.

(* the tap records a controller kind controls (one per listed element), its continuous parameter sets, the slots a
   characteristic controller writes *)
Definition taps_of (k : kind) : list tapc :=
  match k with
  | KDisc t _ _ => [t] | KCont t _ => [t]
  | KDiscV ts _ _ _ _ => ts | KContV tks _ => map fst tks
  | _ => []
  end.
Definition conts_of (k : kind) : list (tapc * contp) :=
  match k with KCont t p => [(t, p)] | KContV tks _ => tks | _ => [] end.
Definition outs_of (k : kind) : list nat :=
  match k with KChar _ _ out _ _ => [out] | KCharV _ ios _ _ _ => map snd ios | _ => [] end.

(* every element of every tap controller (scalar or vector) has its tap inside that element's bounds (NaN taps are not constrained) *)
Definition PinvV (ks : list kind) (v : slots) : Prop :=
  forall k t, In k ks -> In t (taps_of k) -> in_bounds t (get (t_trafo t) v).
Definition Pinv (ks : list kind) (s : cst) : Prop := PinvV ks (vars s).

(* well-formed controller set: continuous controllers check the bounds (tap_min <= tap_max) for every element, controllers of
   one transformer read the same tap_min / tap_max, characteristic controllers do not write a controlled tap_pos *)
Definition WF (ks : list kind) : Prop :=
  (forall k t p, In k ks -> In (t, p) (conts_of k) -> k_check p = true /\ t_min t <= t_max t) /\
  (forall k1 k2 t1 t2, In k1 ks -> In k2 ks -> In t1 (taps_of k1) -> In t2 (taps_of k2) ->
     t_trafo t1 = t_trafo t2 -> t_min t1 == t_min t2 /\ t_max t1 == t_max t2) /\
  (forall k t k' out, In k ks -> In t (taps_of k) -> In k' ks -> In out (outs_of k') -> out <> t_trafo t).

Lemma Pinv_same_vars ks s s' : vars s' = vars s -> Pinv ks s -> Pinv ks s'.
Proof. unfold Pinv. intros E H. rewrite E. exact H. Qed.

(* writing a value that is inside the writer's bounds (or NaN) into the writer's transformer slot keeps the invariant *)
Lemma PinvV_write ks m k t (v : F) :
  WF ks -> In k ks -> In t (taps_of k) -> PinvV ks m -> in_bounds t v ->
  PinvV ks (set (t_trafo t) v m).
Proof.
  intros (_ & W2 & _) Hk Ht HP Hv k' t' Hk' Ht'.
  destruct (Nat.eq_dec (t_trafo t') (t_trafo t)) as [E|E].
  - rewrite E, get_set_same. destruct (W2 k k' t t' Hk Hk' Ht Ht' (eq_sym E)) as [B1 B2].
    destruct v as [x|]; [|exact I]. cbn in *. rewrite <- B1, <- B2. exact Hv.
  - rewrite (get_set_other _ _ _ _ E). exact (HP k' t' Hk' Ht').
Qed.
Lemma Pinv_write ks s k t (v : F) :
  WF ks -> In k ks -> In t (taps_of k) -> Pinv ks s -> in_bounds t v ->
  Pinv ks (with_vars s (set (t_trafo t) v (vars s))).
Proof. intros W Hk Ht HP Hv. unfold Pinv. cbn [vars with_vars]. eapply PinvV_write; eassumption. Qed.

(* a vector write (all values computed beforehand, each inside the bounds of its own element) keeps the invariant *)
Lemma PinvV_write_all ks k (A : Type) (tp : A -> tapc) (f : A -> F) (l : list A) :
  WF ks -> In k ks -> (forall a, In a l -> In (tp a) (taps_of k)) -> (forall a, In a l -> in_bounds (tp a) (f a)) ->
  forall m, PinvV ks m -> PinvV ks (write_all (map (fun a => (t_trafo (tp a), f a)) l) m).
Proof.
  intros W Hk. unfold write_all. induction l as [|a l IH]; intros H1 H2 m Hm; cbn [map fold_left fst snd]; [exact Hm|].
  apply IH.
  - intros b Hb. apply H1. right. exact Hb.
  - intros b Hb. apply H2. right. exact Hb.
  - eapply PinvV_write; try eassumption; [apply H1 | apply H2]; left; reflexivity.
Qed.
(* writes to slots that are nobody's tap *)
Lemma PinvV_write_other ks (kvs : list (nat * F)) :
  (forall kv k t, In kv kvs -> In k ks -> In t (taps_of k) -> fst kv <> t_trafo t) ->
  forall m, PinvV ks m -> PinvV ks (write_all kvs m).
Proof.
  unfold write_all. induction kvs as [|kv kvs IH]; intros H m Hm; cbn [fold_left]; [exact Hm|].
  apply IH; [intros kv' k t Hin; apply H; right; exact Hin|].
  intros k t Hk Ht. rewrite get_set_other; [exact (Hm k t Hk Ht)|].
  intros X. apply (H kv k t (or_introl eq_refl) Hk Ht). symmetry. exact X.
Qed.

Lemma keeps_ctrl ks c k : WF ks -> In k ks -> keeps cst (Pinv ks) (mk_ctrl c k).
Proof.
  intros W Hk. pose proof W as (W1 & W2 & W3).
  destruct k as [t lo up|t p| |in_res inp out pts tol|ts ntd lo up hl|tks ntd|in_res ios pts tol tdi];
    unfold keeps; cbn [mk_ctrl c_conv c_step c_repair c_init c_reset c_final snd].
  - (* discrete *)
    repeat split; try (intros s H; exact H).
    intros s H. unfold disc_step. destruct (t_ntd t); [exact H|].
    pose proof (H _ t Hk (or_introl eq_refl)) as Hb.
    destruct (get (t_trafo t) (vars s)) as [x|] eqn:E.
    + apply (Pinv_write ks s _ t _ W Hk (or_introl eq_refl) H). cbn. cbn in Hb. apply disc_new_tap_in_bounds. exact Hb.
    + apply (Pinv_write ks s _ t None W Hk (or_introl eq_refl) H). exact I.
  - (* continuous *)
    destruct (W1 _ t p Hk (or_introl eq_refl)) as [C1 C2].
    repeat split; try (intros s H; exact H).
    intros s H. unfold cont_step. destruct (t_ntd t); [exact H|].
    destruct (get (t_bus t) (res s)) as [vm|]; [destruct (get (t_trafo t) (vars s)) as [x|]|].
    + apply (Pinv_write ks s _ t _ W Hk (or_introl eq_refl) H). cbn. apply cont_new_tap_in_bounds; assumption.
    + apply (Pinv_write ks s _ t None W Hk (or_introl eq_refl) H). exact I.
    + apply (Pinv_write ks s _ t None W Hk (or_introl eq_refl) H). exact I.
  - (* const *)
    repeat split; intros s H; exact H.
  - (* characteristic: writes a slot that is nobody's tap *)
    repeat split; try (intros s H; exact H).
    intros s H. unfold char_step. apply (Pinv_same_vars ks (with_vars s (set out (char_value in_res inp pts s) (vars s)))); [reflexivity|].
      intros k' t' Hk' Ht'. cbn [vars with_vars].
      rewrite get_set_other; [exact (H k' t' Hk' Ht') | ].
      intros X. apply (W3 k' t' _ out Hk' Ht' Hk (or_introl eq_refl)). symmetry. exact X.
  - (* discrete, index array: every new value is computed from the state before the write *)
    repeat split; try (intros s H; exact H).
    intros s H. unfold discv_step. destruct ntd; [exact H|].
    unfold Pinv. cbn [vars with_vars with_attrs].
    apply (PinvV_write_all ks _ tapc (fun t => t) (disc_new_F lo up s) ts W Hk); [intros a Ha; exact Ha | | exact H].
    intros t Ht. unfold disc_new_F. pose proof (H _ t Hk Ht) as Hb.
    destruct (get (t_trafo t) (vars s)) as [x|]; [|exact I]. cbn. cbn in Hb. apply disc_new_tap_in_bounds. exact Hb.
  - (* continuous, index array *)
    repeat split; try (intros s H; exact H).
    intros s H. unfold contv_step. destruct ntd; [exact H|].
    unfold Pinv. cbn [vars with_vars].
    apply (PinvV_write_all ks _ (tapc * contp) fst (cont_new_F s) tks W Hk); [intros a Ha; apply in_map; exact Ha | | exact H].
    intros [t p] Ht. destruct (W1 _ t p Hk Ht) as [C1 C2]. unfold cont_new_F. cbn [fst snd].
    destruct (get (t_bus t) (res s)) as [vm|]; [destruct (get (t_trafo t) (vars s)) as [x|]|]; try exact I.
    cbn. apply cont_new_tap_in_bounds; assumption.
  - (* characteristic, index array (TapDependentImpedance included): all written slots are nobody's tap *)
    assert (O : forall (row : list F) kv k t, In kv (List.combine (map snd ios) row) -> In k ks -> In t (taps_of k) -> fst kv <> t_trafo t).
    { intros row [o v] k' t' Hin Hk' Ht'. apply in_combine_l in Hin. cbn [fst].
      exact (W3 k' t' _ o Hk' Ht' Hk Hin). }
    repeat split; try (intros s H; exact H).
    + intros s H. unfold charv_step. unfold Pinv. cbn [vars with_vars with_applied].
      apply PinvV_write_other; [|exact H].
      intros kv k' t' Hin Hk' Ht'. apply in_map_iff in Hin. destruct Hin as (io & <- & Hio). cbn [fst].
      apply (W3 k' t' _ (snd io) Hk' Ht' Hk). apply in_map. exact Hio.
    + intros s H. unfold charv_init. destruct tdi as [[|]|]; exact H.
    + intros s H. unfold charv_final. destruct tdi as [[|]|]; try exact H.
      destruct (geta c (attrs s)) as [|row rest]; [exact H|].
      unfold Pinv. cbn [vars with_vars]. apply PinvV_write_other; [apply O | exact H].
Qed.

Lemma run_stream_keeps ks s : Pinv ks s -> Pinv ks (fst (run_stream s)).
Proof.
  intros H. unfold run_stream. destruct (stream s) as [|[r ok] rest]; cbn [fst];
    (apply (Pinv_same_vars ks s); [reflexivity | exact H]).
Qed.

(* the controllers that are scheduled all come from the controller table *)
Lemma ctrl_variables_members (cs : list entry) co ir :
  ctrl_variables _ cs = Some (co, ir) -> forall l e, In l co -> In e l -> In e cs.
Proof.
  unfold ctrl_variables. destruct (negb (existsb e_ins cs)).
  - intros H. inversion H. subst. intros l e [<-|[]] [].
  - unfold controller_order.
    destruct (existsb (fun c => match e_levels c with None => true | Some _ => false end) cs); [discriminate|].
    intros H. inversion H. subst. intros l e Hl He.
    apply in_map_iff in Hl. destruct Hl as (lv & <- & _).
    unfold level_members in He. apply (Permutation_in _ (sort_c_perm _ _)) in He.
    apply filter_In in He. exact (proj1 He).
Qed.

(* whole runs: any controller table whose kinds are well-formed, any power-flow oracle (stream), any levels/orders,
   max_iter, flags: if every controlled tap starts inside its bounds, it is inside its bounds in every state of the call
   trace and on return (or when an error is raised) *)
Theorem taps_in_bounds_over_runs max_iter cod cel (cs : list entry) s o s' t :
  WF (map (fun e => snd (e_obj e)) cs) ->
  Pinv (map (fun e => snd (e_obj e)) cs) s ->
  run_net max_iter cod cel cs s = Some (o, s', t) ->
  trace_ok cst (Pinv (map (fun e => snd (e_obj e)) cs)) t /\ Pinv (map (fun e => snd (e_obj e)) cs) s'.
Proof.
  intros W HP. unfold run_net. destruct (ctrl_variables _ cs) as [[co ir]|] eqn:E; [|discriminate].
  intros H. inversion H as [H1]. clear H.
  eapply (run_control_keeps cst run_stream (Pinv (map (fun e => snd (e_obj e)) cs))); [| | exact HP | exact H1].
  - intros x Hx. apply run_stream_keeps. exact Hx.
  - apply Forall_forall. intros l Hl. apply in_map_iff in Hl. destruct Hl as (l0 & <- & Hl0).
    apply Forall_forall. intros c Hc. apply in_map_iff in Hc. destruct Hc as (e & <- & He).
    unfold to_ctrl. apply keeps_ctrl; [exact W|].
    apply in_map_iff. exists e. split; [reflexivity|]. exact (ctrl_variables_members cs co ir E l0 e Hl0 He).
Qed.
