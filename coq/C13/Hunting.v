(* C13 — hunting_limit over whole runs: changing the hunting_limit of any DiscreteTapControl (to any value, per controller)
   changes neither the outcome of run_control, nor any verdict or element value in the call trace, nor the returned
   element / result tables.  Instance of the simulation theorem. *)
From Coq Require Import ZArith QArith List Bool Lia.
From PPV Require Import Base.QN C13.Model C13.Proofs C13.Taps C13.Invariant C13.Vector C13.Simulation.
Import ListNotations.

Lemma geta_seta_same c v m : geta c (seta c v m) = v.
Proof.
  induction m as [|[j w] m IH]; cbn; [rewrite Nat.eqb_refl; reflexivity|].
  destruct (Nat.eqb j c) eqn:E; cbn; [rewrite Nat.eqb_refl; reflexivity | rewrite E; exact IH].
Qed.
Lemma geta_seta_other c c' v m : c' <> c -> geta c' (seta c v m) = geta c' m.
Proof.
  intros Hn. induction m as [|[j w] m IH]; cbn.
  - destruct (Nat.eqb c c') eqn:E; [apply Nat.eqb_eq in E; congruence | reflexivity].
  - destruct (Nat.eqb j c) eqn:E; cbn.
    + apply Nat.eqb_eq in E. subst j. destruct (Nat.eqb c c') eqn:E2; [apply Nat.eqb_eq in E2; congruence | reflexivity].
    + destruct (Nat.eqb j c'); [reflexivity | exact IH].
Qed.

Definition is_discv (k : kind) : bool := match k with KDiscV _ _ _ _ _ => true | _ => false end.
Definition set_hl_kind (f : nat -> option nat) (c : nat) (k : kind) : kind :=
  match k with KDiscV ts ntd lo up _ => KDiscV ts ntd lo up (f c) | _ => k end.
Definition set_hl (f : nat -> option nat) (e : entry) : entry :=
  Build_centry (fst (e_obj e), set_hl_kind f (fst (e_obj e)) (snd (e_obj e))) (e_levels e) (e_order e) (e_ins e) (e_initial_run e).

Section Hunt.
  Variable H : list nat.      (* ids of the discrete vector controllers *)
  (* equal except for the attribute matrices of the controllers in H *)
  Definition Rh (s1 s2 : cst) : Prop :=
    vars s1 = vars s2 /\ res s1 = res s2 /\ applied s1 = applied s2 /\ stream s1 = stream s2 /\
    forall c, ~ In c H -> geta c (attrs s1) = geta c (attrs s2).

  Lemma run_stream_sim s1 s2 : Rh s1 s2 -> Rh (fst (run_stream s1)) (fst (run_stream s2)) /\ snd (run_stream s1) = snd (run_stream s2).
  Proof.
    intros (Ev & Er & Ea & Es & Eat). unfold run_stream. rewrite Es.
    destruct (stream s2) as [|[r ok] rest]; cbn; unfold Rh; cbn; repeat split; auto.
  Qed.

  Lemma disc_conv_R t lo up s1 s2 : Rh s1 s2 -> disc_conv t lo up s1 = disc_conv t lo up s2.
  Proof. intros (Ev & Er & _). unfold disc_conv. rewrite Ev, Er. reflexivity. Qed.
  Lemma cont_conv_R t p s1 s2 : Rh s1 s2 -> cont_conv t p s1 = cont_conv t p s2.
  Proof. intros (Ev & Er & _). unfold cont_conv. rewrite Ev, Er. reflexivity. Qed.
  Lemma char_value_R in_res inp pts s1 s2 : Rh s1 s2 -> char_value in_res inp pts s1 = char_value in_res inp pts s2.
  Proof. intros (Ev & Er & _). unfold char_value. rewrite Ev, Er. reflexivity. Qed.
  Lemma forallb_eq (A : Type) (f g : A -> bool) l : (forall a, f a = g a) -> forallb f l = forallb g l.
  Proof. intros E. induction l as [|a l IH]; cbn; [reflexivity | rewrite E, IH; reflexivity]. Qed.

  Ltac parts := repeat match goal with |- _ /\ _ => split end;
                intros s1 s2 HR; try exact HR; try (split; [|exact HR]); pose proof HR as (Ev & Er & Ea & Es & Eat).
  Ltac rsplit := unfold Rh; cbn [vars res applied attrs stream with_vars with_applied with_attrs]; repeat split; auto.

  Lemma sim_mk c k f :
    (is_discv k = true -> In c H) -> (restores k = true -> ~ In c H) ->
    sim_ctrl cst Rh (mk_ctrl c k) (mk_ctrl c (set_hl_kind f c k)).
  Proof.
    intros HD HT.
    destruct k as [t lo up|t p| |in_res inp out pts tol|ts ntd lo up hl|tks ntd|in_res ios pts tol tdi];
      cbn [set_hl_kind]; unfold sim_ctrl; cbn [mk_ctrl cid c_conv c_step c_repair c_init c_reset c_final fst snd];
      (split; [reflexivity|]).
    - (* discrete *)
      parts.
      + apply disc_conv_R. exact HR.
      + unfold disc_step. rewrite Ev, Er.
        destruct (t_ntd t); [exact HR|]. destruct (get (t_trafo t) (vars s2)); rsplit.
    - (* continuous *)
      parts.
      + apply cont_conv_R. exact HR.
      + unfold cont_step. rewrite Ev, Er.
        destruct (t_ntd t); [exact HR|].
        destruct (get (t_bus t) (res s2)); [destruct (get (t_trafo t) (vars s2))|]; rsplit.
    - (* const *)
      parts.
      + rewrite Ea. reflexivity.
      + rewrite Ea. rsplit.
    - (* characteristic *)
      parts.
      + unfold char_conv. cbn [fst]. rewrite (char_value_R _ _ _ _ _ HR), Ev, Ea. reflexivity.
      + unfold char_step. rewrite (char_value_R _ _ _ _ _ HR). cbn [applied with_vars]. rewrite Ev, Ea. rsplit.
      + rewrite Ea. rsplit.
    - (* discrete over an index array: the only kind whose hunting_limit differs *)
      assert (Hc : In c H) by (apply HD; reflexivity).
      assert (Oth : forall c', ~ In c' H -> c' <> c) by (intros c' Hn X; subst c'; contradiction).
      parts.
      + unfold discv_conv. destruct ntd; [reflexivity|]. apply forallb_eq. intros t. apply disc_conv_R. exact HR.
      + unfold discv_step. destruct ntd; [exact HR|].
        assert (En : forall t, disc_new_F lo up s1 t = disc_new_F lo up s2 t).
        { intros t. unfold disc_new_F. rewrite Ev, Er. reflexivity. }
        rsplit.
        * rewrite Ev. f_equal. apply map_ext. intros t. rewrite En. reflexivity.
        * intros c' Hn. rewrite !geta_seta_other by (apply Oth; exact Hn). apply Eat. exact Hn.
      + unfold discv_init. rsplit. intros c' Hn. rewrite !geta_seta_other by (apply Oth; exact Hn). apply Eat. exact Hn.
    - (* continuous over an index array *)
      parts.
      + unfold contv_conv. destruct ntd; [reflexivity|]. apply forallb_eq. intros tk. apply cont_conv_R. exact HR.
      + unfold contv_step. destruct ntd; [exact HR|].
        assert (En : forall tk, cont_new_F s1 tk = cont_new_F s2 tk).
        { intros tk. unfold cont_new_F. rewrite Ev, Er. reflexivity. }
        rsplit. rewrite Ev. f_equal. apply map_ext. intros tk. rewrite En. reflexivity.
    - (* characteristic over an index array / TapDependentImpedance: its saved row is outside H *)
      parts.
      + unfold charv_conv. cbn [fst]. rewrite Ea. f_equal. apply forallb_eq. intros io.
        unfold charv_ok. rewrite (char_value_R _ _ _ _ _ HR), Ev. reflexivity.
      + unfold charv_step. cbn [applied with_vars]. rewrite Ea, Ev. rsplit. f_equal. apply map_ext. intros io.
        rewrite (char_value_R _ _ _ _ _ HR). reflexivity.
      + unfold charv_init. destruct tdi as [[|]|]; [| exact HR | rewrite Ea; rsplit].
        assert (Hn : ~ In c H) by (apply HT; reflexivity).
        rewrite Ev. rsplit. intros c' Hn'. destruct (Nat.eq_dec c' c) as [->|Ne].
        * rewrite !geta_seta_same. reflexivity.
        * rewrite !geta_seta_other by exact Ne. apply Eat. exact Hn'.
      + unfold charv_final. destruct tdi as [[|]|]; try exact HR.
        assert (Hn : ~ In c H) by (apply HT; reflexivity).
        rewrite (Eat c Hn), Ev. destruct (geta c (attrs s2)) as [|row rest]; [exact HR | rsplit].
  Qed.
End Hunt.

(* ---- the controller order does not look at e_obj *)
Section Nat.
  Variables (A B : Type) (g : centry A -> centry B).
  Hypothesis g_levels : forall e, e_levels (g e) = e_levels e.
  Hypothesis g_order : forall e, e_order (g e) = e_order e.
  Hypothesis g_ins : forall e, e_ins (g e) = e_ins e.
  Hypothesis g_ir : forall e, e_initial_run (g e) = e_initial_run e.

  Lemma ins_c_nat x l : ins_c B (g x) (map g l) = map g (ins_c A x l).
  Proof.
    induction l as [|y l IH]; cbn; [reflexivity|]. rewrite !g_order.
    destruct (qleb (e_order x) (e_order y)); [reflexivity | cbn; rewrite IH; reflexivity].
  Qed.
  Lemma sort_c_nat l : sort_c B (map g l) = map g (sort_c A l).
  Proof. unfold sort_c. induction l as [|x l IH]; cbn [map fold_right]; [reflexivity | rewrite IH; apply ins_c_nat]. Qed.
  Lemma in_level_nat lv e : in_level B lv (g e) = in_level A lv e.
  Proof. unfold in_level. rewrite g_ins, g_levels. reflexivity. Qed.
  Lemma filter_nat lv l : filter (in_level B lv) (map g l) = map g (filter (in_level A lv) l).
  Proof.
    induction l as [|x l IH]; cbn; [reflexivity|]. rewrite in_level_nat.
    destruct (in_level A lv x); cbn; rewrite IH; reflexivity.
  Qed.
  Lemma level_members_nat cs lv : level_members B (map g cs) lv = map g (level_members A cs lv).
  Proof. unfold level_members. rewrite filter_nat. apply sort_c_nat. Qed.
  Lemma levels_src_nat cs :
    List.concat (map (fun c : centry B => match e_levels c with Some l => l | None => [] end) (map g cs)) =
    List.concat (map (fun c : centry A => match e_levels c with Some l => l | None => [] end) cs).
  Proof. induction cs as [|x cs IH]; cbn; [reflexivity | rewrite g_levels, IH; reflexivity]. Qed.
  Lemma existsb_nat (p : centry B -> bool) (q : centry A -> bool) cs : (forall e, p (g e) = q e) -> existsb p (map g cs) = existsb q cs.
  Proof. intros E. induction cs as [|x cs IH]; cbn; [reflexivity | rewrite E, IH; reflexivity]. Qed.

  Lemma ctrl_variables_nat cs :
    ctrl_variables B (map g cs) =
    match ctrl_variables A cs with Some (co, ir) => Some (map (map g) co, ir) | None => None end.
  Proof.
    unfold ctrl_variables, controller_order.
    rewrite (existsb_nat (@e_ins B) (@e_ins A) cs g_ins).
    destruct (negb (existsb e_ins cs)); [reflexivity|].
    rewrite (existsb_nat (fun c => match e_levels c with None => true | _ => false end)
                         (fun c => match e_levels c with None => true | _ => false end) cs)
      by (intros e; rewrite g_levels; reflexivity).
    destruct (existsb _ cs); [reflexivity|].
    unfold level_list. rewrite levels_src_nat.
    set (ll := fold_right ins_q [] _).
    assert (E : map (level_members B (map g cs)) ll = map (map g) (map (level_members A cs) ll)).
    { rewrite map_map. apply map_ext. intros lv. apply level_members_nat. }
    rewrite E. f_equal. f_equal.
    destruct (map (level_members A cs) ll) as [|l co]; cbn [map]; [reflexivity|].
    destruct l; cbn [map]; [reflexivity|]. cbn [orb].
    change ((g c :: map g l) :: map (map g) co) with (map (map g) ((c :: l) :: co)).
    rewrite <- concat_map. apply existsb_nat. exact g_ir.
  Qed.
End Nat.

(* distinct roles: no discrete vector controller shares its id with a restoring TapDependentImpedance (ids are table indices) *)
Definition hids (cs : list entry) : list nat :=
  map (fun e => fst (e_obj e)) (filter (fun e => is_discv (snd (e_obj e))) cs).
Definition roles_ok (cs : list entry) : Prop :=
  forall e, In e cs -> restores (snd (e_obj e)) = true -> ~ In (fst (e_obj e)) (hids cs).

Definition same_but_attrs (cs : list entry) (s1 s2 : cst) : Prop := Rh (hids cs) s1 s2.

Theorem hunting_limit_irrelevant_over_runs (f : nat -> option nat) max_iter cod cel (cs : list entry) s :
  roles_ok cs ->
  match run_net max_iter cod cel cs s, run_net max_iter cod cel (map (set_hl f) cs) s with
  | Some (o1, s1, t1), Some (o2, s2, t2) =>
      o1 = o2 /\ same_but_attrs cs s1 s2 /\ Forall2 (ev_rel cst (Rh (hids cs))) t1 t2
  | None, None => True
  | _, _ => False
  end.
Proof.
  intros RO. unfold run_net.
  rewrite (ctrl_variables_nat _ _ (set_hl f)) by (intros e; reflexivity).
  destruct (ctrl_variables (nat * kind) cs) as [[co ir]|] eqn:E; [|exact I].
  set (L2 := map _ (map _ co)). set (L1 := map (map to_ctrl) co).
  pose proof (run_control_sim cst run_stream (Rh (hids cs)) (run_stream_sim (hids cs)) max_iter cod cel ir L1 L2 s s) as X.
  destruct (run_control cst run_stream max_iter cod cel ir L1 s) as [[o1 s1] t1].
  destruct (run_control cst run_stream max_iter cod cel ir L2 s) as [[o2 s2] t2].
  cbn [fst snd] in X. apply X.
  - (* the schedules are related controller by controller *)
    subst L1 L2. rewrite map_map.
    assert (M : forall l, (forall e, In e l -> In e cs) -> Forall2 (sim_ctrl cst (Rh (hids cs))) (map to_ctrl l) (map (fun e => to_ctrl (set_hl f e)) l)).
    { induction l as [|e l IH]; intros Hin; cbn [map]; constructor.
      - unfold to_ctrl, set_hl. cbn [e_obj fst snd]. apply sim_mk.
        + intros D. unfold hids. apply in_map_iff. exists e. split; [reflexivity|]. apply filter_In. split; [apply Hin; left; reflexivity | exact D].
        + intros T. apply RO; [apply Hin; left; reflexivity | exact T].
      - apply IH. intros e' He'. apply Hin. right. exact He'. }
    assert (Mem : forall l, In l co -> forall e, In e l -> In e cs) by (intros l Hl e He; exact (ctrl_variables_members cs co ir E l e Hl He)).
    clear E X. induction co as [|l co IH]; cbn [map]; constructor.
    + rewrite map_map. apply M. intros e He. exact (Mem l (or_introl eq_refl) e He).
    + apply IH. intros l' Hl'. apply Mem. right. exact Hl'.
  - unfold Rh. repeat split; reflexivity.
Qed.
