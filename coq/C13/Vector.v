(* C13 — controllers over index arrays (element-wise criteria), the hunting_limit bookkeeping of DiscreteTapControl and
   TapDependentImpedance (restore) *)
From Coq Require Import ZArith QArith Qabs List Bool Lia Lqa.
From PPV Require Import Base.QN C13.Model C13.Proofs C13.Taps C13.Invariant.
Import ListNotations.
Open Scope Q_scope.

(* ---------------------------------------------------------------- converged-iff, element-wise *)
Lemma discv_converged_iff ts ntd lo up s :
  discv_conv ts ntd lo up s = true <-> ntd = true \/ discv_ok ts lo up s.
Proof.
  unfold discv_conv, discv_ok. destruct ntd; [split; auto|].
  rewrite forallb_forall, Forall_forall. split.
  - intros H. right. intros t Ht. pose proof (H t Ht) as X. apply disc_converged_iff in X.
    destruct X as [X|X]; [discriminate X | exact X].
  - intros [X|H]; [discriminate X|]. intros t Ht. apply disc_converged_iff. right. exact (H t Ht).
Qed.

Lemma contv_converged_iff tks ntd s :
  contv_conv tks ntd s = true <-> ntd = true \/ contv_ok tks s.
Proof.
  unfold contv_conv, contv_ok. destruct ntd; [split; auto|].
  rewrite forallb_forall, Forall_forall. split.
  - intros H. right. intros tk Ht. pose proof (H tk Ht) as X. apply cont_converged_iff in X.
    destruct X as [X|X]; [discriminate X | exact X].
  - intros [X|H]; [discriminate X|]. intros tk Ht. apply cont_converged_iff. right. exact (H tk Ht).
Qed.

(* a vector controller that reports convergence: every single element satisfies the scalar criterion of the property text *)
Lemma discv_each_element ts ntd lo up s t :
  discv_conv ts ntd lo up s = true -> ntd = false -> In t ts ->
  disc_ok t lo up (get (t_bus t) (res s)) (get (t_trafo t) (vars s)).
Proof.
  intros H N Ht. apply discv_converged_iff in H. destruct H as [H|H]; [congruence|].
  unfold discv_ok in H. rewrite Forall_forall in H. exact (H t Ht).
Qed.

(* characteristic controller over index arrays: converged iff it has been applied and EVERY output is within tol of the
   characteristic of its input *)
Lemma charv_converged_iff c in_res ios pts tol s :
  fst (charv_conv c in_res ios pts tol s) = true <->
  getb c (applied s) = true /\ Forall (charv_elem_ok in_res pts tol s) ios.
Proof.
  unfold charv_conv. cbn [fst]. rewrite andb_true_iff, forallb_forall, Forall_forall.
  assert (E : forall io, charv_ok in_res pts tol s io = true <-> charv_elem_ok in_res pts tol s io).
  { intros io. unfold charv_ok, charv_elem_ok.
    destruct (char_value in_res (fst io) pts s) as [a|]; [|split; [discriminate | intros []]].
    destruct (get (snd io) (vars s)) as [b0|]; [|split; [discriminate | intros []]].
    rewrite qltb_lt, qabsv_correct, qsub_correct. reflexivity. }
  split; intros [A B]; (split; [exact A|]); intros io Hio; apply E; exact (B io Hio).
Qed.

(* ---------------------------------------------------------------- element-wise step: what is written where *)
Lemma get_write_all_notin k kvs : forall m, ~ In k (map fst kvs) -> get k (write_all kvs m) = get k m.
Proof.
  unfold write_all. induction kvs as [|[j v] kvs IH]; intros m H; cbn [fold_left fst snd]; [reflexivity|].
  rewrite IH; [|intros X; apply H; right; exact X].
  apply get_set_other. intros X. apply H. left. cbn. symmetry. exact X.
Qed.
Lemma get_write_all_in (A : Type) (key : A -> nat) (f : A -> F) (l : list A) :
  NoDup (map key l) -> forall a, In a l -> forall m, get (key a) (write_all (map (fun a => (key a, f a)) l) m) = f a.
Proof.
  unfold write_all. induction l as [|b l IH]; intros ND a Ha m; [destruct Ha|].
  cbn [map] in ND. inversion ND as [|? ? Hn ND']. subst. cbn [map fold_left fst snd].
  destruct Ha as [<-|Ha].
  - pose proof (get_write_all_notin (key b) (map (fun a => (key a, f a)) l) (set (key b) (f b) m)) as X.
    unfold write_all in X. rewrite X; [apply get_set_same|]. rewrite map_map. cbn [fst]. exact Hn.
  - apply IH; assumption.
Qed.

(* with distinct transformers, after a vector step every listed element holds the scalar rule's new position, computed
   from the state before the step, and no other slot changes *)
Lemma discv_step_elementwise c ts lo up hl s t :
  NoDup (map t_trafo ts) -> In t ts ->
  get (t_trafo t) (vars (discv_step c ts false lo up hl s)) = disc_new_F lo up s t.
Proof.
  intros ND Ht. unfold discv_step. cbn [vars with_vars with_attrs].
  exact (get_write_all_in tapc t_trafo (disc_new_F lo up s) ts ND t Ht (vars s)).
Qed.
Lemma discv_step_frame c ts ntd lo up hl s k :
  ~ In k (map t_trafo ts) -> get k (vars (discv_step c ts ntd lo up hl s)) = get k (vars s).
Proof.
  intros H. unfold discv_step. destruct ntd; [reflexivity|]. cbn [vars with_vars with_attrs].
  apply get_write_all_notin. rewrite map_map. cbn [fst]. exact H.
Qed.
(* element-wise bounds: the value written for an element that was inside its bounds is inside its bounds *)
Lemma discv_new_in_bounds lo up s t :
  in_bounds t (get (t_trafo t) (vars s)) -> in_bounds t (disc_new_F lo up s t).
Proof.
  unfold disc_new_F. destruct (get (t_trafo t) (vars s)) as [x|]; [|intros _; exact I].
  cbn. intros H. apply disc_new_tap_in_bounds. exact H.
Qed.
Lemma contv_new_in_bounds s t p :
  k_check p = true -> t_min t <= t_max t -> in_bounds t (cont_new_F s (t, p)).
Proof.
  intros C L. unfold cont_new_F. cbn [fst snd].
  destruct (get (t_bus t) (res s)) as [vm|]; [destruct (get (t_trafo t) (vars s)) as [x|]|]; try exact I.
  cbn. apply cont_new_tap_in_bounds; assumption.
Qed.

(* ---------------------------------------------------------------- hunting_limit *)
(* the window: the pushed row is the last one, the length is bounded by max(hunting_limit, 1) once it was *)
Lemma hunt_push_length hl rows row :
  List.length (hunt_push hl rows row) =
  match hl with
  | Some n => if (n <? S (List.length rows))%nat then List.length rows else S (List.length rows)
  | None => S (List.length rows)
  end.
Proof.
  assert (L : List.length (rows ++ [row]) = S (List.length rows)) by (rewrite app_length; cbn; lia).
  unfold hunt_push. cbv zeta. destruct hl as [n|]; [|exact L]. rewrite L.
  destruct (n <? S (List.length rows))%nat; [|exact L].
  destruct rows as [|r rows]; [reflexivity|]. cbn [app tl List.length]. cbn [app List.length] in L. lia.
Qed.
Lemma hunt_push_bounded n rows row :
  (List.length rows <= Nat.max n 1)%nat -> (List.length (hunt_push (Some n) rows row) <= Nat.max n 1)%nat.
Proof.
  intros H. rewrite hunt_push_length. destruct (n <? S (List.length rows))%nat eqn:E; [exact H|].
  apply Nat.ltb_ge in E. lia.
Qed.
Lemma hunt_push_last hl rows row d : rows <> [] -> last (hunt_push hl rows row) d = row.
Proof.
  intros H. unfold hunt_push.
  assert (L : forall (l : list (list F)), last (l ++ [row]) d = row) by (intros l; apply last_last).
  destruct hl as [n|]; [|apply L].
  destruct (n <? List.length (rows ++ [row]))%nat; [|apply L].
  destruct rows as [|r rows]; [congruence|]. cbn [app tl]. apply L.
Qed.
(* the rows kept are a suffix of (old rows ++ [new row]): nothing is invented, only the oldest row is dropped *)
Lemma hunt_push_suffix hl rows row :
  exists dropped, dropped ++ hunt_push hl rows row = rows ++ [row] /\ (List.length dropped <= 1)%nat.
Proof.
  unfold hunt_push. destruct hl as [n|]; [|exists []; split; [reflexivity | cbn; lia]].
  destruct (n <? List.length (rows ++ [row]))%nat; [|exists []; split; [reflexivity | cbn; lia]].
  destruct (rows ++ [row]) as [|r l]; [exists []; split; [reflexivity | cbn; lia]|].
  exists [r]. split; [reflexivity | cbn; lia].
Qed.

(* is_converged never reads the hunting window, and the taps written by control_step do not depend on it: for every
   hunting_limit and every content of the controller attributes the verdict and the written element values are those of
   the controller without hunting_limit *)
Lemma hunting_inert_conv c ts ntd lo up hl hl' s a :
  fst (c_conv (mk_ctrl c (KDiscV ts ntd lo up hl)) (with_attrs s a)) =
  fst (c_conv (mk_ctrl c (KDiscV ts ntd lo up hl')) s).
Proof. reflexivity. Qed.
Lemma hunting_inert_step c ts ntd lo up hl hl' s a :
  vars (c_step (mk_ctrl c (KDiscV ts ntd lo up hl)) (with_attrs s a)) =
  vars (c_step (mk_ctrl c (KDiscV ts ntd lo up hl')) s).
Proof. cbn [mk_ctrl c_step]. unfold discv_step. destruct ntd; reflexivity. Qed.

(* consequently hunting_limit cannot turn a non-converged controller into a converged one, at ANY number of recorded
   reversals (in particular not below the limit): whenever the controller with hunting_limit hl reports convergence, in a
   state with any hunting window, every element is in its band / at the needed limit / without voltage *)
Lemma hunting_never_forces_convergence c ts lo up hl s :
  fst (c_conv (mk_ctrl c (KDiscV ts false lo up hl)) s) = true -> discv_ok ts lo up s.
Proof.
  cbn [mk_ctrl c_conv fst]. intros H. apply discv_converged_iff in H. destruct H as [H|H]; [discriminate H | exact H].
Qed.

(* tap reversals recorded in one column of the window *)
Fixpoint deltas (col : list Q) : list Q :=
  match col with
  | x :: ((y :: _) as rest) => qsub y x :: deltas rest
  | _ => []
  end.
Fixpoint reversals (ds : list Q) : nat :=
  match ds with
  | d1 :: ((d2 :: _) as rest) => ((if qltb (qmul d1 d2) 0 then 1 else 0) + reversals rest)%nat
  | _ => 0%nat
  end.
(* the statement asked for, in the form "a verdict that differs from the plain band/limit criterion needs reversals >= limit":
   true of the code as it is because no verdict ever differs *)
Lemma hunting_changes_verdict_only_at_limit c ts lo up n s col :
  fst (c_conv (mk_ctrl c (KDiscV ts false lo up (Some n))) s) = true ->
  ~ discv_ok ts lo up s -> (n <= reversals (deltas col))%nat.
Proof. intros H N. exfalso. apply N. exact (hunting_never_forces_convergence c ts lo up (Some n) s H). Qed.

(* a hunting controller is NOT stopped by hunting_limit: two-position oscillation, limit 2, still not converged and still
   stepping after 4 recorded reversals (the reproduced behaviour of the real controller) *)
Definition th : tapc := {| t_trafo := 3; t_bus := 6; t_min := -(2); t_max := 2; t_dir := true; t_ntd := false |}.
Definition hunt_state (vm tap : Q) : cst :=
  {| vars := [(3%nat, Some tap)]; res := [(6%nat, Some vm)]; applied := [];
     attrs := [(0%nat, [[Some 0]; [Some (-(1))]; [Some 0]; [Some (-(1))]; [Some 0]; [Some (-(1))]])]; stream := [] |}.
Definition osc_col : list Q := [0; -(1); 0; -(1); 0; -(1)].
Lemma hunting_not_stopped :
  let k := KDiscV [th] false (99#100) (101#100) (Some 2%nat) in
  let s := hunt_state (985#1000) 0 in
  fst (c_conv (mk_ctrl 0 k) s) = false /\
  get 3 (vars (c_step (mk_ctrl 0 k) s)) = Some (-(1)) /\
  (reversals (deltas osc_col) >= 2)%nat.
Proof. vm_compute. split; [reflexivity|]. split; [reflexivity|]. lia. Qed.

(* ---------------------------------------------------------------- TapDependentImpedance: finalize_control *)
(* without a restoring TapDependentImpedance finalize_control of every controller is the identity: the state returned by
   run_control is the state on which the last level was left *)
Lemma final_id_without_restore c k s : restores k = false -> c_final (mk_ctrl c k) s = s.
Proof. destruct k as [| | | | | |in_res ios pts tol [[|]|]]; cbn; try reflexivity. discriminate. Qed.

Lemma apply_final_id (cs : list entry) s :
  forallb (fun e => negb (restores (snd (e_obj e)))) cs = true ->
  apply_all cst c_final (map to_ctrl cs) s = s.
Proof.
  unfold apply_all. revert s. induction cs as [|e cs IH]; intros s H; [reflexivity|].
  cbn [forallb] in H. apply andb_true_iff in H. destruct H as [H1 H2]. cbn [map fold_left].
  unfold to_ctrl at 2. rewrite final_id_without_restore; [apply IH; exact H2 | apply negb_true_iff; exact H1].
Qed.

(* G13r on a controller table *)
Definition G13r (cs : list entry) : bool := forallb (fun e => negb (restores (snd (e_obj e)))) cs.

Lemma scheduled_from_table (cs : list entry) co ir :
  ctrl_variables _ cs = Some (co, ir) -> forall e, In e (List.concat co) -> In e cs.
Proof.
  intros H e He. apply in_concat in He. destruct He as (l & Hl & He).
  exact (ctrl_variables_members cs co ir H l e Hl He).
Qed.

(* with G13r: on a normal return the returned state is exactly the state the levels loop ended with *)
Lemma return_state_is_loop_state max_iter cod cel (cs : list entry) s s' t :
  G13r cs = true -> run_net max_iter cod cel cs s = Some (Ok, s', t) ->
  exists co ir s0 netc t0 t1,
    ctrl_variables _ cs = Some (co, ir) /\
    levels_loop cst run_stream max_iter cod cel (map (map to_ctrl) co) s0 netc 0 = (Ok, s', t1) /\ t = t0 ++ t1.
Proof.
  intros G. unfold run_net. destruct (ctrl_variables _ cs) as [[co ir]|] eqn:E; [|discriminate].
  intros H. inversion H as [H1]. clear H. unfold run_control in H1.
  set (s0 := apply_all cst c_init (List.concat (map (map to_ctrl) co)) s) in *.
  assert (Fin : forall x, apply_all cst c_final (List.concat (map (map to_ctrl) co)) x = x).
  { intros x. rewrite <- concat_map. apply apply_final_id. apply forallb_forall. intros e He.
    unfold G13r in G. rewrite forallb_forall in G. apply G. exact (scheduled_from_table cs co ir E e He). }
  destruct ir.
  - destruct (run_stream s0) as [s1 ok] eqn:R. destruct ok; cbn [negb] in H1; [|discriminate].
    destruct (levels_loop cst run_stream max_iter cod cel (map (map to_ctrl) co) s1 true 0) as [[o s2] t1] eqn:L.
    destruct o; try discriminate. rewrite Fin in H1. inversion H1 as [[Hs Ht]].
    exists co, true, s1, true, [ERun true s1], t1. split; [reflexivity|]. split; [rewrite <- Hs; exact L | first [reflexivity | rewrite <- Ht; reflexivity | symmetry; exact Ht]].
  - destruct (levels_loop cst run_stream max_iter cod cel (map (map to_ctrl) co) s0 true 0) as [[o s2] t1] eqn:L.
    destruct o; try discriminate. rewrite Fin in H1. inversion H1 as [[Hs Ht]].
    exists co, false, s0, true, [], t1. split; [reflexivity|]. split; [rewrite <- Hs; exact L | first [reflexivity | rewrite <- Ht; reflexivity | symmetry; exact Ht]].
Qed.

(* with a restoring TapDependentImpedance the full statement is false: single controller, normal return, and the element
   value on return (restored) differs from the value the last calculation has seen *)
Definition w4_cs : list entry :=
  [ mk 0 (KCharV false [(1%nat, 3001%nat)] [(-(2), 525#100); (0, 6); (2, 675#100)] (1#1000) (Some true)) 0 ].
Definition w4_state : cst :=
  {| vars := [(1%nat, Some 1); (3001%nat, Some 6)]; res := []; applied := [(0%nat, false)]; attrs := [];
     stream := [ ([(5%nat, Some 1)], true); ([(5%nat, Some (99#100))], true); ([(5%nat, Some (99#100))], true) ] |}.
Definition stale_on_return_new (cs : list entry) (s : cst) (k : nat) : bool :=
  match run_net 30 false true cs s with
  | Some (Ok, s', t) => match last_run_vars t with Some v => negb (feq_opt (get k v) (get k (vars s'))) | None => false end
  | _ => false
  end.
Lemma tdi_stale_check : stale_on_return_new w4_cs w4_state 3001 = true.
Proof. vm_compute. reflexivity. Qed.
Lemma tdi_restore_refuted :
  exists (cs : list entry) (s s' : cst) t,
    G13 (match ctrl_variables _ cs with Some (co, _) => co | None => [] end) = true /\
    run_net 30 false true cs s = Some (Ok, s', t) /\
    exists v, last_run_vars t = Some v /\ feq_opt (get 3001 v) (get 3001 (vars s')) = false.
Proof.
  exists w4_cs, w4_state. pose proof tdi_stale_check as H. unfold stale_on_return_new in H.
  destruct (run_net 30 false true w4_cs w4_state) as [[[o s'] t]|]; [|discriminate].
  destruct o; try discriminate.
  exists s', t. split; [reflexivity|]. split; [reflexivity|].
  destruct (last_run_vars t) as [v|]; [|discriminate]. exists v. split; [reflexivity|].
  apply negb_true_iff in H. exact H.
Qed.

(* non-vacuity witnesses for the vector theorems: a two-element discrete controller with hunting_limit 2 that steps one
   element and then reports convergence with both elements in their bands *)
Definition tv1 : tapc := {| t_trafo := 1; t_bus := 4; t_min := -(2); t_max := 2; t_dir := true; t_ntd := false |}.
Definition tv2 : tapc := {| t_trafo := 2; t_bus := 5; t_min := -(2); t_max := 2; t_dir := true; t_ntd := false |}.
Definition w5_cs : list entry := [ mk 0 (KDiscV [tv1; tv2] false (99#100) (101#100) (Some 2%nat)) 0 ].
Definition w5_state : cst :=
  {| vars := [(1%nat, Some 0); (2%nat, Some 0)]; res := []; applied := []; attrs := [];
     stream := [ ([(4%nat, Some 1); (5%nat, Some (98#100))], true); ([(4%nat, Some 1); (5%nat, Some (1001#1000))], true) ] |}.
Lemma vector_run_check :
  match run_net 30 false true w5_cs w5_state with
  | Some (Ok, s', t) =>
      feq_opt (get 1 (vars s')) (Some 0) && feq_opt (get 2 (vars s')) (Some (-(1))) &&
      discv_conv [tv1; tv2] false (99#100) (101#100) s' && (3 <? List.length t)%nat &&
      (List.length (geta 0 (attrs s')) =? 2)%nat
  | _ => false
  end = true.
Proof. vm_compute. reflexivity. Qed.

(* ---------------------------------------------------------------- whole runs with vector controllers *)
Lemma G13_map (A B : Type) (g : A -> B) (ls : list (list A)) : G13 (map (map g) ls) = G13 ls.
Proof.
  unfold G13. f_equal. induction ls as [|l ls IH]; [reflexivity|]. cbn [map filter].
  destruct l as [|a l]; cbn [map]; [exact IH | cbn [List.length]; f_equal; exact IH].
Qed.

(* single non-empty level, check_each_level, no restoring TapDependentImpedance: on a normal return every scheduled
   controller reports convergence on the RETURNED state *)
Lemma all_converged_on_returned_state max_iter cod (cs : list entry) s s' t co ir :
  G13r cs = true -> ctrl_variables _ cs = Some (co, ir) -> G13 co = true ->
  run_net max_iter cod true cs s = Some (Ok, s', t) ->
  forall e, In e (List.concat co) -> fst (c_conv (to_ctrl e) s') = true.
Proof.
  intros Gr E G H e He.
  destruct (return_state_is_loop_state max_iter cod true cs s s' t Gr H) as (co' & ir' & s0 & netc & t0 & t1 & E' & L & _).
  rewrite E in E'. inversion E'. subst co' ir'.
  assert (X : Forall (conv_at cst s') (List.concat (map (map to_ctrl) co))).
  { eapply single_level_all_converged; [rewrite G13_map; exact G | | exact L].
    apply Forall_forall. intros l Hl. apply in_map_iff in Hl. destruct Hl as (l0 & <- & _).
    apply Forall_forall. intros c Hc. apply in_map_iff in Hc. destruct Hc as (e0 & <- & _).
    intros x. apply mk_ctrl_pure. }
  rewrite Forall_forall in X. apply X. rewrite <- concat_map. apply in_map. exact He.
Qed.

(* ... hence EVERY element of every scheduled discrete / continuous vector controller is in its band (within tolerance) or
   at the tap limit in the needed direction or without voltage, whatever hunting_limit is *)
Lemma vector_elements_ok_on_return max_iter cod (cs : list entry) s s' t co ir :
  G13r cs = true -> ctrl_variables _ cs = Some (co, ir) -> G13 co = true ->
  run_net max_iter cod true cs s = Some (Ok, s', t) ->
  forall e c, In e (List.concat co) ->
    (forall ts lo up hl, e_obj e = (c, KDiscV ts false lo up hl) -> discv_ok ts lo up s') /\
    (forall tks, e_obj e = (c, KContV tks false) -> contv_ok tks s') /\
    (forall in_res ios pts tol tdi, e_obj e = (c, KCharV in_res ios pts tol tdi) -> Forall (charv_elem_ok in_res pts tol s') ios).
Proof.
  intros Gr E G H e c He.
  pose proof (all_converged_on_returned_state max_iter cod cs s s' t co ir Gr E G H e He) as X.
  unfold to_ctrl in X. split; [|split].
  - intros ts lo up hl Eo. rewrite Eo in X. cbn [fst snd] in X. exact (hunting_never_forces_convergence c ts lo up hl s' X).
  - intros tks Eo. rewrite Eo in X. cbn [fst snd mk_ctrl c_conv] in X. apply contv_converged_iff in X.
    destruct X as [X|X]; [discriminate X | exact X].
  - intros in_res ios pts tol tdi Eo. rewrite Eo in X. cbn [fst snd mk_ctrl c_conv] in X.
    apply charv_converged_iff in X. exact (proj2 X).
Qed.

(* ---------------------------------------------------------------- progress of a vector controller *)
Lemma forallb_false_ex (A : Type) (f : A -> bool) l : forallb f l = false -> exists a, In a l /\ f a = false.
Proof.
  induction l as [|a l IH]; cbn; [discriminate|]. destruct (f a) eqn:E; cbn.
  - intros H. destruct (IH H) as (b & Hb & Fb). exists b. split; [right; exact Hb | exact Fb].
  - intros _. exists a. split; [left; reflexivity | exact E].
Qed.
(* a vector controller that is not converged has an element that is not converged, and (voltage not exactly on a band edge,
   tap inside its bounds) the step moves exactly that element by one tap in the needed direction *)
Lemma discv_not_converged_moves ts lo up s :
  lo <= up -> discv_conv ts false lo up s = false ->
  exists t, In t ts /\ disc_conv (elem t) lo up s = false /\
    forall v x, get (t_bus t) (res s) = Some v -> get (t_trafo t) (vars s) = Some x ->
      t_min t <= x <= t_max t -> ~ v == lo -> ~ v == up ->
      (v < lo /\ disc_incr t lo up (Some v) (Some x) == (if needs_lower_tap t true then -(1) else 1)) \/
      (up < v /\ disc_incr t lo up (Some v) (Some x) == (if needs_lower_tap t false then -(1) else 1)).
Proof.
  intros Hlu H. unfold discv_conv in H. apply forallb_false_ex in H. destruct H as (t & Ht & Hc).
  exists t. split; [exact Ht|]. split; [exact Hc|].
  intros v x Hv Hx Hb N1 N2.
  exact (disc_not_converged_moves (elem t) lo up s v x eq_refl Hv Hx Hb N1 N2 Hlu Hc).
Qed.
