From Coq Require Import ZArith QArith Qabs List Bool Lia Lqa Sorted Permutation.
From PPV Require Import Base.QN C13.Model.
Import ListNotations.
Open Scope Q_scope.

(* ================================================================ abstract loop *)
Section LoopProofs.
  Variable St : Type.
  Variable run : St -> St * bool.
  Notation ctrl := (ctrl St).
  Notation ev := (ev St).

  Definition pure (c : ctrl) : Prop := forall s, snd (c_conv c s) = s.
  Definition conv_at (s : St) (c : ctrl) : Prop := fst (c_conv c s) = true.
  Definition convs (l : list ctrl) (s : St) : list ev := map (fun c => EConv (cid c) true s) l.

  (* a pass reports True exactly when every controller of the level reported convergence; with pure is_converged
     nothing was written and no control_step ran *)
  Lemma pass_true l : forall s s' t,
    Forall pure l -> pass St l s = (true, s', t) ->
    s' = s /\ Forall (conv_at s) l /\ t = convs l s.
  Proof.
    induction l as [|c l IH]; intros s s' t Hp H; cbn in H.
    - inversion H. subst. repeat split. constructor.
    - inversion Hp as [|? ? Hc Hl]. subst.
      destruct (c_conv c s) as [b s1] eqn:E.
      assert (Hs1 : s1 = s) by (specialize (Hc s); rewrite E in Hc; exact Hc).
      destruct b.
      + destruct (pass St l s1) as [[r s2] t2] eqn:E2. inversion H. subst r s2 t.
        destruct (IH _ _ _ Hl E2) as (A & B & C). subst s1. subst s'.
        repeat split.
        * constructor; [unfold conv_at; rewrite E; reflexivity | exact B].
        * cbn. rewrite C. reflexivity.
      + destruct (pass St l (c_step c s1)) as [[r s3] t3]. inversion H.
  Qed.

  Definition is_step (e : ev) : bool := match e with EStep _ _ => true | _ => false end.
  Definition is_run (e : ev) : bool := match e with ERun _ _ => true | _ => false end.

  (* results are fresh on exit: the level did nothing at all, or the last thing that happened before the final round of
     is_converged calls is a calculation whose output is exactly the returned state *)
  Definition fresh_exit (l : list ctrl) (s0 s' : St) (t : list ev) : Prop :=
    (s' = s0 /\ t = convs l s') \/ (exists pre ok, t = pre ++ ERun ok s' :: convs l s').

  Lemma evaluate_last cod l s r t :
    evaluate St run cod l s = (Some r, t) -> exists pre, t = pre ++ [ERun (snd r) (fst r)].
  Proof.
    unfold evaluate. destruct (run s) as [s1 ok]. destruct ok.
    - intros H. inversion H. exists []. reflexivity.
    - destruct cod; [|discriminate].
      destruct (run (apply_all St c_repair l s1)) as [s3 ok3]. intros H. inversion H. subst.
      exists (ERun false s1 :: map (fun c => ERepair (cid c)) l). cbn. reflexivity.
  Qed.

  Lemma level_loop_done fuel : forall cod l s netc rc s' netc' rc' t,
    Forall pure l ->
    level_loop St run fuel cod l s netc rc = (LDone true s' netc' rc', t) ->
    Forall (conv_at s') l /\ fresh_exit l s s' t /\ (rc' < rc + fuel)%nat.
  Proof.
    induction fuel as [|f IH]; intros cod l s netc rc s' netc' rc' t Hp H; cbn in H.
    - inversion H.
    - destruct (pass St l s) as [[cv s1] t1] eqn:E1. destruct cv.
      + inversion H. subst. destruct (pass_true _ _ _ _ Hp E1) as (A & B & C). subst.
        repeat split; [exact B | left; split; reflexivity | lia].
      + destruct (evaluate St run cod l s1) as [[[s2 netc2]|] t2] eqn:E2.
        * destruct (level_loop St run f cod l s2 netc2 (S rc)) as [r t3] eqn:E3.
          inversion H. subst r t.
          destruct (IH _ _ _ _ _ _ _ _ _ Hp E3) as (A & B & C).
          split; [exact A|]. split; [|lia].
          right. destruct (evaluate_last _ _ _ _ _ E2) as [pre Hpre]. cbn in Hpre.
          destruct B as [[B1 B2]|[pre' [ok' B2]]].
          -- subst s'. exists (t1 ++ pre), netc2. rewrite B2, Hpre.
             rewrite <- !app_assoc. reflexivity.
          -- exists (t1 ++ t2 ++ pre'), ok'. rewrite B2. rewrite <- !app_assoc. reflexivity.
        * inversion H.
  Qed.

  Lemma level_loop_exhausted fuel : forall cod l s netc rc s' netc' rc' t,
    level_loop St run fuel cod l s netc rc = (LDone false s' netc' rc', t) -> rc' = (rc + fuel)%nat.
  Proof.
    induction fuel as [|f IH]; intros cod l s netc rc s' netc' rc' t H; cbn in H.
    - inversion H. lia.
    - destruct (pass St l s) as [[cv s1] t1]. destruct cv; [inversion H|].
      destruct (evaluate St run cod l s1) as [[[s2 netc2]|] t2]; [|inversion H].
      destruct (level_loop St run f cod l s2 netc2 (S rc)) as [r t3] eqn:E3. inversion H. subst r.
      apply IH in E3. lia.
  Qed.

  (* the number of calculations of one level never exceeds max_iter + 1 *)
  Lemma level_loop_count fuel : forall cod l s netc rc cc s' netc' rc' t,
    level_loop St run fuel cod l s netc rc = (LDone cc s' netc' rc', t) -> (rc' <= rc + fuel)%nat.
  Proof.
    induction fuel as [|f IH]; intros cod l s netc rc cc s' netc' rc' t H; cbn in H.
    - inversion H. lia.
    - destruct (pass St l s) as [[cv s1] t1]. destruct cv; [inversion H; lia|].
      destruct (evaluate St run cod l s1) as [[[s2 netc2]|] t2]; [|inversion H].
      destruct (level_loop St run f cod l s2 netc2 (S rc)) as [r t3] eqn:E3. inversion H. subst r.
      apply IH in E3. lia.
  Qed.

  Lemma level_loop_true_lt fuel : forall cod l s netc rc s' netc' rc' t,
    level_loop St run fuel cod l s netc rc = (LDone true s' netc' rc', t) -> (rc' < rc + fuel)%nat.
  Proof.
    induction fuel as [|f IH]; intros cod l s netc rc s' netc' rc' t H; cbn in H.
    - inversion H.
    - destruct (pass St l s) as [[cv s1] t1]. destruct cv; [inversion H; lia|].
      destruct (evaluate St run cod l s1) as [[[s2 netc2]|] t2]; [|inversion H].
      destruct (level_loop St run f cod l s2 netc2 (S rc)) as [r t3] eqn:E3. inversion H. subst r.
      apply IH in E3. lia.
  Qed.

  (* exit condition of one level: the check after the loop passes exactly when the loop was left through
     ctrl_converged = True with a converged calculation; otherwise one of the two errors is raised *)
  Lemma exit_or_raise max_iter cod l s netc cc s' netc' rc' t :
    run_level St run max_iter cod l s netc = (LDone cc s' netc' rc', t) ->
    (check_final rc' max_iter netc' = Ok <-> cc = true /\ netc' = true) /\
    (cc = false -> netc = true -> check_final rc' max_iter netc' = ErrCtrl) /\
    (netc = false -> check_final rc' max_iter netc' <> Ok).
  Proof.
    unfold run_level. destruct netc.
    - intros H. destruct cc.
      + pose proof (level_loop_true_lt _ _ _ _ _ _ _ _ _ _ H) as Hlt.
        unfold passes_allowed in Hlt. unfold check_final.
        assert (Hle : (Z.of_nat rc' <= max_iter)%Z) by lia.
        apply Z.ltb_ge in Hle. rewrite Hle.
        split; [|split].
        * split.
          -- intros X. split; [reflexivity|]. destruct netc'; [reflexivity|discriminate].
          -- intros [_ ->]. reflexivity.
        * discriminate.
        * discriminate.
      + apply level_loop_exhausted in H. unfold passes_allowed in H. unfold check_final.
        assert (Hlt : (max_iter < Z.of_nat rc')%Z) by lia.
        apply Z.ltb_lt in Hlt. rewrite Hlt.
        split; [|split].
        * split; [discriminate | intros [X _]; discriminate].
        * reflexivity.
        * discriminate.
    - intros H. inversion H. subst. unfold check_final.
      split; [|split].
      + split; [destruct (max_iter <? Z.of_nat 0)%Z; discriminate | intros [X _]; discriminate].
      + intros _ X. discriminate.
      + intros _. destruct (max_iter <? Z.of_nat 0)%Z; discriminate.
  Qed.

  (* level exit: the returned state is one on which every controller of the level reported convergence, and it is fresh *)
  Lemma level_exit_converged max_iter cod l s netc s' netc' rc' t :
    Forall pure l ->
    run_level St run max_iter cod l s netc = (LDone true s' netc' rc', t) ->
    Forall (conv_at s') l /\ fresh_exit l (apply_all St c_reset l s) s' t.
  Proof.
    unfold run_level. intros Hp. destruct netc.
    - intros H. destruct (level_loop_done _ _ _ _ _ _ _ _ _ _ Hp H) as (A & B & _). split; assumption.
    - intros H. inversion H.
  Qed.

  (* ---- levels *)
  Definition empty_level (l : list ctrl) : Prop := l = [].

  Lemma run_level_empty max_iter cod s netc r t :
    run_level St run max_iter cod [] s netc = (r, t) ->
    exists cc rc, r = LDone cc s netc rc.
  Proof.
    unfold run_level. cbn. destruct netc.
    - destruct (passes_allowed max_iter); cbn; intros H; inversion H; eauto.
    - intros H. inversion H. eauto.
  Qed.

  Lemma empty_levels_noop max_iter cod cel ls : forall s netc rc o s' t,
    Forall empty_level ls -> levels_loop St run max_iter cod cel ls s netc rc = (o, s', t) -> s' = s.
  Proof.
    induction ls as [|l ls IH]; intros s netc rc o s' t He H; cbn in H.
    - inversion H. reflexivity.
    - inversion He as [|? ? Hl Hls]. subst. unfold empty_level in Hl. subst l.
      destruct (run_level St run max_iter cod [] s netc) as [r tr] eqn:E.
      destruct (run_level_empty _ _ _ _ _ _ E) as (cc & rc1 & ->).
      destruct (if cel then check_final rc1 max_iter netc else Ok) eqn:Ec; try (inversion H; reflexivity).
      destruct (levels_loop St run max_iter cod cel ls s netc rc1) as [[o2 s2] t2] eqn:E2.
      inversion H. subst. eapply IH; eauto.
  Qed.

  Definition nonempty (l : list ctrl) : bool := match l with [] => false | _ => true end.

  Lemma G13_cons_nonempty c l ls : G13 ((c :: l) :: ls) = true -> Forall empty_level ls.
  Proof.
    unfold G13. cbn. intros H. apply Nat.leb_le in H.
    assert (Hz : List.length (filter (fun l0 : list ctrl => match l0 with [] => false | _ :: _ => true end) ls) = 0%nat) by lia.
    apply length_zero_iff_nil in Hz.
    apply Forall_forall. intros x Hx. unfold empty_level. destruct x as [|y x]; [reflexivity|].
    assert (Hin : In (y :: x) (filter (fun l0 : list ctrl => match l0 with [] => false | _ :: _ => true end) ls))
      by (apply filter_In; split; [exact Hx | reflexivity]).
    rewrite Hz in Hin. destruct Hin.
  Qed.

  (* G13 (one non-empty level), every level checked: a normal return means every controller reported convergence on the
     returned state *)
  Lemma single_level_all_converged max_iter cod ls : forall s netc rc s' t,
    G13 ls = true -> Forall (Forall pure) ls ->
    levels_loop St run max_iter cod true ls s netc rc = (Ok, s', t) ->
    Forall (conv_at s') (List.concat ls).
  Proof.
    induction ls as [|l ls IH]; intros s netc rc s' t HG Hp H.
    - constructor.
    - inversion Hp as [|? ? Hpl Hpls]. subst. cbn in H.
      destruct (run_level St run max_iter cod l s netc) as [r tr] eqn:E.
      destruct r as [cc s1 netc1 rc1|s1]; [|inversion H].
      destruct (check_final rc1 max_iter netc1) eqn:Ec; try (inversion H; fail).
      destruct (levels_loop St run max_iter cod true ls s1 netc1 rc1) as [[o2 s2] t2] eqn:E2.
      inversion H. subst o2 s2 t.
      destruct l as [|c l].
      + cbn. destruct (run_level_empty _ _ _ _ _ _ E) as (cc' & rc' & Hr). inversion Hr. subst.
        eapply IH; eauto.
      + pose proof (G13_cons_nonempty _ _ _ HG) as Hemp.
        pose proof (empty_levels_noop _ _ _ _ _ _ _ _ _ _ Hemp E2) as ->.
        destruct (exit_or_raise _ _ _ _ _ _ _ _ _ _ E) as (X & _ & _).
        apply X in Ec. destruct Ec as [-> ->].
        destruct (level_exit_converged _ _ _ _ _ _ _ _ _ Hpl E) as (A & _).
        cbn [List.concat]. apply Forall_app. split; [exact A|].
        assert (Hnil : List.concat ls = []).
        { clear -Hemp. induction ls as [|x ls IHl]; [reflexivity|]. inversion Hemp. subst. unfold empty_level in *. subst. cbn. auto. }
        rewrite Hnil. constructor.
  Qed.

  (* any number of levels, any check_each_level: the controllers of the LAST level reported convergence on the returned state *)
  Lemma last_level_converged max_iter cod cel ls : forall l s netc rc s' t,
    Forall pure l ->
    levels_loop St run max_iter cod cel (ls ++ [l]) s netc rc = (Ok, s', t) ->
    Forall (conv_at s') l.
  Proof.
    induction ls as [|l0 ls IH]; intros l s netc rc s' t Hp H; cbn in H.
    - destruct (run_level St run max_iter cod l s netc) as [r tr] eqn:E.
      destruct r as [cc s1 netc1 rc1|s1]; [|inversion H].
      destruct (if cel then check_final rc1 max_iter netc1 else Ok) eqn:Ec; try (inversion H; fail).
      inversion H. subst s' t.
      assert (Hfin : check_final rc1 max_iter netc1 = Ok) by (destruct (check_final rc1 max_iter netc1); congruence).
      destruct (exit_or_raise _ _ _ _ _ _ _ _ _ _ E) as (X & _ & _).
      apply X in Hfin. destruct Hfin as [-> ->].
      destruct (level_exit_converged _ _ _ _ _ _ _ _ _ Hp E) as (A & _). exact A.
    - destruct (run_level St run max_iter cod l0 s netc) as [r tr] eqn:E.
      destruct r as [cc s1 netc1 rc1|s1]; [|inversion H].
      destruct (if cel then check_final rc1 max_iter netc1 else Ok) eqn:Ec; try (inversion H; fail).
      destruct (levels_loop St run max_iter cod cel (ls ++ [l]) s1 netc1 rc1) as [[o2 s2] t2] eqn:E2.
      inversion H. subst o2 s2 t. eapply IH; eauto.
  Qed.

  (* ---- invariants: a predicate kept by every controller method and by the calculation holds for the returned state *)
  Variable P : St -> Prop.
  Definition keeps (c : ctrl) : Prop :=
    (forall s, P s -> P (snd (c_conv c s))) /\ (forall s, P s -> P (c_step c s)) /\
    (forall s, P s -> P (c_repair c s)) /\ (forall s, P s -> P (c_init c s)) /\
    (forall s, P s -> P (c_reset c s)) /\ (forall s, P s -> P (c_final c s)).
  Hypothesis run_keeps : forall s, P s -> P (fst (run s)).

  Definition ev_state (e : ev) : option St :=
    match e with EConv _ _ s => Some s | EStep _ s => Some s | ERun _ s => Some s | ERepair _ => None end.
  Definition trace_ok (t : list ev) : Prop := forall e s, In e t -> ev_state e = Some s -> P s.

  Lemma trace_ok_app t1 t2 : trace_ok t1 -> trace_ok t2 -> trace_ok (t1 ++ t2).
  Proof. intros A B e s Hin He. apply in_app_or in Hin. destruct Hin; [eapply A | eapply B]; eauto. Qed.

  Lemma apply_all_keeps (f : ctrl -> St -> St) l : forall s,
    (forall c, In c l -> forall s, P s -> P (f c s)) -> P s -> P (apply_all St f l s).
  Proof.
    unfold apply_all. induction l as [|c l IH]; intros s Hf Hs; cbn; [exact Hs|].
    apply IH; [intros; apply Hf; [right|]; assumption | apply Hf; [left; reflexivity | exact Hs]].
  Qed.

  Lemma pass_keeps l : forall s r s' t,
    Forall keeps l -> P s -> pass St l s = (r, s', t) -> P s' /\ trace_ok t.
  Proof.
    induction l as [|c l IH]; intros s r s' t Hk Hs H; cbn in H.
    - inversion H. subst. split; [exact Hs | intros e s0 []].
    - inversion Hk as [|? ? Hc Hl]. subst. destruct Hc as (K1 & K2 & _).
      destruct (c_conv c s) as [b s1] eqn:E.
      assert (Hs1 : P s1) by (specialize (K1 s Hs); rewrite E in K1; exact K1).
      destruct b.
      + destruct (pass St l s1) as [[r2 s2] t2] eqn:E2. inversion H. subst.
        destruct (IH _ _ _ _ Hl Hs1 E2) as [A B]. split; [exact A|].
        intros e s0 [<-|Hin] He; [inversion He; subst; exact Hs1 | eapply B; eauto].
      + destruct (pass St l (c_step c s1)) as [[r2 s3] t3] eqn:E2. inversion H. subst.
        destruct (IH _ _ _ _ Hl (K2 _ Hs1) E2) as [A B]. split; [exact A|].
        intros e s0 [<-|[<-|Hin]] He; [inversion He; subst; exact Hs1 | inversion He; subst; apply K2; exact Hs1 | eapply B; eauto].
  Qed.

  Lemma evaluate_keeps cod l s r t :
    Forall keeps l -> P s -> evaluate St run cod l s = (r, t) ->
    trace_ok t /\ match r with Some (s', _) => P s' | None => True end.
  Proof.
    intros Hk Hs. unfold evaluate. pose proof (run_keeps s Hs) as H1.
    destruct (run s) as [s1 ok]. cbn in H1. destruct ok.
    - intros H. inversion H. subst. split; [|exact H1]. intros e s0 [<-|[]] He. inversion He. subst. exact H1.
    - destruct cod.
      + assert (H2 : P (apply_all St c_repair l s1)).
        { apply apply_all_keeps; [|exact H1]. intros c Hc s0 Hs0. rewrite Forall_forall in Hk.
          destruct (Hk c Hc) as (_ & _ & K3 & _). apply K3. exact Hs0. }
        pose proof (run_keeps _ H2) as H3.
        destruct (run (apply_all St c_repair l s1)) as [s3 ok3]. cbn in H3. intros H. inversion H. subst.
        split; [|exact H3].
        intros e s0 [<-|Hin] He; [inversion He; subst; exact H1|].
        apply in_app_or in Hin. destruct Hin as [Hin|[<-|[]]].
        * apply in_map_iff in Hin. destruct Hin as (c & <- & _). inversion He.
        * inversion He. subst. exact H3.
      + intros H. inversion H. subst. split; [|exact I]. intros e s0 [<-|[]] He. inversion He. subst. exact H1.
  Qed.

  Lemma level_loop_keeps fuel : forall cod l s netc rc r t,
    Forall keeps l -> P s -> level_loop St run fuel cod l s netc rc = (r, t) ->
    trace_ok t /\ match r with LDone _ s' _ _ => P s' | LRaise s' => P s' end.
  Proof.
    induction fuel as [|f IH]; intros cod l s netc rc r t Hk Hs H; cbn in H.
    - inversion H. subst. split; [intros e s0 []|exact Hs].
    - destruct (pass St l s) as [[cv s1] t1] eqn:E1.
      destruct (pass_keeps _ _ _ _ _ Hk Hs E1) as [A B]. destruct cv.
      + inversion H. subst. split; assumption.
      + destruct (evaluate St run cod l s1) as [ro t2] eqn:E2.
        destruct (evaluate_keeps _ _ _ _ _ Hk A E2) as [C D].
        destruct ro as [[s2 netc2]|].
        * destruct (level_loop St run f cod l s2 netc2 (S rc)) as [r3 t3] eqn:E3. inversion H. subst.
          destruct (IH _ _ _ _ _ _ _ Hk D E3) as [X Y]. split; [|exact Y].
          apply trace_ok_app; [exact B|]. apply trace_ok_app; assumption.
        * inversion H. subst. split; [apply trace_ok_app; assumption | exact A].
  Qed.

  Lemma levels_loop_keeps max_iter cod cel ls : forall s netc rc o s' t,
    Forall (Forall keeps) ls -> P s -> levels_loop St run max_iter cod cel ls s netc rc = (o, s', t) ->
    trace_ok t /\ P s'.
  Proof.
    induction ls as [|l ls IH]; intros s netc rc o s' t Hk Hs H; cbn in H.
    - inversion H. subst. split; [intros e s0 []|exact Hs].
    - inversion Hk as [|? ? Hl Hls]. subst.
      assert (H0 : P (apply_all St c_reset l s)).
      { apply apply_all_keeps; [|exact Hs]. intros c Hc s0 Hs0. rewrite Forall_forall in Hl.
        destruct (Hl c Hc) as (_ & _ & _ & _ & K5 & _). apply K5. exact Hs0. }
      destruct (run_level St run max_iter cod l s netc) as [r tr] eqn:E.
      assert (HR : trace_ok tr /\ match r with LDone _ s' _ _ => P s' | LRaise s' => P s' end).
      { unfold run_level in E. destruct netc.
        - eapply level_loop_keeps; eauto.
        - inversion E. subst. split; [intros e s0 []|exact H0]. }
      destruct HR as [T1 T2].
      destruct r as [cc s1 netc1 rc1|s1].
      + destruct (if cel then check_final rc1 max_iter netc1 else Ok) eqn:Ec;
          try (inversion H; subst; split; assumption).
        destruct (levels_loop St run max_iter cod cel ls s1 netc1 rc1) as [[o2 s2] t2] eqn:E2.
        inversion H. subst. destruct (IH _ _ _ _ _ _ Hls T2 E2) as [X Y].
        split; [apply trace_ok_app; assumption | exact Y].
      + inversion H. subst. split; assumption.
  Qed.

  (* every state written to the trace by run_control, and the returned state, satisfy the invariant *)
  Lemma run_control_keeps max_iter cod cel ir ls s o s' t :
    Forall (Forall keeps) ls -> P s ->
    run_control St run max_iter cod cel ir ls s = (o, s', t) -> trace_ok t /\ P s'.
  Proof.
    intros Hk Hs. unfold run_control.
    assert (Hall : forall c, In c (List.concat ls) -> keeps c).
    { intros c Hc. apply in_concat in Hc. destruct Hc as (l & Hl & Hc).
      rewrite Forall_forall in Hk. specialize (Hk l Hl). rewrite Forall_forall in Hk. apply Hk. exact Hc. }
    assert (H0 : P (apply_all St c_init (List.concat ls) s)).
    { apply apply_all_keeps; [|exact Hs]. intros c Hc s0 Hs0. destruct (Hall c Hc) as (_ & _ & _ & K4 & _). apply K4. exact Hs0. }
    set (s0 := apply_all St c_init (List.concat ls) s) in *.
    destruct ir.
    - pose proof (run_keeps _ H0) as H1. destruct (run s0) as [s1 ok]. cbn in H1. destruct ok; cbn.
      + destruct (levels_loop St run max_iter cod cel ls s1 true 0) as [[o2 s2] t2] eqn:E.
        destruct (levels_loop_keeps _ _ _ _ _ _ _ _ _ _ Hk H1 E) as [X Y].
        assert (T0 : trace_ok [ERun true s1]) by (intros e x [<-|[]] He; inversion He; subst; exact H1).
        destruct o2; intros H; inversion H; subst; (split; [exact (trace_ok_app _ _ T0 X)|]); try exact Y.
        apply apply_all_keeps; [|exact Y]. intros c Hc x Hx. destruct (Hall c Hc) as (_ & _ & _ & _ & _ & K6). apply K6. exact Hx.
      + intros H. inversion H. subst. split; [|exact H1]. intros e x [<-|[]] He. inversion He. subst. exact H1.
    - cbn. destruct (levels_loop St run max_iter cod cel ls s0 true 0) as [[o2 s2] t2] eqn:E.
      destruct (levels_loop_keeps _ _ _ _ _ _ _ _ _ _ Hk H0 E) as [X Y].
      destruct o2; intros H; inversion H; subst; (split; [exact X|]); try exact Y.
      apply apply_all_keeps; [|exact Y]. intros c Hc x Hx. destruct (Hall c Hc) as (_ & _ & _ & _ & _ & K6). apply K6. exact Hx.
  Qed.
End LoopProofs.
