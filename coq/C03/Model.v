(* C03 — executable definitions on top of the shared branch model C02/Model.v:
   the reported branch loss (results_branch.py :115 / :316 / :551  pl_mw = p_from + p_to) and, as the spec side, the
   power dissipated in the series resistance and the two shunt conductances of the pi circuit behind the ideal transformer. *)
From Coq Require Import ZArith QArith List Bool String.
From PPV Require Import Base.QN Base.QC Base.Out C31.Model C02.Model.
Import ListNotations.
Open Scope Q_scope.

(* pl_mw, ql_mvar as the impl reports them *)
Definition loss_reported (br : brow) (e vf vt : C) (sn : Q) : C :=
  let s := flows (stamps_core br e) vf vt sn in pl (fst s) (snd s).

(* S_N ( Re(1/z) |v_f/n - v_t|^2 + g_f/2 |v_f/n|^2 + g_t/2 |v_t|^2 ),  n = TAP e^{j SHIFT} *)
Definition dissipation (br : brow) (e vf vt : C) (sn : Q) : Q :=
  let tapm := if qeqb (b_tap br) 0 then 1 else b_tap br in
  let vf' := Cdiv vf (Cscale tapm e) in
  let d := Csub vf' vt in
  qmul sn (qadd (qadd (qmul (qdiv (b_r br) (cnorm2 (mkC (b_r br) (b_x br)))) (cnorm2 d))
                      (qmul (qdiv (b_g br) 2) (cnorm2 vf')))
                (qmul (qdiv (qadd (b_g br) (b_ga br)) 2) (cnorm2 vt))).

Definition run_loss (br : brow) (e vf vt : C) (sn : Q) : out :=
  if czero (mkC (b_r br) (b_x br)) then OErr "FloatingPointError"
  else OL [oc (loss_reported br e vf vt sn); oq (dissipation br e vf vt sn)].
(* DC: reported flows of a branch *)
Definition run_dc_loss (br : brow) (pi vaf vat sn : Q) : out :=
  match dc_b br with
  | Raise er => OErr er
  | Ok b => let r := dc_flow b (b_shift br) pi vaf vat sn in oq (qadd (fst r) (snd r))
  end.
