(* C03 — energy conservation / non-negative losses of passive branches, on the shared branch model C02/Model.v *)
From Coq Require Import ZArith QArith List Bool Lia Lqa Setoid Morphisms.
From PPV Require Import Base.QN Base.QC C31.Model C02.Model C02.CPlain C02.CField C02.Proofs.
Open Scope Q_scope.

Definition csq (z : C) : Q := re z * re z + im z * im z.
Lemma csq_nonneg z : 0 <= csq z. Proof. unfold csq. nra. Qed.
Lemma add_nonneg a b : 0 <= a -> 0 <= b -> 0 <= a + b. Proof. intros; lra. Qed.

(* ---------------------------------------------------------------- pi model (lines, impedances with zft = ztf, xward,
   switch branches, pi-model transformers) with an arbitrary complex tap:
   P_from + P_to = S_N ( Re(1/z) |v_f/n - v_t|^2 + g_f/2 |v_f/n|^2 + g_t/2 |v_t|^2 ) *)
Lemma pi_loss_identity : forall br e vf vt sn,
  b_stat br = true -> b_ra br == 0 -> b_xa br == 0 ->
  ~ (b_r br) * (b_r br) + (b_x br) * (b_x br) == 0 -> ~ b_tap br == 0 -> re e * re e + im e * im e == 1 ->
  let s := flows (stamps_core br e) vf vt sn in
  let vf' := Cdiv vf (Cscale (b_tap br) e) in
  re (fst s) + re (snd s) ==
  sn * (b_r br / (b_r br * b_r br + b_x br * b_x br) * csq (Csub vf' vt)
        + b_g br / 2 * csq vf' + (b_g br + b_ga br) / 2 * csq vt).
Proof.
  intros [r x g b ra xa ga ba tap shift stat rate] [er ei] [vfr vfi] [vtr vti] sn.
  cbn [b_r b_x b_g b_b b_ra b_xa b_ga b_ba b_tap b_shift b_stat b_rate re im].
  intros Hs Hra Hxa Hz Ht He. subst stat.
  unfold flows, stamps_core, csq.
  cbn [b_r b_x b_g b_b b_ra b_xa b_ga b_ba b_tap b_shift b_stat b_rate fst snd].
  rewrite (qeqb_false _ _ Ht).
  pose proof (tap_unit_nz tap er ei Ht He) as Hn.
  cunfold. qstrip. rewrite Hra, Hxa.
  field. repeat split; try assumption; try (apply norm_sq_nz; assumption); try (apply norm_conj_nz; assumption).
  all: intro K; apply Hz; rewrite <- K; ring.
Qed.

Lemma pi_loss_nonneg : forall br e vf vt sn,
  b_stat br = true -> b_ra br == 0 -> b_xa br == 0 ->
  ~ (b_r br) * (b_r br) + (b_x br) * (b_x br) == 0 -> ~ b_tap br == 0 -> re e * re e + im e * im e == 1 ->
  0 <= sn -> 0 <= b_r br -> 0 <= b_g br -> 0 <= b_g br + b_ga br ->
  0 <= re (pl (fst (flows (stamps_core br e) vf vt sn)) (snd (flows (stamps_core br e) vf vt sn))).
Proof.
  intros br e vf vt sn Hs Hra Hxa Hz Ht He Hsn Hr Hg Hgt.
  assert (E : re (pl (fst (flows (stamps_core br e) vf vt sn)) (snd (flows (stamps_core br e) vf vt sn)))
              == re (fst (flows (stamps_core br e) vf vt sn)) + re (snd (flows (stamps_core br e) vf vt sn))).
  { unfold pl, Cadd. cbn [re]. apply qadd_correct. }
  rewrite E, (pi_loss_identity br e vf vt sn Hs Hra Hxa Hz Ht He).
  set (vf' := Cdiv vf (Cscale (b_tap br) e)).
  pose proof (csq_nonneg (Csub vf' vt)) as P1. pose proof (csq_nonneg vf') as P2. pose proof (csq_nonneg vt) as P3.
  assert (Hd : 0 < b_r br * b_r br + b_x br * b_x br).
  { destruct (Qlt_le_dec 0 (b_r br * b_r br + b_x br * b_x br)) as [H|H]; [exact H|]. exfalso. apply Hz. nra. }
  assert (Q1 : 0 <= b_r br / (b_r br * b_r br + b_x br * b_x br)).
  { apply Qle_shift_div_l; [exact Hd | rewrite Qmult_0_l; exact Hr]. }
  assert (Q2 : 0 <= b_g br / 2) by (apply Qle_shift_div_l; [reflexivity | rewrite Qmult_0_l; exact Hg]).
  assert (Q3 : 0 <= (b_g br + b_ga br) / 2) by (apply Qle_shift_div_l; [reflexivity | rewrite Qmult_0_l; exact Hgt]).
  apply Qmult_le_0_compat; [exact Hsn|].
  repeat apply add_nonneg; apply Qmult_le_0_compat; assumption.
Qed.

(* ---------------------------------------------------------------- T model: passivity of the T circuit and of the
   pi parameters _wye_delta derives from it *)
Definition port_power (vf vt : C) (i : C * C) : C := Cadd (Cmul vf (Cconj (fst i))) (Cmul vt (Cconj (snd i))).

Lemma t_passive : forall za zb yc vm It,
  let If := Csub (Cmul yc vm) It in
  re (port_power (Cadd vm (Cmul za If)) (Cadd vm (Cmul zb It)) (If, It))
  == re za * csq If + re zb * csq It + re yc * csq vm.
Proof.
  intros [a1 a2] [b1 b2] [g b] [m1 m2] [t1 t2]. unfold port_power, csq. cbn [fst snd].
  cunfold. qstrip. ring.
Qed.

Global Instance port_power_proper : Proper (Ceq ==> Ceq ==> Ceq2 ==> Ceq) port_power.
Proof.
  intros a a' Ha b b' Hb [i1 i2] [j1 j2] [H1 H2]. unfold port_power. cbn [fst snd] in *.
  rewrite Ha, Hb, H1, H2. reflexivity.
Qed.
Global Instance csq_proper : Proper (Ceq ==> Qeq) csq.
Proof. intros a b [H1 H2]. unfold csq. rewrite H1, H2. reflexivity. Qed.

Lemma t_circuit_loss_nonneg : forall za zb yc vf vt,
  ~ za ==c C0 -> ~ zb ==c C0 -> ~ Cadd (Cadd za zb) (Cmul (Cmul za zb) yc) ==c C0 ->
  0 <= re za -> 0 <= re zb -> 0 <= re yc ->
  0 <= re (port_power vf vt (t_circuit_I za zb yc vf vt)).
Proof.
  intros za zb yc vf vt Ha Hb Hd Pa Pb Pc.
  unfold t_circuit_I.
  set (vm := Cdiv (Cadd (Cdiv vf za) (Cdiv vt zb)) (Cadd (Cadd (Cinv za) (Cinv zb)) yc)).
  set (It := Cdiv (Csub vt vm) zb).
  assert (Hd' : ~ Cadd (Cadd zb za) (Cmul yc (Cmul za zb)) ==c C0) by (intro K; apply Hd; rewrite <- K; ring).
  assert (EI : Cdiv (Csub vf vm) za ==c Csub (Cmul yc vm) It).
  { unfold It, vm. field. repeat split; assumption. }
  assert (Ef : vf ==c Cadd vm (Cmul za (Csub (Cmul yc vm) It))).
  { rewrite <- EI. field. exact Ha. }
  assert (Et : vt ==c Cadd vm (Cmul zb It)).
  { unfold It. field. exact Hb. }
  assert (E : port_power vf vt (Cdiv (Csub vf vm) za, It) ==c
              port_power (Cadd vm (Cmul za (Csub (Cmul yc vm) It))) (Cadd vm (Cmul zb It)) (Csub (Cmul yc vm) It, It)).
  { apply port_power_proper; [exact Ef | exact Et | split; [exact EI | reflexivity]]. }
  rewrite E, t_passive.
  pose proof (csq_nonneg (Csub (Cmul yc vm) It)). pose proof (csq_nonneg It). pose proof (csq_nonneg vm).
  repeat apply add_nonneg; apply Qmult_le_0_compat; assumption.
Qed.

(* the pi parameters returned by _wye_delta (trafo_model = "t") draw non-negative active power for all terminal
   voltages when the T circuit is passive: r*rr >= 0, r*(1-rr) >= 0, g >= 0 *)
Lemma t_model_loss_nonneg : forall r x g b rr xr vf vt,
  let za := wd_za r x rr xr in let zb := wd_zb r x rr xr in let yc := mkC g b in
  ~ za ==c C0 -> ~ zb ==c C0 -> ~ yc ==c C0 ->
  ~ Cadd (Cadd za zb) (Cmul (Cmul za zb) yc) ==c C0 ->
  0 <= re za -> 0 <= re zb -> 0 <= g ->
  let '(r', x', g', b', ga, ba) := wye_delta_core r x g b rr xr in
  0 <= re (port_power vf vt (pi_circuit_I r' x' g' b' ga ba vf vt)).
Proof.
  intros r x g b rr xr vf vt za zb yc Ha Hb Hc Hd Pa Pb Pg.
  pose proof (wye_delta_two_port r x g b rr xr vf vt Ha Hb Hc Hd) as W.
  destruct (wye_delta_core r x g b rr xr) as [[[[[r' x'] g'] b'] ga] ba].
  assert (E : port_power vf vt (pi_circuit_I r' x' g' b' ga ba vf vt) ==c port_power vf vt (t_circuit_I za zb yc vf vt)).
  { apply port_power_proper; [reflexivity | reflexivity | exact W]. }
  rewrite E. apply t_circuit_loss_nonneg; assumption.
Qed.

(* ---------------------------------------------------------------- DC power flow: lossless *)
Lemma dc_branch_lossless : forall b shift pi vaf vat sn,
  fst (dc_flow b shift pi vaf vat sn) + snd (dc_flow b shift pi vaf vat sn) == 0.
Proof. exact dc_lossless. Qed.

(* ---------------------------------------------------------------- global conservation (double counting)
   if every bus balances (injection = sum of the terminal flows of the branches at the bus), the sum of all
   injections (generation - consumption - shunts) equals the sum of all branch losses *)
From Coq Require Import List.
Import ListNotations.
Record bflow := { bf_f : nat; bf_t : nat; bf_pf : Q; bf_pt : Q }.
Fixpoint qsum (l : list Q) : Q := match l with [] => 0 | a :: l' => a + qsum l' end.
Definition at_bus (k : nat) (b : bflow) : Q :=
  (if Nat.eqb (bf_f b) k then bf_pf b else 0) + (if Nat.eqb (bf_t b) k then bf_pt b else 0).
Definition bus_outflow (brs : list bflow) (k : nat) : Q := qsum (map (at_bus k) brs).

Lemma qsum_indicator (buses : list nat) n v : NoDup buses -> In n buses ->
  qsum (map (fun k => if Nat.eqb n k then v else 0) buses) == v.
Proof.
  induction buses as [|k l IH]; intros Hnd Hin; [inversion Hin|].
  inversion Hnd as [|? ? Hk Hl]; subst. cbn [map qsum].
  destruct (Nat.eqb n k) eqn:E.
  - apply Nat.eqb_eq in E. subst k.
    assert (Z : qsum (map (fun k => if Nat.eqb n k then v else 0) l) == 0).
    { clear IH Hnd Hl Hin. induction l as [|a l IH]; [reflexivity|]. cbn [map qsum].
      destruct (Nat.eqb n a) eqn:E.
      + apply Nat.eqb_eq in E. subst a. exfalso. apply Hk. left. reflexivity.
      + rewrite IH; [ring | intro K; apply Hk; right; exact K]. }
    rewrite Z. ring.
  - destruct Hin as [->|Hin]; [rewrite Nat.eqb_refl in E; discriminate|].
    rewrite (IH Hl Hin). ring.
Qed.

Lemma qsum_map_add {A} (f g : A -> Q) l : qsum (map (fun a => f a + g a) l) == qsum (map f l) + qsum (map g l).
Proof. induction l as [|a l IH]; cbn [map qsum]; [ring | rewrite IH; ring]. Qed.

Lemma global_conservation : forall (buses : list nat) (brs : list bflow),
  NoDup buses -> (forall b, In b brs -> In (bf_f b) buses /\ In (bf_t b) buses) ->
  qsum (map (bus_outflow brs) buses) == qsum (map (fun b => bf_pf b + bf_pt b) brs).
Proof.
  intros buses brs Hnd. induction brs as [|b brs IH]; intros Hin.
  - unfold bus_outflow. cbn [map qsum]. clear Hnd Hin. induction buses as [|k l IHl]; cbn [map qsum]; [reflexivity|].
    rewrite IHl. ring.
  - assert (E : qsum (map (bus_outflow (b :: brs)) buses)
                == qsum (map (fun k => at_bus k b) buses) + qsum (map (bus_outflow brs) buses)).
    { unfold bus_outflow. cbn [map qsum]. apply (qsum_map_add (fun k => at_bus k b) (fun k => qsum (map (at_bus k) brs))). }
    rewrite E, IH; [|intros b' Hb'; apply Hin; right; exact Hb'].
    cbn [map qsum]. destruct (Hin b (or_introl eq_refl)) as [Hf Ht].
    unfold at_bus. rewrite (qsum_map_add (fun k => if Nat.eqb (bf_f b) k then bf_pf b else 0)
                                         (fun k => if Nat.eqb (bf_t b) k then bf_pt b else 0)).
    rewrite (qsum_indicator buses (bf_f b) (bf_pf b) Hnd Hf), (qsum_indicator buses (bf_t b) (bf_pt b) Hnd Ht). ring.
Qed.

(* corollary in the property's words: nodal balances  =>  sum(generation - consumption) = sum(losses) *)
Lemma conservation_from_nodal_balance : forall buses brs (inj : nat -> Q),
  NoDup buses -> (forall b, In b brs -> In (bf_f b) buses /\ In (bf_t b) buses) ->
  (forall k, In k buses -> inj k == bus_outflow brs k) ->
  qsum (map inj buses) == qsum (map (fun b => bf_pf b + bf_pt b) brs).
Proof.
  intros buses brs inj Hnd Hin Hbal. rewrite <- (global_conservation buses brs Hnd Hin).
  clear Hnd Hin. induction buses as [|k l IH]; cbn [map qsum]; [reflexivity|].
  rewrite (Hbal k (or_introl eq_refl)), IH; [reflexivity | intros j Hj; apply Hbal; right; exact Hj].
Qed.

(* ---------------------------------------------------------------- the executable [dissipation] of C03/Model.v *)
From PPV Require Import C03.Model.
Lemma loss_is_dissipation : forall br e vf vt sn,
  b_stat br = true -> b_ra br == 0 -> b_xa br == 0 ->
  ~ (b_r br) * (b_r br) + (b_x br) * (b_x br) == 0 -> ~ b_tap br == 0 -> re e * re e + im e * im e == 1 ->
  re (loss_reported br e vf vt sn) == dissipation br e vf vt sn.
Proof.
  intros br e vf vt sn Hs Hra Hxa Hz Ht He.
  unfold loss_reported.
  assert (E : re (pl (fst (flows (stamps_core br e) vf vt sn)) (snd (flows (stamps_core br e) vf vt sn)))
              == re (fst (flows (stamps_core br e) vf vt sn)) + re (snd (flows (stamps_core br e) vf vt sn))).
  { unfold pl, Cadd. cbn [re]. apply qadd_correct. }
  rewrite E, (pi_loss_identity br e vf vt sn Hs Hra Hxa Hz Ht He).
  unfold dissipation, csq. rewrite (qeqb_false _ _ Ht).
  set (vf' := Cdiv vf (Cscale (b_tap br) e)). set (d := Csub vf' vt).
  unfold cnorm2. cbn [re im]. qstrip. reflexivity.
Qed.
Lemma dissipation_nonneg : forall br e vf vt sn,
  b_stat br = true -> b_ra br == 0 -> b_xa br == 0 ->
  ~ (b_r br) * (b_r br) + (b_x br) * (b_x br) == 0 -> ~ b_tap br == 0 -> re e * re e + im e * im e == 1 ->
  0 <= sn -> 0 <= b_r br -> 0 <= b_g br -> 0 <= b_g br + b_ga br ->
  0 <= dissipation br e vf vt sn.
Proof.
  intros. rewrite <- (loss_is_dissipation br e vf vt sn) by assumption.
  unfold loss_reported. apply pi_loss_nonneg; assumption.
Qed.

(* ---------------------------------------------------------------- which element kinds meet the hypotheses:
   the rows built for lines, xward branches, impedance switches and transformers (pi and T model, 2W and each 3W
   block) have a symmetric series impedance (BR_R_ASYM = BR_X_ASYM = 0) *)
Lemma line_row_symmetric : forall sn fhz pi sqrt3 base vnfrom l,
  let br := line_branch sn fhz pi sqrt3 base vnfrom l in
  b_ra br = 0 /\ b_xa br = 0 /\ b_ga br = 0 /\ b_tap br = 1 /\ b_stat br = l_in l.
Proof. intros. unfold br, line_branch. cbn. repeat split; reflexivity. Qed.
Lemma xward_switch_rows_symmetric : forall sn basekv r x is z rx oq_,
  b_ra (xward_branch sn basekv r x is) = 0 /\ b_xa (xward_branch sn basekv r x is) = 0 /\
  b_ra (switch_branch sn basekv z rx oq_) = 0 /\ b_xa (switch_branch sn basekv z rx oq_) = 0.
Proof. intros. unfold xward_branch, switch_branch. cbn. repeat split; reflexivity. Qed.
Lemma trafo_row_symmetric : forall sn tm t o vnh vnl shift basehv baselv br,
  trafo_branch sn tm t o vnh vnl shift basehv baselv = Ok br -> b_ra br = 0 /\ b_xa br = 0.
Proof.
  intros sn tm t o vnh vnl shift basehv baselv br. unfold trafo_branch.
  destruct (qleb (t_df t) 0); [discriminate|].
  destruct (trafo_rx sn t o vnl baselv) as [r x]. destruct (trafo_gb sn t o vnl baselv) as [g b].
  destruct tm.
  - destruct (wye_delta r x g b (t_rr t) (t_xr t)) as [[[[[[r' x'] g'] b'] ga] ba]|e]; [|discriminate].
    intros H. injection H as <-. cbn. split; reflexivity.
  - intros H. injection H as <-. cbn. split; reflexivity.
Qed.
(* the pi-model transformer row also has non-negative resistance / conductance for non-negative vkr, pfe *)
Lemma line_row_passive : forall sn fhz pi sqrt3 base vnfrom l,
  l_temp l = None -> 0 < sn -> ~ base == 0 -> 0 < l_par l -> 0 <= l_r l -> 0 <= l_len l -> 0 <= l_g l ->
  let br := line_branch sn fhz pi sqrt3 base vnfrom l in 0 <= b_r br /\ 0 <= b_g br /\ 0 <= b_g br + b_ga br.
Proof.
  intros sn fhz pi sqrt3 base vnfrom l Ht Hsn Hb Hp Hr Hl Hg br. unfold br, line_branch. rewrite Ht.
  cbn [b_r b_g b_ga]. unfold qsq.
  assert (Hbb : 0 < base * base) by nra.
  assert (HR : 0 < base * base / sn) by (apply Qlt_shift_div_l; [exact Hsn | rewrite Qmult_0_l; exact Hbb]).
  repeat split.
  - qstrip. apply Qle_shift_div_l; [exact Hp|]. rewrite Qmult_0_l.
    apply Qle_shift_div_l; [exact HR|]. rewrite Qmult_0_l. apply Qmult_le_0_compat; assumption.
  - qstrip. apply Qmult_le_0_compat; [apply Qmult_le_0_compat; [apply Qmult_le_0_compat; [exact Hg | discriminate] | apply Qlt_le_weak; exact HR] | apply Qmult_le_0_compat; [exact Hl | apply Qlt_le_weak; exact Hp]].
  - assert (E : 0 <= qmul (qmul (qmul (l_g l) (1 # 1000000)) (qdiv (qmul base base) sn)) (qmul (l_len l) (l_par l))).
    { qstrip. apply Qmult_le_0_compat; [apply Qmult_le_0_compat; [apply Qmult_le_0_compat; [exact Hg | discriminate] | apply Qlt_le_weak; exact HR] | apply Qmult_le_0_compat; [exact Hl | apply Qlt_le_weak; exact Hp]]. }
    lra.
Qed.

(* ---------------------------------------------------------------- T-model transformer, end to end:
   row with the _wye_delta parameters -> makeYbus stamps -> pfsoln flows -> pl_mw >= 0 *)
Lemma re_pl a b : re (pl a b) == re a + re b.
Proof. unfold pl, Cadd. cbn [re]. apply qadd_correct. Qed.
Lemma re_scale k z : re (Cscale k z) == k * re z.
Proof. unfold Cscale. cbn [re]. apply qmul_correct. Qed.

Lemma t_model_row_loss_nonneg : forall br e vf vt sn r x g b rr xr,
  b_stat br = true -> b_ra br == 0 -> b_xa br == 0 ->
  ~ (b_r br) * (b_r br) + (b_x br) * (b_x br) == 0 -> ~ b_tap br == 0 -> re e * re e + im e * im e == 1 ->
  (b_r br, b_x br, b_g br, b_b br, b_ga br, b_ba br) = wye_delta_core r x g b rr xr ->
  let za := wd_za r x rr xr in let zb := wd_zb r x rr xr in let yc := mkC g b in
  ~ za ==c C0 -> ~ zb ==c C0 -> ~ yc ==c C0 -> ~ Cadd (Cadd za zb) (Cmul (Cmul za zb) yc) ==c C0 ->
  0 <= sn -> 0 <= re za -> 0 <= re zb -> 0 <= g ->
  0 <= re (pl (fst (flows (stamps_core br e) vf vt sn)) (snd (flows (stamps_core br e) vf vt sn))).
Proof.
  intros br e vf vt sn r x g b rr xr Hs Hra Hxa Hz Ht He Hrow za zb yc Ha Hb Hc Hd Hsn Pa Pb Pg.
  pose proof (t_model_row_flows br e vf vt sn r x g b rr xr Hs Hra Hxa Hz Ht He Hrow Ha Hb Hc Hd) as F.
  cbn zeta in F. fold za zb yc in F.
  set (vf' := Cdiv vf (Cscale (b_tap br) e)) in *.
  set (i := t_circuit_I za zb yc vf' vt) in *.
  destruct F as [F1 F2]. cbn [fst snd] in F1, F2.
  rewrite re_pl, F1, F2, !re_scale.
  assert (E : sn * re (Cmul vf' (Cconj (fst i))) + sn * re (Cmul vt (Cconj (snd i))) == sn * re (port_power vf' vt i)).
  { unfold port_power, Cadd. cbn [re]. rewrite qadd_correct. ring. }
  rewrite E. apply Qmult_le_0_compat; [exact Hsn|].
  unfold i. apply t_circuit_loss_nonneg; assumption.
Qed.
