(* C03 — global conservation composed with C01's nodal balance theorem:
   zero Newton mismatch and the C01 guards at every bus  ==>  sum(generation) - sum(consumption) = sum(branch losses),
   where generation / consumption are the result-table quantities of C01.Model (gen rows after pfsoln, loads with their own ZIP
   law at the solved voltage, sgens, storages, wards, shunts) and the losses are pl_mw = p_from + p_to of the C02 branch rows
   (C03.Model.loss_reported) at the voltages whose Ybus injection entered the balance. *)
From Coq Require Import ZArith QArith Qabs List Bool Lia Lqa Setoid Morphisms.
From PPV Require Import Base.QN Base.QC C01.Model C01.Proofs C01.Balance C01.YbusModel C01.Ybus C01.BranchModel C01.Branch.
From PPV Require Import C03.ComposeModel.
From PPV Require C31.Model C02.Model C02.Proofs C03.Model C03.Proofs.
Import ListNotations.
Open Scope Q_scope.

(* C01 at one bus, with the flows of the C02 rows: reported generation - reported consumption = active power leaving over the rows *)
Lemma bus_balance n ref ps V k v :
  ~ base n == 0 -> v * v == cnorm2 (vat V k) -> G03 n ref k = true ->
  ((memn k ref && has_gen n k) = false -> mism_p n k v (inj_of n ps V k) == 0) ->
  gen_p n ref k v (inj_of n ps V k) - cons_p n k v == re (row_flow_sum ps V (base n) k).
Proof.
  intros Hb Hv G Hm. unfold G03 in G. apply andb_true_iff in G. destruct G as [G1 G2].
  pose proof (G01p_zipdef n k v G1) as Z.
  destruct (flows_is_row_flow_sum n ps V k v Hb Hv) as [E _]. fold (inj_of n ps V k) in E.
  assert (R : resid_p n ref k v (inj_of n ps V k) (flows n k v (inj_of n ps V k)) == 0).
  { destruct (memn k ref && has_gen n k) eqn:C.
    - cbn [negb orb] in G2. apply andb_true_iff in C. destruct C as [C1 _].
      rewrite (imbalance_ref_p n ref k v _ C1 G2), Z. ring.
    - rewrite (imbalance_p n ref k v _ C), (Hm eq_refl), Z. ring. }
  unfold resid_p in R. rewrite qadd_correct, qsub_correct in R. rewrite <- E. lra.
Qed.

(* double counting on the flow table of C01.BranchModel: the C03 lemma on [bflow] rows *)
Definition to_bflow (e : nat * nat * (C * C)) : C03.Proofs.bflow :=
  let '(f, t, s) := e in C03.Proofs.Build_bflow f t (re (fst s)) (re (snd s)).
Lemma tab_sum_outflow tab k : re (tab_sum tab k) == C03.Proofs.bus_outflow (map to_bflow tab) k.
Proof.
  induction tab as [|[[f t] s] tab IH]; [reflexivity|].
  cbn [tab_sum map]. unfold C03.Proofs.bus_outflow in *. cbn [map C03.Proofs.qsum]. rewrite <- IH.
  unfold C03.Proofs.at_bus, to_bflow. cbn [C03.Proofs.bf_f C03.Proofs.bf_t C03.Proofs.bf_pf C03.Proofs.bf_pt].
  unfold Cadd. cbn [re]. rewrite !qadd_correct.
  destruct (Nat.eqb f k), (Nat.eqb t k); cbn [re C0]; ring.
Qed.

Lemma row_loss_eq V sn p : row_loss V sn p == re (fst (row_flows V sn p)) + re (snd (row_flows V sn p)).
Proof.
  unfold row_loss, C03.Model.loss_reported, row_flows, stamps_of, C02.Model.pl, Cadd. cbn [re]. apply qadd_correct.
Qed.

Lemma qsum_ext {A} (f g : A -> Q) l : (forall a, In a l -> f a == g a) -> C03.Proofs.qsum (map f l) == C03.Proofs.qsum (map g l).
Proof.
  induction l as [|a l IH]; intros H; [reflexivity|]. cbn [map C03.Proofs.qsum].
  rewrite (H a (or_introl eq_refl)), IH; [reflexivity | intros b Hb; apply H; right; exact Hb].
Qed.

(* the composed theorem *)
Lemma conservation_composed : forall n ref ps V (v : nat -> Q) buses,
  ~ base n == 0 -> NoDup buses ->
  (forall p, In p ps -> In (pr_f p) buses /\ In (pr_t p) buses) ->
  (forall k, In k buses -> v k * v k == cnorm2 (vat V k)) ->
  (forall k, In k buses -> G03 n ref k = true) ->
  (forall k, In k buses -> (memn k ref && has_gen n k) = false -> mism_p n k (v k) (inj_of n ps V k) == 0) ->
  C03.Proofs.qsum (map (fun k => gen_p n ref k (v k) (inj_of n ps V k) - cons_p n k (v k)) buses)
  == C03.Proofs.qsum (map (row_loss V (base n)) ps).
Proof.
  intros n ref ps V v buses Hb Hnd Hin Hv HG Hm.
  set (tab := flow_table ps V (base n)).
  rewrite (C03.Proofs.conservation_from_nodal_balance buses (map to_bflow tab)
             (fun k => gen_p n ref k (v k) (inj_of n ps V k) - cons_p n k (v k)) Hnd).
  - unfold tab, flow_table. rewrite !map_map. apply qsum_ext. intros p _.
    cbn [to_bflow C03.Proofs.bf_pf C03.Proofs.bf_pt fst snd]. rewrite row_loss_eq. reflexivity.
  - intros b Hbf. unfold tab, flow_table in Hbf. rewrite map_map in Hbf. apply in_map_iff in Hbf.
    destruct Hbf as (p & <- & Hp). cbn [to_bflow C03.Proofs.bf_f C03.Proofs.bf_t]. apply Hin. exact Hp.
  - intros k Hk. rewrite <- tab_sum_outflow. apply (bus_balance n ref ps V k (v k) Hb (Hv k Hk) (HG k Hk) (Hm k Hk)).
Qed.

(* with passive rows (C03_pi_loss_nonneg) the generation covers the consumption *)
Definition row_passive (sn : Q) (p : prow) : Prop :=
  let br := pr_row p in let e := pr_e p in
  C02.Model.b_stat br = true /\ C02.Model.b_ra br == 0 /\ C02.Model.b_xa br == 0 /\
  ~ C02.Model.b_r br * C02.Model.b_r br + C02.Model.b_x br * C02.Model.b_x br == 0 /\ ~ C02.Model.b_tap br == 0 /\
  re e * re e + im e * im e == 1 /\ 0 <= C02.Model.b_r br /\ 0 <= C02.Model.b_g br /\ 0 <= C02.Model.b_g br + C02.Model.b_ga br.
Lemma qsum_nonneg {A} (f : A -> Q) l : (forall a, In a l -> 0 <= f a) -> 0 <= C03.Proofs.qsum (map f l).
Proof.
  induction l as [|a l IH]; intros H; [apply Qle_refl|]. cbn [map C03.Proofs.qsum].
  pose proof (H a (or_introl eq_refl)). assert (0 <= C03.Proofs.qsum (map f l)) by (apply IH; intros b Hb; apply H; right; exact Hb). lra.
Qed.
Lemma generation_covers_consumption : forall n ref ps V (v : nat -> Q) buses,
  ~ base n == 0 -> 0 <= base n -> NoDup buses ->
  (forall p, In p ps -> In (pr_f p) buses /\ In (pr_t p) buses) ->
  (forall k, In k buses -> v k * v k == cnorm2 (vat V k)) ->
  (forall k, In k buses -> G03 n ref k = true) ->
  (forall k, In k buses -> (memn k ref && has_gen n k) = false -> mism_p n k (v k) (inj_of n ps V k) == 0) ->
  (forall p, In p ps -> row_passive (base n) p) ->
  0 <= C03.Proofs.qsum (map (fun k => gen_p n ref k (v k) (inj_of n ps V k) - cons_p n k (v k)) buses).
Proof.
  intros n ref ps V v buses Hb Hb0 Hnd Hin Hv HG Hm Hp.
  rewrite (conservation_composed n ref ps V v buses Hb Hnd Hin Hv HG Hm).
  apply qsum_nonneg. intros p Hpin. destruct (Hp p Hpin) as (S & Ra & Xa & Z & T & E & R & G & Ga).
  unfold row_loss, C03.Model.loss_reported.
  apply (C03.Proofs.pi_loss_nonneg (pr_row p) (pr_e p) _ _ (base n) S Ra Xa Z T E Hb0 R G Ga).
Qed.

(* non-vacuity: reference bus 0 (ext_grid row) -- branch r = 0.01, x = 0.1 -- bus 1 with a constant-impedance load (voltage
   dependent: 100 % const_z) sized so that the Newton P mismatch at |V1| = 13/20 is exactly zero *)
Definition ex_ps : list prow := [mkP 0 1 (C02.Model.mkB (1#100) (1#10) 0 0 0 0 0 0 1 0 true 100) (mkC 1 0) 20].
Definition ex_V : list C := [mkC 1 0; mkC (3#5) (-1#4)].
Definition ex_v (k : nat) : Q := match k with O => 1 | _ => 13 # 20 end.
Definition ex_net : net :=
  mkNet [mkLoad 1 1 (107100 # 17069) 0 1 true 100 0 100 0] [] [] [mkGen 0 0 0 0 0 0 true true] true 1 [(1%nat, 1%nat)].
Lemma composed_nonvacuous :
  vdl ex_net = true /\ G03 ex_net [0%nat] 0 = true /\ G03 ex_net [0%nat] 1 = true /\
  ex_v 1 * ex_v 1 == cnorm2 (vat ex_V 1) /\
  mism_p ex_net 1 (ex_v 1) (inj_of ex_net ex_ps ex_V 1) == 0 /\
  cons_p ex_net 1 (ex_v 1) == 1071 # 404 /\
  C03.Proofs.qsum (map (fun k => gen_p ex_net [0%nat] k (ex_v k) (inj_of ex_net ex_ps ex_V k) - cons_p ex_net k (ex_v k)) [0; 1]%nat) == 89 # 404 /\
  C03.Proofs.qsum (map (row_loss ex_V (base ex_net)) ex_ps) == 89 # 404.
Proof. repeat split; vm_compute; reflexivity. Qed.
