(* C03 — executable definitions for the composition with C01 (no proofs): the guard of the composed conservation theorem, the
   injection of the Ybus assembled from the C02 branch rows, the reported loss of a row, and the correspondence wrapper.
   Bus side = C01.Model (result tables after pfsoln), branch side = C01.BranchModel rows of C02.Model. *)
From Coq Require Import ZArith QArith List Bool String.
From PPV Require Import Base.QN Base.QC Base.Out C01.Model C01.YbusModel C01.BranchModel.
From PPV Require C31.Model C02.Model C03.Model.
Import ListNotations.
Open Scope Q_scope.

(* guard of C01 for the P balance of bus k: no ZIP-averaging defect (G01p), and at a reference bus with gens the slack power
   can be assigned (one gen row, or a reference row among several) *)
Definition G03 (n : net) (ref : list nat) (k : nat) : bool :=
  G01p n k && (negb (memn k ref && has_gen n k) || split_ok n k).

(* the injection V_k conj((Ybus V)_k) of the Ybus assembled from the rows and the bus shunts of the net *)
Definition inj_of (n : net) (ps : list prow) (V : list C) (k : nat) : C :=
  s_inj (map branch_of ps) (mkC (qdiv (GS n k) (base n)) (qdiv (BS n k) (base n))) V k.

(* pl_mw of a row as the result tables report it (C03.Model.loss_reported = p_from + p_to) *)
Definition row_loss (V : list C) (sn : Q) (p : prow) : Q :=
  re (C03.Model.loss_reported (pr_row p) (pr_e p) (vat V (pr_f p)) (vat V (pr_t p)) sn).

Definition mk_prow (f t : nat) (r x g b ra xa ga ba tap shift : Q) (e : C) (basekv : Q) : prow :=
  mkP f t (C02.Model.mkB r x g b ra xa ga ba tap shift true 0) e basekv.

(* total reported generation - consumption, total reported losses, the guard and the Newton P mismatch per bus *)
Definition run_conservation (n : net) (ref : list nat) (ps : list prow) (V : list C) (vs : list Q) (nb : nat) : out :=
  let buses := seq 0 nb in
  (* inj_of n ps V k for every bus, the stamps of the rows computed once *)
  let brs := map branch_of ps in
  let inj := map (fun k => s_inj brs (mkC (qdiv (GS n k) (base n)) (qdiv (BS n k) (base n))) V k) buses in
  let injk := fun k => nth k inj C0 in
  OL [ oq (sumf (fun k => qsub (gen_p n ref k (vof vs k) (injk k)) (cons_p n k (vof vs k))) buses);
       oq (sumf (row_loss V (base n)) ps);
       OL (map (fun k => OB (G03 n ref k)) buses);
       OL (map (fun k => if memn k ref && has_gen n k then oq 0 else oq (mism_p n k (vof vs k) (injk k))) buses) ].
