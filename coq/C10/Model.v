(* C10 — distributed slack.  Executable definitions only.
   Transcribes
     pandapower/build_gen.py   _get_xward_pq_buses (:392-405), _gen_xward_mask (:386-389), _normalise_slack_weights (:408-457)
     pandapower/results_bus.py _extract_dist_slack_pq_results (:302-326) and its call site (:238-240)
   and re-uses C01.Model for _update_p / _split_p_for_gens_at_same_bus (pg_after, PD_after) with the reference
   sets widened by run_newton_raphson_pf.py:77-90 (every bus with SL_FAC_BUS != 0 is handed to pfsoln as a
   reference bus, every gen row with SL_FAC != 0 as a reference gen).
   The Newton equation with the slack variable (newtonpf.py:693-698):  V conj(Ybus V) - Sbus + w_bus * slack = 0. *)
From Coq Require Import String ZArith QArith Qabs List Bool.
From PPV Require Import Base.QN Base.QC Base.Out C01.Model.
From PPV Require Base.C07Graph.
Import ListNotations.
Open Scope Q_scope.

(* ---------- weights: ppc gen rows and xward branches *)
Record wsrc := mkW { w_bus : nat; w_w : Q; w_xw : bool }.          (* GEN_BUS, SL_FAC, row of an xward aux gen *)
Record xwbr := mkXb { x_pq : nat; x_on : bool }.                   (* xward branch F_BUS; aux bus type != NONE *)

Fixpoint ins_sorted (x : nat) (l : list nat) : list nat :=
  match l with
  | [] => [x]
  | y :: t => if Nat.ltb x y then x :: l else if Nat.eqb x y then l else y :: ins_sorted x t
  end.
Definition sort_unique (l : list nat) : list nat := fold_right ins_sorted [] l.     (* np.unique / setdiff1d order *)

(* _get_xward_pq_buses after "fix: distributed slack assigns the xward slack weights to the bus of their own xward":
   the PQ buses of the in-service xwards in table order, duplicates kept *)
Definition xward_pq_buses (xws : list xwbr) : list nat := map x_pq (filter x_on xws).
(* before: setdiff1d(pq, pq[aux bus out of service]) : sorted, unique, and a bus shared with an out-of-service xward drops out *)
Definition xward_pq_buses_old (xws : list xwbr) : list nat :=
  let oos := map x_pq (filter (fun x => negb (x_on x)) xws) in
  sort_unique (filter (fun b => negb (memn b oos)) (map x_pq xws)).

Inductive nres :=
| NErr (e : nat)                  (* 1 NotImplementedError, 2 IndexError (mask length), 3 ValueError (zero), 4 ValueError (negative) *)
| NOk (bw : list (nat * Q)).      (* assignments ppc["bus"][buses, SL_FAC_BUS] = ..., later ones win *)

Definition CLOSE0 : Q := 1 # 100000000.                       (* np.isclose(x, 0): |x| <= 1e-8 *)
Definition CLOSE1 : Q := (1 # 100000000) + (1 # 100000).      (* np.isclose(x, 1): |x - 1| <= 1e-8 + 1e-5 *)

Definition masked_sum (buses : list nat) (ws : list Q) (sub : list nat) : Q :=
  sumf snd (filter (fun p => memn (fst p) sub) (combine buses ws)).
Definition group_weights (buses : list nat) (ws : list Q) (sub : list nat) : list (nat * Q) :=
  let m := filter (fun p => memn (fst p) sub) (combine buses ws) in
  (* _sum_by_group: one entry per distinct bus (the order of the distinct buses is irrelevant for the assignment) *)
  map (fun b => (b, sumf snd (filter (fun p => Nat.eqb (fst p) b) m))) (nodup Nat.eq_dec (map fst m)).

Fixpoint norm_loop (buses : list nat) (ws : list Q) (subs : list (list nat)) (bw : list (nat * Q)) : nres :=
  match subs with
  | [] => NOk bw
  | sub :: rest =>
      let s := masked_sum buses ws sub in
      if qleb (Qabs s) CLOSE0 then NErr 3
      else if qltb s 0 then NErr 4
      else let ws' := map (fun w => qdiv w s) ws in                 (* slack_weights_gen /= sum  -- all of them *)
           norm_loop buses ws' rest (bw ++ group_weights buses ws' sub)
  end.
Definition bw_lookup (bw : list (nat * Q)) (k : nat) : Q :=
  match rev (filter (fun p => Nat.eqb (fst p) k) bw) with p :: _ => snd p | [] => 0 end.

Definition normalise_with (xpqf : list xwbr -> list nat)
  (gens : list wsrc) (xws : list xwbr) (subs : list (list nat)) (nb : nat) : nres :=
  let gb := map w_bus (filter (fun g => negb (w_xw g)) gens) in
  let xpq := xpqf xws in
  if existsb (fun b => memn b xpq) gb then NErr 1
  else
    let buses := gb ++ xpq in
    let ws := map w_w (filter (fun g => negb (w_xw g)) gens) ++ map w_w (filter w_xw gens) in
    if negb (Nat.eqb (length buses) (length ws)) && negb (Nat.eqb (length subs) 0) then NErr 2
    else match norm_loop buses ws subs [] with
         | NErr e => NErr e
         | NOk bw =>
             let tot := sumf (fun k => bw_lookup bw k) (seq 0 nb) in
             if qleb (Qabs (qsub tot 1)) CLOSE1 then NOk bw else NErr 1
         end.

Definition normalise := normalise_with xward_pq_buses.
Definition normalise_old := normalise_with xward_pq_buses_old.

(* ---------- the island search: pandapower/auxiliary.py _subnetworks (:907-940).  The graph has one edge per ppc branch row
   with BR_STATUS != 0 whose two end buses are not of type NONE (the adjacency matrix is masked by the out-of-service buses);
   the search starts at every bus of type REF in BUS_I order, a reference bus that was already reached is skipped, and every
   search returns the buses reachable over the edges in either direction (breadth_first_order, directed=False).
   Base.C07Graph.components is exactly this loop (todo list = reference buses, acc = traversed islands); the order of the
   buses inside an island differs from scipy's BFS order and is irrelevant for the normalisation (np.isin). *)
Record pbr := mkPbr { pb_f : nat; pb_t : nat; pb_on : bool }.            (* F_BUS, T_BUS, BR_STATUS *)
Definition BT_REF : nat := 3.
Definition BT_NONE : nat := 4.
Definition bus_is (bt : list nat) (t k : nat) : bool := Nat.eqb (nth k bt 1%nat) t.
Definition island_arcs (brs : list pbr) (bt : list nat) : list (nat * nat) :=
  map (fun r => (pb_f r, pb_t r))
      (filter (fun r => pb_on r && negb (bus_is bt BT_NONE (pb_f r)) && negb (bus_is bt BT_NONE (pb_t r))) brs).
Definition slack_buses (bt : list nat) : list nat := filter (bus_is bt BT_REF) (seq 0 (length bt)).
Definition subnetworks (brs : list pbr) (bt : list nat) : list (list nat) :=
  C07Graph.components Nat.eq_dec (island_arcs brs bt) (slack_buses bt).
(* _normalise_slack_weights with its own island search (build_gen.py:429) *)
Definition normalise_net (gens : list wsrc) (xws : list xwbr) (brs : list pbr) (bt : list nat) : nres :=
  normalise gens xws (subnetworks brs bt) (length bt).
(* every branch row points into the bus table (true of every ppc) *)
Definition wf_branches (brs : list pbr) (bt : list nat) : bool :=
  forallb (fun r => Nat.ltb (pb_f r) (length bt) && Nat.ltb (pb_t r) (length bt)) brs.

(* guard of the OLD pairing: the weights of the xward aux gens (table order) met the bus of their own xward *)
Definition G10w (xws : list xwbr) : bool :=
  forallb x_on xws &&
  (fix eqb (a b : list nat) := match a, b with [] , [] => true | x :: a', y :: b' => Nat.eqb x y && eqb a' b' | _, _ => false end)
    (xward_pq_buses_old xws) (map x_pq xws).

(* ---------- xward results under distributed slack: the rule BEFORE the repair (results_bus.py:302-326 at the pinned commit),
   kept as xward_p_old; the repaired rule follows below *)
Record xwrow := mkXw { xr_pbus : nat; xr_k : nat; xr_ps : Q; xr_w : Q; xr_ins : bool; xr_on : bool }.
Record nodeel := mkNe { ne_pbus : nat; ne_p : Q; ne_ins : bool }.      (* sgen.p_mw / load.p_mw / ward.ps_mw / storage.p_mw, raw *)

Definition raw_sum (others : list nodeel) (xws : list xwrow) (b : nat) : Q :=
  qadd (sumf ne_p (filter (fun e => ne_ins e && Nat.eqb (ne_pbus e) b) others))
       (sumf xr_ps (filter (fun x => xr_ins x && Nat.eqb (xr_pbus x) b) xws)).

Inductive xres := XErr | XOk (col : list (option Q)).     (* None = NaN *)
Definition oadd (a b : option Q) : option Q := match a, b with Some x, Some y => Some (qadd x y) | _, _ => None end.
Fixpoint zip_add (a b : list (option Q)) : list (option Q) :=
  match a, b with x :: a', y :: b' => oadd x y :: zip_add a' b' | _, _ => [] end.
(* Series += ndarray: length 1 broadcasts to every row, equal length adds position-wise, otherwise ValueError *)
Definition bcast_add (col add : list (option Q)) : xres :=
  match add with
  | [a] => XOk (map (fun c => oadd c a) col)
  | _ => if Nat.eqb (length add) (length col) then XOk (zip_add col add) else XErr
  end.
Definition xw_step (pd_after : nat -> Q) (others : list nodeel) (xws : list xwrow) (col : list (option Q)) (x : xwrow)
  : xres :=
  let b := xr_pbus x in
  let conn := filter (fun y => xr_ins y && Nat.eqb (xr_pbus y) b) xws in
  match conn with
  | [] => XOk col                                                   (* 'xward' not in connected *)
  | _ =>
    let p_bus := qsub (pd_after (xr_k x)) (raw_sum others xws b) in
    let ew := map xr_w conn in
    if qeqb (sumf Qabs ew) 0 then XOk col
    else bcast_add col (map (fun w => if qeqb w 0 then None else Some (qdiv (qmul p_bus w) (Qabs w))) ew)
  end.
Fixpoint xw_loop (pd_after : nat -> Q) (others : list nodeel) (xws : list xwrow) (rows : list xwrow) (col : list (option Q))
  : xres :=
  match rows with
  | [] => XOk col
  | x :: rest => match xw_step pd_after others xws col x with
                 | XErr => XErr
                 | XOk col' => xw_loop pd_after others xws rest col'
                 end
  end.
(* write_pq_results_to_element: ps*in_service, then (only if some in-service xward has a non-zero weight) the loop *)
Definition xward_p_old (pd_after : nat -> Q) (others : list nodeel) (xws : list xwrow) : xres :=
  let col0 := map (fun x => Some (qmul (xr_ps x) (b2q (xr_on x)))) xws in
  if existsb (fun x => xr_on x && negb (qeqb (xr_w x) 0)) xws then xw_loop pd_after others xws xws col0 else XOk col0.

(* repaired rule ("fix: distributed slack results of xwards: every xward gets its own weighted share of its own bus"):
   p_variable[k] = bus PD after pfsoln - demand the power flow used (static PD incl. ZIP voltage dependency, C01.Model.Sload);
   an in-service xward with weight w gets  p_variable[k] * w / (sum of the weights of the in-service xwards of ppc bus k) *)
Definition xw_weight (x : xwrow) : Q := qmul (xr_w x) (b2q (xr_on x)).
Definition xw_bus_weight (xws : list xwrow) (k : nat) : Q := sumf xw_weight (filter (fun y => Nat.eqb (xr_k y) k) xws).
Definition xward_row (n : net) (vs : list Q) (pd_after : nat -> Q) (xws : list xwrow) (x : xwrow) : Q :=
  let k := xr_k x in
  let w := xw_weight x in
  let wb := xw_bus_weight xws k in
  qadd (qmul (xr_ps x) (b2q (xr_on x)))
       (if qeqb w 0 then 0
        else qdiv (qmul (qsub (pd_after k) (re (Sload n k (vof vs k)))) w) (if qeqb wb 0 then 1 else wb)).
Definition xward_p (n : net) (vs : list Q) (pd_after : nat -> Q) (xws : list xwrow) : list Q :=
  map (xward_row n vs pd_after xws) xws.

(* guard of the OLD xward share: a single xward row, in service, positive weight, and the raw p_mw/ps_mw of the in-service
   elements of its pandapower bus is the static ppc demand of its ppc bus *)
Definition G10x (n : net) (others : list nodeel) (xws : list xwrow) : bool :=
  match xws with
  | [x] => xr_ins x && xr_on x && qltb 0 (xr_w x) && qeqb (raw_sum others xws (xr_pbus x)) (PD n (xr_k x))
  | _ => false
  end.

(* ---------- spec side *)
(* Newton P equation of bus k with the slack variable s, in MVA *)
Definition ds_mism (n : net) (k : nat) (v : Q) (sinj : C) (wb s : Q) : Q :=
  qadd (mism_p n k v sinj) (qmul (qmul wb s) (base n)).
(* deviation of a gen row from its active power setpoint *)
Definition dev (n : net) (ref : list nat) (g : gen) (v : Q) (sinj : C) : Q := qsub (pg_after n ref g v sinj) (g_pg g).

(* ---------- run wrappers *)
Definition onres (r : nres) (nb : nat) : out :=
  match r with
  | NErr 1 => OErr "NotImplementedError" | NErr 2 => OErr "IndexError" | NErr _ => OErr "ValueError"
  | NOk bw => OL (map (fun k => oq (bw_lookup bw k)) (seq 0 nb))
  end.
Definition run_normalise (gens : list wsrc) (xws : list xwbr) (subs : list (list nat)) (nb : nat) : out :=
  OL [onres (normalise gens xws subs nb) nb; OB (G10w xws)].
Definition run_xward (n : net) (vs : list Q) (pd_after : list Q) (xws : list xwrow) : out :=
  OL (map oq (xward_p n vs (fun k => nth k pd_after 0) xws)).

Definition run_normalise_net (gens : list wsrc) (xws : list xwbr) (brs : list pbr) (bt : list nat) : out :=
  OL [onres (normalise_net gens xws brs bt) (length bt); OB (G10w xws);
      olist (fun isl => olist onat (sort_unique isl)) (subnetworks brs bt); OB (wf_branches brs bt)].

(* ---------- widening of the reference sets (run_newton_raphson_pf.py:77-90) and the gen / bus-PD stage *)
Definition widen_ref (ref : list nat) (bw : list Q) : list nat :=
  sort_unique (ref ++ filter (fun k => negb (qeqb (nth k bw 0) 0)) (seq 0 (length bw))).      (* union1d *)
Definition widen_gens (n : net) : net :=
  mkNet (loads n) (pqs n) (shunts n)
        (map (fun g => mkGen (g_pbus g) (g_bus g) (g_pg g) (g_qmin g) (g_qmax g) (g_w g) (g_on g)
                             (g_ref g || negb (qeqb (g_w g) 0))) (gens n))
        (vdl n) (base n) (bus_order n).
Definition run_ds_gens (n : net) (ref : list nat) (bw : list Q) (vs : list Q) (ss : list C) (nb : nat) : out :=
  let n' := widen_gens n in let ref' := widen_ref ref bw in
  OL [ OL (map (fun g => oq (pg_after n' ref' g (vof vs (g_bus g)) (sof ss (g_bus g)))) (gens n'));
       OL (map (fun k => oq (PD_after n' ref' k (sof ss k))) (seq 0 nb));
       olist onat ref' ].

(* without distributed slack (the bypass of powerflow.py:158-161 on nets whose buses are all reference buses calls pfsoln with
   the setpoint voltages): no widening of the reference sets *)
Definition run_plain_gens (n : net) (ref : list nat) (vs : list Q) (ss : list C) (nb : nat) : out :=
  OL [ OL (map (fun g => oq (pg_after n ref g (vof vs (g_bus g)) (sof ss (g_bus g)))) (gens n));
       OL (map (fun k => oq (PD_after n ref k (sof ss k))) (seq 0 nb)) ].

(* ---------- enforce_q_lims around the distributed slack power flow: after "fix: enforce_q_lims keeps the distributed slack
   share of xwards" the bus PD handed to the result extraction is PD_after (only QD is restored after the loop).  Before, with at
   least one limited gen the whole PD column was restored from the backup: *)
Definition PD_after_qlims_old (n : net) (ref : list nat) (k : nat) (sinj : C) (any_limited : bool) : Q :=
  if any_limited then PD n k else PD_after n ref k sinj.
