(* C10 — the island search of _subnetworks as an input of the weight normalisation:
   the computed island list is a partition into undirected-path classes of the reference buses (Base.C07Graph),
   the normalisation loop writes bus weights that sum to 1 on EVERY island of a disjoint island list,
   an island without participant makes it fail, and the final zone check accepts exactly one island. *)
From Coq Require Import ZArith QArith Qabs List Bool Lia Lqa Setoid Morphisms Relations.
From PPV Require Import Base.QN Base.QC C01.Model C01.Proofs C10.Model C10.Proofs.
From PPV Require Base.C07Graph.
Import ListNotations.
Open Scope Q_scope.

(* ------------------------------------------------------------------ small list facts *)
Lemma memn_In x l : memn x l = true <-> In x l.
Proof.
  unfold memn. rewrite existsb_exists. split.
  - intros (y & Hy & E). apply Nat.eqb_eq in E. subst. exact Hy.
  - intros H. exists x. split; [exact H | apply Nat.eqb_refl].
Qed.
Lemma memn_nIn x l : memn x l = false <-> ~ In x l.
Proof.
  split.
  - intros H Hin. apply memn_In in Hin. congruence.
  - intros H. destruct (memn x l) eqn:E; [|reflexivity]. apply memn_In in E. contradiction.
Qed.

Lemma filter_all {A} (p : A -> bool) l : (forall x, In x l -> p x = true) -> filter p l = l.
Proof.
  induction l as [|a l IH]; intros H; [reflexivity|]. cbn [filter].
  rewrite (H a (or_introl eq_refl)), IH; [reflexivity | intros x Hx; apply H; right; exact Hx].
Qed.
Lemma filter_none {A} (p : A -> bool) l : (forall x, In x l -> p x = false) -> filter p l = [].
Proof.
  induction l as [|a l IH]; intros H; [reflexivity|]. cbn [filter].
  rewrite (H a (or_introl eq_refl)), IH; [reflexivity | intros x Hx; apply H; right; exact Hx].
Qed.
Lemma sumf_key_none (keys : list nat) a c : ~ In a keys -> sumf (fun b => if Nat.eqb a b then c else 0) keys == 0.
Proof.
  intros H. rewrite (sumf_ext _ (fun _ => 0)); [rewrite sumf_const; ring|].
  intros b Hb. destruct (Nat.eqb a b) eqn:E; [|reflexivity]. apply Nat.eqb_eq in E. subst. contradiction.
Qed.

(* ------------------------------------------------------------------ the assignment list ppc["bus"][buses, SL_FAC_BUS] = ... *)
Definition keyf (k : nat) (g : list (nat * Q)) := filter (fun p => Nat.eqb (fst p) k) g.
Lemma keyf_nil_iff k g : keyf k g = [] <-> memn k (map fst g) = false.
Proof.
  induction g as [|p g IH]; [cbn; tauto|]. unfold keyf in *. cbn [filter map memn existsb].
  rewrite (Nat.eqb_sym k (fst p)). destruct (Nat.eqb (fst p) k); cbn [orb]; [split; discriminate|exact IH].
Qed.
Lemma bw_lookup_notkey g k : memn k (map fst g) = false -> bw_lookup g k = 0.
Proof. intros H. apply keyf_nil_iff in H. unfold bw_lookup. fold (keyf k g). rewrite H. reflexivity. Qed.
(* later assignments win *)
Lemma bw_lookup_app a g k : bw_lookup (a ++ g) k = if memn k (map fst g) then bw_lookup g k else bw_lookup a k.
Proof.
  unfold bw_lookup. rewrite filter_app, rev_app_distr. fold (keyf k g) (keyf k a).
  destruct (memn k (map fst g)) eqn:E.
  - destruct (rev (keyf k g)) as [|p l] eqn:R; [|reflexivity].
    assert (Z : keyf k g = []) by (rewrite <- (rev_involutive (keyf k g)), R; reflexivity).
    apply keyf_nil_iff in Z. congruence.
  - apply keyf_nil_iff in E. rewrite E. reflexivity.
Qed.
Lemma bw_lookup_single b q k : bw_lookup [(b, q)] k = if Nat.eqb b k then q else 0.
Proof. unfold bw_lookup. cbn [filter fst]. destruct (Nat.eqb b k); reflexivity. Qed.
Lemma bw_lookup_cons b q g k : ~ In b (map fst g) ->
  bw_lookup ((b, q) :: g) k == (if Nat.eqb b k then q else 0) + bw_lookup g k.
Proof.
  intros Hb. change ((b, q) :: g) with ([(b, q)] ++ g). rewrite bw_lookup_app, bw_lookup_single.
  destruct (memn k (map fst g)) eqn:E.
  - destruct (Nat.eqb b k) eqn:Ek; [|ring]. apply Nat.eqb_eq in Ek. subst. apply memn_In in E. contradiction.
  - rewrite (bw_lookup_notkey _ _ E). ring.
Qed.
(* summing the looked-up weights over a duplicate-free bus list picks the entries with a key in that list *)
Lemma sum_lookup g U : NoDup (map fst g) -> NoDup U ->
  sumf (bw_lookup g) U == sumf snd (filter (fun p => memn (fst p) U) g).
Proof.
  intros Hg HU. induction g as [|[b q] g IH].
  - cbn [filter]. rewrite sumf_nil. rewrite (sumf_ext _ (fun _ => 0)); [rewrite sumf_const; ring | reflexivity].
  - cbn [map fst] in Hg. inversion Hg as [|? ? Hb Hg']; subst.
    rewrite (sumf_ext _ (fun k => (if Nat.eqb b k then q else 0) + bw_lookup g k))
      by (intros k _; apply bw_lookup_cons; exact Hb).
    rewrite sumf_add, (IH Hg'). cbn [filter fst]. destruct (memn b U) eqn:E.
    + rewrite sumf_cons. cbn [snd]. apply memn_In in E. rewrite (sumf_key_pick U b q HU E). reflexivity.
    + apply memn_nIn in E. rewrite (sumf_key_none U b q E). ring.
Qed.
Lemma lookup_add bw0 g k : (memn k (map fst g) = true -> bw_lookup bw0 k == 0) ->
  bw_lookup (bw0 ++ g) k == bw_lookup bw0 k + bw_lookup g k.
Proof.
  intros H. rewrite bw_lookup_app. destruct (memn k (map fst g)) eqn:E.
  - rewrite (H eq_refl). ring.
  - rewrite (bw_lookup_notkey _ _ E). ring.
Qed.

(* ------------------------------------------------------------------ one pass of the loop *)
Lemma group_keys buses ws sub : map fst (group_weights buses ws sub) =
  nodup Nat.eq_dec (map fst (filter (fun p => memn (fst p) sub) (combine buses ws))).
Proof. unfold group_weights. rewrite map_map. cbn [fst]. apply map_id. Qed.
Lemma group_keys_NoDup buses ws sub : NoDup (map fst (group_weights buses ws sub)).
Proof. rewrite group_keys. apply NoDup_nodup. Qed.
Lemma group_keys_sub buses ws sub k : In k (map fst (group_weights buses ws sub)) -> In k sub.
Proof.
  rewrite group_keys, nodup_In, in_map_iff. intros (p & <- & Hp). apply filter_In in Hp. apply memn_In. apply Hp.
Qed.
Lemma group_sum buses ws sub : sumf snd (group_weights buses ws sub) == masked_sum buses ws sub.
Proof.
  unfold group_weights, masked_sum. set (m := filter _ _). rewrite sumf_map. cbn [snd].
  apply group_total; [apply NoDup_nodup | intros p Hp; apply nodup_In, in_map, Hp].
Qed.
Lemma masked_sum_scale buses ws sub s : masked_sum buses (map (fun w => qdiv w s) ws) sub == masked_sum buses ws sub / s.
Proof.
  unfold masked_sum. rewrite combine_map_r, (filter_map_fst (fun w => qdiv w s) (fun b => memn b sub)). apply sumf_snd_map_scale.
Qed.
Lemma close0_nonzero s : qleb (Qabs s) CLOSE0 = false -> ~ s == 0.
Proof.
  intros E Z. assert (qleb (Qabs s) CLOSE0 = true); [|congruence].
  apply qleb_le. rewrite Z. cbn. discriminate.
Qed.

Notation pdisj := (C07Graph.pairwise_disjoint).

(* keys written by the loop lie in the islands it visited *)
Lemma norm_loop_frame buses : forall subs ws bw0 bw k,
  norm_loop buses ws subs bw0 = NOk bw -> (forall sub, In sub subs -> ~ In k sub) -> bw_lookup bw k = bw_lookup bw0 k.
Proof.
  induction subs as [|sub rest IH]; intros ws bw0 bw k H Hk; cbn [norm_loop] in H.
  - injection H as <-. reflexivity.
  - destruct (qleb _ _); [discriminate|]. destruct (qltb _ _); [discriminate|].
    rewrite (IH _ _ _ k H) by (intros s' Hs'; apply Hk; right; exact Hs').
    rewrite bw_lookup_app.
    destruct (memn k (map fst _)) eqn:E; [|reflexivity].
    apply memn_In, group_keys_sub in E. exfalso. apply (Hk sub); [left; reflexivity | exact E].
Qed.

(* sum of the written weights over any duplicate-free bus set U that contains the visited islands: one per island *)
Lemma norm_loop_total buses U : NoDup U -> forall subs ws bw0 bw,
  pdisj subs -> (forall sub k, In sub subs -> In k sub -> In k U) ->
  (forall sub k, In sub subs -> In k sub -> bw_lookup bw0 k == 0) ->
  norm_loop buses ws subs bw0 = NOk bw ->
  sumf (bw_lookup bw) U == sumf (bw_lookup bw0) U + nq (length subs).
Proof.
  intros HU. induction subs as [|sub rest IH]; intros ws bw0 bw Hd Hin H0 H; cbn [norm_loop] in H.
  - injection H as <-. unfold nq. cbn. ring.
  - set (s := masked_sum buses ws sub) in *.
    destruct (qleb (Qabs s) CLOSE0) eqn:E0; [discriminate|]. destruct (qltb s 0); [discriminate|].
    pose proof (close0_nonzero _ E0) as Hs.
    set (ws' := map (fun w => qdiv w s) ws) in *. set (gw := group_weights buses ws' sub) in *.
    inversion Hd as [|? ? Hdc Hdr]; subst.
    assert (Hadd : forall k, bw_lookup (bw0 ++ gw) k == bw_lookup bw0 k + bw_lookup gw k).
    { intros k. apply lookup_add. intros Hk. apply memn_In, group_keys_sub in Hk. apply (H0 sub); [left; reflexivity|exact Hk]. }
    rewrite (IH ws' (bw0 ++ gw) bw Hdr).
    + rewrite (sumf_ext _ (fun k => bw_lookup bw0 k + bw_lookup gw k)) by (intros k _; apply Hadd).
      rewrite sumf_add, (sum_lookup gw U (group_keys_NoDup _ _ _) HU).
      rewrite filter_all.
      * unfold gw. rewrite group_sum. unfold ws'. rewrite masked_sum_scale. fold s.
        cbn [length]. unfold nq. rewrite Nat2Z.inj_succ, <- Z.add_1_r, inject_Z_plus.
        setoid_replace (s / s) with 1 by (field; exact Hs). change (inject_Z 1) with 1. ring.
      * intros p Hp. apply memn_In. apply (Hin sub); [left; reflexivity|].
        apply group_keys_sub with (buses := buses) (ws := ws'). apply in_map. exact Hp.
    + intros s' k Hs' Hk. apply (Hin s'); [right; exact Hs' | exact Hk].
    + intros s' k Hs' Hk. rewrite Hadd, (H0 s' k (or_intror Hs') Hk).
      rewrite bw_lookup_notkey; [ring|]. apply memn_nIn. intros Hkey. apply group_keys_sub in Hkey.
      apply (Hdc s' Hs' k Hkey Hk).
    + exact H.
Qed.

(* per island: the weights written on the buses of every island of a disjoint island list sum to one *)
Lemma norm_loop_per_island buses : forall subs ws bw0 bw,
  pdisj subs -> (forall sub, In sub subs -> NoDup sub) ->
  (forall sub k, In sub subs -> In k sub -> bw_lookup bw0 k == 0) ->
  norm_loop buses ws subs bw0 = NOk bw ->
  forall sub, In sub subs -> sumf (bw_lookup bw) sub == 1.
Proof.
  induction subs as [|sub rest IH]; intros ws bw0 bw Hd Hnd H0 H isl Hisl; [destruct Hisl|].
  cbn [norm_loop] in H. set (s := masked_sum buses ws sub) in *.
  destruct (qleb (Qabs s) CLOSE0) eqn:E0; [discriminate|]. destruct (qltb s 0); [discriminate|].
  pose proof (close0_nonzero _ E0) as Hs.
  set (ws' := map (fun w => qdiv w s) ws) in *. set (gw := group_weights buses ws' sub) in *.
  inversion Hd as [|? ? Hdc Hdr]; subst.
  assert (Hadd : forall k, bw_lookup (bw0 ++ gw) k == bw_lookup bw0 k + bw_lookup gw k).
  { intros k. apply lookup_add. intros Hk. apply memn_In, group_keys_sub in Hk. apply (H0 sub); [left; reflexivity|exact Hk]. }
  destruct Hisl as [<-|Hisl].
  - rewrite (sumf_ext _ (fun k => bw_lookup bw0 k + bw_lookup gw k)).
    + rewrite sumf_add, (sum_lookup gw sub (group_keys_NoDup _ _ _) (Hnd sub (or_introl eq_refl))).
      rewrite filter_all.
      * rewrite (sumf_ext _ (fun _ => 0)) by (intros k Hk; apply (H0 sub k (or_introl eq_refl) Hk)).
        rewrite sumf_const. unfold gw. rewrite group_sum. unfold ws'. rewrite masked_sum_scale. fold s. field. exact Hs.
      * intros p Hp. apply memn_In. apply group_keys_sub with (buses := buses) (ws := ws'). apply in_map. exact Hp.
    + intros k Hk. rewrite (norm_loop_frame buses rest ws' (bw0 ++ gw) bw k H); [apply Hadd|].
      intros s' Hs' Hk'. apply (Hdc s' Hs' k Hk Hk').
  - apply (IH ws' (bw0 ++ gw) bw Hdr); [intros s' Hs'; apply Hnd; right; exact Hs' | | exact H | exact Hisl].
    intros s' k Hs' Hk. rewrite Hadd, (H0 s' k (or_intror Hs') Hk).
    rewrite bw_lookup_notkey; [ring|]. apply memn_nIn. intros Hkey. apply group_keys_sub in Hkey.
    apply (Hdc s' Hs' k Hkey Hk).
Qed.

Lemma norm_loop_per_island0 buses subs ws bw :
  pdisj subs -> (forall sub, In sub subs -> NoDup sub) -> norm_loop buses ws subs [] = NOk bw ->
  forall sub, In sub subs -> sumf (bw_lookup bw) sub == 1.
Proof. intros Hd Hn H. apply (norm_loop_per_island buses subs ws [] bw Hd Hn); [intros; reflexivity | exact H]. Qed.

(* an island whose paired weights sum to zero stops the loop with an error, wherever it is in the list *)
Lemma norm_loop_zero_island buses : forall subs ws bw0 sub,
  In sub subs -> masked_sum buses ws sub == 0 -> exists e, norm_loop buses ws subs bw0 = NErr e.
Proof.
  induction subs as [|s0 rest IH]; intros ws bw0 sub Hin Hz; [destruct Hin|]. cbn [norm_loop].
  destruct (qleb (Qabs (masked_sum buses ws s0)) CLOSE0) eqn:E0; [eexists; reflexivity|].
  destruct (qltb (masked_sum buses ws s0) 0); [eexists; reflexivity|].
  destruct Hin as [->|Hin].
  - exfalso. apply (close0_nonzero _ E0). exact Hz.
  - apply (IH _ _ sub Hin). rewrite masked_sum_scale, Hz. unfold Qdiv. ring.
Qed.

(* ------------------------------------------------------------------ spec of the pairing and of an island's weight *)
(* the (bus, weight) pairs the normalisation works on: gen / ext_grid rows at their own bus, the j-th xward gen at the
   PQ bus of the j-th in-service xward *)
Definition pairing (gens : list wsrc) (xws : list xwbr) : list (nat * Q) :=
  combine (map w_bus (filter (fun g => negb (w_xw g)) gens) ++ xward_pq_buses xws)
          (map w_w (filter (fun g => negb (w_xw g)) gens) ++ map w_w (filter w_xw gens)).
Definition island_weight (gens : list wsrc) (xws : list xwbr) (isl : list nat) : Q :=
  sumf snd (filter (fun p => memn (fst p) isl) (pairing gens xws)).
Lemma no_participant_zero gens xws isl :
  (forall b w, In (b, w) (pairing gens xws) -> In b isl -> w == 0) -> island_weight gens xws isl == 0.
Proof.
  intros H. unfold island_weight. rewrite (sumf_ext _ (fun _ => 0)); [rewrite sumf_const; ring|].
  intros [b w] Hp. apply filter_In in Hp. destruct Hp as [Hp Hm]. apply (H b w Hp). apply memn_In. exact Hm.
Qed.

Lemma tot_zero nb : sumf (fun k : nat => bw_lookup [] k) (seq 0 nb) == 0.
Proof. rewrite (sumf_ext _ (fun _ => 0)); [rewrite sumf_const; ring | reflexivity]. Qed.

(* the final zone check accepts exactly one island *)
Lemma normalise_one_island xpqf gens xws subs nb bw :
  pdisj subs -> (forall sub, In sub subs -> NoDup sub) -> (forall sub k, In sub subs -> In k sub -> (k < nb)%nat) ->
  normalise_with xpqf gens xws subs nb = NOk bw ->
  length subs = 1%nat /\ forall sub, In sub subs -> sumf (bw_lookup bw) sub == 1.
Proof.
  intros Hd Hnd Hlt. unfold normalise_with.
  destruct (existsb _ _); [discriminate|]. destruct (_ && _); [discriminate|].
  set (buses := _ ++ xpqf xws). set (ws := _ ++ _).
  destruct (norm_loop buses ws subs []) as [e|bw'] eqn:L; [discriminate|].
  destruct (qleb _ CLOSE1) eqn:T; [|discriminate]. intros H. injection H as <-.
  split.
  - pose proof (norm_loop_total buses (seq 0 nb) (seq_NoDup nb 0) subs ws [] bw' Hd) as HT.
    rewrite HT in T; [| intros sub k Hs Hk; apply in_seq; specialize (Hlt sub k Hs Hk); lia | intros; reflexivity | exact L].
    rewrite tot_zero in T. apply qleb_le in T.
    destruct (length subs) as [|[|m]]; [exfalso | reflexivity | exfalso].
    + revert T. unfold nq. cbn. intros T. apply T. reflexivity.
    + assert (P : 1 <= qsub (0 + nq (S (S m))) 1).
      { rewrite qsub_correct. unfold nq. rewrite !Nat2Z.inj_succ, <- !Z.add_1_r, !inject_Z_plus.
        assert (0 <= inject_Z (Z.of_nat m)) by (change 0 with (inject_Z 0); rewrite <- Zle_Qle; lia).
        change (inject_Z 1) with 1. lra. }
      pose proof (Qle_Qabs (qsub (0 + nq (S (S m))) 1)) as A.
      assert (C1 : CLOSE1 < 1) by reflexivity. lra.
  - intros sub Hs. apply (norm_loop_per_island buses subs ws [] bw' Hd Hnd); [intros; reflexivity | exact L | exact Hs].
Qed.
Lemma normalise_zero_island xpqf gens xws subs nb sub :
  In sub subs ->
  masked_sum (map w_bus (filter (fun g => negb (w_xw g)) gens) ++ xpqf xws)
             (map w_w (filter (fun g => negb (w_xw g)) gens) ++ map w_w (filter w_xw gens)) sub == 0 ->
  exists e, normalise_with xpqf gens xws subs nb = NErr e.
Proof.
  intros Hin Hz. unfold normalise_with.
  destruct (existsb _ _); [eexists; reflexivity|]. destruct (_ && _); [eexists; reflexivity|].
  destruct (norm_loop_zero_island _ subs _ [] sub Hin Hz) as [e ->]. eexists; reflexivity.
Qed.

(* ------------------------------------------------------------------ the computed island list *)
Lemma comps_aux_shape g : forall todo acc c,
  In c (C07Graph.comps_aux nat Nat.eq_dec g todo acc) -> In c acc \/ exists x, In x todo /\ c = C07Graph.component Nat.eq_dec g x.
Proof.
  induction todo as [|x t IH]; intros acc c H; cbn [C07Graph.comps_aux] in H; [left; exact H|].
  destruct (existsb _ acc).
  - destruct (IH _ _ H) as [Ha|(y & Hy & E)]; [left; exact Ha | right; exists y; split; [right; exact Hy | exact E]].
  - destruct (IH _ _ H) as [Ha|(y & Hy & E)].
    + apply in_app_or in Ha. destruct Ha as [Ha|[<-|[]]]; [left; exact Ha | right; exists x; split; [left; reflexivity|reflexivity]].
    + right; exists y; split; [right; exact Hy | exact E].
Qed.
Lemma island_is_component brs bt isl : In isl (subnetworks brs bt) ->
  exists x, In x (slack_buses bt) /\ isl = C07Graph.component Nat.eq_dec (island_arcs brs bt) x.
Proof. intros H. destruct (comps_aux_shape _ _ _ _ H) as [[]|E]. exact E. Qed.
Lemma island_NoDup brs bt isl : In isl (subnetworks brs bt) -> NoDup isl.
Proof. intros H. destruct (island_is_component _ _ _ H) as (x & _ & ->). apply C07Graph.reach_NoDup. Qed.
Lemma slack_lt bt x : In x (slack_buses bt) -> (x < length bt)%nat /\ nth x bt 1%nat = BT_REF.
Proof.
  unfold slack_buses. rewrite filter_In, in_seq. intros [H E]. split; [lia|]. apply Nat.eqb_eq. exact E.
Qed.
Lemma island_arc_wf brs bt u v : wf_branches brs bt = true -> In (u, v) (island_arcs brs bt) ->
  (u < length bt)%nat /\ (v < length bt)%nat.
Proof.
  intros W H. unfold island_arcs in H. apply in_map_iff in H. destruct H as (r & E & Hr). injection E as <- <-.
  apply filter_In in Hr. destruct Hr as [Hr _].
  unfold wf_branches in W. rewrite forallb_forall in W. specialize (W r Hr).
  apply andb_true_iff in W. destruct W as [A B]. apply Nat.ltb_lt in A, B. tauto.
Qed.
Lemma island_lt brs bt isl k : wf_branches brs bt = true -> In isl (subnetworks brs bt) -> In k isl -> (k < length bt)%nat.
Proof.
  intros W H Hk. destruct (island_is_component _ _ _ H) as (x & Hx & ->).
  apply C07Graph.component_iff in Hk.
  apply (C07Graph.upath_invariant nat (island_arcs brs bt) (fun k => (k < length bt)%nat)) with (u := x).
  - intros u v E. destruct (island_arc_wf _ _ _ _ W E). tauto.
  - exact Hk.
  - apply slack_lt. exact Hx.
Qed.

(* spec of the search: an island is the set of buses joined to a reference bus by in-service branches between in-service
   buses; the islands are pairwise disjoint, and every reference bus lies in one *)
Lemma subnetworks_spec brs bt :
  (forall isl, In isl (subnetworks brs bt) ->
     exists x, In x (slack_buses bt) /\ forall y, In y isl <-> C07Graph.upath (island_arcs brs bt) x y) /\
  pdisj (subnetworks brs bt) /\
  (forall x, In x (slack_buses bt) -> exists isl, In isl (subnetworks brs bt) /\ In x isl).
Proof.
  split; [|split].
  - intros isl H. apply (C07Graph.components_class nat Nat.eq_dec _ _ _ H).
  - apply C07Graph.components_disjoint.
  - intros x Hx. apply (C07Graph.components_cover nat Nat.eq_dec _ _ _ Hx).
Qed.

(* composed: _normalise_slack_weights with its own island search *)
Lemma normalise_net_ok gens xws brs bt bw :
  wf_branches brs bt = true -> normalise_net gens xws brs bt = NOk bw ->
  length (subnetworks brs bt) = 1%nat /\
  forall isl, In isl (subnetworks brs bt) -> sumf (bw_lookup bw) isl == 1 /\ ~ island_weight gens xws isl == 0.
Proof.
  intros W H. unfold normalise_net, normalise in H.
  destruct (normalise_one_island xward_pq_buses gens xws (subnetworks brs bt) (length bt) bw) as [L S]; try exact H.
  - apply C07Graph.components_disjoint.
  - intros; eapply island_NoDup; eauto.
  - intros sub k Hs Hk. eapply island_lt; eauto.
  - split; [exact L|]. intros isl Hi. split; [apply S; exact Hi|].
    intros Z. destruct (normalise_zero_island xward_pq_buses gens xws (subnetworks brs bt) (length bt) isl Hi) as [e E].
    + unfold island_weight, pairing in Z. exact Z.
    + rewrite E in H. discriminate.
Qed.
Lemma normalise_net_no_participant gens xws brs bt isl :
  In isl (subnetworks brs bt) ->
  (forall b w, In (b, w) (pairing gens xws) -> In b isl -> w == 0) ->
  exists e, normalise_net gens xws brs bt = NErr e.
Proof.
  intros Hi Hn. apply (normalise_zero_island xward_pq_buses gens xws _ _ isl Hi).
  apply (no_participant_zero gens xws isl Hn).
Qed.
Lemma normalise_net_several_islands gens xws brs bt :
  wf_branches brs bt = true -> length (subnetworks brs bt) <> 1%nat -> exists e, normalise_net gens xws brs bt = NErr e.
Proof.
  intros W L. destruct (normalise_net gens xws brs bt) as [e|bw] eqn:E; [eexists; reflexivity|].
  destruct (normalise_net_ok _ _ _ _ _ W E) as [L1 _]. contradiction.
Qed.

(* non-vacuity / witnesses: bus 0 -- 1 in service, 2 -- 3 in service, branch 1 -- 2 out of service; reference buses 0 and 3 *)
Definition wit_brs : list pbr := [mkPbr 0 1 true; mkPbr 1 2 false; mkPbr 2 3 true].
Definition wit_bt : list nat := [3; 1; 1; 3]%nat.
Lemma islands_witness :
  subnetworks wit_brs wit_bt = [[1; 0]; [2; 3]]%nat /\
  (* two islands with participants: each island sums to one inside the loop, the zone check rejects *)
  (exists bw, norm_loop [0; 3]%nat [1; 3] (subnetworks wit_brs wit_bt) [] = NOk bw /\ bw_lookup bw 0 == 1 /\ bw_lookup bw 3 == 1) /\
  normalise_net [mkW 0 1 false; mkW 3 3 false] [] wit_brs wit_bt = NErr 1 /\
  (* second island without participant *)
  normalise_net [mkW 0 1 false; mkW 3 0 false] [] wit_brs wit_bt = NErr 3 /\
  (* branch 1 -- 2 closed: one island, accepted *)
  (exists bw, normalise_net [mkW 0 1 false; mkW 3 3 false] [] [mkPbr 0 1 true; mkPbr 1 2 true; mkPbr 2 3 true] wit_bt = NOk bw /\
              bw_lookup bw 0 == 1 # 4 /\ bw_lookup bw 3 == 3 # 4).
Proof.
  split; [vm_compute; reflexivity|]. split; [eexists; split; [vm_compute; reflexivity|split; vm_compute; reflexivity]|].
  split; [vm_compute; reflexivity|]. split; [vm_compute; reflexivity|].
  eexists; split; [vm_compute; reflexivity|split; vm_compute; reflexivity].
Qed.
