(* C10 — lemmas: participation shares of gen rows, weight normalisation, xward extraction. *)
From Coq Require Import ZArith QArith Qabs List Bool Lia Lqa Setoid Morphisms.
From PPV Require Import Base.QN Base.QC C01.Model C01.Proofs C01.Balance C10.Model.
Import ListNotations.
Open Scope Q_scope.

(* ------------------------------------------------------------------ shares of the gen rows *)
(* bus level: with the slack equation satisfied the gen rows of a participating bus deviate in total by
   - w_bus * s * baseMVA  (pfsoln adds the demand the solver used, so ZIP loads at the bus do not disturb this) *)
Lemma bus_deviation n ref k v sinj wb s :
  memn k ref = true -> split_ok n k = true ->
  ds_mism n k v sinj wb s == 0 ->
  gen_p n ref k v sinj - sumf g_pg (gens_on_at n k) == - (wb * s * base n).
Proof.
  intros Hr Hs Hm. rewrite (gen_p_sum _ _ _ _ _ Hr Hs), p_bus_eq.
  unfold ds_mism in Hm. rewrite qadd_correct, !qmul_correct, mism_p_eq in Hm. lra.
Qed.

Lemma filter_single {A} (p : A -> bool) a : p a = true -> filter p [a] = [a].
Proof. intros H. cbn. rewrite H. reflexivity. Qed.

(* gen level: dev_g * W = - s*baseMVA * w_g  for every reference / participating gen row of the bus, where W is the
   total weight and w_bus * W = sum of the weights of the participating rows of the bus (normalisation) *)
Lemma gen_share n ref k v sinj wb s W g :
  memn k ref = true -> In g (gens_on_at n k) -> g_ref g = true ->
  ((1 < length (gens_on_at n k))%nat -> 0 < sumf g_w (filter g_ref (gens_on_at n k))) ->
  wb * W == sumf g_w (filter g_ref (gens_on_at n k)) ->
  ds_mism n k v sinj wb s == 0 ->
  dev n ref g v sinj * W == - (s * base n) * g_w g.
Proof.
  intros Hr Hin Hg Hsw HW Hm.
  destruct (gens_on_at_In _ _ _ Hin) as [Hb Ho].
  set (G := gens_on_at n k) in *.
  assert (Hex : existsb g_ref G = true) by (apply existsb_exists; exists g; tauto).
  assert (Hlen : (0 < length G)%nat) by (destruct G; [destruct Hin | cbn; lia]).
  assert (Hs : split_ok n k = true).
  { unfold split_ok. fold G. destruct (Nat.eqb (length G) 1) eqn:E1; [reflexivity|].
    apply Nat.eqb_neq in E1. cbn [orb]. rewrite Hex, andb_true_r. apply Nat.ltb_lt. lia. }
  pose proof (bus_deviation n ref k v sinj wb s Hr Hs Hm) as HD. fold G in HD.
  unfold dev. rewrite qsub_correct.
  destruct (Nat.ltb 1 (length G)) eqn:L.
  - (* several rows: weighted split *)
    apply Nat.ltb_lt in L. specialize (Hsw L).
    assert (Hq : qltb 0 (sumf g_w (filter g_ref G)) = true) by (apply qltb_lt; exact Hsw).
    assert (E : pg_after n ref g v sinj ==
                g_pg g + (p_bus n k v sinj - sumf g_pg (filter (fun x => negb (g_ref x)) G) - sumf g_pg (filter g_ref G))
                         * g_w g / sumf g_w (filter g_ref G)).
    { unfold pg_after. rewrite Hb, Ho, Hr. fold G. apply Nat.ltb_lt in L. rewrite L, Hg, Hq. cbn [andb]. qnorm. reflexivity. }
    rewrite E. rewrite (gen_p_sum _ _ _ _ _ Hr Hs) in HD.
    rewrite (sumf_partition g_ref g_pg G) in HD.
    set (sw := sumf g_w (filter g_ref G)) in *.
    set (A := sumf g_pg (filter g_ref G)) in *. set (B := sumf g_pg (filter (fun x => negb (g_ref x)) G)) in *.
    assert (Hne : ~ sw == 0) by lra.
    setoid_replace ((g_pg g + (p_bus n k v sinj - B - A) * g_w g / sw - g_pg g) * W)
      with ((p_bus n k v sinj - (A + B)) * g_w g * (W / sw)) by (field; exact Hne).
    rewrite HD. setoid_replace (W / sw) with (/ wb) by (rewrite <- HW; field; split; intros E0; apply Hne; rewrite <- HW, E0; ring).
    field. intros E0. apply Hne. rewrite <- HW, E0. ring.
  - (* a single row takes the whole bus deviation *)
    apply Nat.ltb_ge in L. assert (H1 : length G = 1%nat) by lia.
    destruct (length_one _ H1) as [g0 E0]. rewrite E0 in Hin. destruct Hin as [<-|[]].
    assert (E : pg_after n ref g0 v sinj == p_bus n k v sinj).
    { unfold pg_after. rewrite Hb, Ho, Hr. fold G. rewrite E0. cbn. reflexivity. }
    rewrite E. rewrite (gen_p_sum _ _ _ _ _ Hr Hs), E0, sumf_cons, sumf_nil in HD.
    rewrite E0, (filter_single _ _ Hg), sumf_cons, sumf_nil in HW.
    setoid_replace (g_w g0) with (wb * W) by (rewrite HW; ring).
    setoid_replace (p_bus n k v sinj - g_pg g0) with (- (wb * s * base n)) by (rewrite <- HD; ring).
    ring.
Qed.
(* two participants: deviation / weight is the same value (cross-multiplied form, no division) *)
Lemma equal_ratio n ref s W v1 v2 sinj1 sinj2 g1 g2 :
  ~ W == 0 ->
  dev n ref g1 v1 sinj1 * W == - (s * base n) * g_w g1 ->
  dev n ref g2 v2 sinj2 * W == - (s * base n) * g_w g2 ->
  dev n ref g1 v1 sinj1 * g_w g2 == dev n ref g2 v2 sinj2 * g_w g1.
Proof.
  intros HW H1 H2.
  assert (E1 : dev n ref g1 v1 sinj1 == - (s * base n) * g_w g1 / W) by (rewrite <- H1; field; exact HW).
  assert (E2 : dev n ref g2 v2 sinj2 == - (s * base n) * g_w g2 / W) by (rewrite <- H2; field; exact HW).
  rewrite E1, E2. field. exact HW.
Qed.
(* non-participants keep their setpoint *)
Lemma non_participant_keeps n ref g v sinj :
  memn (g_bus g) ref = false \/ (g_ref g = false /\ (1 < length (gens_on_at n (g_bus g)))%nat) ->
  dev n ref g v sinj == 0.
Proof. intros H. unfold dev. rewrite (pg_after_keeps _ _ _ _ _ H), qsub_correct. ring. Qed.

(* ------------------------------------------------------------------ weight normalisation (one island) *)
Lemma sumf_key_pick (keys : list nat) a c : NoDup keys -> In a keys ->
  sumf (fun b => if Nat.eqb a b then c else 0) keys == c.
Proof.
  induction keys as [|x keys IH]; intros Hnd Hin; [destruct Hin|].
  rewrite sumf_cons. inversion Hnd as [|? ? Hx Hnd']; subst.
  destruct Hin as [->|Hin].
  - rewrite Nat.eqb_refl.
    rewrite (sumf_ext _ (fun _ => 0)); [rewrite sumf_const; ring|].
    intros b Hb. destruct (Nat.eqb a b) eqn:E; [|reflexivity]. apply Nat.eqb_eq in E. subst. contradiction.
  - destruct (Nat.eqb a x) eqn:E; [apply Nat.eqb_eq in E; subst; contradiction|].
    rewrite (IH Hnd' Hin). ring.
Qed.
(* grouping: the per-key sums over distinct keys add up to the total *)
Lemma group_total (m : list (nat * Q)) (keys : list nat) :
  NoDup keys -> (forall p, In p m -> In (fst p) keys) ->
  sumf (fun b => sumf snd (filter (fun p => Nat.eqb (fst p) b) m)) keys == sumf snd m.
Proof.
  intros Hnd. induction m as [|p m IH]; intros Hin.
  - cbn [filter]. transitivity (sumf (fun _ : nat => 0) keys); [apply sumf_ext; intros; reflexivity|].
    rewrite sumf_const. change (sumf snd (@nil (nat * Q))) with 0. ring.
  - rewrite sumf_cons, <- IH by (intros q Hq; apply Hin; right; exact Hq).
    rewrite <- (sumf_key_pick keys (fst p) (snd p) Hnd) at 1 by (apply Hin; left; reflexivity).
    rewrite <- sumf_add. apply sumf_ext. intros b _. cbn [filter].
    destruct (Nat.eqb (fst p) b); [rewrite sumf_cons; reflexivity | ring].
Qed.
Lemma sumf_snd_map_scale (m : list (nat * Q)) : forall s,
  sumf snd (map (fun p => (fst p, qdiv (snd p) s)) m) == sumf snd m / s.
Proof.
  intros s. induction m as [|p m IH]; [cbn [map]; rewrite !sumf_nil; unfold Qdiv; ring|].
  cbn [map]. rewrite !sumf_cons, IH. cbn [snd]. qnorm. unfold Qdiv. ring.
Qed.
Lemma combine_map_r {A B C} (f : B -> C) (a : list A) (b : list B) :
  combine a (map f b) = map (fun p => (fst p, f (snd p))) (combine a b).
Proof. revert b. induction a as [|x a IH]; intros [|y b]; cbn; [reflexivity..|]. rewrite IH. reflexivity. Qed.
Lemma filter_map_fst {B} (f : Q -> B) (p : nat -> bool) (m : list (nat * Q)) :
  filter (fun q => p (fst q)) (map (fun q => (fst q, f (snd q))) m) = map (fun q => (fst q, f (snd q))) (filter (fun q => p (fst q)) m).
Proof. induction m as [|x m IH]; [reflexivity|]. cbn [map filter fst]. destruct (p (fst x)); cbn [map]; rewrite IH; reflexivity. Qed.

(* the bus weights written for a single island sum to one *)
Lemma norm_single_total buses ws sub bw :
  norm_loop buses ws [sub] [] = NOk bw -> sumf snd bw == 1.
Proof.
  cbn [norm_loop]. set (s := masked_sum buses ws sub).
  destruct (qleb (Qabs s) CLOSE0) eqn:E0; [discriminate|].
  destruct (qltb s 0) eqn:E1; [discriminate|].
  intros H. injection H as <-. cbn [app].
  assert (Hs : ~ s == 0).
  { intros Z. assert (qleb (Qabs s) CLOSE0 = true); [|congruence].
    apply qleb_le. rewrite Z. cbn. discriminate. }
  unfold group_weights.
  set (m := filter (fun p => memn (fst p) sub) (combine buses (map (fun w => qdiv w s) ws))).
  rewrite sumf_map. cbn [snd].
  rewrite (group_total m (nodup Nat.eq_dec (map fst m))).
  - unfold m. rewrite combine_map_r, (filter_map_fst (fun w => qdiv w s) (fun b => memn b sub)), sumf_snd_map_scale.
    fold (masked_sum buses ws sub). fold s. field. exact Hs.
  - apply NoDup_nodup.
  - intros p Hp. apply nodup_In. apply in_map. exact Hp.
Qed.
(* each written entry is the sum of the island's weights at that bus divided by the island total *)
Lemma norm_single_entry buses ws sub bw b q :
  norm_loop buses ws [sub] [] = NOk bw -> In (b, q) bw ->
  q == sumf snd (filter (fun p => Nat.eqb (fst p) b) (filter (fun p => memn (fst p) sub) (combine buses ws)))
       / masked_sum buses ws sub.
Proof.
  cbn [norm_loop]. set (s := masked_sum buses ws sub).
  destruct (qleb (Qabs s) CLOSE0) eqn:E0; [discriminate|].
  destruct (qltb s 0) eqn:E1; [discriminate|].
  intros H. injection H as <-. cbn [app]. unfold group_weights. intros Hin.
  apply in_map_iff in Hin. destruct Hin as (b' & E & _). injection E as <- <-.
  rewrite combine_map_r, (filter_map_fst (fun w => qdiv w s) (fun x => memn x sub)).
  rewrite (filter_map_fst (fun w => qdiv w s) (fun x => Nat.eqb x b')).
  apply sumf_snd_map_scale.
Qed.

(* the xward weights are paired with sorted-unique PQ buses: with two xwards in descending bus order the weights swap *)
Definition wit_xwb : list xwbr := [mkXb 3 true; mkXb 2 true].
Definition wit_wsrc : list wsrc := [mkW 0 1 false; mkW 7 1 true; mkW 8 2 true].
Lemma xward_weight_order_old_refuted :
  G10w wit_xwb = false /\
  (exists bw, normalise_old wit_wsrc wit_xwb [[0; 1; 2; 3]%nat] 4 = NOk bw /\
              bw_lookup bw 3 == 2 # 4 /\ bw_lookup bw 2 == 1 # 4) /\   (* old: xward 0 (bus 3, weight 1) got 2/4 *)
  (exists bw, normalise wit_wsrc wit_xwb [[0; 1; 2; 3]%nat] 4 = NOk bw /\
              bw_lookup bw 3 == 1 # 4 /\ bw_lookup bw 2 == 2 # 4).      (* repaired: own weights *)
Proof.
  split; [reflexivity|]. split; eexists; (split; [vm_compute; reflexivity|]); split; vm_compute; reflexivity.
Qed.
(* repaired pairing: the j-th weight of the xward gens meets the PQ bus of the j-th in-service xward *)
Lemma xward_pairing xws j b : nth_error (xward_pq_buses xws) j = Some b <->
  exists x, nth_error (filter x_on xws) j = Some x /\ x_pq x = b.
Proof.
  unfold xward_pq_buses. rewrite nth_error_map. destruct (nth_error (filter x_on xws) j) as [x|]; cbn; split.
  - intros H. injection H as <-. exists x. tauto.
  - intros (y & E & <-). injection E as <-. reflexivity.
  - discriminate.
  - intros (y & E & _). discriminate.
Qed.

(* ------------------------------------------------------------------ xward results *)
Lemma xward_single_old n others x pd :
  G10x n others [x] = true ->
  exists r, xward_p_old pd others [x] = XOk [Some r] /\ r == xr_ps x + (pd (xr_k x) - PD n (xr_k x)).
Proof.
  unfold G10x. intros H.
  apply andb_true_iff in H. destruct H as [H Hraw]. apply andb_true_iff in H. destruct H as [H Hw].
  apply andb_true_iff in H. destruct H as [Hins Hon]. apply qltb_lt in Hw. apply qeqb_eq in Hraw.
  assert (Hw0 : qeqb (xr_w x) 0 = false).
  { destruct (qeqb (xr_w x) 0) eqn:E; [|reflexivity]. apply qeqb_eq in E. rewrite E in Hw. discriminate Hw. }
  unfold xward_p_old. cbn [existsb map]. rewrite Hon, Hw0. cbn [negb andb orb xw_loop].
  unfold xw_step. cbn [filter]. rewrite Hins, Nat.eqb_refl. cbn [andb map].
  assert (Ha : qeqb (sumf Qabs [xr_w x]) 0 = false).
  { destruct (qeqb (sumf Qabs [xr_w x]) 0) eqn:E; [|reflexivity]. apply qeqb_eq in E.
    rewrite sumf_cons, sumf_nil, (Qabs_pos (xr_w x)) in E by (apply Qlt_le_weak; exact Hw). lra. }
  rewrite Ha, Hw0. cbn [bcast_add map oadd]. eexists. split; [reflexivity|].
  cbn [b2q]. qnorm. rewrite (Qabs_pos (xr_w x)) by (apply Qlt_le_weak; exact Hw).
  rewrite <- Hraw. field. lra.
Qed.
(* repaired rule: every participating xward gets  w_bus*s*baseMVA * w_x / (weight of its bus)  on top of ps
   (consumption up = generation down), for any number of xwards and any other elements at the bus *)
Lemma xward_share n ref vs xws x sinj wb s :
  memn (xr_k x) ref = true -> has_gen n (xr_k x) = false ->
  ~ xw_weight x == 0 -> ~ xw_bus_weight xws (xr_k x) == 0 ->
  ds_mism n (xr_k x) (vof vs (xr_k x)) sinj wb s == 0 ->
  (xward_row n vs (fun k => PD_after n ref k sinj) xws x - qmul (xr_ps x) (b2q (xr_on x))) * xw_bus_weight xws (xr_k x)
  == wb * s * base n * xw_weight x.
Proof.
  intros Hr Hg Hw Hwb Hm. unfold xward_row.
  destruct (qeqb (xw_weight x) 0) eqn:E0; [apply qeqb_eq in E0; contradiction|].
  destruct (qeqb (xw_bus_weight xws (xr_k x)) 0) eqn:E1; [apply qeqb_eq in E1; contradiction|].
  unfold PD_after. rewrite Hr. unfold has_gen in Hg. apply negb_false_iff in Hg. rewrite Hg. cbn [andb].
  unfold ds_mism in Hm. rewrite qadd_correct, !qmul_correct, mism_p_eq in Hm.
  apply Nat.eqb_eq, length_zero_iff_nil in Hg. rewrite Hg, sumf_nil in Hm.
  set (SL := re (Sload n (xr_k x) (vof vs (xr_k x)))) in *.
  qnorm. field_simplify_eq; [|exact Hwb]. nra.
Qed.
(* non-participating xwards keep their setpoint *)
Lemma xward_keeps n vs pd xws x : xw_weight x == 0 -> xward_row n vs pd xws x == qmul (xr_ps x) (b2q (xr_on x)).
Proof. intros H. unfold xward_row. apply qeqb_eq in H. rewrite H. qnorm. ring. Qed.

(* refutation: two in-service xwards with positive weights on different buses get each other's variable part *)
Definition wit_x2 : list xwrow := [mkXw 3 3 5 1 true true; mkXw 2 2 3 2 true true].
Lemma xward_extraction_old_refuted :
  exists pd, xward_p_old pd [] wit_x2 = XOk [Some (5 + (pd 3%nat - 5) + (pd 2%nat - 3)); Some (3 + (pd 3%nat - 5) + (pd 2%nat - 3))]%Q
             /\ pd 3%nat = 6 /\ pd 2%nat = 5.
Proof. exists (fun k => match k with 3%nat => 6 | 2%nat => 5 | _ => 0 end). vm_compute. repeat split. Qed.

(* old rule: after a q-limit pass the xward got no slack share at all (constant power demand 5 at the bus, injection -6) *)
Definition witql_net : net := mkNet [] [mkPq 3 3 5 0 1 true false] [] [] false 1 [].
Definition witql_x : xwrow := mkXw 3 3 5 1 true true.
Lemma qlims_old_xward_refuted :
  xward_row witql_net [1;1;1;1] (fun k => PD_after_qlims_old witql_net [3%nat] k (mkC (-6) 0) true) [witql_x] witql_x == 5 /\
  xward_row witql_net [1;1;1;1] (fun k => PD_after witql_net [3%nat] k (mkC (-6) 0)) [witql_x] witql_x == 6.
Proof. vm_compute. split; reflexivity. Qed.
