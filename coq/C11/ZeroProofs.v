(* C11.ZeroProofs — what the zero-sequence transformer rows of pd2ppc_zero.py mean: the pi equivalent written into the row
   is the T equivalent (hv leakage z1 = si0*z0, lv leakage z2 = (1-si0)*z0, magnetising z3 = z_m0) seen through makeYbus. *)
From Coq Require Import ZArith QArith Qabs List Bool Lia Lqa Setoid Morphisms.
From PPV Require Import Base.QN Base.QC Base.C11CF C11.Base3 C11.Base3Proofs C11.Zero.
Open Scope Q_scope.

(* ---------------------------------------------------------------- T -> pi *)
Definition Dsum (z1 z2 z3 : C) : C := Cadd (Cadd (Cmul z1 z2) (Cmul z2 z3)) (Cmul z1 z3).

Lemma t_to_pi_spec z1 z2 z3 :
  ~ z1 ==c C0 -> ~ z2 ==c C0 -> ~ z3 ==c C0 -> ~ Dsum z1 z2 z3 ==c C0 ->
  let p := t_to_pi z1 z2 z3 in
  p_zc p ==c Cdiv (Dsum z1 z2 z3) z3 /\ p_YAB p ==c Cdiv z3 (Dsum z1 z2 z3) /\
  p_YAN p ==c Cdiv z2 (Dsum z1 z2 z3) /\ p_YBN p ==c Cdiv z1 (Dsum z1 z2 z3).
Proof.
  intros N1 N2 N3 ND. unfold t_to_pi; cbn [p_zc p_YAB p_YAN p_YBN]. fold (Dsum z1 z2 z3).
  set (D := Dsum z1 z2 z3) in *. clearbody D.
  split; [reflexivity |]. split; [| split]; field; auto.
Qed.

(* (tap_lv / tap_hv) * TAP^2 = 1 : the factor in y_sym of YNyn only undoes the division by |tap|^2 in makeYbus *)
Lemma ratio_factor sn z q :
  ~ sn == 0 -> ~ t_basekv_lv (z_t z) == 0 -> ~ t_basekv_hv (z_t z) == 0 ->
  ~ vn_trafo_lv (z_t z) q == 0 -> ~ vn_trafo_hv (z_t z) q == 0 ->
  trafo_ratio (z_t z) q * trafo_ratio (z_t z) q * (ztap_lv sn z q / ztap_hv sn z q) == 1.
Proof.
  intros. unfold trafo_ratio, ztap_lv, ztap_hv, qsq. qstrip. field. repeat split; auto.
Qed.

Definition ctap (r : zrow) (e : C) : C := Cq (if qeqb (zr_tap r) 0 then 1 else zr_tap r) e.

Lemma Cq_mul k z : Cq k z ==c Cmul (CofQ k) z. Proof. apply Cscale_mul. Qed.
Lemma Cq_1 z : Cq 1 z ==c z. Proof. unfold Cq. cstrip; ring. Qed.
Lemma Cq_Cq a b z : Cq a (Cq b z) ==c Cq (a * b) z. Proof. unfold Cq. cstrip; ring. Qed.
Global Instance Cq_proper : Proper (Qeq ==> Ceq ==> Ceq) Cq. Proof. intros a b H x y H'. unfold Cq. rewrite H, H'. reflexivity. Qed.

(* ---------------------------------------------------------------- makeYbus two-port of an in-service row *)
Lemma bv_generic r e : zr_status r = 1 ->
  let s := branch_vectors r e in let T := ctap r e in let Ys := Cinv (mkC (zr_r r) (zr_x r)) in
  ~ T ==c C0 -> ~ Cconj T ==c C0 ->
  Cmul (Yff s) (Cmul T (Cconj T)) ==c Cadd Ys (Cq (1 # 2) (zr_ysym r)) /\
  Cmul (Yft s) (Cconj T) ==c Copp Ys /\
  Cmul (Ytf s) T ==c Copp Ys /\
  Ytt s ==c Cadd Ys (Cq (1 # 2) (Cadd (zr_ysym r) (zr_yasym r))).
Proof.
  intros ST s T Ys NT NTC. unfold s, branch_vectors. cbn [Yff Yft Ytf Ytt]. rewrite ST.
  fold (ctap r e). fold T. fold Ys. rewrite !Cq_1.
  generalize (Cq (1 # 2) (zr_ysym r)) (Cq (1 # 2) (Cadd (zr_ysym r) (zr_yasym r))). intros h1 h2.
  clearbody T Ys.
  split; [| split; [| split]].
  - field. split; auto.
  - field. auto.
  - field. auto.
  - reflexivity.
Qed.

(* ---------------------------------------------------------------- YNyn: the two-port of the row is the T two-port *)
Lemma ynyn_two_port sn bm z q sx sm e :
  z_vg z = YNyn -> z_ins z = true ->
  ~ sn == 0 -> ~ t_basekv_lv (z_t z) == 0 -> ~ t_basekv_hv (z_t z) == 0 ->
  ~ vn_trafo_lv (z_t z) q == 0 -> ~ vn_trafo_hv (z_t z) q == 0 ->
  let z0 := z0_k sn z q sx in let z1 := z1_of z z0 in let z2 := z2_of z z0 in let z3 := z0_mag sn z q sm in
  let D := Dsum z1 z2 z3 in
  ~ z1 ==c C0 -> ~ z2 ==c C0 -> ~ z3 ==c C0 -> ~ D ==c C0 ->
  let r := zero_row sn bm z q sx sm in let s := branch_vectors r e in let tap := ctap r e in
  ~ tap ==c C0 -> ~ Cconj tap ==c C0 ->
  Cmul (Yff s) (Cmul tap (Cconj tap)) ==c Cdiv (Cadd z2 z3) D /\
  Cmul (Yft s) (Cconj tap) ==c Copp (Cdiv z3 D) /\
  Cmul (Ytf s) tap ==c Copp (Cdiv z3 D) /\
  Ytt s ==c Cdiv (Cadd z1 z3) D.
Proof.
  intros VG INS S BL BH VL VH z0 z1 z2 z3 D N1 N2 N3 ND r s tap NT NTC.
  pose proof (ratio_factor sn z q S BL BH VL VH) as RF.
  destruct (t_to_pi_spec z1 z2 z3 N1 N2 N3 ND) as (PC & PAB & PAN & PBN). fold D in PC, PAB, PAN, PBN.
  set (p := t_to_pi z1 z2 z3) in *.
  set (rat := trafo_ratio (z_t z) q) in *.
  assert (ST : zr_status r = 1) by (unfold r, zero_row; rewrite VG, INS; reflexivity).
  assert (ER : mkC (zr_r r) (zr_x r) = mkC (re (p_zc p)) (im (p_zc p))) by (unfold r, zero_row; rewrite VG, INS; reflexivity).
  assert (ES : zr_ysym r = Cq (qsq rat) (Cq (qdiv (ztap_lv sn z q) (ztap_hv sn z q)) (Cq 2 (Cq 1 (p_YAN p)))))
    by (unfold r, zero_row; rewrite VG, INS; reflexivity).
  assert (EA : zr_yasym r = Csub (Cq 2 (Cq 1 (p_YBN p))) (zr_ysym r)) by (unfold r, zero_row; rewrite VG, INS; reflexivity).
  destruct (bv_generic r e ST NT NTC) as (H1 & H2 & H3 & H4). fold s in H1, H2, H3, H4. fold tap in H1, H2, H3.
  assert (EY : Cinv (mkC (zr_r r) (zr_x r)) ==c Cdiv z3 D).
  { rewrite ER, C_eta, PC. field. split; auto. }
  assert (ESYM : zr_ysym r ==c Cq 2 (Cdiv z2 D)).
  { rewrite ES, !Cq_Cq, PAN. apply Cq_proper; [| reflexivity].
    unfold qsq. rewrite qmul_correct, qdiv_correct.
    transitivity (rat * rat * (ztap_lv sn z q / ztap_hv sn z q) * 2); [ring | rewrite RF; ring]. }
  rewrite H1, H2, H3, H4, EA, EY, ESYM, PBN, !Cq_Cq. rewrite !Cq_mul.
  assert (DS : forall a b, Cdiv (Cadd a b) D ==c Cadd (Cdiv a D) (Cdiv b D)) by (intros; unfold Cdiv; ring).
  rewrite !DS.
  generalize (Cdiv z1 D) (Cdiv z2 D) (Cdiv z3 D). intros u1 u2 u3. unfold CofQ.
  split; [| split; [| split]].
  - cstrip; ring.
  - reflexivity.
  - reflexivity.
  - cstrip; ring.
Qed.


(* short-circuit impedances of the T equivalent: from hv (referred to the lv voltage level) with lv grounded z1 + z2||z3,
   from lv with hv grounded z2 + z1||z3 *)
Lemma ynyn_short_circuit sn bm z q sx sm e :
  z_vg z = YNyn -> z_ins z = true ->
  ~ sn == 0 -> ~ t_basekv_lv (z_t z) == 0 -> ~ t_basekv_hv (z_t z) == 0 ->
  ~ vn_trafo_lv (z_t z) q == 0 -> ~ vn_trafo_hv (z_t z) q == 0 ->
  let z0 := z0_k sn z q sx in let z1 := z1_of z z0 in let z2 := z2_of z z0 in let z3 := z0_mag sn z q sm in
  let D := Dsum z1 z2 z3 in
  ~ z1 ==c C0 -> ~ z2 ==c C0 -> ~ z3 ==c C0 -> ~ D ==c C0 -> ~ Cadd z2 z3 ==c C0 -> ~ Cadd z1 z3 ==c C0 ->
  let r := zero_row sn bm z q sx sm in let s := branch_vectors r e in let tap := ctap r e in
  ~ tap ==c C0 -> ~ Cconj tap ==c C0 ->
  Cmul (Cmul (Yff s) (Cmul tap (Cconj tap))) (Cadd z1 (Cdiv (Cmul z2 z3) (Cadd z2 z3))) ==c C1 /\
  Cmul (Ytt s) (Cadd z2 (Cdiv (Cmul z1 z3) (Cadd z1 z3))) ==c C1.
Proof.
  intros VG INS S BL BH VL VH z0 z1 z2 z3 D N1 N2 N3 ND N23 N13 r s tap NT NTC.
  destruct (ynyn_two_port sn bm z q sx sm e VG INS S BL BH VL VH N1 N2 N3 ND NT NTC) as (H1 & _ & _ & H4).
  fold z0 z1 z2 z3 D r s tap in H1, H4. rewrite H1, H4. unfold D, Dsum in *. clearbody z1 z2 z3.
  split; field; auto.
Qed.

(* ---------------------------------------------------------------- Dyn *)
Lemma dyn_two_port sn bm z q sx sm e :
  z_vg z = Dyn -> z_ins z = true -> ~ bm == 0 ->
  let z0 := z0_k sn z q sx in let z1 := z1_of z z0 in let z2 := z2_of z z0 in let z3 := z0_mag sn z q sm in
  let D := Dsum z1 z2 z3 in
  ~ z1 ==c C0 -> ~ z2 ==c C0 -> ~ z3 ==c C0 -> ~ D ==c C0 -> ~ Cadd z1 z3 ==c C0 ->
  let r := zero_row sn bm z q sx sm in let s := branch_vectors r e in let tap := ctap r e in
  ~ tap ==c C0 -> ~ Cconj tap ==c C0 ->
  let Zbig := mkC (BIG bm) (BIG bm) in
  Cmul (Cmul (Yff s) (Cmul tap (Cconj tap))) Zbig ==c C1 /\
  Cmul (Cmul (Yft s) (Cconj tap)) Zbig ==c Copp C1 /\
  Cmul (Cmul (Ytf s) tap) Zbig ==c Copp C1 /\
  Cmul (Csub (Ytt s) (Cinv Zbig)) (Cadd z2 (Cdiv (Cmul z1 z3) (Cadd z1 z3))) ==c C1.
Proof.
  intros VG INS BM z0 z1 z2 z3 D N1 N2 N3 ND N13 r s tap NT NTC Zbig.
  destruct (t_to_pi_spec z1 z2 z3 N1 N2 N3 ND) as (PC & PAB & PAN & PBN). fold D in PC, PAB, PAN, PBN.
  set (p := t_to_pi z1 z2 z3) in *.
  assert (ST : zr_status r = 1) by (unfold r, zero_row; rewrite VG, INS; reflexivity).
  assert (ER : mkC (zr_r r) (zr_x r) = Zbig) by (unfold r, zero_row; rewrite VG, INS; reflexivity).
  assert (ES : zr_ysym r = C0) by (unfold r, zero_row; rewrite VG, INS; reflexivity).
  assert (EA : zr_yasym r = Cq 2 (Cq 1 (Cadd (p_YAB p) (p_YBN p)))) by (unfold r, zero_row; rewrite VG, INS; reflexivity).
  destruct (bv_generic r e ST NT NTC) as (H1 & H2 & H3 & H4). fold s in H1, H2, H3, H4. fold tap in H1, H2, H3.
  assert (NB : ~ Zbig ==c C0).
  { unfold Zbig, BIG. intros [K _]. unfold C0 in K. cbn [re] in K. rewrite qmul_correct in K.
    apply BM. assert (E : bm == (100000000000000000000 # 1) * bm * (1 # 100000000000000000000)) by ring. rewrite E, K. reflexivity. }
  rewrite H1, H2, H3, H4, ER, ES, EA, PAB, PBN, !Cq_Cq. unfold D, Dsum in *. clearbody Zbig z1 z2 z3.
  assert (Q0 : forall k, Cq k C0 ==c C0) by (intros; unfold Cq; cstrip; ring).
  assert (A0 : forall x, Cadd C0 x ==c x) by (intros; ring).
  rewrite Q0, A0, Cq_Cq, !Cq_mul. 
  assert (E1 : CofQ ((1 # 2) * (2 * 1)) ==c C1) by (unfold CofQ; split; cbn [re im C1]; [ring | reflexivity]).
  rewrite E1.
  split; [| split; [| split]]; field; auto.
Qed.

(* ---------------------------------------------------------------- what z0_k and z0_mag are *)
Lemma qsign_sq x : ~ x == 0 -> qsign x * qsign x == 1.
Proof.
  intros N. unfold qsign. destruct (qltb x 0) eqn:A; [reflexivity |]. destruct (qltb 0 x) eqn:B; [reflexivity |].
  apply qltb_ge in A. apply qltb_ge in B. exfalso. apply N. lra.
Qed.
(* zero-sequence short-circuit impedance: real part vkr0, magnitude vk0 (per unit on the transformer rating), changed to
   the base  V_lv^2/(3*sn): in ohm  |z0| = vk0/100 * vn_trafo_lv^2 / sn_trafo / parallel  (free of net.sn_mva) *)
Lemma z0_k_spec sn z q sx :
  is_sqrt sx (z0_sqrt_arg sn z q) -> ~ z0_zsc sn z q == 0 -> ~ t_par (z_t z) == 0 ->
  re (z0_k sn z q sx) == z0_rsc sn z q / t_par (z_t z) /\
  cnorm2 (z0_k sn z q sx) == (z0_zsc sn z q / t_par (z_t z)) * (z0_zsc sn z q / t_par (z_t z)).
Proof.
  intros [S1 S2] NZ NP. unfold z0_k, cnorm2; cbn [re im]. split; [apply qdiv_correct |].
  unfold z0_sqrt_arg, qsq in S2. rewrite qsub_correct, !qmul_correct in S2.
  pose proof (qsign_sq _ NZ) as SG.
  qstrip.
  set (g := qsign (z0_zsc sn z q)) in *. set (a := z0_zsc sn z q) in *. set (b := z0_rsc sn z q) in *. set (p := t_par (z_t z)) in *.
  assert (E : b / p * (b / p) + g * sx / p * (g * sx / p) == (b * b + (g * g) * (sx * sx)) / (p * p)) by (field; auto).
  rewrite E, SG, S2. field. auto.
Qed.
Lemma z0_ohmic sn z q : ~ sn == 0 -> ~ t_basekv_lv (z_t z) == 0 -> ~ t_sn (z_t z) == 0 ->
  let zbase := t_basekv_lv (z_t z) * t_basekv_lv (z_t z) / (3 * sn) in
  z0_zsc sn z q * zbase == vk0_eff z / 100 * (vn_trafo_lv (z_t z) q * vn_trafo_lv (z_t z) q) / t_sn (z_t z) /\
  z0_rsc sn z q * zbase == vkr0_eff z / 100 * (vn_trafo_lv (z_t z) q * vn_trafo_lv (z_t z) q) / t_sn (z_t z).
Proof.
  intros A B Cn zbase. unfold zbase, z0_zsc, z0_rsc, ztap_lv, qsq. split; qstrip; field; repeat split; auto.
Qed.
(* magnetising impedance: magnitude mag0_percent * |z0| (mag0_percent is used as the plain ratio z_mag0/z0), r/x = mag0_rx *)
Lemma z0_mag_spec sn z q sm :
  is_sqrt sm (mag_sqrt_arg z) -> ~ sm == 0 -> ~ t_par (z_t z) == 0 ->
  re (z0_mag sn z q sm) == z_mag0_rx z * im (z0_mag sn z q sm) /\
  cnorm2 (z0_mag sn z q sm) == (z_mag0 z * z0_zsc sn z q / t_par (z_t z)) * (z_mag0 z * z0_zsc sn z q / t_par (z_t z)).
Proof.
  intros [S1 S2] NS NP. unfold mag_sqrt_arg, qsq in S2. rewrite qadd_correct, qmul_correct in S2.
  unfold z0_mag, cnorm2; cbn [re im]. split.
  - qstrip. field. auto.
  - qstrip. set (a := z0_zsc sn z q). set (m := z_mag0 z). set (x := z_mag0_rx z) in *. set (p := t_par (z_t z)) in *.
    assert (E : a * m / sm * x / p * (a * m / sm * x / p) + a * m / sm / p * (a * m / sm / p) == (a * m / p) * (a * m / p) * (x * x + 1) / (sm * sm)) by (field; auto).
    rewrite E, <- S2. field. auto.
Qed.

(* ---------------------------------------------------------------- non-vacuity: a transformer meeting every hypothesis *)
Definition zero_wit (vg : vgroup) : zero_in :=
  {| z_t := trafo_wit; z_vk0 := 5; z_vkr0 := 3; z_mag0 := 100; z_mag0_rx := 3 # 4; z_si0 := 9 # 10; z_ins := true; z_vg := vg |}.
Ltac cnz := let H := fresh in let H' := fresh in intros [H H']; vm_compute in H, H'; first [discriminate H | discriminate H'].
Example zero_nonvacuous : forall vg, vg = Dyn \/ vg = YNyn ->
  let z := zero_wit vg in let sn := 1 in let q := 21 in let sx := 1323 # 200000 in let sm := 5 # 4 in let e := mkC (-3 # 5) (4 # 5) in
  G11_zero sn 1 z q sm = true /\ is_sqrt q (tap_sqrt_arg (z_t z)) /\ is_sqrt sx (z0_sqrt_arg sn z q) /\ is_sqrt sm (mag_sqrt_arg z) /\
  cnorm2 e == 1 /\
  let z0 := z0_k sn z q sx in let z1 := z1_of z z0 in let z2 := z2_of z z0 in let z3 := z0_mag sn z q sm in
  ~ z1 ==c C0 /\ ~ z2 ==c C0 /\ ~ z3 ==c C0 /\ ~ Dsum z1 z2 z3 ==c C0 /\ ~ Cadd z2 z3 ==c C0 /\ ~ Cadd z1 z3 ==c C0 /\
  let r := zero_row sn 1 z q sx sm in ~ ctap r e ==c C0 /\ ~ Cconj (ctap r e) ==c C0.
Proof.
  intros vg [-> | ->]; cbn zeta; unfold is_sqrt;
  (split; [vm_compute; reflexivity |]); (split; [split; [vm_compute; discriminate | vm_compute; reflexivity] |]);
  (split; [split; [vm_compute; discriminate | vm_compute; reflexivity] |]);
  (split; [split; [vm_compute; discriminate | vm_compute; reflexivity] |]);
  (split; [vm_compute; reflexivity |]);
  repeat (split; [cnz |]); cnz.
Qed.

Lemma zero_seq_impedances : forall sn z q sx sm,
  is_sqrt sx (z0_sqrt_arg sn z q) -> is_sqrt sm (mag_sqrt_arg z) ->
  ~ z0_zsc sn z q == 0 -> ~ t_par (z_t z) == 0 -> ~ sm == 0 -> ~ sn == 0 -> ~ t_basekv_lv (z_t z) == 0 -> ~ t_sn (z_t z) == 0 ->
  (re (z0_k sn z q sx) == z0_rsc sn z q / t_par (z_t z) /\
   cnorm2 (z0_k sn z q sx) == (z0_zsc sn z q / t_par (z_t z)) * (z0_zsc sn z q / t_par (z_t z))) /\
  (let zbase := t_basekv_lv (z_t z) * t_basekv_lv (z_t z) / (3 * sn) in
   z0_zsc sn z q * zbase == vk0_eff z / 100 * (vn_trafo_lv (z_t z) q * vn_trafo_lv (z_t z) q) / t_sn (z_t z) /\
   z0_rsc sn z q * zbase == vkr0_eff z / 100 * (vn_trafo_lv (z_t z) q * vn_trafo_lv (z_t z) q) / t_sn (z_t z)) /\
  (re (z0_mag sn z q sm) == z_mag0_rx z * im (z0_mag sn z q sm) /\
   cnorm2 (z0_mag sn z q sm) == (z_mag0 z * z0_zsc sn z q / t_par (z_t z)) * (z_mag0 z * z0_zsc sn z q / t_par (z_t z))).
Proof.
  intros. split; [apply z0_k_spec; assumption |]. split; [apply z0_ohmic; assumption | apply z0_mag_spec; assumption].
Qed.
