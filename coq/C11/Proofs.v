(* C11 — symmetrical-component identities, proved in the exact field Q(sqrt3, j) *)
From Coq Require Import ZArith QArith List Bool Lqa Setoid Morphisms.
From PPV Require Import Base.QN Base.QC Base.C11K C11.Model.
Import ListNotations.
Open Scope Q_scope.

Definition K3eq (x y : K3) : Prop :=
  let '(a, b, c) := x in let '(a', b', c') := y in a ==k a' /\ b ==k b' /\ c ==k c'.

(* plain (non-normalising) twins of the field operations: proofs first move to them with K-level rewriting (cheap),
   then unfold to four polynomial identities over Q for [ring] *)
Definition PKadd (x y : K) : K := mkK (k1 x + k1 y) (ks x + ks y) (kj x + kj y) (ksj x + ksj y).
Definition PKsub (x y : K) : K := mkK (k1 x - k1 y) (ks x - ks y) (kj x - kj y) (ksj x - ksj y).
Definition PKscale (q : Q) (x : K) : K := mkK (q * k1 x) (q * ks x) (q * kj x) (q * ksj x).
Definition PKmul (x y : K) : K :=
  mkK (k1 x * k1 y + 3 * (ks x * ks y) - (kj x * kj y + 3 * (ksj x * ksj y)))
      (k1 x * ks y + ks x * k1 y - (kj x * ksj y + ksj x * kj y))
      (k1 x * kj y + kj x * k1 y + 3 * (ks x * ksj y + ksj x * ks y))
      (k1 x * ksj y + ksj x * k1 y + (ks x * kj y + kj x * ks y)).
Definition PKconj (x : K) : K := mkK (k1 x) (ks x) (- kj x) (- ksj x).
Lemma Kadd_P x y : Kadd x y ==k PKadd x y. Proof. unfold Kadd, PKadd, Keq; cbn [k1 ks kj ksj]; qnorm; repeat split; reflexivity. Qed.
Lemma Ksub_P x y : Ksub x y ==k PKsub x y. Proof. unfold Ksub, PKsub, Keq; cbn [k1 ks kj ksj]; qnorm; repeat split; reflexivity. Qed.
Lemma Kscale_P q x : Kscale q x ==k PKscale q x. Proof. unfold Kscale, PKscale, Keq; cbn [k1 ks kj ksj]; qnorm; repeat split; reflexivity. Qed.
Lemma Kmul_P x y : Kmul x y ==k PKmul x y. Proof. unfold Kmul, PKmul, Keq; cbn [k1 ks kj ksj]; qnorm; repeat split; reflexivity. Qed.
Lemma Kconj_P x : Kconj x ==k PKconj x. Proof. unfold Kconj, PKconj, Keq; cbn [k1 ks kj ksj]; qnorm; repeat split; reflexivity. Qed.
Global Instance PKadd_proper : Proper (Keq ==> Keq ==> Keq) PKadd.
Proof. intros x y E u v E'. rewrite <- !Kadd_P. rewrite E, E'. reflexivity. Qed.
Global Instance PKsub_proper : Proper (Keq ==> Keq ==> Keq) PKsub.
Proof. intros x y E u v E'. rewrite <- !Ksub_P. rewrite E, E'. reflexivity. Qed.
Global Instance PKmul_proper : Proper (Keq ==> Keq ==> Keq) PKmul.
Proof. intros x y E u v E'. rewrite <- !Kmul_P. rewrite E, E'. reflexivity. Qed.
Global Instance PKconj_proper : Proper (Keq ==> Keq) PKconj.
Proof. intros x y E. rewrite <- !Kconj_P. rewrite E. reflexivity. Qed.
Global Instance PKscale_proper : Proper (Qeq ==> Keq ==> Keq) PKscale.
Proof. intros p q E x y E'. rewrite <- !Kscale_P. rewrite E, E'. reflexivity. Qed.

Ltac k3 := unfold K3eq, sequence_to_phase, phase_to_sequence, S_from_VI, zip3, map3, sum3, Knorm2 in *; cbv beta iota zeta in *.
Ltac plain := rewrite ?Kadd_P, ?Ksub_P, ?Kscale_P, ?Kmul_P, ?Kconj_P.
Ltac punf := cbv beta iota delta [k1 ks kj ksj PKadd PKsub PKscale PKmul PKconj Keq Ka Kasq K0 K1 Ksqrt3 Kinvsqrt3 fst snd] in *.
Ltac dK x := let p := fresh x "r" in let q := fresh x "s" in let r := fresh x "j" in let s := fresh x "t" in destruct x as [p q r s].

(* ---------------------------------------------------------------- the operator a *)
Lemma a_minimal_polynomial : Kadd (Kadd (Kmul Ka Ka) Ka) K1 ==k K0.
Proof. vm_compute. repeat split. Qed.
Lemma a_facts : Kasq ==k Kmul Ka Ka /\ Kmul Ka Kasq ==k K1 /\ Kconj Ka ==k Kasq /\ Knorm2 Ka ==k K1 /\
                Kmul Ka (Kmul Ka Ka) ==k K1.
Proof. vm_compute. repeat split. Qed.

(* ---------------------------------------------------------------- inverse pair *)
Lemma p2s_s2p : forall x, K3eq (phase_to_sequence (sequence_to_phase x)) x.
Proof. intros [[x0 x1] x2]. k3. plain. dK x0; dK x1; dK x2. punf. repeat split; field. Qed.
Lemma s2p_p2s : forall x, K3eq (sequence_to_phase (phase_to_sequence x)) x.
Proof. intros [[x0 x1] x2]. k3. plain. dK x0; dK x1; dK x2. punf. repeat split; field. Qed.

(* ---------------------------------------------------------------- balanced case *)
Lemma balanced_phases : forall x0 x1 x2, x0 ==k K0 -> x2 ==k K0 ->
  let '(va, vb, vc) := sequence_to_phase (x0, x1, x2) in
  va ==k x1 /\ vb ==k Kmul Kasq va /\ vc ==k Kmul Ka va /\
  Knorm2 vb ==k Knorm2 va /\ Knorm2 vc ==k Knorm2 va.
Proof.
  intros x0 x1 x2 H0 H2. k3. rewrite H0, H2. plain. dK x1. punf. repeat split; ring.
Qed.

(* ---------------------------------------------------------------- power invariance *)
Lemma power_invariance : forall v i,
  sum3 (S_from_VI (sequence_to_phase v) (sequence_to_phase i)) ==k Kscale 3 (sum3 (S_from_VI v i)).
Proof.
  intros [[v0 v1] v2] [[i0 i1] i2]. k3. plain. dK v0; dK v1; dK v2; dK i0; dK i1; dK i2. punf. repeat split; ring.
Qed.

Lemma per_phase_thirds : forall v0 v1 v2 i0 i1 i2,
  v0 ==k K0 -> v2 ==k K0 -> i0 ==k K0 -> i2 ==k K0 ->
  let '(sa, sb, sc) := S_from_VI (sequence_to_phase (v0, v1, v2)) (sequence_to_phase (i0, i1, i2)) in
  sa ==k Kmul v1 (Kconj i1) /\ sb ==k sa /\ sc ==k sa /\
  sa ==k Kscale (1 # 3) (Kadd (Kadd sa sb) sc).
Proof.
  intros v0 v1 v2 i0 i1 i2 Hv0 Hv2 Hi0 Hi2. k3. rewrite Hv0, Hv2, Hi0, Hi2. plain. dK v1; dK i1. punf.
  repeat split; field.
Qed.

(* ---------------------------------------------------------------- line result writer *)
Lemma line_total_power : forall vf jf vt jt,
  let r := line_results_3ph vf jf vt jt in
  sum3 (sf r) ==k Kmul Ksqrt3 (sum3 (S_from_VI vf jf)) /\
  sum3 (st r) ==k Kmul Ksqrt3 (sum3 (S_from_VI vt jt)) /\
  sum3 (sl r) ==k Kadd (sum3 (sf r)) (sum3 (st r)) /\
  in_f r ==k Kscale 3 (fst (fst jf)) /\ in_t r ==k Kscale 3 (fst (fst jt)).
Proof.
  intros [[a0 a1] a2] [[b0 b1] b2] [[c0 c1] c2] [[d0 d1] d2].
  unfold line_results_3ph. cbv beta iota zeta delta [sf st sl in_f in_t fst snd]. k3. plain.
  dK a0; dK a1; dK a2; dK b0; dK b1; dK b2; dK c0; dK c1; dK c2; dK d0; dK d1; dK d2.
  punf. repeat split; ring.
Qed.

Lemma line_balanced_thirds : forall v1 j1 vt jt,
  let r := line_results_3ph (K0, v1, K0) (K0, j1, K0) vt jt in
  let '(sa, sb, sc) := sf r in
  sa ==k Kmul Kinvsqrt3 (Kmul v1 (Kconj j1)) /\ sb ==k sa /\ sc ==k sa /\
  sa ==k Kscale (1 # 3) (sum3 (sf r)) /\ in_f r ==k K0.
Proof.
  intros v1 j1 [[c0 c1] c2] [[d0 d1] d2].
  unfold line_results_3ph. cbv beta iota zeta delta [sf st sl in_f in_t fst snd]. k3. plain.
  dK v1; dK j1. punf. repeat split; field.
Qed.

(* ---------------------------------------------------------------- element writers *)
Definition q3sum (x : Q * Q * Q) : Q := let '(a, b, c) := x in a + b + c.
Fixpoint signed_total (els : list elem) : Q :=
  match els with [] => 0 | e :: rest => elem_sign e * elem_total e + signed_total rest end.

Lemma elem_phase_sum : forall e, q3sum (elem_phases e) == elem_total e.
Proof.
  intros [g p sc ins | g pa pb pc sc ins]; unfold elem_phases, elem_total, q3sum; qnorm; [field | ring].
Qed.
Lemma bus_phase_sum_is_total : forall els, q3sum (bus_pq_3ph els) == signed_total els.
Proof.
  induction els as [|e els IH]; [reflexivity|].
  cbn [bus_pq_3ph signed_total]. destruct (bus_pq_3ph els) as [[a b] c]. unfold q3sum in IH. rewrite <- IH.
  destruct e as [g p sc ins | g pa pb pc sc ins]; unfold elem_phases, elem_total, q3sum; qnorm; [field | ring].
Qed.

(* ---------------------------------------------------------------- ext_grid zero-sequence current *)
Lemma eg_current_full : forall y0 v i, eg_zero_seq_current y0 v i ==c i.
Proof. intros. unfold eg_zero_seq_current, eg_seq_current_reported. csimp. split; ring. Qed.
Lemma eg_current_old_partial : forall y0 y2 v i, G11_eg y0 y2 = true -> eg_zero_seq_current_old y0 y2 v i ==c i.
Proof.
  intros y0 y2 v i G. unfold G11_eg in G. apply andb_prop in G. destruct G as [A B].
  apply qeqb_eq in A. apply qeqb_eq in B. unfold eg_zero_seq_current_old, eg_seq_current_reported. csimp. rewrite A, B. split; ring.
Qed.
Lemma eg_current_old_faithful : forall y0 y2 v i, i ==c Copp (Cmul y0 v) ->
  eg_zero_seq_current_old y0 y2 v i ==c Copp (Cmul y2 v).
Proof.
  intros y0 y2 v i [A B]. unfold eg_zero_seq_current_old, eg_seq_current_reported. csimp. rewrite A, B. split; ring.
Qed.
Lemma eg_current_old_refuted : exists y0 y2 v i, i ==c Copp (Cmul y0 v) /\ ~ eg_zero_seq_current_old y0 y2 v i ==c i.
Proof.
  exists (mkC 1 0), (mkC 2 0), (mkC 1 0), (mkC (-1) 0). split.
  - vm_compute. split; reflexivity.
  - intros [A _]. vm_compute in A. discriminate A.
Qed.
