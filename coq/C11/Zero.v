(* C11.Zero — zero-sequence equivalent of two-winding transformers as runpp_3ph builds it (mode "pf_3ph", trafo_model "t"):
     pandapower/pd2ppc_zero.py : _add_trafo_sc_impedance_zero (:144-413)
        branch row defaults BIG (:166-172), vk0/vkr0 fallback (:196-213), tap_lv/tap_hv (:252-270), z_sc r_sc x_sc z0_k (:272-282),
        magnetising impedance (:308-313), T -> pi (:322-338), vector groups Dyn (:343-348), YNyn (:371-384), Yzn (:394-398),
        row written (:410-413)
     pandapower/pypower/makeYbus.py : branch_vectors (:84-110) — how the row becomes the two-port (Yff Yft Ytf Ytt)
   Everything of the transformer goes into its branch row: the hv/lv shunts are BR_G/BR_B (both ends, /2 each in makeYbus)
   and BR_G_ASYM/BR_B_ASYM (additional part of the "to" = lv end); the bus GS/BS columns are not touched.
   sqrt and exp(j*shift) are oracle INPUTS.  Faithful to the code as it is.  Executable definitions only. *)
From Coq Require Import ZArith QArith List Bool String.
From PPV Require Import Base.QN Base.QC Base.Out C11.Base3.
Import ListNotations.
Open Scope Q_scope.

Inductive vgroup := Dyn | YNyn | Yzn.

Record zero_in := { z_t : trafo_in;                    (* rated voltages, sn_mva, tap changer, bus base voltages, parallel, vk/vkr *)
                    z_vk0 : Q; z_vkr0 : Q; z_mag0 : Q; z_mag0_rx : Q; z_si0 : Q;   (* vk0_percent vkr0_percent mag0_percent mag0_rx si0_hv_partial *)
                    z_ins : bool; z_vg : vgroup }.

Definition zb2q (b : bool) : Q := if b then 1 else 0.
Definition Cq (k : Q) (z : C) : C := Cscale k z.

(* :196-213  "Just put pos seq parameter if zero seq parameter is zero" — the test is on the maximum over the transformers
   of one vector group; the model is for ONE transformer per vector group *)
Definition eps8 : Q := 1 # 100000000.
Definition vk0_eff (z : zero_in) : Q := if qltb eps8 (qabs (z_vk0 z)) then z_vk0 z else t_vk (z_t z).
Definition vkr0_eff (z : zero_in) : Q := if qltb eps8 (qabs (z_vkr0 z)) then z_vkr0 z else t_vkr (z_t z).

(* :269-270 (mode pf_3ph) *)
Definition ztap_lv (sn : Q) (z : zero_in) (sq_tap : Q) : Q :=
  qmul (qsq (qdiv (vn_trafo_lv (z_t z) sq_tap) (t_basekv_lv (z_t z)))) (qmul 3 sn).
Definition ztap_hv (sn : Q) (z : zero_in) (sq_tap : Q) : Q :=
  qmul (qsq (qdiv (vn_trafo_hv (z_t z) sq_tap) (t_basekv_hv (z_t z)))) (qmul 3 sn).
(* :272-277 tap_corr = tap_lv for ynyn, dyn, yzn *)
Definition z0_zsc (sn : Q) (z : zero_in) (sq_tap : Q) : Q := qmul (qdiv (qdiv (vk0_eff z) 100) (t_sn (z_t z))) (ztap_lv sn z sq_tap).
Definition z0_rsc (sn : Q) (z : zero_in) (sq_tap : Q) : Q := qmul (qdiv (qdiv (vkr0_eff z) 100) (t_sn (z_t z))) (ztap_lv sn z sq_tap).
Definition z0_sqrt_arg (sn : Q) (z : zero_in) (sq_tap : Q) : Q := qsub (qsq (z0_zsc sn z sq_tap)) (qsq (z0_rsc sn z sq_tap)).
(* z0_k = (r_sc + x_sc*1j) / parallel, x_sc = sign(z_sc)*sqrt(z_sc^2 - r_sc^2) *)
Definition z0_k (sn : Q) (z : zero_in) (sq_tap sq_x0 : Q) : C :=
  mkC (qdiv (z0_rsc sn z sq_tap) (t_par (z_t z))) (qdiv (qmul (qsign (z0_zsc sn z sq_tap)) sq_x0) (t_par (z_t z))).
(* :308-313  z_m = z_sc*mag0_ratio ; x_m = z_m/sqrt(mag0_rx^2+1) ; r_m = x_m*mag0_rx ; z0_mag = (r_m + j x_m)/parallel *)
Definition mag_sqrt_arg (z : zero_in) : Q := qadd (qsq (z_mag0_rx z)) 1.
Definition z0_mag (sn : Q) (z : zero_in) (sq_tap sq_m : Q) : C :=
  let x_m := qdiv (qmul (z0_zsc sn z sq_tap) (z_mag0 z)) sq_m in
  let r_m := qmul x_m (z_mag0_rx z) in
  mkC (qdiv r_m (t_par (z_t z))) (qdiv x_m (t_par (z_t z))).

(* :322-338  T (z1 hv leakage, z2 lv leakage, z3 magnetising) -> pi (YAB series, YAN hv shunt, YBN lv shunt) *)
Record tpi := { p_zc : C; p_YAB : C; p_YAN : C; p_YBN : C; p_YAB_AN : C; p_YAB_BN : C }.
Definition t_to_pi (z1 z2 z3 : C) : tpi :=
  let z_temp := Cadd (Cadd (Cmul z1 z2) (Cmul z2 z3)) (Cmul z1 z3) in
  let za := Cdiv z_temp z2 in
  let zb := Cdiv z_temp z1 in
  let zc := Cdiv z_temp z3 in
  {| p_zc := zc; p_YAB := Cinv zc; p_YAN := Cinv za; p_YBN := Cinv zb;
     p_YAB_AN := Cinv (Cadd zc za); p_YAB_BN := Cinv (Cadd zc zb) |}.
Definition z1_of (z : zero_in) (z0k : C) : C := Cq (z_si0 z) z0k.
Definition z2_of (z : zero_in) (z0k : C) : C := Cq (qsub 1 (z_si0 z)) z0k.

(* the branch row: BR_R BR_X BR_G BR_B BR_G_ASYM BR_B_ASYM TAP SHIFT BR_STATUS *)
Record zrow := { zr_r : Q; zr_x : Q; zr_ysym : C; zr_yasym : C; zr_tap : Q; zr_shift : Q; zr_status : Q }.
Definition BIG (baseMVA : Q) : Q := qmul (100000000000000000000 # 1) baseMVA.          (* 1e20 * ppc["baseMVA"] *)
Definition zero_row (sn baseMVA : Q) (z : zero_in) (sq_tap sq_x0 sq_m : Q) : zrow :=
  let t := z_t z in
  let ratio := trafo_ratio t sq_tap in
  let z0k := z0_k sn z sq_tap sq_x0 in
  let p := t_to_pi (z1_of z z0k) (z2_of z z0k) (z0_mag sn z sq_tap sq_m) in
  let ins := zb2q (z_ins z) in
  match z_vg z with
  | Dyn =>   (* y = YAB + YBN ; y_asym = y * in_service * 2 *)
      {| zr_r := BIG baseMVA; zr_x := BIG baseMVA; zr_ysym := C0;
         zr_yasym := Cq 2 (Cq ins (Cadd (p_YAB p) (p_YBN p))); zr_tap := ratio; zr_shift := t_shift t; zr_status := ins |}
  | YNyn =>  (* BR_R, BR_X = zc ; y_sym = YAN*in_service*2*(tap_lv/tap_hv)*TAP^2 ; y_asym = YBN*in_service*2 - y_sym *)
      let y_sym := Cq (qsq ratio) (Cq (qdiv (ztap_lv sn z sq_tap) (ztap_hv sn z sq_tap)) (Cq 2 (Cq ins (p_YAN p)))) in
      {| zr_r := re (p_zc p); zr_x := im (p_zc p); zr_ysym := y_sym;
         zr_yasym := Csub (Cq 2 (Cq ins (p_YBN p))) y_sym; zr_tap := ratio; zr_shift := t_shift t; zr_status := ins |}
  | Yzn =>   (* y = YAB_AN + YBN ; y_asym = 1.1547 * y * in_service * baseMVA * 2 *)
      {| zr_r := BIG baseMVA; zr_x := BIG baseMVA; zr_ysym := C0;
         zr_yasym := Cq 2 (Cq baseMVA (Cq ins (Cq (11547 # 10000) (Cadd (p_YAB_AN p) (p_YBN p)))));
         zr_tap := ratio; zr_shift := t_shift t; zr_status := ins |}
  end.

(* makeYbus.branch_vectors for ONE row without BR_R_ASYM/BR_X_ASYM (Yst = Ysf); tap = TAP * exp(j*pi/180*SHIFT),
   e = exp(j*pi/180*SHIFT) is an oracle input (|e| = 1); TAP = 0 means 1 *)
Record stamps := { Yff : C; Yft : C; Ytf : C; Ytt : C }.
Definition branch_vectors (r : zrow) (e : C) : stamps :=
  let stat := zr_status r in
  let Ys := Cq stat (Cinv (mkC (zr_r r) (zr_x r))) in
  let Bcf := Cq stat (zr_ysym r) in
  let Bct := Cq stat (Cadd (zr_ysym r) (zr_yasym r)) in
  let tap := Cq (if qeqb (zr_tap r) 0 then 1 else zr_tap r) e in
  {| Ytt := Cadd Ys (Cq (1 # 2) Bct);
     Yff := Cdiv (Cadd Ys (Cq (1 # 2) Bcf)) (Cmul tap (Cconj tap));
     Yft := Copp (Cdiv Ys (Cconj tap));
     Ytf := Copp (Cdiv Ys tap) |}.

(* defined result: no zero denominators, sqrt arguments not negative *)
Definition G11_zero (sn baseMVA : Q) (z : zero_in) (sq_tap sq_m : Q) : bool :=
  let t := z_t z in
  negb (qeqb sn 0) && negb (qeqb baseMVA 0) && negb (qeqb (t_sn t) 0) && negb (qeqb (t_par t) 0) && negb (qeqb (t_vn_lv t) 0) &&
  negb (qeqb (t_vn_hv t) 0) && negb (qeqb (t_basekv_lv t) 0) && negb (qeqb (t_basekv_hv t) 0) && negb (qeqb sq_tap 0) && negb (qeqb sq_m 0) &&
  negb (qeqb (z_si0 z) 0) && negb (qeqb (z_si0 z) 1) && negb (qeqb (z_mag0 z) 0) && negb (qeqb (z0_zsc sn z sq_tap) 0) &&
  qleb 0 (z0_sqrt_arg sn z sq_tap).

(* ------------------------------------------------------------------ run wrappers *)
Definition ozrow (r : zrow) : list out :=
  [oq (zr_r r); oq (zr_x r); oq (re (zr_ysym r)); oq (im (zr_ysym r)); oq (re (zr_yasym r)); oq (im (zr_yasym r));
   oq (zr_tap r); oq (zr_shift r); oq (zr_status r)].
(* row (9 values) ++ the two sqrt arguments ++ the two-port Yff Yft Ytf Ytt *)
Definition run_zero_row (sn baseMVA : Q) (z : zero_in) (sq_tap sq_x0 sq_m : Q) (e : C) : out :=
  if G11_zero sn baseMVA z sq_tap sq_m then
    let r := zero_row sn baseMVA z sq_tap sq_x0 sq_m in
    let s := branch_vectors r e in
    OL (ozrow r ++ [oq (z0_sqrt_arg sn z sq_tap); oq (mag_sqrt_arg z); oc (Yff s); oc (Yft s); oc (Ytf s); oc (Ytt s)])
  else OErr "undefined".
