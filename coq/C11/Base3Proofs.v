(* C11.Base3Proofs — the one-third base of the pf_3ph branch rows is a consistent base change (lines, two-winding
   transformers incl. the T -> pi conversion); the impedance element's shunt part is not. *)
From Coq Require Import ZArith QArith Qabs List Bool Lia Lqa Setoid Morphisms.
From PPV Require Import Base.QN Base.QC Base.C11CF C11.Base3.
Open Scope Q_scope.

(* ---------------------------------------------------------------- small tools *)
Lemma qeqb_false x y : qeqb x y = false <-> ~ x == y.
Proof. rewrite <- qeqb_eq. destruct (qeqb x y); split; intros; congruence. Qed.
Lemma negb_qeqb x y : negb (qeqb x y) = true <-> ~ x == y.
Proof. rewrite negb_true_iff. apply qeqb_false. Qed.
Global Instance qeqb_proper : Proper (Qeq ==> Qeq ==> eq) qeqb.
Proof.
  intros a b H c d H'. destruct (qeqb a c) eqn:E, (qeqb b d) eqn:F; try reflexivity.
  - apply qeqb_eq in E. apply qeqb_false in F. exfalso. apply F. rewrite <- H, <- H'. exact E.
  - apply qeqb_eq in F. apply qeqb_false in E. exfalso. apply E. rewrite H, H'. exact F.
Qed.
Global Instance qltb_proper : Proper (Qeq ==> Qeq ==> eq) qltb.
Proof.
  intros a b H c d H'. destruct (qltb a c) eqn:E, (qltb b d) eqn:F; try reflexivity.
  - apply qltb_lt in E. apply qltb_ge in F. rewrite H, H' in E. exfalso. apply (Qlt_not_le _ _ E F).
  - apply qltb_lt in F. apply qltb_ge in E. rewrite H, H' in E. exfalso. apply (Qlt_not_le _ _ F E).
Qed.

Lemma is_sqrt_unique a b x y : is_sqrt a x -> is_sqrt b y -> x == y -> a == b.
Proof. intros [A1 A2] [B1 B2] E. rewrite <- E in B2. nra. Qed.
(* sqrt(x / k^2) = sqrt(x) / k *)
Lemma is_sqrt_scale a b x y k : 0 < k -> is_sqrt a x -> is_sqrt b y -> x == k * k * y -> a == k * b.
Proof.
  intros K [A1 A2] [B1 B2] E.
  assert (H : a * a == (k * b) * (k * b)) by (rewrite A2, E, <- B2; ring).
  assert (0 <= k * b) by nra. nra.
Qed.

Lemma qsign_scale k z : 0 < k -> qsign (k * z) = qsign z.
Proof.
  intros K. unfold qsign.
  destruct (qltb z 0) eqn:E.
  - apply qltb_lt in E. assert (H : qltb (k * z) 0 = true) by (apply qltb_lt; nra). rewrite H. reflexivity.
  - apply qltb_ge in E. assert (H : qltb (k * z) 0 = false) by (apply qltb_ge; nra). rewrite H.
    destruct (qltb 0 z) eqn:F.
    + apply qltb_lt in F. assert (H2 : qltb 0 (k * z) = true) by (apply qltb_lt; nra). rewrite H2. reflexivity.
    + apply qltb_ge in F. assert (H2 : qltb 0 (k * z) = false) by (apply qltb_ge; nra). rewrite H2. reflexivity.
Qed.
Global Instance qsign_proper : Proper (Qeq ==> eq) qsign.
Proof. intros a b H. unfold qsign. rewrite (qltb_proper a b H 0 0 (Qeq_refl 0)), (qltb_proper 0 0 (Qeq_refl 0) a b H). reflexivity. Qed.

Ltac b3unfold :=
  unfold line_row_of, line_baseR, three_if, third_if, qsq in *; cbn [lr_r lr_x lr_b lr_g] in *.

(* ---------------------------------------------------------------- lines *)
Definition line_row_eq (a b : line_row) : Prop :=
  lr_r a == lr_r b /\ lr_x a == lr_x b /\ lr_b a == lr_b b /\ lr_g a == lr_g b.

(* pf_3ph at sn = s  is  pf at sn = 3*s *)
Lemma line_third_consistency s f pi l : line_row_eq (line_row_of true s f pi l) (line_row_of false (3 * s) f pi l).
Proof. b3unfold. unfold line_row_eq; cbn [lr_r lr_x lr_b lr_g]. qnorm. repeat split; reflexivity. Qed.

Lemma G11_line_true s l : G11_line s l = true -> ~ s == 0 /\ ~ l_basekv l == 0 /\ ~ l_par l == 0.
Proof. unfold G11_line. rewrite !andb_true_iff, !negb_qeqb. tauto. Qed.

(* against pf at the same sn: r, x three times, b, g one third *)
Lemma line_third_scaling s f pi l : G11_line s l = true ->
  let r3 := line_row_of true s f pi l in let r1 := line_row_of false s f pi l in
  lr_r r3 == 3 * lr_r r1 /\ lr_x r3 == 3 * lr_x r1 /\ lr_b r3 == lr_b r1 / 3 /\ lr_g r3 == lr_g r1 / 3.
Proof.
  intros G. apply G11_line_true in G. destruct G as (S & B & P). b3unfold. qnorm. repeat split; field; auto.
Qed.

(* the ohmic values recovered with the base the row was computed on are the sn-free physical values *)
Definition line_ohm_spec (f pi : Q) (l : line_in) : Q * Q * Q * Q :=
  (l_r l * l_len l / l_par l, l_x l * l_len l / l_par l,
   2 * f * pi * l_c l * (1 # 1000000000) * l_len l * l_par l, l_g l * (1 # 1000000) * l_len l * l_par l).
Definition line_ohm_of (zbase : Q) (r : line_row) : Q * Q * Q * Q :=
  (lr_r r * zbase, lr_x r * zbase, lr_b r / zbase, lr_g r / zbase).
Definition q4eq (a b : Q * Q * Q * Q) : Prop :=
  let '(a1, a2, a3, a4) := a in let '(b1, b2, b3, b4) := b in a1 == b1 /\ a2 == b2 /\ a3 == b3 /\ a4 == b4.
Lemma line_ohmic s f pi l : G11_line s l = true ->
  let v2 := l_basekv l * l_basekv l in
  q4eq (line_ohm_of (v2 / (3 * s)) (line_row_of true s f pi l)) (line_ohm_spec f pi l) /\
  q4eq (line_ohm_of (v2 / s) (line_row_of false s f pi l)) (line_ohm_spec f pi l).
Proof.
  intros G. apply G11_line_true in G. destruct G as (S & B & P).
  unfold line_ohm_of, line_ohm_spec, q4eq. b3unfold. qnorm. repeat split; field; auto.
Qed.

(* ---------------------------------------------------------------- two-winding transformer: r, x, g, b *)
(* v' is v expressed on a base k times larger: impedances * k, admittances / k *)
Definition rxgb_scaled (k : Q) (v' v : rxgb) : Prop :=
  v_r v' == k * v_r v /\ v_x v' == k * v_x v /\ v_g v' == v_g v / k /\ v_b v' == v_b v / k.

Ltac t3unfold :=
  unfold trafo_rxgb, trafo_r, trafo_x, trafo_g, trafo_b, y_scale, x_sqrt_arg, r_sc, z_sc, tap_lv_factor,
    y_baseZ, y_pfe_mw, y_vnl_squared, y_ym_mva, y_i0, three_if, third_if, qsq in *; cbn [v_r v_x v_g v_b] in *.

Lemma z_sc_third s t q : z_sc true s t q == 3 * z_sc false s t q.
Proof. t3unfold. qnorm. unfold Qdiv. ring. Qed.
Lemma r_sc_third s t q : r_sc true s t q == 3 * r_sc false s t q.
Proof. t3unfold. qnorm. unfold Qdiv. ring. Qed.
Lemma z_sc_3s s t q : z_sc true s t q == z_sc false (3 * s) t q.
Proof. t3unfold. qnorm. reflexivity. Qed.
Lemma r_sc_3s s t q : r_sc true s t q == r_sc false (3 * s) t q.
Proof. t3unfold. qnorm. reflexivity. Qed.
Lemma x_arg_third s t q : x_sqrt_arg true s t q == 3 * 3 * x_sqrt_arg false s t q.
Proof. unfold x_sqrt_arg, qsq. qnorm. rewrite z_sc_third, r_sc_third. ring. Qed.
Lemma x_arg_3s s t q : x_sqrt_arg true s t q == x_sqrt_arg false (3 * s) t q.
Proof. unfold x_sqrt_arg, qsq. qnorm. rewrite z_sc_3s, r_sc_3s. reflexivity. Qed.

(* the clamped sqrt argument of the magnetising susceptance: pf = 9 * pf_3ph *)
Lemma b_arg_third t : b_sqrt_arg false t == 3 * 3 * b_sqrt_arg true t.
Proof.
  unfold b_sqrt_arg.
  set (d3 := qsub (qsq (y_ym_mva true t)) (qsq (y_pfe_mw true t))).
  set (d1 := qsub (qsq (y_ym_mva false t)) (qsq (y_pfe_mw false t))).
  assert (E : d1 == 9 * d3).
  { unfold d1, d3. t3unfold. qnorm. field. }
  destruct (qltb d3 0) eqn:A, (qltb d1 0) eqn:B.
  - ring.
  - apply qltb_lt in A. apply qltb_ge in B. exfalso. nra.
  - apply qltb_lt in B. apply qltb_ge in A. exfalso. nra.
  - rewrite E. ring.
Qed.

(* no zero denominator (implied by the guard G11_trafo) *)
Definition trafo_wf (s : Q) (t : trafo_in) (q : Q) : Prop :=
  ~ s == 0 /\ ~ t_sn t == 0 /\ ~ t_par t == 0 /\ ~ t_vn_lv t == 0 /\ ~ t_basekv_lv t == 0 /\ ~ t_basekv_hv t == 0 /\ ~ q == 0.
Lemma G11_trafo_wf m s t q : G11_trafo m s t q = true -> trafo_wf s t q /\ 0 <= x_sqrt_arg m s t q.
Proof.
  unfold G11_trafo, trafo_wf. rewrite !andb_true_iff, !negb_qeqb. intros H. decompose [and] H. clear H.
  repeat split; auto. apply qleb_le. assumption.
Qed.
Lemma vtl_nz s t q : trafo_wf s t q -> ~ vn_trafo_lv t q == 0.
Proof. unfold trafo_wf, vn_trafo_lv. intros H. decompose [and] H. destruct (t_tap_lv_side t); assumption. Qed.
Lemma vth_nz s t q : trafo_wf s t q -> ~ t_vn_hv t == 0 -> ~ vn_trafo_hv t q == 0.
Proof. unfold trafo_wf, vn_trafo_hv. intros H. decompose [and] H. destruct (t_tap_lv_side t); auto. Qed.

Ltac wf_side W := pose proof (vtl_nz _ _ _ W); unfold trafo_wf in W; decompose [and] W; repeat split; auto.

Lemma trafo_g_3s s t q : trafo_wf s t q -> trafo_g true s t q == trafo_g false (3 * s) t q.
Proof. intros W. t3unfold. qnorm. field. wf_side W. Qed.
Lemma trafo_g_third s t q : trafo_wf s t q -> trafo_g true s t q == trafo_g false s t q / 3.
Proof. intros W. t3unfold. qnorm. field. wf_side W. Qed.
Lemma trafo_b_3s s t q sb : trafo_wf s t q -> trafo_b true s t q sb == trafo_b false (3 * s) t q (3 * sb).
Proof. intros W. t3unfold. qnorm. field. wf_side W. Qed.
Lemma trafo_b_third s t q sb : trafo_wf s t q -> trafo_b true s t q sb == trafo_b false s t q (3 * sb) / 3.
Proof. intros W. t3unfold. qnorm. field. wf_side W. Qed.
Global Instance trafo_b_proper m s t q : Proper (Qeq ==> Qeq) (trafo_b m s t q).
Proof. intros a b H. unfold trafo_b, y_scale. rewrite H. reflexivity. Qed.

(* r, x, g, b of pf_3ph at sn = s  are  those of pf at sn = 3*s (any sqrt oracle values meeting the contract) *)
Lemma trafo_rxgb_consistency s t q sx3 sb3 sx1 sb1 :
  trafo_wf s t q ->
  is_sqrt sx3 (x_sqrt_arg true s t q) -> is_sqrt sx1 (x_sqrt_arg false (3 * s) t q) ->
  is_sqrt sb3 (b_sqrt_arg true t) -> is_sqrt sb1 (b_sqrt_arg false t) ->
  rxgb_scaled 1 (trafo_rxgb true s t q sx3 sb3) (trafo_rxgb false (3 * s) t q sx1 sb1).
Proof.
  intros W X3 X1 B3 B1.
  assert (EX : sx3 == sx1) by (eapply is_sqrt_unique; eauto using x_arg_3s).
  assert (EB : sb1 == 3 * sb3) by (eapply (is_sqrt_scale sb1 sb3 _ _ 3); eauto using b_arg_third; lra).
  pose proof (z_sc_3s s t q) as EZ. pose proof (r_sc_3s s t q) as ER.
  unfold rxgb_scaled, trafo_rxgb, trafo_r, trafo_x; cbn [v_r v_x v_g v_b].
  repeat split.
  - qnorm. rewrite ER. unfold Qdiv. ring.
  - qnorm. rewrite EZ, EX. unfold Qdiv. ring.
  - rewrite (trafo_g_3s _ _ _ W). unfold Qdiv. rewrite Qinv_1 || idtac. field.
  - rewrite (trafo_b_3s _ _ _ _ W), EB. field.
Qed.

(* against pf at the same sn: r, x three times, g, b one third *)
Lemma trafo_rxgb_third s t q sx3 sb3 sx1 sb1 :
  trafo_wf s t q ->
  is_sqrt sx3 (x_sqrt_arg true s t q) -> is_sqrt sx1 (x_sqrt_arg false s t q) ->
  is_sqrt sb3 (b_sqrt_arg true t) -> is_sqrt sb1 (b_sqrt_arg false t) ->
  rxgb_scaled 3 (trafo_rxgb true s t q sx3 sb3) (trafo_rxgb false s t q sx1 sb1).
Proof.
  intros W X3 X1 B3 B1.
  assert (EX : sx3 == 3 * sx1) by (eapply (is_sqrt_scale sx3 sx1 _ _ 3); eauto using x_arg_third; lra).
  assert (EB : sb1 == 3 * sb3) by (eapply (is_sqrt_scale sb1 sb3 _ _ 3); eauto using b_arg_third; lra).
  pose proof (z_sc_third s t q) as EZ. pose proof (r_sc_third s t q) as ER.
  unfold rxgb_scaled, trafo_rxgb, trafo_r, trafo_x; cbn [v_r v_x v_g v_b].
  repeat split.
  - qnorm. rewrite ER. unfold Qdiv. ring.
  - qnorm. rewrite EZ, EX, qsign_scale by lra. unfold Qdiv. ring.
  - apply trafo_g_third; assumption.
  - rewrite (trafo_b_third _ _ _ _ W), EB. reflexivity.
Qed.

(* ---------------------------------------------------------------- T -> pi conversion is homogeneous *)
Lemma Cscale_add k a b : Cadd (Cscale k a) (Cscale k b) ==c Cscale k (Cadd a b).
Proof. cstrip; ring. Qed.
Lemma Cscale_mul2 k m a b : Cmul (Cscale k a) (Cscale m b) ==c Cscale (k * m) (Cmul a b).
Proof. cstrip; ring. Qed.
Lemma sumsq0 a b : a * a + b * b == 0 -> a == 0 /\ b == 0.
Proof. intros H. split; nra. Qed.
Lemma Cscale_inv k z : ~ k == 0 -> Cinv (Cscale k z) ==c Cscale (/ k) (Cinv z).
Proof.
  intros K. destruct z as [a b]. destruct (Qeq_dec (a * a + b * b) 0) as [E | E].
  - destruct (sumsq0 _ _ E) as [A B]. cstrip; rewrite A, B; unfold Qdiv; ring.
  - assert (N : ~ k * a * (k * a) + k * b * (k * b) == 0).
    { intro H. apply E. assert (H1 : k * k * (a * a + b * b) == 0) by (rewrite <- H; ring).
      assert (H2 : ~ k * k == 0) by nra. nra. }
    cstrip; field; repeat split; auto.
Qed.
Lemma Cscale_div k m a b : ~ m == 0 -> Cdiv (Cscale k a) (Cscale m b) ==c Cscale (k / m) (Cdiv a b).
Proof.
  intros M. unfold Cdiv. rewrite (Cscale_inv m b M), Cscale_mul2. reflexivity.
Qed.
Lemma re_scale k a : re (Cscale k a) == k * re a. Proof. cbn [Cscale re]. qnorm. reflexivity. Qed.
Lemma im_scale k a : im (Cscale k a) == k * im a. Proof. cbn [Cscale im]. qnorm. reflexivity. Qed.

Definition trow_scaled (k : Q) (w' w : trow) : Prop :=
  tr_r w' == k * tr_r w /\ tr_x w' == k * tr_x w /\ tr_g w' == tr_g w / k /\ tr_b w' == tr_b w / k /\
  tr_g_asym w' == tr_g_asym w / k /\ tr_b_asym w' == tr_b_asym w / k.

Lemma wye_delta_homogeneous k v' v rr xr : ~ k == 0 -> rxgb_scaled k v' v ->
  trow_scaled k (wye_delta v' rr xr) (wye_delta v rr xr).
Proof.
  intros K (HR & HX & HG & HB). unfold wye_delta.
  assert (T : (qeqb (v_g v') 0 && qeqb (v_b v') 0)%bool = (qeqb (v_g v) 0 && qeqb (v_b v) 0)%bool).
  { assert (A : qeqb (v_g v') 0 = qeqb (v_g v) 0).
    { destruct (qeqb (v_g v) 0) eqn:E.
      - apply qeqb_eq in E. apply qeqb_eq. rewrite HG, E. unfold Qdiv. ring.
      - apply qeqb_false in E. apply qeqb_false. intro H. apply E. rewrite HG in H.
        assert (v_g v == (v_g v / k) * k) by (field; auto). rewrite H0, H. ring. }
    assert (B : qeqb (v_b v') 0 = qeqb (v_b v) 0).
    { destruct (qeqb (v_b v) 0) eqn:E.
      - apply qeqb_eq in E. apply qeqb_eq. rewrite HB, E. unfold Qdiv. ring.
      - apply qeqb_false in E. apply qeqb_false. intro H. apply E. rewrite HB in H.
        assert (v_b v == (v_b v / k) * k) by (field; auto). rewrite H0, H. ring. }
    rewrite A, B. reflexivity. }
  rewrite T. destruct (qeqb (v_g v) 0 && qeqb (v_b v) 0)%bool.
  - unfold trow_scaled; cbn [tr_r tr_x tr_g tr_b tr_g_asym tr_b_asym]. repeat split; auto; unfold Qdiv; ring.
  - set (za := mkC (qmul (v_r v) rr) (qmul (v_x v) xr)).
    set (zb := mkC (qmul (v_r v) (qsub 1 rr)) (qmul (v_x v) (qsub 1 xr))).
    set (y := mkC (v_g v) (v_b v)).
    set (za' := mkC (qmul (v_r v') rr) (qmul (v_x v') xr)).
    set (zb' := mkC (qmul (v_r v') (qsub 1 rr)) (qmul (v_x v') (qsub 1 xr))).
    set (y' := mkC (v_g v') (v_b v')).
    assert (EA : za' ==c Cscale k za) by (unfold za', za; cstrip; [rewrite HR | rewrite HX]; ring).
    assert (EB : zb' ==c Cscale k zb) by (unfold zb', zb; cstrip; [rewrite HR | rewrite HX]; ring).
    assert (EY : y' ==c Cscale (/ k) y) by (unfold y', y; cstrip; [rewrite HG | rewrite HB]; unfold Qdiv; ring).
    assert (K' : ~ / k == 0) by (intro H; apply K; rewrite <- (Qinv_involutive k), H; reflexivity).
    assert (EC : Cinv y' ==c Cscale k (Cinv y)).
    { rewrite EY, (Cscale_inv _ _ K'). rewrite Qinv_involutive. reflexivity. }
    set (zc := Cinv y) in *. set (zc' := Cinv y') in *.
    set (zs := Cadd (Cadd (Cmul za zb) (Cmul za zc)) (Cmul zb zc)).
    set (zs' := Cadd (Cadd (Cmul za' zb') (Cmul za' zc')) (Cmul zb' zc')).
    assert (ES : zs' ==c Cscale (k * k) zs).
    { unfold zs', zs. rewrite EA, EB, EC, !Cscale_mul2, !Cscale_add. reflexivity. }
    assert (KK : (k * k) / k == k) by (field; auto).
    assert (EAB : Cdiv zs' zc' ==c Cscale k (Cdiv zs zc)) by (rewrite ES, EC, (Cscale_div _ _ _ _ K), KK; reflexivity).
    assert (EAC : Cdiv zs' zb' ==c Cscale k (Cdiv zs zb)) by (rewrite ES, EB, (Cscale_div _ _ _ _ K), KK; reflexivity).
    assert (EBC : Cdiv zs' za' ==c Cscale k (Cdiv zs za)) by (rewrite ES, EA, (Cscale_div _ _ _ _ K), KK; reflexivity).
    assert (EF : Cinv (Cdiv zs' zb') ==c Cscale (/ k) (Cinv (Cdiv zs zb))) by (rewrite EAC, (Cscale_inv _ _ K); reflexivity).
    assert (ET : Cinv (Cdiv zs' za') ==c Cscale (/ k) (Cinv (Cdiv zs za))) by (rewrite EBC, (Cscale_inv _ _ K); reflexivity).
    unfold trow_scaled; cbn [tr_r tr_x tr_g tr_b tr_g_asym tr_b_asym]. qnorm.
    rewrite EAB, EF, ET, !re_scale, !im_scale.
    clearbody zs zs' zc zc' za zb za' zb' y y'.
    generalize (re (Cdiv zs zc)) (im (Cdiv zs zc)) (re (Cinv (Cdiv zs zb))) (im (Cinv (Cdiv zs zb)))
               (re (Cinv (Cdiv zs za))) (im (Cinv (Cdiv zs za))).
    intros a1 a2 a3 a4 a5 a6. repeat split; unfold Qdiv; ring.
Qed.

(* ---------------------------------------------------------------- the transformer row (trafo_model "t") *)
Lemma trafo_row_consistency s t q sx3 sb3 sx1 sb1 :
  trafo_wf s t q ->
  is_sqrt sx3 (x_sqrt_arg true s t q) -> is_sqrt sx1 (x_sqrt_arg false (3 * s) t q) ->
  is_sqrt sb3 (b_sqrt_arg true t) -> is_sqrt sb1 (b_sqrt_arg false t) ->
  trow_scaled 1 (trafo_row_t true s t q sx3 sb3) (trafo_row_t false (3 * s) t q sx1 sb1).
Proof.
  intros. unfold trafo_row_t. apply wye_delta_homogeneous; [lra |]. apply trafo_rxgb_consistency; assumption.
Qed.
Lemma trafo_row_third s t q sx3 sb3 sx1 sb1 :
  trafo_wf s t q ->
  is_sqrt sx3 (x_sqrt_arg true s t q) -> is_sqrt sx1 (x_sqrt_arg false s t q) ->
  is_sqrt sb3 (b_sqrt_arg true t) -> is_sqrt sb1 (b_sqrt_arg false t) ->
  trow_scaled 3 (trafo_row_t true s t q sx3 sb3) (trafo_row_t false s t q sx1 sb1).
Proof.
  intros. unfold trafo_row_t. apply wye_delta_homogeneous; [lra |]. apply trafo_rxgb_third; assumption.
Qed.

(* sn-free ohmic specification of the transformer (referred to the lv side, at the lv bus voltage level):
     r = vkr/100 * vn_trafo_lv^2 / sn_trafo / parallel   [ohm]
     |z| = vk/100 * vn_trafo_lv^2 / sn_trafo / parallel  [ohm]  (x = sign * sqrt(z^2 - r^2))
     g = pfe_kw/1000 / vn_trafo_lv^2 * parallel           [S]
     |y|: (i0/100 * sn_trafo)  / vn_trafo_lv^2 * parallel [S]   (b = -sqrt(y^2 - g^2), clamped)
   the values recovered from the rows with the base the rows were computed on:  base 3*s for pf_3ph, s for pf *)
Definition trafo_ohm_r (t : trafo_in) (q : Q) : Q :=
  t_vkr t / 100 * (vn_trafo_lv t q * vn_trafo_lv t q) / t_sn t / t_par t.
Definition trafo_siemens_g (t : trafo_in) (q : Q) : Q :=
  t_pfe_kw t * (1 # 1000) / (vn_trafo_lv t q * vn_trafo_lv t q) * t_par t.
Lemma trafo_ohmic s t q : trafo_wf s t q ->
  let zb3 := t_basekv_lv t * t_basekv_lv t / (3 * s) in let zb1 := t_basekv_lv t * t_basekv_lv t / s in
  trafo_r true s t q * zb3 == trafo_ohm_r t q /\ trafo_r false s t q * zb1 == trafo_ohm_r t q /\
  trafo_g true s t q / zb3 == trafo_siemens_g t q /\ trafo_g false s t q / zb1 == trafo_siemens_g t q.
Proof.
  intros W. unfold trafo_ohm_r, trafo_siemens_g. cbn zeta. t3unfold. repeat split; qstrip; field; wf_side W.
Qed.
(* the reactance and the susceptance: recovered ohmic values of the two modes coincide for every pair of oracle values *)
Lemma trafo_ohmic_xb s t q sx3 sb3 sx1 sb1 :
  trafo_wf s t q ->
  is_sqrt sx3 (x_sqrt_arg true s t q) -> is_sqrt sx1 (x_sqrt_arg false s t q) ->
  is_sqrt sb3 (b_sqrt_arg true t) -> is_sqrt sb1 (b_sqrt_arg false t) ->
  let zb3 := t_basekv_lv t * t_basekv_lv t / (3 * s) in let zb1 := t_basekv_lv t * t_basekv_lv t / s in
  trafo_x true s t q sx3 * zb3 == trafo_x false s t q sx1 * zb1 /\
  trafo_b true s t q sb3 / zb3 == trafo_b false s t q sb1 / zb1.
Proof.
  intros W X3 X1 B3 B1.
  destruct (trafo_rxgb_third s t q sx3 sb3 sx1 sb1 W X3 X1 B3 B1) as (_ & HX & _ & HB).
  cbn [trafo_rxgb v_x v_b] in HX, HB. cbn zeta. rewrite HX, HB. unfold trafo_wf in W. decompose [and] W.
  split; field; repeat split; auto.
Qed.

(* tap ratio and shift do not depend on the mode (they are not functions of it); the tapped voltage is |u1 + du| *)
Lemma tap_voltage_is_abs t q : is_sqrt q (tap_sqrt_arg t) -> q == Qabs (tap_u1 t + tap_du t).
Proof.
  intros [A B]. unfold tap_sqrt_arg, qsq in B. revert B. qnorm. intros B.
  set (u := tap_u1 t + tap_du t) in *.
  assert (E : q * q == u * u) by (rewrite B; unfold u; ring).
  destruct (Qlt_le_dec u 0) as [N | P].
  - rewrite Qabs_neg by lra. nra.
  - rewrite Qabs_pos by assumption. nra.
Qed.

(* ---------------------------------------------------------------- impedance element *)
Definition imp_row_scaled (k : Q) (a b : imp_row) : Prop :=
  ir_r a == k * ir_r b /\ ir_x a == k * ir_x b /\ ir_r_asym a == k * ir_r_asym b /\ ir_x_asym a == k * ir_x_asym b /\
  ir_g a == ir_g b / k /\ ir_b a == ir_b b / k /\ ir_g_asym a == ir_g_asym b / k /\ ir_b_asym a == ir_b_asym b / k.
Lemma G11_imp_noshunt_true i : G11_imp_noshunt i = true -> i_gf i == 0 /\ i_bf i == 0 /\ i_gt i == 0 /\ i_bt i == 0.
Proof. unfold G11_imp_noshunt. rewrite !andb_true_iff, !qeqb_eq. tauto. Qed.
(* the series part is on the base 3*s, and so is the whole row when there is no shunt part *)
Lemma imp_row_third_partial s i : G11_imp_noshunt i = true ->
  imp_row_scaled 3 (imp_row_of true s i) (imp_row_of false s i).
Proof.
  intros G. apply G11_imp_noshunt_true in G. destruct G as (A & B & C & D).
  unfold imp_row_scaled, imp_row_of, imp_row_gen, imp_series, imp_shunt, three_if; cbn [ir_r ir_x ir_r_asym ir_x_asym ir_g ir_b ir_g_asym ir_b_asym].
  qnorm. rewrite A, B, C, D. repeat split; unfold Qdiv; ring.
Qed.
(* faithful characterisation: the shunt part of the pf_3ph row is 3 times (not one third of) the pf row: 9 times too large *)
Lemma imp_row_shunt_faithful s i :
  let r3 := imp_row_of true s i in let r1 := imp_row_of false s i in
  ir_g r3 == 3 * ir_g r1 /\ ir_b r3 == 3 * ir_b r1 /\ ir_g_asym r3 == 3 * ir_g_asym r1 /\ ir_b_asym r3 == 3 * ir_b_asym r1.
Proof.
  unfold imp_row_of, imp_row_gen, imp_series, imp_shunt, three_if; cbn [ir_r ir_x ir_r_asym ir_x_asym ir_g ir_b ir_g_asym ir_b_asym].
  qnorm. repeat split; unfold Qdiv; ring.
Qed.
(* with the proposed repair the whole row is a consistent base change, for every impedance element *)
Lemma imp_row_third_repaired s i : imp_row_scaled 3 (imp_row_repaired true s i) (imp_row_repaired false s i).
Proof.
  unfold imp_row_scaled, imp_row_repaired, imp_row_gen, imp_series, imp_shunt_repaired, three_if, third_if;
    cbn [ir_r ir_x ir_r_asym ir_x_asym ir_g ir_b ir_g_asym ir_b_asym].
  qnorm. repeat split; unfold Qdiv; ring.
Qed.
Definition imp_wit : imp_in :=
  {| i_rft := 1 # 100; i_xft := 1 # 50; i_rtf := 1 # 100; i_xtf := 1 # 50; i_gf := 1 # 100; i_bf := 1 # 50;
     i_gt := 1 # 100; i_bt := 1 # 50; i_sn := 10 |}.
Lemma imp_row_third_refuted : exists s i, ~ s == 0 /\ ~ i_sn i == 0 /\ ~ imp_row_scaled 3 (imp_row_of true s i) (imp_row_of false s i).
Proof.
  exists 1, imp_wit. split; [discriminate |]. split; [discriminate |].
  intros (_ & _ & _ & _ & H & _). vm_compute in H. discriminate.
Qed.

(* ---------------------------------------------------------------- non-vacuity *)
Definition line_wit : line_in :=
  {| l_r := 3 # 10; l_x := 2 # 5; l_c := 200; l_g := 2; l_len := 5 # 2; l_par := 2; l_basekv := 20 |}.
Example line_nonvacuous : G11_line 10 line_wit = true /\ ~ lr_r (line_row_of true 10 50 (355 # 113) line_wit) == 0 /\
  ~ lr_b (line_row_of true 10 50 (355 # 113) line_wit) == 0 /\ ~ lr_g (line_row_of true 10 50 (355 # 113) line_wit) == 0.
Proof. repeat split; vm_compute; discriminate. Qed.

(* a transformer whose three sqrt arguments are perfect squares: vk 5 %, vkr 3 % (x: 4 %), i0 0.05 %, pfe 6 kW on 20 MVA
   (ym = 10 kVA, b = 8 kvar), lv tap +2 steps of 2.5 % on 20 kV -> 21 kV *)
Definition trafo_wit : trafo_in :=
  {| t_vn_hv := 110; t_vn_lv := 20; t_sn := 20; t_vk := 5; t_vkr := 3; t_pfe_kw := 6; t_i0 := 5 # 100; t_par := 2;
     t_shift := 150; t_tap_lv_side := true; t_tap_pos := 2; t_tap_neutral := 0; t_tap_step := 5 # 2;
     t_basekv_hv := 110; t_basekv_lv := 20; t_r_ratio := 1 # 2; t_x_ratio := 1 # 2 |}.
Example trafo_nonvacuous :
  let s := 1 in let t := trafo_wit in let q := 21 in
  is_sqrt q (tap_sqrt_arg t) /\ G11_trafo true s t q = true /\ G11_trafo false s t q = true /\ G11_trafo false (3 * s) t q = true /\
  is_sqrt (1323 # 200000) (x_sqrt_arg true s t q) /\ is_sqrt (441 # 200000) (x_sqrt_arg false s t q) /\
  is_sqrt (1323 # 200000) (x_sqrt_arg false (3 * s) t q) /\
  is_sqrt (8 # 3000) (b_sqrt_arg true t) /\ is_sqrt (8 # 1000) (b_sqrt_arg false t) /\
  ~ tr_g (trafo_row_t true s t q (1323 # 200000) (8 # 3000)) == 0 /\ ~ tr_b (trafo_row_t true s t q (1323 # 200000) (8 # 3000)) == 0.
Proof.
  cbn zeta. unfold is_sqrt. repeat split; try (vm_compute; reflexivity); try (vm_compute; discriminate).
Qed.

(* ---------------------------------------------------------------- statements used by Properties/C11.v *)
Lemma base_third_line_all : forall s f pi l,
  line_row_eq (line_row_of true s f pi l) (line_row_of false (3 * s) f pi l) /\
  (G11_line s l = true ->
   (let r3 := line_row_of true s f pi l in let r1 := line_row_of false s f pi l in
    lr_r r3 == 3 * lr_r r1 /\ lr_x r3 == 3 * lr_x r1 /\ lr_b r3 == lr_b r1 / 3 /\ lr_g r3 == lr_g r1 / 3) /\
   (let v2 := l_basekv l * l_basekv l in
    q4eq (line_ohm_of (v2 / (3 * s)) (line_row_of true s f pi l)) (line_ohm_spec f pi l) /\
    q4eq (line_ohm_of (v2 / s) (line_row_of false s f pi l)) (line_ohm_spec f pi l))).
Proof.
  intros s f pi l. split; [apply line_third_consistency |]. intros G. split; [apply line_third_scaling | apply line_ohmic]; exact G.
Qed.
Lemma base_third_trafo_consistency : forall s t q sx3 sb3 sx1 sb1,
  G11_trafo true s t q = true ->
  is_sqrt sx3 (x_sqrt_arg true s t q) -> is_sqrt sx1 (x_sqrt_arg false (3 * s) t q) ->
  is_sqrt sb3 (b_sqrt_arg true t) -> is_sqrt sb1 (b_sqrt_arg false t) ->
  trow_scaled 1 (trafo_row_t true s t q sx3 sb3) (trafo_row_t false (3 * s) t q sx1 sb1).
Proof. intros s t q sx3 sb3 sx1 sb1 G. apply trafo_row_consistency. exact (proj1 (G11_trafo_wf _ _ _ _ G)). Qed.
Lemma base_third_trafo_scaling : forall s t q sx3 sb3 sx1 sb1,
  G11_trafo true s t q = true ->
  is_sqrt sx3 (x_sqrt_arg true s t q) -> is_sqrt sx1 (x_sqrt_arg false s t q) ->
  is_sqrt sb3 (b_sqrt_arg true t) -> is_sqrt sb1 (b_sqrt_arg false t) ->
  trow_scaled 3 (trafo_row_t true s t q sx3 sb3) (trafo_row_t false s t q sx1 sb1) /\
  rxgb_scaled 3 (trafo_rxgb true s t q sx3 sb3) (trafo_rxgb false s t q sx1 sb1).
Proof.
  intros s t q sx3 sb3 sx1 sb1 G X3 X1 B3 B1. pose proof (proj1 (G11_trafo_wf _ _ _ _ G)) as W.
  split; [apply trafo_row_third | apply trafo_rxgb_third]; assumption.
Qed.
Lemma base_third_trafo_ohmic : forall s t q sx3 sb3 sx1 sb1,
  G11_trafo true s t q = true ->
  is_sqrt sx3 (x_sqrt_arg true s t q) -> is_sqrt sx1 (x_sqrt_arg false s t q) ->
  is_sqrt sb3 (b_sqrt_arg true t) -> is_sqrt sb1 (b_sqrt_arg false t) ->
  let zb3 := t_basekv_lv t * t_basekv_lv t / (3 * s) in let zb1 := t_basekv_lv t * t_basekv_lv t / s in
  (trafo_r true s t q * zb3 == trafo_ohm_r t q /\ trafo_r false s t q * zb1 == trafo_ohm_r t q /\
   trafo_g true s t q / zb3 == trafo_siemens_g t q /\ trafo_g false s t q / zb1 == trafo_siemens_g t q) /\
  (trafo_x true s t q sx3 * zb3 == trafo_x false s t q sx1 * zb1 /\
   trafo_b true s t q sb3 / zb3 == trafo_b false s t q sb1 / zb1).
Proof.
  intros s t q sx3 sb3 sx1 sb1 G X3 X1 B3 B1. pose proof (proj1 (G11_trafo_wf _ _ _ _ G)) as W.
  split; [apply trafo_ohmic | apply trafo_ohmic_xb]; assumption.
Qed.
