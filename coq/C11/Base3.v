(* C11.Base3 — the per-unit bases of the positive-sequence branch rows in mode "pf" and in mode "pf_3ph"
   (runpp_3ph builds its sequence ppcs with mode = "pf_3ph", pf/runpp_3ph.py:363; the ppc carries baseMVA = net.sn_mva in
   both modes, pd2ppc.py:239, but the branch rows of pf_3ph are computed on the three-phase base 3*sn_mva):
     pandapower/build_branch.py : _calc_line_parameter (:176-261; baseR :205-206, r/x :210-211, b/g :239-242)
                                  _calc_tap_from_dataframe (:567-, tap changer type "Ratio", tap_step_degree 0/NaN :692-699)
                                  _calc_nominal_ratio_from_dataframe (:920-941)
                                  _calc_r_x_from_dataframe (:880-917; tap_lv :911-915)
                                  _calc_y_from_dataframe (:539-572; baseZ :552, pfe/3 :554, vnl^2/3 :560, i0/3 :562,
                                                          clamp b_mva_squared<0 :566)
                                  _wye_delta (:508-536, trafo_model "t")
                                  _calc_impedance_parameters_from_dataframe (:1000-1040; sn_factor :1013)
   Numbers: Q through Base/QN; sqrt is an oracle INPUT (the harness passes the float sqrt); pi is an input (math.pi).
   Faithful to the code as it is.  Executable definitions only. *)
From Coq Require Import ZArith QArith List Bool String.
From PPV Require Import Base.QN Base.QC Base.Out.
Import ListNotations.
Open Scope Q_scope.

Definition qsq (x : Q) : Q := qmul x x.
(* np.sign *)
Definition qsign (x : Q) : Q := if qltb x 0 then (-1 # 1) else if qltb 0 x then 1 else 0.
Definition three_if (pf3ph : bool) (x : Q) : Q := if pf3ph then qmul 3 x else x.        (* 3*sn_mva | sn_mva *)
Definition third_if (pf3ph : bool) (x : Q) : Q := if pf3ph then qdiv x 3 else x.        (* x/3 | x *)

(* ------------------------------------------------------------------ line row *)
Record line_in := { l_r : Q; l_x : Q; l_c : Q; l_g : Q;          (* r_ohm_per_km x_ohm_per_km c_nf_per_km g_us_per_km *)
                    l_len : Q; l_par : Q; l_basekv : Q }.         (* length_km parallel ppc.bus[from, BASE_KV] *)
Record line_row := { lr_r : Q; lr_x : Q; lr_b : Q; lr_g : Q }.

(* :205-206 *)
Definition line_baseR (pf3ph : bool) (sn : Q) (l : line_in) : Q := qdiv (qsq (l_basekv l)) (three_if pf3ph sn).
(* :210-211, :239-242 (no temperature correction, tdpf off) ; w = 2 * f_hz * pi *)
Definition line_row_of (pf3ph : bool) (sn f_hz pi : Q) (l : line_in) : line_row :=
  let baseR := line_baseR pf3ph sn l in
  {| lr_r := qdiv (qdiv (qmul (l_r l) (l_len l)) baseR) (l_par l);
     lr_x := qdiv (qdiv (qmul (l_x l) (l_len l)) baseR) (l_par l);
     lr_b := qmul (qmul (qmul (qmul (qmul (qmul (qmul 2 f_hz) pi) (l_c l)) (1 # 1000000000)) baseR) (l_len l)) (l_par l);
     lr_g := qmul (qmul (qmul (qmul (l_g l) (1 # 1000000)) baseR) (l_len l)) (l_par l) |}.
(* defined (finite) result: no zero denominators *)
Definition G11_line (sn : Q) (l : line_in) : bool :=
  negb (qeqb sn 0) && negb (qeqb (l_basekv l) 0) && negb (qeqb (l_par l) 0).

(* ------------------------------------------------------------------ two-winding transformer row *)
Record trafo_in := { t_vn_hv : Q; t_vn_lv : Q; t_sn : Q; t_vk : Q; t_vkr : Q; t_pfe_kw : Q; t_i0 : Q; t_par : Q;
                     t_shift : Q;
                     t_tap_lv_side : bool; t_tap_pos : Q; t_tap_neutral : Q; t_tap_step : Q;     (* tap_side == "lv" *)
                     t_basekv_hv : Q; t_basekv_lv : Q;                                          (* ppc.bus[.., BASE_KV] *)
                     t_r_ratio : Q; t_x_ratio : Q }.             (* leakage_resistance/reactance_ratio_hv, default 1/2 *)

(* _calc_tap_from_dataframe, tap changer type "Ratio", tap_step_degree NaN -> 0: cos = 1, sin = 0 (:692-699)
     tap_steps = tap_step_percent * tap_diff / 100 ; du = u1 * tap_steps ;
     vn = sqrt((u1 + du*cos)^2 + (du*sin)^2)          [sqrt = oracle value sq_tap]
     shift += arctan(direction*du*sin/(u1 + du*cos)) = arctan(0) = 0 *)
Definition tap_u1 (t : trafo_in) : Q := if t_tap_lv_side t then t_vn_lv t else t_vn_hv t.
Definition tap_du (t : trafo_in) : Q :=
  qmul (tap_u1 t) (qdiv (qmul (t_tap_step t) (qsub (t_tap_pos t) (t_tap_neutral t))) 100).
Definition tap_sqrt_arg (t : trafo_in) : Q :=
  qadd (qsq (qadd (tap_u1 t) (qmul (tap_du t) 1))) (qsq (qmul (tap_du t) 0)).
Definition vn_trafo_hv (t : trafo_in) (sq_tap : Q) : Q := if t_tap_lv_side t then t_vn_hv t else sq_tap.
Definition vn_trafo_lv (t : trafo_in) (sq_tap : Q) : Q := if t_tap_lv_side t then sq_tap else t_vn_lv t.
(* _calc_nominal_ratio_from_dataframe *)
Definition trafo_ratio (t : trafo_in) (sq_tap : Q) : Q :=
  qdiv (qdiv (vn_trafo_hv t sq_tap) (vn_trafo_lv t sq_tap)) (qdiv (t_basekv_hv t) (t_basekv_lv t)).

(* _calc_r_x_from_dataframe, sequence 1, no tap dependency table *)
Definition tap_lv_factor (pf3ph : bool) (sn : Q) (t : trafo_in) (sq_tap : Q) : Q :=
  qmul (qsq (qdiv (vn_trafo_lv t sq_tap) (t_basekv_lv t))) (three_if pf3ph sn).
Definition z_sc (pf3ph : bool) (sn : Q) (t : trafo_in) (sq_tap : Q) : Q :=
  qmul (qdiv (qdiv (t_vk t) 100) (t_sn t)) (tap_lv_factor pf3ph sn t sq_tap).
Definition r_sc (pf3ph : bool) (sn : Q) (t : trafo_in) (sq_tap : Q) : Q :=
  qmul (qdiv (qdiv (t_vkr t) 100) (t_sn t)) (tap_lv_factor pf3ph sn t sq_tap).
(* argument of np.sqrt in x_sc = sign(z_sc) * sqrt(z_sc^2 - r_sc^2) *)
Definition x_sqrt_arg (pf3ph : bool) (sn : Q) (t : trafo_in) (sq_tap : Q) : Q :=
  qsub (qsq (z_sc pf3ph sn t sq_tap)) (qsq (r_sc pf3ph sn t sq_tap)).
Definition trafo_r (pf3ph : bool) (sn : Q) (t : trafo_in) (sq_tap : Q) : Q := qdiv (r_sc pf3ph sn t sq_tap) (t_par t).
Definition trafo_x (pf3ph : bool) (sn : Q) (t : trafo_in) (sq_tap sq_x : Q) : Q :=
  qdiv (qmul (qsign (z_sc pf3ph sn t sq_tap)) sq_x) (t_par t).

(* _calc_y_from_dataframe *)
Definition y_baseZ (pf3ph : bool) (sn : Q) (t : trafo_in) : Q := qdiv (qsq (t_basekv_lv t)) (three_if pf3ph sn).
Definition y_pfe_mw (pf3ph : bool) (t : trafo_in) : Q := third_if pf3ph (qmul (t_pfe_kw t) (1 # 1000)).
Definition y_vnl_squared (pf3ph : bool) (t : trafo_in) : Q := third_if pf3ph (qsq (t_vn_lv t)).
Definition y_i0 (pf3ph : bool) (t : trafo_in) : Q := third_if pf3ph (t_i0 t).
Definition y_ym_mva (pf3ph : bool) (t : trafo_in) : Q := qmul (qdiv (y_i0 pf3ph t) 100) (t_sn t).
(* b_mva_squared with the clamp  b_mva_squared[b_mva_squared < 0] = 0 : argument of np.sqrt *)
Definition b_sqrt_arg (pf3ph : bool) (t : trafo_in) : Q :=
  let d := qsub (qsq (y_ym_mva pf3ph t)) (qsq (y_pfe_mw pf3ph t)) in if qltb d 0 then 0 else d.
Definition y_scale (pf3ph : bool) (sn : Q) (t : trafo_in) (sq_tap : Q) (num : Q) : Q :=
  qdiv (qmul (qmul (qdiv num (y_vnl_squared pf3ph t)) (y_baseZ pf3ph sn t)) (t_par t))
       (qsq (qdiv (vn_trafo_lv t sq_tap) (t_vn_lv t))).
Definition trafo_g (pf3ph : bool) (sn : Q) (t : trafo_in) (sq_tap : Q) : Q := y_scale pf3ph sn t sq_tap (y_pfe_mw pf3ph t).
Definition trafo_b (pf3ph : bool) (sn : Q) (t : trafo_in) (sq_tap sq_b : Q) : Q := y_scale pf3ph sn t sq_tap (qopp sq_b).

(* r, x, g, b before the T -> pi conversion (what trafo_model = "pi" writes into the row) *)
Record rxgb := { v_r : Q; v_x : Q; v_g : Q; v_b : Q }.
Definition trafo_rxgb (pf3ph : bool) (sn : Q) (t : trafo_in) (sq_tap sq_x sq_b : Q) : rxgb :=
  {| v_r := trafo_r pf3ph sn t sq_tap; v_x := trafo_x pf3ph sn t sq_tap sq_x;
     v_g := trafo_g pf3ph sn t sq_tap; v_b := trafo_b pf3ph sn t sq_tap sq_b |}.

(* _wye_delta: T-equivalent -> pi-equivalent; tidx = (g != 0) | (b != 0) *)
Record trow := { tr_r : Q; tr_x : Q; tr_g : Q; tr_b : Q; tr_g_asym : Q; tr_b_asym : Q }.
Definition wye_delta (v : rxgb) (r_ratio x_ratio : Q) : trow :=
  if qeqb (v_g v) 0 && qeqb (v_b v) 0 then
    {| tr_r := v_r v; tr_x := v_x v; tr_g := v_g v; tr_b := v_b v; tr_g_asym := 0; tr_b_asym := 0 |}
  else
    let za := mkC (qmul (v_r v) r_ratio) (qmul (v_x v) x_ratio) in
    let zb := mkC (qmul (v_r v) (qsub 1 r_ratio)) (qmul (v_x v) (qsub 1 x_ratio)) in
    let zc := Cinv (mkC (v_g v) (v_b v)) in
    let zsum := Cadd (Cadd (Cmul za zb) (Cmul za zc)) (Cmul zb zc) in
    let zab := Cdiv zsum zc in
    let zac := Cdiv zsum zb in
    let zbc := Cdiv zsum za in
    let yf := Cinv zac in
    let yt := Cinv zbc in
    let g := qmul (re yf) 2 in
    let b := qmul (im yf) 2 in
    {| tr_r := re zab; tr_x := im zab; tr_g := g; tr_b := b;
       tr_g_asym := qsub (qmul 2 (re yt)) g; tr_b_asym := qsub (qmul 2 (im yt)) b |}.

Definition trafo_row_t (pf3ph : bool) (sn : Q) (t : trafo_in) (sq_tap sq_x sq_b : Q) : trow :=
  wye_delta (trafo_rxgb pf3ph sn t sq_tap sq_x sq_b) (t_r_ratio t) (t_x_ratio t).

(* the oracle contract *)
Definition is_sqrt (s x : Q) : Prop := 0 <= s /\ s * s == x.
(* defined (finite, no FloatingPointError) result: no zero denominators, sqrt arguments not negative *)
Definition G11_trafo (pf3ph : bool) (sn : Q) (t : trafo_in) (sq_tap : Q) : bool :=
  negb (qeqb sn 0) && negb (qeqb (t_sn t) 0) && negb (qeqb (t_par t) 0) && negb (qeqb (t_vn_lv t) 0) &&
  negb (qeqb (t_basekv_lv t) 0) && negb (qeqb (t_basekv_hv t) 0) && negb (qeqb sq_tap 0) &&
  qleb 0 (x_sqrt_arg pf3ph sn t sq_tap).

(* ------------------------------------------------------------------ impedance element row
   _calc_impedance_parameters_from_dataframe: sn_factor = 3 in pf_3ph — applied as a FACTOR to the series impedances
   (right: per unit on 3*sn) and ALSO as a factor to the shunt admittances (:1027-1030, under the code's own
   "todo sn_factor + formulas in general for g_f, b_f, g_t, b_t") *)
Record imp_in := { i_rft : Q; i_xft : Q; i_rtf : Q; i_xtf : Q; i_gf : Q; i_bf : Q; i_gt : Q; i_bt : Q; i_sn : Q }.
Record imp_row := { ir_r : Q; ir_x : Q; ir_r_asym : Q; ir_x_asym : Q; ir_g : Q; ir_b : Q; ir_g_asym : Q; ir_b_asym : Q }.
Definition imp_series (pf3ph : bool) (sn : Q) (i : imp_in) (z : Q) : Q := qmul (qdiv (three_if pf3ph z) (i_sn i)) sn.
Definition imp_shunt (pf3ph : bool) (sn : Q) (i : imp_in) (y : Q) : Q := qdiv (qmul (qmul 2 (three_if pf3ph y)) (i_sn i)) sn.
(* the proposed repair (.cache/fixes/C11-impedance-shunt-3ph-base.diff): admittances are DIVIDED by sn_factor *)
Definition imp_shunt_repaired (pf3ph : bool) (sn : Q) (i : imp_in) (y : Q) : Q := qdiv (qmul (qmul 2 (third_if pf3ph y)) (i_sn i)) sn.
Definition imp_row_gen (repaired pf3ph : bool) (sn : Q) (i : imp_in) : imp_row :=
  let sh := if repaired then imp_shunt_repaired pf3ph sn i else imp_shunt pf3ph sn i in
  let r_f := imp_series pf3ph sn i (i_rft i) in let x_f := imp_series pf3ph sn i (i_xft i) in
  let r_t := imp_series pf3ph sn i (i_rtf i) in let x_t := imp_series pf3ph sn i (i_xtf i) in
  let g_f := sh (i_gf i) in let b_f := sh (i_bf i) in
  let g_t := sh (i_gt i) in let b_t := sh (i_bt i) in
  {| ir_r := r_f; ir_x := x_f; ir_r_asym := qsub r_t r_f; ir_x_asym := qsub x_t x_f;
     ir_g := g_f; ir_b := b_f; ir_g_asym := qsub g_t g_f; ir_b_asym := qsub b_t b_f |}.
(* the code as it is *)
Definition imp_row_of (pf3ph : bool) (sn : Q) (i : imp_in) : imp_row := imp_row_gen false pf3ph sn i.
Definition imp_row_repaired (pf3ph : bool) (sn : Q) (i : imp_in) : imp_row := imp_row_gen true pf3ph sn i.
(* guard: the impedance element carries no shunt admittance (then its pf_3ph row is a consistent base change) *)
Definition G11_imp_noshunt (i : imp_in) : bool :=
  qeqb (i_gf i) 0 && qeqb (i_bf i) 0 && qeqb (i_gt i) 0 && qeqb (i_bt i) 0.

(* ------------------------------------------------------------------ run wrappers *)
Definition run_line_row (pf3ph : bool) (sn f_hz pi : Q) (l : line_in) : out :=
  if G11_line sn l then
    let r := line_row_of pf3ph sn f_hz pi l in OL [oq (lr_r r); oq (lr_x r); oq (lr_b r); oq (lr_g r)]
  else OErr "undefined".
(* [r; x; g; b; g_asym; b_asym; tap; shift] + the three sqrt arguments (so that the harness can check its oracle values) *)
Definition run_trafo_row (pf3ph : bool) (sn : Q) (t : trafo_in) (sq_tap sq_x sq_b : Q) : out :=
  if G11_trafo pf3ph sn t sq_tap then
    let r := trafo_row_t pf3ph sn t sq_tap sq_x sq_b in
    OL [oq (tr_r r); oq (tr_x r); oq (tr_g r); oq (tr_b r); oq (tr_g_asym r); oq (tr_b_asym r);
        oq (trafo_ratio t sq_tap); oq (t_shift t);
        oq (tap_sqrt_arg t); oq (x_sqrt_arg pf3ph sn t sq_tap); oq (b_sqrt_arg pf3ph t)]
  else OErr "undefined".
(* the row of trafo_model = "pi" (runpp only) *)
Definition run_trafo_row_pi (pf3ph : bool) (sn : Q) (t : trafo_in) (sq_tap sq_x sq_b : Q) : out :=
  if G11_trafo pf3ph sn t sq_tap then
    let v := trafo_rxgb pf3ph sn t sq_tap sq_x sq_b in OL [oq (v_r v); oq (v_x v); oq (v_g v); oq (v_b v)]
  else OErr "undefined".
Definition run_imp_row (repaired pf3ph : bool) (sn : Q) (i : imp_in) : out :=
  if negb (qeqb sn 0) && negb (qeqb (i_sn i) 0) then
    let r := imp_row_gen repaired pf3ph sn i in
    OL [oq (ir_r r); oq (ir_x r); oq (ir_r_asym r); oq (ir_x_asym r); oq (ir_g r); oq (ir_b r); oq (ir_g_asym r); oq (ir_b_asym r)]
  else OErr "undefined".
