(* C11 — faithful model of the symmetrical-component kernels used by the three-phase power flow
     pandapower/auxiliary.py : a, asq, Tabc, T012 (:1481-1495), sequence_to_phase (:1498), phase_to_sequence (:1502),
       S_from_VI_elementwise (:1561), I_from_SV_elementwise (:1565), SVabc_from_SV012 (:1569-1579)
     pandapower/pf/runpp_3ph.py : load currents and sequence powers of one outer iteration (:487-505)
     pandapower/results_branch.py : _get_line_results_3ph (:221-302)
     pandapower/results_bus.py : write_pq_results_to_element_3ph (:329-378), _get_p_q_results_3ph (:474-518)
   Numbers: the exact field Q(sqrt3, j) of Base/C11K.v, in which a = exp(j*120deg) = -1/2 + j*sqrt3/2 is an element
   (the implementation uses its float approximation); float complex inputs are rational complex numbers (Base/QC.v).
   Executable definitions only. *)
From Coq Require Import ZArith QArith List Bool String.
From PPV Require Import Base.QN Base.QC Base.C11K Base.Out.
Import ListNotations.
Open Scope Q_scope.

Definition K3 := (K * K * K)%type.
Definition C3 := (C * C * C)%type.

(* np.matmul(Tabc, X012), Tabc = [[1,1,1],[1,asq,a],[1,a,asq]] *)
Definition sequence_to_phase (x : K3) : K3 :=
  let '(x0, x1, x2) := x in
  (Kadd (Kadd x0 x1) x2,
   Kadd (Kadd x0 (Kmul Kasq x1)) (Kmul Ka x2),
   Kadd (Kadd x0 (Kmul Ka x1)) (Kmul Kasq x2)).
(* np.matmul(T012, Xabc), T012 = [[1,1,1],[1,a,asq],[1,asq,a]] / 3 *)
Definition phase_to_sequence (x : K3) : K3 :=
  let '(xa, xb, xc) := x in
  (Kscale (1 # 3) (Kadd (Kadd xa xb) xc),
   Kscale (1 # 3) (Kadd (Kadd xa (Kmul Ka xb)) (Kmul Kasq xc)),
   Kscale (1 # 3) (Kadd (Kadd xa (Kmul Kasq xb)) (Kmul Ka xc))).

Definition map3 {A B} (f : A -> B) (x : A * A * A) : B * B * B := let '(a, b, c) := x in (f a, f b, f c).
Definition zip3 {A B D} (f : A -> B -> D) (x : A * A * A) (y : B * B * B) : D * D * D :=
  let '(a, b, c) := x in let '(a', b', c') := y in (f a a', f b b', f c c').
Definition sum3 (x : K3) : K := let '(a, b, c) := x in Kadd (Kadd a b) c.
(* S = V * conj(I) *)
Definition S_from_VI (v i : K3) : K3 := zip3 (fun a b => Kmul a (Kconj b)) v i.

(* I_from_SV_elementwise: conj(S / V), zero where V == 0 (np.divide(..., where=V != 0)) — on float complex numbers *)
Definition Ciszero (c : C) : bool := qeqb (re c) 0 && qeqb (im c) 0.
Definition I_from_SV (s v : C) : C := if Ciszero v then C0 else Cconj (Cdiv s v).
(* SVabc_from_SV012 *)
Definition SVabc_from_SV012 (s012 v012 : C3) : K3 * K3 :=
  let i012 := zip3 I_from_SV s012 v012 in
  let vabc := sequence_to_phase (map3 KofC v012) in
  let iabc := sequence_to_phase (map3 KofC i012) in
  (S_from_VI vabc iabc, vabc).

(* runpp_3ph.py:487-505 (wye loads): phase currents of the loads and the sequence powers handed to the sequence
   power flows:  i_abc = conj(s_abc/v_abc) ; i012 = phase_to_sequence(i_abc) ; s_k = v_k * conj(-i_k) *)
Definition load_sequence_powers (s_abc v_abc : C3) (v012 : K3) : K3 * K3 :=
  let i_abc := zip3 (fun s v => Cconj (Cdiv s v)) s_abc v_abc in
  let i012 := phase_to_sequence (map3 KofC i_abc) in
  (i012, zip3 (fun v i => Kmul v (Kconj (Ksub K0 i))) v012 i012).

(* _get_line_results_3ph: V in kV (line-line base), I in kA; Sabc = Vabc*conj(Iabc)/sqrt(3) *)
Record line3 := { sf : K3; st : K3; sl : K3;           (* per phase: from, to, losses *)
                  iabc_f : K3; iabc_t : K3; in_f : K; in_t : K }.
Definition line_results_3ph (v012_f i012_f v012_t i012_t : K3) : line3 :=
  let vf := sequence_to_phase v012_f in let vt := sequence_to_phase v012_t in
  let jf := sequence_to_phase i012_f in let jt := sequence_to_phase i012_t in
  let s_f := map3 (Kmul Kinvsqrt3) (S_from_VI vf jf) in
  let s_t := map3 (Kmul Kinvsqrt3) (S_from_VI vt jt) in
  {| sf := s_f; st := s_t; sl := zip3 Kadd s_f s_t; iabc_f := jf; iabc_t := jt; in_f := sum3 jf; in_t := sum3 jt |}.

(* element writers: symmetric load/sgen/storage contribute p/3 per phase, asymmetric ones their own phase values;
   sgens with sign -1 (results_bus.py:345-378, 485-505) *)
Inductive elem :=
| Sym (is_sgen : bool) (p scaling : Q) (in_service : bool)
| Asym (is_sgen : bool) (pa pb pc scaling : Q) (in_service : bool).
Definition b2q (b : bool) : Q := if b then 1 else 0.
Definition elem_phases (e : elem) : Q * Q * Q :=
  match e with
  | Sym _ p sc ins => let v := qmul (qmul (qdiv p 3) sc) (b2q ins) in (v, v, v)
  | Asym _ pa pb pc sc ins => (qmul (qmul pa sc) (b2q ins), qmul (qmul pb sc) (b2q ins), qmul (qmul pc sc) (b2q ins))
  end.
(* total written to the one-value result table (res_load_3ph.p_mw = p*scaling*in_service) *)
Definition elem_total (e : elem) : Q :=
  match e with
  | Sym _ p sc ins => qmul (qmul p sc) (b2q ins)
  | Asym _ pa pb pc sc ins => qmul (qmul (qadd (qadd pa pb) pc) sc) (b2q ins)
  end.
Definition elem_sign (e : elem) : Q := match e with Sym g _ _ _ | Asym g _ _ _ _ _ => if g then (-1 # 1) else 1 end.
(* _get_p_q_results_3ph for the elements of ONE bus: signed sums per phase.  For symmetric elements the bus sum uses
   res_<element>_3ph.p_mw / 3 (:489-491) *)
Fixpoint bus_pq_3ph (els : list elem) : Q * Q * Q :=
  match els with
  | [] => (0, 0, 0)
  | e :: rest =>
      let '(a, b, c) := bus_pq_3ph rest in
      let '(pa, pb, pc) := match e with
                           | Sym _ _ _ _ => let v := qdiv (elem_total e) 3 in (v, v, v)
                           | Asym _ _ _ _ _ _ => elem_phases e end in
      (qadd (qmul (elem_sign e) pa) a, qadd (qmul (elem_sign e) pb) b, qadd (qmul (elem_sign e) pc) c)
  end.

(* ext_grid sequence current reported by runpp_3ph (:545-552, :616-617): the sequence admittance matrices are rebuilt with
   the ext_grid's internal admittance removed from the reference bus, and I = Y*V at that bus is taken as the current the
   ext_grid delivers.  y_shunt = admittance stored at the reference bus of THIS sequence network (zero sequence:
   pd2ppc_zero.py:486-492, from x0x_max/r0x0_max), y_sub = what is subtracted (gs_eg + j bs_eg: always the NEGATIVE
   sequence value, :424), i_lines = current leaving the bus into the branches, v = sequence voltage of the bus. *)
Definition eg_seq_current_reported (y_shunt y_sub v i_lines : C) : C := Cadd i_lines (Cmul (Csub y_shunt y_sub) v).
(* zero sequence: after the repair "fix: runpp_3ph removes the zero sequence ext_grid admittance from the zero sequence
   network" the zero sequence admittance itself is subtracted; before it the negative sequence one (y2) *)
Definition eg_zero_seq_current (y0 v i_lines : C) : C := eg_seq_current_reported y0 y0 v i_lines.
Definition eg_zero_seq_current_old (y0 y2 v i_lines : C) : C := eg_seq_current_reported y0 y2 v i_lines.
(* guard under which the old rule was right: zero- and negative-sequence admittance of the ext_grid coincide *)
Definition G11_eg (y0 y2 : C) : bool := qeqb (re y0) (re y2) && qeqb (im y0) (im y2).
(* reported / true zero sequence current for a passive zero sequence network (i_lines = -y0*v, v = 1) *)
Definition run_eg_ratio (y0 y2 : C) : out := oc (Cdiv (eg_zero_seq_current y0 C1 (Copp y0)) (Copp y0)).

(* ---- run wrappers *)
Definition ok3 (x : K3) : out := let '(a, b, c) := x in OL [ok a; ok b; ok c].
Definition run_s2p (x : C3) : out := ok3 (sequence_to_phase (map3 KofC x)).
Definition run_p2s (x : C3) : out := ok3 (phase_to_sequence (map3 KofC x)).
Definition run_SVabc (s012 v012 : C3) : out := let '(s, v) := SVabc_from_SV012 s012 v012 in OL [ok3 s; ok3 v].
Definition run_load_seq (s_abc v_abc v012 : C3) : out :=
  let '(i, s) := load_sequence_powers s_abc v_abc (map3 KofC v012) in OL [ok3 i; ok3 s].
Definition run_line3 (vf jf vt jt : C3) : out :=
  let r := line_results_3ph (map3 KofC vf) (map3 KofC jf) (map3 KofC vt) (map3 KofC jt) in
  OL [ok3 (sf r); ok3 (st r); ok3 (sl r);
      ok3 (map3 Knorm2 (iabc_f r)); ok3 (map3 Knorm2 (iabc_t r)); ok (Knorm2 (in_f r)); ok (Knorm2 (in_t r))].
Definition run_bus_pq (els : list elem) : out :=
  let '(a, b, c) := bus_pq_3ph els in
  OL [oq a; oq b; oq c; OL (map (fun e => let '(x, y, z) := elem_phases e in OL [oq x; oq y; oq z; oq (elem_total e)]) els)].
