(* C28 — composing the single elimination steps: eliminating the last k buses one by one ([Model.kron_exact], the
   executable elimination that the correspondence run compares with the observed Ybus_eq) yields a matrix that satisfies
   the DEFINING EQUATIONS of the Schur complement: for every voltage vector, the reduced matrix applied to the kept
   voltages gives the kept currents with the eliminated buses' currents transferred; in particular, whenever the
   eliminated (external) buses carry no current, exactly the original currents of the kept buses.
   Induction over the elimination order, with the pivots <> 0 hypothesis explicit ([pivots_ok]). *)
From Coq Require Import ZArith QArith List Bool Lia Lqa Setoid Morphisms.
From PPV Require Import Base.QN Base.QC C28.Model C28.Proofs.
Import ListNotations.
Open Scope Q_scope.

(* ---------------------------------------------------------------- list helpers *)
Lemma removelast_len : forall {A} (l : list A), length (removelast l) = (length l - 1)%nat.
Proof.
  induction l as [|a l IH]; [reflexivity|]. destruct l as [|b l]; [reflexivity|].
  change (removelast (a :: b :: l)) with (a :: removelast (b :: l)). cbn [length] in *. rewrite IH. lia.
Qed.
Lemma in_removelast : forall {A} (l : list A) x, In x (removelast l) -> In x l.
Proof.
  induction l as [|a l IH]; intros x H; [contradiction|]. destruct l as [|b l]; [contradiction|].
  change (removelast (a :: b :: l)) with (a :: removelast (b :: l)) in H.
  destruct H as [<-|H]; [left; reflexivity | right; apply IH; exact H].
Qed.
Lemma last_in : forall {A} (l : list A) d, l <> [] -> In (last l d) l.
Proof.
  induction l as [|a l IH]; intros d H; [congruence|]. destruct l as [|b l]; [left; reflexivity|].
  right. apply IH. discriminate.
Qed.
Lemma Forall2_removelast : forall {A B} (P : A -> B -> Prop) l1 l2,
  Forall2 P l1 l2 -> Forall2 P (removelast l1) (removelast l2).
Proof.
  intros A B P l1 l2 H. induction H as [|a b l1 l2 Hab H IH]; [constructor|].
  destruct H as [|a' b' l1 l2 Hab' H]; [constructor|].
  change (Forall2 P (a :: removelast (a' :: l1)) (b :: removelast (b' :: l2))). constructor; assumption.
Qed.
Lemma Forall2_last : forall {A B} (P : A -> B -> Prop) l1 l2 d1 d2,
  Forall2 P l1 l2 -> l1 <> [] -> P (last l1 d1) (last l2 d2).
Proof.
  intros A B P l1 l2 d1 d2 H. induction H as [|a b l1 l2 Hab H IH]; intros N; [congruence|].
  destruct H as [|a' b' l1 l2 Hab' H]; [exact Hab|].
  change (P (last (a' :: l1) d1) (last (b' :: l2) d2)). apply IH. discriminate.
Qed.
Lemma Forall2_map_combine : forall {A B C' D} (P : A -> B -> Prop) (Q' : C' -> D -> Prop) (f : A -> C') (g : A * B -> D) l1 l2,
  Forall2 P l1 l2 -> (forall a b, In a l1 -> P a b -> Q' (f a) (g (a, b))) ->
  Forall2 Q' (map f l1) (map g (combine l1 l2)).
Proof.
  intros A B C' D P Q' f g l1 l2 H. induction H as [|a b l1 l2 Hab H IH]; intros HQ; [constructor|].
  cbn [map combine]. constructor.
  - apply HQ; [left; reflexivity | exact Hab].
  - apply IH. intros a' b' I. apply HQ. right. exact I.
Qed.
Lemma firstn_removelast : forall {A} (l : list A) m, (m < length l)%nat -> firstn m (removelast l) = firstn m l.
Proof.
  induction l as [|a l IH]; intros m H; [cbn in H; lia|]. destruct l as [|b l].
  - cbn in H. assert (m = 0%nat) by lia. subst. reflexivity.
  - change (removelast (a :: b :: l)) with (a :: removelast (b :: l)).
    destruct m as [|m]; [reflexivity|]. cbn [firstn]. f_equal. apply IH. cbn [length] in *. lia.
Qed.

(* ---------------------------------------------------------------- a row times a vector, split at the last position *)
Lemma rowdot_split_last : forall a v, length a = length v -> a <> [] ->
  rowdot a v ==c Cadd (rowdot (removelast a) (removelast v)) (Cmul (last a C0) (last v C0)).
Proof.
  induction a as [|x a IH]; intros v L N; [congruence|].
  destruct v as [|y v]; [discriminate|].
  destruct a as [|x' a].
  - destruct v; [|discriminate]. cbn [removelast last]. rewrite rowdot_cons, !rowdot_nil_l. csimp. split; ring.
  - destruct v as [|y' v]; [discriminate|].
    change (removelast (x :: x' :: a)) with (x :: removelast (x' :: a)).
    change (removelast (y :: y' :: v)) with (y :: removelast (y' :: v)).
    change (last (x :: x' :: a) C0) with (last (x' :: a) C0).
    change (last (y :: y' :: v) C0) with (last (y' :: v) C0).
    rewrite !rowdot_cons. rewrite (IH (y' :: v)); [| cbn in *; lia | discriminate].
    csimp. split; ring.
Qed.

(* ---------------------------------------------------------------- pivots and transferred currents *)
Definition nonzero (y : C) : Prop := ~ re y * re y + im y * im y == 0.
(* the diagonal entries met by the successive eliminations are non-zero *)
Fixpoint pivots_ok (k : nat) (Y : M) : Prop :=
  match k with O => True | S k' => nonzero (pivot Y) /\ pivots_ok k' (elim_last Y) end.
(* currents of the kept buses after eliminating the last bus: I_i - y_ie / y_ee * I_e *)
Definition elim_cur (Y : M) (I : list C) : list C :=
  map (fun p => Csub (snd p) (Cmul (Cdiv (last (fst p) C0) (pivot Y)) (last I C0))) (combine (removelast Y) (removelast I)).
Fixpoint kron_cur (k : nat) (Y : M) (I : list C) : list C :=
  match k with O => I | S k' => kron_cur k' (elim_last Y) (elim_cur Y I) end.

Definition square (n : nat) (Y : M) : Prop := length Y = n /\ forall r, In r Y -> length r = n.
(* Y * v == I, row by row *)
Definition system (Y : M) (v I : list C) : Prop := Forall2 (fun r i => rowdot r v ==c i) Y I.

Lemma elim_last_unfold : forall Y,
  elim_last Y = map (fun row => elim_row (removelast row) (last row C0) (removelast (last Y [])) (pivot Y)) (removelast Y).
Proof. intros. unfold elim_last, split_last, pivot. reflexivity. Qed.

Lemma elim_last_square : forall m Y, square (S m) Y -> square m (elim_last Y).
Proof.
  intros m Y [L R]. rewrite elim_last_unfold. split.
  - rewrite map_length, removelast_len, L. lia.
  - intros r I. apply in_map_iff in I. destruct I as (row & <- & I).
    unfold elim_row. rewrite map_length, combine_length, !removelast_len.
    rewrite (R row (in_removelast _ _ I)).
    rewrite (R (last Y [])) by (apply last_in; intro E; rewrite E in L; discriminate).
    lia.
Qed.

(* ---------------------------------------------------------------- one elimination step of the whole system *)
Lemma elim_last_sound : forall m Y v I,
  square (S m) Y -> length v = S m -> nonzero (pivot Y) ->
  system Y v I -> system (elim_last Y) (removelast v) (elim_cur Y I).
Proof.
  intros m Y v I [L R] Lv Hp HS. unfold system in *. rewrite elim_last_unfold. unfold elim_cur.
  assert (NY : Y <> []) by (intro E; rewrite E in L; discriminate).
  pose proof (Forall2_last _ Y I [] C0 HS NY) as He. cbn beta in He.
  assert (Lre : length (last Y []) = S m) by (apply R, last_in, NY).
  assert (Hre : Cadd (rowdot (removelast (last Y [])) (removelast v)) (Cmul (pivot Y) (last v C0)) ==c last I C0).
  { rewrite <- He. symmetry. apply rowdot_split_last; [lia | intro E; rewrite E in Lre; discriminate]. }
  apply (Forall2_map_combine (fun r i => rowdot r v ==c i)); [apply Forall2_removelast; exact HS|].
  intros a b Ia Hab. cbn [fst snd].
  assert (La : length a = S m) by (apply R, in_removelast, Ia).
  apply (kron_one_row _ _ _ _ _ (last v C0)).
  - exact Hp.
  - rewrite !removelast_len. lia.
  - rewrite !removelast_len. lia.
  - rewrite <- Hab. symmetry. apply rowdot_split_last; [lia | intro E; rewrite E in La; discriminate].
  - exact Hre.
Qed.

(* ---------------------------------------------------------------- k steps: induction over the elimination order *)
Theorem kron_exact_sound : forall k m Y v I,
  square (m + k) Y -> length v = (m + k)%nat -> pivots_ok k Y ->
  system Y v I -> system (kron_exact k Y) (firstn m v) (kron_cur k Y I).
Proof.
  induction k as [|k IH]; intros m Y v I HY Lv Hp HS.
  - cbn [kron_exact kron_cur]. rewrite Nat.add_0_r in Lv. rewrite <- Lv, firstn_all. exact HS.
  - cbn [kron_exact kron_cur]. destruct Hp as [Hp Hps].
    replace (m + S k)%nat with (S (m + k)) in * by lia.
    rewrite <- (firstn_removelast v m) by lia.
    apply IH.
    + apply elim_last_square. exact HY.
    + rewrite removelast_len. lia.
    + exact Hps.
    + apply (elim_last_sound (m + k)); assumption.
Qed.

(* ---------------------------------------------------------------- no current at the eliminated buses *)
Definition all_zero (l : list C) : Prop := Forall (fun c => c ==c C0) l.

Lemma elim_cur_zero : forall Y I, length (removelast Y) = length (removelast I) -> last I C0 ==c C0 ->
  Forall2 Ceq (elim_cur Y I) (removelast I).
Proof.
  intros Y I L Hz. unfold elim_cur. set (p := pivot Y). clearbody p.
  revert L. generalize (removelast I) as J. generalize (removelast Y) as X.
  induction X as [|x X IH]; intros J L; destruct J as [|j J]; try discriminate; [constructor|].
  cbn [combine map fst snd]. constructor; [| apply IH; cbn in L; lia].
  rewrite Hz. csimp. split; ring.
Qed.

Lemma system_proper_I : forall Y v I J, system Y v I -> Forall2 Ceq I J -> system Y v J.
Proof.
  intros Y v I J H. revert J. induction H as [|r i Y I Hri H IH]; intros J HJ; inversion HJ; subst; constructor.
  - etransitivity; eassumption.
  - apply IH. assumption.
Qed.
Lemma system_length : forall Y v I, system Y v I -> length Y = length I.
Proof. intros Y v I H. induction H; cbn; congruence. Qed.

(* last k entries zero, as a predicate that peels from the end *)
Fixpoint tail_zero (k : nat) (I : list C) : Prop :=
  match k with O => True | S k' => last I C0 ==c C0 /\ tail_zero k' (removelast I) end.

(* The defining equations of the Schur complement: for EVERY voltage vector v such that the k eliminated (external) buses
   carry no current, the reduced matrix applied to the kept voltages reproduces the currents of the kept buses. *)
Theorem kron_exact_schur : forall k m Y v I,
  square (m + k) Y -> length v = (m + k)%nat -> pivots_ok k Y ->
  system Y v I -> tail_zero k I ->
  system (kron_exact k Y) (firstn m v) (firstn m I).
Proof.
  induction k as [|k IH]; intros m Y v I HY Lv Hp HS Hz.
  - cbn [kron_exact]. pose proof (system_length _ _ _ HS) as LI. destruct HY as [LY _].
    rewrite Nat.add_0_r in *.
    assert (Ev : firstn m v = v) by (rewrite <- Lv; apply firstn_all).
    assert (EI : firstn m I = I) by (rewrite <- LY, LI; apply firstn_all).
    rewrite Ev, EI. exact HS.
  - cbn [kron_exact]. destruct Hp as [Hp Hps]. destruct Hz as [Hz Hzs].
    pose proof (system_length _ _ _ HS) as LI. pose proof HY as [LY _].
    replace (m + S k)%nat with (S (m + k)) in * by lia.
    rewrite <- (firstn_removelast v m) by lia.
    rewrite <- (firstn_removelast I m) by lia.
    apply IH.
    + apply elim_last_square. exact HY.
    + rewrite removelast_len. lia.
    + exact Hps.
    + apply (system_proper_I _ _ (elim_cur Y I)).
      * apply (elim_last_sound (m + k)); assumption.
      * apply elim_cur_zero; [rewrite !removelast_len; lia | exact Hz].
    + exact Hzs.
Qed.

(* ---------------------------------------------------------------- boolean pivot test for the correspondence run *)
Lemma pivots_okb_ok : forall k Y, pivots_okb k Y = true -> pivots_ok k Y.
Proof.
  induction k as [|k IH]; intros Y H; [exact I|]. cbn [pivots_okb] in H. apply andb_true_iff in H. destruct H as [H1 H2].
  split; [| apply IH; exact H2].
  unfold nonzerob in H1. apply negb_true_iff in H1. intro E. assert (qeqb (cnorm2 (pivot Y)) 0 = true); [| congruence].
  apply qeqb_eq. unfold cnorm2. qnorm. exact E.
Qed.

(* ---------------------------------------------------------------- non-vacuity: a 4-bus ring, two buses eliminated *)
Definition ex_Y : M :=
  [[mkC 3 (-6); mkC (-1) 2; mkC 0 0; mkC (-2) 4];
   [mkC (-1) 2; mkC 2 (-5); mkC (-1) 3; mkC 0 0];
   [mkC 0 0; mkC (-1) 3; mkC 3 (-7); mkC (-2) 4];
   [mkC (-2) 4; mkC 0 0; mkC (-2) 4; mkC 4 (-8)]].
Lemma ex_Y_square : square (2 + 2) ex_Y.
Proof. split; [reflexivity|]. intros r H. cbn in H. repeat (destruct H as [<-|H]; [reflexivity|]). contradiction. Qed.
Lemma ex_Y_pivots : pivots_ok 2 ex_Y.
Proof. apply pivots_okb_ok. vm_compute. reflexivity. Qed.
