(* C28 — under the guard G28 (the coupling blocks Ybus_be and Ybus_eb are transposes of each other) the implementation's
   block formula (Ybus_be := Ybus_eb.T, rei_generation.py) and the formula with the true coupling block coincide,
   entry by entry, for every oracle inverse Z. *)
From Coq Require Import ZArith QArith List Bool Lia Lqa Setoid Morphisms.
From PPV Require Import Base.QN Base.QC C28.Model C28.Proofs.
Import ListNotations.
Open Scope Q_scope.

Definition Veq : list C -> list C -> Prop := Forall2 Ceq.
Definition Meq : M -> M -> Prop := Forall2 Veq.

Lemma Veq_refl : forall v, Veq v v.
Proof. induction v; constructor; [reflexivity | assumption]. Qed.
Lemma Meq_refl : forall A, Meq A A.
Proof. induction A; constructor; [apply Veq_refl | assumption]. Qed.

Lemma Ceqb_list_ok : forall a b, Ceqb_list a b = true -> Veq a b.
Proof.
  induction a as [|x a IH]; intros [|y b] H; try discriminate; [constructor|].
  cbn [Ceqb_list] in H. apply andb_true_iff in H. destruct H as [H H3]. apply andb_true_iff in H. destruct H as [H1 H2].
  constructor; [split; apply qeqb_eq; assumption | apply IH; exact H3].
Qed.
Lemma Meqb_ok : forall A B, Meqb A B = true -> Meq A B.
Proof.
  induction A as [|r A IH]; intros [|s B] H; try discriminate; [constructor|].
  cbn [Meqb] in H. apply andb_true_iff in H. destruct H as [H1 H2].
  constructor; [apply Ceqb_list_ok; exact H1 | apply IH; exact H2].
Qed.

Lemma rowdot_proper_l : forall r r' v, Veq r r' -> rowdot r v ==c rowdot r' v.
Proof.
  intros r r' v H. revert v. induction H as [|a b r r' Hab H IH]; intros v; [reflexivity|].
  destruct v as [|y v]; [reflexivity|]. rewrite !rowdot_cons. rewrite Hab, (IH v). reflexivity.
Qed.

Lemma mmul_proper_l : forall A A' B n, Meq A A' -> Meq (mmul A B n) (mmul A' B n).
Proof.
  intros A A' B n H. unfold mmul. set (Bt := transpose_n n B). clearbody Bt.
  induction H as [|r r' A A' Hr H IH]; cbn [map]; constructor; [| exact IH].
  clear -Hr. induction Bt as [|c Bt IHc]; cbn [map]; constructor; [apply rowdot_proper_l; exact Hr | exact IHc].
Qed.

Lemma msub_proper_r : forall A B B', Meq B B' -> Meq (msub A B) (msub A B').
Proof.
  intros A B B' H. unfold msub. revert A. induction H as [|r r' B B' Hr H IH]; intros [|a A]; cbn [combine map]; try constructor.
  - cbn [fst snd]. clear -Hr. revert a. induction Hr as [|x y r r' Hxy Hr IHr]; intros [|u a]; cbn [combine map]; constructor.
    + cbn [fst snd]. rewrite Hxy. reflexivity.
    + apply IHr.
  - apply IH.
Qed.

Lemma assemble_proper : forall (X : M) ni B B', Meq B B' ->
  Meq (map (fun p : list C * list C => firstn ni (fst p) ++ snd p) (combine X B))
      (map (fun p : list C * list C => firstn ni (fst p) ++ snd p) (combine X B')).
Proof.
  intros X ni B B' H. revert X. induction H as [|r r' B B' Hr H IH]; intros [|x X]; cbn [combine map]; constructor.
  - cbn [fst snd]. apply Forall2_app; [apply Veq_refl | exact Hr].
  - apply IH.
Qed.

Theorem equivalent_Ybus_symmetric_coupling : forall Ys ni nb ne Z, G28 Ys ni nb ne = true ->
  Meq (equivalent_Ybus Ys ni nb ne Z) (equivalent_Ybus_true Ys ni nb ne Z).
Proof.
  intros Ys ni nb ne Z G. unfold G28 in G. apply Meqb_ok in G.
  unfold equivalent_Ybus, equivalent_Ybus_true. cbv zeta.
  apply Forall2_app; [apply Meq_refl|].
  apply assemble_proper, msub_proper_r, mmul_proper_l, mmul_proper_l.
  (* Meq is symmetric on the guard *)
  clear -G. induction G as [|r s A B Hrs G IH]; constructor; [| exact IH].
  clear -Hrs. induction Hrs; constructor; [symmetry; assumption | assumption].
Qed.

(* without the guard the two differ (a phase-shifting coupling: y_be = -1, y_eb = -3) *)
Definition wit_Ys : M := [[mkC 2 0; mkC (-1) 0]; [mkC (-3) 0; mkC 4 0]].
Lemma equivalent_Ybus_unsymmetric_refuted :
  G28 wit_Ys 0 1 1 = false /\ ~ Meq (equivalent_Ybus wit_Ys 0 1 1 [[mkC (1 # 4) 0]]) (equivalent_Ybus_true wit_Ys 0 1 1 [[mkC (1 # 4) 0]]).
Proof.
  split; [vm_compute; reflexivity|]. vm_compute. intro H.
  inversion H as [|? ? ? ? H1 _]; subst. inversion H1 as [|? ? ? ? H2 _]; subst. destruct H2 as [A _]. vm_compute in A. discriminate A.
Qed.
(* the guard is satisfiable with a non-trivial coupling *)
Definition sym_Ys : M := [[mkC 2 (-1); mkC (-1) 1]; [mkC (-1) 1; mkC 4 (-3)]].
Lemma sym_Ys_guard : G28 sym_Ys 0 1 1 = true.
Proof. vm_compute. reflexivity. Qed.
