(* C28 — faithful model of the Kron reduction behind the ward/xward/REI equivalents
     pandapower/grid_equivalents/rei_generation.py : _calculate_equivalent_Ybus (:28-109)
        Ybus_sorted = Ybus[:, seq][seq] ; blocks bb / ee / eb ; Ybus_be := Ybus_eb.T (!) ;
        Ybus_eq_boundary = Ybus_bb - Ybus_be * inv(Ybus_ee) * Ybus_eb ; copy of the (i+b) block with the b block replaced
     pandapower/grid_equivalents/ward_generation.py : _calculate_ward_and_impedance_parameters (:15-54)
        shunt = row sum of Ybus_eq (boundary rows) ; r+jx (ft) = -1/Y_ij , (tf) = -1/Y_ji for |Y_ij| > 1e-10
   Matrices are lists of rows over Base.QC complex numbers.  inv(Ybus_ee) is an ORACLE input Z (numpy.linalg.inv).
   [elim_last] is the exact one-bus Gaussian elimination used by the specification side.  Executable definitions only. *)
From Coq Require Import ZArith QArith List Bool String.
From PPV Require Import Base.QN Base.QC Base.Out.
Import ListNotations.
Open Scope Q_scope.

Definition M := list (list C).
Definition ent (Y : M) (i j : nat) : C := nth j (nth i Y []) C0.
Definition sub (Y : M) (r0 nr c0 nc : nat) : M := map (fun row => firstn nc (skipn c0 row)) (firstn nr (skipn r0 Y)).
Definition rowdot (r v : list C) : C := Csum (map (fun p => Cmul (fst p) (snd p)) (combine r v)).
Fixpoint transpose_n (n : nat) (Y : M) : M :=          (* n = number of columns *)
  match n with
  | O => []
  | S k => transpose_n k Y ++ [map (fun row => nth k row C0) Y]
  end.
Definition mmul (A B : M) (ncolB : nat) : M :=
  let Bt := transpose_n ncolB B in map (fun ra => map (fun cb => rowdot ra cb) Bt) A.
Definition msub (A B : M) : M := map (fun p => map (fun q => Csub (fst q) (snd q)) (combine (fst p) (snd p))) (combine A B).

(* _calculate_equivalent_Ybus: Ys = Ybus_sorted, ni / nb / ne = sizes of the internal, boundary(+t) and external(+g) groups,
   Z = inv(Ybus_ee) (oracle) *)
Definition equivalent_Ybus (Ys : M) (ni nb ne : nat) (Z : M) : M :=
  let Ybb := sub Ys ni nb ni nb in
  let Yeb := sub Ys (ni + nb) ne ni nb in
  let Ybe := transpose_n nb Yeb in                                   (* Ybus_be = Ybus_eb.T *)
  let Yeqb := msub Ybb (mmul (mmul Ybe Z ne) Yeb nb) in
  (* rows of the internal group keep the first ni+nb columns; boundary rows: internal columns kept, boundary block replaced *)
  map (fun row => firstn (ni + nb) row) (firstn ni Ys) ++
  map (fun p => firstn ni (fst p) ++ snd p) (combine (firstn nb (skipn ni Ys)) Yeqb).
(* the same with the true coupling block Ybus_be (what a Schur complement needs) *)
Definition equivalent_Ybus_true (Ys : M) (ni nb ne : nat) (Z : M) : M :=
  let Ybb := sub Ys ni nb ni nb in
  let Yeb := sub Ys (ni + nb) ne ni nb in
  let Ybe := sub Ys ni nb (ni + nb) ne in
  let Yeqb := msub Ybb (mmul (mmul Ybe Z ne) Yeb nb) in
  map (fun row => firstn (ni + nb) row) (firstn ni Ys) ++
  map (fun p => firstn ni (fst p) ++ snd p) (combine (firstn nb (skipn ni Ys)) Yeqb).
(* guard: the coupling blocks are transposes of each other *)
Fixpoint Ceqb_list (a b : list C) : bool :=
  match a, b with
  | [], [] => true
  | x :: a', y :: b' => qeqb (re x) (re y) && qeqb (im x) (im y) && Ceqb_list a' b'
  | _, _ => false
  end.
Fixpoint Meqb (A B : M) : bool :=
  match A, B with [], [] => true | r :: A', s :: B' => Ceqb_list r s && Meqb A' B' | _, _ => false end.
Definition G28 (Ys : M) (ni nb ne : nat) : bool :=
  Meqb (sub Ys ni nb (ni + nb) ne) (transpose_n nb (sub Ys (ni + nb) ne ni nb)).

(* ---- exact one-bus elimination (specification side): the LAST bus is eliminated.
   A matrix with n+1 rows is given as the rows of the kept buses, each split into (kept columns, last column), and the row
   of the eliminated bus (kept columns, diagonal entry). *)
Definition elim_row (rb : list C) (yie : C) (re_ : list C) (yee : C) : list C :=
  map (fun p => Csub (fst p) (Cmul (Cdiv yie yee) (snd p))) (combine rb re_).
Definition split_last (row : list C) : list C * C := (removelast row, last row C0).
Definition elim_last (Y : M) : M :=
  let '(re_, yee) := split_last (last Y []) in
  map (fun row => let '(rb, yie) := split_last row in elim_row rb yie re_ yee) (removelast Y).
Fixpoint kron_exact (k : nat) (Y : M) : M := match k with O => Y | S k' => kron_exact k' (elim_last Y) end.
(* the diagonal entry met by an elimination step, and the boolean test that all k successive pivots are non-zero
   (hypothesis of the composition theorem C28_kron_sequence_is_schur_complement; checked on every observed matrix) *)
Definition pivot (Y : M) : C := last (last Y []) C0.
Definition nonzerob (y : C) : bool := negb (qeqb (cnorm2 y) 0).
Fixpoint pivots_okb (k : nat) (Y : M) : bool :=
  match k with O => true | S k' => nonzerob (pivot Y) && pivots_okb k' (elim_last Y) end.
(* one-bus instance of the implementation's formula: the column entry y_ie is taken from the transposed row, y_ei *)
Definition elim_last_impl (Y : M) : M :=
  let '(re_, yee) := split_last (last Y []) in
  map (fun p => let '(rb, _) := split_last (snd p) in elim_row rb (nth (fst p) re_ C0) re_ yee)
      (combine (seq 0 (List.length Y - 1)) (removelast Y)).

(* ---- ward parameters *)
Definition row_sum (row : list C) : C := Csum row.
(* np.abs(y) > 1e-10  <=>  |y|^2 > 1e-20 *)
Definition big_enough (y : C) : bool := qltb (1 # 100000000000000000000) (cnorm2 y).
Definition z_of_y (y : C) : C := Copp (Cinv y).          (* -1/y *)
(* for a boundary block B (nb x nb): shunts and, for i < j with |B_ij| > 1e-10, (i, j, z_ft, z_tf) *)
Definition ward_shunts (Yeq : M) (nb : nat) : list C := map row_sum (skipn (List.length Yeq - nb) Yeq).
Definition ward_impedances (B : M) (nb : nat) : list (nat * nat * C * C) :=
  flat_map (fun i => flat_map (fun j => if Nat.ltb i j && big_enough (ent B i j)
                                        then [(i, j, z_of_y (ent B i j), z_of_y (ent B j i))] else [])
                              (seq 0 nb)) (seq 0 nb).

(* ---- run wrappers *)
Definition oM (Y : M) : out := OL (map (fun r => OL (map oc r)) Y).
Definition run_equivalent (Ys : M) (ni nb ne : nat) (Z : M) : out :=
  OL [oM (equivalent_Ybus Ys ni nb ne Z); oM (kron_exact ne Ys); OB (G28 Ys ni nb ne); OB (pivots_okb ne Ys)].
Definition run_ward (Yeq : M) (nb : nat) : out :=
  let B := sub Yeq (List.length Yeq - nb) nb (List.length Yeq - nb) nb in
  OL [OL (map oc (ward_shunts Yeq nb));
      OL (map (fun t => let '(i, j, zft, ztf) := t in OL [onat i; onat j; oc zft; oc ztf]) (ward_impedances B nb))].
