(* C28 — the block formula  Ybb - Ybe * Z * Yeb  (the boundary block computed by _calculate_equivalent_Ybus, with the true
   coupling block) satisfies the defining equations of the Schur complement whenever Z inverts Yee on the external
   voltages: for every (vb, ve) with  Yeb*vb + Yee*ve == 0  it maps vb to  Ybb*vb + Ybe*ve.
   Matrices are lists of rows; mvec A v = A*v. *)
From Coq Require Import ZArith QArith List Bool Lia Lqa Setoid Morphisms.
From PPV Require Import Base.QN Base.QC C28.Model C28.Proofs C28.Coupling.
Import ListNotations.
Open Scope Q_scope.

Definition mvec (A : M) (v : list C) : list C := map (fun r => rowdot r v) A.
Definition vzip (f : C -> C -> C) (a b : list C) : list C := map (fun p => f (fst p) (snd p)) (combine a b).

(* ---------------------------------------------------------------- rowdot: small algebra *)
Lemma rowdot_nil_r : forall r, rowdot r [] = C0.
Proof. intros r. unfold rowdot. rewrite combine_nil. reflexivity. Qed.

Lemma rowdot_snoc : forall X V x y, length X = length V ->
  rowdot (X ++ [x]) (V ++ [y]) ==c Cadd (rowdot X V) (Cmul x y).
Proof.
  induction X as [|a X IH]; intros V x y L; destruct V as [|b V]; try discriminate.
  - cbn [app]. rewrite rowdot_cons, rowdot_nil_l. csimp. split; ring.
  - cbn [app]. rewrite !rowdot_cons. rewrite IH by (cbn in L; lia). csimp. split; ring.
Qed.

Lemma rowdot_proper_r : forall r v v', Veq v v' -> rowdot r v ==c rowdot r v'.
Proof.
  intros r v v' H. revert r. induction H as [|a b v v' Hab H IH]; intros r; [reflexivity|].
  destruct r as [|x r]; [reflexivity|]. rewrite !rowdot_cons. rewrite Hab, (IH r). reflexivity.
Qed.

(* rowdot ra (f_j + g_j * c)_j = rowdot ra f + (rowdot ra g) * c *)
Lemma rowdot_affine : forall {A} (ra : list C) (B : list A) (f g : A -> C) c,
  rowdot ra (map (fun x => Cadd (f x) (Cmul (g x) c)) B) ==c Cadd (rowdot ra (map f B)) (Cmul (rowdot ra (map g B)) c).
Proof.
  intros A ra B f g c. revert ra. induction B as [|b B IH]; intros ra.
  - cbn [map]. rewrite !rowdot_nil_r. csimp. split; ring.
  - destruct ra as [|a ra]; [cbn [map]; rewrite !rowdot_nil_l; csimp; split; ring|].
    cbn [map]. rewrite !rowdot_cons. rewrite IH. csimp. split; ring.
Qed.
Lemma rowdot_zero : forall {A} (ra : list C) (B : list A), rowdot ra (map (fun _ => C0) B) ==c C0.
Proof.
  intros A ra B. revert ra. induction B as [|b B IH]; intros ra; [cbn [map]; rewrite rowdot_nil_r; reflexivity|].
  destruct ra as [|a ra]; [reflexivity|]. cbn [map]. rewrite rowdot_cons, IH. csimp. split; ring.
Qed.
Lemma rowdot_ext : forall {A} (ra : list C) (B : list A) (f g : A -> C),
  (forall x, In x B -> f x ==c g x) -> rowdot ra (map f B) ==c rowdot ra (map g B).
Proof.
  intros A ra B f g H. apply rowdot_proper_r. induction B as [|b B IH]; cbn [map]; constructor.
  - apply H. left. reflexivity.
  - apply IH. intros x I. apply H. right. exact I.
Qed.
Lemma rowdot_opp_r : forall r v, rowdot r (map Copp v) ==c Copp (rowdot r v).
Proof.
  induction r as [|a r IH]; intros v; [rewrite !rowdot_nil_l; csimp; split; ring|].
  destruct v as [|b v]; [cbn [map]; rewrite !rowdot_nil_r; csimp; split; ring|].
  cbn [map]. rewrite !rowdot_cons, IH. csimp. split; ring.
Qed.

Lemma firstn_S_snoc : forall {A} (l : list A) m d, (m < length l)%nat -> firstn (S m) l = firstn m l ++ [nth m l d].
Proof.
  induction l as [|a l IH]; intros m d H; [cbn in H; lia|].
  destruct m as [|m]; [reflexivity|]. cbn [firstn nth app]. f_equal. apply IH. cbn in H. lia.
Qed.
Lemma transpose_n_length : forall n Y, length (transpose_n n Y) = n.
Proof. induction n; intros; cbn [transpose_n]; [reflexivity | rewrite app_length, IHn; cbn; lia]. Qed.

(* ---------------------------------------------------------------- (A*B)*v = A*(B*v) *)
Lemma mmul_row_vec_aux : forall m ra (B : M) v,
  (forall r, In r B -> (m <= length r)%nat) -> (m <= length v)%nat ->
  rowdot (map (fun cb => rowdot ra cb) (transpose_n m B)) (firstn m v) ==c
  rowdot ra (map (fun row => rowdot (firstn m row) (firstn m v)) B).
Proof.
  induction m as [|m IH]; intros ra B v HB Hv.
  - cbn [transpose_n map firstn]. rewrite rowdot_nil_l.
    symmetry. exact (rowdot_zero ra B).
  - cbn [transpose_n]. rewrite map_app. cbn [map].
    rewrite (firstn_S_snoc v m C0) by lia.
    rewrite rowdot_snoc by (rewrite map_length, transpose_n_length, firstn_length; lia).
    rewrite IH by (try (intros r I; specialize (HB r I)); lia).
    rewrite (rowdot_ext ra B (fun row => rowdot (firstn (S m) row) (firstn m v ++ [nth m v C0]))
               (fun row => Cadd (rowdot (firstn m row) (firstn m v)) (Cmul (nth m row C0) (nth m v C0)))).
    + rewrite rowdot_affine. reflexivity.
    + intros row I. rewrite (firstn_S_snoc row m C0) by (specialize (HB row I); lia).
      apply rowdot_snoc. rewrite !firstn_length. specialize (HB row I). lia.
Qed.

Lemma mmul_vec : forall A B n v, (forall r, In r B -> length r = n) -> length v = n ->
  Veq (mvec (mmul A B n) v) (mvec A (mvec B v)).
Proof.
  intros A B n v HB Hv. subst n. unfold mvec, mmul. cbv zeta. rewrite map_map.
  induction A as [|ra A IH]; cbn [map]; constructor; [| exact IH].
  pose proof (mmul_row_vec_aux (length v) ra B v) as H.
  rewrite firstn_all in H.
  etransitivity; [apply H; [intros r I; rewrite (HB r I); lia | lia]|].
  apply rowdot_ext. intros row I.
  replace (firstn (length v) row) with row by (rewrite <- (HB row I); symmetry; apply firstn_all).
  reflexivity.
Qed.

(* ---------------------------------------------------------------- linearity of A*v *)
Lemma mvec_proper_r : forall A v v', Veq v v' -> Veq (mvec A v) (mvec A v').
Proof. intros A v v' H. unfold mvec. induction A; cbn [map]; constructor; [apply rowdot_proper_r; exact H | assumption]. Qed.
Lemma mvec_opp : forall A v, Veq (mvec A (map Copp v)) (map Copp (mvec A v)).
Proof. intros A v. unfold mvec. induction A; cbn [map]; constructor; [apply rowdot_opp_r | assumption]. Qed.
Lemma map_opp_proper : forall a b, Veq a b -> Veq (map Copp a) (map Copp b).
Proof. intros a b H. induction H; cbn [map]; constructor; [rewrite H; reflexivity | assumption]. Qed.
Lemma Veq_trans : forall a b c, Veq a b -> Veq b c -> Veq a c.
Proof.
  intros a b c H. revert c. induction H as [|x y a b Hxy H IH]; intros c Hc; inversion Hc; subst; constructor.
  - etransitivity; eassumption.
  - apply IH. assumption.
Qed.
Lemma Veq_length : forall a b, Veq a b -> length a = length b.
Proof. intros a b H. induction H; cbn; congruence. Qed.

Lemma rowdot_sub_l : forall r s v, length r = length s ->
  rowdot (map (fun q => Csub (fst q) (snd q)) (combine r s)) v ==c Csub (rowdot r v) (rowdot s v).
Proof.
  induction r as [|a r IH]; intros s v L; destruct s as [|b s]; try discriminate.
  - cbn. csimp. split; ring.
  - destruct v as [|y v]; [cbn [combine map]; rewrite !rowdot_nil_r; csimp; split; ring|].
    cbn [combine map fst snd]. rewrite !rowdot_cons. rewrite IH by (cbn in L; lia). csimp. split; ring.
Qed.
Lemma mvec_msub : forall A B v, Forall2 (fun r s => length r = length s) A B ->
  Veq (mvec (msub A B) v) (vzip Csub (mvec A v) (mvec B v)).
Proof.
  intros A B v H. unfold mvec, msub, vzip. induction H as [|r s A B L H IH]; cbn [combine map]; constructor; [| exact IH].
  cbn [fst snd]. apply rowdot_sub_l. exact L.
Qed.
Lemma vzip_sub_opp : forall a b b', Veq b (map Copp b') -> Veq (vzip Csub a b) (vzip Cadd a b').
Proof.
  intros a b b' H. unfold vzip. revert a b H. induction b' as [|y b' IH]; intros a b H.
  - inversion H; subst. rewrite !combine_nil. constructor.
  - inversion H as [|x ? b0 ? Hx Hb]; subst. destruct a as [|u a]; [constructor|].
    cbn [combine map fst snd]. constructor; [| apply IH; exact Hb].
    rewrite Hx. csimp. split; ring.
Qed.

Lemma mmul_rows : forall A B n, length (mmul A B n) = length A.
Proof. intros. unfold mmul. cbv zeta. apply map_length. Qed.
Lemma mmul_cols : forall A B n r, In r (mmul A B n) -> length r = n.
Proof.
  intros A B n r I. unfold mmul in I. cbv zeta in I. apply in_map_iff in I. destruct I as (ra & <- & _).
  rewrite map_length. apply transpose_n_length.
Qed.
Lemma same_shape : forall n (A B : M), length A = length B ->
  (forall r, In r A -> length r = n) -> (forall r, In r B -> length r = n) ->
  Forall2 (fun r s : list C => length r = length s) A B.
Proof.
  intros n A. induction A as [|r A IH]; intros [|s B] L HA HB; try discriminate; constructor.
  - rewrite (HA r (or_introl eq_refl)), (HB s (or_introl eq_refl)). reflexivity.
  - apply IH; [cbn in L; lia | intros; apply HA; right; assumption | intros; apply HB; right; assumption].
Qed.

(* ---------------------------------------------------------------- the block formula *)
Theorem block_formula_schur : forall (Ybb Ybe Yeb Yee Z : M) nb ne vb ve,
  (forall r, In r Yeb -> length r = nb) -> length vb = nb ->            (* Yeb : ne x nb *)
  length Yeb = ne -> (forall r, In r Z -> length r = ne) ->               (* Z : ne x ne *)
  length Ybe = length Ybb -> (forall r, In r Ybb -> length r = nb) ->     (* Ybb : nb x nb, Ybe has as many rows *)
  Veq (mvec Z (mvec Yee ve)) ve ->                                        (* Z inverts Yee (on ve) *)
  Veq (mvec Yeb vb) (map Copp (mvec Yee ve)) ->                           (* external equations: Yeb*vb + Yee*ve = 0 *)
  Veq (mvec (msub Ybb (mmul (mmul Ybe Z ne) Yeb nb)) vb) (vzip Cadd (mvec Ybb vb) (mvec Ybe ve)).
Proof.
  intros Ybb Ybe Yeb Yee Z nb ne vb ve HYeb Lvb LYeb HZs LYbe HYbb HZ He.
  set (W := mmul (mmul Ybe Z ne) Yeb nb).
  assert (HW : Veq (mvec W vb) (map Copp (mvec Ybe ve))).
  { unfold W.
    eapply Veq_trans; [apply mmul_vec; assumption|].
    eapply Veq_trans; [apply mmul_vec; [assumption | unfold mvec; rewrite map_length; exact LYeb]|].
    eapply Veq_trans; [| apply mvec_opp].
    apply mvec_proper_r.
    eapply Veq_trans; [apply mvec_proper_r; exact He|].
    eapply Veq_trans; [apply mvec_opp|]. apply map_opp_proper. exact HZ. }
  eapply Veq_trans; [apply mvec_msub | apply vzip_sub_opp; exact HW].
  (* shapes of Ybb and W agree *)
  apply (same_shape nb).
  - unfold W. rewrite !mmul_rows. symmetry. exact LYbe.
  - exact HYbb.
  - intros r I. unfold W in I. apply (mmul_cols _ _ _ _ I).
Qed.

(* non-vacuity: one boundary and one external bus *)
Example block_formula_nonvacuous :
  let Ybb := [[mkC 2 (-1)]] in let Ybe := [[mkC (-1) 1]] in let Yeb := [[mkC (-1) 1]] in let Yee := [[mkC 4 (-2)]] in
  let Z := [[Cinv (mkC 4 (-2))]] in let vb := [mkC 1 0] in let ve := [Cmul (Cinv (mkC 4 (-2))) (mkC 1 (-1))] in
  Veq (mvec Z (mvec Yee ve)) ve /\ Veq (mvec Yeb vb) (map Copp (mvec Yee ve)).
Proof. vm_compute. split; repeat constructor. Qed.
