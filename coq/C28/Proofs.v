(* C28 — proofs about the Kron reduction and the ward parameters *)
From Coq Require Import ZArith QArith List Bool Lia Lqa Setoid Morphisms.
From PPV Require Import Base.QN Base.QC C28.Model.
Import ListNotations.
Open Scope Q_scope.

Lemma Csum_cons : forall x l, Csum (x :: l) = Cadd x (Csum l).
Proof. reflexivity. Qed.
Lemma Csum_app : forall a b, Csum (a ++ b) ==c Cadd (Csum a) (Csum b).
Proof.
  induction a as [|x a IH]; intros b; cbn [app].
  - unfold Csum at 2. cbn [fold_right]. symmetry. apply Cadd_0_l.
  - rewrite !Csum_cons. rewrite IH. apply Cadd_assoc.
Qed.
Global Instance Cdiv_proper : Proper (Ceq ==> Ceq ==> Ceq) Cdiv.
Proof. intros a b [H1 H2] c d [H3 H4]. csimp. rewrite H1, H2, H3, H4. split; reflexivity. Qed.

(* ---------------------------------------------------------------- one-bus elimination *)
Lemma rowdot_nil_l : forall v, rowdot [] v = C0. Proof. reflexivity. Qed.
Lemma rowdot_cons : forall a r b v, rowdot (a :: r) (b :: v) = Cadd (Cmul a b) (rowdot r v).
Proof. reflexivity. Qed.

Lemma rowdot_elim_row : forall rb re_ vb k,
  length rb = length re_ -> length rb = length vb ->
  rowdot (map (fun p => Csub (fst p) (Cmul k (snd p))) (combine rb re_)) vb ==c
  Csub (rowdot rb vb) (Cmul k (rowdot re_ vb)).
Proof.
  induction rb as [|a rb IH]; intros re_ vb k L1 L2.
  - destruct re_; [|discriminate]. cbn. csimp. split; ring.
  - destruct re_ as [|b re_]; [discriminate|]. destruct vb as [|v vb]; [discriminate|].
    cbn [combine map fst snd]. rewrite !rowdot_cons. rewrite IH by (cbn in *; lia).
    csimp. split; ring.
Qed.

Lemma schur_algebra : forall A B yie yee ve ii ie,
  ~ re yee * re yee + im yee * im yee == 0 ->
  Cadd A (Cmul yie ve) ==c ii -> Cadd B (Cmul yee ve) ==c ie ->
  Csub A (Cmul (Cdiv yie yee) B) ==c Csub ii (Cmul (Cdiv yie yee) ie).
Proof.
  intros A B yie yee ve ii ie Hn [H1 H2] [H3 H4]. csimp.
  rewrite <- H1, <- H2, <- H3, <- H4. split; field; exact Hn.
Qed.

(* eliminating the last bus keeps the equations of every other bus, with the eliminated bus' current transferred *)
Lemma kron_one_row : forall rb yie re_ yee vb ve ii ie,
  ~ re yee * re yee + im yee * im yee == 0 ->
  length rb = length re_ -> length rb = length vb ->
  Cadd (rowdot rb vb) (Cmul yie ve) ==c ii ->          (* row i of the original system *)
  Cadd (rowdot re_ vb) (Cmul yee ve) ==c ie ->         (* row of the eliminated bus *)
  rowdot (elim_row rb yie re_ yee) vb ==c Csub ii (Cmul (Cdiv yie yee) ie).
Proof.
  intros rb yie re_ yee vb ve ii ie Hn L1 L2 H1 H2. unfold elim_row.
  rewrite rowdot_elim_row by assumption. apply (schur_algebra _ _ yie yee ve); assumption.
Qed.

(* whole system, one elimination step *)
Lemma kron_step : forall rows re_ yee vb ve Is ie,
  ~ re yee * re yee + im yee * im yee == 0 ->
  (forall r, In r rows -> length (fst r) = length re_) -> length re_ = length vb ->
  Forall2 (fun r i => Cadd (rowdot (fst r) vb) (Cmul (snd r) ve) ==c i) rows Is ->
  Cadd (rowdot re_ vb) (Cmul yee ve) ==c ie ->
  Forall2 (fun r i => rowdot (elim_row (fst r) (snd r) re_ yee) vb ==c Csub i (Cmul (Cdiv (snd r) yee) ie)) rows Is.
Proof.
  intros rows re_ yee vb ve Is ie Hn HL Lv HF He. induction HF as [|r i rows Is Hri HF IH]; constructor.
  - apply (kron_one_row _ _ _ _ _ ve); try assumption.
    + apply HL. left. reflexivity.
    + rewrite (HL r (or_introl eq_refl)). exact Lv.
  - apply IH. intros r' Hr'. apply HL. right. exact Hr'.
Qed.

(* the implementation's variant takes the column entry from the transposed row: same result iff the coupling is symmetric *)
Lemma elim_row_symmetric : forall rb y1 y2 re_ yee, y1 ==c y2 ->
  Forall2 Ceq (elim_row rb y1 re_ yee) (elim_row rb y2 re_ yee).
Proof.
  intros rb y1 y2 re_ yee H. unfold elim_row. revert re_. induction rb as [|a rb IH]; intros re_; [constructor|].
  destruct re_ as [|b re_]; [constructor|]. cbn [combine map fst snd]. constructor; [|apply IH].
  rewrite H. reflexivity.
Qed.
Definition wit_Y : M := [[mkC 2 0; mkC (-1) 0]; [mkC (-3) 0; mkC 4 0]].
Lemma elim_impl_refuted : exists Y, ~ Forall2 (Forall2 Ceq) (elim_last_impl Y) (elim_last Y).
Proof.
  exists wit_Y. vm_compute. intro H. inversion H as [|? ? ? ? H1 _]; subst. inversion H1 as [|? ? ? ? H2 _]; subst.
  destruct H2 as [A _]. vm_compute in A. discriminate A.
Qed.

(* ---------------------------------------------------------------- ward parameters *)
(* an impedance with z = -1/y stamps the off-diagonal admittance -1/z = y *)
Lemma ward_impedance_reproduces_entry : forall y, ~ re y * re y + im y * im y == 0 ->
  Copp (Cinv (z_of_y y)) ==c y.
Proof.
  intros y H. unfold z_of_y. csimp. split; field; exact H.
Qed.
(* the ward shunt (row sum) minus the off-diagonal entries of the row is the diagonal entry: the stamped diagonal
   shunt_i + sum_{j<>i} 1/z_ij = Y_ii *)
Lemma ward_shunt_reproduces_diagonal : forall a x b,
  Csub (row_sum (a ++ x :: b)) (Csum (a ++ b)) ==c x.
Proof.
  intros a x b. unfold row_sum. rewrite !Csum_app, Csum_cons. csimp. split; ring.
Qed.
