(* C31 — the whole loop  `for t in ("", "2")`  of _calc_tap_from_dataframe (build_branch.py:600-699), both tap changers:
   every pass has a tabular branch (:617-672), taken only for rows whose tap_dependency_table flag is set AND only when
   the frame has a column  tap{t}_dependency_table  (:612-618; a standard frame has tap_dependency_table but no
   tap2_dependency_table, so the mask of pass "2" is the broadcast [False]), and the ordinary branch (:673-699) for all
   other rows.  The ordinary rule (sqrt / trig in general) is a parameter [ord]; [ord_rat] is its rational instance
   used by the correspondence run (Ideal by degree; Ratio/Symmetrical with tap_step_degree 0/NaN: |u1 + du|).
   Executable definitions only. *)
From Coq Require Import ZArith QArith List Bool String.
From PPV Require Import Base.QN Base.Out C31.Model.
Import ListNotations.
Open Scope Q_scope.

(* tap{t}_changer_type: None/NaN/"Tabular"/anything else -> KNone (no ordinary computation), "Ideal", "Ratio"|"Symmetrical" *)
Inductive kind := KNone | KIdeal | KComplex.
(* the tap{t}_* columns of one row in one pass *)
Record tapx := { x_pos : Q; x_side : side; x_kind : kind; x_diff : Q; x_pct : Q; x_deg : Q }.

(* the frame as this pass sees it: mask source = tap_dependency_table if the frame has tap{t}_dependency_table, else False;
   step = tap{t}_pos, side = tap{t}_side *)
Definition retap (dep : bool) (x : tapx) (t : trow) : trow :=
  {| t_dep := dep; t_id := t_id t; t_pos := x_pos x; t_side := x_side x; t_star := t_star t;
     t_vnh := t_vnh t; t_vnl := t_vnl t; t_shift := t_shift t |}.

Fixpoint map3 {A B C D} (f : A -> B -> C -> D) (l : list A) (m : list B) (n : list C) : list D :=
  match l, m, n with a :: l', b :: m', c :: n' => f a b c :: map3 f l' m' n' | _, _, _ => [] end.

Section Ord.
  (* ordinary rule for a row masked on its tap side: given the tap data and u1 = vn of that side,
     the new vn of that side and the increment of the shift (the direction +1 hv / -1 lv is read from x_side) *)
  Variable ord : tapx -> Q -> Q * Q.

  Definition apply_ord (x : tapx) (t : trow) : trow :=
    match x_kind x with
    | KNone => t
    | _ =>
      match x_side x with
      | NoSide => t
      | s =>
        let u1 := match s with HV => t_vnh t | _ => t_vnl t end in
        let vn2 := fst (ord x u1) in let dsh := snd (ord x u1) in
        {| t_dep := t_dep t; t_id := t_id t; t_pos := t_pos t; t_side := t_side t; t_star := t_star t;
           t_vnh := match s with HV => vn2 | _ => t_vnh t end;
           t_vnl := match s with LV => vn2 | _ => t_vnl t end;
           t_shift := qadd (t_shift t) dsh |}
      end
    end.

  (* :678-681  "Both tap_step_degree and tap_step_percent set for ideal phase shifter" *)
  Definition ideal_both (dep : bool) (x : tapx) : bool :=
    negb dep && match x_kind x with KIdeal => true | _ => false end
    && match x_side x with NoSide => false | _ => true end
    && negb (qeqb (x_deg x) 0) && negb (qeqb (x_pct x) 0).

  (* one pass of the loop; None+string = raised UserWarning *)
  Definition tap_pass (is3w has_dep : bool) (tab : list crow) (deps : list bool) (rows : list trow) (taps : list tapx)
    : list trow + string :=
    let view := map3 (fun d t x => retap (has_dep && d) x t) deps rows taps in
    if existsb t_dep view && na_error view then inr "UserWarning"%string                    (* :630 *)
    else
      let r := if existsb t_dep view then tap_table_step is3w tab view else view in          (* :628-672 *)
      if existsb (fun dx => ideal_both (has_dep && fst dx) (snd dx)) (combine deps taps)
      then inr "UserWarning"%string
      else inl (map2 (fun x t => if t_dep t then t else apply_ord x t) taps r).               (* :673-699 *)

  (* the loop: pass "" always (the frame has tap_pos), pass "2" iff the frame has tap2_pos (:601-602) *)
  Definition tap_loop (is3w has_dep1 has_pos2 has_dep2 : bool) (tab : list crow) (deps : list bool)
             (rows : list trow) (taps1 taps2 : list tapx) : list trow + string :=
    match tap_pass is3w has_dep1 tab deps rows taps1 with
    | inr e => inr e
    | inl r1 => if has_pos2 then tap_pass is3w has_dep2 tab deps r1 taps2 else inl r1
    end.
End Ord.

(* rational instance of the ordinary rule (:682-699):
   Ideal, degree set:   shift += direction * tap_diff * tap_step_degree
   Ratio/Symmetrical with tap_step_degree 0/NaN:  vn = sqrt((u1 + du)^2) = |u1 + du|,  du = u1 * pct * diff / 100, shift += 0 *)
Definition ord_rat (x : tapx) (u1 : Q) : Q * Q :=
  let dir := match x_side x with LV => (-1 # 1) | _ => 1 end in
  match x_kind x with
  | KIdeal => (u1, qmul (qmul dir (x_diff x)) (x_deg x))
  | _ => (qabs2 (qadd u1 (qmul u1 (qdiv (qmul (x_pct x) (x_diff x)) 100))), 0)
  end.

Definition otrows (r : list trow + string) : out :=
  match r with inl l => olist otrow l | inr e => OErr e end.
(* rows carry the first tap changer's flag / position / side in t_dep / t_pos / t_side (as for run_tap);
   kinds1 = its tap_changer_type with diff / percent / degree; taps2 = the tap2_* columns *)
Definition first_taps (rows : list trow) (k1 : list tapx) : list tapx :=
  map2 (fun t x => {| x_pos := t_pos t; x_side := t_side t; x_kind := x_kind x; x_diff := x_diff x; x_pct := x_pct x;
                      x_deg := x_deg x |}) rows k1.
Definition run_tap_loop (has_pos2 has_dep2 : bool) (tab : list crow) (rows : list trow) (k1 taps2 : list tapx) : out :=
  otrows (tap_loop ord_rat false true has_pos2 has_dep2 tab (map t_dep rows) rows (first_taps rows k1) taps2).
