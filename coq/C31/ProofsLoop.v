(* C31 — the second tap changer of a table-dependent transformer is never looked up; the composition of both passes
   equals the explicit-values transformer followed by the ordinary second tap changer *)
From Coq Require Import ZArith QArith List Bool String Lia Setoid Morphisms.
From PPV Require Import Base.QN Base.Out C31.Model C31.Proofs C31.ModelLoop.
Import ListNotations.
Open Scope Q_scope.

(* ------------------------------------------------------------------ list plumbing *)
Lemma nth_error_map3 {A B C D} (f : A -> B -> C -> D) : forall l m n i a b c,
  nth_error l i = Some a -> nth_error m i = Some b -> nth_error n i = Some c ->
  nth_error (map3 f l m n) i = Some (f a b c).
Proof.
  induction l as [|a0 l IH]; intros [|b0 m] [|c0 n] [|i] a b c Ha Hb Hc; cbn in *; try discriminate.
  - now inversion Ha; inversion Hb; inversion Hc.
  - eauto.
Qed.
Lemma nth_error_map2 {A B C} (f : A -> B -> C) : forall l m i a b,
  nth_error l i = Some a -> nth_error m i = Some b -> nth_error (map2 f l m) i = Some (f a b).
Proof.
  induction l as [|a0 l IH]; intros [|b0 m] [|i] a b Ha Hb; cbn in *; try discriminate.
  - now inversion Ha; inversion Hb.
  - eauto.
Qed.
Lemma existsb_map3_retap_false {A} (deps : list A) : forall rows taps,
  existsb t_dep (map3 (fun _ t x => retap false x t) deps rows taps) = false.
Proof. induction deps as [|d deps IH]; intros [|t rows] [|x taps]; cbn; auto. Qed.
Lemma map2_map3 {A B C D E} (g : C -> D -> E) (f : A -> B -> C -> D) : forall (l : list A) (m : list B) (n : list C),
  map2 g n (map3 f l m n) = map3 (fun a b c => g c (f a b c)) l m n.
Proof. induction l as [|a l IH]; intros [|b m] [|c n]; cbn; try reflexivity. now rewrite IH. Qed.

Section OrdProofs.
  Variable ord : tapx -> Q -> Q * Q.

  (* ---------------------------------------------------------------- (1) no tap{t}_dependency_table column: ordinary, never looked up *)
  Theorem pass_without_dep_column : forall is3w tab deps rows taps,
    tap_pass ord is3w false tab deps rows taps
    = if existsb (fun dx => ideal_both false (snd dx)) (combine deps taps) then inr "UserWarning"%string
      else inl (map3 (fun (_ : bool) t x => apply_ord ord x (retap false x t)) deps rows taps).
  Proof.
    intros. unfold tap_pass. cbn [andb].
    rewrite (existsb_map3_retap_false deps rows taps). cbn [andb].
    destruct (existsb _ (combine deps taps)); [reflexivity|]. f_equal.
    rewrite map2_map3. reflexivity.
  Qed.
  Corollary pass_without_dep_column_table_free : forall is3w tab1 tab2 deps rows taps,
    tap_pass ord is3w false tab1 deps rows taps = tap_pass ord is3w false tab2 deps rows taps.
  Proof. intros. now rewrite !pass_without_dep_column. Qed.

  (* ---------------------------------------------------------------- row-wise form of one pass *)
  Definition view_of (has_dep : bool) (deps : list bool) (rows : list trow) (taps : list tapx) : list trow :=
    map3 (fun d t x => retap (has_dep && d) x t) deps rows taps.
  Lemma tap_pass_nth is3w has_dep tab deps rows taps out i d t x :
    tap_pass ord is3w has_dep tab deps rows taps = inl out ->
    nth_error deps i = Some d -> nth_error rows i = Some t -> nth_error taps i = Some x ->
    let view := view_of has_dep deps rows taps in
    let v := retap (has_dep && d) x t in
    let r := if existsb t_dep view then apply_side is3w LV tab view (apply_side is3w HV tab view v) else v in
    nth_error out i = Some (if t_dep r then r else apply_ord ord x r).
  Proof.
    intros H Hd Ht Hx. cbn zeta. unfold tap_pass in H. fold (view_of has_dep deps rows taps) in H.
    set (view := view_of has_dep deps rows taps) in *.
    destruct (existsb t_dep view && na_error view); [discriminate|].
    destruct (existsb _ (combine deps taps)); [discriminate|]. inversion H; subst out; clear H.
    assert (Hv : nth_error view i = Some (retap (has_dep && d) x t))
      by (unfold view, view_of; apply (nth_error_map3 (fun d t x => retap (has_dep && d) x t) _ _ _ _ _ _ _ Hd Ht Hx)).
    destruct (existsb t_dep view).
    - apply (nth_error_map2 (fun x t => if t_dep t then t else apply_ord ord x t) _ _ _ _ _ Hx).
      unfold tap_table_step. rewrite !nth_error_map, Hv. reflexivity.
    - apply (nth_error_map2 (fun x t => if t_dep t then t else apply_ord ord x t) _ _ _ _ _ Hx Hv).
  Qed.

  (* ---------------------------------------------------------------- (2) the composition on a standard frame *)
  Hypothesis ord_proper : forall x u u', u == u' -> fst (ord x u) == fst (ord x u') /\ snd (ord x u) == snd (ord x u').

  Lemma apply_ord_eqv x a b : trow_eqv a b -> trow_eqv (apply_ord ord x a) (apply_ord ord x b).
  Proof.
    intros (E1 & E2 & E3 & E4 & E5 & Eh & El & Es). unfold apply_ord.
    destruct (ord_proper x _ _ Eh) as [Fh Sh]. destruct (ord_proper x _ _ El) as [Fl Sl].
    assert (B : trow_eqv a b) by (repeat split; assumption).
    destruct (x_kind x); [exact B | |];
      (destruct (x_side x); [ | | exact B];
       unfold trow_eqv; cbn [t_dep t_id t_pos t_side t_star t_vnh t_vnl t_shift];
       repeat split; try assumption; try (now rewrite Es, Sh); try (now rewrite Es, Sl)).
  Qed.
  Lemma retap_eqv d x a b : trow_eqv a b -> trow_eqv (retap d x a) (retap d x b).
  Proof. intros (E1 & E2 & E3 & E4 & E5 & Eh & El & Es). unfold trow_eqv, retap; cbn. repeat split; assumption. Qed.

  (* standard frame: tap_dependency_table column present, no tap2_dependency_table column, tap2_pos present.
     Row i is table dependent with characteristic id k; r = its own (id, tap_pos) row.  Its output after BOTH passes is
     the ordinary second tap changer applied to the explicit-values transformer (voltage_ratio / angle_deg of r
     entered directly), whatever the other rows and their tap positions are. *)
  Theorem loop_dependent_row_eq_explicit : forall is3w tab deps rows taps1 taps2 out i t x1 x2 k r,
    tab_consistent c_ratio tab = true -> tab_consistent c_angle tab = true ->
    tap_loop ord is3w true true false tab deps rows taps1 taps2 = inl out ->
    nth_error deps i = Some true -> nth_error rows i = Some t -> nth_error taps1 i = Some x1 ->
    nth_error taps2 i = Some x2 ->
    t_id t = Some k -> own_row tab k (x_pos x1) = Some r ->
    exists o, nth_error out i = Some o /\
      trow_eqv o (apply_ord ord x2 (retap false x2 (explicit_step is3w (c_ratio r) (c_angle r) (retap true x1 t)))).
  Proof.
    intros is3w tab deps rows taps1 taps2 out i t x1 x2 k r TR TA H Hd Ht H1 H2 Hid Hown.
    unfold tap_loop in H.
    destruct (tap_pass ord is3w true tab deps rows taps1) as [r1|e] eqn:P1; [|discriminate].
    pose proof (tap_pass_nth _ _ _ _ _ _ _ _ _ _ _ P1 Hd Ht H1) as N1. cbn zeta in N1. cbn [andb] in N1.
    set (view := view_of true deps rows taps1) in *.
    set (v := retap true x1 t) in *.
    assert (Hin : In v view).
    { unfold view, view_of. eapply nth_error_In.
      apply (nth_error_map3 (fun d t x => retap (true && d) x t) _ _ _ _ _ _ _ Hd Ht H1). }
    assert (Hex : existsb t_dep view = true) by (apply existsb_exists; exists v; split; [exact Hin | reflexivity]).
    rewrite Hex in N1.
    set (o1 := apply_side is3w LV tab view (apply_side is3w HV tab view v)) in *.
    assert (E1 : trow_eqv o1 (explicit_step is3w (c_ratio r) (c_angle r) v))
      by (apply (tap_row_eq_explicit is3w tab view v k r TR TA Hin eq_refl Hid Hown)).
    assert (D1 : t_dep o1 = true) by (destruct E1 as (E & _); rewrite E; unfold explicit_step; destruct (t_side v); reflexivity).
    rewrite D1 in N1.
    rewrite pass_without_dep_column in H.
    destruct (existsb _ (combine deps taps2)); [discriminate|]. inversion H; subst out; clear H.
    eexists. split.
    - apply (nth_error_map3 (fun (_ : bool) t x => apply_ord ord x (retap false x t)) _ _ _ _ _ _ _ Hd N1 H2).
    - apply apply_ord_eqv, retap_eqv, E1.
  Qed.
End OrdProofs.

(* the rational instance respects == *)
Lemma qabs2_proper a b : a == b -> qabs2 a == qabs2 b.
Proof.
  intros E. unfold qabs2.
  destruct (qltb a 0) eqn:A, (qltb b 0) eqn:B; try (now rewrite E).
  - apply qltb_lt in A. apply qltb_ge in B. rewrite E in A. exfalso. apply (Qlt_irrefl 0). eapply Qle_lt_trans; eauto.
  - apply qltb_ge in A. apply qltb_lt in B. rewrite E in A. exfalso. apply (Qlt_irrefl 0). eapply Qle_lt_trans; eauto.
Qed.
Lemma ord_rat_proper x u u' : u == u' ->
  fst (ord_rat x u) == fst (ord_rat x u') /\ snd (ord_rat x u) == snd (ord_rat x u').
Proof.
  intros E. unfold ord_rat. destruct (x_kind x); cbn [fst snd]; split; try reflexivity; try exact E;
    apply qabs2_proper; now rewrite E.
Qed.

(* ------------------------------------------------------------------ non-vacuity: two transformers sharing id 0 at taps -2 / +2,
   the first with a second (ordinary Ratio, 2.5 % per step, position +2, hv side) tap changer *)
Definition lp_rows : list trow :=
  [ {| t_dep := true; t_id := Some 0%Z; t_pos := 0; t_side := NoSide; t_star := false; t_vnh := 110; t_vnl := 20; t_shift := 0 |};
    {| t_dep := true; t_id := Some 0%Z; t_pos := 0; t_side := NoSide; t_star := false; t_vnh := 110; t_vnl := 20; t_shift := 0 |} ].
Definition lp_taps1 : list tapx :=
  [ {| x_pos := (-2 # 1); x_side := HV; x_kind := KNone; x_diff := 0; x_pct := 0; x_deg := 0 |};
    {| x_pos := (2 # 1); x_side := HV; x_kind := KNone; x_diff := 0; x_pct := 0; x_deg := 0 |} ].
Definition lp_taps2 : list tapx :=
  [ {| x_pos := (2 # 1); x_side := HV; x_kind := KComplex; x_diff := (2 # 1); x_pct := (5 # 2); x_deg := 0 |};
    {| x_pos := 0; x_side := NoSide; x_kind := KNone; x_diff := 0; x_pct := 0; x_deg := 0 |} ].
Example loop_nonvacuous :
  tab_consistent c_ratio wit_tab = true /\ tab_consistent c_angle wit_tab = true /\
  exists o1 o2, tap_loop ord_rat false true true false wit_tab [true; true] lp_rows lp_taps1 lp_taps2 = inl [o1; o2] /\
    (* 110 * 0.95 * 1.05 and 110 * 1.05: own rows, the second tap changer on top, nothing looked up at step +2 for row 1 *)
    t_vnh o1 == 110 * (95 # 100) * (105 # 100) /\ t_vnh o2 == 110 * (105 # 100).
Proof.
  split; [vm_compute; reflexivity|]. split; [vm_compute; reflexivity|].
  eexists. eexists. split; [vm_compute; reflexivity|]. split; vm_compute; reflexivity.
Qed.
