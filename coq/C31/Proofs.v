(* C31 — proofs about the table lookup model (C31/Model.v). *)
From Coq Require Import ZArith QArith List Bool Lia Lqa Setoid Morphisms.
From PPV Require Import Base.QN C31.Model.
Import ListNotations.
Open Scope Q_scope.

(* ---------------------------------------------------------------- dict(zip()).get = last match *)
Section Dict.
Context {K V : Type} (eqb : K -> K -> bool).
Definition dstep (k : K) (acc : option V) (kv : K * V) : option V :=
  if eqb (fst kv) k then Some (snd kv) else acc.

Lemma fold_dstep_acc k (l : list (K * V)) (acc : option V) :
  fold_left (dstep k) l acc =
  match fold_left (dstep k) l None with Some v => Some v | None => acc end.
Proof.
  revert acc. induction l as [|kv l IH]; intros acc; cbn [fold_left]; [reflexivity|].
  rewrite (IH (dstep k acc kv)), (IH (dstep k None kv)).
  destruct (fold_left (dstep k) l None); [reflexivity|].
  unfold dstep. destruct (eqb (fst kv) k); reflexivity.
Qed.

Lemma dict_get_cons k (kv : K * V) (l : list (K * V)) :
  dict_get eqb k (kv :: l) =
  match dict_get eqb k l with
  | Some v => Some v
  | None => if eqb (fst kv) k then Some (snd kv) else None
  end.
Proof.
  unfold dict_get. cbn [fold_left]. fold (dstep k).
  change (fold_left (dstep k) l (dstep k None kv) =
          match fold_left (dstep k) l None with Some v => Some v | None => dstep k None kv end).
  apply fold_dstep_acc.
Qed.

(* the result is the value of some pair whose key equals k *)
Lemma dict_get_some_in k (l : list (K * V)) (v : V) :
  dict_get eqb k l = Some v -> exists k', In (k', v) l /\ eqb k' k = true.
Proof.
  induction l as [|kv l IH]; [discriminate|].
  rewrite dict_get_cons. destruct (dict_get eqb k l) eqn:E.
  - intros H. injection H as <-. destruct (IH eq_refl) as (k' & Hin & Hk). exists k'. split; [right; exact Hin | exact Hk].
  - destruct (eqb (fst kv) k) eqn:Ek; [|discriminate].
    intros H. injection H as <-. exists (fst kv). split; [left; destruct kv; reflexivity | exact Ek].
Qed.

Lemma dict_get_none k (l : list (K * V)) :
  dict_get eqb k l = None -> forall k' v, In (k', v) l -> eqb k' k = false.
Proof.
  induction l as [|kv l IH]; intros H k' v Hin; [inversion Hin|].
  rewrite dict_get_cons in H. destruct (dict_get eqb k l) eqn:E; [discriminate|].
  destruct (eqb (fst kv) k) eqn:Ek; [discriminate|].
  destruct Hin as [->|Hin]; [exact Ek|].
  exact (IH eq_refl k' v Hin).
Qed.

Lemma dict_get_in_some k k' (l : list (K * V)) (v : V) :
  In (k', v) l -> eqb k' k = true -> exists w, dict_get eqb k l = Some w.
Proof.
  intros Hin Hk. destruct (dict_get eqb k l) eqn:E; [eexists; reflexivity|].
  exfalso. rewrite (dict_get_none k l E k' v Hin) in Hk. discriminate.
Qed.
End Dict.

(* ---------------------------------------------------------------- merged *)
Lemma in_merged tab flt r :
  In r (merged tab flt) <-> In r tab /\ exists t, In t flt /\ key_match r t = true.
Proof.
  unfold merged. rewrite in_flat_map. split.
  - intros (r0 & Hr0 & Hin). apply in_map_iff in Hin. destruct Hin as (t & <- & Ht).
    apply filter_In in Ht. split; [exact Hr0|]. exists t. exact Ht.
  - intros (Hr & t & Ht & Hk). exists r. split; [exact Hr|].
    apply in_map_iff. exists t. split; [reflexivity|]. apply filter_In. split; assumption.
Qed.

Lemma id_is_true k o : id_is k o = true <-> o = Some k.
Proof.
  unfold id_is. destruct o as [i|]; split; intros H; try discriminate.
  - apply Z.eqb_eq in H. subst. reflexivity.
  - injection H as ->. apply Z.eqb_refl.
Qed.

Lemma key_match_true r t :
  key_match r t = true <-> f_mask t = true /\ f_id t = Some (c_id r) /\ c_step r == f_pos t.
Proof.
  unfold key_match. rewrite !andb_true_iff, id_is_true, qeqb_eq. tauto.
Qed.

Lemma forallb2_spec {A} (f : A -> A -> bool) l :
  forallb (fun a => forallb (fun b => f a b) l) l = true -> forall a b, In a l -> In b l -> f a b = true.
Proof.
  intros H a b Ha Hb. rewrite forallb_forall in H. specialize (H a Ha).
  rewrite forallb_forall in H. exact (H b Hb).
Qed.

Lemma G31_spec flt : G31 flt = true ->
  forall a b k, In a flt -> In b flt -> f_mask a = true -> f_mask b = true ->
  f_id a = Some k -> f_id b = Some k -> f_pos a == f_pos b.
Proof.
  intros H a b k Ha Hb Ma Mb Ia Ib.
  pose proof (forallb2_spec _ _ H a b Ha Hb) as E. cbn beta in E.
  unfold same_id in E. rewrite Ma, Mb, Ia, Ib, Z.eqb_refl in E. cbn in E.
  apply qeqb_eq. exact E.
Qed.

Lemma tab_consistent_spec col tab : tab_consistent col tab = true ->
  forall r1 r2, In r1 tab -> In r2 tab -> c_id r1 = c_id r2 -> c_step r1 == c_step r2 -> col r1 == col r2.
Proof.
  intros H r1 r2 H1 H2 Hid Hst.
  pose proof (forallb2_spec _ _ H r1 r2 H1 H2) as E. cbn beta in E.
  assert (K : Z.eqb (c_id r1) (c_id r2) && qeqb (c_step r1) (c_step r2) = true).
  { apply andb_true_iff. split; [apply Z.eqb_eq; exact Hid | apply qeqb_eq; exact Hst]. }
  rewrite K in E. cbn in E. apply qeqb_eq. exact E.
Qed.

Lemma own_row_some tab k p r : own_row tab k p = Some r -> In r tab /\ c_id r = k /\ c_step r == p.
Proof.
  unfold own_row. intros H. apply find_some in H. destruct H as [Hin Hb].
  apply andb_true_iff in Hb. destruct Hb as [H1 H2].
  apply Z.eqb_eq in H1. apply qeqb_eq in H2. auto.
Qed.
Lemma own_row_none tab k p : own_row tab k p = None -> forall r, In r tab -> c_id r = k -> ~ c_step r == p.
Proof.
  unfold own_row. intros H r Hin Hid Hst.
  pose proof (find_none _ _ H r Hin) as E. cbn beta in E.
  rewrite Hid, Z.eqb_refl in E. cbn in E.
  apply qeqb_eq in Hst. rewrite Hst in E. discriminate.
Qed.

(* every merged row with the transformer's id sits at the transformer's own step when G31 holds *)
Lemma merged_rows_at_own_step tab flt t k :
  G31 flt = true -> In t flt -> f_mask t = true -> f_id t = Some k ->
  forall r', In r' (merged tab flt) -> c_id r' = k -> In r' tab /\ c_step r' == f_pos t.
Proof.
  intros HG Ht Mt It r' Hr' Hid.
  apply in_merged in Hr'. destruct Hr' as (Hin & t' & Ht' & Hk).
  apply key_match_true in Hk. destruct Hk as (Mt' & It' & Hst).
  split; [exact Hin|]. rewrite Hid in It'.
  rewrite Hst. symmetry. exact (G31_spec flt HG t t' k Ht Ht' Mt Mt' It It').
Qed.

(* ---- main lemma (repaired lookup): the dict keyed by (id, step) returns the own row's value, whatever the
   other transformers of the group are *)
Lemma key2_eqb_true a b : key2_eqb a b = true <-> fst a = fst b /\ snd a == snd b.
Proof. unfold key2_eqb. rewrite andb_true_iff, Z.eqb_eq, qeqb_eq. tauto. Qed.

Lemma lookup_own_row col tab flt t k r :
  tab_consistent col tab = true ->
  In t flt -> f_mask t = true -> f_id t = Some k ->
  own_row tab k (f_pos t) = Some r ->
  lookup col tab flt k (f_pos t) == col r.
Proof.
  intros HT Ht Mt It Hown.
  apply own_row_some in Hown. destruct Hown as (Hr & Hid & Hst).
  assert (Hm : In r (merged tab flt)).
  { apply in_merged. split; [exact Hr|]. exists t. split; [exact Ht|].
    apply key_match_true. rewrite Hid. auto. }
  assert (Hin : In ((c_id r, c_step r), col r) (map (fun r0 => ((c_id r0, c_step r0), col r0)) (merged tab flt))).
  { apply in_map_iff. exists r. auto. }
  assert (Hk : key2_eqb (c_id r, c_step r) (k, f_pos t) = true).
  { apply key2_eqb_true. cbn. auto. }
  destruct (dict_get_in_some key2_eqb _ _ _ _ Hin Hk) as [w Hw].
  unfold lookup. rewrite Hw.
  apply dict_get_some_in in Hw. destruct Hw as (k' & Hw & Hk').
  apply in_map_iff in Hw. destruct Hw as (r' & E & Hr').
  injection E as <- <-. apply key2_eqb_true in Hk'. cbn in Hk'. destruct Hk' as [Hid' Hst'].
  apply in_merged in Hr'. destruct Hr' as [Hin' _].
  apply (tab_consistent_spec col tab HT r' r Hin' Hr); [congruence|].
  rewrite Hst', Hst. reflexivity.
Qed.

Lemma lookup_no_own_row col tab flt k p :
  own_row tab k p = None -> lookup col tab flt k p = 1.
Proof.
  intros Hown. unfold lookup.
  destruct (dict_get key2_eqb (k, p) _) as [w|] eqn:Hw; [|reflexivity]. exfalso.
  apply dict_get_some_in in Hw. destruct Hw as (k' & Hw & Hk').
  apply in_map_iff in Hw. destruct Hw as (r' & E & Hr').
  injection E as <- _. apply key2_eqb_true in Hk'. cbn in Hk'. destruct Hk' as [Hid' Hst'].
  apply in_merged in Hr'. destruct Hr' as [Hin' _].
  exact (own_row_none tab k p Hown r' Hin' Hid' Hst').
Qed.

(* the value does not depend on the other transformers of the group at all *)
Lemma lookup_independent col tab flt1 flt2 t k r :
  tab_consistent col tab = true ->
  In t flt1 -> In t flt2 -> f_mask t = true -> f_id t = Some k ->
  own_row tab k (f_pos t) = Some r ->
  lookup col tab flt1 k (f_pos t) == lookup col tab flt2 k (f_pos t).
Proof.
  intros HT H1 H2 Mt It Hown.
  rewrite (lookup_own_row col tab flt1 t k r HT H1 Mt It Hown).
  rewrite (lookup_own_row col tab flt2 t k r HT H2 Mt It Hown). reflexivity.
Qed.

(* ---- the behaviour before the repair: dict keyed by id alone *)
Lemma lookup_old_own_row col tab flt t k r :
  G31 flt = true -> tab_consistent col tab = true ->
  In t flt -> f_mask t = true -> f_id t = Some k ->
  own_row tab k (f_pos t) = Some r ->
  lookup_old col tab flt k == col r.
Proof.
  intros HG HT Ht Mt It Hown.
  apply own_row_some in Hown. destruct Hown as (Hr & Hid & Hst).
  assert (Hm : In r (merged tab flt)).
  { apply in_merged. split; [exact Hr|]. exists t. split; [exact Ht|].
    apply key_match_true. rewrite Hid. auto. }
  assert (Hin : In (c_id r, col r) (map (fun r0 => (c_id r0, col r0)) (merged tab flt))).
  { apply in_map_iff. exists r. auto. }
  assert (Hk : Z.eqb (c_id r) k = true) by (apply Z.eqb_eq; exact Hid).
  destruct (dict_get_in_some Z.eqb _ _ _ _ Hin Hk) as [w Hw].
  unfold lookup_old. rewrite Hw.
  apply dict_get_some_in in Hw. destruct Hw as (k' & Hw & Hk').
  apply in_map_iff in Hw. destruct Hw as (r' & E & Hr').
  injection E as <- <-. apply Z.eqb_eq in Hk'.
  destruct (merged_rows_at_own_step tab flt t k HG Ht Mt It r' Hr' Hk') as [Hin' Hst'].
  apply (tab_consistent_spec col tab HT r' r Hin' Hr); [congruence|].
  rewrite Hst', Hst. reflexivity.
Qed.

(* the defect: without G31 the last merged row of the id wins, whatever its step *)
Definition wit_tab : list crow :=
  [ {| c_id := 0; c_step := -2 # 1; c_ratio := 95 # 100; c_angle := 0; c_vk := [11; 4 # 10] |};
    {| c_id := 0; c_step := 2 # 1;  c_ratio := 105 # 100; c_angle := 0; c_vk := [13; 6 # 10] |} ].
Definition wit_flt : list frow :=
  [ {| f_id := Some 0%Z; f_pos := -2 # 1; f_mask := true |};
    {| f_id := Some 0%Z; f_pos := 2 # 1; f_mask := true |} ].

Lemma lookup_old_refuted :
  exists col tab flt t k r,
    tab_consistent col tab = true /\ In t flt /\ f_mask t = true /\ f_id t = Some k /\
    own_row tab k (f_pos t) = Some r /\ ~ lookup_old col tab flt k == col r.
Proof.
  exists c_ratio, wit_tab, wit_flt, (nth 0 wit_flt {| f_id := None; f_pos := 0; f_mask := false |}),
         0%Z, (nth 0 wit_tab {| c_id := 0; c_step := 0; c_ratio := 0; c_angle := 0; c_vk := [] |}).
  repeat split; try (vm_compute; reflexivity).
  - left. reflexivity.
  - vm_compute. discriminate.
Qed.

(* ---------------------------------------------------------------- tap step = explicit values *)
Definition trow_eqv (a b : trow) : Prop :=
  t_dep a = t_dep b /\ t_id a = t_id b /\ t_pos a = t_pos b /\ t_side a = t_side b /\ t_star a = t_star b /\
  t_vnh a == t_vnh b /\ t_vnl a == t_vnl b /\ t_shift a == t_shift b.

Lemma in_frows s rows t : In t rows ->
  In {| f_id := t_id t; f_pos := t_pos t; f_mask := t_dep t && side_eqb (t_side t) s |} (frows s rows).
Proof. intros H. unfold frows. apply in_map_iff. exists t. auto. Qed.

Lemma apply_side_other is3w s tab rows t :
  t_dep t && side_eqb (t_side t) s = false -> apply_side is3w s tab rows t = t.
Proof. intros H. unfold apply_side. rewrite H. reflexivity. Qed.

Lemma apply_side_fields is3w s tab rows t :
  let t' := apply_side is3w s tab rows t in
  t_dep t' = t_dep t /\ t_id t' = t_id t /\ t_pos t' = t_pos t /\ t_side t' = t_side t /\ t_star t' = t_star t.
Proof.
  cbn zeta. unfold apply_side. destruct (t_dep t && side_eqb (t_side t) s); [|repeat split; reflexivity].
  destruct (t_id t) eqn:E; cbn; rewrite ?E; repeat split; reflexivity.
Qed.

Lemma tap_row_eq_explicit is3w tab rows t k r :
  tab_consistent c_ratio tab = true -> tab_consistent c_angle tab = true ->
  In t rows -> t_dep t = true -> t_id t = Some k -> own_row tab k (t_pos t) = Some r ->
  trow_eqv (apply_side is3w LV tab rows (apply_side is3w HV tab rows t))
           (explicit_step is3w (c_ratio r) (c_angle r) t).
Proof.
  intros TR TA Hin Hdep Hid Hown.
  destruct (t_side t) eqn:Es.
  - (* tap on hv side *)
    assert (Hlv : apply_side is3w LV tab rows (apply_side is3w HV tab rows t) = apply_side is3w HV tab rows t).
    { apply apply_side_other. destruct (apply_side_fields is3w HV tab rows t) as (_ & _ & _ & Hs & _).
      cbn zeta in Hs. rewrite Hs, Es. apply andb_false_r. }
    rewrite Hlv. unfold apply_side, explicit_step. rewrite Hdep, Es, Hid. cbn [side_eqb andb].
    pose proof (in_frows HV rows t Hin) as Hf. rewrite Hdep, Es in Hf. cbn [side_eqb andb] in Hf.
    pose proof (lookup_own_row c_ratio tab _ _ k r TR Hf eq_refl Hid Hown) as E1. cbn [f_pos] in E1.
    pose proof (lookup_own_row c_angle tab _ _ k r TA Hf eq_refl Hid Hown) as E2. cbn [f_pos] in E2.
    unfold trow_eqv. cbn [t_dep t_id t_pos t_side t_star t_vnh t_vnl t_shift]. repeat split; try reflexivity.
    + destruct (is3w && t_star t); rewrite E1; reflexivity.
    + destruct (is3w && t_star t); rewrite E2; reflexivity.
  - (* tap on lv side *)
    assert (Hhv : apply_side is3w HV tab rows t = t).
    { apply apply_side_other. rewrite Es. apply andb_false_r. }
    rewrite Hhv. unfold apply_side, explicit_step. rewrite Hdep, Es, Hid. cbn [side_eqb andb].
    pose proof (in_frows LV rows t Hin) as Hf. rewrite Hdep, Es in Hf. cbn [side_eqb andb] in Hf.
    pose proof (lookup_own_row c_ratio tab _ _ k r TR Hf eq_refl Hid Hown) as E1. cbn [f_pos] in E1.
    pose proof (lookup_own_row c_angle tab _ _ k r TA Hf eq_refl Hid Hown) as E2. cbn [f_pos] in E2.
    unfold trow_eqv. cbn [t_dep t_id t_pos t_side t_star t_vnh t_vnl t_shift]. repeat split; try reflexivity.
    + destruct (is3w && t_star t); rewrite E1; reflexivity.
    + destruct (is3w && t_star t); rewrite E2; reflexivity.
  - (* no tap side: untouched by both *)
    rewrite (apply_side_other is3w HV), (apply_side_other is3w LV); try (rewrite Es; apply andb_false_r).
    unfold explicit_step. rewrite Es. unfold trow_eqv. repeat split; reflexivity.
Qed.

Lemma tap_table_step_nth is3w tab rows i d :
  nth i (tap_table_step is3w tab rows) (apply_side is3w LV tab rows (apply_side is3w HV tab rows d)) =
  apply_side is3w LV tab rows (apply_side is3w HV tab rows (nth i rows d)).
Proof. unfold tap_table_step. rewrite !map_nth. reflexivity. Qed.

(* rows that are not table dependent are left alone *)
Lemma tap_row_not_dep is3w tab rows t : t_dep t = false ->
  apply_side is3w LV tab rows (apply_side is3w HV tab rows t) = t.
Proof.
  intros H. rewrite (apply_side_other is3w HV tab rows t); [|rewrite H; reflexivity].
  apply apply_side_other. rewrite H. reflexivity.
Qed.

(* ---------------------------------------------------------------- vk columns *)
Lemma mapi_aux_nth {A B} (f : nat -> A -> B) l i0 j d d' :
  (j < length l)%nat -> nth j (mapi_aux f i0 l) d = f (i0 + j)%nat (nth j l d').
Proof.
  revert i0 j. induction l as [|a l IH]; intros i0 j Hj; [cbn in Hj; lia|].
  destruct j; cbn [mapi_aux nth].
  - rewrite Nat.add_0_r. reflexivity.
  - rewrite IH; [|cbn in Hj; lia]. f_equal. lia.
Qed.

Lemma vk_own_row tab rows t k r j :
  tab_consistent (col_vk j) tab = true ->
  In t rows -> v_dep t = true -> v_id t = Some k -> own_row tab k (v_pos t) = Some r ->
  (j < length (v_vk t))%nat ->
  nth j (vk_values tab rows t) 0 == nth j (c_vk r) 0.
Proof.
  intros HT Hin Hdep Hid Hown Hj.
  unfold vk_values. rewrite Hdep, Hid. rewrite (mapi_aux_nth _ _ 0%nat j 0 0 Hj). cbn [Nat.add].
  assert (Hf : In {| f_id := v_id t; f_pos := v_pos t; f_mask := v_dep t |} (vfrows rows)).
  { unfold vfrows. apply in_map_iff. exists t. auto. }
  rewrite Hdep in Hf.
  exact (lookup_own_row (col_vk j) tab _ _ k r HT Hf eq_refl Hid Hown).
Qed.

Lemma vk_not_dep tab rows t : v_dep t = false -> vk_values tab rows t = v_vk t.
Proof. intros H. unfold vk_values. rewrite H. reflexivity. Qed.

(* ---------------------------------------------------------------- non-vacuity *)
(* the refutation witness of the old rule (one id, taps -2 / +2) is handled correctly by the repaired lookup *)
Lemma nonvacuous :
  tab_consistent c_ratio wit_tab = true /\ G31 wit_flt = false /\
  lookup c_ratio wit_tab wit_flt 0 (-2 # 1) == 95 # 100 /\ lookup c_ratio wit_tab wit_flt 0 (2 # 1) == 105 # 100 /\
  lookup (col_vk 0) wit_tab wit_flt 0 (-2 # 1) == 11.
Proof. repeat split; vm_compute; reflexivity. Qed.
(* G31 is satisfiable with sharing (old partial theorem not vacuous) *)
Definition nv_flt : list frow :=
  [ {| f_id := Some 0%Z; f_pos := 2 # 1; f_mask := true |};
    {| f_id := Some 0%Z; f_pos := 2 # 1; f_mask := true |} ].
Lemma old_nonvacuous : G31 nv_flt = true /\ lookup_old c_ratio wit_tab nv_flt 0 == 105 # 100.
Proof. split; vm_compute; reflexivity. Qed.
