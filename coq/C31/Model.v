(* C31 — faithful model of the tabular tap dependency lookups of pandapower/build_branch.py
     _calc_tap_from_dataframe   (:571-730, the table part :617-672)
     _get_vk_values_from_table  (:738-790)
   as they are in /repo now (after the repair "key the lookup by (id, step)"): the characteristic-table rows are
   inner-merged with the masked transformers on (id_characteristic, step), then turned into a python dict keyed
   by the pair (id_characteristic, step) (dict(zip(keys, values)): a later entry overwrites an earlier one), then
   every masked transformer reads mapping.get((id, tap_pos), 1).
   The behaviour before the repair (dict keyed by id_characteristic ONLY) is kept as [lookup_old] so that its
   return is recognised (C31_old_lookup_refuted).  Executable definitions only. *)
From Coq Require Import ZArith QArith List Bool String.
From PPV Require Import Base.QN Base.Out.
Import ListNotations.
Open Scope Q_scope.

(* ---------------------------------------------------------------- tables *)
(* one row of net.trafo_characteristic_table; c_vk = the vk columns in the order of vk_variables
   (2W: vk_percent, vkr_percent; 3W: vk_hv, vkr_hv, vk_mv, vkr_mv, vk_lv, vkr_lv) *)
Record crow := { c_id : Z; c_step : Q; c_ratio : Q; c_angle : Q; c_vk : list Q }.

(* filter_df row: id_characteristic (None = NA), step = tap_pos, mask *)
Record frow := { f_id : option Z; f_pos : Q; f_mask : bool }.

Definition id_is (k : Z) (o : option Z) : bool := match o with Some i => Z.eqb i k | None => false end.

(* key equality of table.merge(filter_df[filter_df.mask], on=[id_characteristic, step]) *)
Definition key_match (r : crow) (t : frow) : bool :=
  f_mask t && id_is (c_id r) (f_id t) && qeqb (c_step r) (f_pos t).

(* inner merge: keeps the order of the left (table) keys; one copy of the left row per matching right row *)
Definition merged (tab : list crow) (flt : list frow) : list crow :=
  flat_map (fun r => map (fun _ => r) (filter (key_match r) flt)) tab.

(* dict(zip(keys, vals)).get(k): the LAST pair with key k wins *)
Definition dict_get {K V : Type} (eqb : K -> K -> bool) (k : K) (l : list (K * V)) : option V :=
  fold_left (fun acc kv => if eqb (fst kv) k then Some (snd kv) else acc) l None.
(* python tuple keys (id, step): ints compare as ints, floats by value *)
Definition key2_eqb (a b : Z * Q) : bool := Z.eqb (fst a) (fst b) && qeqb (snd a) (snd b).

(* table_keys = zip(filtered_df.id_characteristic, filtered_df.step); mapping = dict(zip(table_keys, filtered_df[col]));
   mapping.get((id, tap_pos), 1)        (build_branch.py:647-659 and :776-781) *)
Definition lookup (col : crow -> Q) (tab : list crow) (flt : list frow) (k : Z) (pos : Q) : Q :=
  match dict_get key2_eqb (k, pos) (map (fun r => ((c_id r, c_step r), col r)) (merged tab flt)) with
  | Some v => v
  | None => 1
  end.

(* before the repair: mapping = dict(zip(filtered_df.id_characteristic, filtered_df[col])); mapping.get(id, 1) *)
Definition lookup_old (col : crow -> Q) (tab : list crow) (flt : list frow) (k : Z) : Q :=
  match dict_get Z.eqb k (map (fun r => (c_id r, col r)) (merged tab flt)) with
  | Some v => v
  | None => 1
  end.

(* ---------------------------------------------------------------- spec side *)
(* the row the property speaks about: the one matching the transformer's own id AND its own tap position *)
Definition own_row (tab : list crow) (k : Z) (pos : Q) : option crow :=
  find (fun r => Z.eqb (c_id r) k && qeqb (c_step r) pos) tab.

(* table sanity: two rows with the same (id, step) carry the same value in column col *)
Definition tab_consistent (col : crow -> Q) (tab : list crow) : bool :=
  forallb (fun r1 => forallb (fun r2 =>
     implb (Z.eqb (c_id r1) (c_id r2) && qeqb (c_step r1) (c_step r2)) (qeqb (col r1) (col r2))) tab) tab.

(* G31 (guard of the pre-repair behaviour only): within one lookup group, transformers sharing an id sit at
   the same tap position *)
Definition same_id (a b : frow) : bool :=
  match f_id a, f_id b with Some i, Some j => Z.eqb i j | _, _ => false end.
Definition G31 (flt : list frow) : bool :=
  forallb (fun a => forallb (fun b =>
     implb (f_mask a && f_mask b && same_id a b) (qeqb (f_pos a) (f_pos b))) flt) flt.

(* ---------------------------------------------------------------- tap step of _calc_tap_from_dataframe *)
Inductive side := HV | LV | NoSide.            (* tap_side: "hv", "lv", anything else (None, NaN) *)
Definition side_eqb (a b : side) : bool :=
  match a, b with HV, HV => true | LV, LV => true | _, _ => false end.

(* one transformer row as seen by _calc_tap_from_dataframe (2W: net.trafo row; 3W: one of the three
   equivalent 2W transformers of _trafo_df_from_trafo3w) *)
Record trow := {
  t_dep : bool;            (* tap_dependency_table (NaN/None -> False, :619-621) *)
  t_id : option Z;         (* id_characteristic_table, None = NA *)
  t_pos : Q;               (* tap_pos *)
  t_side : side;           (* tap_side *)
  t_star : bool;           (* tap_at_star_point (3W only; false for 2W) *)
  t_vnh : Q; t_vnl : Q;    (* vn_hv_kv, vn_lv_kv *)
  t_shift : Q              (* shift_degree if calculate_voltage_angles else 0 (:595) *)
}.

Definition frows (s : side) (rows : list trow) : list frow :=
  map (fun t => {| f_id := t_id t; f_pos := t_pos t; f_mask := t_dep t && side_eqb (t_side t) s |}) rows.

(* :630 raise UserWarning when tap_dependency_table & isna(id) for any row (only if any(tap_table)) *)
Definition na_error (rows : list trow) : bool :=
  existsb (fun t => t_dep t && match t_id t with None => true | Some _ => false end) rows.

(* one pass of  for side, vn, direction in [("hv", vnh, 1), ("lv", vnl, -1)]  (:634-672) on row t *)
Definition apply_side (is3w : bool) (s : side) (tab : list crow) (rows : list trow) (t : trow) : trow :=
  if t_dep t && side_eqb (t_side t) s then
    match t_id t with
    | None => t
    | Some k =>
        let flt := frows s rows in
        let ratio0 := lookup c_ratio tab flt k (t_pos t) in
        let ang0 := lookup c_angle tab flt k (t_pos t) in
        let shift0 := match s with LV => qopp ang0 | _ => ang0 end in           (* :655-660 *)
        let ratio := if is3w && t_star t then qdiv 1 ratio0 else ratio0 in       (* :662-669 *)
        let shift := if is3w && t_star t then qopp shift0 else shift0 in
        {| t_dep := t_dep t; t_id := t_id t; t_pos := t_pos t; t_side := t_side t; t_star := t_star t;
           t_vnh := match s with HV => qmul (t_vnh t) ratio | _ => t_vnh t end;  (* :671 vn[mask] *= ratio *)
           t_vnl := match s with LV => qmul (t_vnl t) ratio | _ => t_vnl t end;
           t_shift := qadd (t_shift t) shift |}                                  (* :672 *)
    end
  else t.

Definition tap_table_step (is3w : bool) (tab : list crow) (rows : list trow) : list trow :=
  map (apply_side is3w LV tab rows) (map (apply_side is3w HV tab rows) rows).
(* note: the lookup groups are built from the *input* rows (tap_pos, ids and masks are not modified by the
   hv pass), the lv pass works on the vectors updated by the hv pass; a row is masked on at most one side *)

(* second tap changer (tap2_* columns, loop pass t = "2" of :600): there is no tap2_dependency_table column, so the pass is
   always the ordinary (non-tabular) tap computation on the vectors left by the first pass (:673-699).  Modelled for the
   rational cases: Ratio/Symmetrical with tap2_step_degree 0/NaN (vn = sqrt((u1+du)^2) = |u1+du|, no angle) and Ideal with
   tap2_step_degree set (shift += direction * diff * degree). *)
Record tap2 := { t2_side : side; t2_ideal : bool; t2_diff : Q; t2_pct : Q; t2_deg : Q }.
Definition qabs2 (x : Q) : Q := if qltb x 0 then qopp x else x.
Definition apply_tap2 (x : option tap2) (t : trow) : trow :=
  match x with
  | None => t
  | Some a =>
    match t2_side a with
    | NoSide => t
    | s =>
      let dir := match s with LV => (-1 # 1) | _ => 1 end in
      if t2_ideal a then
        {| t_dep := t_dep t; t_id := t_id t; t_pos := t_pos t; t_side := t_side t; t_star := t_star t;
           t_vnh := t_vnh t; t_vnl := t_vnl t;
           t_shift := qadd (t_shift t) (qmul (qmul dir (t2_diff a)) (t2_deg a)) |}
      else
        let f := fun u1 => qabs2 (qadd u1 (qmul u1 (qdiv (qmul (t2_pct a) (t2_diff a)) 100))) in
        {| t_dep := t_dep t; t_id := t_id t; t_pos := t_pos t; t_side := t_side t; t_star := t_star t;
           t_vnh := match s with HV => f (t_vnh t) | _ => t_vnh t end;
           t_vnl := match s with LV => f (t_vnl t) | _ => t_vnl t end;
           t_shift := t_shift t |}
    end
  end.
Fixpoint map2 {A B C} (f : A -> B -> C) (l : list A) (m : list B) : list C :=
  match l, m with a :: l', b :: m' => f a b :: map2 f l' m' | _, _ => [] end.

(* what "the same transformer with those values entered directly" gets: vn of the tap side times the given
   ratio, shift plus/minus the given angle (same conventions as above), no table involved *)
Definition explicit_step (is3w : bool) (ratio0 ang0 : Q) (t : trow) : trow :=
  match t_side t with
  | NoSide => t
  | s =>
    let shift0 := match s with LV => qopp ang0 | _ => ang0 end in
    let ratio := if is3w && t_star t then qdiv 1 ratio0 else ratio0 in
    let shift := if is3w && t_star t then qopp shift0 else shift0 in
    {| t_dep := t_dep t; t_id := t_id t; t_pos := t_pos t; t_side := t_side t; t_star := t_star t;
       t_vnh := match s with HV => qmul (t_vnh t) ratio | _ => t_vnh t end;
       t_vnl := match s with LV => qmul (t_vnl t) ratio | _ => t_vnl t end;
       t_shift := qadd (t_shift t) shift |}
  end.

(* ---------------------------------------------------------------- _get_vk_values_from_table *)
(* transformer row as seen by _get_vk_values_from_table: mask = tap_dependency_table (all sides) *)
Record vrow := { v_dep : bool; v_id : option Z; v_pos : Q; v_vk : list Q }.   (* v_vk: own vk columns *)

Definition vfrows (rows : list vrow) : list frow :=
  map (fun t => {| f_id := v_id t; f_pos := v_pos t; f_mask := v_dep t |}) rows.
Definition vk_na_error (rows : list vrow) : bool :=
  existsb (fun t => v_dep t && match v_id t with None => true | Some _ => false end) rows.

Fixpoint mapi_aux {A B} (f : nat -> A -> B) (i : nat) (l : list A) : list B :=
  match l with [] => [] | a :: l' => f i a :: mapi_aux f (S i) l' end.
Definition col_vk (j : nat) (r : crow) : Q := nth j (c_vk r) 0.

(* vk_value = copy; vk_value[mask] = [vk_mapping.get((id, tap_pos), 1) ...]  for every vk variable j (:757-786) *)
Definition vk_values (tab : list crow) (rows : list vrow) (t : vrow) : list Q :=
  if v_dep t then
    match v_id t with
    | None => v_vk t
    | Some k => mapi_aux (fun j _ => lookup (col_vk j) tab (vfrows rows) k (v_pos t)) 0 (v_vk t)
    end
  else v_vk t.

(* ---------------------------------------------------------------- run wrappers *)
Definition otrow (t : trow) : out := OL [oq (t_vnh t); oq (t_vnl t); oq (t_shift t)].
Definition run_tap (is3w : bool) (tab : list crow) (rows : list trow) : out :=
  if existsb t_dep rows then
    if na_error rows then OErr "UserWarning" else olist otrow (tap_table_step is3w tab rows)
  else olist otrow rows.
(* 2W frame with tap2_* columns: table step of the first tap changer, then the ordinary second tap changer *)
Definition run_tap_2 (tab : list crow) (rows : list trow) (taps2 : list (option tap2)) : out :=
  let r1 := if existsb t_dep rows then tap_table_step false tab rows else rows in
  if existsb t_dep rows && na_error rows then OErr "UserWarning"
  else olist otrow (map2 apply_tap2 taps2 r1).
Definition run_vk (tab : list crow) (rows : list vrow) : out :=
  if existsb v_dep rows then
    if vk_na_error rows then OErr "UserWarning" else olist (fun t => olist oq (vk_values tab rows t)) rows
  else olist (fun t => olist oq (v_vk t)) rows.
(* pre-repair lookup, for the regression witness replayed by the harness *)
Definition run_old (tab : list crow) (flt : list frow) (k : Z) : out :=
  OL [oq (lookup_old c_ratio tab flt k); oq (lookup_old (col_vk 0) tab flt k)].
(* the value the spec demands, for the harness' cross-check of its own python spec *)
Definition run_own (tab : list crow) (k : Z) (pos : Q) : out :=
  match own_row tab k pos with
  | Some r => OL [oq (c_ratio r); oq (c_angle r); olist oq (c_vk r)]
  | None => ONone
  end.
