(* Complex numbers over Q with normalising operations (see Base/QN.v).
   Equality is component-wise Qeq ([Ceq], notation ==c).  [csimp] turns a complex identity into two
   rational goals with the QN operations rewritten away, ready for ring/field/lra/nra. *)
From Coq Require Import ZArith QArith Lqa Setoid Morphisms.
From PPV Require Import Base.QN.
Open Scope Q_scope.

Record C : Type := mkC { re : Q; im : Q }.
Definition Ceq (a b : C) : Prop := re a == re b /\ im a == im b.
Infix "==c" := Ceq (at level 70, no associativity).

Definition C0 : C := mkC 0 0.
Definition C1 : C := mkC 1 0.
Definition Cj : C := mkC 0 1.
Definition CofQ (x : Q) : C := mkC x 0.
Definition Cadd (a b : C) : C := mkC (qadd (re a) (re b)) (qadd (im a) (im b)).
Definition Csub (a b : C) : C := mkC (qsub (re a) (re b)) (qsub (im a) (im b)).
Definition Copp (a : C) : C := mkC (qopp (re a)) (qopp (im a)).
Definition Cmul (a b : C) : C :=
  mkC (qsub (qmul (re a) (re b)) (qmul (im a) (im b))) (qadd (qmul (re a) (im b)) (qmul (im a) (re b))).
Definition Cconj (a : C) : C := mkC (re a) (qopp (im a)).
Definition Cscale (k : Q) (a : C) : C := mkC (qmul k (re a)) (qmul k (im a)).
Definition cnorm2 (a : C) : Q := qadd (qmul (re a) (re a)) (qmul (im a) (im a)).
(* 1/a ; for a = 0 this is 0 (Qinv 0 = 0): every theorem using it carries cnorm2 a <> 0 *)
Definition Cinv (a : C) : C := let n := cnorm2 a in mkC (qdiv (re a) n) (qopp (qdiv (im a) n)).
Definition Cdiv (a b : C) : C := Cmul a (Cinv b).
Definition Csum (l : list C) : C := List.fold_right Cadd C0 l.

Global Instance Ceq_equiv : Equivalence Ceq.
Proof.
  split.
  - intros a; split; reflexivity.
  - intros a b [H1 H2]; split; symmetry; assumption.
  - intros a b c [H1 H2] [H3 H4]; split; etransitivity; eassumption.
Qed.

Ltac csimp :=
  unfold Ceq, Cdiv, Cinv, Cmul, Cadd, Csub, Copp, Cconj, Cscale, cnorm2, CofQ, C0, C1, Cj in *;
  cbn [re im] in *; qnorm.

Global Instance Cadd_proper : Proper (Ceq ==> Ceq ==> Ceq) Cadd.
Proof. intros a b [H1 H2] c d [H3 H4]. csimp. split; [rewrite H1, H3 | rewrite H2, H4]; reflexivity. Qed.
Global Instance Csub_proper : Proper (Ceq ==> Ceq ==> Ceq) Csub.
Proof. intros a b [H1 H2] c d [H3 H4]. csimp. split; [rewrite H1, H3 | rewrite H2, H4]; reflexivity. Qed.
Global Instance Cmul_proper : Proper (Ceq ==> Ceq ==> Ceq) Cmul.
Proof. intros a b [H1 H2] c d [H3 H4]. csimp. split; rewrite H1, H2, H3, H4; reflexivity. Qed.
Global Instance Cconj_proper : Proper (Ceq ==> Ceq) Cconj.
Proof. intros a b [H1 H2]. csimp. split; [rewrite H1 | rewrite H2]; reflexivity. Qed.
Global Instance Copp_proper : Proper (Ceq ==> Ceq) Copp.
Proof. intros a b [H1 H2]. csimp. split; [rewrite H1 | rewrite H2]; reflexivity. Qed.
Global Instance Cscale_proper : Proper (Qeq ==> Ceq ==> Ceq) Cscale.
Proof. intros k k' Hk a b [H1 H2]. csimp. split; rewrite Hk; [rewrite H1 | rewrite H2]; reflexivity. Qed.

Lemma Cmul_comm a b : Cmul a b ==c Cmul b a. Proof. csimp. split; ring. Qed.
Lemma Cmul_assoc a b c : Cmul a (Cmul b c) ==c Cmul (Cmul a b) c. Proof. csimp. split; ring. Qed.
Lemma Cadd_comm a b : Cadd a b ==c Cadd b a. Proof. csimp. split; ring. Qed.
Lemma Cadd_assoc a b c : Cadd a (Cadd b c) ==c Cadd (Cadd a b) c. Proof. csimp. split; ring. Qed.
Lemma Cmul_add_distr a b c : Cmul a (Cadd b c) ==c Cadd (Cmul a b) (Cmul a c). Proof. csimp. split; ring. Qed.
Lemma Cconj_mul a b : Cconj (Cmul a b) ==c Cmul (Cconj a) (Cconj b). Proof. csimp. split; ring. Qed.
Lemma Cconj_add a b : Cconj (Cadd a b) ==c Cadd (Cconj a) (Cconj b). Proof. csimp. split; ring. Qed.
Lemma Cadd_0_l a : Cadd C0 a ==c a. Proof. csimp. split; ring. Qed.
Lemma Cadd_0_r a : Cadd a C0 ==c a. Proof. csimp. split; ring. Qed.
Lemma Cmul_1_l a : Cmul C1 a ==c a. Proof. csimp. split; ring. Qed.
Lemma Cinv_r a : ~ re a * re a + im a * im a == 0 -> Cmul a (Cinv a) ==c C1.
Proof. intros H. csimp. split; field; exact H. Qed.
Lemma cnorm2_nonneg a : 0 <= cnorm2 a. Proof. csimp. nra. Qed.

(* output helper *)
From PPV Require Import Base.Out.
Definition oc (a : C) : out := OL (oq (re a) :: oq (im a) :: nil).
