(* Uniform output type of every Run function: printed by [Eval vm_compute] and parsed by
   harness/vf/coqrun.py.  No proofs here. *)
From Coq Require Import ZArith QArith List String.
Import ListNotations.

Inductive out : Type :=
| OZ (z : Z)
| OQ (n d : Z)            (* rational n/d, d > 0 *)
| OB (b : bool)
| ONone                   (* NaN / None / absent *)
| OS (s : string)
| OErr (s : string)       (* the impl raises here; s = error class *)
| OL (l : list out).

Definition oq (q : Q) : out := let r := Qred q in OQ (Qnum r) (Zpos (Qden r)).
Definition ooq (q : option Q) : out := match q with Some x => oq x | None => ONone end.
Definition onat (n : nat) : out := OZ (Z.of_nat n).
Definition oopt {A} (f : A -> out) (o : option A) : out := match o with Some x => f x | None => ONone end.
Definition olist {A} (f : A -> out) (l : list A) : out := OL (map f l).
Definition opair {A B} (f : A -> out) (g : B -> out) (p : A * B) : out := OL [f (fst p); g (snd p)].
