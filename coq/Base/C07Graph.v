(* Base/C07Graph.v — finite directed graphs as arc lists over a type with decidable equality:
   an executable fuelled reachability (label-propagation rounds until nothing changes) proved equal
   to the reflexive-transitive closure of the arc relation, undirected graphs as symmetric closures,
   connected components, and a verified shortest-path relaxation (Bellman-Ford rounds with a
   stability check).  Used by C07 (supply connectivity), C26 (topology graphs), C05 (bus fusing),
   C06 (BIBC trees). *)
From Coq Require Import List Bool Arith Lia Relations QArith.
Import ListNotations.
Local Open Scope nat_scope.

Section Graph.
Variable A : Type.
Variable eq_dec : forall x y : A, {x = y} + {x <> y}.

Definition mem (x : A) (l : list A) : bool := if in_dec eq_dec x l then true else false.
Lemma mem_In x l : mem x l = true <-> In x l.
Proof. unfold mem. destruct (in_dec eq_dec x l); split; intros; auto; discriminate. Qed.
Lemma mem_nIn x l : mem x l = false <-> ~ In x l.
Proof. unfold mem. destruct (in_dec eq_dec x l); split; intros; auto; try discriminate. contradiction. Qed.

Definition add (x : A) (l : list A) : list A := if mem x l then l else x :: l.
Lemma add_In x y l : In y (add x l) <-> y = x \/ In y l.
Proof.
  unfold add. destruct (mem x l) eqn:E.
  - apply mem_In in E. split; intros; auto. destruct H; subst; auto.
  - simpl. split; intros [H|H]; subst; auto.
Qed.
Lemma add_NoDup x l : NoDup l -> NoDup (add x l).
Proof. unfold add. destruct (mem x l) eqn:E; auto. intros. constructor; auto. now apply mem_nIn. Qed.
Lemma add_shape x l : add x l = l \/ (add x l = x :: l /\ ~ In x l).
Proof. unfold add. destruct (mem x l) eqn:E; auto. right. split; auto. now apply mem_nIn. Qed.

Definition dedup (l : list A) : list A := fold_right add [] l.
Lemma dedup_In x l : In x (dedup l) <-> In x l.
Proof. induction l; simpl; [tauto|]. rewrite add_In, IHl. split; intros [H|H]; subst; auto. Qed.
Lemma dedup_NoDup l : NoDup (dedup l).
Proof. induction l; simpl; [constructor|]. now apply add_NoDup. Qed.

(* ------------------------------------------------------------------ arcs and paths *)
Definition arcs := list (A * A).
Definition step (g : arcs) (u v : A) : Prop := In (u, v) g.
Definition path (g : arcs) : A -> A -> Prop := clos_refl_trans A (step g).
Definition reach_from (g : arcs) (S : list A) (v : A) : Prop := exists s, In s S /\ path g s v.

Lemma path_refl g u : path g u u. Proof. apply rt_refl. Qed.
Lemma path_step g u v : In (u, v) g -> path g u v. Proof. intros; now apply rt_step. Qed.
Lemma path_trans g u v w : path g u v -> path g v w -> path g u w.
Proof. intros; eapply rt_trans; eauto. Qed.
Lemma path_mono g g' u v : incl g g' -> path g u v -> path g' u v.
Proof. intros I H. induction H; [apply rt_step; now apply I|apply rt_refl|eapply rt_trans; eauto]. Qed.

(* a set closed under the arcs contains everything reachable from its members *)
Lemma closed_contains_reach g (P : A -> Prop) :
  (forall u v, In (u, v) g -> P u -> P v) -> forall u v, path g u v -> P u -> P v.
Proof. intros C u v H. induction H; eauto. Qed.

(* ------------------------------------------------------------------ executable reachability *)
Definition relax (vis : list A) (e : A * A) : list A := if mem (fst e) vis then add (snd e) vis else vis.
Definition round (g : arcs) (vis : list A) : list A := fold_left relax g vis.
Fixpoint iter (fuel : nat) (g : arcs) (vis : list A) : list A :=
  match fuel with
  | O => vis
  | S f => let vis' := round g vis in if Nat.eqb (length vis') (length vis) then vis else iter f g vis'
  end.
Definition nodes_of (g : arcs) : list A := flat_map (fun e => [fst e; snd e]) g.
Definition reach (g : arcs) (S : list A) : list A := iter (1 + length (nodes_of g ++ S)) g (dedup S).

Lemma relax_shape vis e : relax vis e = vis \/ (relax vis e = snd e :: vis /\ ~ In (snd e) vis /\ In (fst e) vis).
Proof.
  unfold relax. destruct (mem (fst e) vis) eqn:E; auto.
  destruct (add_shape (snd e) vis) as [H|[H H']]; auto. right. repeat split; auto. now apply mem_In.
Qed.
Lemma relax_incl vis e : incl vis (relax vis e).
Proof. destruct (relax_shape vis e) as [H|[H _]]; rewrite H; [apply incl_refl|apply incl_tl, incl_refl]. Qed.
Lemma relax_NoDup vis e : NoDup vis -> NoDup (relax vis e).
Proof. intros. destruct (relax_shape vis e) as [H'|[H' [N _]]]; rewrite H'; auto. now constructor. Qed.
Lemma relax_len vis e : length vis <= length (relax vis e).
Proof. destruct (relax_shape vis e) as [H|[H _]]; rewrite H; simpl; lia. Qed.

Lemma round_incl g vis : incl vis (round g vis).
Proof.
  revert vis. induction g; simpl; intros; [apply incl_refl|].
  eapply incl_tran; [apply relax_incl|apply IHg].
Qed.
Lemma round_NoDup g vis : NoDup vis -> NoDup (round g vis).
Proof. revert vis. induction g; simpl; intros; auto. apply IHg. now apply relax_NoDup. Qed.
Lemma round_len g vis : length vis <= length (round g vis).
Proof. revert vis. induction g; simpl; intros; auto. eapply Nat.le_trans; [apply relax_len|apply IHg]. Qed.

(* if a round does not change the number of labelled nodes, the set is closed under all arcs *)
Lemma round_same_closed g vis :
  length (round g vis) = length vis -> forall u v, In (u, v) g -> In u vis -> In v vis.
Proof.
  revert vis. induction g as [|e g IH]; simpl; intros vis L u v I U; [contradiction|].
  assert (Lr : length (relax vis e) = length vis).
  { pose proof (round_len g (relax vis e)). pose proof (relax_len vis e). lia. }
  assert (Er : relax vis e = vis).
  { destruct (relax_shape vis e) as [H|[H _]]; auto. rewrite H in Lr. simpl in Lr. lia. }
  destruct I as [->|I].
  - unfold relax in Er. simpl in Er. assert (M : mem u vis = true) by now apply mem_In.
    rewrite M in Er. rewrite <- Er. apply add_In. now left.
  - rewrite Er in L. eapply IH; eauto.
Qed.

Lemma round_sound g g' (P : A -> Prop) vis :
  incl g g' -> (forall u v, In (u, v) g' -> P u -> P v) ->
  (forall x, In x vis -> P x) -> forall x, In x (round g vis) -> P x.
Proof.
  revert vis. induction g as [|e g IH]; simpl; intros vis I C H x X; auto.
  apply (IH (relax vis e)); auto.
  - intros y Y; apply I; now right.
  - intros y Y. destruct (relax_shape vis e) as [E|[E [_ F]]]; rewrite E in Y; auto.
    destruct Y as [<-|Y]; auto. apply (C (fst e) (snd e)); auto. apply I. left. now destruct e.
Qed.

Lemma round_in_universe g U vis :
  (forall e, In e g -> In (snd e) U) -> incl vis U -> incl (round g vis) U.
Proof.
  revert vis. induction g as [|e g IH]; simpl; intros vis G I; auto.
  apply IH; auto. intros x X. destruct (relax_shape vis e) as [E|[E _]]; rewrite E in X; auto.
  destruct X as [<-|X]; auto.
Qed.

Lemma iter_incl fuel g vis : incl vis (iter fuel g vis).
Proof.
  revert vis. induction fuel; simpl; intros; [apply incl_refl|].
  destruct (Nat.eqb _ _); [apply incl_refl|]. eapply incl_tran; [apply round_incl|apply IHfuel].
Qed.

Lemma iter_sound fuel g (P : A -> Prop) vis :
  (forall u v, In (u, v) g -> P u -> P v) ->
  (forall x, In x vis -> P x) -> forall x, In x (iter fuel g vis) -> P x.
Proof.
  revert vis. induction fuel; simpl; intros vis C H x X; auto.
  destruct (Nat.eqb _ _); auto. apply (IHfuel (round g vis)); auto.
  intros y Y. apply (round_sound g g P vis); auto. apply incl_refl.
Qed.

(* enough fuel: the result is closed under the arcs *)
Lemma iter_closed fuel g U vis :
  (forall e, In e g -> In (snd e) U) -> NoDup vis -> incl vis U -> length U < fuel + length vis ->
  forall u v, In (u, v) g -> In u (iter fuel g vis) -> In v (iter fuel g vis).
Proof.
  revert vis. induction fuel; simpl; intros vis G N I L u v E X.
  - pose proof (NoDup_incl_length N I). lia.
  - destruct (Nat.eqb (length (round g vis)) (length vis)) eqn:Q.
    + apply Nat.eqb_eq in Q. eapply round_same_closed; eauto.
    + apply Nat.eqb_neq in Q. pose proof (round_len g vis).
      eapply IHfuel; eauto.
      * now apply round_NoDup.
      * now apply round_in_universe.
      * lia.
Qed.

Theorem reach_iff g S v : In v (reach g S) <-> reach_from g S v.
Proof.
  unfold reach. split.
  - intros H. revert H. apply (iter_sound _ g (reach_from g S)).
    + intros u w E [s [Hs P]]. exists s; split; auto. eapply path_trans; eauto. now apply path_step.
    + intros x X. rewrite dedup_In in X. exists x; split; auto. apply path_refl.
  - intros [s [Hs P]].
    set (R := iter (1 + length (nodes_of g ++ S)) g (dedup S)).
    assert (C : forall u w, In (u, w) g -> In u R -> In w R).
    { apply iter_closed with (U := nodes_of g ++ S).
      - intros e E. apply in_or_app. left. unfold nodes_of. apply in_flat_map. exists e. simpl; auto.
      - apply dedup_NoDup.
      - intros x X. rewrite dedup_In in X. apply in_or_app; now right.
      - simpl. lia. }
    apply (closed_contains_reach g (fun x => In x R) C s v P).
    apply iter_incl. now apply dedup_In.
Qed.

Lemma reach_NoDup g S : NoDup (reach g S).
Proof.
  unfold reach. generalize (1 + length (nodes_of g ++ S)). intros n.
  assert (H : NoDup (dedup S)) by apply dedup_NoDup. revert H. generalize (dedup S).
  induction n; simpl; intros l H; auto. destruct (Nat.eqb _ _); auto. apply IHn. now apply round_NoDup.
Qed.

(* ------------------------------------------------------------------ undirected graphs *)
Definition swap (e : A * A) : A * A := (snd e, fst e).
Definition sym (g : arcs) : arcs := g ++ map swap g.
Definition upath (g : arcs) : A -> A -> Prop := path (sym g).

Lemma sym_In g u v : In (u, v) (sym g) <-> In (u, v) g \/ In (v, u) g.
Proof.
  unfold sym. rewrite in_app_iff, in_map_iff. split; intros [H|H]; auto.
  - destruct H as [[a b] [E I]]. unfold swap in E. simpl in E. inversion E; subst. now right.
  - right. exists (v, u). split; auto.
Qed.
Lemma sym_swap g u v : In (u, v) (sym g) -> In (v, u) (sym g).
Proof. rewrite !sym_In. tauto. Qed.
Lemma upath_sym g u v : upath g u v -> upath g v u.
Proof.
  unfold upath. intros H. induction H.
  - apply rt_step. now apply sym_swap.
  - apply rt_refl.
  - eapply rt_trans; eauto.
Qed.
Lemma upath_refl g u : upath g u u. Proof. apply rt_refl. Qed.
Lemma upath_trans g u v w : upath g u v -> upath g v w -> upath g u w.
Proof. apply path_trans. Qed.
Lemma upath_edge g u v : In (u, v) g -> upath g u v.
Proof. intros. apply rt_step. apply sym_In. now left. Qed.
Lemma upath_mono g g' u v : incl g g' -> upath g u v -> upath g' u v.
Proof.
  intros I. apply path_mono. intros [a b] H. apply sym_In in H. apply sym_In.
  destruct H; [left|right]; now apply I.
Qed.

(* a predicate preserved along every edge in both directions is constant on undirected paths *)
Lemma upath_invariant g (P : A -> Prop) :
  (forall u v, In (u, v) g -> (P u <-> P v)) -> forall u v, upath g u v -> P u -> P v.
Proof.
  intros C u v H. apply (closed_contains_reach (sym g) P); auto.
  intros a b E. apply sym_In in E. destruct E as [E|E]; apply C in E; tauto.
Qed.

(* image of an undirected path under a node map *)
Lemma upath_map B (f : A -> B) (g : arcs) (R : B -> B -> Prop) :
  (forall x, R x x) -> (forall x y z, R x y -> R y z -> R x z) -> (forall x y, R x y -> R y x) ->
  (forall u v, In (u, v) g -> R (f u) (f v)) -> forall u v, upath g u v -> R (f u) (f v).
Proof.
  intros Rr Rt Rs E u v H. induction H; eauto.
  apply sym_In in H. destruct H as [H|H]; auto.
Qed.

(* ------------------------------------------------------------------ connected components *)
Definition component (g : arcs) (x : A) : list A := reach (sym g) [x].
Lemma component_iff g x y : In y (component g x) <-> upath g x y.
Proof.
  unfold component. rewrite reach_iff. split.
  - intros [s [[<-|[]] P]]. exact P.
  - intros P. exists x. split; simpl; auto.
Qed.

Fixpoint comps_aux (g : arcs) (todo : list A) (acc : list (list A)) : list (list A) :=
  match todo with
  | [] => acc
  | x :: t => if existsb (mem x) acc then comps_aux g t acc else comps_aux g t (acc ++ [component g x])
  end.
Definition components (g : arcs) (V : list A) : list (list A) := comps_aux g V [].

Definition is_class g (V : list A) (c : list A) : Prop := exists x, In x V /\ forall y, In y c <-> upath g x y.

Lemma comps_aux_spec g V todo acc :
  incl todo V -> (forall c, In c acc -> is_class g V c) ->
  forall c, In c (comps_aux g todo acc) -> is_class g V c.
Proof.
  revert acc. induction todo as [|x t IH]; simpl; intros acc I H c C; auto.
  destruct (existsb (mem x) acc).
  - eapply IH; eauto. intros y Y; apply I; now right.
  - eapply IH; [| |exact C]. { intros y Y; apply I; now right. }
    intros c' C'. apply in_app_or in C'. destruct C' as [C'|[<-|[]]]; auto.
    exists x. split; [apply I; now left|]. intros y. apply component_iff.
Qed.
Lemma comps_aux_keeps g todo acc c : In c acc -> In c (comps_aux g todo acc).
Proof.
  revert acc. induction todo as [|x t IH]; simpl; intros acc H; auto.
  destruct (existsb (mem x) acc); apply IH; auto. apply in_or_app; now left.
Qed.
Lemma comps_aux_cover g todo acc x :
  In x todo -> exists c, In c (comps_aux g todo acc) /\ In x c.
Proof.
  revert acc. induction todo as [|a t IH]; simpl; intros acc H; [contradiction|].
  destruct H as [->|H].
  - destruct (existsb (mem x) acc) eqn:E.
    + apply existsb_exists in E. destruct E as [c [C M]]. exists c. split.
      * now apply comps_aux_keeps.
      * now apply mem_In.
    + exists (component g x). split.
      * apply comps_aux_keeps. apply in_or_app. right. now left.
      * apply component_iff, upath_refl.
  - destruct (existsb (mem a) acc); now apply IH.
Qed.

(* pairwise disjointness, as positions in the list *)
Definition disjoint (c d : list A) : Prop := forall y, In y c -> In y d -> False.
Inductive pairwise_disjoint : list (list A) -> Prop :=
| pd_nil : pairwise_disjoint []
| pd_cons c l : (forall d, In d l -> disjoint c d) -> pairwise_disjoint l -> pairwise_disjoint (c :: l).
Lemma pd_snoc l c : pairwise_disjoint l -> (forall d, In d l -> disjoint d c) -> pairwise_disjoint (l ++ [c]).
Proof.
  induction 1; simpl; intros D.
  - constructor; [intros ? []|constructor].
  - constructor.
    + intros d I. apply in_app_or in I. destruct I as [I|[<-|[]]]; auto; try (apply D; now left).
    + apply IHpairwise_disjoint. intros d I. apply D. now right.
Qed.

(* the component list of a node set is a partition of it into undirected-path classes *)
Theorem components_class g V c : In c (components g V) -> is_class g V c.
Proof. apply comps_aux_spec; [apply incl_refl|intros ? []]. Qed.
Theorem components_cover g V x : In x V -> exists c, In c (components g V) /\ In x c.
Proof. apply comps_aux_cover. Qed.
Theorem components_disjoint g V : pairwise_disjoint (components g V).
Proof.
  unfold components.
  assert (H : forall todo acc, (forall c, In c acc -> exists z, forall y, In y c <-> upath g z y) ->
            pairwise_disjoint acc -> pairwise_disjoint (comps_aux g todo acc)).
  { induction todo as [|x t IH]; simpl; intros acc H P; auto.
    destruct (existsb (mem x) acc) eqn:E; [now apply IH|].
    apply IH.
    - intros c C. apply in_app_or in C. destruct C as [C|[<-|[]]]; auto.
      exists x. intros y. apply component_iff.
    - apply pd_snoc; auto. intros d D y Yd Yc.
      destruct (H d D) as [z Z]. apply Z in Yd. apply component_iff in Yc.
      assert (In x d). { apply Z. eapply upath_trans; [exact Yd|]. now apply upath_sym. }
      assert (existsb (mem x) acc = true). { apply existsb_exists. exists d. split; auto. now apply mem_In. }
      congruence. }
  apply H; [intros ? []|constructor].
Qed.

End Graph.

Arguments mem {A} eq_dec x l.
Arguments add {A} eq_dec x l.
Arguments dedup {A} eq_dec l.
Arguments step {A} g u v.
Arguments path {A} g _ _.
Arguments reach_from {A} g S v.
Arguments reach {A} eq_dec g S.
Arguments sym {A} g.
Arguments swap {A} e.
Arguments upath {A} g _ _.
Arguments component {A} eq_dec g x.
Arguments components {A} eq_dec g V.
Arguments is_class {A} g V c.
Arguments pairwise_disjoint {A} _.
Arguments disjoint {A} c d.
Arguments nodes_of {A} g.

(* ------------------------------------------------------------------ components for any class function *)
Section GenComps.
Variable A : Type.
Variable eq_dec : forall x y : A, {x = y} + {x <> y}.
Variable comp : A -> list A.
Variable R : A -> A -> Prop.
Hypothesis comp_iff : forall x y, In y (comp x) <-> R x y.
Hypothesis Rrefl : forall x, R x x.
Hypothesis Rsym : forall x y, R x y -> R y x.
Hypothesis Rtrans : forall x y z, R x y -> R y z -> R x z.

Fixpoint gcomps (todo : list A) (acc : list (list A)) : list (list A) :=
  match todo with
  | [] => acc
  | x :: t => if existsb (mem eq_dec x) acc then gcomps t acc else gcomps t (acc ++ [comp x])
  end.

Definition gclass (V : list A) (c : list A) : Prop := exists x, In x V /\ forall y, In y c <-> R x y.

Lemma gcomps_keeps todo acc c : In c acc -> In c (gcomps todo acc).
Proof.
  revert acc. induction todo as [|x t IH]; simpl; intros acc H; auto.
  destruct (existsb (mem eq_dec x) acc); apply IH; auto. apply in_or_app; now left.
Qed.
Lemma gcomps_class V todo acc :
  incl todo V -> (forall c, In c acc -> gclass V c) -> forall c, In c (gcomps todo acc) -> gclass V c.
Proof.
  revert acc. induction todo as [|x t IH]; simpl; intros acc I H c C; auto.
  destruct (existsb (mem eq_dec x) acc).
  - eapply IH; eauto. intros y Y; apply I; now right.
  - eapply IH; [| |exact C]. { intros y Y; apply I; now right. }
    intros c' C'. apply in_app_or in C'. destruct C' as [C'|[<-|[]]]; auto.
    exists x. split; [apply I; now left|]. intros y. apply comp_iff.
Qed.
Lemma gcomps_cover todo acc x : In x todo -> exists c, In c (gcomps todo acc) /\ In x c.
Proof.
  revert acc. induction todo as [|a t IH]; simpl; intros acc H; [contradiction|].
  destruct H as [->|H].
  - destruct (existsb (mem eq_dec x) acc) eqn:E.
    + apply existsb_exists in E. destruct E as [c [C M]]. exists c. split.
      * now apply gcomps_keeps.
      * now apply (mem_In A eq_dec).
    + exists (comp x). split.
      * apply gcomps_keeps. apply in_or_app. right. now left.
      * apply comp_iff, Rrefl.
  - destruct (existsb (mem eq_dec a) acc); now apply IH.
Qed.
Lemma gcomps_disjoint todo acc :
  (forall c, In c acc -> exists z, forall y, In y c <-> R z y) ->
  pairwise_disjoint acc -> pairwise_disjoint (gcomps todo acc).
Proof.
  revert acc. induction todo as [|x t IH]; simpl; intros acc H P; auto.
  destruct (existsb (mem eq_dec x) acc) eqn:E; [now apply IH|].
  apply IH.
  - intros c C. apply in_app_or in C. destruct C as [C|[<-|[]]]; auto.
    exists x. intros y. apply comp_iff.
  - apply pd_snoc; auto. intros d Dd y Yd Yc.
    destruct (H d Dd) as [z Z]. apply Z in Yd. apply comp_iff in Yc.
    assert (In x d). { apply Z. eapply Rtrans; [exact Yd|]. now apply Rsym. }
    assert (existsb (mem eq_dec x) acc = true). { apply existsb_exists. exists d. split; auto. now apply (mem_In A eq_dec). }
    congruence.
Qed.
End GenComps.
Arguments gcomps {A} eq_dec comp todo acc.
Arguments gclass {A} R V c.
