(* C11K — the number field Q(sqrt 3, j): exact home of the symmetrical-component operator a = exp(j*120deg).
   An element k1 + ks*sqrt3 + kj*j + ksj*sqrt3*j is a record of four rationals (normalising operations of Base/QN).
   Equality is component-wise Qeq ([Keq], notation ==k); [ksimp] unfolds everything into four rational goals.
   No axioms, no oracle: sqrt 3 is symbolic (s*s = 3), so a*a + a + 1 = 0 holds exactly and is PROVED. *)
From Coq Require Import ZArith QArith Lqa Setoid Morphisms List.
From PPV Require Import Base.QN Base.QC Base.Out.
Open Scope Q_scope.

Record K : Type := mkK { k1 : Q; ks : Q; kj : Q; ksj : Q }.
Definition Keq (x y : K) : Prop := k1 x == k1 y /\ ks x == ks y /\ kj x == kj y /\ ksj x == ksj y.
Infix "==k" := Keq (at level 70, no associativity).

Definition K0 : K := mkK 0 0 0 0.
Definition K1 : K := mkK 1 0 0 0.
Definition KofQ (q : Q) : K := mkK q 0 0 0.
Definition KofC (c : C) : K := mkK (re c) 0 (im c) 0.          (* a float complex number *)
Definition Ksqrt3 : K := mkK 0 1 0 0.
Definition Kinvsqrt3 : K := mkK 0 (1 # 3) 0 0.                (* 1/sqrt3 = sqrt3/3 *)
Definition Kadd (x y : K) : K := mkK (qadd (k1 x) (k1 y)) (qadd (ks x) (ks y)) (qadd (kj x) (kj y)) (qadd (ksj x) (ksj y)).
Definition Ksub (x y : K) : K := mkK (qsub (k1 x) (k1 y)) (qsub (ks x) (ks y)) (qsub (kj x) (kj y)) (qsub (ksj x) (ksj y)).
Definition Kscale (q : Q) (x : K) : K := mkK (qmul q (k1 x)) (qmul q (ks x)) (qmul q (kj x)) (qmul q (ksj x)).
(* s*s = 3, j*j = -1 *)
Definition Kmul (x y : K) : K :=
  mkK (qsub (qadd (qmul (k1 x) (k1 y)) (qmul 3 (qmul (ks x) (ks y)))) (qadd (qmul (kj x) (kj y)) (qmul 3 (qmul (ksj x) (ksj y)))))
      (qsub (qadd (qmul (k1 x) (ks y)) (qmul (ks x) (k1 y))) (qadd (qmul (kj x) (ksj y)) (qmul (ksj x) (kj y))))
      (qadd (qadd (qmul (k1 x) (kj y)) (qmul (kj x) (k1 y))) (qmul 3 (qadd (qmul (ks x) (ksj y)) (qmul (ksj x) (ks y)))))
      (qadd (qadd (qmul (k1 x) (ksj y)) (qmul (ksj x) (k1 y))) (qadd (qmul (ks x) (kj y)) (qmul (kj x) (ks y)))).
(* complex conjugation j -> -j *)
Definition Kconj (x : K) : K := mkK (k1 x) (ks x) (qopp (kj x)) (qopp (ksj x)).
(* real and imaginary parts as elements p + q*sqrt3 of Q(sqrt3) *)
Definition Kre (x : K) : Q * Q := (k1 x, ks x).
Definition Kim (x : K) : Q * Q := (kj x, ksj x).
(* |x|^2 = x * conj x, an element of Q(sqrt3) *)
Definition Knorm2 (x : K) : K := Kmul x (Kconj x).

(* a = exp(j*120deg) = -1/2 + j*sqrt3/2 ; asq = exp(-j*120deg) *)
Definition Ka : K := mkK (-1 # 2) 0 0 (1 # 2).
Definition Kasq : K := mkK (-1 # 2) 0 0 (-1 # 2).

Global Instance Keq_equiv : Equivalence Keq.
Proof.
  split.
  - intros x; repeat split; reflexivity.
  - intros x y (A & B & C & D); repeat split; symmetry; assumption.
  - intros x y z (A & B & C & D) (A' & B' & C' & D'); repeat split; etransitivity; eassumption.
Qed.

Ltac ksimp :=
  unfold Keq, Knorm2, Kmul, Kadd, Ksub, Kscale, Kconj, KofQ, KofC, K0, K1, Ka, Kasq, Ksqrt3, Kinvsqrt3 in *;
  cbn [k1 ks kj ksj re im] in *; qnorm.
Ltac kring := ksimp; repeat split; ring.

Global Instance Kadd_proper : Proper (Keq ==> Keq ==> Keq) Kadd.
Proof. intros x y (A & B & C & D) u v (A' & B' & C' & D'). ksimp. rewrite A, B, C, D, A', B', C', D'. repeat split; reflexivity. Qed.
Global Instance Ksub_proper : Proper (Keq ==> Keq ==> Keq) Ksub.
Proof. intros x y (A & B & C & D) u v (A' & B' & C' & D'). ksimp. rewrite A, B, C, D, A', B', C', D'. repeat split; reflexivity. Qed.
Global Instance Kmul_proper : Proper (Keq ==> Keq ==> Keq) Kmul.
Proof. intros x y (A & B & C & D) u v (A' & B' & C' & D'). ksimp. rewrite A, B, C, D, A', B', C', D'. repeat split; reflexivity. Qed.
Global Instance Kconj_proper : Proper (Keq ==> Keq) Kconj.
Proof. intros x y (A & B & C & D). ksimp. rewrite A, B, C, D. repeat split; reflexivity. Qed.
Global Instance Kscale_proper : Proper (Qeq ==> Keq ==> Keq) Kscale.
Proof. intros p q E x y (A & B & C & D). ksimp. rewrite E, A, B, C, D. repeat split; reflexivity. Qed.

(* output: [k1; ks; kj; ksj]; the harness evaluates k1 + ks*sqrt(3) etc. in floating point *)
Definition ok (x : K) : out := OL (oq (k1 x) :: oq (ks x) :: oq (kj x) :: oq (ksj x) :: nil).
