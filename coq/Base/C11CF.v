(* C11CF — complex field infrastructure for C11 (own copy of the technique of C02/CPlain.v + C02/CField.v, so that C11 does not depend on C02 files): proof infrastructure: [qstrip] removes the normalising operations (qadd = Qred (x + y), ...) from both sides
   of a rational equation by building one congruence proof bottom-up (linear in the term size).  [autorewrite with qn]
   (setoid rewriting) needs minutes on the unfolded branch-flow identities; this needs well under a second.
   [cstrip] = unfold the complex operations of Base/QC.v, split into the two rational components, [qstrip]. *)
From Coq Require Import ZArith QArith Lqa Setoid Morphisms.
From PPV Require Import Base.QN Base.QC.
Open Scope Q_scope.

Lemma qadd_cong a a' b b' : a == a' -> b == b' -> qadd a b == a' + b'.
Proof. intros H1 H2. rewrite qadd_correct, H1, H2. reflexivity. Qed.
Lemma qsub_cong a a' b b' : a == a' -> b == b' -> qsub a b == a' - b'.
Proof. intros H1 H2. rewrite qsub_correct, H1, H2. reflexivity. Qed.
Lemma qmul_cong a a' b b' : a == a' -> b == b' -> qmul a b == a' * b'.
Proof. intros H1 H2. rewrite qmul_correct, H1, H2. reflexivity. Qed.
Lemma qdiv_cong a a' b b' : a == a' -> b == b' -> qdiv a b == a' / b'.
Proof. intros H1 H2. rewrite qdiv_correct, H1, H2. reflexivity. Qed.
Lemma qopp_cong a a' : a == a' -> qopp a == - a'.
Proof. intros H1. rewrite qopp_correct, H1. reflexivity. Qed.
Lemma Qplus_cong a a' b b' : a == a' -> b == b' -> a + b == a' + b'.
Proof. intros H1 H2. rewrite H1, H2. reflexivity. Qed.
Lemma Qminus_cong a a' b b' : a == a' -> b == b' -> a - b == a' - b'.
Proof. intros H1 H2. rewrite H1, H2. reflexivity. Qed.
Lemma Qmult_cong a a' b b' : a == a' -> b == b' -> a * b == a' * b'.
Proof. intros H1 H2. rewrite H1, H2. reflexivity. Qed.
Lemma Qdiv_cong a a' b b' : a == a' -> b == b' -> a / b == a' / b'.
Proof. intros H1 H2. rewrite H1, H2. reflexivity. Qed.
Lemma Qopp_cong a a' : a == a' -> - a == - a'.
Proof. intros H1. rewrite H1. reflexivity. Qed.
Lemma Qinv_cong a a' : a == a' -> / a == / a'.
Proof. intros H1. rewrite H1. reflexivity. Qed.

Ltac qstrip_pf t :=
  lazymatch t with
  | qadd ?a ?b => let pa := qstrip_pf a in let pb := qstrip_pf b in constr:(qadd_cong _ _ _ _ pa pb)
  | qsub ?a ?b => let pa := qstrip_pf a in let pb := qstrip_pf b in constr:(qsub_cong _ _ _ _ pa pb)
  | qmul ?a ?b => let pa := qstrip_pf a in let pb := qstrip_pf b in constr:(qmul_cong _ _ _ _ pa pb)
  | qdiv ?a ?b => let pa := qstrip_pf a in let pb := qstrip_pf b in constr:(qdiv_cong _ _ _ _ pa pb)
  | qopp ?a => let pa := qstrip_pf a in constr:(qopp_cong _ _ pa)
  | Qplus ?a ?b => let pa := qstrip_pf a in let pb := qstrip_pf b in constr:(Qplus_cong _ _ _ _ pa pb)
  | Qminus ?a ?b => let pa := qstrip_pf a in let pb := qstrip_pf b in constr:(Qminus_cong _ _ _ _ pa pb)
  | Qmult ?a ?b => let pa := qstrip_pf a in let pb := qstrip_pf b in constr:(Qmult_cong _ _ _ _ pa pb)
  | Qdiv ?a ?b => let pa := qstrip_pf a in let pb := qstrip_pf b in constr:(Qdiv_cong _ _ _ _ pa pb)
  | Qopp ?a => let pa := qstrip_pf a in constr:(Qopp_cong _ _ pa)
  | Qinv ?a => let pa := qstrip_pf a in constr:(Qinv_cong _ _ pa)
  | ?x => constr:(Qeq_refl x)
  end.

Lemma qstrip_eq l l' r r' : l == l' -> r == r' -> l' == r' -> l == r.
Proof. intros H1 H2 H3. rewrite H1, H2. exact H3. Qed.
Lemma qstrip_le l l' r r' : l == l' -> r == r' -> l' <= r' -> l <= r.
Proof. intros H1 H2 H3. rewrite H1, H2. exact H3. Qed.
Lemma qstrip_lt l l' r r' : l == l' -> r == r' -> l' < r' -> l < r.
Proof. intros H1 H2 H3. rewrite H1, H2. exact H3. Qed.

(* goal  l == r  |  l <= r  |  l < r  over Q *)
Ltac qstrip :=
  lazymatch goal with
  | |- Qeq ?l ?r => let pl := qstrip_pf l in let pr := qstrip_pf r in refine (qstrip_eq _ _ _ _ pl pr _)
  | |- Qle ?l ?r => let pl := qstrip_pf l in let pr := qstrip_pf r in refine (qstrip_le _ _ _ _ pl pr _)
  | |- Qlt ?l ?r => let pl := qstrip_pf l in let pr := qstrip_pf r in refine (qstrip_lt _ _ _ _ pl pr _)
  end.

Ltac cunfold :=
  cbv beta iota zeta delta [Ceq Cdiv Cinv Cmul Cadd Csub Copp Cconj Cscale cnorm2 CofQ C0 C1 Cj re im fst snd].
(* complex identity  a ==c b  ->  two plain rational identities *)
Ltac cstrip := cunfold; split; qstrip.

Global Instance re_proper : Proper (Ceq ==> Qeq) re. Proof. intros a b [H _]. exact H. Qed.
Global Instance im_proper : Proper (Ceq ==> Qeq) im. Proof. intros a b [_ H]. exact H. Qed.
Global Instance Cinv_proper : Proper (Ceq ==> Ceq) Cinv.
Proof. intros a b [H1 H2]. cstrip; rewrite H1, H2; reflexivity. Qed.
Global Instance Cdiv_proper : Proper (Ceq ==> Ceq ==> Ceq) Cdiv.
Proof. intros a b H c d H'. unfold Cdiv. rewrite H, H'. reflexivity. Qed.

(* ---- the complex numbers of Base/QC.v as a field for [ring]/[field] (setoid equality ==c); side conditions of
   [field] are of the readable form  ~ z ==c C0 *)
From Coq Require Import Ring Field.

Lemma Cnz_norm z : ~ z ==c C0 <-> ~ re z * re z + im z * im z == 0.
Proof.
  split; intros H K; apply H.
  - destruct z as [a b]. unfold Ceq, C0. cbn [re im] in *. split; nra.
  - destruct K as [K1 K2]. cbn [re im C0] in K1, K2. rewrite K1, K2. ring.
Qed.

Lemma C_ring_theory : ring_theory C0 C1 Cadd Cmul Csub Copp Ceq.
Proof. constructor; intros; try (cstrip; ring). Qed.

Lemma C_field_theory : field_theory C0 C1 Cadd Cmul Csub Copp Cdiv Cinv Ceq.
Proof.
  constructor.
  - exact C_ring_theory.
  - intros [H _]. cbn in H. discriminate.
  - intros p q. reflexivity.
  - intros [a b] H. apply Cnz_norm in H. cbn [re im] in H. cstrip; field; exact H.
Qed.

Add Field C11Cfield : C_field_theory.

Lemma Cscale_mul k a : Cscale k a ==c Cmul (CofQ k) a.
Proof. cstrip; ring. Qed.
Lemma C_eta z : mkC (re z) (im z) ==c z.
Proof. split; reflexivity. Qed.
Lemma CofQ_nz k : ~ k == 0 -> ~ CofQ k ==c C0.
Proof. intros H [K _]. cbn in K. exact (H K). Qed.
Global Instance CofQ_proper : Proper (Qeq ==> Ceq) CofQ.
Proof. intros a b H. split; cbn; [exact H | reflexivity]. Qed.
Global Instance mkC_proper : Proper (Qeq ==> Qeq ==> Ceq) mkC.
Proof. intros a b H c d H'. split; cbn; assumption. Qed.
