(* Base/C26Dist.v — single-source shortest path lengths over weighted arcs by Bellman-Ford rounds with a
   stability check.  If the check succeeds the table is exactly the table of shortest walk weights
   (sound: every entry is the weight of a walk; optimal: no walk is shorter; complete: every node with a walk
   has an entry).  Reference for networkx.single_source_dijkstra_path_length in C26. *)
From Coq Require Import List Bool Arith Lia QArith Lqa.
From PPV Require Import Base.QN.
Import ListNotations.

Section Dist.
Variable A : Type.
Variable eq_dec : forall x y : A, {x = y} + {x <> y}.

Definition warc := (A * A * Q)%type.
Definition tab := list (A * Q).

Fixpoint dget (d : tab) (x : A) : option Q :=
  match d with [] => None | (k, v) :: t => if eq_dec k x then Some v else dget t x end.
Definition dset (d : tab) (x : A) (v : Q) : tab := (x, v) :: d.

Definition relaxd (d : tab) (a : warc) : tab :=
  let '(u, v, w) := a in
  match dget d u with
  | None => d
  | Some du => match dget d v with
               | None => dset d v (qadd du w)
               | Some dv => if qltb (qadd du w) dv then dset d v (qadd du w) else d
               end
  end.
Definition roundd (g : list warc) (d : tab) : tab := fold_left relaxd g d.
Fixpoint iterd (fuel : nat) (g : list warc) (d : tab) : tab :=
  match fuel with O => d | S f => iterd f g (roundd g d) end.
Definition stable (g : list warc) (d : tab) : bool :=
  forallb (fun a : warc => let '(u, v, w) := a in
             match dget d u with
             | None => true
             | Some du => match dget d v with None => false | Some dv => qleb dv (qadd du w) end
             end) g.
(* None = not stable after `fuel` rounds (never observed; with non-negative weights |V| rounds suffice) *)
Definition sssp (fuel : nat) (g : list warc) (s : A) : option tab :=
  let d := iterd fuel g [(s, 0)] in if stable g d then Some d else None.

(* walks and their weights *)
Inductive walk (g : list warc) (s : A) : A -> Q -> Prop :=
| w_nil : walk g s s 0
| w_step u v w W : walk g s u W -> In (u, v, w) g -> walk g s v (W + w).

Lemma dget_dset d x v y : dget (dset d x v) y = if eq_dec x y then Some v else dget d y.
Proof. reflexivity. Qed.

(* ---- soundness: every entry is (Qeq to) the weight of a walk *)
Definition sound (g : list warc) (s : A) (d : tab) : Prop :=
  forall x dx, dget d x = Some dx -> exists W, walk g s x W /\ W == dx.

Lemma relaxd_sound g s d a : In a g -> sound g s d -> sound g s (relaxd d a).
Proof.
  destruct a as [[u v] w]. intros I S. unfold relaxd.
  destruct (dget d u) as [du|] eqn:Eu; auto.
  assert (N : forall x dx, dget (dset d v (qadd du w)) x = Some dx -> exists W, walk g s x W /\ W == dx).
  { intros x dx H. rewrite dget_dset in H. destruct (eq_dec v x) as [<-|]; auto.
    inversion H; subst. destruct (S _ _ Eu) as [W [Wk E]]. exists (W + w). split; [eapply w_step; eauto|].
    rewrite qadd_correct, E. reflexivity. }
  destruct (dget d v) as [dv|]; auto. destruct (qltb (qadd du w) dv); auto.
Qed.
Lemma roundd_sound g s : forall g' d, incl g' g -> sound g s d -> sound g s (roundd g' d).
Proof.
  induction g' as [|a t IH]; simpl; intros d I S; auto.
  apply IH. { intros x X; apply I; now right. } apply relaxd_sound; auto. apply I. now left.
Qed.
Lemma iterd_sound g s fuel : forall d, sound g s d -> sound g s (iterd fuel g d).
Proof. induction fuel; simpl; intros d S; auto. apply IHfuel. apply roundd_sound; auto. apply incl_refl. Qed.

(* ---- the source entry stays <= 0 *)
Definition src_ok (s : A) (d : tab) : Prop := exists ds, dget d s = Some ds /\ ds <= 0.
Lemma relaxd_le d a x dx : dget d x = Some dx -> exists dx', dget (relaxd d a) x = Some dx' /\ dx' <= dx.
Proof.
  destruct a as [[u v] w]. intros H. unfold relaxd.
  destruct (dget d u) as [du|]; [|exists dx; split; auto; apply Qle_refl].
  destruct (dget d v) as [dv|] eqn:Ev.
  - destruct (qltb (qadd du w) dv) eqn:L; [|exists dx; split; auto; apply Qle_refl].
    rewrite dget_dset. destruct (eq_dec v x) as [<-|]; [|exists dx; split; auto; apply Qle_refl].
    exists (qadd du w). split; auto. apply qltb_lt in L. rewrite Ev in H. inversion H; subst. now apply Qlt_le_weak.
  - rewrite dget_dset. destruct (eq_dec v x) as [<-|]; [congruence|exists dx; split; auto; apply Qle_refl].
Qed.
Lemma roundd_le g : forall d x dx, dget d x = Some dx -> exists dx', dget (roundd g d) x = Some dx' /\ dx' <= dx.
Proof.
  induction g as [|a t IH]; simpl; intros d x dx H; [exists dx; split; auto; apply Qle_refl|].
  destruct (relaxd_le d a x dx H) as [d1 [H1 L1]]. destruct (IH _ _ _ H1) as [d2 [H2 L2]].
  exists d2. split; auto. eapply Qle_trans; eauto.
Qed.
Lemma iterd_src fuel g s : forall d, src_ok s d -> src_ok s (iterd fuel g d).
Proof.
  induction fuel; simpl; intros d S; auto. apply IHfuel. destruct S as [ds [H L]].
  destruct (roundd_le g d s ds H) as [d' [H' L']]. exists d'. split; auto. eapply Qle_trans; eauto.
Qed.

(* ---- optimality from the stability check *)
Lemma stable_opt g s d : stable g d = true -> src_ok s d ->
  forall x W, walk g s x W -> exists dx, dget d x = Some dx /\ dx <= W.
Proof.
  intros St [ds [Hs Ls]] x W Wk. induction Wk as [|u v w W Wk IH I].
  - exists ds. split; auto.
  - destruct IH as [du [Hu Lu]]. unfold stable in St. rewrite forallb_forall in St.
    specialize (St _ I). simpl in St. rewrite Hu in St.
    destruct (dget d v) as [dv|]; [|discriminate]. exists dv. split; auto.
    apply qleb_le in St. rewrite qadd_correct in St. lra.
Qed.

Theorem sssp_correct fuel g s d : sssp fuel g s = Some d ->
  (forall x dx, dget d x = Some dx ->
      (exists W, walk g s x W /\ W == dx) /\ (forall W, walk g s x W -> dx <= W)) /\
  (forall x, dget d x = None -> forall W, ~ walk g s x W).
Proof.
  unfold sssp. destruct (stable g (iterd fuel g [(s, 0)])) eqn:St; [|discriminate]. intros H. inversion H; subst. clear H.
  assert (S0 : sound g s [(s, 0)]).
  { intros x dx H. simpl in H. destruct (eq_dec s x) as [<-|]; [|discriminate]. inversion H; subst.
    exists 0. split; [constructor|reflexivity]. }
  assert (O0 : src_ok s [(s, 0)]).
  { exists 0. split; [simpl; destruct (eq_dec s s); congruence|apply Qle_refl]. }
  pose proof (iterd_sound g s fuel _ S0) as So. pose proof (iterd_src fuel g s _ O0) as Oo.
  split.
  - intros x dx Hx. split; [apply So; auto|]. intros W Wk.
    destruct (stable_opt g s _ St Oo x W Wk) as [dx' [Hx' L]]. congruence.
  - intros x Hx W Wk. destruct (stable_opt g s _ St Oo x W Wk) as [dx' [Hx' L]]. congruence.
Qed.
End Dist.

Arguments dget {A} eq_dec d x.
Arguments sssp {A} eq_dec fuel g s.
Arguments walk {A} g s _ _.
