(* Normalising rational operations: every model uses these so that [vm_compute] never carries
   unreduced denominators (measured: 3 s -> 45 ms per pi-branch case).  Each has a correctness
   lemma to [Qeq]; [qnorm] rewrites them away before ring/field/lra/nra. *)
From Coq Require Import ZArith QArith Qreduction Qabs Lia Lqa Setoid Morphisms.
Open Scope Q_scope.

Definition qadd (x y : Q) : Q := Qred (x + y).
Definition qsub (x y : Q) : Q := Qred (x - y).
Definition qmul (x y : Q) : Q := Qred (x * y).
Definition qdiv (x y : Q) : Q := Qred (x / y).
Definition qopp (x : Q) : Q := Qred (- x).
Definition qofZ (z : Z) : Q := inject_Z z.

Lemma qadd_correct x y : qadd x y == x + y. Proof. apply Qred_correct. Qed.
Lemma qsub_correct x y : qsub x y == x - y. Proof. apply Qred_correct. Qed.
Lemma qmul_correct x y : qmul x y == x * y. Proof. apply Qred_correct. Qed.
Lemma qdiv_correct x y : qdiv x y == x / y. Proof. apply Qred_correct. Qed.
Lemma qopp_correct x : qopp x == - x. Proof. apply Qred_correct. Qed.

Global Instance qadd_proper : Proper (Qeq ==> Qeq ==> Qeq) qadd.
Proof. intros a b H c d H'. rewrite !qadd_correct, H, H'. reflexivity. Qed.
Global Instance qsub_proper : Proper (Qeq ==> Qeq ==> Qeq) qsub.
Proof. intros a b H c d H'. rewrite !qsub_correct, H, H'. reflexivity. Qed.
Global Instance qmul_proper : Proper (Qeq ==> Qeq ==> Qeq) qmul.
Proof. intros a b H c d H'. rewrite !qmul_correct, H, H'. reflexivity. Qed.
Global Instance qdiv_proper : Proper (Qeq ==> Qeq ==> Qeq) qdiv.
Proof. intros a b H c d H'. rewrite !qdiv_correct, H, H'. reflexivity. Qed.
Global Instance qopp_proper : Proper (Qeq ==> Qeq) qopp.
Proof. intros a b H. rewrite !qopp_correct, H. reflexivity. Qed.

Global Hint Rewrite qadd_correct qsub_correct qmul_correct qdiv_correct qopp_correct : qn.
Ltac qnorm := autorewrite with qn in *.

(* boolean comparisons used by executable models *)
Definition qltb (x y : Q) : bool := match Qcompare x y with Lt => true | _ => false end.
Definition qleb (x y : Q) : bool := Qle_bool x y.
Definition qeqb (x y : Q) : bool := Qeq_bool x y.

Lemma qltb_lt x y : qltb x y = true <-> x < y.
Proof. unfold qltb. rewrite Qlt_alt. destruct (x ?= y); split; congruence. Qed.
Lemma qltb_ge x y : qltb x y = false <-> y <= x.
Proof.
  unfold qltb. destruct (x ?= y) eqn:E; split; intros H; try congruence; try reflexivity.
  - apply Qeq_alt in E. rewrite E. apply Qle_refl.
  - apply Qlt_alt in E. exfalso. apply (Qlt_not_le _ _ E H).
  - apply Qgt_alt in E. apply Qlt_le_weak. exact E.
Qed.
Lemma qleb_le x y : qleb x y = true <-> x <= y. Proof. apply Qle_bool_iff. Qed.
Lemma qeqb_eq x y : qeqb x y = true <-> x == y. Proof. apply Qeq_bool_iff. Qed.

Definition qmax (x y : Q) : Q := if qltb x y then y else x.
Definition qmin (x y : Q) : Q := if qltb y x then y else x.
Definition qabs (x : Q) : Q := if qltb x 0 then qopp x else x.

(* |x - y| <= tol, used by in-Coq comparisons *)
Definition qclose (tol x y : Q) : bool := qleb (Qabs (x - y)) tol.
