(* C25/Proofs2.v — rename_std_type with the element table; the exact write set and the stale columns of change_std_type *)
From Coq Require Import ZArith QArith List Bool String Lia.
From PPV Require Import Base.QN C24.Model C24.Proofs C25.Model C25.Proofs.
Import ListNotations.
Open Scope string_scope.
Open Scope list_scope.

(* ------------------------------------------------------------------ rename *)
Lemma rename_lget l a b l' : rename_std l a b = Ok l' ->
  exists d, lget l a = Some d /\ lget l b = None /\ forall x, lget l' x = fupd (fupd (lget l) a None) b (Some d) x.
Proof.
  unfold rename_std. destruct (lget l a) as [d|] eqn:A; [|discriminate].
  unfold lhas. destruct (lget l b) eqn:B; [discriminate|]. intros H. inversion H; subst l'. exists d. repeat split.
  intros x. rewrite lget_lset. unfold fupd. destruct (String.eqb b x); [reflexivity|]. apply lget_ldel.
Qed.

Lemma rename_row_other old new r c : String.eqb "std_type" c = false -> rowget (rename_row old new r) c = rowget r c.
Proof.
  intros H. unfold rename_row. destruct (row_type r) as [| | |s]; try reflexivity.
  destruct (String.eqb s old); [|reflexivity]. rewrite rowget_cons, H. reflexivity.
Qed.
Lemma rename_row_type old new r :
  row_type (rename_row old new r) = match row_type r with VS s => if String.eqb s old then VS new else VS s | v => v end.
Proof.
  unfold rename_row. destruct (row_type r) as [| | |s] eqn:E; try exact E.
  destruct (String.eqb s old); [|exact E]. unfold row_type. rewrite rowget_cons. reflexivity.
Qed.

(* the data an element refers to is the same before and after (unless the row carried the dangling name `new`) *)
Lemma rename_resolve l a b l' r : rename_std l a b = Ok l' -> row_type r <> VS b ->
  resolve l' (rename_row a b r) = resolve l r.
Proof.
  intros R NB. destruct (rename_lget l a b l' R) as (d & A & B & L).
  unfold resolve. rewrite rename_row_type. destruct (row_type r) as [| | |s] eqn:E; try reflexivity.
  destruct (String.eqb s a) eqn:Ea.
  - apply String.eqb_eq in Ea. subst s. rewrite L. unfold fupd. rewrite String.eqb_refl. symmetry. exact A.
  - rewrite L. unfold fupd. destruct (String.eqb b s) eqn:Eb; [apply String.eqb_eq in Eb; subst; congruence|].
    rewrite String.eqb_sym, Ea. reflexivity.
Qed.
Lemma rename_no_old l a b l' r : rename_std l a b = Ok l' -> row_type (rename_row a b r) <> VS a.
Proof.
  intros R. destruct (rename_lget l a b l' R) as (d & A & B & _).
  rewrite rename_row_type. destruct (row_type r) as [| | |s] eqn:E; try discriminate.
  destruct (String.eqb s a) eqn:Ea.
  - intros H. inversion H. subst. congruence.
  - intros H. inversion H. subst. rewrite String.eqb_refl in Ea. discriminate.
Qed.

Theorem rename_follows l t a b l' : rename_std l a b = Ok l' ->
  exists t', rename_net l (Some t) a b = (l', Some t', None) /\ List.length t' = List.length t /\
    forall i r, nth_error t i = Some r -> exists r', nth_error t' i = Some r' /\
      (forall c, String.eqb "std_type" c = false -> rowget r' c = rowget r c) /\
      (row_type r <> VS b -> resolve l' r' = resolve l r) /\
      (row_type r = VS a -> exists d, load_std l a = Ok d /\ row_type r' = VS b /\ load_std l' b = Ok d) /\
      row_type r' <> VS a.
Proof.
  intros R. exists (map (rename_row a b) t). unfold rename_net, rename_net_gen. rewrite R. split; [reflexivity|]. split; [apply map_length|].
  intros i r H. exists (rename_row a b r). split; [rewrite nth_error_map, H; reflexivity|].
  split; [intros c Hc; apply rename_row_other; exact Hc|]. split; [apply (rename_resolve l a b l' r R)|].
  split; [|apply (rename_no_old l a b l' r R)].
  intros Ht. destruct (rename_lget l a b l' R) as (d & A & B & L). exists d. unfold load_std. rewrite A.
  split; [reflexivity|]. rewrite rename_row_type, Ht, String.eqb_refl. split; [reflexivity|].
  rewrite L. unfold fupd. rewrite String.eqb_refl. reflexivity.
Qed.
(* referential integrity of the std_type column is preserved *)
Theorem rename_keeps_references l t a b l' t' :
  rename_net l (Some t) a b = (l', Some t', None) ->
  (forall r, In r t -> resolve l r <> None \/ (forall s, row_type r <> VS s)) ->
  (forall r', In r' t' -> resolve l' r' <> None \/ (forall s, row_type r' <> VS s)).
Proof.
  unfold rename_net, rename_net_gen. destruct (rename_std l a b) as [l1|e] eqn:R; [|intros H; inversion H].
  intros H; inversion H; subst l1 t'; clear H. intros Ht r' Hr. apply in_map_iff in Hr. destruct Hr as [r [<- Hr]].
  destruct (rename_lget l a b l' R) as (d & A & B & L).
  destruct (Ht r Hr) as [Hres|Hn].
  - left. assert (NB : row_type r <> VS b) by (intros E; apply Hres; unfold resolve; rewrite E; exact B).
    rewrite (rename_resolve l a b l' r R NB). exact Hres.
  - right. intros s. rewrite rename_row_type. destruct (row_type r) as [| | |s0] eqn:E; try discriminate.
    exfalso. apply (Hn s0). reflexivity.
Qed.
(* the call either fails without touching anything or succeeds completely — provided the element kind has a table *)
Theorem rename_atomic_partial raises l tab a b : G25r tab = true ->
  let '(l', tab', e) := rename_net_gen raises l tab a b in
  (e = None <-> exists l1, rename_std l a b = Ok l1) /\ (e <> None -> l' = l /\ tab' = tab).
Proof.
  intros G. destruct tab as [t|]; [|discriminate]. unfold rename_net_gen. destruct (rename_std l a b) as [l1|e1].
  - split; [split; [eauto|reflexivity]|]. intros H. congruence.
  - split; [split; [discriminate|intros [l1 H]; discriminate]|]. auto.
Qed.
(* a kind without a table (fuse), rule before the repair: the library IS renamed and the call raises KeyError *)
Theorem rename_atomic_old_refuted : exists l a b, let '(l', tab', e) := rename_net_gen true l None a b in e <> None /\ l' <> l.
Proof. exists [("F", [("i_rated_a", N 16)])], "F", "G". cbn. split; discriminate. Qed.
(* the rule as it is now is all-or-nothing for every kind *)
Theorem rename_atomic l tab a b :
  let '(l', tab', e) := rename_net l tab a b in
  (e = None <-> exists l1, rename_std l a b = Ok l1) /\ (e <> None -> l' = l /\ tab' = tab).
Proof.
  unfold rename_net, rename_net_gen, RENAME_TABLELESS_RAISES. destruct (rename_std l a b) as [l1|e1].
  - destruct tab; (split; [split; [eauto|reflexivity]|intros H; congruence]).
  - split; [split; [discriminate|intros [l1 H]; discriminate]|]. auto.
Qed.
Example rename_follows_nonvacuous :
  rename_net [("A", [("r_ohm_per_km", q 1 8)])] (Some [[("std_type", VS "A"); ("length_km", N 2)]; [("std_type", VNaN)]]) "A" "B" =
  ([("B", [("r_ohm_per_km", q 1 8)])], Some [[("std_type", VS "B"); ("std_type", VS "A"); ("length_km", N 2)]; [("std_type", VNaN)]], None).
Proof. reflexivity. Qed.

(* ------------------------------------------------------------------ change_std_type: the exact write set *)
Lemma cell_eqb_refl x : cell_eqb x x = true.
Proof. destruct x; simpl; auto using Z.eqb_refl, Pos.eqb_refl, eqb_reflx, String.eqb_refl. rewrite Z.eqb_refl, Pos.eqb_refl. reflexivity. Qed.
Lemma cell_eqb_iff a b : cell_eqb a b = true <-> a = b.
Proof. split; [apply cell_eqb_eq|intros ->; apply cell_eqb_refl]. Qed.

Theorem change_written_exactly cols l name r r' ty : change_std cols l name r = Ok r' -> lget l name = Some ty ->
  forall c, rowget r' c = if String.eqb "std_type" c then VS name
                         else if G25_col cols c && has ty c then valof (lookup ty c) else rowget r c.
Proof.
  unfold change_std. intros H Hl c. rewrite Hl in H. inversion H; subst r'; clear H.
  rewrite rowget_cons. destruct (String.eqb "std_type" c); [reflexivity|]. rewrite change_cols_get.
  unfold G25_col, has. destruct (existsb (String.eqb c) cols); [|reflexivity]. destruct (lookup ty c); reflexivity.
Qed.
Lemma written_cols_In cols ty c : In c (written_cols cols ty) <-> c = "std_type" \/ (G25_col cols c = true /\ has ty c = true).
Proof.
  unfold written_cols, G25_col. cbn [In]. rewrite filter_In. split.
  - intros [H|[H1 H2]]; [left; auto|right]. split; [|exact H2]. apply existsb_exists. exists c. split; [exact H1|apply String.eqb_refl].
  - intros [H|[H1 H2]]; [left; auto|right]. split; [|exact H2]. apply existsb_exists in H1. destruct H1 as [x [Hx E]].
    apply String.eqb_eq in E. subst. exact Hx.
Qed.
(* written: exactly std_type and the existing columns the type defines; every other cell of the row is untouched *)
Theorem change_write_set cols l name r r' ty : change_std cols l name r = Ok r' -> lget l name = Some ty ->
  rowget r' "std_type" = VS name /\
  (forall c, In c (written_cols cols ty) -> c <> "std_type" -> rowget r' c = valof (lookup ty c)) /\
  (forall c, ~ In c (written_cols cols ty) -> rowget r' c = rowget r c).
Proof.
  intros H Hl. pose proof (change_written_exactly cols l name r r' ty H Hl) as W. split; [rewrite W; reflexivity|]. split.
  - intros c Hc Hs. apply written_cols_In in Hc. destruct Hc as [->|[H1 H2]]; [congruence|]. rewrite W, H1, H2.
    destruct (String.eqb "std_type" c) eqn:E; [apply String.eqb_eq in E; congruence|reflexivity].
  - intros c Hc. rewrite W. destruct (String.eqb "std_type" c) eqn:E.
    + exfalso. apply Hc. apply written_cols_In. left. apply String.eqb_eq in E. auto.
    + destruct (G25_col cols c && has ty c) eqn:E2; [|reflexivity]. exfalso. apply Hc. apply written_cols_In. right.
      apply andb_prop in E2. exact E2.
Qed.

(* ------------------------------------------------------------------ changed row versus a fresh element of the new type *)
Lemma ev_param ty v : forall s p, src_param s = Some p -> lookup ty p = Some v -> ev true ty [] s = Some v.
Proof.
  induction s; intros q Hs Hl; simpl in *; try discriminate; try (inversion Hs; subst; rewrite Hl; reflexivity).
  unfold getarg. simpl. eapply IHs; eauto.
Qed.
Lemma fresh_of_param ds ty c v : type_col ds c = true -> lookup ty c = Some v -> fresh_val ds ty c = v.
Proof.
  unfold type_col, fresh_val, single_val. destruct (spec_of ds c) as [s|]; [|discriminate].
  destruct (src_param s) as [p|] eqn:P; [|discriminate]. intros E Hl. apply String.eqb_eq in E. subst p.
  rewrite (ev_param ty v s c P Hl). reflexivity.
Qed.
Lemma G25_col_In cols c : G25_col cols c = true <-> In c cols.
Proof.
  unfold G25_col. rewrite existsb_exists. split.
  - intros [x [Hx E]]. apply String.eqb_eq in E. subst. exact Hx.
  - intros H. exists c. split; [exact H|apply String.eqb_refl].
Qed.
(* a type column of the changed row equals the fresh element's value iff it is not one of the stale columns *)
Theorem stale_exact ds cols l name r r' ty c : change_std cols l name r = Ok r' -> lget l name = Some ty ->
  type_col ds c = true -> G25_col cols c = true -> String.eqb "std_type" c = false ->
  (rowget r' c = fresh_val ds ty c <-> ~ In c (stale_cols ds cols ty r)).
Proof.
  intros H Hl Tc Gc Sc. rewrite (change_written_exactly cols l name r r' ty H Hl), Sc, Gc. cbn [andb].
  unfold stale_cols. rewrite filter_In, Tc, Sc. cbn [andb negb]. unfold has.
  destruct (lookup ty c) as [v|] eqn:L; cbn [negb andb valof].
  - rewrite (fresh_of_param ds ty c v Tc L). split; [intros _ [_ X]; discriminate|reflexivity].
  - split.
    + intros E [_ X]. rewrite E, cell_eqb_refl in X. discriminate.
    + intros N. destruct (cell_eqb (rowget r c) (fresh_val ds ty c)) eqn:E; [apply cell_eqb_eq; exact E|].
      exfalso. apply N. split; [apply G25_col_In; exact Gc|reflexivity].
Qed.
(* a stale column keeps the value of the previous type, and that value is not the one of a fresh element *)
Theorem stale_keeps_old ds cols l name r r' ty c : change_std cols l name r = Ok r' -> lget l name = Some ty ->
  In c (stale_cols ds cols ty r) -> rowget r' c = rowget r c /\ rowget r' c <> fresh_val ds ty c /\ lookup ty c = None.
Proof.
  intros H Hl Hs. unfold stale_cols in Hs. apply filter_In in Hs. destruct Hs as [Hc X].
  repeat (apply andb_prop in X; destruct X as [X ?]).
  assert (Sc : String.eqb "std_type" c = false) by (destruct (String.eqb "std_type" c); [discriminate|reflexivity]).
  assert (Ht : has ty c = false) by (destruct (has ty c); [discriminate|reflexivity]).
  rewrite (change_written_exactly cols l name r r' ty H Hl), Sc, Ht, andb_false_r.
  split; [reflexivity|]. split.
  - intros E. rewrite E, cell_eqb_refl in H0. discriminate.
  - unfold has in Ht. destruct (lookup ty c); [discriminate|reflexivity].
Qed.
(* without stale columns the changed row is the fresh row on every type column of the table *)
Theorem nostale_partial ds cols l name r r' ty : change_std cols l name r = Ok r' -> lget l name = Some ty ->
  G25_nostale ds cols ty r = true ->
  forall c, type_col ds c = true -> G25_col cols c = true -> String.eqb "std_type" c = false -> rowget r' c = fresh_val ds ty c.
Proof.
  intros H Hl G c Tc Gc Sc. apply (stale_exact ds cols l name r r' ty c H Hl Tc Gc Sc).
  unfold G25_nostale in G. destruct (stale_cols ds cols ty r); [intros []|discriminate].
Qed.
(* a transformer with a tap changer changed to a type without tap data: the tap columns are stale *)
Definition w_cols := ["std_type"; "sn_mva"; "vk_percent"; "tap_side"; "tap_step_percent"; "tap_pos"; "shift_degree"].
Definition w_ty : amap := [("sn_mva", q 25 1); ("vk_percent", q 12 1)].
Definition w_row : amap := [("std_type", VS "OLD"); ("sn_mva", q 40 1); ("vk_percent", q 16 1); ("tap_side", VS "hv");
                            ("tap_step_percent", q 3 2); ("tap_pos", N 3); ("shift_degree", N 150)].
Theorem stale_refuted : exists r', change_std w_cols [("NEW", w_ty)] "NEW" w_row = Ok r' /\
  stale_cols d_trafo_s w_cols w_ty w_row = ["tap_side"; "tap_step_percent"; "shift_degree"] /\
  rowget r' "tap_side" = VS "hv" /\ fresh_val d_trafo_s w_ty "tap_side" = VNaN /\
  rowget r' "shift_degree" = N 150 /\ fresh_val d_trafo_s w_ty "shift_degree" = N 0.
Proof. eexists. split; [reflexivity|]. repeat split; reflexivity. Qed.
Example nostale_nonvacuous :
  G25_nostale d_trafo_s w_cols (w_ty ++ [("tap_side", VS "lv"); ("tap_step_percent", q 5 2); ("shift_degree", N 0)]) w_row = true /\
  type_col d_trafo_s "tap_side" = true.
Proof. split; reflexivity. Qed.

(* the type columns of each kind (= the columns that can go stale) *)
Lemma type_cols_line : filter (type_col d_line_s) (map fst (d_cols d_line_s)) =
  ["r_ohm_per_km"; "x_ohm_per_km"; "c_nf_per_km"; "max_i_ka"; "g_us_per_km"; "type"; "r0_ohm_per_km"; "x0_ohm_per_km"; "c0_nf_per_km"; "alpha"].
Proof. reflexivity. Qed.
Lemma type_cols_trafo : filter (type_col d_trafo_s) (map fst (d_cols d_trafo_s)) =
  trafo_req ++ ["vk0_percent"; "vkr0_percent"; "mag0_percent"; "mag0_rx"; "si0_hv_partial"; "vector_group"; "shift_degree";
                "tap_neutral"; "tap_max"; "tap_min"; "tap_side"; "tap_step_percent"; "tap_step_degree";
                "tap2_neutral"; "tap2_max"; "tap2_min"; "tap2_side"; "tap2_step_percent"; "tap2_step_degree"; "tap2_changer_type";
                "tap_changer_type"].
Proof. reflexivity. Qed.
Lemma type_cols_t3 : filter (type_col d_t3_s) (map fst (d_cols d_t3_s)) =
  t3_req ++ ["shift_mv_degree"; "shift_lv_degree"; "tap_neutral"; "tap_max"; "tap_min"; "tap_side"; "tap_step_percent"; "tap_step_degree";
             "tap_changer_type"].
Proof. reflexivity. Qed.
