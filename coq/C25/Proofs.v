From Coq Require Import ZArith QArith List Bool String Lia.
From PPV Require Import Base.QN C24.Model C24.Proofs C25.Model.
Import ListNotations.
Open Scope string_scope.
Open Scope list_scope.

(* ------------------------------------------------------------ dict laws of the association list *)
Lemma lget_lset_same l k v : lget (lset l k v) k = Some v.
Proof.
  induction l as [|[k' v'] l IH]; simpl; [rewrite String.eqb_refl; reflexivity|].
  destruct (String.eqb k' k) eqn:E; simpl; rewrite E; [reflexivity | exact IH].
Qed.
Lemma lget_lset_other l k v k' : String.eqb k k' = false -> lget (lset l k v) k' = lget l k'.
Proof.
  intros H. induction l as [|[k0 v0] l IH]; simpl; [rewrite H; reflexivity|].
  destruct (String.eqb k0 k) eqn:E; simpl.
  - apply String.eqb_eq in E. subst. rewrite H. reflexivity.
  - destruct (String.eqb k0 k'); [reflexivity | exact IH].
Qed.
Lemma lget_ldel_same l k : lget (ldel l k) k = None.
Proof.
  induction l as [|[k' v'] l IH]; simpl; [reflexivity|].
  destruct (String.eqb k' k) eqn:E; simpl; [exact IH | rewrite E; exact IH].
Qed.
Lemma lget_ldel_other l k k' : String.eqb k k' = false -> lget (ldel l k) k' = lget l k'.
Proof.
  intros H. induction l as [|[k0 v0] l IH]; simpl; [reflexivity|].
  destruct (String.eqb k0 k) eqn:E; simpl.
  - apply String.eqb_eq in E. subst. rewrite H. exact IH.
  - destruct (String.eqb k0 k'); [reflexivity | exact IH].
Qed.
Lemma lget_lset l k v x : lget (lset l k v) x = fupd (lget l) k (Some v) x.
Proof.
  unfold fupd. destruct (String.eqb k x) eqn:E.
  - apply String.eqb_eq in E. subst. apply lget_lset_same.
  - apply lget_lset_other. exact E.
Qed.
Lemma lget_ldel l k x : lget (ldel l k) x = fupd (lget l) k None x.
Proof.
  unfold fupd. destruct (String.eqb k x) eqn:E.
  - apply String.eqb_eq in E. subst. apply lget_ldel_same.
  - apply lget_ldel_other. exact E.
Qed.

(* ------------------------------------------------------------ refinement: every library function acts on the
   association list as its specification acts on the abstract finite map *)
Lemma copy_refines req ow src : forall l x,
  lget (fst (copy_std req l src ow)) x = spec_step req (lget l) (OCopy src ow) x.
Proof.
  induction src as [|[n d] src IH]; intros l x; simpl; [reflexivity|].
  unfold create_std. simpl andb.
  destruct (forallb (has d) req); simpl; [|reflexivity].
  unfold lhas.
  destruct (ow || negb match lget l n with Some _ => true | None => false end) eqn:E.
  - rewrite IH. simpl.
    assert (E' : ow || match lget l n with Some _ => false | None => true end = true)
      by (destruct ow, (lget l n); simpl in *; congruence).
    rewrite E'. clear. revert l. 
    assert (G : forall f g : fmap, (forall y, f y = g y) -> forall s y,
      (fix go (f : fmap) (s : lib) : fmap :=
         match s with
         | [] => f
         | (n, d) :: t =>
             if negb (forallb (has d) req) then f
             else go (if ow || (match f n with Some _ => false | None => true end) then fupd f n (Some d) else f) t
         end) f s y =
      (fix go (f : fmap) (s : lib) : fmap :=
         match s with
         | [] => f
         | (n, d) :: t =>
             if negb (forallb (has d) req) then f
             else go (if ow || (match f n with Some _ => false | None => true end) then fupd f n (Some d) else f) t
         end) g s y).
    { intros f g Hfg s. revert f g Hfg. induction s as [|[n0 d0] s IHs]; intros f g Hfg y; [apply Hfg|].
      destruct (negb (forallb (has d0) req)); [apply Hfg|].
      apply IHs. intros z. rewrite (Hfg n0).
      destruct (ow || match g n0 with Some _ => false | None => true end); [|apply Hfg].
      unfold fupd. destruct (String.eqb n0 z); [reflexivity | apply Hfg]. }
    intros l. apply G. intros y. apply lget_lset.
  - rewrite IH. simpl.
    assert (E' : ow || match lget l n with Some _ => false | None => true end = false)
      by (destruct ow, (lget l n); simpl in *; congruence).
    rewrite E'. reflexivity.
Qed.

Lemma step_refines req l o x : lget (step req l o) x = spec_step req (lget l) o x.
Proof.
  destruct o as [d n ow ck|n|a b|src ow].
  - simpl. unfold create_std.
    destruct (ck && negb (forallb (has d) req)); simpl; [reflexivity|].
    unfold lhas. destruct ow; simpl; [apply lget_lset|].
    destruct (lget l n); simpl; [reflexivity | apply lget_lset].
  - simpl. unfold delete_std, lhas. destruct (lget l n); simpl; [apply lget_ldel | reflexivity].
  - simpl. unfold rename_std, lhas. destruct (lget l a) as [d|]; simpl; [|reflexivity].
    destruct (lget l b); simpl; [reflexivity|].
    rewrite lget_lset. unfold fupd. destruct (String.eqb b x); [reflexivity|]. rewrite lget_ldel. reflexivity.
  - apply copy_refines.
Qed.

Lemma spec_step_ext req o : forall f g : fmap, (forall y, f y = g y) -> forall y, spec_step req f o y = spec_step req g o y.
Proof.
  intros f g H y. destruct o as [d n ow ck|n|a b|src ow]; simpl.
  - destruct (ck && negb (forallb (has d) req)); [apply H|]. rewrite (H n).
    destruct (ow || match g n with Some _ => false | None => true end); [|apply H].
    unfold fupd. destruct (String.eqb n y); [reflexivity | apply H].
  - rewrite (H n). destruct (g n); [|apply H]. unfold fupd. destruct (String.eqb n y); [reflexivity | apply H].
  - rewrite (H a), (H b). destruct (g a); [|apply H]. destruct (g b); [apply H|].
    unfold fupd. destruct (String.eqb b y); [reflexivity|]. destruct (String.eqb a y); [reflexivity | apply H].
  - revert f g H. induction src as [|[n0 d0] s IHs]; intros f g Hfg; [apply Hfg|].
    destruct (negb (forallb (has d0) req)); [apply Hfg|].
    apply IHs. intros z. rewrite (Hfg n0).
    destruct (ow || match g n0 with Some _ => false | None => true end); [|apply Hfg].
    unfold fupd. destruct (String.eqb n0 z); [reflexivity | apply Hfg].
Qed.

Theorem lib_refines req ops : forall l x,
  lget (run_ops req l ops) x = fold_left (spec_step req) ops (lget l) x.
Proof.
  induction ops as [|o ops IH]; intros l x; simpl; [reflexivity|].
  rewrite IH. clear IH. revert x.
  assert (G : forall ops (f g : fmap), (forall y, f y = g y) -> forall y,
             fold_left (spec_step req) ops f y = fold_left (spec_step req) ops g y).
  { induction ops0 as [|o0 ops0 IH0]; intros f g H y; simpl; [apply H|].
    apply IH0. intros z. apply spec_step_ext. exact H. }
  apply G. intros y. apply step_refines.
Qed.

(* ------------------------------------------------------------ what load_std_type returns *)
Theorem created_is_loaded req l d n ck l' :
  create_std req l d n true ck = Ok l' -> load_std l' n = Ok d /\ (forall m, String.eqb n m = false -> load_std l' m = load_std l m).
Proof.
  unfold create_std. destruct (ck && negb (forallb (has d) req)); [discriminate|]. simpl. intros H. inversion H. subst. clear H.
  unfold load_std. split; [rewrite lget_lset_same; reflexivity|].
  intros m Hm. rewrite lget_lset_other by exact Hm. reflexivity.
Qed.
Theorem not_overwritten req l d n ck l' d0 :
  lget l n = Some d0 -> create_std req l d n false ck = Ok l' -> load_std l' n = Ok d0.
Proof.
  unfold create_std, lhas. intros H0. destruct (ck && negb (forallb (has d) req)); [discriminate|]. rewrite H0. simpl.
  intros H. inversion H. subst. unfold load_std. rewrite H0. reflexivity.
Qed.
Theorem renamed_is_loaded l a b l' :
  rename_std l a b = Ok l' ->
  exists d, load_std l a = Ok d /\ load_std l' b = Ok d /\ load_std l' a = Err "UserWarning" /\
            (forall m, String.eqb a m = false -> String.eqb b m = false -> load_std l' m = load_std l m).
Proof.
  unfold rename_std, lhas, load_std. destruct (lget l a) as [d|] eqn:Ea; [|discriminate].
  destruct (lget l b) eqn:Eb; [discriminate|]. intros H. inversion H. subst. clear H.
  exists d. split; [reflexivity|]. split; [rewrite lget_lset_same; reflexivity|]. split.
  - destruct (String.eqb b a) eqn:E.
    + apply String.eqb_eq in E. subst. congruence.
    + rewrite lget_lset_other by exact E. rewrite lget_ldel_same. reflexivity.
  - intros m Ha Hb. rewrite lget_lset_other by exact Hb. rewrite lget_ldel_other by exact Ha. reflexivity.
Qed.
Theorem rename_rejects l a b : (lhas l a = false \/ lhas l b = true) -> exists e, rename_std l a b = Err e.
Proof.
  unfold rename_std, lhas. intros [H|H].
  - destruct (lget l a); [discriminate|]. eexists; reflexivity.
  - destruct (lget l a); [|eexists; reflexivity]. destruct (lget l b); [eexists; reflexivity | discriminate].
Qed.
Theorem deleted_is_gone l n l' : delete_std l n = Ok l' ->
  load_std l' n = Err "UserWarning" /\ forall m, String.eqb n m = false -> load_std l' m = load_std l m.
Proof.
  unfold delete_std. destruct (lhas l n); [|discriminate]. intros H. inversion H. subst. unfold load_std. split.
  - rewrite lget_ldel_same. reflexivity.
  - intros m Hm. rewrite lget_ldel_other by exact Hm. reflexivity.
Qed.

(* copy with overwrite: every valid, uniquely named type of the source is returned unchanged by the target *)
Theorem copied_is_loaded req : forall src dst,
  NoDup (map fst src) -> (forall n d, In (n, d) src -> forallb (has d) req = true) ->
  let dst' := fst (copy_std req dst src true) in
  snd (copy_std req dst src true) = false /\
  (forall n d, In (n, d) src -> load_std dst' n = Ok d) /\
  (forall m, ~ In m (map fst src) -> load_std dst' m = load_std dst m).
Proof.
  induction src as [|[n d] src IH]; intros dst Hnd Hv; simpl.
  - split; [reflexivity|]. split; [intros ? ? []| reflexivity].
  - unfold create_std. simpl andb. rewrite (Hv n d (or_introl eq_refl)). simpl.
    inversion Hnd as [|? ? Hn Hnd']. subst.
    destruct (IH (lset dst n d) Hnd' (fun n0 d0 H => Hv n0 d0 (or_intror H))) as [I1 [I2 I3]].
    split; [exact I1|]. split.
    + intros n0 d0 [H|H].
      * inversion H. subst. rewrite (I3 n0 Hn). unfold load_std. rewrite lget_lset_same. reflexivity.
      * apply I2. exact H.
    + intros m Hm. rewrite I3 by (intros X; apply Hm; right; exact X).
      unfold load_std. rewrite lget_lset_other; [reflexivity|].
      destruct (String.eqb n m) eqn:E; [|reflexivity]. apply String.eqb_eq in E. subst. exfalso. apply Hm. left. reflexivity.
Qed.

(* ------------------------------------------------------------ change_std_type *)
Lemma rowget_cons c v r p : rowget ((c, v) :: r) p = if String.eqb c p then v else rowget r p.
Proof. unfold rowget. simpl. destruct (String.eqb c p); reflexivity. Qed.

Lemma change_cols_get cols ty : forall r p,
  rowget (change_cols cols ty r) p =
  if existsb (String.eqb p) cols then (match lookup ty p with Some v => v | None => rowget r p end) else rowget r p.
Proof.
  induction cols as [|c cols IH]; intros r p; simpl; [reflexivity|].
  rewrite IH. destruct (String.eqb p c) eqn:E; simpl.
  - apply String.eqb_eq in E. subst.
    destruct (lookup ty c) as [v|] eqn:L.
    + rewrite rowget_cons, String.eqb_refl. destruct (existsb (String.eqb c) cols); reflexivity.
    + destruct (existsb (String.eqb c) cols); reflexivity.
  - destruct (lookup ty c) as [v|] eqn:L; [|reflexivity].
    rewrite rowget_cons, String.eqb_sym, E. reflexivity.
Qed.

(* an existing column that the type defines receives the type's value *)
Theorem change_sets_partial cols l name r r' ty p v :
  change_std cols l name r = Ok r' -> lget l name = Some ty ->
  G25_col cols p = true -> String.eqb "std_type" p = false -> lookup ty p = Some v -> rowget r' p = v.
Proof.
  unfold change_std. intros H Hl Hc Hs Hv. rewrite Hl in H. inversion H. subst. clear H.
  rewrite rowget_cons, Hs.
  rewrite change_cols_get. unfold G25_col in Hc. rewrite Hc, Hv. reflexivity.
Qed.
(* everything else keeps its old value: parameters without a column are not written, parameters of the
   previous type that the new type does not define stay *)
Theorem change_keeps cols l name r r' ty p :
  change_std cols l name r = Ok r' -> lget l name = Some ty -> String.eqb "std_type" p = false ->
  (G25_col cols p = false \/ lookup ty p = None) -> rowget r' p = rowget r p.
Proof.
  unfold change_std. intros H Hl Hs Hc. rewrite Hl in H. inversion H. subst. clear H.
  rewrite rowget_cons, Hs.
  rewrite change_cols_get. unfold G25_col in Hc. destruct Hc as [Hc|Hc]; rewrite Hc; [reflexivity|].
  destruct (existsb (String.eqb p) cols); reflexivity.
Qed.
Theorem change_sets_std_type cols l name r r' : change_std cols l name r = Ok r' -> rowget r' "std_type" = VS name.
Proof. unfold change_std. destruct (lget l name); [|discriminate]. intros H. inversion H. reflexivity. Qed.

(* "sets every parameter defined by the type" is false without the column guard *)
Theorem change_full_refuted : exists cols l name r r' ty p v,
  change_std cols l name r = Ok r' /\ lget l name = Some ty /\ lookup ty p = Some v /\ rowget r' p <> v.
Proof.
  exists ["r_ohm_per_km"], [("T", [("r_ohm_per_km", q 1 8); ("alpha", q 1 256)])], "T", [("r_ohm_per_km", q 1 2)],
         [("std_type", VS "T"); ("r_ohm_per_km", q 1 8); ("r_ohm_per_km", q 1 2)],
         [("r_ohm_per_km", q 1 8); ("alpha", q 1 256)], "alpha", (q 1 256).
  repeat split; try reflexivity. vm_compute. discriminate.
Qed.

(* a changed row equals a freshly created one on the type columns under the guard G25_fresh *)
Theorem change_fresh_partial cols l name r r' ty stdcols :
  change_std cols l name r = Ok r' -> lget l name = Some ty -> G25_fresh stdcols ty r = true ->
  forall c, In c stdcols -> G25_col cols c = true -> String.eqb "std_type" c = false ->
  rowget r' c = valof (lookup ty c).
Proof.
  intros H Hl Hg c Hc Hcol Hs. unfold G25_fresh in Hg. rewrite forallb_forall in Hg. specialize (Hg c Hc).
  destruct (lookup ty c) as [v|] eqn:L.
  - simpl. eapply change_sets_partial; eassumption.
  - simpl. rewrite (change_keeps cols l name r r' ty c H Hl Hs (or_intror L)).
    unfold has in Hg. rewrite L in Hg. simpl in Hg. apply isnanc_eq. exact Hg.
Qed.
(* without it a stale parameter of the previous type survives *)
Theorem change_fresh_refuted : exists cols l name r r' ty c,
  change_std cols l name r = Ok r' /\ lget l name = Some ty /\ G25_col cols c = true /\ rowget r' c <> valof (lookup ty c).
Proof.
  exists ["sn_mva"; "tap_step_percent"], [("B", [("sn_mva", q 25 1)])], "B", [("sn_mva", q 40 1); ("tap_step_percent", q 3 2)],
         [("std_type", VS "B"); ("sn_mva", q 25 1); ("sn_mva", q 40 1); ("tap_step_percent", q 3 2)], [("sn_mva", q 25 1)],
         "tap_step_percent".
  repeat split; try reflexivity. vm_compute. discriminate.
Qed.

(* ------------------------------------------------------------ created from a type == created from explicit parameters *)
Lemma lookup_app a b k : lookup (a ++ b) k = match lookup a k with Some v => Some v | None => lookup b k end.
Proof.
  induction a as [|[k' v] a IH]; simpl; [reflexivity|]. destruct (String.eqb k' k); [reflexivity | exact IH].
Qed.

Theorem created_eq_explicit ds de c : ce_ok ds de c = true ->
  forall std a ex ex', has a c = false ->
  single_val (spec_of ds c) ex std a = single_val (spec_of de c) ex' [] (a ++ std).
Proof.
  unfold ce_ok. intros H std a ex ex' Ha. unfold has in Ha.
  assert (L : lookup (a ++ std) c = lookup std c) by (rewrite lookup_app; destruct (lookup a c); [discriminate | reflexivity]).
  destruct (spec_of ds c) as [s|? ? ? ?]; [|discriminate].
  destruct s as [n d|p|p|p d0|x| |n fb|p]; try discriminate.
  - (* SStd *) destruct (spec_of de c) as [t|? ? ? ?]; [|discriminate]. destruct t; try discriminate.
    apply andb_true_iff in H. destruct H as [H H3]. apply andb_true_iff in H. destruct H as [H1 H2].
    apply String.eqb_eq in H1. apply String.eqb_eq in H2. apply isnanc_eq in H3. subst.
    simpl. unfold getarg. rewrite L. destruct (lookup std c); reflexivity.
  - (* SStdOpt *) destruct (spec_of de c) as [t|b qd e g].
    + destruct t; try discriminate.
      apply andb_true_iff in H. destruct H as [H H3]. apply andb_true_iff in H. destruct H as [H1 H2].
      apply String.eqb_eq in H1. apply String.eqb_eq in H2. apply isnanc_eq in H3. subst.
      simpl. unfold getarg. rewrite L. destruct (lookup std c); reflexivity.
    + destruct qd; try discriminate. destruct e; try discriminate.
      apply andb_true_iff in H. destruct H as [H1 H2].
      apply String.eqb_eq in H1. apply String.eqb_eq in H2. subst.
      simpl. unfold getarg. rewrite L. destruct (lookup std c) as [v|]; simpl.
      * destruct (isnanc v) eqn:E; [|reflexivity]. apply isnanc_eq in E. subst. destruct ex'; reflexivity.
      * destruct ex'; reflexivity.
  - (* SStdGet *) destruct (spec_of de c) as [t|? ? ? ?]; [|discriminate]. destruct t; try discriminate.
    apply andb_true_iff in H. destruct H as [H H3]. apply andb_true_iff in H. destruct H as [H1 H2].
    apply String.eqb_eq in H1. apply String.eqb_eq in H2. apply cell_eqb_eq in H3. subst.
    simpl. unfold getarg. rewrite L. destruct (lookup std c); reflexivity.
Qed.

Lemma ce_trafo : forallb (ce_ok d_trafo_s d_trafo_par) trafo_type_params = true.
Proof. reflexivity. Qed.
Lemma ce_line_copied : forallb (ce_ok d_line_s d_line_par) (line_type_params_copied ++ ["r0_ohm_per_km"; "x0_ohm_per_km"; "c0_nf_per_km"]) = true.
Proof. reflexivity. Qed.
Lemma ce_line_not : filter (fun c => negb (ce_ok d_line_s d_line_par c)) line_type_params = ["alpha"; "endtemp_degree"].
Proof. reflexivity. Qed.
Lemma ce_t3_copied : forallb (ce_ok d_t3_s d_t3_par) t3_type_params_copied = true.
Proof. reflexivity. Qed.
Lemma ce_t3_not : filter (fun c => negb (ce_ok d_t3_s d_t3_par c)) t3_type_params =
  ["vk0_hv_percent"; "vk0_mv_percent"; "vk0_lv_percent"; "vkr0_hv_percent"; "vkr0_mv_percent"; "vkr0_lv_percent"; "vector_group"].
Proof. reflexivity. Qed.

(* the full statement fails for lines (endtemp_degree, alpha) and 3W transformers (zero-sequence data, vector group) *)
Theorem created_line_refuted : exists std a c,
  has a c = false /\ single_val (spec_of d_line_s c) false std a <> single_val (spec_of d_line_par c) false [] (a ++ std).
Proof.
  exists [("r_ohm_per_km", q 1 8); ("endtemp_degree", q 70 1)], [("length_km", q 1 1)], "endtemp_degree".
  split; [reflexivity|]. vm_compute. discriminate.
Qed.
Theorem created_t3_refuted : exists std a c,
  has a c = false /\ single_val (spec_of d_t3_s c) false std a <> single_val (spec_of d_t3_par c) false [] (a ++ std).
Proof.
  exists [("vk0_hv_percent", q 1 1)], [("hv_bus", q 0 1)], "vk0_hv_percent".
  split; [reflexivity|]. vm_compute. discriminate.
Qed.
