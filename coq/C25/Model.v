(* C25 — standard types (pandapower/std_types.py) and their application by the create functions.
   The type library net.std_types[element] is a python dict name -> parameter dict: modelled as an
   association list with dict semantics (update replaces, pop removes).  Parameter dicts, rows and the
   create descriptors are those of C24/Model.v (amap, cell, desc, ev, single_col).
   Executable definitions only. *)
From Coq Require Import ZArith QArith List Bool String.
From PPV Require Import Base.QN Base.Out C24.Model.
Import ListNotations.
Open Scope string_scope.
Open Scope list_scope.

Definition lib := list (string * amap).
Fixpoint lget (l : lib) (k : string) : option amap :=
  match l with [] => None | (k', v) :: t => if String.eqb k' k then Some v else lget t k end.
Definition lhas (l : lib) (k : string) : bool := match lget l k with Some _ => true | None => false end.
(* dict.update({k: v}): replace in place, else append *)
Fixpoint lset (l : lib) (k : string) (v : amap) : lib :=
  match l with
  | [] => [(k, v)]
  | (k', v') :: t => if String.eqb k' k then (k', v) :: t else (k', v') :: lset t k v
  end.
Fixpoint ldel (l : lib) (k : string) : lib :=
  match l with [] => [] | (k', v') :: t => if String.eqb k' k then ldel t k else (k', v') :: ldel t k end.

Inductive res (A : Type) := Ok (a : A) | Err (e : string).
Arguments Ok {A}. Arguments Err {A}.

(* create_std_type (std_types.py:40-107); req = required_std_type_parameters(element) *)
Definition create_std (req : list string) (l : lib) (data : amap) (name : string) (overwrite check : bool) : res lib :=
  if check && negb (forallb (has data) req) then Err "UserWarning"
  else Ok (if overwrite || negb (lhas l name) then lset l name data else l).
(* copy_std_types (:138-150): create_std_type for every item of the source, check_required = True *)
(* returns the library reached and whether an item raised (the items before it stay copied) *)
Fixpoint copy_std (req : list string) (dst src : lib) (overwrite : bool) : lib * bool :=
  match src with
  | [] => (dst, false)
  | (n, d) :: t => match create_std req dst d n overwrite true with Ok dst' => copy_std req dst' t overwrite | Err e => (dst, true) end
  end.
(* load_std_type (:153-170) *)
Definition load_std (l : lib) (name : string) : res amap :=
  match lget l name with Some d => Ok d | None => Err "UserWarning" end.
(* delete_std_type (:189-202) *)
Definition delete_std (l : lib) (name : string) : res lib :=
  if lhas l name then Ok (ldel l name) else Err "UserWarning".
(* rename_std_type (:205-220): library[new] = library.pop(old); the element table's std_type column follows *)
Definition rename_std (l : lib) (old new : string) : res lib :=
  match lget l old with
  | None => Err "UserWarning"
  | Some d => if lhas l new then Err "UserWarning" else Ok (lset (ldel l old) new d)
  end.
Definition rename_col (col : list cell) (old new : string) : list cell :=
  map (fun c => match c with VS s => if String.eqb s old then VS new else c | _ => c end) col.

Inductive op :=
| OCreate (data : amap) (name : string) (overwrite check : bool)
| ODelete (name : string)
| ORename (old new : string)
| OCopy (src : lib) (overwrite : bool).
Definition keep (l : lib) (r : res lib) : lib := match r with Ok l' => l' | Err _ => l end.
(* library after the call; a raising create/delete/rename leaves it as it was, a raising copy keeps the copied part *)
Definition step (req : list string) (l : lib) (o : op) : lib :=
  match o with
  | OCreate d n ow ck => keep l (create_std req l d n ow ck)
  | ODelete n => keep l (delete_std l n)
  | ORename a b => keep l (rename_std l a b)
  | OCopy s ow => fst (copy_std req l s ow)
  end.
Fixpoint run_ops (req : list string) (l : lib) (ops : list op) : lib :=
  match ops with [] => l | o :: t => run_ops req (step req l o) t end.

(* ---- abstract finite map (the specification side): name -> option data *)
Definition fmap := string -> option amap.
Definition fupd (f : fmap) (k : string) (v : option amap) : fmap := fun x => if String.eqb k x then v else f x.
Definition spec_step (req : list string) (f : fmap) (o : op) : fmap :=
  match o with
  | OCreate d n ow ck =>
      if ck && negb (forallb (has d) req) then f
      else if ow || (match f n with Some _ => false | None => true end) then fupd f n (Some d) else f
  | ODelete n => match f n with Some _ => fupd f n None | None => f end
  | ORename a b => match f a, f b with Some d, None => fupd (fupd f a None) b (Some d) | _, _ => f end
  | OCopy s ow =>
      (* items are created one by one until one raises *)
      (fix go (f : fmap) (s : lib) : fmap :=
         match s with
         | [] => f
         | (n, d) :: t =>
             if negb (forallb (has d) req) then f
             else go (if ow || (match f n with Some _ => false | None => true end) then fupd f n (Some d) else f) t
         end) f s
  end.

(* ---- change_std_type (:277-293): only the existing columns that the type defines are written *)
Definition rowget (r : amap) (c : string) : cell := match lookup r c with Some v => v | None => VNaN end.
Fixpoint change_cols (cols : list string) (ty : amap) (r : amap) : amap :=
  match cols with
  | [] => r
  | c :: t => change_cols t ty (match lookup ty c with Some v => (c, v) :: r | None => r end)
  end.
Definition change_std (cols : list string) (l : lib) (name : string) (r : amap) : res amap :=
  match lget l name with
  | None => Err "UserWarning"
  | Some ty => Ok (("std_type", VS name) :: change_cols cols ty r)
  end.
(* guard of the partial theorem: the table has a column for the parameter *)
Definition G25_col (cols : list string) (p : string) : bool := existsb (String.eqb p) cols.
(* guard under which a changed row equals a freshly created one on the std columns: every parameter the row
   holds from its previous type is redefined by the new type *)
Definition G25_fresh (stdcols : list string) (ty : amap) (r : amap) : bool :=
  forallb (fun c => has ty c || isnanc (rowget r c)) stdcols.

(* ---- created from a type  vs  created from explicit parameters with the type's values *)
(* the value one single create call writes into a column (C24.Model.single_col appends exactly this) *)
Definition single_val (sp : colspec) (ex : bool) (std a : amap) : cell :=
  match sp with
  | Man s => valof (ev ex std a s)
  | Opt n pyd dflt _ => let v := getarg a n pyd in if isnanc v then (if ex then dflt else VNaN) else v
  end.
(* column c of the from-type function takes type parameter c; the explicit function takes argument c with the
   same default *)
Definition ce_ok (ds de : desc) (c : string) : bool :=
  match spec_of ds c, spec_of de c with
  | Man (SStd p), Man (SArg q d) | Man (SStdOpt p), Man (SArg q d) => String.eqb p c && String.eqb q c && isnanc d
  | Man (SStdGet p d0), Man (SArg q d) => String.eqb p c && String.eqb q c && cell_eqb d0 d
  | Man (SStdOpt p), Opt q VNaN VNaN _ => String.eqb p c && String.eqb q c
  | _, _ => false
  end.

(* explicit-parameter descriptors: line_create.py:636-669, trafo_create.py:408-499, :1068-1115
   (NaN-default optional columns are plain arguments at value level, C24 opt_nan_spec) *)
Definition argn (n : string) := (n, Man (SArg n VNaN)).
Definition d_line_par : desc := {| d_table := "line"; d_idxtab := "line"; d_nodes := line_nodes; d_pos := []; d_req := [];
  d_cols := map argn ["from_bus"; "to_bus"; "length_km"; "r_ohm_per_km"; "x_ohm_per_km"; "c_nf_per_km"; "max_i_ka"; "type";
                      "max_loading_percent"; "alpha"; "temperature_degree_celsius"; "endtemp_degree"]
            ++ [arg "in_service" T; arg "df" (N 1); arg "parallel" (N 1); arg "g_us_per_km" (N 0)]
            ++ [("r0_ohm_per_km", Opt "r0_ohm_per_km" VNaN VNaN false); ("x0_ohm_per_km", Opt "x0_ohm_per_km" VNaN VNaN false);
                ("c0_nf_per_km", Opt "c0_nf_per_km" VNaN VNaN false)] |}.
Definition d_trafo_par : desc := {| d_table := "trafo"; d_idxtab := "trafo"; d_nodes := trafo_nodes; d_pos := ["df"]; d_req := [];
  d_cols := map argn (["hv_bus"; "lv_bus"] ++ trafo_req ++
                      ["tap_neutral"; "tap_max"; "tap_min"; "tap_side"; "tap_step_percent"; "tap_step_degree"; "tap_changer_type";
                       "tap2_neutral"; "tap2_max"; "tap2_min"; "tap2_side"; "tap2_step_percent"; "tap2_step_degree"; "tap2_changer_type";
                       "vk0_percent"; "vkr0_percent"; "mag0_percent"; "mag0_rx"; "si0_hv_partial"; "vector_group";
                       "max_loading_percent"; "id_characteristic_table"; "pt_percent"; "xn_ohm"])
            ++ [arg "in_service" T; arg "parallel" (N 1); arg "df" (N 1); arg "shift_degree" (N 0);
                ("tap_pos", Man (SArgOr "tap_pos" (SArg "tap_neutral" VNaN)));
                ("tap2_pos", Man (SArgOr "tap2_pos" (SArg "tap2_neutral" VNaN)))] |}.
Definition d_t3_par : desc := {| d_table := "trafo3w"; d_idxtab := "trafo3w"; d_nodes := t3_nodes; d_pos := []; d_req := [];
  d_cols := map argn (["hv_bus"; "mv_bus"; "lv_bus"] ++ t3_req ++
                      ["tap_neutral"; "tap_max"; "tap_min"; "tap_side"; "tap_step_percent"; "tap_step_degree"; "tap_changer_type";
                       "vk0_hv_percent"; "vk0_mv_percent"; "vk0_lv_percent"; "vkr0_hv_percent"; "vkr0_mv_percent"; "vkr0_lv_percent";
                       "vector_group"; "max_loading_percent"; "id_characteristic_table"])
            ++ [arg "in_service" T; arg "tap_at_star_point" F; arg "shift_mv_degree" (N 0); arg "shift_lv_degree" (N 0);
                ("tap_pos", Man (SArgOr "tap_pos" (SArg "tap_neutral" VNaN)))] |}.

(* the type parameters each from_parameters function accepts (= what "created from explicit parameters with the
   type's values" can carry) *)
Definition line_type_params := ["r_ohm_per_km"; "x_ohm_per_km"; "c_nf_per_km"; "max_i_ka"; "g_us_per_km"; "type";
                                "r0_ohm_per_km"; "x0_ohm_per_km"; "c0_nf_per_km"; "alpha"; "endtemp_degree"].
Definition line_type_params_copied := ["r_ohm_per_km"; "x_ohm_per_km"; "c_nf_per_km"; "max_i_ka"; "g_us_per_km"; "type"].
Definition trafo_type_params := trafo_req ++
  ["shift_degree"; "tap_neutral"; "tap_max"; "tap_min"; "tap_side"; "tap_step_percent"; "tap_step_degree";
   "tap2_neutral"; "tap2_max"; "tap2_min"; "tap2_side"; "tap2_step_percent"; "tap2_step_degree"; "tap2_changer_type";
   "vk0_percent"; "vkr0_percent"; "mag0_percent"; "mag0_rx"; "si0_hv_partial"; "vector_group"].
Definition t3_type_params_copied := t3_req ++
  ["shift_mv_degree"; "shift_lv_degree"; "tap_neutral"; "tap_max"; "tap_min"; "tap_side"; "tap_step_percent"; "tap_step_degree"].
Definition t3_type_params := t3_type_params_copied ++
  ["vk0_hv_percent"; "vk0_mv_percent"; "vk0_lv_percent"; "vkr0_hv_percent"; "vkr0_mv_percent"; "vkr0_lv_percent"; "vector_group"].

(* ---- output *)
Definition oamap (m : amap) : out := olist (fun p => OL [OS (fst p); ocell (snd p)]) m.
Definition olib (l : lib) : out := olist (fun p => OL [OS (fst p); oamap (snd p)]) l.
Definition req_of (el : string) : list string :=
  if String.eqb el "line" then line_req else if String.eqb el "trafo" then trafo_req ++ ["shift_degree"]
  else if String.eqb el "trafo3w" then t3_req ++ ["shift_mv_degree"; "shift_lv_degree"] else ["fuse_type"; "i_rated_a"].
(* library after the op sequence + result of load_std_type for the queried names *)
Definition run_lib (el : string) (l : lib) (ops : list op) (queries : list string) : out :=
  let l' := run_ops (req_of el) l ops in
  OL [olib l'; olist (fun q => match load_std l' q with Ok d => oamap d | Err e => OErr e end) queries].
Definition run_change (cols : list string) (l : lib) (name : string) (r : amap) (q : list string) : out :=
  match change_std cols l name r with
  | Err e => OErr e
  | Ok r' => olist (fun c => ocell (rowget r' c)) q
  end.
(* one from-type create call and one explicit call: value per queried column *)
Definition run_ce (ds de : desc) (std a : amap) (q : list (string * bool)) : out :=
  OL [olist (fun c => ocell (single_val (spec_of ds (fst c)) (snd c) std a)) q;
      olist (fun c => ocell (single_val (spec_of de (fst c)) (snd c) [] (a ++ std))) q].
Definition run_ce_kind (k : string) (std a : amap) (q : list (string * bool)) : out :=
  if String.eqb k "line" then run_ce d_line_s d_line_par std a q else
  if String.eqb k "trafo" then run_ce d_trafo_s d_trafo_par std a q else
  if String.eqb k "trafo3w" then run_ce d_t3_s d_t3_par std a q else OErr "kind".

(* ==================================================================== rename_std_type with the element table (:205-220)
   library[new] = library.pop(old); net[element].loc[net[element].std_type == old, "std_type"] = new.
   A table is a list of rows; a write prepends the binding (rowget reads the newest).  The "fuse" library has no element
   table (tab = None): before the repair net["fuse"] raised KeyError AFTER the library had been changed. *)
Definition row_type (r : amap) : cell := rowget r "std_type".
Definition rename_row (old new : string) (r : amap) : amap :=
  match row_type r with VS s => if String.eqb s old then ("std_type", VS new) :: r else r | _ => r end.
(* state after the call and the exception raised, if any.  raises = true is the rule before "fix: rename_std_type no longer
   raises KeyError for libraries without an element table" (KeyError for a kind without table, after the library had been
   changed); raises = false is the rule as it is in /repo now (:220-222: the table is only touched when it exists) *)
Definition rename_net_gen (raises : bool) (l : lib) (tab : option (list amap)) (old new : string)
  : lib * option (list amap) * option string :=
  match rename_std l old new with
  | Err e => (l, tab, Some e)
  | Ok l' => match tab with
             | Some t => (l', Some (map (rename_row old new) t), None)
             | None => (l', None, if raises then Some "KeyError" else None)
             end
  end.
Definition RENAME_TABLELESS_RAISES := false.      (* the repair is in /repo *)
Definition rename_net := rename_net_gen RENAME_TABLELESS_RAISES.
(* the type data an element refers to *)
Definition resolve (l : lib) (r : amap) : option amap := match row_type r with VS s => lget l s | _ => None end.
(* G25r: the element kind has a table (line, trafo, trafo3w, line_dc: yes; fuse: no) *)
Definition G25r (tab : option (list amap)) : bool := match tab with Some _ => true | None => false end.

(* ==================================================================== change_std_type versus a fresh element of the new type
   fresh_val ds ty c = what create_<element>(std_type = ty) (descriptor ds of C24) writes into column c of a table that has the
   column, without an explicit argument for it.  A column is a type column when its value comes from the type parameter of the
   same name (std_type[c], `if c in std_type`, std_type.get(c, default), possibly behind an argument that was not passed). *)
Definition fresh_val (ds : desc) (ty : amap) (c : string) : cell := single_val (spec_of ds c) true ty [].
Fixpoint src_param (s : src) : option string :=
  match s with SStd p | SStdOpt p | SStdGet p _ | SStdIfCol p => Some p | SArgOr _ fb => src_param fb | _ => None end.
Definition type_col (ds : desc) (c : string) : bool :=
  match spec_of ds c with Man s => match src_param s with Some p => String.eqb p c | None => false end | Opt _ _ _ _ => false end.
(* the columns change_std_type writes *)
Definition written_cols (cols : list string) (ty : amap) : list string := "std_type" :: filter (has ty) cols.
(* the stale columns: type columns of the table that the new type does not define and whose old value is not what a fresh
   element of the new type would hold *)
Definition stale_cols (ds : desc) (cols : list string) (ty r : amap) : list string :=
  filter (fun c => type_col ds c && negb (String.eqb "std_type" c) && negb (has ty c) && negb (cell_eqb (rowget r c) (fresh_val ds ty c))) cols.
Definition G25_nostale (ds : desc) (cols : list string) (ty r : amap) : bool :=
  match stale_cols ds cols ty r with [] => true | _ => false end.
Definition desc_of (el : string) : desc :=
  if String.eqb el "line" then d_line_s else if String.eqb el "trafo" then d_trafo_s else d_t3_s.

(* [row after the change on the queried columns; written columns; stale columns; type columns among cols] *)
Definition run_change2 (el : string) (cols : list string) (l : lib) (name : string) (r : amap) (q : list string) : out :=
  match change_std cols l name r, lget l name with
  | Ok r', Some ty => OL [olist (fun c => ocell (rowget r' c)) q; olist OS (written_cols cols ty);
                          olist OS (stale_cols (desc_of el) cols ty r); olist OS (filter (type_col (desc_of el)) cols);
                          olist (fun c => ocell (fresh_val (desc_of el) ty c)) (filter (type_col (desc_of el)) cols)]
  | Err e, _ => OErr e
  | _, None => OErr "UserWarning"
  end.
(* library, std_type column of the table and raised exception after rename_std_type *)
Definition run_rename (l : lib) (tab : option (list amap)) (old new : string) (queries : list string) : out :=
  let '(l', t', e) := rename_net l tab old new in
  OL [olib l'; oopt (olist (fun r => ocell (row_type r))) t'; oopt OS e;
      olist (fun q => match load_std l' q with Ok d => oamap d | Err e => OErr e end) queries].
