(* C15 — multiprocessing.Pool.map as used by contingency_parallel.py:114-116, with the worker
   _run_single_contingency (:13-44) on explicit net state.  Executable definitions only.

   Pool.map(func, tasks):  the task list is cut into consecutive chunks of `chunksize` tasks
   (CPython Pool._map_async: chunksize = ceil(len(tasks) / (4 * processes)) when not given); every chunk is one pickled
   job (func, chunk): the worker that takes it unpickles func — and with it the `net` bound by functools.partial
   (:109) — ONCE PER CHUNK and evaluates the tasks of the chunk in order on that copy; the per-chunk result lists are
   concatenated in chunk (= task) order.  Which worker takes which chunk, and in which order the chunks are started,
   is up to the scheduler.

   state   = in_service flags of all element rows (line ++ trafo ++ trafo3w ++ bus)
   task    = (label of the outage, its row position)
   The model also offers `persist = true`: a worker keeps its net from one chunk to its next one (what a pool with an
   initializer-owned net would do); the code as it is corresponds to persist = false. *)
From Coq Require Import ZArith QArith List Bool.
From PPV Require Import Base.QN Base.Out C14.Model.
Import ListNotations.

Definition state := list bool.
Definition task := (label * nat)%type.
Definition evalS := state -> option (list F).             (* deterministic evaluation; None = it raises *)
(* result pack (:28-33, :44): case, success -> (in_service of the evaluated copy, res values) *)
Definition wpack := (label * option (state * list F))%type.

(* the worker as it is (:19-23): copy.copy(net) + deepcopy of the element table, outage set on the COPY; the net the
   worker holds is never written.  Returns (net held by the worker afterwards, pack). *)
Definition work_copy (ev : evalS) (st : state) (t : task) : state * wpack :=
  let st1 := set_nth st (snd t) false in
  (st, (fst t, match ev st1 with Some v => Some (st1, v) | None => None end)).

(* seeded variant C15-m2: no deepcopy — the outage is toggled on the element table shared by the tasks of a chunk and
   switched back on only on the success path (the restore is missing on the exception path) *)
Definition work_shared (ev : evalS) (st : state) (t : task) : state * wpack :=
  let st1 := set_nth st (snd t) false in
  match ev st1 with
  | Some v => (set_nth st1 (snd t) true, (fst t, Some (st1, v)))
  | None => (st1, (fst t, None))
  end.

Definition worker := state -> task -> state * wpack.

(* a worker evaluates the tasks of one chunk in order on the net it holds (mapstar) *)
Fixpoint run_chunk (work : worker) (st : state) (ts : list task) : state * list wpack :=
  match ts with
  | [] => (st, [])
  | t :: ts' => let (st1, p) := work st t in
                let (st2, ps) := run_chunk work st1 ts' in (st2, p :: ps)
  end.

(* Pool._get_tasks: consecutive chunks of k tasks (the last one may be shorter); fuel = number of tasks *)
Fixpoint chunks_f {A} (fuel k : nat) (l : list A) : list (list A) :=
  match fuel with
  | O => []
  | S f => match l with
           | [] => []
           | _ :: _ => firstn k l :: chunks_f f k (skipn k l)
           end
  end.
Definition chunks {A} (k : nat) (l : list A) : list (list A) := chunks_f (length l) k l.

(* Pool._map_async default: chunksize, extra = divmod(len(tasks), 4 * processes); if extra: chunksize += 1 *)
Definition pool_chunksize (ntasks procs : nat) : nat :=
  let d := (4 * procs)%nat in
  (ntasks / d + (if Nat.eqb (ntasks mod d) 0 then 0 else 1))%nat.

(* the scheduler: chunk indices in the order they are started, and the worker that takes each of them *)
Definition lookup_state (ws : list (nat * state)) (w : nat) (st0 : state) : state :=
  match find (fun e => Nat.eqb (fst e) w) ws with Some e => snd e | None => st0 end.
Fixpoint run_sched (work : worker) (persist : bool) (st0 : state) (chs : list (list task))
         (assign : nat -> nat) (order : list nat) (ws : list (nat * state)) : list (nat * list wpack) :=
  match order with
  | [] => []
  | i :: rest =>
      let w := assign i in
      let start := if persist then lookup_state ws w st0 else st0 in      (* unpickled per chunk: st0 *)
      let (st', ps) := run_chunk work start (nth i chs []) in
      (i, ps) :: run_sched work persist st0 chs assign rest ((w, st') :: ws)
  end.
Definition chunk_result (rs : list (nat * list wpack)) (i : nat) : list wpack :=
  match find (fun e => Nat.eqb (fst e) i) rs with Some e => snd e | None => [] end.

(* Pool.map: results of the chunks concatenated in chunk order *)
Definition pool_map_chunked (work : worker) (persist : bool) (st0 : state) (k : nat) (assign : nat -> nat)
           (order : list nat) (tasks : list task) : list wpack :=
  let chs := chunks k tasks in
  let rs := run_sched work persist st0 chs assign order [] in
  flat_map (chunk_result rs) (seq 0 (length chs)).

(* ---- spec side: every task evaluated on a fresh copy of the initial net with its own outage only *)
Definition plain_pack (ev : evalS) (st0 : state) (t : task) : wpack :=
  let st1 := set_nth st0 (snd t) false in
  (fst t, match ev st1 with Some v => Some (st1, v) | None => None end).

(* the sequential path on the net itself (:129-143): outage, evaluation, finally: back in service *)
Fixpoint seq_packs (ev : evalS) (st : state) (ts : list task) : state * list wpack :=
  match ts with
  | [] => (st, [])
  | t :: ts' =>
      let st1 := set_nth st (snd t) false in
      let p := (fst t, match ev st1 with Some v => Some (st1, v) | None => None end) in
      let (st2, ps) := seq_packs ev (set_nth st1 (snd t) true) ts' in (st2, p :: ps)
  end.
(* tasks are built only for in-service elements (:104-107) *)
Definition tasks_in_service (st0 : state) (ts : list task) : bool := forallb (fun t => nth (snd t) st0 false) ts.
(* guard of the partial statement for the shared-state variant: no evaluation raises *)
Definition all_succeed (ev : evalS) (st0 : state) (ts : list task) : bool :=
  forallb (fun t => match ev (set_nth st0 (snd t) false) with Some _ => true | None => false end) ts.

(* tie to the aggregation model (C15.Model.pack): observations = in_service of the copy, value, limit *)
Definition obs_rows (lims : list F) (sv : state * list F) : list obs :=
  zipw (fun iv l => {| o_in := fst iv; o_val := snd iv; o_lim := l |}) (zipw pair (fst sv) (snd sv)) lims.
Definition to_pack (lims : list F) (p : wpack) : label * option (list obs) :=
  (fst p, match snd p with Some sv => Some (obs_rows lims sv) | None => None end).

(* ---- output for the correspondence run: the evaluation function as a finite table *)
Fixpoint beq_list (a b : list bool) : bool :=
  match a, b with
  | [], [] => true
  | x :: a', y :: b' => Bool.eqb x y && beq_list a' b'
  | _, _ => false
  end.
(* a state that is not in the table counts as "raises" (the harness logs every state the real run evaluates) *)
Definition ev_table (tb : list (state * option (list F))) : evalS :=
  fun st => match find (fun e => beq_list (fst e) st) tb with Some e => snd e | None => None end.
Definition owpack (p : wpack) : out :=
  OL [ OL [onat (fst (fst p)); OZ (snd (fst p))];
       match snd p with
       | Some (st, v) => OL [olist OB st; olist ooq v]
       | None => ONone
       end ].
Definition run_chunked_out (work : worker) (persist : bool) (st0 : state) (k : nat) (assign : list nat)
           (order : list nat) (tasks : list task) : out :=
  OL [ olist (olist (fun t => OZ (snd (fst t)))) (chunks k tasks);
       olist owpack (pool_map_chunked work persist st0 k (fun i => nth i assign 0%nat) order tasks) ].
