From Coq Require Import ZArith QArith List Bool Lia Lqa Permutation.
From PPV Require Import Base.QN C14.Model C14.Proofs C15.Model.
Import ListNotations.
Open Scope Q_scope.

Lemma par_eq_seq_cases tasks ev : par_cases (pool_map tasks ev) = seq_cases tasks ev.
Proof.
  unfold par_cases, seq_cases, pool_map. induction tasks as [|t tasks IH]; cbn; [reflexivity|].
  rewrite IH. reflexivity.
Qed.

Lemma par_eq_seq n tasks ev : run_par n (pool_map tasks ev) = run_seq n tasks ev.
Proof. unfold run_par, run_seq. rewrite par_eq_seq_cases. reflexivity. Qed.

(* ---- order independence of the extremes *)
Lemma is_max_unique m m' vs : is_max m vs -> is_max m' vs -> m == m'.
Proof.
  intros [[v [Hv Hvm]] Hall] [[v' [Hv' Hvm']] Hall'].
  apply Qle_antisym.
  - rewrite <- Hvm. apply Hall'. exact Hv.
  - rewrite <- Hvm'. apply Hall. exact Hv'.
Qed.
Lemma is_min_unique m m' vs : is_min m vs -> is_min m' vs -> m == m'.
Proof.
  intros [[v [Hv Hvm]] Hall] [[v' [Hv' Hvm']] Hall'].
  apply Qle_antisym.
  - rewrite <- Hvm'. apply Hall. exact Hv'.
  - rewrite <- Hvm. apply Hall'. exact Hv.
Qed.
Lemma is_max_perm m vs vs' : Permutation vs vs' -> is_max m vs -> is_max m vs'.
Proof.
  intros P [[v [Hv Hvm]] Hall]. split.
  - exists v. split; [eapply Permutation_in; eassumption | exact Hvm].
  - intros u Hu. apply Hall. eapply Permutation_in; [apply Permutation_sym; exact P | exact Hu].
Qed.
Lemma is_min_perm m vs vs' : Permutation vs vs' -> is_min m vs -> is_min m vs'.
Proof.
  intros P [[v [Hv Hvm]] Hall]. split.
  - exists v. split; [eapply Permutation_in; eassumption | exact Hvm].
  - intros u Hu. apply Hall. eapply Permutation_in; [apply Permutation_sym; exact P | exact Hu].
Qed.
Lemma valid_vals_perm l l' : Permutation l l' -> Permutation (valid_vals l) (valid_vals l').
Proof. intros P. unfold valid_vals. apply Permutation_flat_map. exact P. Qed.

Lemma max_order_independent l l' :
  Permutation l l' -> feq (mx (run_col l acc0)) (mx (run_col l' acc0)).
Proof.
  intros P. pose proof (max_is_spec_max l) as H. pose proof (max_is_spec_max l') as H'.
  pose proof (valid_vals_perm l l' P) as PV.
  destruct (mx (run_col l acc0)) as [m|], (mx (run_col l' acc0)) as [m'|]; cbn.
  - apply (is_max_unique m m' (valid_vals l')); [apply (is_max_perm m (valid_vals l)); assumption | exact H'].
  - rewrite H' in PV. apply Permutation_sym, Permutation_nil in PV. destruct H as [[v [Hv _]] _]. rewrite PV in Hv. destruct Hv.
  - rewrite H in PV. apply Permutation_nil in PV. destruct H' as [[v [Hv _]] _]. rewrite PV in Hv. destruct Hv.
  - exact I.
Qed.
Lemma min_order_independent l l' :
  Permutation l l' -> feq (mn (run_col l acc0)) (mn (run_col l' acc0)).
Proof.
  intros P. pose proof (min_is_spec_min l) as H. pose proof (min_is_spec_min l') as H'.
  pose proof (valid_vals_perm l l' P) as PV.
  destruct (mn (run_col l acc0)) as [m|], (mn (run_col l' acc0)) as [m'|]; cbn.
  - apply (is_min_unique m m' (valid_vals l')); [apply (is_min_perm m (valid_vals l)); assumption | exact H'].
  - rewrite H' in PV. apply Permutation_sym, Permutation_nil in PV. destruct H as [[v [Hv _]] _]. rewrite PV in Hv. destruct Hv.
  - rewrite H in PV. apply Permutation_nil in PV. destruct H' as [[v [Hv _]] _]. rewrite PV in Hv. destruct Hv.
  - exact I.
Qed.

(* column of a permuted case list is a permutation of the column *)
Lemma col_perm j cases cases' : Permutation cases cases' -> Permutation (col j cases) (col j cases').
Proof. intros P. unfold col. apply Permutation_flat_map. exact P. Qed.

(* in any aggregation order the cause still attains the maximum (ties may name different outages) *)
Lemma cause_attains_any_order l l' :
  Permutation l l' -> attains l (cause (run_col l' acc0)) (mx (run_col l' acc0)).
Proof.
  intros P. pose proof (cause_attains_max l') as H. unfold attains in *.
  destruct (mx (run_col l' acc0)) as [mv|]; [|exact I].
  destruct H as (c0 & o & v & H1 & H2 & H3 & H4 & H5). exists c0, o, v.
  repeat split; try assumption. eapply Permutation_in; [apply Permutation_sym; exact P | exact H2].
Qed.

(* an order-dependent field exists: with a tie, the named cause depends on the order *)
Definition tie_l : list (label * obs) :=
  [ ((0%nat, 1%Z), {| o_in := true; o_val := Some 50; o_lim := None |});
    ((0%nat, 2%Z), {| o_in := true; o_val := Some 50; o_lim := None |}) ].
Lemma cause_order_dependent_on_ties :
  exists l l', Permutation l l' /\ cause (run_col l acc0) <> cause (run_col l' acc0).
Proof.
  exists tie_l, (rev tie_l). split; [apply Permutation_rev | vm_compute; discriminate].
Qed.
