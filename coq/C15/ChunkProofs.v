(* C15 — proofs about the Pool.map chunking model C15/Chunk.v *)
From Coq Require Import ZArith QArith List Bool Lia.
From PPV Require Import Base.QN C14.Model C14.Proofs C15.Model C15.Chunk.
Import ListNotations.

(* ---- chunking loses, duplicates and reorders nothing *)
Lemma chunks_f_concat {A} k : (1 <= k)%nat -> forall fuel (l : list A),
  (length l <= fuel)%nat -> concat (chunks_f fuel k l) = l.
Proof.
  intros Hk. induction fuel as [|f IH]; intros l Hl; cbn [chunks_f].
  - destruct l; [reflexivity | cbn in Hl; lia].
  - destruct l as [|a l']; [reflexivity|]. cbn [concat]. rewrite IH.
    + apply firstn_skipn.
    + rewrite skipn_length. cbn [length] in *. lia.
Qed.
Lemma chunks_concat {A} k (l : list A) : (1 <= k)%nat -> concat (chunks k l) = l.
Proof. intros Hk. unfold chunks. apply chunks_f_concat; [exact Hk | lia]. Qed.

Lemma pool_chunksize_pos ntasks procs : (1 <= ntasks)%nat -> (1 <= procs)%nat -> (1 <= pool_chunksize ntasks procs)%nat.
Proof.
  intros Hn Hp. unfold pool_chunksize. set (d := (4 * procs)%nat). assert (Hd : d <> 0%nat) by (unfold d; lia).
  destruct (Nat.eqb (ntasks mod d) 0) eqn:E; [|lia].
  apply Nat.eqb_eq in E. pose proof (Nat.div_mod ntasks d Hd) as H. rewrite E in H.
  destruct (ntasks / d)%nat; lia.
Qed.

(* ---- the worker as it is never writes the net it holds *)
Lemma run_chunk_copy ev st ts : run_chunk (work_copy ev) st ts = (st, map (plain_pack ev st) ts).
Proof.
  induction ts as [|t ts IH]; cbn [run_chunk map]; [reflexivity|].
  unfold work_copy at 1. rewrite IH. reflexivity.
Qed.

(* ---- the scheduler, for any worker whose chunks leave the held net as it was *)
Lemma lookup_stable ws w st0 : Forall (fun e : nat * state => snd e = st0) ws -> lookup_state ws w st0 = st0.
Proof.
  unfold lookup_state. induction 1 as [|e ws He _ IH]; cbn [find]; [reflexivity|].
  destruct (Nat.eqb (fst e) w); [exact He | exact IH].
Qed.

Lemma run_sched_stable work persist st0 chs assign (pp : task -> wpack) :
  (forall i, run_chunk work st0 (nth i chs []) = (st0, map pp (nth i chs []))) ->
  forall order ws, Forall (fun e : nat * state => snd e = st0) ws ->
  run_sched work persist st0 chs assign order ws = map (fun i => (i, map pp (nth i chs []))) order.
Proof.
  intros Hc. induction order as [|i rest IH]; intros ws Hws; cbn [run_sched map]; [reflexivity|].
  assert (Hs : (if persist then lookup_state ws (assign i) st0 else st0) = st0).
  { destruct persist; [apply lookup_stable; exact Hws | reflexivity]. }
  rewrite Hs, Hc. f_equal. apply IH. constructor; [reflexivity | exact Hws].
Qed.

Lemma chunk_result_map (f : nat -> list wpack) order i :
  In i order -> chunk_result (map (fun j => (j, f j)) order) i = f i.
Proof.
  unfold chunk_result. induction order as [|j rest IH]; intros Hin; [destruct Hin|].
  cbn [map find fst]. destruct (Nat.eqb j i) eqn:E.
  - apply Nat.eqb_eq in E. subst. reflexivity.
  - apply IH. destruct Hin as [->|H]; [rewrite Nat.eqb_refl in E; discriminate | exact H].
Qed.

Lemma flat_map_nth_seq {A B} (g : list A -> list B) (l : list (list A)) :
  flat_map (fun i => g (nth i l [])) (seq 0 (length l)) = flat_map g l.
Proof.
  induction l as [|c l IH]; [reflexivity|].
  cbn [length]. rewrite <- cons_seq, <- seq_shift. cbn [flat_map nth]. f_equal.
  rewrite <- IH. rewrite !flat_map_concat_map, map_map. reflexivity.
Qed.

Lemma nth_incl_concat {A} (chs : list (list A)) i : incl (nth i chs []) (concat chs).
Proof.
  intros t Ht. destruct (Nat.lt_ge_cases i (length chs)) as [H|H].
  - apply in_concat. exists (nth i chs []). split; [apply nth_In; exact H | exact Ht].
  - rewrite nth_overflow in Ht by exact H. destruct Ht.
Qed.

(* main lemma: a worker that, on every sub-list of the task list, produces the per-task packs pp and hands the net
   back as it was, makes Pool.map return  map pp tasks  for every chunk size >= 1, every worker assignment, every
   start order that covers all chunks (repetitions allowed), with or without nets persisting across chunks *)
Lemma chunked_stable work persist st0 k assign order tasks (pp : task -> wpack) :
  (forall ts, incl ts tasks -> run_chunk work st0 ts = (st0, map pp ts)) ->
  (1 <= k)%nat -> (forall i, (i < length (chunks k tasks))%nat -> In i order) ->
  pool_map_chunked work persist st0 k assign order tasks = map pp tasks.
Proof.
  intros Hw Hk Hcov. unfold pool_map_chunked.
  assert (Hc : forall i, run_chunk work st0 (nth i (chunks k tasks) []) = (st0, map pp (nth i (chunks k tasks) []))).
  { intros i. apply Hw. rewrite <- (chunks_concat k tasks Hk) at 2. apply nth_incl_concat. }
  rewrite (run_sched_stable work persist st0 _ assign pp Hc order [] (Forall_nil _)).
  rewrite flat_map_concat_map.
  rewrite (map_ext_in _ (fun i => map pp (nth i (chunks k tasks) []))).
  - rewrite <- flat_map_concat_map, (flat_map_nth_seq (map pp)), flat_map_concat_map, <- concat_map,
      (chunks_concat k tasks Hk). reflexivity.
  - intros i Hi. apply in_seq in Hi.
    apply (chunk_result_map (fun j => map pp (nth j (chunks k tasks) []))). apply Hcov. lia.
Qed.

(* the code as it is *)
Lemma chunked_eq_plain ev persist st0 k assign order tasks :
  (1 <= k)%nat -> (forall i, (i < length (chunks k tasks))%nat -> In i order) ->
  pool_map_chunked (work_copy ev) persist st0 k assign order tasks = map (plain_pack ev st0) tasks.
Proof. intros Hk Hcov. apply chunked_stable; [intros ts _; apply run_chunk_copy | exact Hk | exact Hcov]. Qed.

Lemma chunked_schedule_independent ev st0 tasks persist k assign order persist' k' assign' order' :
  (1 <= k)%nat -> (forall i, (i < length (chunks k tasks))%nat -> In i order) ->
  (1 <= k')%nat -> (forall i, (i < length (chunks k' tasks))%nat -> In i order') ->
  pool_map_chunked (work_copy ev) persist st0 k assign order tasks =
  pool_map_chunked (work_copy ev) persist' st0 k' assign' order' tasks.
Proof. intros. rewrite !chunked_eq_plain by assumption. reflexivity. Qed.

(* the sequential path gives the same packs and leaves the net as it was *)
Lemma seq_packs_plain ev st0 tasks :
  tasks_in_service st0 tasks = true -> seq_packs ev st0 tasks = (st0, map (plain_pack ev st0) tasks).
Proof.
  unfold tasks_in_service. induction tasks as [|t ts IH]; intros H; cbn [seq_packs map]; [reflexivity|].
  cbn [forallb] in H. apply andb_true_iff in H. destruct H as [Ht Hts].
  rewrite (set_nth_restore st0 (snd t) Ht), (IH Hts). reflexivity.
Qed.

Lemma chunked_par_eq_seq ev persist st0 k assign order tasks :
  (1 <= k)%nat -> (forall i, (i < length (chunks k tasks))%nat -> In i order) ->
  tasks_in_service st0 tasks = true ->
  pool_map_chunked (work_copy ev) persist st0 k assign order tasks = snd (seq_packs ev st0 tasks).
Proof. intros Hk Hcov Hs. rewrite chunked_eq_plain, seq_packs_plain by assumption. reflexivity. Qed.

(* ... hence the aggregated result (max, min, cause of every row) is the sequential one, for the default chunk
   size of any number of processes *)
Lemma chunked_aggregate_eq_seq n lims ev persist st0 procs assign order tasks :
  (1 <= procs)%nat -> tasks <> [] ->
  (forall i, (i < length (chunks (pool_chunksize (length tasks) procs) tasks))%nat -> In i order) ->
  tasks_in_service st0 tasks = true ->
  run_par n (map (to_pack lims) (pool_map_chunked (work_copy ev) persist st0 (pool_chunksize (length tasks) procs) assign order tasks)) =
  run_par n (map (to_pack lims) (snd (seq_packs ev st0 tasks))).
Proof.
  intros Hp Ht Hcov Hs. rewrite chunked_par_eq_seq; try assumption; [reflexivity|].
  apply pool_chunksize_pos; [destruct tasks; [contradiction | cbn; lia] | exact Hp].
Qed.

(* ---- the variant with state shared within a chunk (seeded scenario C15-m2) *)
Lemma run_chunk_shared_ok ev st0 ts :
  tasks_in_service st0 ts = true -> all_succeed ev st0 ts = true ->
  run_chunk (work_shared ev) st0 ts = (st0, map (plain_pack ev st0) ts).
Proof.
  unfold tasks_in_service, all_succeed. induction ts as [|t ts IH]; intros H1 H2; cbn [run_chunk map]; [reflexivity|].
  cbn [forallb] in H1, H2. apply andb_true_iff in H1, H2. destruct H1 as [Ht Hts], H2 as [Et Ets].
  unfold work_shared at 1, plain_pack at 1.
  destruct (ev (set_nth st0 (snd t) false)) as [v|]; [|discriminate].
  rewrite (set_nth_restore st0 (snd t) Ht), (IH Hts Ets). reflexivity.
Qed.

Lemma forallb_incl {A} (f : A -> bool) l l' : incl l' l -> forallb f l = true -> forallb f l' = true.
Proof. intros Hi H. apply forallb_forall. intros x Hx. rewrite forallb_forall in H. apply H, Hi, Hx. Qed.

(* partial: as long as no evaluation raises, the shared-state worker is indistinguishable from the copying one *)
Lemma shared_partial ev persist st0 k assign order tasks :
  (1 <= k)%nat -> (forall i, (i < length (chunks k tasks))%nat -> In i order) ->
  tasks_in_service st0 tasks = true -> all_succeed ev st0 tasks = true ->
  pool_map_chunked (work_shared ev) persist st0 k assign order tasks = map (plain_pack ev st0) tasks.
Proof.
  intros Hk Hcov Hs Ha. apply chunked_stable; [|exact Hk|exact Hcov].
  intros ts Hi. apply run_chunk_shared_ok; [exact (forallb_incl _ _ _ Hi Hs) | exact (forallb_incl _ _ _ Hi Ha)].
Qed.

(* refuted: with a raising outage that is not the last of its chunk the result depends on the chunk size *)
Definition m2_st0 : state := [true; true; true].
Definition m2_tasks : list task := [((0%nat, 10%Z), 0%nat); ((0%nat, 11%Z), 1%nat); ((0%nat, 12%Z), 2%nat)].
Definition m2_ev : evalS := fun st =>
  if beq_list st [false; true; true] then None                       (* the outage of row 0 does not converge *)
  else Some (map (fun b : bool => if b then Some 1%Q else Some 0%Q) st).
Definition m2_order : list nat := [0%nat; 1%nat; 2%nat].

Lemma shared_chunksize_dependent :
  exists ev st0 tasks k k' assign order,
    (1 <= k)%nat /\ (1 <= k')%nat /\
    (forall i, (i < length (chunks k tasks))%nat -> In i order) /\
    (forall i, (i < length (chunks k' tasks))%nat -> In i order) /\
    tasks_in_service st0 tasks = true /\
    pool_map_chunked (work_shared ev) false st0 k assign order tasks <>
    pool_map_chunked (work_shared ev) false st0 k' assign order tasks.
Proof.
  exists m2_ev, m2_st0, m2_tasks, 1%nat, 2%nat, (fun _ => 0%nat), m2_order.
  split; [lia|]. split; [lia|].
  split; [vm_compute; intros i Hi; repeat (destruct i as [|i]; [tauto|]); lia|].
  split; [vm_compute; intros i Hi; repeat (destruct i as [|i]; [tauto|]); lia|].
  split; [reflexivity|]. vm_compute. discriminate.
Qed.
Lemma shared_not_plain :
  exists ev st0 tasks k assign order,
    (1 <= k)%nat /\ (forall i, (i < length (chunks k tasks))%nat -> In i order) /\
    tasks_in_service st0 tasks = true /\
    pool_map_chunked (work_shared ev) false st0 k assign order tasks <> snd (seq_packs ev st0 tasks).
Proof.
  exists m2_ev, m2_st0, m2_tasks, 2%nat, (fun _ => 0%nat), m2_order.
  split; [lia|].
  split; [vm_compute; intros i Hi; repeat (destruct i as [|i]; [tauto|]); lia|].
  split; [reflexivity|]. vm_compute. discriminate.
Qed.

(* non-vacuity of the positive statements: the same input (with its raising outage) through the worker as it is *)
Example chunked_eq_plain_nonvacuous :
  pool_map_chunked (work_copy m2_ev) false m2_st0 2 (fun i => i) [1%nat; 0%nat] m2_tasks =
  pool_map_chunked (work_copy m2_ev) true m2_st0 1 (fun _ => 0%nat) [2%nat; 0%nat; 1%nat; 0%nat] m2_tasks /\
  map (fun p : wpack => match snd p with Some _ => true | None => false end)
      (pool_map_chunked (work_copy m2_ev) false m2_st0 2 (fun i => i) [1%nat; 0%nat] m2_tasks) = [false; true; true] /\
  chunks 2 m2_tasks = [[((0%nat, 10%Z), 0%nat); ((0%nat, 11%Z), 1%nat)]; [((0%nat, 12%Z), 2%nat)]] /\
  pool_chunksize 10 2 = 2%nat /\ pool_chunksize 10 3 = 1%nat /\ pool_chunksize 3 2 = 1%nat.
Proof. vm_compute. repeat split; reflexivity. Qed.
Example shared_partial_nonvacuous :
  tasks_in_service m2_st0 (tl m2_tasks) = true /\ all_succeed m2_ev m2_st0 (tl m2_tasks) = true /\
  all_succeed m2_ev m2_st0 m2_tasks = false.
Proof. vm_compute. repeat split; reflexivity. Qed.
