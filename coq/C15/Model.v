(* C15 — model of pandapower/contingency/contingency_parallel.py (after the repair
   "fix: parallel contingency aggregation masks out-of-service elements like the sequential one").
   The aggregation rule is the same [upd] as the sequential one (C14.Model); what differs is where the
   observations come from:
     sequential path (:129-144): loop over the task list, evaluate on the net itself, aggregate at once;
     parallel   path (:104-126): pool.map(worker, tasks) -> list of result packs *in task order*,
                                 then aggregate the successful packs in list order.
   A worker pack carries res values and the in_service state of its own copy (:27-38). *)
From Coq Require Import ZArith QArith List Bool.
From PPV Require Import Base.QN Base.Out C14.Model.
Import ListNotations.

(* the (deterministic) evaluation of one outage: None = the evaluation raised *)
Definition eval_fn := label -> option (list obs).

(* sequential path: one case per task whose evaluation succeeded, in task order *)
Definition seq_cases (tasks : list label) (ev : eval_fn) : list case :=
  flat_map (fun t => match ev t with Some r => [{| lab := t; rows := r |}] | None => [] end) tasks.

(* parallel path: results_list as returned by the pool, then the "if success" filter *)
Definition pack := (label * option (list obs))%type.
Definition par_cases (results : list pack) : list case :=
  flat_map (fun p => match snd p with Some r => [{| lab := fst p; rows := r |}] | None => [] end) results.

(* contract of multiprocessing.Pool.map: results in task order, whatever the completion order *)
Definition pool_map (tasks : list label) (ev : eval_fn) : list pack := map (fun t => (t, ev t)) tasks.

Definition run_seq (n : nat) (tasks : list label) (ev : eval_fn) : list acc := run_table n (seq_cases tasks ev).
Definition run_par (n : nat) (results : list pack) : list acc := run_table n (par_cases results).

(* equality of aggregated numbers up to Qeq, NaN = NaN *)
Definition feq (a b : F) : Prop :=
  match a, b with Some x, Some y => x == y | None, None => True | _, _ => False end.

Definition run_par_out (n : nat) (results : list pack) (labels : list label) : out :=
  run_out n (par_cases results) labels.
Definition run_par_out_bus (n : nat) (results : list pack) : out := run_out_bus n (par_cases results).
