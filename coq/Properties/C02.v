(* C02 — property theorems (statements only; proofs in C02/Proofs.v).
   Model: C02/Model.v = build_branch.py (line, transformer, impedance, xward, switch, trafo3w star equivalent),
   makeYbus.branch_vectors (stamps_core), pfsoln branch flows (flows), results_branch.py, makeBdc.
   Spec side: documented equivalent circuits in physical units (kV, Ohm, S, MVA), see doc/elements/*.rst.
   Ceq2 = component-wise equality of a pair of complex numbers (S_from, S_to). *)
From Coq Require Import ZArith QArith List Bool.
From PPV Require Import Base.QN Base.QC C31.Model C02.Model C02.Run C02.CPlain C02.CField C02.Proofs.
(* C02.Run (run wrappers of the correspondence) is required here only so that building this file builds it *)
Open Scope Q_scope.

(* the four Ybus stamps of a branch row = ideal transformer with complex ratio n = TAP e^{j SHIFT} on the from side
   in series with the pi two-port (series 1/(r+jx) seen from "from", 1/(r+r_asym + j(x+x_asym)) seen from "to",
   half the charging admittance at each end), for every row, tap, shift and voltages *)
Theorem C02_tap_stamps : forall br e vf vt,
  b_stat br = true ->
  ~ (b_r br) * (b_r br) + (b_x br) * (b_x br) == 0 ->
  ~ (b_r br + b_ra br) * (b_r br + b_ra br) + (b_x br + b_xa br) * (b_x br + b_xa br) == 0 ->
  ~ b_tap br == 0 ->
  re e * re e + im e * im e == 1 ->
  let y := stamps_core br e in
  let '(yff, yft, ytf, ytt) := y in
  Ceq2 (Cadd (Cmul yff vf) (Cmul yft vt), Cadd (Cmul ytf vf) (Cmul ytt vt))
       (twoport_I (Cinv (mkC (b_r br) (b_x br)))
                  (Cinv (mkC (b_r br + b_ra br) (b_x br + b_xa br)))
                  (Cscale (1#2) (mkC (b_g br) (b_b br)))
                  (Cscale (1#2) (mkC (b_g br + b_ga br) (b_b br + b_ba br)))
                  (Cscale (b_tap br) e) vf vt).
Proof. exact stamps_twoport. Qed.
Print Assumptions C02_tap_stamps.

(* per-unit pipeline = physical circuit, for every branch row: MW/Mvar terminal powers from the per-unit voltages
   equal those of the pi circuit Z = z_pu*base^2/sn [Ohm], Y = y_pu*sn/base^2 [S] behind the ideal transformer on the
   voltages in kV; the system base sn_mva cancels *)
Theorem C02_pu_eq_physical : forall br e vf vt sn base,
  b_stat br = true ->
  ~ (b_r br) * (b_r br) + (b_x br) * (b_x br) == 0 ->
  ~ (b_r br + b_ra br) * (b_r br + b_ra br) + (b_x br + b_xa br) * (b_x br + b_xa br) == 0 ->
  ~ b_tap br == 0 -> re e * re e + im e * im e == 1 -> ~ sn == 0 -> ~ base == 0 ->
  Ceq2 (flows (stamps_core br e) vf vt sn)
       (pi_flows_phys2 (Cscale (base * base / sn) (mkC (b_r br) (b_x br)))
                       (Cscale (base * base / sn) (mkC (b_r br + b_ra br) (b_x br + b_xa br)))
                       (Cscale (1 / (2 * (base * base / sn))) (mkC (b_g br) (b_b br)))
                       (Cscale (1 / (2 * (base * base / sn))) (mkC (b_g br + b_ga br) (b_b br + b_ba br)))
                       (Cscale base (Cdiv vf (Cscale (b_tap br) e))) (Cscale base vt)).
Proof. exact pu_eq_phys. Qed.
Print Assumptions C02_pu_eq_physical.

Theorem C02_stamps_do_not_raise : forall br e,
  ~ (b_r br) * (b_r br) + (b_x br) * (b_x br) == 0 ->
  ~ (b_r br + b_ra br) * (b_r br + b_ra br) + (b_x br + b_xa br) * (b_x br + b_xa br) == 0 ->
  stamps br e = Ok (stamps_core br e).
Proof. exact stamps_ok. Qed.
Print Assumptions C02_stamps_do_not_raise.

(* line: per-km data, length, parallel (and the temperature correction of r) -> documented pi circuit *)
Theorem C02_line_pu_eq_physical : forall sn fhz pi sqrt3 base vnfrom l vf vt,
  l_in l = true -> ~ sn == 0 -> ~ base == 0 -> ~ l_par l == 0 ->
  ~ cnorm2 (line_z_phys l) == 0 ->
  Ceq2 (flows (stamps_core (line_branch sn fhz pi sqrt3 base vnfrom l) C1) vf vt sn)
       (line_flows_phys fhz pi l (Cscale base vf) (Cscale base vt)).
Proof. exact line_pu_eq_physical. Qed.
Print Assumptions C02_line_pu_eq_physical.

(* impedance element: documented z_ft, z_tf, y_f, y_t on the element's own sn_mva *)
Theorem C02_impedance_pu_eq_documented : forall sn i vf vt,
  i_in i = true -> ~ sn == 0 -> ~ i_sn i == 0 ->
  ~ i_rft i * i_rft i + i_xft i * i_xft i == 0 -> ~ i_rtf i * i_rtf i + i_xtf i * i_xtf i == 0 ->
  Ceq2 (flows (stamps_core (impedance_branch sn i) C1) vf vt sn) (imp_doc_flows sn i vf vt).
Proof. exact impedance_pu_eq_documented. Qed.
Print Assumptions C02_impedance_pu_eq_documented.

(* transformer series impedance: r = vkr/100 * k, r^2 + x^2 = (vk/100 * k)^2, x >= 0 with
   k = (vn_lv,tap-adjusted / V_N)^2 * S_N / sn_trafo / parallel;  o_x is the sqrt oracle with its defining equation *)
Theorem C02_trafo_rx_documented : forall sn t o vnl vnlbus,
  o_x o * o_x o == fst (trafo_zr sn t vnl vnlbus) * fst (trafo_zr sn t vnl vnlbus)
                   - snd (trafo_zr sn t vnl vnlbus) * snd (trafo_zr sn t vnl vnlbus) ->
  0 <= o_x o -> 0 < fst (trafo_zr sn t vnl vnlbus) -> 0 < t_par t -> ~ t_sn t == 0 -> ~ vnlbus == 0 ->
  let k := (vnl / vnlbus) * (vnl / vnlbus) * sn / t_sn t / t_par t in
  let '(r, x) := trafo_rx sn t o vnl vnlbus in
  r == t_vkr t / 100 * k /\ 0 <= x /\ r * r + x * x == (t_vk t / 100 * k) * (t_vk t / 100 * k).
Proof. exact trafo_rx_documented. Qed.
Print Assumptions C02_trafo_rx_documented.

(* magnetising admittance: g from pfe_kw, |y| from i0_percent, b <= 0 (inductive) *)
Theorem C02_trafo_gb_documented : forall sn t o vnl vnlbus,
  o_bm o * o_bm o == trafo_ym2 t -> 0 <= o_bm o ->
  ~ sn == 0 -> ~ vnl == 0 -> ~ t_vnl0 t == 0 ->
  let baseZ := vnlbus * vnlbus / sn in
  let '(g, b) := trafo_gb sn t o vnl vnlbus in
  g == t_pfe t / 1000 * t_par t / (vnl * vnl) * baseZ /\
  g * g + b * b == (t_i0 t / 100 * t_sn t * t_par t / (vnl * vnl) * baseZ) * (t_i0 t / 100 * t_sn t * t_par t / (vnl * vnl) * baseZ) /\
  (0 <= t_par t -> 0 < sn -> b <= 0).
Proof. exact trafo_gb_documented. Qed.
Print Assumptions C02_trafo_gb_documented.

(* T model: the pi parameters of _wye_delta carry the same terminal currents as the T circuit
   (za = r*rr + j x*xr, zb = r(1-rr) + j x(1-xr), magnetising branch at the star point) for all voltages *)
Theorem C02_wye_delta_two_port : forall r x g b rr xr vf vt,
  let za := wd_za r x rr xr in let zb := wd_zb r x rr xr in let yc := mkC g b in
  ~ za ==c C0 -> ~ zb ==c C0 -> ~ yc ==c C0 ->
  ~ Cadd (Cadd za zb) (Cmul (Cmul za zb) yc) ==c C0 ->
  let '(r', x', g', b', ga, ba) := wye_delta_core r x g b rr xr in
  Ceq2 (pi_circuit_I r' x' g' b' ga ba vf vt) (t_circuit_I za zb yc vf vt).
Proof. exact wye_delta_two_port. Qed.
Print Assumptions C02_wye_delta_two_port.

(* T-model transformer end to end: row with the _wye_delta parameters -> makeYbus stamps -> pfsoln flows =
   S_N v conj(i) of the documented T circuit behind the ideal transformer TAP e^{j SHIFT}, for all voltages *)
Theorem C02_t_model_row_flows : forall br e vf vt sn r x g b rr xr,
  b_stat br = true -> b_ra br == 0 -> b_xa br == 0 ->
  ~ (b_r br) * (b_r br) + (b_x br) * (b_x br) == 0 -> ~ b_tap br == 0 -> re e * re e + im e * im e == 1 ->
  (b_r br, b_x br, b_g br, b_b br, b_ga br, b_ba br) = wye_delta_core r x g b rr xr ->
  let za := wd_za r x rr xr in let zb := wd_zb r x rr xr in let yc := mkC g b in
  ~ za ==c C0 -> ~ zb ==c C0 -> ~ yc ==c C0 -> ~ Cadd (Cadd za zb) (Cmul (Cmul za zb) yc) ==c C0 ->
  let vf' := Cdiv vf (Cscale (b_tap br) e) in
  let i := t_circuit_I za zb yc vf' vt in
  Ceq2 (flows (stamps_core br e) vf vt sn)
       (Cscale sn (Cmul vf' (Cconj (fst i))), Cscale sn (Cmul vt (Cconj (snd i)))).
Proof. exact t_model_row_flows. Qed.
Print Assumptions C02_t_model_row_flows.
Theorem C02_flows_pi_circuit : forall br e vf vt sn,
  b_stat br = true -> b_ra br == 0 -> b_xa br == 0 ->
  ~ (b_r br) * (b_r br) + (b_x br) * (b_x br) == 0 -> ~ b_tap br == 0 -> re e * re e + im e * im e == 1 ->
  let vf' := Cdiv vf (Cscale (b_tap br) e) in
  let i := pi_circuit_I (b_r br) (b_x br) (b_g br) (b_b br) (b_ga br) (b_ba br) vf' vt in
  Ceq2 (flows (stamps_core br e) vf vt sn)
       (Cscale sn (Cmul vf' (Cconj (fst i))), Cscale sn (Cmul vt (Cconj (snd i)))).
Proof. exact flows_pi_circuit. Qed.
Print Assumptions C02_flows_pi_circuit.

(* tap changer: with the sqrt / arctan oracles satisfying their defining equations, the adjusted rated voltage and
   the added angle are modulus and argument of u1 * (1 + diff*pct/100 * e^{+-j phi}) (X + jY below) *)
Theorem C02_tap_polar_documented : forall X Y vn ca sa,
  vn * vn == X * X + Y * Y -> ca * ca + sa * sa == 1 -> sa * X == ca * Y ->
  0 < X -> 0 < vn -> 0 < ca ->
  vn * ca == X /\ vn * sa == Y.
Proof. exact tap_polar_documented. Qed.
Print Assumptions C02_tap_polar_documented.
Theorem C02_tap_ratio_hv : forall tc o vnh vnl shift,
  tc_side tc = HV -> (tc_type tc = Ratio \/ tc_type tc = Symmetrical) ->
  tap_notable tc o vnh vnl shift = Ok (o_vn o, vnl, Some (qadd shift (o_atan o))).
Proof. exact tap_ratio_hv. Qed.
Print Assumptions C02_tap_ratio_hv.
Theorem C02_tap_ratio_lv : forall tc o vnh vnl shift,
  tc_side tc = LV -> (tc_type tc = Ratio \/ tc_type tc = Symmetrical) ->
  tap_notable tc o vnh vnl shift = Ok (vnh, o_vn o, Some (qadd shift (o_atan o))).
Proof. exact tap_ratio_lv. Qed.
Print Assumptions C02_tap_ratio_lv.

(* trafo3w tap changer at the star point: NaN tap_step_degree = 0 degree (repaired), the step is applied;
   the pre-repair rule dropped the tap changer (regression witness) *)
Theorem C02_star_tap_nan_degree_is_zero : forall x blk, x_deg x = None ->
  tap3_block x blk =
  tap3_block {| x_side := x_side x; x_star := x_star x; x_type := x_type x; x_pos := x_pos x; x_neutral := x_neutral x;
                x_pct := x_pct x; x_deg := if x_star x then Some 0 else None |} blk.
Proof. exact star_tap_nan_degree_is_zero. Qed.
Print Assumptions C02_star_tap_nan_degree_is_zero.
Theorem C02_old_star_tap_refuted :
  exists x blk p, x_side x = blk /\ x_star x = true /\ x_pct x = Some p /\ ~ p == 0 /\ x_pos x = Some 2 /\ x_neutral x = Some 0 /\
                  tc_pct (tap3_block_old x blk) = None /\ tc_pct (tap3_block x blk) <> None.
Proof. exact old_star_tap_refuted. Qed.
Print Assumptions C02_old_star_tap_refuted.

(* branch current: i_ka * sqrt(3) * |U| = |S| *)
Theorem C02_i_ka_sq : forall s p q vm basekv sqrt3,
  sqrt3 * sqrt3 == 3 -> s * s == p * p + q * q -> ~ vm * basekv == 0 ->
  3 * (i_ka s vm basekv sqrt3 * i_ka s vm basekv sqrt3) * ((vm * basekv) * (vm * basekv)) == p * p + q * q.
Proof. exact i_ka_sq. Qed.
Print Assumptions C02_i_ka_sq.
Theorem C02_line_loading : forall ifrom ito l v,
  fst (line_loading ifrom ito l) = Some v ->
  v * (l_maxi l * l_df l * l_par l) == 100 * qmax ifrom ito /\ snd (line_loading ifrom ito l) = qmax ifrom ito.
Proof. exact line_loading_def. Qed.
Print Assumptions C02_line_loading.

(* DC model: p_from = -p_to = S_N (theta_f - theta_t - shift) / (x tap) *)
Theorem C02_dc_model : forall br shift pi vaf vat sn b,
  b_stat br = true -> ~ b_x br == 0 -> ~ b_tap br == 0 -> dc_b br = Ok b ->
  fst (dc_flow b shift pi vaf vat sn) == sn * ((vaf - vat) - shift * pi / 180) / (b_x br * b_tap br)
  /\ fst (dc_flow b shift pi vaf vat sn) + snd (dc_flow b shift pi vaf vat sn) == 0.
Proof. intros. split; [eapply dc_flow_documented; eassumption | apply dc_lossless]. Qed.
Print Assumptions C02_dc_model.

(* non-vacuity: a concrete line (r' = 1/4, x' = 1/2 Ohm/km, 2 km, 20 kV, sn = 1) satisfies the hypotheses *)
Example C02_nonvacuous :
  let l := {| l_r := 1 # 4; l_x := 1 # 2; l_c := 10; l_g := 0; l_len := 2; l_par := 1; l_in := true;
              l_maxload := Some 100; l_maxi := 1 # 2; l_df := 1; l_temp := None |} in
  ~ cnorm2 (line_z_phys l) == 0 /\
  stamps (line_branch 1 50 (355 # 113) (19 # 11) 20 20 l) C1 = Ok (stamps_core (line_branch 1 50 (355 # 113) (19 # 11) 20 20 l) C1).
Proof. split; [vm_compute; discriminate | vm_compute; reflexivity]. Qed.
Print Assumptions C02_nonvacuous.
