(* C02 — property theorems (statements only; proofs in C02/Proofs.v).
   Model: C02/Model.v = build_branch.py (line, transformer, impedance, xward, switch, trafo3w star equivalent),
   makeYbus.branch_vectors (stamps_core), pfsoln branch flows (flows), results_branch.py, makeBdc.
   Spec side: documented equivalent circuits in physical units (kV, Ohm, S, MVA), see doc/elements/*.rst.
   Ceq2 = component-wise equality of a pair of complex numbers (S_from, S_to). *)
From Coq Require Import ZArith QArith List Bool.
From PPV Require Import Base.QN Base.QC C31.Model C02.Model C02.Run C02.CPlain C02.CField C02.Proofs
                         C02.Model3w C02.Run3w C02.Star C02.Tap2 C02.Chain.
(* C02.Run (run wrappers of the correspondence) is required here only so that building this file builds it *)
Open Scope Q_scope.

(* the four Ybus stamps of a branch row = ideal transformer with complex ratio n = TAP e^{j SHIFT} on the from side
   in series with the pi two-port (series 1/(r+jx) seen from "from", 1/(r+r_asym + j(x+x_asym)) seen from "to",
   half the charging admittance at each end), for every row, tap, shift and voltages *)
Theorem C02_tap_stamps : forall br e vf vt,
  b_stat br = true ->
  ~ (b_r br) * (b_r br) + (b_x br) * (b_x br) == 0 ->
  ~ (b_r br + b_ra br) * (b_r br + b_ra br) + (b_x br + b_xa br) * (b_x br + b_xa br) == 0 ->
  ~ b_tap br == 0 ->
  re e * re e + im e * im e == 1 ->
  let y := stamps_core br e in
  let '(yff, yft, ytf, ytt) := y in
  Ceq2 (Cadd (Cmul yff vf) (Cmul yft vt), Cadd (Cmul ytf vf) (Cmul ytt vt))
       (twoport_I (Cinv (mkC (b_r br) (b_x br)))
                  (Cinv (mkC (b_r br + b_ra br) (b_x br + b_xa br)))
                  (Cscale (1#2) (mkC (b_g br) (b_b br)))
                  (Cscale (1#2) (mkC (b_g br + b_ga br) (b_b br + b_ba br)))
                  (Cscale (b_tap br) e) vf vt).
Proof. exact stamps_twoport. Qed.
Print Assumptions C02_tap_stamps.

(* per-unit pipeline = physical circuit, for every branch row: MW/Mvar terminal powers from the per-unit voltages
   equal those of the pi circuit Z = z_pu*base^2/sn [Ohm], Y = y_pu*sn/base^2 [S] behind the ideal transformer on the
   voltages in kV; the system base sn_mva cancels *)
Theorem C02_pu_eq_physical : forall br e vf vt sn base,
  b_stat br = true ->
  ~ (b_r br) * (b_r br) + (b_x br) * (b_x br) == 0 ->
  ~ (b_r br + b_ra br) * (b_r br + b_ra br) + (b_x br + b_xa br) * (b_x br + b_xa br) == 0 ->
  ~ b_tap br == 0 -> re e * re e + im e * im e == 1 -> ~ sn == 0 -> ~ base == 0 ->
  Ceq2 (flows (stamps_core br e) vf vt sn)
       (pi_flows_phys2 (Cscale (base * base / sn) (mkC (b_r br) (b_x br)))
                       (Cscale (base * base / sn) (mkC (b_r br + b_ra br) (b_x br + b_xa br)))
                       (Cscale (1 / (2 * (base * base / sn))) (mkC (b_g br) (b_b br)))
                       (Cscale (1 / (2 * (base * base / sn))) (mkC (b_g br + b_ga br) (b_b br + b_ba br)))
                       (Cscale base (Cdiv vf (Cscale (b_tap br) e))) (Cscale base vt)).
Proof. exact pu_eq_phys. Qed.
Print Assumptions C02_pu_eq_physical.

Theorem C02_stamps_do_not_raise : forall br e,
  ~ (b_r br) * (b_r br) + (b_x br) * (b_x br) == 0 ->
  ~ (b_r br + b_ra br) * (b_r br + b_ra br) + (b_x br + b_xa br) * (b_x br + b_xa br) == 0 ->
  stamps br e = Ok (stamps_core br e).
Proof. exact stamps_ok. Qed.
Print Assumptions C02_stamps_do_not_raise.

(* line: per-km data, length, parallel (and the temperature correction of r) -> documented pi circuit *)
Theorem C02_line_pu_eq_physical : forall sn fhz pi sqrt3 base vnfrom l vf vt,
  l_in l = true -> ~ sn == 0 -> ~ base == 0 -> ~ l_par l == 0 ->
  ~ cnorm2 (line_z_phys l) == 0 ->
  Ceq2 (flows (stamps_core (line_branch sn fhz pi sqrt3 base vnfrom l) C1) vf vt sn)
       (line_flows_phys fhz pi l (Cscale base vf) (Cscale base vt)).
Proof. exact line_pu_eq_physical. Qed.
Print Assumptions C02_line_pu_eq_physical.

(* impedance element: documented z_ft, z_tf, y_f, y_t on the element's own sn_mva *)
Theorem C02_impedance_pu_eq_documented : forall sn i vf vt,
  i_in i = true -> ~ sn == 0 -> ~ i_sn i == 0 ->
  ~ i_rft i * i_rft i + i_xft i * i_xft i == 0 -> ~ i_rtf i * i_rtf i + i_xtf i * i_xtf i == 0 ->
  Ceq2 (flows (stamps_core (impedance_branch sn i) C1) vf vt sn) (imp_doc_flows sn i vf vt).
Proof. exact impedance_pu_eq_documented. Qed.
Print Assumptions C02_impedance_pu_eq_documented.

(* transformer series impedance: r = vkr/100 * k, r^2 + x^2 = (vk/100 * k)^2, x >= 0 with
   k = (vn_lv,tap-adjusted / V_N)^2 * S_N / sn_trafo / parallel;  o_x is the sqrt oracle with its defining equation *)
Theorem C02_trafo_rx_documented : forall sn t o vnl vnlbus,
  o_x o * o_x o == fst (trafo_zr sn t vnl vnlbus) * fst (trafo_zr sn t vnl vnlbus)
                   - snd (trafo_zr sn t vnl vnlbus) * snd (trafo_zr sn t vnl vnlbus) ->
  0 <= o_x o -> 0 < fst (trafo_zr sn t vnl vnlbus) -> 0 < t_par t -> ~ t_sn t == 0 -> ~ vnlbus == 0 ->
  let k := (vnl / vnlbus) * (vnl / vnlbus) * sn / t_sn t / t_par t in
  let '(r, x) := trafo_rx sn t o vnl vnlbus in
  r == t_vkr t / 100 * k /\ 0 <= x /\ r * r + x * x == (t_vk t / 100 * k) * (t_vk t / 100 * k).
Proof. exact trafo_rx_documented. Qed.
Print Assumptions C02_trafo_rx_documented.

(* magnetising admittance: g from pfe_kw, |y| from i0_percent, b <= 0 (inductive) *)
Theorem C02_trafo_gb_documented : forall sn t o vnl vnlbus,
  o_bm o * o_bm o == trafo_ym2 t -> 0 <= o_bm o ->
  ~ sn == 0 -> ~ vnl == 0 -> ~ t_vnl0 t == 0 ->
  let baseZ := vnlbus * vnlbus / sn in
  let '(g, b) := trafo_gb sn t o vnl vnlbus in
  g == t_pfe t / 1000 * t_par t / (vnl * vnl) * baseZ /\
  g * g + b * b == (t_i0 t / 100 * t_sn t * t_par t / (vnl * vnl) * baseZ) * (t_i0 t / 100 * t_sn t * t_par t / (vnl * vnl) * baseZ) /\
  (0 <= t_par t -> 0 < sn -> b <= 0).
Proof. exact trafo_gb_documented. Qed.
Print Assumptions C02_trafo_gb_documented.

(* T model: the pi parameters of _wye_delta carry the same terminal currents as the T circuit
   (za = r*rr + j x*xr, zb = r(1-rr) + j x(1-xr), magnetising branch at the star point) for all voltages *)
Theorem C02_wye_delta_two_port : forall r x g b rr xr vf vt,
  let za := wd_za r x rr xr in let zb := wd_zb r x rr xr in let yc := mkC g b in
  ~ za ==c C0 -> ~ zb ==c C0 -> ~ yc ==c C0 ->
  ~ Cadd (Cadd za zb) (Cmul (Cmul za zb) yc) ==c C0 ->
  let '(r', x', g', b', ga, ba) := wye_delta_core r x g b rr xr in
  Ceq2 (pi_circuit_I r' x' g' b' ga ba vf vt) (t_circuit_I za zb yc vf vt).
Proof. exact wye_delta_two_port. Qed.
Print Assumptions C02_wye_delta_two_port.

(* T-model transformer end to end: row with the _wye_delta parameters -> makeYbus stamps -> pfsoln flows =
   S_N v conj(i) of the documented T circuit behind the ideal transformer TAP e^{j SHIFT}, for all voltages *)
Theorem C02_t_model_row_flows : forall br e vf vt sn r x g b rr xr,
  b_stat br = true -> b_ra br == 0 -> b_xa br == 0 ->
  ~ (b_r br) * (b_r br) + (b_x br) * (b_x br) == 0 -> ~ b_tap br == 0 -> re e * re e + im e * im e == 1 ->
  (b_r br, b_x br, b_g br, b_b br, b_ga br, b_ba br) = wye_delta_core r x g b rr xr ->
  let za := wd_za r x rr xr in let zb := wd_zb r x rr xr in let yc := mkC g b in
  ~ za ==c C0 -> ~ zb ==c C0 -> ~ yc ==c C0 -> ~ Cadd (Cadd za zb) (Cmul (Cmul za zb) yc) ==c C0 ->
  let vf' := Cdiv vf (Cscale (b_tap br) e) in
  let i := t_circuit_I za zb yc vf' vt in
  Ceq2 (flows (stamps_core br e) vf vt sn)
       (Cscale sn (Cmul vf' (Cconj (fst i))), Cscale sn (Cmul vt (Cconj (snd i)))).
Proof. exact t_model_row_flows. Qed.
Print Assumptions C02_t_model_row_flows.
Theorem C02_flows_pi_circuit : forall br e vf vt sn,
  b_stat br = true -> b_ra br == 0 -> b_xa br == 0 ->
  ~ (b_r br) * (b_r br) + (b_x br) * (b_x br) == 0 -> ~ b_tap br == 0 -> re e * re e + im e * im e == 1 ->
  let vf' := Cdiv vf (Cscale (b_tap br) e) in
  let i := pi_circuit_I (b_r br) (b_x br) (b_g br) (b_b br) (b_ga br) (b_ba br) vf' vt in
  Ceq2 (flows (stamps_core br e) vf vt sn)
       (Cscale sn (Cmul vf' (Cconj (fst i))), Cscale sn (Cmul vt (Cconj (snd i)))).
Proof. exact flows_pi_circuit. Qed.
Print Assumptions C02_flows_pi_circuit.

(* tap changer: with the sqrt / arctan oracles satisfying their defining equations, the adjusted rated voltage and
   the added angle are modulus and argument of u1 * (1 + diff*pct/100 * e^{+-j phi}) (X + jY below) *)
Theorem C02_tap_polar_documented : forall X Y vn ca sa,
  vn * vn == X * X + Y * Y -> ca * ca + sa * sa == 1 -> sa * X == ca * Y ->
  0 < X -> 0 < vn -> 0 < ca ->
  vn * ca == X /\ vn * sa == Y.
Proof. exact tap_polar_documented. Qed.
Print Assumptions C02_tap_polar_documented.
Theorem C02_tap_ratio_hv : forall tc o vnh vnl shift,
  tc_side tc = HV -> (tc_type tc = Ratio \/ tc_type tc = Symmetrical) ->
  tap_notable tc o vnh vnl shift = Ok (o_vn o, vnl, Some (qadd shift (o_atan o))).
Proof. exact tap_ratio_hv. Qed.
Print Assumptions C02_tap_ratio_hv.
Theorem C02_tap_ratio_lv : forall tc o vnh vnl shift,
  tc_side tc = LV -> (tc_type tc = Ratio \/ tc_type tc = Symmetrical) ->
  tap_notable tc o vnh vnl shift = Ok (vnh, o_vn o, Some (qadd shift (o_atan o))).
Proof. exact tap_ratio_lv. Qed.
Print Assumptions C02_tap_ratio_lv.

(* trafo3w tap changer at the star point: NaN tap_step_degree = 0 degree (repaired), the step is applied;
   the pre-repair rule dropped the tap changer (regression witness) *)
Theorem C02_star_tap_nan_degree_is_zero : forall x blk, x_deg x = None ->
  tap3_block x blk =
  tap3_block {| x_side := x_side x; x_star := x_star x; x_type := x_type x; x_pos := x_pos x; x_neutral := x_neutral x;
                x_pct := x_pct x; x_deg := if x_star x then Some 0 else None |} blk.
Proof. exact star_tap_nan_degree_is_zero. Qed.
Print Assumptions C02_star_tap_nan_degree_is_zero.
Theorem C02_old_star_tap_refuted :
  exists x blk p, x_side x = blk /\ x_star x = true /\ x_pct x = Some p /\ ~ p == 0 /\ x_pos x = Some 2 /\ x_neutral x = Some 0 /\
                  tc_pct (tap3_block_old x blk) = None /\ tc_pct (tap3_block x blk) <> None.
Proof. exact old_star_tap_refuted. Qed.
Print Assumptions C02_old_star_tap_refuted.

(* branch current: i_ka * sqrt(3) * |U| = |S| *)
Theorem C02_i_ka_sq : forall s p q vm basekv sqrt3,
  sqrt3 * sqrt3 == 3 -> s * s == p * p + q * q -> ~ vm * basekv == 0 ->
  3 * (i_ka s vm basekv sqrt3 * i_ka s vm basekv sqrt3) * ((vm * basekv) * (vm * basekv)) == p * p + q * q.
Proof. exact i_ka_sq. Qed.
Print Assumptions C02_i_ka_sq.
Theorem C02_line_loading : forall ifrom ito l v,
  fst (line_loading ifrom ito l) = Some v ->
  v * (l_maxi l * l_df l * l_par l) == 100 * qmax ifrom ito /\ snd (line_loading ifrom ito l) = qmax ifrom ito.
Proof. exact line_loading_def. Qed.
Print Assumptions C02_line_loading.

(* DC model: p_from = -p_to = S_N (theta_f - theta_t - shift) / (x tap) *)
Theorem C02_dc_model : forall br shift pi vaf vat sn b,
  b_stat br = true -> ~ b_x br == 0 -> ~ b_tap br == 0 -> dc_b br = Ok b ->
  fst (dc_flow b shift pi vaf vat sn) == sn * ((vaf - vat) - shift * pi / 180) / (b_x br * b_tap br)
  /\ fst (dc_flow b shift pi vaf vat sn) + snd (dc_flow b shift pi vaf vat sn) == 0.
Proof. intros. split; [eapply dc_flow_documented; eassumption | apply dc_lossless]. Qed.
Print Assumptions C02_dc_model.

(* non-vacuity: a concrete line (r' = 1/4, x' = 1/2 Ohm/km, 2 km, 20 kV, sn = 1) satisfies the hypotheses *)
Example C02_nonvacuous :
  let l := {| l_r := 1 # 4; l_x := 1 # 2; l_c := 10; l_g := 0; l_len := 2; l_par := 1; l_in := true;
              l_maxload := Some 100; l_maxi := 1 # 2; l_df := 1; l_temp := None |} in
  ~ cnorm2 (line_z_phys l) == 0 /\
  stamps (line_branch 1 50 (355 # 113) (19 # 11) 20 20 l) C1 = Ok (stamps_core (line_branch 1 50 (355 # 113) (19 # 11) 20 20 l) C1).
Proof. split; [vm_compute; discriminate | vm_compute; reflexivity]. Qed.
Print Assumptions C02_nonvacuous.

(* ================================================================ three-winding transformer: star equivalent
   (_calculate_sc_voltages_of_equivalent_transformers, _trafo_df_from_trafo3w, _get_trafo3w_results)

   The three equivalent 2W transformers, pushed through the unchanged 2W pipeline (trafo_rx), form a star whose
   impedances reproduce the documented pairwise short-circuit data (doc/elements/trafo3w.rst): with
   sc_pair v smin sn = v/100 * sn/smin (short-circuit voltage v percent relative to the smaller rating of the pair, on the
   system base) and star_r / star_x the per-unit r / x of a block at nominal ratio,
     r_h + r_m = sc_pair vkr_hv min(s_h, s_m),  r_m + r_l = sc_pair vkr_mv min(s_m, s_l),  r_h + r_l = sc_pair vkr_lv min(s_h, s_l)
     x_pair >= 0 and r_pair^2 + x_pair^2 = (sc_pair vk_pair)^2 for the three pairs
   (real and imaginary part separately; a single star x may be negative, its sign survives the sign(vki)*sqrt(.) coding
   of vk_percent).  All square roots are oracle inputs constrained by their defining equations and signs
   (t3_orc_ok, x_orc_ok; validated by the correspondence run through the residuals t3_resids / trafo_resid). *)
Theorem C02_t3_star_pairwise : forall sn w o3 vk2 vkr2 oh om ol vh bh vm bm vl bl,
  t3_vk w o3 = Ok (vk2, vkr2) -> t3_orc_ok w o3 ->
  x_orc_ok sn (t3_trafo w vk2 vkr2 0) oh vh bh -> x_orc_ok sn (t3_trafo w vk2 vkr2 1) om vm bm ->
  x_orc_ok sn (t3_trafo w vk2 vkr2 2) ol vl bl ->
  0 < sn -> 0 < pick 0 (w_sn w) -> 0 < pick 1 (w_sn w) -> 0 < pick 2 (w_sn w) ->
  ~ vh == 0 -> ~ bh == 0 -> ~ vm == 0 -> ~ bm == 0 -> ~ vl == 0 -> ~ bl == 0 ->
  let '(s0, s1, s2) := w_sn w in
  let '(vk_hm, vk_ml, vk_hl) := w_vk w in let '(vkr_hm, vkr_ml, vkr_hl) := w_vkr w in
  let rh := star_r sn w vk2 vkr2 0 oh vh bh in let xh := star_x sn w vk2 vkr2 0 oh vh bh in
  let rm := star_r sn w vk2 vkr2 1 om vm bm in let xm := star_x sn w vk2 vkr2 1 om vm bm in
  let rl := star_r sn w vk2 vkr2 2 ol vl bl in let xl := star_x sn w vk2 vkr2 2 ol vl bl in
  (rh + rm == sc_pair vkr_hm (qmin2 s0 s1) sn /\ rm + rl == sc_pair vkr_ml (qmin2 s1 s2) sn /\ rh + rl == sc_pair vkr_hl (qmin2 s0 s2) sn) /\
  (0 <= xh + xm /\ (rh + rm) * (rh + rm) + (xh + xm) * (xh + xm) == sc_pair vk_hm (qmin2 s0 s1) sn * sc_pair vk_hm (qmin2 s0 s1) sn) /\
  (0 <= xm + xl /\ (rm + rl) * (rm + rl) + (xm + xl) * (xm + xl) == sc_pair vk_ml (qmin2 s1 s2) sn * sc_pair vk_ml (qmin2 s1 s2) sn) /\
  (0 <= xh + xl /\ (rh + rl) * (rh + rl) + (xh + xl) * (xh + xl) == sc_pair vk_hl (qmin2 s0 s2) sn * sc_pair vk_hl (qmin2 s0 s2) sn).
Proof. exact t3_star_pairwise. Qed.
Print Assumptions C02_t3_star_pairwise.

(* one equivalent transformer whose vk_percent carries a sign (vk = sign(vki) sqrt(vki^2 + vkr^2)):
   r + jx = (vkr + j vki)/100 * k with the documented factor k *)
Theorem C02_trafo_rx_signed : forall sn t o vnl vnlbus vki K,
  t_vk t == qsign vki * K -> 0 <= K -> K * K == vki * vki + t_vkr t * t_vkr t -> ~ t_vk t == 0 ->
  o_x o * o_x o == fst (trafo_zr sn t vnl vnlbus) * fst (trafo_zr sn t vnl vnlbus)
                   - snd (trafo_zr sn t vnl vnlbus) * snd (trafo_zr sn t vnl vnlbus) ->
  0 <= o_x o -> 0 < sn -> 0 < t_sn t -> 0 < t_par t -> ~ vnl == 0 -> ~ vnlbus == 0 ->
  let k := (vnl / vnlbus) * (vnl / vnlbus) * sn / t_sn t / t_par t in
  fst (trafo_rx sn t o vnl vnlbus) == t_vkr t / 100 * k /\ snd (trafo_rx sn t o vnl vnlbus) == vki / 100 * k.
Proof. exact trafo_rx_signed. Qed.
Print Assumptions C02_trafo_rx_signed.

(* loss side: pfe_kw / i0_percent sit on the equivalent transformer of the loss side only (none for "star"); every
   other block has zero magnetising admittance *)
Theorem C02_t3_loss_side : forall w vk2 vkr2 blk,
  (t_pfe (t3_trafo w vk2 vkr2 blk), t_i0 (t3_trafo w vk2 vkr2 blk)) =
  if Nat.eqb (w_loss w) blk then (w_pfe w, w_i0 w) else (0, 0).
Proof. exact t3_loss_side. Qed.
Print Assumptions C02_t3_loss_side.
Theorem C02_t3_other_blocks_no_shunt : forall sn w vk2 vkr2 blk o vnl vnlbus,
  w_loss w <> blk -> o_bm o * o_bm o == qmax (trafo_ym2 (t3_trafo w vk2 vkr2 blk)) 0 ->
  fst (trafo_gb sn (t3_trafo w vk2 vkr2 blk) o vnl vnlbus) == 0 /\ snd (trafo_gb sn (t3_trafo w vk2 vkr2 blk) o vnl vnlbus) == 0.
Proof. intros. apply t3_other_blocks_no_shunt; [assumption | eapply t3_other_blocks_bm_zero; eassumption]. Qed.
Print Assumptions C02_t3_other_blocks_no_shunt.

(* the result columns p/q_hv, p/q_mv, p/q_lv, pl/ql of res_trafo3w (stamps + pfsoln + _get_trafo3w_results on the three
   rows) are the terminal powers of the star circuit star_S — block h from the hv terminal (ideal transformer at the
   terminal) to the star point, blocks m / l from the star point (ideal transformers at the star side) to the mv / lv
   terminals, each a pi two-port (row_I: series z, half shunts at both ends) — for all voltages and for pi- and T-model
   rows alike; pl + j ql is their sum.  For a T-model block the currents row_I are those of the T circuit
   (C02_t3_block_t_model). *)
Theorem C02_t3_results_star : forall rh rm rl eh em el vh va vm vl sn,
  row_sym_ok rh eh -> row_sym_ok rm em -> row_sym_ok rl el ->
  let res := t3_results (flows (stamps_core rh eh) vh va sn) (flows (stamps_core rm em) va vm sn)
                        (flows (stamps_core rl el) va vl sn) in
  let '(Sh, Sm, Sl) := star_S sn rh rm rl eh em el vh va vm vl in
  r3_hv res ==c Sh /\ r3_mv res ==c Sm /\ r3_lv res ==c Sl /\ r3_loss res ==c Cadd (Cadd Sh Sm) Sl.
Proof. exact t3_results_star. Qed.
Print Assumptions C02_t3_results_star.
Theorem C02_t3_block_t_model : forall br e vf vt r x g b rr xr,
  (b_r br, b_x br, b_g br, b_b br, b_ga br, b_ba br) = wye_delta_core r x g b rr xr ->
  let za := wd_za r x rr xr in let zb := wd_zb r x rr xr in let yc := mkC g b in
  ~ za ==c C0 -> ~ zb ==c C0 -> ~ yc ==c C0 -> ~ Cadd (Cadd za zb) (Cmul (Cmul za zb) yc) ==c C0 ->
  Ceq2 (row_I br e vf vt) (t_circuit_I za zb yc (Cdiv vf (Cscale (b_tap br) e)) vt).
Proof. exact row_I_t_model. Qed.
Print Assumptions C02_t3_block_t_model.
(* with Kirchhoff's current law at the star point (the auxiliary bus has no injection; the solution is an oracle input)
   the reported losses are the sum of the losses of the three star branches; the loss of a series-only block is sn |i|^2 z *)
Theorem C02_t3_losses_star : forall fh fm fl : C * C,
  Cadd (Cadd (snd fh) (fst fm)) (fst fl) ==c C0 ->
  r3_loss (t3_results fh fm fl) ==c Cadd (Cadd (pl (fst fh) (snd fh)) (pl (fst fm) (snd fm))) (pl (fst fl) (snd fl)).
Proof. exact t3_losses_star. Qed.
Print Assumptions C02_t3_losses_star.
Theorem C02_blk_series_loss : forall z n vf vt sn, ~ z ==c C0 ->
  let i := blk_I z C0 C0 n vf vt in
  Cadd (Cscale sn (Cmul (Cdiv vf n) (Cconj (fst i)))) (Cscale sn (Cmul vt (Cconj (snd i))))
  ==c Cscale (sn * cnorm2 (fst i)) z.
Proof. exact blk_series_loss. Qed.
Print Assumptions C02_blk_series_loss.

(* ================================================================ second tap changer (tap2_* columns)
   tap_second = pass "2" of the loop in _calc_tap_from_dataframe.  For well-formed tap changers of any kind on any side
   the composition is the documented rule step_doc applied twice, the second time to the state left by the first:
   a Ratio / Symmetrical step multiplies the rated-voltage phasor of its side by n_tap = 1 + steps e^{+-j phi}
   (u' (ca + j sa) = u n_tap, shift' = shift + angle), an ideal phase shifter adds diff*tap_step_degree or the arcsin
   angle, no tap side / unknown type leaves the state alone *)
Theorem C02_tap2_composition : forall tc1 o1 ca1 sa1 tc2 o2 ca2 sa2 vnh vnl sh,
  tap_wf tc1 -> tap_wf tc2 ->
  exists vnh1 vnl1 sh1 vnh2 vnl2 sh2,
    tap_notable tc1 o1 vnh vnl sh = Ok (vnh1, vnl1, Some sh1) /\
    tap_second (tap_notable tc1 o1 vnh vnl sh) tc2 o2 = Ok (vnh2, vnl2, Some sh2) /\
    (orc_ok tc1 o1 ca1 sa1 vnh vnl -> step_doc tc1 o1 ca1 sa1 (vnh, vnl, sh) (vnh1, vnl1, sh1)) /\
    (orc_ok tc2 o2 ca2 sa2 vnh1 vnl1 -> step_doc tc2 o2 ca2 sa2 (vnh1, vnl1, sh1) (vnh2, vnl2, sh2)).
Proof. exact tap2_composition. Qed.
Print Assumptions C02_tap2_composition.
(* two Ratio / Symmetrical changers on the hv side: vn_hv e^{j(a1+a2)} = vn_hv0 * n_tap1 * n_tap2 *)
Theorem C02_tap2_same_side_product : forall tc1 o1 ca1 sa1 tc2 o2 ca2 sa2 vnh vnl sh,
  tc_side tc1 = HV -> tc_side tc2 = HV ->
  (tc_type tc1 = Ratio \/ tc_type tc1 = Symmetrical) -> (tc_type tc2 = Ratio \/ tc_type tc2 = Symmetrical) ->
  orc_ok tc1 o1 ca1 sa1 vnh vnl -> orc_ok tc2 o2 ca2 sa2 (o_vn o1) vnl ->
  tap_second (tap_notable tc1 o1 vnh vnl sh) tc2 o2 = Ok (o_vn o2, vnl, Some (qadd (qadd sh (o_atan o1)) (o_atan o2))) /\
  Cscale (o_vn o2) (Cmul (mkC ca1 sa1) (mkC ca2 sa2))
    ==c Cscale vnh (Cmul (tap_n tc1 (o_c o1) (o_s o1)) (tap_n tc2 (o_c o2) (o_s o2))).
Proof. exact tap2_same_side_product. Qed.
Print Assumptions C02_tap2_same_side_product.
Theorem C02_tap2_errors_pass : forall e vnh vnl tc2 o2,
  tap_second (Raise e) tc2 o2 = Raise e /\ tap_second (Ok (vnh, vnl, None)) tc2 o2 = Ok (vnh, vnl, None).
Proof. intros. split; [apply tap2_first_raises | apply tap2_first_nan]. Qed.
Print Assumptions C02_tap2_errors_pass.

(* ---------------------------------------------------------------- non-vacuity of the new hypotheses *)
(* 3W transformer 40/40/40 MVA, vk = 5 %, vkr = 3 % for all pairs: vki_delta = 4, star vkr = 3/2, vki = 2, vk = 5/2;
   the sqrt oracle of each block on the system base 1 MVA at nominal ratio is 2/100/40 = 1/2000 *)
Definition ex_w : trafo3w :=
  {| w_vn := (110, 20, 10); w_sn := (40, 40, 40); w_vk := (5, 5, 5); w_vkr := (3, 3, 3); w_pfe := 30; w_i0 := 1 # 10;
     w_shift := (0, 0); w_in := true; w_maxload := Some 100; w_loss := 0 |}.
Definition ex_o3 : t3_orc := {| o_vki_d := (4, 4, 4); o_vk2 := (5 # 2, 5 # 2, 5 # 2) |}.
Definition ex_ox : trafo_orc := {| o_x := 1 # 2000; o_bm := 0 |}.
Example C02_t3_star_nonvacuous :
  t3_vk ex_w ex_o3 = Ok ((5 # 2, 5 # 2, 5 # 2), (3 # 2, 3 # 2, 3 # 2)) /\ t3_orc_ok ex_w ex_o3 /\
  x_orc_ok 1 (t3_trafo ex_w (5 # 2, 5 # 2, 5 # 2) (3 # 2, 3 # 2, 3 # 2) 0) ex_ox 110 110 /\
  x_orc_ok 1 (t3_trafo ex_w (5 # 2, 5 # 2, 5 # 2) (3 # 2, 3 # 2, 3 # 2) 1) ex_ox 20 20 /\
  x_orc_ok 1 (t3_trafo ex_w (5 # 2, 5 # 2, 5 # 2) (3 # 2, 3 # 2, 3 # 2) 2) ex_ox 10 10 /\
  star_r 1 ex_w (5 # 2, 5 # 2, 5 # 2) (3 # 2, 3 # 2, 3 # 2) 0 ex_ox 110 110
    + star_r 1 ex_w (5 # 2, 5 # 2, 5 # 2) (3 # 2, 3 # 2, 3 # 2) 1 ex_ox 20 20 == sc_pair 3 40 1.
Proof.
  split; [vm_compute; reflexivity|]. split; [vm_compute; repeat split; try discriminate|].
  repeat split; vm_compute; try reflexivity; discriminate.
Qed.
Print Assumptions C02_t3_star_nonvacuous.
Example C02_t3_results_nonvacuous :
  let r := mkB (1 # 100) (1 # 10) 0 0 0 0 0 0 1 0 true 100 in
  row_sym_ok r C1 /\ ~ r3_loss (t3_results (flows (stamps_core r C1) (mkC (21 # 20) 0) C1 1) (flows (stamps_core r C1) C1 (mkC (19 # 20) 0) 1)
                                            (flows (stamps_core r C1) C1 (mkC (9 # 10) (-1 # 20)) 1)) ==c C0.
Proof.
  split; [repeat split; try reflexivity; vm_compute; discriminate | vm_compute; intros [H _]; discriminate H].
Qed.
Print Assumptions C02_t3_results_nonvacuous.
(* two tap changers on the hv side: Symmetrical 90 degree, 3 steps of 25 % (n = 1 + 3/4 j, |n| = 5/4) then Ratio, -1 step of 2 % *)
Definition ex_tc1 : tapc := {| tc_side := HV; tc_type := Symmetrical; tc_diff := Some 3; tc_pct := Some 25; tc_deg := Some 90 |}.
Definition ex_tc2 : tapc := {| tc_side := HV; tc_type := Ratio; tc_diff := Some (-1); tc_pct := Some 2; tc_deg := Some 0 |}.
Definition ex_to1 : tap_orc := {| o_c := 0; o_s := 1; o_vn := 125; o_atan := 18434949 # 500000; o_asin := 0 |}.
Definition ex_to2 : tap_orc := {| o_c := 1; o_s := 0; o_vn := 245 # 2; o_atan := 0; o_asin := 0 |}.
Example C02_tap2_nonvacuous :
  tap_wf ex_tc1 /\ tap_wf ex_tc2 /\ orc_ok ex_tc1 ex_to1 (4 # 5) (3 # 5) 100 20 /\ orc_ok ex_tc2 ex_to2 1 0 125 20 /\
  tap_second (tap_notable ex_tc1 ex_to1 100 20 0) ex_tc2 ex_to2 = Ok (245 # 2, 20, Some (18434949 # 500000)).
Proof.
  split; [exact I|]. split; [exact I|].
  split; [vm_compute; repeat split; try reflexivity; discriminate|].
  split; [vm_compute; repeat split; try reflexivity; discriminate|]. vm_compute. reflexivity.
Qed.
Print Assumptions C02_tap2_nonvacuous.

(* the rows of the transformer pipeline meet the structural part of row_sym_ok by construction *)
Theorem C02_trafo_branch_shape : forall sn tm t o vnh vnl shift bh bl row,
  trafo_branch sn tm t o vnh vnl shift bh bl = Ok row ->
  b_ra row = 0 /\ b_xa row = 0 /\ b_stat row = t_in t /\ b_tap row = nominal_ratio vnh vnl bh bl /\ b_shift row = shift.
Proof. exact trafo_branch_shape. Qed.
Print Assumptions C02_trafo_branch_shape.

(* trafo3w tap changer at the star point (tap_step_degree 0 / NaN): the corrected step put on the other side of the block is
   the reciprocal of the documented n_tap — the rated voltage of the star side of the block is divided by n_tap *)
Theorem C02_star_tap_reciprocal : forall x blk p d c' s' g,
  x_side x = blk -> x_star x = true -> x_pct x = Some p ->
  (exists a n, x_pos x = Some a /\ x_neutral x = Some n /\ d == a - n) -> ~ 100 + p * d == 0 ->
  tc_deg (tap3_block x blk) = Some g ->
  (g == 0 -> c' == 1 /\ s' == 0) -> (g == -180 -> c' == -1 /\ s' == 0) ->
  tc_side (tap3_block x blk) = match blk with O => LV | _ => HV end /\
  tap_n (tap3_block x blk) c' s' ==c mkC (1 / (1 + p * d / 100)) 0.
Proof. exact star_tap_reciprocal. Qed.
Print Assumptions C02_star_tap_reciprocal.
Example C02_star_tap_nonvacuous :
  let x := {| x_side := 0; x_star := true; x_type := Ratio; x_pos := Some 2; x_neutral := Some 0; x_pct := Some (3 # 2); x_deg := None |} in
  tc_deg (tap3_block x 0) = Some (-180 # 1) /\ tap_n (tap3_block x 0) (-1) 0 ==c mkC (100 # 103) 0.
Proof. split; [vm_compute; reflexivity | vm_compute; split; reflexivity]. Qed.
Print Assumptions C02_star_tap_nonvacuous.
Theorem C02_t3_row_shape : forall sn tm cva w x o3 blk tpo o bh bl row,
  t3_row sn tm cva w x o3 blk tpo o bh bl = Ok row ->
  b_ra row = 0 /\ b_xa row = 0 /\ b_stat row = w_in w.
Proof. exact t3_row_shape. Qed.
Print Assumptions C02_t3_row_shape.

(* ================================================================ two-winding transformer, trafo_model "pi": ONE composed statement
   element parameters -> branch row (_calc_branch_values_from_trafo_df) -> makeYbus stamps -> pfsoln flows = the documented
   circuit in physical units: ideal transformer vn_hv : vn_lv (tap-adjusted) with the phase shift e at the hv side, then on
   the lv side Z_k (Re = vkr/100 vn_lv^2/(sn par), |.| = vk/100 vn_lv^2/(sn par), Im >= 0) and Y_m (Re = pfe/1000 par/vn_lv^2,
   |.| = i0/100 sn par/vn_lv^2, Im <= 0) half at each end; bus voltages bh*vf, bl*vt in kV, powers in MVA; the system base
   sn_mva and the bus base voltages cancel *)
Theorem C02_trafo_pi_chain : forall sn t o vnh vnl shift bh bl row e vf vt,
  trafo_branch sn false t o vnh vnl shift bh bl = Ok row -> t_in t = true ->
  0 <= o_x o ->
  o_x o * o_x o == fst (trafo_zr sn t vnl bl) * fst (trafo_zr sn t vnl bl) - snd (trafo_zr sn t vnl bl) * snd (trafo_zr sn t vnl bl) ->
  0 <= o_bm o -> o_bm o * o_bm o == trafo_ym2 t ->
  0 < t_vk t -> 0 < t_sn t -> 0 < t_par t -> 0 < sn -> 0 < vnl -> 0 < vnh -> 0 < bl -> 0 < bh -> ~ t_vnl0 t == 0 ->
  re e * re e + im e * im e == 1 ->
  exists Zk Ym : C,
    (re Zk == t_vkr t / 100 * (vnl * vnl) / (t_sn t * t_par t) /\ 0 <= im Zk /\
     re Zk * re Zk + im Zk * im Zk == (t_vk t / 100 * (vnl * vnl) / (t_sn t * t_par t)) * (t_vk t / 100 * (vnl * vnl) / (t_sn t * t_par t))) /\
    (re Ym == t_pfe t / 1000 * t_par t / (vnl * vnl) /\ im Ym <= 0 /\
     re Ym * re Ym + im Ym * im Ym == (t_i0 t / 100 * t_sn t * t_par t / (vnl * vnl)) * (t_i0 t / 100 * t_sn t * t_par t / (vnl * vnl))) /\
    Ceq2 (flows (stamps_core row e) vf vt sn)
         (pi_flows_phys2 Zk Zk (Cscale (1 # 2) Ym) (Cscale (1 # 2) Ym)
                         (Cdiv (Cscale (bh * (vnl / vnh)) vf) e) (Cscale bl vt)).
Proof. exact trafo_pi_chain. Qed.
Print Assumptions C02_trafo_pi_chain.
(* non-vacuity: 40 MVA 110/20 kV, vk 5 %, vkr 3 %, pfe 120 kW, i0 0.5 %: sqrt values 4/4000 and 4/25 are rational *)
Definition ex_t : trafo :=
  {| t_vnh0 := 110; t_vnl0 := 20; t_sn := 40; t_vk := 5; t_vkr := 3; t_pfe := 120; t_i0 := 1 # 2; t_par := 1; t_df := 1;
     t_in := true; t_maxload := Some 100; t_rr := 1 # 2; t_xr := 1 # 2 |}.
Definition ex_to : trafo_orc := {| o_x := 1 # 1000; o_bm := 4 # 25 |}.
Example C02_trafo_pi_chain_nonvacuous :
  (exists row, trafo_branch 1 false ex_t ex_to 110 20 0 110 20 = Ok row) /\
  o_x ex_to * o_x ex_to == fst (trafo_zr 1 ex_t 20 20) * fst (trafo_zr 1 ex_t 20 20) - snd (trafo_zr 1 ex_t 20 20) * snd (trafo_zr 1 ex_t 20 20) /\
  o_bm ex_to * o_bm ex_to == trafo_ym2 ex_t.
Proof. split; [eexists; vm_compute; reflexivity | split; vm_compute; reflexivity]. Qed.
Print Assumptions C02_trafo_pi_chain_nonvacuous.

(* trafo_model "t", from the producer: whenever _calc_branch_values_from_trafo_df returns a row for a transformer with a
   magnetising branch (no UserWarning, _wye_delta does not raise FloatingPointError), the row carries TAP = nominal ratio,
   SHIFT = adjusted shift and its stamps + flows are S_N v conj(i) of the documented T circuit: hv leakage
   za = r rr + j x xr, lv leakage zb = r(1-rr) + j x(1-xr) with (r, x) of C02_trafo_rx_documented, magnetising branch
   yc = g + jb of C02_trafo_gb_documented at the inner node, behind the ideal transformer — all side conditions discharged *)
Theorem C02_trafo_t_chain : forall sn t o vnh vnl shift bh bl row e vf vt,
  trafo_branch sn true t o vnh vnl shift bh bl = Ok row -> t_in t = true ->
  ~ (fst (trafo_gb sn t o vnl bl) == 0 /\ snd (trafo_gb sn t o vnl bl) == 0) ->
  ~ nominal_ratio vnh vnl bh bl == 0 -> re e * re e + im e * im e == 1 ->
  let r := fst (trafo_rx sn t o vnl bl) in let x := snd (trafo_rx sn t o vnl bl) in
  let za := wd_za r x (t_rr t) (t_xr t) in let zb := wd_zb r x (t_rr t) (t_xr t) in
  let yc := mkC (fst (trafo_gb sn t o vnl bl)) (snd (trafo_gb sn t o vnl bl)) in
  let vf' := Cdiv vf (Cscale (nominal_ratio vnh vnl bh bl) e) in
  let i := t_circuit_I za zb yc vf' vt in
  b_tap row = nominal_ratio vnh vnl bh bl /\ b_shift row = shift /\
  Ceq2 (flows (stamps_core row e) vf vt sn)
       (Cscale sn (Cmul vf' (Cconj (fst i))), Cscale sn (Cmul vt (Cconj (snd i)))).
Proof. exact trafo_t_chain. Qed.
Print Assumptions C02_trafo_t_chain.
Example C02_trafo_t_chain_nonvacuous :
  (exists row, trafo_branch 1 true ex_t ex_to 110 20 0 110 20 = Ok row) /\
  ~ (fst (trafo_gb 1 ex_t ex_to 20 20) == 0 /\ snd (trafo_gb 1 ex_t ex_to 20 20) == 0) /\ ~ nominal_ratio 110 20 110 20 == 0.
Proof. split; [eexists; vm_compute; reflexivity | split; vm_compute; [intros [H _]; discriminate H | discriminate]]. Qed.
Print Assumptions C02_trafo_t_chain_nonvacuous.
