(* C03 — property theorems (statements only; proofs in C03/Proofs.v), on the shared branch model C02/Model.v *)
From Coq Require Import ZArith QArith List Bool.
From PPV Require Import Base.QN Base.QC C31.Model C02.Model C02.CPlain C02.CField C02.Proofs C03.Model C03.Proofs.
From PPV Require C01.Model C01.YbusModel C01.BranchModel C03.ComposeModel C03.Compose.     (* composition with C01, imported in Module Composed *)
Import ListNotations.
Open Scope Q_scope.

(* pl_mw = p_from + p_to of a branch whose series resistance and shunt conductances are non-negative is >= 0,
   for every complex tap (phase shifters included), every voltage pair, any reactances / susceptances.
   pl = results_branch.py :115 (lines), :316 (trafo), :551 (impedance); flows = pfsoln; stamps_core = makeYbus *)
Theorem C03_pi_loss_nonneg : forall br e vf vt sn,
  b_stat br = true -> b_ra br == 0 -> b_xa br == 0 ->
  ~ (b_r br) * (b_r br) + (b_x br) * (b_x br) == 0 -> ~ b_tap br == 0 -> re e * re e + im e * im e == 1 ->
  0 <= sn -> 0 <= b_r br -> 0 <= b_g br -> 0 <= b_g br + b_ga br ->
  0 <= re (pl (fst (flows (stamps_core br e) vf vt sn)) (snd (flows (stamps_core br e) vf vt sn))).
Proof. exact pi_loss_nonneg. Qed.
Print Assumptions C03_pi_loss_nonneg.

(* the losses are exactly the dissipation of the series resistance and of the two shunt conductances *)
Theorem C03_pi_loss_identity : forall br e vf vt sn,
  b_stat br = true -> b_ra br == 0 -> b_xa br == 0 ->
  ~ (b_r br) * (b_r br) + (b_x br) * (b_x br) == 0 -> ~ b_tap br == 0 -> re e * re e + im e * im e == 1 ->
  let s := flows (stamps_core br e) vf vt sn in
  let vf' := Cdiv vf (Cscale (b_tap br) e) in
  re (fst s) + re (snd s) ==
  sn * (b_r br / (b_r br * b_r br + b_x br * b_x br) * csq (Csub vf' vt)
        + b_g br / 2 * csq vf' + (b_g br + b_ga br) / 2 * csq vt).
Proof. exact pi_loss_identity. Qed.
Print Assumptions C03_pi_loss_identity.

(* the same statement on the executable functions the correspondence run evaluates (C03/Model.v):
   reported pl_mw = dissipation in the resistance and conductances *)
Theorem C03_loss_is_dissipation : forall br e vf vt sn,
  b_stat br = true -> b_ra br == 0 -> b_xa br == 0 ->
  ~ (b_r br) * (b_r br) + (b_x br) * (b_x br) == 0 -> ~ b_tap br == 0 -> re e * re e + im e * im e == 1 ->
  re (loss_reported br e vf vt sn) == dissipation br e vf vt sn.
Proof. exact loss_is_dissipation. Qed.
Print Assumptions C03_loss_is_dissipation.

(* T-model transformer (two-port level): the pi parameters of _wye_delta draw non-negative active power for all
   terminal voltages when r*rr, r*(1-rr), g (pfe) are non-negative *)
Theorem C03_t_model_loss_nonneg : forall r x g b rr xr vf vt,
  let za := wd_za r x rr xr in let zb := wd_zb r x rr xr in let yc := mkC g b in
  ~ za ==c C0 -> ~ zb ==c C0 -> ~ yc ==c C0 ->
  ~ Cadd (Cadd za zb) (Cmul (Cmul za zb) yc) ==c C0 ->
  0 <= re za -> 0 <= re zb -> 0 <= g ->
  let '(r', x', g', b', ga, ba) := wye_delta_core r x g b rr xr in
  0 <= re (port_power vf vt (pi_circuit_I r' x' g' b' ga ba vf vt)).
Proof. exact t_model_loss_nonneg. Qed.
Print Assumptions C03_t_model_loss_nonneg.

(* global conservation: if every bus balances, sum of injections (generation - consumption) = sum of branch losses;
   any number of buses and branches, parallel branches and self loops included *)
Theorem C03_global_conservation : forall buses brs (inj : nat -> Q),
  NoDup buses -> (forall b, In b brs -> In (bf_f b) buses /\ In (bf_t b) buses) ->
  (forall k, In k buses -> inj k == bus_outflow brs k) ->
  qsum (map inj buses) == qsum (map (fun b => bf_pf b + bf_pt b) brs).
Proof. exact conservation_from_nodal_balance. Qed.
Print Assumptions C03_global_conservation.

(* DC power flow: every branch is lossless *)
Theorem C03_dc_lossless : forall b shift pi vaf vat sn,
  fst (dc_flow b shift pi vaf vat sn) + snd (dc_flow b shift pi vaf vat sn) == 0.
Proof. exact dc_branch_lossless. Qed.
Print Assumptions C03_dc_lossless.

(* non-vacuity: hypotheses of C03_pi_loss_nonneg hold for a concrete phase-shifting branch, and the loss is > 0 *)
Example C03_nonvacuous :
  let br := mkB (1 # 100) (1 # 10) (1 # 1000) (-1 # 50) 0 0 0 0 (21 # 20) 30 true 100 in
  let e := mkC (4 # 5) (3 # 5) in
  0 < re (pl (fst (flows (stamps_core br e) (mkC 1 0) (mkC (9 # 10) (-1 # 10)) 10))
             (snd (flows (stamps_core br e) (mkC 1 0) (mkC (9 # 10) (-1 # 10)) 10))).
Proof. vm_compute. reflexivity. Qed.
Print Assumptions C03_nonvacuous.

(* which element rows meet the hypotheses of the loss theorems *)
Theorem C03_line_row_symmetric : forall sn fhz pi sqrt3 base vnfrom l,
  let br := line_branch sn fhz pi sqrt3 base vnfrom l in
  b_ra br = 0 /\ b_xa br = 0 /\ b_ga br = 0 /\ b_tap br = 1 /\ b_stat br = l_in l.
Proof. exact line_row_symmetric. Qed.
Print Assumptions C03_line_row_symmetric.
Theorem C03_line_row_passive : forall sn fhz pi sqrt3 base vnfrom l,
  l_temp l = None -> 0 < sn -> ~ base == 0 -> 0 < l_par l -> 0 <= l_r l -> 0 <= l_len l -> 0 <= l_g l ->
  let br := line_branch sn fhz pi sqrt3 base vnfrom l in 0 <= b_r br /\ 0 <= b_g br /\ 0 <= b_g br + b_ga br.
Proof. exact line_row_passive. Qed.
Print Assumptions C03_line_row_passive.
Theorem C03_trafo_row_symmetric : forall sn tm t o vnh vnl shift basehv baselv br,
  trafo_branch sn tm t o vnh vnl shift basehv baselv = Ok br -> b_ra br = 0 /\ b_xa br = 0.
Proof. exact trafo_row_symmetric. Qed.
Print Assumptions C03_trafo_row_symmetric.
Theorem C03_xward_switch_rows_symmetric : forall sn basekv r x is z rx oq_,
  b_ra (xward_branch sn basekv r x is) = 0 /\ b_xa (xward_branch sn basekv r x is) = 0 /\
  b_ra (switch_branch sn basekv z rx oq_) = 0 /\ b_xa (switch_branch sn basekv z rx oq_) = 0.
Proof. exact xward_switch_rows_symmetric. Qed.
Print Assumptions C03_xward_switch_rows_symmetric.

(* T-model transformer end to end: a branch row carrying the pi parameters _wye_delta computed from a passive T circuit
   (r*rr, r*(1-rr), pfe >= 0), stamped by makeYbus with any complex tap and evaluated by pfsoln, reports pl_mw >= 0 *)
Theorem C03_t_model_row_loss_nonneg : forall br e vf vt sn r x g b rr xr,
  b_stat br = true -> b_ra br == 0 -> b_xa br == 0 ->
  ~ (b_r br) * (b_r br) + (b_x br) * (b_x br) == 0 -> ~ b_tap br == 0 -> re e * re e + im e * im e == 1 ->
  (b_r br, b_x br, b_g br, b_b br, b_ga br, b_ba br) = wye_delta_core r x g b rr xr ->
  let za := wd_za r x rr xr in let zb := wd_zb r x rr xr in let yc := mkC g b in
  ~ za ==c C0 -> ~ zb ==c C0 -> ~ yc ==c C0 -> ~ Cadd (Cadd za zb) (Cmul (Cmul za zb) yc) ==c C0 ->
  0 <= sn -> 0 <= re za -> 0 <= re zb -> 0 <= g ->
  0 <= re (pl (fst (flows (stamps_core br e) vf vt sn)) (snd (flows (stamps_core br e) vf vt sn))).
Proof. exact t_model_row_loss_nonneg. Qed.
Print Assumptions C03_t_model_row_loss_nonneg.

(* ---- composition with C01 (coq/C03/Compose.v): the nodal balances are no longer a hypothesis.
   n : C01.Model.net (result-table side: gen rows after pfsoln, loads with their own ZIP law at the solved |V|, sgens, storages,
   wards, shunts), ps : the in-service ppc branch rows (C01.BranchModel.prow over C02.Model.brow), V : the solved voltages,
   v k = |V_k|, inj_of = V_k conj((Ybus V)_k) of the Ybus assembled from ps and the bus shunts, mism_p = the Newton P mismatch
   in MW (an NR equation at every non-reference bus), G03 = C01's guard G01p (no ZIP-averaging defect) plus the slack power of a
   reference bus being assignable, row_loss = the reported pl_mw = p_from + p_to of the row (C03.Model.loss_reported).
   Zero mismatch and the guards  ==>  total generation - total consumption = sum of the reported branch losses. *)
Module Composed.
Import C01.Model C01.YbusModel C01.BranchModel C03.ComposeModel C03.Compose.
Theorem C03_conservation_composed_with_C01 : forall n ref ps V (v : nat -> Q) buses,
  ~ base n == 0 -> NoDup buses ->
  (forall p, In p ps -> In (pr_f p) buses /\ In (pr_t p) buses) ->
  (forall k, In k buses -> v k * v k == cnorm2 (vat V k)) ->
  (forall k, In k buses -> G03 n ref k = true) ->
  (forall k, In k buses -> (memn k ref && has_gen n k) = false -> mism_p n k (v k) (inj_of n ps V k) == 0) ->
  qsum (map (fun k => gen_p n ref k (v k) (inj_of n ps V k) - cons_p n k (v k)) buses)
  == qsum (map (row_loss V (base n)) ps).
Proof. exact conservation_composed. Qed.
Print Assumptions C03_conservation_composed_with_C01.
(* with C03_pi_loss_nonneg on every row: the generation covers the consumption *)
Theorem C03_generation_covers_consumption : forall n ref ps V (v : nat -> Q) buses,
  ~ base n == 0 -> 0 <= base n -> NoDup buses ->
  (forall p, In p ps -> In (pr_f p) buses /\ In (pr_t p) buses) ->
  (forall k, In k buses -> v k * v k == cnorm2 (vat V k)) ->
  (forall k, In k buses -> G03 n ref k = true) ->
  (forall k, In k buses -> (memn k ref && has_gen n k) = false -> mism_p n k (v k) (inj_of n ps V k) == 0) ->
  (forall p, In p ps -> row_passive (base n) p) ->
  0 <= qsum (map (fun k => gen_p n ref k (v k) (inj_of n ps V k) - cons_p n k (v k)) buses).
Proof. exact generation_covers_consumption. Qed.
Print Assumptions C03_generation_covers_consumption.
(* non-vacuity: reference bus -- resistive branch -- bus with a 100 % constant-impedance (voltage dependent) load at |V| = 13/20,
   Newton mismatch exactly zero: generation - consumption = losses = 89/404 MW *)
Example C03_composed_nonvacuous :
  vdl ex_net = true /\ G03 ex_net [0%nat] 0 = true /\ G03 ex_net [0%nat] 1 = true /\
  ex_v 1 * ex_v 1 == cnorm2 (vat ex_V 1) /\
  mism_p ex_net 1 (ex_v 1) (inj_of ex_net ex_ps ex_V 1) == 0 /\
  cons_p ex_net 1 (ex_v 1) == 1071 # 404 /\
  qsum (map (fun k => gen_p ex_net [0%nat] k (ex_v k) (inj_of ex_net ex_ps ex_V k) - cons_p ex_net k (ex_v k)) [0; 1]%nat) == 89 # 404 /\
  qsum (map (row_loss ex_V (base ex_net)) ex_ps) == 89 # 404.
Proof. exact composed_nonvacuous. Qed.
Print Assumptions C03_composed_nonvacuous.
End Composed.
