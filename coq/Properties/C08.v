(* C08 — calculations never corrupt the user's element tables, even when they fail
   (statements only; proofs are in C08/Proofs.v).
   exec (pl_of c n) k conv n : the stage machine of calculation c (power flow AC/DC, OPF AC/DC, short circuit 2ph/3ph,
   short circuit 1ph, three-phase power flow) on net n at the granularity of single table writes (tracking an index and
   writing the row are separate steps), with an injected fault before the k-th executed operation (k = None: no
   fault) and the solver verdict conv (false = not converged / matrix inversion failed).
   user_tables = (gen, vsc, trafo, dcline, b2b_vsc) rows with all cell contents; clean = nothing is tracked as
   auxiliary (the state between calculations). *)
From Coq Require Import ZArith List Bool.
From PPV Require Import C08.Model C08.Proofs C08.ProofsX.
Import ListNotations.
Open Scope Z_scope.

(* FULL: every calculation, every crash point, every solver verdict: the element tables are what they were, and
   nothing stays tracked *)
Theorem C08_tables_preserved : forall n c k conv,
  clean n = true ->
  user_tables (fst (fst (exec (pl_of c n) k conv n))) = user_tables n /\
  clean (fst (fst (exec (pl_of c n) k conv n))) = true.
Proof. intros n c k conv C. exact (calc_restores n c k conv C). Qed.
Print Assumptions C08_tables_preserved.

(* any number of calculations in a row on the same object, each crashing wherever it likes *)
Theorem C08_session_preserved : forall cs n,
  clean n = true ->
  user_tables (session cs n) = user_tables n /\ clean (session cs n) = true.
Proof. intros cs n C. exact (session_restores cs n C). Qed.
Print Assumptions C08_session_preserved.

(* _clean_up removes exactly the auxiliary rows from any intermediate state of a pipeline (Inv: user rows ++ extra rows
   whose indices are tracked, tracked indices above all user indices), and calling it again changes nothing *)
Theorem C08_cleanup_removes_exactly_aux : forall n0 n r,
  Inv n0 n ->
  user_tables (apply (ACleanup r) n) = user_tables n0 /\ clean (apply (ACleanup r) n) = true.
Proof. intros n0 n r I. exact (cleanup_restores n0 n r I). Qed.
Print Assumptions C08_cleanup_removes_exactly_aux.

Theorem C08_cleanup_idempotent : forall n r r',
  apply (ACleanup r') (apply (ACleanup r) n) = apply (ACleanup r) n.
Proof. exact cleanup_idempotent. Qed.
Print Assumptions C08_cleanup_idempotent.

(* the pipelines before the repairs violate the statement (regression witnesses).
   Mid = index tracked only after create_gen returned, b2b vsc's cleaned up by name: *)
Theorem C08_mid_window_refuted :
  exists n k conv, clean n = true /\
    user_tables (fst (fst (exec (pl_powerflow_mid n) k conv n))) <> user_tables n.
Proof. exact mid_window_refuted. Qed.
Print Assumptions C08_mid_window_refuted.

Theorem C08_mid_vsc_name_refuted :
  exists n k conv, clean n = true /\ snd (fst (exec (pl_powerflow_mid n) k conv n)) = Done /\
    user_tables (fst (fst (exec (pl_powerflow_mid n) k conv n))) <> user_tables n.
Proof. exact mid_vsc_name_refuted. Qed.
Print Assumptions C08_mid_vsc_name_refuted.

(* Old = no tracking, no try statement, trailing-rows cleanup, tap table written into net.trafo: *)
Theorem C08_old_crash_leaks_refuted :
  exists n k conv, user_tables (fst (fst (exec (pl_powerflow_old n) k conv n))) <> user_tables n.
Proof. exact old_crash_leaks_refuted. Qed.
Print Assumptions C08_old_crash_leaks_refuted.

Theorem C08_old_opf_not_converged_leaks_refuted :
  exists n, user_tables (fst (fst (exec (pl_opf_old n) None false n))) <> user_tables n.
Proof. exact old_opf_not_converged_leaks_refuted. Qed.
Print Assumptions C08_old_opf_not_converged_leaks_refuted.

Theorem C08_old_tap_table_overwrites_refuted :
  exists n, snd (fst (exec (pl_powerflow_old n) None true n)) = Done /\
            user_tables (fst (fst (exec (pl_powerflow_old n) None true n))) <> user_tables n.
Proof. exact old_tap_table_overwrites_refuted. Qed.
Print Assumptions C08_old_tap_table_overwrites_refuted.

Theorem C08_old_cleanup_without_add_refuted :
  exists n, user_tables (apply (ACleanupOld true) n) <> user_tables n.
Proof. exact old_cleanup_without_add_refuted. Qed.
Print Assumptions C08_old_cleanup_without_add_refuted.

Example C08_nonvacuous :
  clean net_nv = true /\
  (exists tr, snd (run (add_aux net_nv) None true net_nv) = tr /\
              map (fun n => (ids (gen n), olist_ (tracked n), map v_id (vsc n))) tr =
              [ ([2;5], [], [4]); ([2;5], [6], [4]); ([2;5;6], [6], [4]); ([2;5;6], [6;7], [4]); ([2;5;6;7], [6;7], [4]);
                ([2;5;6;7], [6;7;8], [4]); ([2;5;6;7;8], [6;7;8], [4]); ([2;5;6;7;8], [6;7;8;9], [4]);
                ([2;5;6;7;8;9], [6;7;8;9], [4]); ([2;5;6;7;8;9], [6;7;8;9], [4]); ([2;5;6;7;8;9], [6;7;8;9], [4]);
                ([2;5;6;7;8;9], [6;7;8;9], [4;5]); ([2;5;6;7;8;9], [6;7;8;9], [4;5]); ([2;5;6;7;8;9], [6;7;8;9], [4;5;6]) ]) /\
  user_tables (fst (fst (exec (pl_sc_1ph net_nv) (Some 7%nat) true net_nv))) = user_tables net_nv /\
  snd (fst (exec (pl_sc_1ph net_nv) (Some 7%nat) true net_nv)) = Raised.
Proof. exact nonvacuous. Qed.
Print Assumptions C08_nonvacuous.

(* ---- state estimation and contingency analysis (stage machines of StateEstimation.estimate and run_contingency).
   xnet = element tables of the pipelines + the switch impedance column(s) + all in_service cells.
   xtables_eq s0 s : gen/vsc/trafo/dcline/b2b_vsc rows, z_ohm, presence of z_ohm_ori, every in_service cell and the
   row sets of s are those of s0, and nothing is tracked as auxiliary.
   k counts atomic operations INCLUDING those of the nested power flows (every _get_bus_ppc_mapping of the bb-switch
   substitution and every outage case runs a complete power flow with its own auxiliary elements and try statement);
   exn = the injected fault is an Exception (false: BaseException only, e.g. KeyboardInterrupt). *)

(* FULL: estimate with any fuse_buses_with_bb_switch argument (bb: substitution active; badarg: invalid string), any
   sequence of impedance writes, any verdict of the nested power flows and of the solver, any crash point, any kind of
   fault: try/finally gives the switch impedances back and nothing else is touched *)
Theorem C08_estimate_preserved : forall exn bb badarg rounds conv_pf success k s,
  clean (x_net s) = true -> sw_ori s = None ->
  xtables_eq s (fst (fst (run_estimate exn bb badarg rounds conv_pf success k s))).
Proof. exact estimate_restores. Qed.
Print Assumptions C08_estimate_preserved.

(* the guard is needed: a user column called z_ohm_ori is overwritten and dropped (helper-column name collision) *)
Theorem C08_estimate_user_ori_column_refuted :
  exists s, clean (x_net s) = true /\
    sw_ori (fst (fst (run_estimate true true false [] true true None s))) <> sw_ori s.
Proof. exact estimate_user_ori_column_refuted. Qed.
Print Assumptions C08_estimate_user_ori_column_refuted.

(* the code before the repair (reset only on normal completion) violates the statement *)
Theorem C08_estimate_old_refuted :
  exists s k, clean (x_net s) = true /\ sw_ori s = None /\
    sw_z (fst (fst (run_estimate_old true true false [([true], None)] true true k s))) <> sw_z s.
Proof. exact estimate_old_refuted. Qed.
Print Assumptions C08_estimate_old_refuted.

(* FULL for the code as it is (outage assignment inside the try statement, CONTINGENCY_OUTAGE_INSIDE_TRY = true): every
   outage list (absent indices, elements already out of service, repeated elements), every evaluation function among the
   modelled calculations, every verdict per case, raise_errors on/off, every crash point - also directly behind the outage
   assignment (window) -, Exception or BaseException: all in_service cells and all tables are given back *)
Theorem C08_contingency_preserved : forall exn window raise_errors c cs conv0 k s,
  clean (x_net s) = true ->
  xtables_eq s (fst (fst (run_contingency exn window CONTINGENCY_OUTAGE_INSIDE_TRY raise_errors c cs conv0 k s))).
Proof. exact contingency_restores_full. Qed.
Print Assumptions C08_contingency_preserved.

(* the layout before the repair (assignment in front of the try statement): only the crash points at which a statement
   raises are safe ... *)
Theorem C08_contingency_old_preserved_partial : forall exn raise_errors c cs conv0 k s,
  clean (x_net s) = true ->
  xtables_eq s (fst (fst (run_contingency_old exn false raise_errors c cs conv0 k s))).
Proof. intros. apply contingency_restores; auto. Qed.
Print Assumptions C08_contingency_old_preserved_partial.

(* ... a fault between the assignment and the try statement left the element out of service (regression witness) *)
Theorem C08_contingency_old_window_refuted :
  exists s cs k, clean (x_net s) = true /\
    serv (fst (fst (run_contingency_old false true false CPf cs true k s))) 0%nat 1 <> serv s 0%nat 1.
Proof. exact contingency_window_refuted. Qed.
Print Assumptions C08_contingency_old_window_refuted.

Example C08_nonvacuous_estimate_contingency :
  (let r := run_estimate false true false [([true; false], Some [true; false]); ([false; true], None)] true true (Some 30%nat)
              {| x_net := net_nv; sw_z := Some [0; 0]; sw_ori := None; serv := fun _ _ => true; has := fun _ _ => true |} in
   oc3 r = XRaised false /\ sw_z (st3 r) = Some [0; 0] /\ sw_ori (st3 r) = None /\ user_tables (x_net (st3 r)) = user_tables net_nv) /\
  sw_z (st3 (xrun_ops true (est_body true false false [([true; false], None)] true true) None
              {| x_net := net0; sw_z := Some [0; 0]; sw_ori := None; serv := fun _ _ => true; has := fun _ _ => true |}))
    = Some [Z_IMP; 0] /\
  (let r := run_contingency false false false false CPf [(0%nat, 0, true); (0%nat, 1, false); (0%nat, 2, true)] true (Some 12%nat) s_line in
   oc3 r = XRaised false /\ forall i, In i [0; 1; 2] -> serv (st3 r) 0%nat i = true) /\
  oc3 (run_contingency true false false false CPf [(0%nat, 0, true); (0%nat, 1, false); (0%nat, 2, true)] true (Some 12%nat) s_line) = XDone.
Proof. exact nonvacuous_x. Qed.
Print Assumptions C08_nonvacuous_estimate_contingency.
