(* C08 — calculations never corrupt the user's element tables, even when they fail
   (statements only; proofs are in C08/Proofs.v).
   exec (pl_of c n) k conv n : the stage machine of calculation c (power flow AC/DC, OPF AC/DC, short circuit 2ph/3ph,
   short circuit 1ph, three-phase power flow) on net n at the granularity of single table writes (tracking an index and
   writing the row are separate steps), with an injected fault before the k-th executed operation (k = None: no
   fault) and the solver verdict conv (false = not converged / matrix inversion failed).
   user_tables = (gen, vsc, trafo, dcline, b2b_vsc) rows with all cell contents; clean = nothing is tracked as
   auxiliary (the state between calculations). *)
From Coq Require Import ZArith List Bool.
From PPV Require Import C08.Model C08.Proofs.
Import ListNotations.
Open Scope Z_scope.

(* FULL: every calculation, every crash point, every solver verdict: the element tables are what they were, and
   nothing stays tracked *)
Theorem C08_tables_preserved : forall n c k conv,
  clean n = true ->
  user_tables (fst (fst (exec (pl_of c n) k conv n))) = user_tables n /\
  clean (fst (fst (exec (pl_of c n) k conv n))) = true.
Proof. intros n c k conv C. exact (calc_restores n c k conv C). Qed.
Print Assumptions C08_tables_preserved.

(* any number of calculations in a row on the same object, each crashing wherever it likes *)
Theorem C08_session_preserved : forall cs n,
  clean n = true ->
  user_tables (session cs n) = user_tables n /\ clean (session cs n) = true.
Proof. intros cs n C. exact (session_restores cs n C). Qed.
Print Assumptions C08_session_preserved.

(* _clean_up removes exactly the auxiliary rows from any intermediate state of a pipeline (Inv: user rows ++ extra rows
   whose indices are tracked, tracked indices above all user indices), and calling it again changes nothing *)
Theorem C08_cleanup_removes_exactly_aux : forall n0 n r,
  Inv n0 n ->
  user_tables (apply (ACleanup r) n) = user_tables n0 /\ clean (apply (ACleanup r) n) = true.
Proof. intros n0 n r I. exact (cleanup_restores n0 n r I). Qed.
Print Assumptions C08_cleanup_removes_exactly_aux.

Theorem C08_cleanup_idempotent : forall n r r',
  apply (ACleanup r') (apply (ACleanup r) n) = apply (ACleanup r) n.
Proof. exact cleanup_idempotent. Qed.
Print Assumptions C08_cleanup_idempotent.

(* the pipelines before the repairs violate the statement (regression witnesses).
   Mid = index tracked only after create_gen returned, b2b vsc's cleaned up by name: *)
Theorem C08_mid_window_refuted :
  exists n k conv, clean n = true /\
    user_tables (fst (fst (exec (pl_powerflow_mid n) k conv n))) <> user_tables n.
Proof. exact mid_window_refuted. Qed.
Print Assumptions C08_mid_window_refuted.

Theorem C08_mid_vsc_name_refuted :
  exists n k conv, clean n = true /\ snd (fst (exec (pl_powerflow_mid n) k conv n)) = Done /\
    user_tables (fst (fst (exec (pl_powerflow_mid n) k conv n))) <> user_tables n.
Proof. exact mid_vsc_name_refuted. Qed.
Print Assumptions C08_mid_vsc_name_refuted.

(* Old = no tracking, no try statement, trailing-rows cleanup, tap table written into net.trafo: *)
Theorem C08_old_crash_leaks_refuted :
  exists n k conv, user_tables (fst (fst (exec (pl_powerflow_old n) k conv n))) <> user_tables n.
Proof. exact old_crash_leaks_refuted. Qed.
Print Assumptions C08_old_crash_leaks_refuted.

Theorem C08_old_opf_not_converged_leaks_refuted :
  exists n, user_tables (fst (fst (exec (pl_opf_old n) None false n))) <> user_tables n.
Proof. exact old_opf_not_converged_leaks_refuted. Qed.
Print Assumptions C08_old_opf_not_converged_leaks_refuted.

Theorem C08_old_tap_table_overwrites_refuted :
  exists n, snd (fst (exec (pl_powerflow_old n) None true n)) = Done /\
            user_tables (fst (fst (exec (pl_powerflow_old n) None true n))) <> user_tables n.
Proof. exact old_tap_table_overwrites_refuted. Qed.
Print Assumptions C08_old_tap_table_overwrites_refuted.

Theorem C08_old_cleanup_without_add_refuted :
  exists n, user_tables (apply (ACleanupOld true) n) <> user_tables n.
Proof. exact old_cleanup_without_add_refuted. Qed.
Print Assumptions C08_old_cleanup_without_add_refuted.

Example C08_nonvacuous :
  clean net_nv = true /\
  (exists tr, snd (run (add_aux net_nv) None true net_nv) = tr /\
              map (fun n => (ids (gen n), olist_ (tracked n), map v_id (vsc n))) tr =
              [ ([2;5], [], [4]); ([2;5], [6], [4]); ([2;5;6], [6], [4]); ([2;5;6], [6;7], [4]); ([2;5;6;7], [6;7], [4]);
                ([2;5;6;7], [6;7;8], [4]); ([2;5;6;7;8], [6;7;8], [4]); ([2;5;6;7;8], [6;7;8;9], [4]);
                ([2;5;6;7;8;9], [6;7;8;9], [4]); ([2;5;6;7;8;9], [6;7;8;9], [4]); ([2;5;6;7;8;9], [6;7;8;9], [4]);
                ([2;5;6;7;8;9], [6;7;8;9], [4;5]); ([2;5;6;7;8;9], [6;7;8;9], [4;5]); ([2;5;6;7;8;9], [6;7;8;9], [4;5;6]) ]) /\
  user_tables (fst (fst (exec (pl_sc_1ph net_nv) (Some 7%nat) true net_nv))) = user_tables net_nv /\
  snd (fst (exec (pl_sc_1ph net_nv) (Some 7%nat) true net_nv)) = Raised.
Proof. exact nonvacuous. Qed.
Print Assumptions C08_nonvacuous.
