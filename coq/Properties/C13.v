(* C13 — property theorems (statements only; proofs are in C13/Proofs.v and C13/Taps.v) *)
From Coq Require Import ZArith QArith Qabs List Bool Sorted Permutation.
From PPV Require Import Base.QN C13.Model C13.Proofs C13.Taps C13.Invariant.
Import ListNotations.
Open Scope Q_scope.

(* ---- the loop, for every state type, every calculation oracle [run] and every controller set *)

(* one level: the loop is left normally only on a state on which every controller of the level reported convergence, and
   that state is fresh: nothing ran in the level at all, or the last event before the final round of is_converged calls is a
   calculation whose output is the returned state (no control_step after the last calculation) *)
Theorem C13_level_exit_converged : forall St run max_iter cod (l : list (ctrl St)) s netc s' netc' rc' t,
  Forall (pure St) l ->
  run_level St run max_iter cod l s netc = (LDone true s' netc' rc', t) ->
  Forall (conv_at St s') l /\ fresh_exit St l (apply_all St c_reset l s) s' t.
Proof. exact level_exit_converged. Qed.
Print Assumptions C13_level_exit_converged.

(* after a level, check_final_convergence passes iff the level's loop ended with ctrl_converged and a converged calculation;
   a loop that ran out of iterations raises ControllerNotConverged; a calculation that was not converged on entry never passes *)
Theorem C13_exit_or_raise : forall St run max_iter cod (l : list (ctrl St)) s netc cc s' netc' rc' t,
  run_level St run max_iter cod l s netc = (LDone cc s' netc' rc', t) ->
  (check_final rc' max_iter netc' = Ok <-> cc = true /\ netc' = true) /\
  (cc = false -> netc = true -> check_final rc' max_iter netc' = ErrCtrl) /\
  (netc = false -> check_final rc' max_iter netc' <> Ok).
Proof. exact exit_or_raise. Qed.
Print Assumptions C13_exit_or_raise.

(* at most max_iter + 1 calculations per level *)
Theorem C13_run_count_bound : forall St run fuel cod (l : list (ctrl St)) s netc rc cc s' netc' rc' t,
  level_loop St run fuel cod l s netc rc = (LDone cc s' netc' rc', t) -> (rc' <= rc + fuel)%nat.
Proof. exact level_loop_count. Qed.
Print Assumptions C13_run_count_bound.

(* G13 (at most one non-empty level), check_each_level = True: normal return => every controller converged on the returned state *)
Theorem C13_all_converged_on_return_partial : forall St run max_iter cod (ls : list (list (ctrl St))) s netc rc s' t,
  G13 ls = true -> Forall (Forall (pure St)) ls ->
  levels_loop St run max_iter cod true ls s netc rc = (Ok, s', t) ->
  Forall (conv_at St s') (List.concat ls).
Proof. exact single_level_all_converged. Qed.
Print Assumptions C13_all_converged_on_return_partial.

(* any schedule, any check_each_level: the controllers of the last level converged on the returned state *)
Theorem C13_last_level_converged : forall St run max_iter cod cel (ls : list (list (ctrl St))) l s netc rc s' t,
  Forall (pure St) l ->
  levels_loop St run max_iter cod cel (ls ++ [l]) s netc rc = (Ok, s', t) ->
  Forall (conv_at St s') l.
Proof. exact last_level_converged. Qed.
Print Assumptions C13_last_level_converged.

(* the full statement is false of the faithful model: two levels, every is_converged pure, normal return, and an in-service
   controller of the lower level reports not converged on the returned state (the reproduced run of the real code) *)
Theorem C13_all_converged_on_return_refuted :
  exists (cs : list entry) (s s' : cst) t,
    run_net 30 false true cs s = Some (Ok, s', t) /\
    (forall e, In e cs -> forall x, snd (c_conv (to_ctrl e) x) = x) /\
    exists e, In e cs /\ e_ins e = true /\ fst (c_conv (to_ctrl e) s') = false.
Proof. exact multilevel_refuted. Qed.
Print Assumptions C13_all_converged_on_return_refuted.

Theorem C13_check_each_level_off_refuted :
  exists (cs : list entry) (s s' : cst) t,
    run_net 0 false false cs s = Some (Ok, s', t) /\
    exists e, In e cs /\ e_ins e = true /\ fst (c_conv (to_ctrl e) s') = false.
Proof. exact check_each_level_off_refuted. Qed.
Print Assumptions C13_check_each_level_off_refuted.

(* every modelled controller kind (discrete / continuous tap, const, characteristic) has an is_converged that leaves the
   state alone, so C13_level_exit_converged (results fresh on exit) applies to all of them *)
Theorem C13_is_converged_pure : forall c k s, snd (c_conv (mk_ctrl c k) s) = s.
Proof. exact mk_ctrl_pure. Qed.
Print Assumptions C13_is_converged_pure.

(* before "fix: CharacteristicControl writes its set values in control_step, not in is_converged" freshness failed: single
   level, normal return, the value in the element table differed from the one the last calculation saw (regression witness) *)
Theorem C13_fresh_results_old_refuted :
  exists (cs : list entry) (s s' : cst) t,
    G13 (match ctrl_variables _ cs with Some (co, _) => co | None => [] end) = true /\
    run_net_old 30 false true cs s = Some (Ok, s', t) /\
    exists v, last_run_vars t = Some v /\ feq_opt (get 7 v) (get 7 (vars s')) = false.
Proof. exact fresh_results_refuted. Qed.
Print Assumptions C13_fresh_results_old_refuted.

(* invariants: a predicate kept by every controller method and by the calculation holds for every state of the call trace
   and for the returned state (used for the tap bounds over whole runs) *)
Theorem C13_invariant_over_runs : forall St run (P : St -> Prop),
  (forall s, P s -> P (fst (run s))) ->
  forall max_iter cod cel ir (ls : list (list (ctrl St))) s o s' t,
  Forall (Forall (keeps St P)) ls -> P s ->
  run_control St run max_iter cod cel ir ls s = (o, s', t) -> trace_ok St P t /\ P s'.
Proof. exact run_control_keeps. Qed.
Print Assumptions C13_invariant_over_runs.

(* "tap controllers never move a tap outside [tap_min, tap_max]" over whole runs: for every controller table whose kinds are
   well-formed (continuous controllers check the bounds with tap_min <= tap_max; the controllers of one transformer read the
   same limits; characteristic controllers do not write a controlled tap_pos), every power-flow oracle, levels, orders,
   max_iter and flags: taps that start inside their bounds are inside them in every state of the call trace and on return
   (also when an error is raised) *)
Theorem C13_taps_in_bounds_over_runs : forall max_iter cod cel (cs : list entry) s o s' t,
  WF (map (fun e => snd (e_obj e)) cs) ->
  Pinv (map (fun e => snd (e_obj e)) cs) s ->
  run_net max_iter cod cel cs s = Some (o, s', t) ->
  trace_ok cst (Pinv (map (fun e => snd (e_obj e)) cs)) t /\ Pinv (map (fun e => snd (e_obj e)) cs) s'.
Proof. exact taps_in_bounds_over_runs. Qed.
Print Assumptions C13_taps_in_bounds_over_runs.

(* ---- tap controllers *)
Theorem C13_discrete_converged_iff : forall t lo up s,
  disc_conv t lo up s = true <->
  t_ntd t = true \/ disc_ok t lo up (get (t_bus t) (res s)) (get (t_trafo t) (vars s)).
Proof. exact disc_converged_iff. Qed.
Print Assumptions C13_discrete_converged_iff.

Theorem C13_continuous_converged_iff : forall t k s,
  cont_conv t k s = true <->
  t_ntd t = true \/ cont_ok t k (get (t_bus t) (res s)) (get (t_trafo t) (vars s)).
Proof. exact cont_converged_iff. Qed.
Print Assumptions C13_continuous_converged_iff.

(* a discrete step from ANY position inside the bounds stays inside [tap_min, tap_max] *)
Theorem C13_discrete_tap_in_bounds : forall t lo up vm x,
  t_min t <= x <= t_max t -> t_min t <= disc_new_tap t lo up vm x <= t_max t.
Proof. exact disc_new_tap_in_bounds. Qed.
Print Assumptions C13_discrete_tap_in_bounds.

(* and from an integral position it is the plain +-1 step *)
Theorem C13_discrete_step_is_unit_step : forall t lo up vm x,
  integral x -> integral (t_min t) -> integral (t_max t) -> t_min t <= x <= t_max t ->
  disc_new_tap t lo up vm x == x + disc_incr t lo up vm (Some x).
Proof. exact disc_new_tap_integral. Qed.
Print Assumptions C13_discrete_step_is_unit_step.

(* the rule before "fix: DiscreteTapControl does not step past tap_min / tap_max from a fractional tap position"
   (tap_pos += increment) kept the bounds only for integral tap data; regression witness at 3/2 with tap_max 2 *)
Theorem C13_discrete_tap_in_bounds_old_partial : forall t lo up vm x,
  integral x -> integral (t_min t) -> integral (t_max t) ->
  t_min t <= x <= t_max t ->
  t_min t <= x + disc_incr t lo up vm (Some x) <= t_max t /\ integral (x + disc_incr t lo up vm (Some x)).
Proof. exact disc_incr_in_bounds. Qed.
Print Assumptions C13_discrete_tap_in_bounds_old_partial.

Theorem C13_discrete_tap_in_bounds_old_refuted :
  exists t lo up vm x, t_min t <= x <= t_max t /\ ~ (x + disc_incr t lo up vm (Some x) <= t_max t).
Proof. exact disc_fractional_refuted. Qed.
Print Assumptions C13_discrete_tap_in_bounds_old_refuted.

Theorem C13_continuous_tap_in_bounds_partial : forall t k vm tap,
  k_check k = true -> t_min t <= t_max t ->
  t_min t <= cont_new_tap t k vm tap <= t_max t.
Proof. exact cont_new_tap_in_bounds. Qed.
Print Assumptions C13_continuous_tap_in_bounds_partial.

Theorem C13_continuous_tap_in_bounds_refuted :
  exists t k vm tap, k_check k = false /\ t_min t <= tap <= t_max t /\ ~ (cont_new_tap t k vm tap <= t_max t).
Proof. exact cont_unchecked_refuted. Qed.
Print Assumptions C13_continuous_tap_in_bounds_refuted.

(* a discrete controller that is not converged moves one step in the needed direction (voltage not exactly on a band edge) *)
Theorem C13_discrete_progress : forall t lo up s v x,
  t_ntd t = false ->
  get (t_bus t) (res s) = Some v -> get (t_trafo t) (vars s) = Some x ->
  t_min t <= x <= t_max t -> ~ v == lo -> ~ v == up -> lo <= up ->
  disc_conv t lo up s = false ->
  (v < lo /\ disc_incr t lo up (Some v) (Some x) == (if needs_lower_tap t true then -(1) else 1)) \/
  (up < v /\ disc_incr t lo up (Some v) (Some x) == (if needs_lower_tap t false then -(1) else 1)).
Proof. exact disc_not_converged_moves. Qed.
Print Assumptions C13_discrete_progress.

(* ---- ascending (level, order) *)
Theorem C13_levels_ascending : forall A (cs : list (centry A)) ll co,
  controller_order A cs = Some (ll, co) ->
  StronglySorted Qlt ll /\ co = map (level_members A cs) ll /\
  (forall lv, In lv (List.concat (map (fun c : centry A => match e_levels c with Some l => l | None => [] end) cs)) ->
              exists lv', In lv' ll /\ lv' == lv).
Proof. exact controller_order_spec. Qed.
Print Assumptions C13_levels_ascending.

Theorem C13_order_within_level : forall A (cs : list (centry A)) lv,
  StronglySorted (ord_le A) (level_members A cs lv) /\
  Permutation (level_members A cs lv) (filter (in_level A lv) cs).
Proof. exact level_members_spec. Qed.
Print Assumptions C13_order_within_level.

(* non-vacuity of the whole-run invariant: the reproduced two-level run satisfies WF and starts inside the bounds *)
Example C13_invariant_nonvacuous :
  WF (map (fun e : entry => snd (e_obj e)) w_cs) /\ Pinv (map (fun e : entry => snd (e_obj e)) w_cs) w_state.
Proof.
  split.
  - split; [|split].
    + intros t p [H|[H|[]]]; discriminate.
    + intros k1 k2 t1 t2 [<-|[<-|[]]] [<-|[<-|[]]] E1 E2 E; inversion E1; inversion E2; subst; try discriminate;
        split; reflexivity.
    + intros k t in_res inp out pts tol _ _ [H|[H|[]]]; discriminate.
  - intros k t [<-|[<-|[]]] E; inversion E; subst; cbn; split; discriminate.
Qed.

(* non-vacuity: the hypotheses of the partial theorems are satisfiable by the reproduced single-level run *)
Example C13_nonvacuous :
  exists s' t, run_net 30 false true [e0] w_state = Some (Ok, s', t) /\ (List.length t > 3)%nat.
Proof. vm_compute. eexists. eexists. split; [reflexivity|]. repeat constructor. Qed.
