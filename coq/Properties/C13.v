(* C13 — property theorems (statements only; proofs are in C13/Proofs.v and C13/Taps.v) *)
From Coq Require Import ZArith QArith Qabs List Bool Sorted Permutation.
From PPV Require Import Base.QN C13.Model C13.Proofs C13.Taps C13.Invariant C13.Vector C13.Simulation C13.Hunting.
Import ListNotations.
Open Scope Q_scope.

(* ---- the loop, for every state type, every calculation oracle [run] and every controller set *)

(* one level: the loop is left normally only on a state on which every controller of the level reported convergence, and
   that state is fresh: nothing ran in the level at all, or the last event before the final round of is_converged calls is a
   calculation whose output is the returned state (no control_step after the last calculation) *)
Theorem C13_level_exit_converged : forall St run max_iter cod (l : list (ctrl St)) s netc s' netc' rc' t,
  Forall (pure St) l ->
  run_level St run max_iter cod l s netc = (LDone true s' netc' rc', t) ->
  Forall (conv_at St s') l /\ fresh_exit St l (apply_all St c_reset l s) s' t.
Proof. exact level_exit_converged. Qed.
Print Assumptions C13_level_exit_converged.

(* after a level, check_final_convergence passes iff the level's loop ended with ctrl_converged and a converged calculation;
   a loop that ran out of iterations raises ControllerNotConverged; a calculation that was not converged on entry never passes *)
Theorem C13_exit_or_raise : forall St run max_iter cod (l : list (ctrl St)) s netc cc s' netc' rc' t,
  run_level St run max_iter cod l s netc = (LDone cc s' netc' rc', t) ->
  (check_final rc' max_iter netc' = Ok <-> cc = true /\ netc' = true) /\
  (cc = false -> netc = true -> check_final rc' max_iter netc' = ErrCtrl) /\
  (netc = false -> check_final rc' max_iter netc' <> Ok).
Proof. exact exit_or_raise. Qed.
Print Assumptions C13_exit_or_raise.

(* at most max_iter + 1 calculations per level *)
Theorem C13_run_count_bound : forall St run fuel cod (l : list (ctrl St)) s netc rc cc s' netc' rc' t,
  level_loop St run fuel cod l s netc rc = (LDone cc s' netc' rc', t) -> (rc' <= rc + fuel)%nat.
Proof. exact level_loop_count. Qed.
Print Assumptions C13_run_count_bound.

(* G13 (at most one non-empty level), check_each_level = True: normal return => every controller converged on the returned state *)
Theorem C13_all_converged_on_return_partial : forall St run max_iter cod (ls : list (list (ctrl St))) s netc rc s' t,
  G13 ls = true -> Forall (Forall (pure St)) ls ->
  levels_loop St run max_iter cod true ls s netc rc = (Ok, s', t) ->
  Forall (conv_at St s') (List.concat ls).
Proof. exact single_level_all_converged. Qed.
Print Assumptions C13_all_converged_on_return_partial.

(* any schedule, any check_each_level: the controllers of the last level converged on the returned state *)
Theorem C13_last_level_converged : forall St run max_iter cod cel (ls : list (list (ctrl St))) l s netc rc s' t,
  Forall (pure St) l ->
  levels_loop St run max_iter cod cel (ls ++ [l]) s netc rc = (Ok, s', t) ->
  Forall (conv_at St s') l.
Proof. exact last_level_converged. Qed.
Print Assumptions C13_last_level_converged.

(* the full statement is false of the faithful model: two levels, every is_converged pure, normal return, and an in-service
   controller of the lower level reports not converged on the returned state (the reproduced run of the real code) *)
Theorem C13_all_converged_on_return_refuted :
  exists (cs : list entry) (s s' : cst) t,
    run_net 30 false true cs s = Some (Ok, s', t) /\
    (forall e, In e cs -> forall x, snd (c_conv (to_ctrl e) x) = x) /\
    exists e, In e cs /\ e_ins e = true /\ fst (c_conv (to_ctrl e) s') = false.
Proof. exact multilevel_refuted. Qed.
Print Assumptions C13_all_converged_on_return_refuted.

Theorem C13_check_each_level_off_refuted :
  exists (cs : list entry) (s s' : cst) t,
    run_net 0 false false cs s = Some (Ok, s', t) /\
    exists e, In e cs /\ e_ins e = true /\ fst (c_conv (to_ctrl e) s') = false.
Proof. exact check_each_level_off_refuted. Qed.
Print Assumptions C13_check_each_level_off_refuted.

(* every modelled controller kind (discrete / continuous tap, const, characteristic) has an is_converged that leaves the
   state alone, so C13_level_exit_converged (results fresh on exit) applies to all of them *)
Theorem C13_is_converged_pure : forall c k s, snd (c_conv (mk_ctrl c k) s) = s.
Proof. exact mk_ctrl_pure. Qed.
Print Assumptions C13_is_converged_pure.

(* before "fix: CharacteristicControl writes its set values in control_step, not in is_converged" freshness failed: single
   level, normal return, the value in the element table differed from the one the last calculation saw (regression witness) *)
Theorem C13_fresh_results_old_refuted :
  exists (cs : list entry) (s s' : cst) t,
    G13 (match ctrl_variables _ cs with Some (co, _) => co | None => [] end) = true /\
    run_net_old 30 false true cs s = Some (Ok, s', t) /\
    exists v, last_run_vars t = Some v /\ feq_opt (get 7 v) (get 7 (vars s')) = false.
Proof. exact fresh_results_refuted. Qed.
Print Assumptions C13_fresh_results_old_refuted.

(* invariants: a predicate kept by every controller method and by the calculation holds for every state of the call trace
   and for the returned state (used for the tap bounds over whole runs) *)
Theorem C13_invariant_over_runs : forall St run (P : St -> Prop),
  (forall s, P s -> P (fst (run s))) ->
  forall max_iter cod cel ir (ls : list (list (ctrl St))) s o s' t,
  Forall (Forall (keeps St P)) ls -> P s ->
  run_control St run max_iter cod cel ir ls s = (o, s', t) -> trace_ok St P t /\ P s'.
Proof. exact run_control_keeps. Qed.
Print Assumptions C13_invariant_over_runs.

(* "tap controllers never move a tap outside [tap_min, tap_max]" over whole runs, ELEMENT-WISE for controllers over index
   arrays (Pinv / WF range over every element of every scalar or vector tap controller, hunting_limit and
   TapDependentImpedance restore included): for every controller table whose kinds are
   well-formed (continuous controllers check the bounds with tap_min <= tap_max; the controllers of one transformer read the
   same limits; characteristic controllers do not write a controlled tap_pos), every power-flow oracle, levels, orders,
   max_iter and flags: taps that start inside their bounds are inside them in every state of the call trace and on return
   (also when an error is raised) *)
Theorem C13_taps_in_bounds_over_runs : forall max_iter cod cel (cs : list entry) s o s' t,
  WF (map (fun e => snd (e_obj e)) cs) ->
  Pinv (map (fun e => snd (e_obj e)) cs) s ->
  run_net max_iter cod cel cs s = Some (o, s', t) ->
  trace_ok cst (Pinv (map (fun e => snd (e_obj e)) cs)) t /\ Pinv (map (fun e => snd (e_obj e)) cs) s'.
Proof. exact taps_in_bounds_over_runs. Qed.
Print Assumptions C13_taps_in_bounds_over_runs.

(* ---- tap controllers *)
Theorem C13_discrete_converged_iff : forall t lo up s,
  disc_conv t lo up s = true <->
  t_ntd t = true \/ disc_ok t lo up (get (t_bus t) (res s)) (get (t_trafo t) (vars s)).
Proof. exact disc_converged_iff. Qed.
Print Assumptions C13_discrete_converged_iff.

Theorem C13_continuous_converged_iff : forall t k s,
  cont_conv t k s = true <->
  t_ntd t = true \/ cont_ok t k (get (t_bus t) (res s)) (get (t_trafo t) (vars s)).
Proof. exact cont_converged_iff. Qed.
Print Assumptions C13_continuous_converged_iff.

(* a discrete step from ANY position inside the bounds stays inside [tap_min, tap_max] *)
Theorem C13_discrete_tap_in_bounds : forall t lo up vm x,
  t_min t <= x <= t_max t -> t_min t <= disc_new_tap t lo up vm x <= t_max t.
Proof. exact disc_new_tap_in_bounds. Qed.
Print Assumptions C13_discrete_tap_in_bounds.

(* and from an integral position it is the plain +-1 step *)
Theorem C13_discrete_step_is_unit_step : forall t lo up vm x,
  integral x -> integral (t_min t) -> integral (t_max t) -> t_min t <= x <= t_max t ->
  disc_new_tap t lo up vm x == x + disc_incr t lo up vm (Some x).
Proof. exact disc_new_tap_integral. Qed.
Print Assumptions C13_discrete_step_is_unit_step.

(* the rule before "fix: DiscreteTapControl does not step past tap_min / tap_max from a fractional tap position"
   (tap_pos += increment) kept the bounds only for integral tap data; regression witness at 3/2 with tap_max 2 *)
Theorem C13_discrete_tap_in_bounds_old_partial : forall t lo up vm x,
  integral x -> integral (t_min t) -> integral (t_max t) ->
  t_min t <= x <= t_max t ->
  t_min t <= x + disc_incr t lo up vm (Some x) <= t_max t /\ integral (x + disc_incr t lo up vm (Some x)).
Proof. exact disc_incr_in_bounds. Qed.
Print Assumptions C13_discrete_tap_in_bounds_old_partial.

Theorem C13_discrete_tap_in_bounds_old_refuted :
  exists t lo up vm x, t_min t <= x <= t_max t /\ ~ (x + disc_incr t lo up vm (Some x) <= t_max t).
Proof. exact disc_fractional_refuted. Qed.
Print Assumptions C13_discrete_tap_in_bounds_old_refuted.

Theorem C13_continuous_tap_in_bounds_partial : forall t k vm tap,
  k_check k = true -> t_min t <= t_max t ->
  t_min t <= cont_new_tap t k vm tap <= t_max t.
Proof. exact cont_new_tap_in_bounds. Qed.
Print Assumptions C13_continuous_tap_in_bounds_partial.

Theorem C13_continuous_tap_in_bounds_refuted :
  exists t k vm tap, k_check k = false /\ t_min t <= tap <= t_max t /\ ~ (cont_new_tap t k vm tap <= t_max t).
Proof. exact cont_unchecked_refuted. Qed.
Print Assumptions C13_continuous_tap_in_bounds_refuted.

(* a discrete controller that is not converged moves one step in the needed direction (voltage not exactly on a band edge) *)
Theorem C13_discrete_progress : forall t lo up s v x,
  t_ntd t = false ->
  get (t_bus t) (res s) = Some v -> get (t_trafo t) (vars s) = Some x ->
  t_min t <= x <= t_max t -> ~ v == lo -> ~ v == up -> lo <= up ->
  disc_conv t lo up s = false ->
  (v < lo /\ disc_incr t lo up (Some v) (Some x) == (if needs_lower_tap t true then -(1) else 1)) \/
  (up < v /\ disc_incr t lo up (Some v) (Some x) == (if needs_lower_tap t false then -(1) else 1)).
Proof. exact disc_not_converged_moves. Qed.
Print Assumptions C13_discrete_progress.

(* ---- ascending (level, order) *)
Theorem C13_levels_ascending : forall A (cs : list (centry A)) ll co,
  controller_order A cs = Some (ll, co) ->
  StronglySorted Qlt ll /\ co = map (level_members A cs) ll /\
  (forall lv, In lv (List.concat (map (fun c : centry A => match e_levels c with Some l => l | None => [] end) cs)) ->
              exists lv', In lv' ll /\ lv' == lv).
Proof. exact controller_order_spec. Qed.
Print Assumptions C13_levels_ascending.

Theorem C13_order_within_level : forall A (cs : list (centry A)) lv,
  StronglySorted (ord_le A) (level_members A cs lv) /\
  Permutation (level_members A cs lv) (filter (in_level A lv) cs).
Proof. exact level_members_spec. Qed.
Print Assumptions C13_order_within_level.

(* non-vacuity of the whole-run invariant: the reproduced two-level run satisfies WF and starts inside the bounds *)
Example C13_invariant_nonvacuous :
  WF (map (fun e : entry => snd (e_obj e)) w_cs) /\ Pinv (map (fun e : entry => snd (e_obj e)) w_cs) w_state.
Proof.
  split.
  - split; [|split].
    + intros k t p [<-|[<-|[]]] [].
    + intros k1 k2 t1 t2 [<-|[<-|[]]] [<-|[<-|[]]] [<-|[]] [<-|[]] E; try discriminate; split; reflexivity.
    + intros k t k' out _ _ [<-|[<-|[]]] [].
  - intros k t [<-|[<-|[]]] [<-|[]]; cbn; split; discriminate.
Qed.

(* non-vacuity: the hypotheses of the partial theorems are satisfiable by the reproduced single-level run *)
Example C13_nonvacuous :
  exists s' t, run_net 30 false true [e0] w_state = Some (Ok, s', t) /\ (List.length t > 3)%nat.
Proof. vm_compute. eexists. eexists. split; [reflexivity|]. repeat constructor. Qed.

(* ---- controllers over index arrays (one DiscreteTapControl / ContinuousTapControl / CharacteristicControl over several
   elements): is_converged is np.all over the elements *)

(* converged iff nothing_to_do or EVERY element is in its band / at the limit in the needed direction / without voltage *)
Theorem C13_discrete_vector_converged_iff : forall ts ntd lo up s,
  discv_conv ts ntd lo up s = true <->
  ntd = true \/ Forall (fun t => disc_ok t lo up (get (t_bus t) (res s)) (get (t_trafo t) (vars s))) ts.
Proof. exact discv_converged_iff. Qed.
Print Assumptions C13_discrete_vector_converged_iff.

Theorem C13_continuous_vector_converged_iff : forall tks ntd s,
  contv_conv tks ntd s = true <->
  ntd = true \/ Forall (fun tk => cont_ok (fst tk) (snd tk) (get (t_bus (fst tk)) (res s)) (get (t_trafo (fst tk)) (vars s))) tks.
Proof. exact contv_converged_iff. Qed.
Print Assumptions C13_continuous_vector_converged_iff.

(* characteristic controller over several elements (TapDependentImpedance included): converged iff applied and EVERY output
   is within tol of the characteristic of its input *)
Theorem C13_characteristic_vector_converged_iff : forall c in_res ios pts tol s,
  fst (charv_conv c in_res ios pts tol s) = true <->
  getb c (applied s) = true /\ Forall (charv_elem_ok in_res pts tol s) ios.
Proof. exact charv_converged_iff. Qed.
Print Assumptions C13_characteristic_vector_converged_iff.

(* the vector step is the scalar rule applied element-wise to the state before the step (distinct transformers), it
   leaves every other slot alone, and each written value is inside the bounds of its own element *)
Theorem C13_discrete_vector_step_elementwise : forall c ts lo up hl s t,
  NoDup (map t_trafo ts) -> In t ts ->
  get (t_trafo t) (vars (discv_step c ts false lo up hl s)) = disc_new_F lo up s t.
Proof. exact discv_step_elementwise. Qed.
Print Assumptions C13_discrete_vector_step_elementwise.

Theorem C13_discrete_vector_step_frame : forall c ts ntd lo up hl s k,
  ~ In k (map t_trafo ts) -> get k (vars (discv_step c ts ntd lo up hl s)) = get k (vars s).
Proof. exact discv_step_frame. Qed.
Print Assumptions C13_discrete_vector_step_frame.

Theorem C13_discrete_vector_tap_in_bounds : forall lo up s t,
  in_bounds t (get (t_trafo t) (vars s)) -> in_bounds t (disc_new_F lo up s t).
Proof. exact discv_new_in_bounds. Qed.
Print Assumptions C13_discrete_vector_tap_in_bounds.

Theorem C13_continuous_vector_tap_in_bounds_partial : forall s t p,
  k_check p = true -> t_min t <= t_max t -> in_bounds t (cont_new_F s (t, p)).
Proof. exact contv_new_in_bounds. Qed.
Print Assumptions C13_continuous_vector_tap_in_bounds_partial.

(* progress: a vector controller that is not converged has a non-converged element, and the step moves that element one tap
   in the needed direction (voltage not exactly on a band edge, tap inside its bounds) *)
Theorem C13_discrete_vector_progress : forall ts lo up s,
  lo <= up -> discv_conv ts false lo up s = false ->
  exists t, In t ts /\ disc_conv (elem t) lo up s = false /\
    forall v x, get (t_bus t) (res s) = Some v -> get (t_trafo t) (vars s) = Some x ->
      t_min t <= x <= t_max t -> ~ v == lo -> ~ v == up ->
      (v < lo /\ disc_incr t lo up (Some v) (Some x) == (if needs_lower_tap t true then -(1) else 1)) \/
      (up < v /\ disc_incr t lo up (Some v) (Some x) == (if needs_lower_tap t false then -(1) else 1)).
Proof. exact discv_not_converged_moves. Qed.
Print Assumptions C13_discrete_vector_progress.

(* ---- hunting_limit (DiscreteTapControl.control_step :118-120) *)
(* the window _hunting_taps after a step: a suffix of (old rows ++ [written taps]) with at most one row dropped, its last
   row is the written tap vector, and it never grows beyond max(hunting_limit, 1) rows *)
Theorem C13_hunting_window : forall hl rows row,
  (exists dropped, dropped ++ hunt_push hl rows row = rows ++ [row] /\ (List.length dropped <= 1)%nat) /\
  (rows <> [] -> last (hunt_push hl rows row) [] = row) /\
  (forall n, hl = Some n -> (List.length rows <= Nat.max n 1)%nat -> (List.length (hunt_push hl rows row) <= Nat.max n 1)%nat).
Proof.
  intros hl rows row. split; [exact (hunt_push_suffix hl rows row)|]. split; [exact (hunt_push_last hl rows row [])|].
  intros n ->. exact (hunt_push_bounded n rows row).
Qed.
Print Assumptions C13_hunting_window.

(* the verdict and the written taps of a discrete controller do not depend on hunting_limit nor on the recorded window *)
Theorem C13_hunting_limit_inert : forall c ts ntd lo up hl hl' s a,
  fst (c_conv (mk_ctrl c (KDiscV ts ntd lo up hl)) (with_attrs s a)) = fst (c_conv (mk_ctrl c (KDiscV ts ntd lo up hl')) s) /\
  vars (c_step (mk_ctrl c (KDiscV ts ntd lo up hl)) (with_attrs s a)) = vars (c_step (mk_ctrl c (KDiscV ts ntd lo up hl')) s).
Proof. intros. split; [apply hunting_inert_conv | apply hunting_inert_step]. Qed.
Print Assumptions C13_hunting_limit_inert.

(* hunting_limit can turn a non-converged controller into a converged one only at a reversal count >= the limit; of the
   code as it is this holds because it NEVER does: a reported convergence always means that every element satisfies the
   band / limit criterion (second conjunct), for every hunting_limit, window and reversal count *)
Theorem C13_hunting_limit_only_at_limit : forall c ts lo up n s col,
  fst (c_conv (mk_ctrl c (KDiscV ts false lo up (Some n))) s) = true ->
  (~ discv_ok ts lo up s -> (n <= reversals (deltas col))%nat) /\ discv_ok ts lo up s.
Proof.
  intros c ts lo up n s col H. split; [exact (hunting_changes_verdict_only_at_limit c ts lo up n s col H)|].
  exact (hunting_never_forces_convergence c ts lo up (Some n) s H).
Qed.
Print Assumptions C13_hunting_limit_only_at_limit.

(* and it does not stop hunting either: limit 2, four reversals recorded, the controller is still not converged and steps again *)
Theorem C13_hunting_not_stopped :
  let k := KDiscV [th] false (99#100) (101#100) (Some 2%nat) in
  let s := hunt_state (985#1000) 0 in
  fst (c_conv (mk_ctrl 0 k) s) = false /\
  get 3 (vars (c_step (mk_ctrl 0 k) s)) = Some (-(1)) /\
  (reversals (deltas osc_col) >= 2)%nat.
Proof. exact hunting_not_stopped. Qed.
Print Assumptions C13_hunting_not_stopped.

(* ---- whole runs with vector controllers *)
(* G13r (no TapDependentImpedance with restore): the state returned by run_control is the state the levels loop ended with *)
Theorem C13_return_state_is_loop_state_partial : forall max_iter cod cel (cs : list entry) s s' t,
  G13r cs = true -> run_net max_iter cod cel cs s = Some (Ok, s', t) ->
  exists co ir s0 netc t0 t1,
    ctrl_variables _ cs = Some (co, ir) /\
    levels_loop cst run_stream max_iter cod cel (map (map to_ctrl) co) s0 netc 0 = (Ok, s', t1) /\ t = t0 ++ t1.
Proof. exact return_state_is_loop_state. Qed.
Print Assumptions C13_return_state_is_loop_state_partial.

(* with a restoring TapDependentImpedance the returned element table differs from what the last calculation has seen *)
Theorem C13_return_state_is_loop_state_refuted :
  exists (cs : list entry) (s s' : cst) t,
    G13 (match ctrl_variables _ cs with Some (co, _) => co | None => [] end) = true /\
    run_net 30 false true cs s = Some (Ok, s', t) /\
    exists v, last_run_vars t = Some v /\ feq_opt (get 3001 v) (get 3001 (vars s')) = false.
Proof. exact tdi_restore_refuted. Qed.
Print Assumptions C13_return_state_is_loop_state_refuted.

(* G13 (one non-empty level), G13r, check_each_level: on a normal return EVERY element of every scheduled vector controller
   satisfies its criterion on the returned state - whatever hunting_limit is *)
Theorem C13_vector_elements_ok_on_return_partial : forall max_iter cod (cs : list entry) s s' t co ir,
  G13r cs = true -> ctrl_variables _ cs = Some (co, ir) -> G13 co = true ->
  run_net max_iter cod true cs s = Some (Ok, s', t) ->
  forall e c, In e (List.concat co) ->
    (forall ts lo up hl, e_obj e = (c, KDiscV ts false lo up hl) -> discv_ok ts lo up s') /\
    (forall tks, e_obj e = (c, KContV tks false) -> contv_ok tks s') /\
    (forall in_res ios pts tol tdi, e_obj e = (c, KCharV in_res ios pts tol tdi) -> Forall (charv_elem_ok in_res pts tol s') ios).
Proof. exact vector_elements_ok_on_return. Qed.
Print Assumptions C13_vector_elements_ok_on_return_partial.

(* non-vacuity: a two-element discrete controller with hunting_limit 2 steps one element and returns normally *)
Example C13_vector_nonvacuous :
  exists co ir s' t,
    G13r w5_cs = true /\ ctrl_variables _ w5_cs = Some (co, ir) /\ G13 co = true /\
    run_net 30 false true w5_cs w5_state = Some (Ok, s', t) /\ In (mk 0 (KDiscV [tv1; tv2] false (99#100) (101#100) (Some 2%nat)) 0) (List.concat co) /\
    (List.length t > 3)%nat.
Proof.
  vm_compute. do 4 eexists. split; [reflexivity|]. split; [reflexivity|]. split; [reflexivity|]. split; [reflexivity|].
  split; [left; reflexivity|]. repeat constructor.
Qed.

(* ---- simulation: two controller sets whose methods respect a relation R on states and give equal verdicts on related
   states (and a calculation that respects R) run through the same loop: same outcome, related returned states, call
   traces related event by event *)
Theorem C13_loop_simulation : forall St run (R : St -> St -> Prop),
  (forall s1 s2, R s1 s2 -> R (fst (run s1)) (fst (run s2)) /\ snd (run s1) = snd (run s2)) ->
  forall max_iter cod cel ir ls1 ls2 s1 s2,
  Forall2 (Forall2 (sim_ctrl St R)) ls1 ls2 -> R s1 s2 ->
  fst (fst (run_control St run max_iter cod cel ir ls1 s1)) = fst (fst (run_control St run max_iter cod cel ir ls2 s2)) /\
  R (snd (fst (run_control St run max_iter cod cel ir ls1 s1))) (snd (fst (run_control St run max_iter cod cel ir ls2 s2))) /\
  Forall2 (ev_rel St R) (snd (run_control St run max_iter cod cel ir ls1 s1)) (snd (run_control St run max_iter cod cel ir ls2 s2)).
Proof. exact run_control_sim. Qed.
Print Assumptions C13_loop_simulation.

(* hunting_limit over whole runs: replace the hunting_limit of every DiscreteTapControl by an arbitrary per-controller value
   f: for every controller table (controller ids of discrete controllers and restoring TapDependentImpedance controllers
   distinct), every oracle, levels, orders, flags and max_iter the outcome is the same, the returned states agree on all
   element values, results and flags (they differ at most in the _hunting_taps matrices), and the call traces agree event by
   event (same controller, same verdict, same element values) *)
Theorem C13_hunting_limit_irrelevant_over_runs : forall (f : nat -> option nat) max_iter cod cel (cs : list entry) s,
  roles_ok cs ->
  match run_net max_iter cod cel cs s, run_net max_iter cod cel (map (set_hl f) cs) s with
  | Some (o1, s1, t1), Some (o2, s2, t2) =>
      o1 = o2 /\ same_but_attrs cs s1 s2 /\ Forall2 (ev_rel cst (Rh (hids cs))) t1 t2
  | None, None => True
  | _, _ => False
  end.
Proof. exact hunting_limit_irrelevant_over_runs. Qed.
Print Assumptions C13_hunting_limit_irrelevant_over_runs.

Example C13_hunting_irrelevant_nonvacuous :
  roles_ok w5_cs /\ map (set_hl (fun _ => None)) w5_cs <> w5_cs /\ hids w5_cs = [0%nat].
Proof.
  split; [|split; [|reflexivity]].
  - intros e [<-|[]] X. discriminate X.
  - intros X. inversion X.
Qed.
