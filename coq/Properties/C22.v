(* C22 — property theorems (statements only; proofs are in C22/Proofs.v).
   Spec: [Resolves n] = every foreign key of the relational net (element -> bus, switch -> (bus, element of its et),
   measurement -> (element, numeric side bus), cost -> element, group member, controller target, res_ index)
   names an existing primary key ([refs] lists them; [keys] are the table indices). *)
From Coq Require Import ZArith List Bool String.
From PPV Require Import C22.Model C22.Proofs C22.Proofs2.
Import ListNotations.
Open Scope Z_scope.

(* the executable invariant of the model is exactly "all foreign keys resolve" *)
Theorem C22_inv_is_spec : forall n, inv n = true <-> Resolves n.
Proof. intros n. rewrite inv_iff. apply Inv_Resolves. Qed.
Print Assumptions C22_inv_is_spec.

Theorem C22_inv_init : Resolves empty_net.
Proof. apply Inv_Resolves, inv_init. Qed.
Print Assumptions C22_inv_init.

(* element creation (bus, any element table, switch of all four kinds, measurement, index group) keeps the invariant *)
Theorem C22_inv_step_create : forall n n',
  Resolves n ->
  (forall i, create_bus n i = Ok n' -> Resolves n') /\
  (forall k i bs, create_el n k i bs = Ok n' -> Resolves n') /\
  (forall i b e x, create_switch n i b e x = Ok n' -> Resolves n') /\
  (forall g t mem, create_group n g t mem = Ok n' -> Resolves n') /\
  (forall i mt t x s, meas_ty_ok t = true -> side_ok n s = true -> create_meas n i mt t x s = Ok n' -> Resolves n').
Proof.
  intros n n' R. apply Inv_Resolves in R. split; [|split; [|split; [|split]]]; intros; apply Inv_Resolves.
  - eapply inv_step_create_bus; eauto.
  - eapply inv_step_create_el; eauto.
  - eapply inv_step_create_switch; eauto.
  - eapply inv_step_create_group; eauto.
  - eapply inv_step_create_meas; eauto. intros b Hb. subst s. apply zin_true. assumption.
Qed.
Print Assumptions C22_inv_step_create.

(* create_poly_cost / create_pwl_cost: only when the element exists (the impl does not check) *)
Theorem C22_inv_step_create_cost_partial : forall n p i k x n',
  zin x (el_ids n k) = true -> Resolves n -> create_cost n p i k x = Ok n' -> Resolves n'.
Proof. intros. apply Inv_Resolves. eapply inv_step_create_cost_partial; eauto. apply Inv_Resolves. assumption. Qed.
Print Assumptions C22_inv_step_create_cost_partial.
Theorem C22_inv_step_create_cost_refuted :
  exists n p i k x n', inv n = true /\ create_cost n p i k x = Ok n' /\ inv n' = false.
Proof. exact create_cost_refuted. Qed.
Print Assumptions C22_inv_step_create_cost_refuted.

(* drop_lines / drop_trafos (switches, measurements, group members, result rows cascade) under G22_drop:
   no cost row and no controller references the dropped branches *)
Theorem C22_inv_step_drop_lines_partial : forall n ids n',
  G22_drop n Line ids = true -> Resolves n -> drop_lines n ids = Ok n' -> Resolves n'.
Proof. intros. apply Inv_Resolves. eapply inv_step_drop_lines; eauto. apply Inv_Resolves. assumption. Qed.
Print Assumptions C22_inv_step_drop_lines_partial.
Theorem C22_inv_step_drop_trafos_partial : forall n (th : bool) ids n',
  G22_drop n (if th then Trafo3w else Trafo) ids = true -> Resolves n -> drop_trafos n th ids = Ok n' -> Resolves n'.
Proof. intros. apply Inv_Resolves. eapply inv_step_drop_trafos; eauto. apply Inv_Resolves. assumption. Qed.
Print Assumptions C22_inv_step_drop_trafos_partial.
Theorem C22_inv_step_drop_trafos_refuted :
  exists n th ids n', inv n = true /\ drop_trafos n th ids = Ok n' /\ inv n' = false.
Proof. exact drop_trafos_refuted. Qed.
Print Assumptions C22_inv_step_drop_trafos_refuted.

(* reindex_elements (any element table, any lookup, partial or total) after the repair: switches of the matching et,
   measurements, costs, group members and the result table follow the lookup; the only remaining guard is
   G22_reindex: no controller targets a re-indexed element (C22_reindex_elements_controller_refuted otherwise) *)
Theorem C22_inv_step_reindex_elements_partial : forall n k lk n',
  G22_reindex n k lk = true -> Resolves n -> reindex_elements n (TEl k) lk = Ok n' -> Resolves n'.
Proof. intros. apply Inv_Resolves. eapply inv_step_reindex_elements; eauto. apply Inv_Resolves. assumption. Qed.
Print Assumptions C22_inv_step_reindex_elements_partial.

(* drop_buses(net, buses, drop_elements=True): the whole cascade (group members, bus and res_bus rows, controllers of the
   connected elements, every element_bus_tuples() column in turn through drop_lines / drop_trafos / the generic cascade,
   switches at the buses, bus measurements) keeps the invariant under G22_drop_buses: rows have no more bus columns than
   element_bus_tuples() lists (schema), no row of an unlisted table (svc) sits at the buses, no measurement names one of the
   buses as its numeric side, and - evaluated on the state after drop_controllers_at_buses - no remaining controller targets
   an element at the buses and no cost row sits on a line/trafo at the buses *)
Theorem C22_inv_step_drop_buses_partial : forall n buses n',
  G22_drop_buses n buses = true -> Resolves n -> drop_buses n buses true = Ok n' -> Resolves n'.
Proof. exact inv_step_drop_buses. Qed.
Print Assumptions C22_inv_step_drop_buses_partial.
Theorem C22_inv_step_drop_buses_refuted :
  (exists n bs n', inv n = true /\ drop_buses n bs true = Ok n' /\ inv_el n' = false) /\
  (exists n bs n', inv n = true /\ drop_buses n bs true = Ok n' /\ inv_ctrl n' = false).
Proof. exact drop_buses_now_refuted. Qed.
Print Assumptions C22_inv_step_drop_buses_refuted.

(* drop_elements(net, element_type, index): bus -> drop_buses, line / trafo / trafo3w -> drop_lines / drop_trafos (guards as
   above), switch and measurement rows (no guard), any other element table through drop_elements_simple (group members,
   measurements, costs, result rows cascade) when no controller targets a dropped element (G22_noctrl) *)
Theorem C22_inv_step_drop_elements_partial : forall n t ids n',
  G22 n (ODropElements t ids) = true -> Resolves n -> drop_elements n t ids = Ok n' -> Resolves n'.
Proof. exact inv_step_drop_elements. Qed.
Print Assumptions C22_inv_step_drop_elements_partial.
Theorem C22_inv_step_drop_elements_switch_measurement : forall n ids n',
  Resolves n -> (drop_elements n TSwitch ids = Ok n' \/ drop_elements n TMeas ids = Ok n') -> Resolves n'.
Proof. intros n ids n' R [E|E]; [eapply inv_step_drop_switch_rows | eapply inv_step_drop_meas_rows]; eauto. Qed.
Print Assumptions C22_inv_step_drop_elements_switch_measurement.
Theorem C22_inv_step_drop_elements_refuted :
  exists n ids n', inv n = true /\ drop_elements n (TEl Load) ids = Ok n' /\ inv_ctrl n' = false.
Proof. exact drop_simple_refuted. Qed.
Print Assumptions C22_inv_step_drop_elements_refuted.

(* select_subnet (any bus selection, include_switch_buses, include_results) under G22_select: the numeric side of every
   measurement is a bus of the measured element, and keep_everything_else is off or there is nothing it would copy
   unfiltered (groups, controllers, unlisted tables) *)
Theorem C22_inv_step_select_subnet_partial : forall n bs isb ires keep n',
  G22_select n keep = true -> Resolves n -> select_subnet n bs isb ires keep = Ok n' -> Resolves n'.
Proof. intros. apply Inv_Resolves. eapply inv_step_select_subnet; eauto. apply Inv_Resolves. assumption. Qed.
Print Assumptions C22_inv_step_select_subnet_partial.
Theorem C22_select_subnet_side_refuted :
  exists n bs n', inv n = true /\ select_subnet n bs false false false = Ok n' /\ inv_meas n' = false.
Proof. exact select_subnet_side_refuted. Qed.
Print Assumptions C22_select_subnet_side_refuted.

(* reindex_buses (any lookup; buses missing in it keep their index) and create_continuous_bus_index: every bus reference of
   the listed tables, switches (bus and bus-bus element), bus measurements, numeric sides, bus groups and res_bus follow
   the lookup; guard: the rows of the unlisted tables (svc) are not moved by the completed lookup (C22_reindex_buses_refuted
   otherwise) *)
Theorem C22_inv_step_reindex_buses_partial : forall n lk n',
  G22_reindex_buses n lk = true -> Resolves n -> reindex_buses n lk = Ok n' -> Resolves n'.
Proof. intros. apply Inv_Resolves. eapply inv_step_reindex_buses; eauto. apply Inv_Resolves. assumption. Qed.
Print Assumptions C22_inv_step_reindex_buses_partial.
Theorem C22_inv_step_cont_bus_index_partial : forall n start n',
  G22_cont_bus n start = true -> Resolves n -> cont_bus_index n start = Ok n' -> Resolves n'.
Proof. intros. apply Inv_Resolves. eapply inv_step_cont_bus_index; eauto. apply Inv_Resolves. assumption. Qed.
Print Assumptions C22_inv_step_cont_bus_index_partial.
Example C22_reindex_buses_guard_nonvacuous :
  exists n lk n', G22_reindex_buses n lk = true /\ inv n = true /\ reindex_buses n lk = Ok n' /\ bus_ids n' = [5; 1] /\ el_ids n Svc = [0].
Proof. exact reindex_buses_guard_nonvacuous. Qed.
Print Assumptions C22_reindex_buses_guard_nonvacuous.

(* fuse_buses(net, b1, b2, drop, fuse_bus_measurements): rerouting of every listed bus column, switch and (with
   fuse_bus_measurements) bus measurement / numeric side, then drop_buses(b2, drop_elements=False), the inner branches
   (drop_lines, drop_elements_simple(impedance), b1-b1 switches, drop_trafos x2, drop_elements_simple(dcline)) and
   drop_duplicated_measurements.  Guard G22_fuse: b1 exists (not checked by the impl); with drop: no row of an unlisted table
   at b2, measurements are fused or none refers to b2, no controller / branch cost on a branch that becomes inner *)
Theorem C22_inv_step_fuse_buses_partial : forall n b1 b2 drop fm n',
  G22_fuse n b1 b2 drop fm = true -> Resolves n -> fuse_buses n b1 b2 drop fm = Ok n' -> Resolves n'.
Proof. exact inv_step_fuse_buses. Qed.
Print Assumptions C22_inv_step_fuse_buses_partial.
Theorem C22_inv_step_fuse_buses_refuted :
  (exists n b1 b2 n', inv n = true /\ fuse_buses n b1 b2 false true = Ok n' /\ inv_el n' = false) /\
  (exists n b1 b2 n', inv n = true /\ fuse_buses n b1 b2 true false = Ok n' /\ inv_meas n' = false).
Proof. exact fuse_buses_now_refuted. Qed.
Print Assumptions C22_inv_step_fuse_buses_refuted.
Example C22_fuse_buses_guard_nonvacuous :
  exists n n', G22_fuse n 0 [1; 2] true true = true /\ inv n = true /\ fuse_buses n 0 [1; 2] true true = Ok n' /\
               bus_ids n' = [0] /\ el_ids n Line = [0; 1] /\ el_ids n' Line = [] /\ map ebus (el n' Load) = [[0]].
Proof. exact fuse_buses_guard_nonvacuous. Qed.
Print Assumptions C22_fuse_buses_guard_nonvacuous.

(* reindex_elements on the switch, measurement, poly_cost and pwl_cost tables: no guard (switch group members follow) *)
Theorem C22_inv_step_reindex_plain_tables : forall n t lk n',
  (t = TSwitch \/ t = TMeas \/ t = TPcost \/ t = TWcost) -> Resolves n -> reindex_elements n t lk = Ok n' -> Resolves n'.
Proof. intros. apply Inv_Resolves. eapply inv_step_reindex_plain; eauto. apply Inv_Resolves. assumption. Qed.
Print Assumptions C22_inv_step_reindex_plain_tables.

(* create_continuous_elements_index: create_continuous_bus_index, then every table sorted and renumbered start.. through
   reindex_elements, its res_ table renumbered on its own by position.  The guard G22_cont_elements follows the run of the
   loop: for each element table, on the state the loop has reached, no controller targets a re-indexed element and the table
   index and the res_ index are duplicate free (then the positional res_ numbering stays inside the new table index) *)
Theorem C22_inv_step_cont_elements_index_partial : forall n start n',
  G22_cont_elements n start = true -> Resolves n -> cont_elements_index n start = Ok n' -> Resolves n'.
Proof. intros. apply Inv_Resolves. eapply inv_step_cont_elements_index; eauto. apply Inv_Resolves. assumption. Qed.
Print Assumptions C22_inv_step_cont_elements_index_partial.
Example C22_cont_elements_guard_nonvacuous :
  exists n n', G22_cont_elements n 10 = true /\ inv n = true /\ cont_elements_index n 10 = Ok n' /\
               bus_ids n' = [10; 11; 12] /\ el_ids n Line = [7; 3] /\ el_ids n' Line = [10; 11] /\ res n' Line = [10; 11] /\
               map sel (sw n') = [11] /\ map gmem (grp n') = [[11]].
Proof. exact cont_elements_guard_nonvacuous. Qed.
Print Assumptions C22_cont_elements_guard_nonvacuous.

(* reachability: every net reached from the empty net by a guarded edit list satisfies the invariant
   (induction over the list; G22 is [false] for the edits that have no inv_step theorem) *)
Theorem C22_inv_reachable : forall ops n, Resolves n -> guarded n ops = true -> Resolves (run_ops n ops).
Proof. intros. apply Inv_Resolves, inv_reachable; [apply Inv_Resolves|]; assumption. Qed.
Print Assumptions C22_inv_reachable.
Example C22_inv_reachable_nonvacuous :
  guarded empty_net ex_ops = true /\ el_ids (run_ops empty_net ex_ops) Line = [8] /\ bus_ids (run_ops empty_net ex_ops) = [3; 7] /\
  map (fun g => (gid g, gmem g)) (grp (run_ops empty_net ex_ops)) = [(2, [8]); (4, [3])] /\ ctrl (run_ops empty_net ex_ops) = [] /\
  meas (run_ops empty_net ex_ops) = [].
Proof. exact reachable_nonvacuous. Qed.
Print Assumptions C22_inv_reachable_nonvacuous.

(* witnesses: (a) defects still in /repo (recorded as known findings): reindex_elements leaves controllers, reindex_buses
   ignores tables outside element_bus_tuples, drop_trafos leaves controllers, select_subnet(keep_everything_else), create cost;
   (b) the rules before the fix: commits (functions *_old), kept so that their return is recognised *)
Theorem C22_reindex_elements_old_trafo3w_refuted :
  exists n lk n', inv n = true /\ reindex_elements_old n (TEl Trafo3w) lk = Ok n' /\ inv_sw n' = false.
Proof. exact reindex_trafo3w_refuted. Qed.
Print Assumptions C22_reindex_elements_old_trafo3w_refuted.
Theorem C22_reindex_elements_controller_refuted :
  exists n lk n', inv n = true /\ reindex_elements n (TEl Load) lk = Ok n' /\ inv_ctrl n' = false.
Proof. exact reindex_controller_refuted. Qed.
Print Assumptions C22_reindex_elements_controller_refuted.
Theorem C22_reindex_elements_old_res_refuted :
  exists n lk n', inv n = true /\ reindex_elements_old n (TEl Load) lk = Ok n' /\ inv_res n' = false.
Proof. exact reindex_res_refuted. Qed.
Print Assumptions C22_reindex_elements_old_res_refuted.
Theorem C22_reindex_elements_old_measurement_refuted :
  exists n lk n', inv n = true /\ reindex_elements_old n (TEl Load) lk = Ok n' /\ inv_meas n' = false.
Proof. exact reindex_meas_refuted. Qed.
Print Assumptions C22_reindex_elements_old_measurement_refuted.
Theorem C22_reindex_buses_refuted :
  exists n lk n', inv n = true /\ reindex_buses n lk = Ok n' /\ inv_el n' = false.
Proof. exact reindex_buses_refuted. Qed.
Print Assumptions C22_reindex_buses_refuted.
Theorem C22_drop_buses_old_refuted :
  exists n bs n', inv n = true /\ drop_buses_old n bs true = Ok n' /\ inv_ctrl n' = false.
Proof. exact drop_buses_refuted. Qed.
Print Assumptions C22_drop_buses_old_refuted.
Theorem C22_drop_elements_simple_old_refuted :
  exists n ids n', inv n = true /\ drop_simple_el_old n Gen ids = Ok n' /\ inv_cost n' = false.
Proof. exact drop_elements_refuted. Qed.
Print Assumptions C22_drop_elements_simple_old_refuted.
Theorem C22_fuse_buses_old_refuted :
  exists n b1 b2 n', inv n = true /\ fuse_buses_old n b1 b2 true true = Ok n' /\ inv_meas n' = false.
Proof. exact fuse_buses_refuted. Qed.
Print Assumptions C22_fuse_buses_old_refuted.
Theorem C22_fuse_buses_old_group_refuted :
  exists n b1 b2 n', inv n = true /\ fuse_buses_old n b1 b2 true true = Ok n' /\ inv_grp n' = false.
Proof. exact fuse_buses_group_refuted. Qed.
Print Assumptions C22_fuse_buses_old_group_refuted.
Theorem C22_select_subnet_refuted :
  exists n bs n', inv n = true /\ select_subnet n bs false false true = Ok n' /\ inv_grp n' = false.
Proof. exact select_subnet_refuted. Qed.
Print Assumptions C22_select_subnet_refuted.

(* the repaired functions keep the invariant on the inputs that refute the old rules *)
Theorem C22_repaired_on_witnesses :
  (exists n', reindex_elements w_t3 (TEl Trafo3w) [(0, 5)] = Ok n' /\ inv n' = true) /\
  (exists n', reindex_elements (set_resk w_load Load [0]) (TEl Load) [(0, 5)] = Ok n' /\ inv n' = true) /\
  (exists n', reindex_elements (set_meas w_load [{| mid := 0; mmt := 1%nat; mty := TEl Load; mel := 0; msd := SideNone |}])
                               (TEl Load) [(0, 5)] = Ok n' /\ inv n' = true) /\
  (exists n', drop_buses (set_ctrl (set_elk w_bus2 Load [{| eid := 0; ebus := [1]; eis := true |}])
                                   [{| ctid := 0; ctty := Load; ctidx := [0]; ctsingle := false |}]) [1] true = Ok n' /\ inv n' = true) /\
  (exists n', fuse_buses (set_meas (set_elk w_bus3 Line [{| eid := 0; ebus := [1; 2]; eis := true |}])
                                   [{| mid := 0; mmt := 1%nat; mty := TEl Line; mel := 0; msd := SideBus 1 |}]) 0 [1] true true = Ok n'
              /\ inv n' = true).
Proof. exact repaired_on_witnesses. Qed.
Print Assumptions C22_repaired_on_witnesses.
