(* C22 — property theorems (statements only; proofs are in C22/Proofs.v).
   Spec: [Resolves n] = every foreign key of the relational net (element -> bus, switch -> (bus, element of its et),
   measurement -> (element, numeric side bus), cost -> element, group member, controller target, res_ index)
   names an existing primary key ([refs] lists them; [keys] are the table indices). *)
From Coq Require Import ZArith List Bool String.
From PPV Require Import C22.Model C22.Proofs.
Import ListNotations.
Open Scope Z_scope.

(* the executable invariant of the model is exactly "all foreign keys resolve" *)
Theorem C22_inv_is_spec : forall n, inv n = true <-> Resolves n.
Proof. intros n. rewrite inv_iff. apply Inv_Resolves. Qed.
Print Assumptions C22_inv_is_spec.

Theorem C22_inv_init : Resolves empty_net.
Proof. apply Inv_Resolves, inv_init. Qed.
Print Assumptions C22_inv_init.

(* element creation (bus, any element table, switch of all four kinds, measurement, index group) keeps the invariant *)
Theorem C22_inv_step_create : forall n n',
  Resolves n ->
  (forall i, create_bus n i = Ok n' -> Resolves n') /\
  (forall k i bs, create_el n k i bs = Ok n' -> Resolves n') /\
  (forall i b e x, create_switch n i b e x = Ok n' -> Resolves n') /\
  (forall g t mem, create_group n g t mem = Ok n' -> Resolves n') /\
  (forall i mt t x s, meas_ty_ok t = true -> side_ok n s = true -> create_meas n i mt t x s = Ok n' -> Resolves n').
Proof.
  intros n n' R. apply Inv_Resolves in R. split; [|split; [|split; [|split]]]; intros; apply Inv_Resolves.
  - eapply inv_step_create_bus; eauto.
  - eapply inv_step_create_el; eauto.
  - eapply inv_step_create_switch; eauto.
  - eapply inv_step_create_group; eauto.
  - eapply inv_step_create_meas; eauto. intros b Hb. subst s. apply zin_true. assumption.
Qed.
Print Assumptions C22_inv_step_create.

(* create_poly_cost / create_pwl_cost: only when the element exists (the impl does not check) *)
Theorem C22_inv_step_create_cost_partial : forall n p i k x n',
  zin x (el_ids n k) = true -> Resolves n -> create_cost n p i k x = Ok n' -> Resolves n'.
Proof. intros. apply Inv_Resolves. eapply inv_step_create_cost_partial; eauto. apply Inv_Resolves. assumption. Qed.
Print Assumptions C22_inv_step_create_cost_partial.
Theorem C22_inv_step_create_cost_refuted :
  exists n p i k x n', inv n = true /\ create_cost n p i k x = Ok n' /\ inv n' = false.
Proof. exact create_cost_refuted. Qed.
Print Assumptions C22_inv_step_create_cost_refuted.

(* drop_lines / drop_trafos (switches, measurements, group members, result rows cascade) under G22_drop:
   no cost row and no controller references the dropped branches *)
Theorem C22_inv_step_drop_lines_partial : forall n ids n',
  G22_drop n Line ids = true -> Resolves n -> drop_lines n ids = Ok n' -> Resolves n'.
Proof. intros. apply Inv_Resolves. eapply inv_step_drop_lines; eauto. apply Inv_Resolves. assumption. Qed.
Print Assumptions C22_inv_step_drop_lines_partial.
Theorem C22_inv_step_drop_trafos_partial : forall n (th : bool) ids n',
  G22_drop n (if th then Trafo3w else Trafo) ids = true -> Resolves n -> drop_trafos n th ids = Ok n' -> Resolves n'.
Proof. intros. apply Inv_Resolves. eapply inv_step_drop_trafos; eauto. apply Inv_Resolves. assumption. Qed.
Print Assumptions C22_inv_step_drop_trafos_partial.
Theorem C22_inv_step_drop_trafos_refuted :
  exists n th ids n', inv n = true /\ drop_trafos n th ids = Ok n' /\ inv n' = false.
Proof. exact drop_trafos_refuted. Qed.
Print Assumptions C22_inv_step_drop_trafos_refuted.

(* reindex_elements (any element table, any lookup, partial or total) after the repair: switches of the matching et,
   measurements, costs, group members and the result table follow the lookup; the only remaining guard is
   G22_reindex: no controller targets a re-indexed element (C22_reindex_elements_controller_refuted otherwise) *)
Theorem C22_inv_step_reindex_elements_partial : forall n k lk n',
  G22_reindex n k lk = true -> Resolves n -> reindex_elements n (TEl k) lk = Ok n' -> Resolves n'.
Proof. intros. apply Inv_Resolves. eapply inv_step_reindex_elements; eauto. apply Inv_Resolves. assumption. Qed.
Print Assumptions C22_inv_step_reindex_elements_partial.

(* reachability: every net reached from the empty net by a guarded edit list satisfies the invariant
   (induction over the list; G22 is [false] for the edits that have no inv_step theorem) *)
Theorem C22_inv_reachable : forall ops n, Resolves n -> guarded n ops = true -> Resolves (run_ops n ops).
Proof. intros. apply Inv_Resolves, inv_reachable; [apply Inv_Resolves|]; assumption. Qed.
Print Assumptions C22_inv_reachable.
Example C22_inv_reachable_nonvacuous :
  guarded empty_net ex_ops = true /\ el_ids (run_ops empty_net ex_ops) Line = [2] /\ sw (run_ops empty_net ex_ops) <> [] /\
  map gid (grp (run_ops empty_net ex_ops)) = [2].
Proof. exact reachable_nonvacuous. Qed.
Print Assumptions C22_inv_reachable_nonvacuous.

(* witnesses: (a) defects still in /repo (recorded as known findings): reindex_elements leaves controllers, reindex_buses
   ignores tables outside element_bus_tuples, drop_trafos leaves controllers, select_subnet(keep_everything_else), create cost;
   (b) the rules before the fix: commits (functions *_old), kept so that their return is recognised *)
Theorem C22_reindex_elements_old_trafo3w_refuted :
  exists n lk n', inv n = true /\ reindex_elements_old n (TEl Trafo3w) lk = Ok n' /\ inv_sw n' = false.
Proof. exact reindex_trafo3w_refuted. Qed.
Print Assumptions C22_reindex_elements_old_trafo3w_refuted.
Theorem C22_reindex_elements_controller_refuted :
  exists n lk n', inv n = true /\ reindex_elements n (TEl Load) lk = Ok n' /\ inv_ctrl n' = false.
Proof. exact reindex_controller_refuted. Qed.
Print Assumptions C22_reindex_elements_controller_refuted.
Theorem C22_reindex_elements_old_res_refuted :
  exists n lk n', inv n = true /\ reindex_elements_old n (TEl Load) lk = Ok n' /\ inv_res n' = false.
Proof. exact reindex_res_refuted. Qed.
Print Assumptions C22_reindex_elements_old_res_refuted.
Theorem C22_reindex_elements_old_measurement_refuted :
  exists n lk n', inv n = true /\ reindex_elements_old n (TEl Load) lk = Ok n' /\ inv_meas n' = false.
Proof. exact reindex_meas_refuted. Qed.
Print Assumptions C22_reindex_elements_old_measurement_refuted.
Theorem C22_reindex_buses_refuted :
  exists n lk n', inv n = true /\ reindex_buses n lk = Ok n' /\ inv_el n' = false.
Proof. exact reindex_buses_refuted. Qed.
Print Assumptions C22_reindex_buses_refuted.
Theorem C22_drop_buses_old_refuted :
  exists n bs n', inv n = true /\ drop_buses_old n bs true = Ok n' /\ inv_ctrl n' = false.
Proof. exact drop_buses_refuted. Qed.
Print Assumptions C22_drop_buses_old_refuted.
Theorem C22_drop_elements_simple_old_refuted :
  exists n ids n', inv n = true /\ drop_simple_el_old n Gen ids = Ok n' /\ inv_cost n' = false.
Proof. exact drop_elements_refuted. Qed.
Print Assumptions C22_drop_elements_simple_old_refuted.
Theorem C22_fuse_buses_old_refuted :
  exists n b1 b2 n', inv n = true /\ fuse_buses_old n b1 b2 true true = Ok n' /\ inv_meas n' = false.
Proof. exact fuse_buses_refuted. Qed.
Print Assumptions C22_fuse_buses_old_refuted.
Theorem C22_fuse_buses_old_group_refuted :
  exists n b1 b2 n', inv n = true /\ fuse_buses_old n b1 b2 true true = Ok n' /\ inv_grp n' = false.
Proof. exact fuse_buses_group_refuted. Qed.
Print Assumptions C22_fuse_buses_old_group_refuted.
Theorem C22_select_subnet_refuted :
  exists n bs n', inv n = true /\ select_subnet n bs false false true = Ok n' /\ inv_grp n' = false.
Proof. exact select_subnet_refuted. Qed.
Print Assumptions C22_select_subnet_refuted.

(* the repaired functions keep the invariant on the inputs that refute the old rules *)
Theorem C22_repaired_on_witnesses :
  (exists n', reindex_elements w_t3 (TEl Trafo3w) [(0, 5)] = Ok n' /\ inv n' = true) /\
  (exists n', reindex_elements (set_resk w_load Load [0]) (TEl Load) [(0, 5)] = Ok n' /\ inv n' = true) /\
  (exists n', reindex_elements (set_meas w_load [{| mid := 0; mmt := 1%nat; mty := TEl Load; mel := 0; msd := SideNone |}])
                               (TEl Load) [(0, 5)] = Ok n' /\ inv n' = true) /\
  (exists n', drop_buses (set_ctrl (set_elk w_bus2 Load [{| eid := 0; ebus := [1]; eis := true |}])
                                   [{| ctid := 0; ctty := Load; ctidx := [0]; ctsingle := false |}]) [1] true = Ok n' /\ inv n' = true) /\
  (exists n', fuse_buses (set_meas (set_elk w_bus3 Line [{| eid := 0; ebus := [1; 2]; eis := true |}])
                                   [{| mid := 0; mmt := 1%nat; mty := TEl Line; mel := 0; msd := SideBus 1 |}]) 0 [1] true true = Ok n'
              /\ inv n' = true).
Proof. exact repaired_on_witnesses. Qed.
Print Assumptions C22_repaired_on_witnesses.
