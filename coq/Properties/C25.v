(* C25 — standard types are applied completely and consistently (statements only; proofs in C25/Proofs.v) *)
From Coq Require Import ZArith QArith List Bool String.
From PPV Require Import Base.QN C24.Model C24.Proofs C25.Model C25.Proofs C25.Proofs2.
Import ListNotations.
Open Scope string_scope.

(* the type library behaves as a finite map under every sequence of create / delete / rename / copy calls
   (raising calls included): lookups in the implementation's dict = lookups in the abstract map *)
Theorem C25_library_refines_finite_map : forall req ops l x,
  lget (run_ops req l ops) x = fold_left (spec_step req) ops (lget l) x.
Proof. exact lib_refines. Qed.
Print Assumptions C25_library_refines_finite_map.

(* created / renamed / copied types are returned unchanged by load_std_type; other names are untouched *)
Theorem C25_created_is_loaded : forall req l d n ck l',
  create_std req l d n true ck = Ok l' ->
  load_std l' n = Ok d /\ (forall m, String.eqb n m = false -> load_std l' m = load_std l m).
Proof. exact created_is_loaded. Qed.
Print Assumptions C25_created_is_loaded.
Theorem C25_renamed_is_loaded : forall l a b l', rename_std l a b = Ok l' ->
  exists d, load_std l a = Ok d /\ load_std l' b = Ok d /\ load_std l' a = Err "UserWarning" /\
            (forall m, String.eqb a m = false -> String.eqb b m = false -> load_std l' m = load_std l m).
Proof. exact renamed_is_loaded. Qed.
Print Assumptions C25_renamed_is_loaded.
Theorem C25_copied_is_loaded : forall req src dst,
  NoDup (map fst src) -> (forall n d, In (n, d) src -> forallb (has d) req = true) ->
  let dst' := fst (copy_std req dst src true) in
  snd (copy_std req dst src true) = false /\
  (forall n d, In (n, d) src -> load_std dst' n = Ok d) /\
  (forall m, ~ In m (map fst src) -> load_std dst' m = load_std dst m).
Proof. exact copied_is_loaded. Qed.
Print Assumptions C25_copied_is_loaded.
Theorem C25_deleted_is_gone : forall l n l', delete_std l n = Ok l' ->
  load_std l' n = Err "UserWarning" /\ forall m, String.eqb n m = false -> load_std l' m = load_std l m.
Proof. exact deleted_is_gone. Qed.
Print Assumptions C25_deleted_is_gone.

(* change_std_type: FULL statement "every parameter defined by the type ends up in the row" is refuted
   (a parameter without a column is skipped); partial under the guard G25_col (the column exists) *)
Theorem C25_change_sets_all_refuted : exists cols l name r r' ty p v,
  change_std cols l name r = Ok r' /\ lget l name = Some ty /\ lookup ty p = Some v /\ rowget r' p <> v.
Proof. exact change_full_refuted. Qed.
Print Assumptions C25_change_sets_all_refuted.
Theorem C25_change_sets_all_partial : forall cols l name r r' ty p v,
  change_std cols l name r = Ok r' -> lget l name = Some ty ->
  G25_col cols p = true -> String.eqb "std_type" p = false -> lookup ty p = Some v -> rowget r' p = v.
Proof. exact change_sets_partial. Qed.
Print Assumptions C25_change_sets_all_partial.
Example C25_change_partial_nonvacuous :
  change_std ["r_ohm_per_km"] [("T", [("r_ohm_per_km", q 1 8)])] "T" [("r_ohm_per_km", q 1 2)] =
  Ok [("std_type", VS "T"); ("r_ohm_per_km", q 1 8); ("r_ohm_per_km", q 1 2)].
Proof. reflexivity. Qed.

(* a changed element equals a freshly created one on the type's columns: refuted (stale parameters of the
   previous type survive); partial under G25_fresh (the new type redefines everything the row holds) *)
Theorem C25_changed_eq_fresh_refuted : exists cols l name r r' ty c,
  change_std cols l name r = Ok r' /\ lget l name = Some ty /\ G25_col cols c = true /\ rowget r' c <> valof (lookup ty c).
Proof. exact change_fresh_refuted. Qed.
Print Assumptions C25_changed_eq_fresh_refuted.
Theorem C25_changed_eq_fresh_partial : forall cols l name r r' ty stdcols,
  change_std cols l name r = Ok r' -> lget l name = Some ty -> G25_fresh stdcols ty r = true ->
  forall c, In c stdcols -> G25_col cols c = true -> String.eqb "std_type" c = false ->
  rowget r' c = valof (lookup ty c).
Proof. exact change_fresh_partial. Qed.
Print Assumptions C25_changed_eq_fresh_partial.

(* created from a type == created from explicit parameters carrying the type's values, for every column c
   that both functions handle alike (ce_ok, decided by computation) *)
Theorem C25_created_eq_explicit_partial : forall ds de c, ce_ok ds de c = true ->
  forall std a ex ex', has a c = false ->
  single_val (spec_of ds c) ex std a = single_val (spec_of de c) ex' [] (a ++ std)%list.
Proof. exact created_eq_explicit. Qed.
Print Assumptions C25_created_eq_explicit_partial.
(* ... which holds for every parameter of a transformer type, for the power-flow and zero-sequence parameters of a
   line type and for the parameters create_transformer3w copies *)
Theorem C25_created_eq_explicit_kinds :
  forallb (ce_ok d_trafo_s d_trafo_par) trafo_type_params = true /\
  forallb (ce_ok d_line_s d_line_par) (line_type_params_copied ++ ["r0_ohm_per_km"; "x0_ohm_per_km"; "c0_nf_per_km"])%list = true /\
  forallb (ce_ok d_t3_s d_t3_par) t3_type_params_copied = true.
Proof. repeat split; reflexivity. Qed.
Print Assumptions C25_created_eq_explicit_kinds.
(* ... and fails for alpha / endtemp_degree of line types and the zero-sequence data / vector group of 3W types *)
Theorem C25_created_line_refuted : exists std a c,
  has a c = false /\ single_val (spec_of d_line_s c) false std a <> single_val (spec_of d_line_par c) false [] (a ++ std)%list.
Proof. exact created_line_refuted. Qed.
Print Assumptions C25_created_line_refuted.
Theorem C25_created_trafo3w_refuted : exists std a c,
  has a c = false /\ single_val (spec_of d_t3_s c) false std a <> single_val (spec_of d_t3_par c) false [] (a ++ std)%list.
Proof. exact created_t3_refuted. Qed.
Print Assumptions C25_created_trafo3w_refuted.
Theorem C25_not_copied_params :
  filter (fun c => negb (ce_ok d_line_s d_line_par c)) line_type_params = ["alpha"; "endtemp_degree"] /\
  filter (fun c => negb (ce_ok d_t3_s d_t3_par c)) t3_type_params =
  ["vk0_hv_percent"; "vk0_mv_percent"; "vk0_lv_percent"; "vkr0_hv_percent"; "vkr0_mv_percent"; "vkr0_lv_percent"; "vector_group"].
Proof. split; reflexivity. Qed.
Print Assumptions C25_not_copied_params.

(* ====================================================================== rename_std_type incl. the element table
   rename_net l (Some t) a b = (library, table, exception) after rename_std_type on a kind with element table t;
   resolve l r = the type data the row's std_type names in library l.  load_std_type o rename: every row keeps its other
   cells, refers to the same type data as before (rows of the renamed type now carry the new name and load_std_type of
   it returns the old data unchanged), and no row names the old type any more. *)
Theorem C25_rename_follows_in_table : forall l t a b l', rename_std l a b = Ok l' ->
  exists t', rename_net l (Some t) a b = (l', Some t', None) /\ List.length t' = List.length t /\
    forall i r, nth_error t i = Some r -> exists r', nth_error t' i = Some r' /\
      (forall c, String.eqb "std_type" c = false -> rowget r' c = rowget r c) /\
      (row_type r <> VS b -> resolve l' r' = resolve l r) /\
      (row_type r = VS a -> exists d, load_std l a = Ok d /\ row_type r' = VS b /\ load_std l' b = Ok d) /\
      row_type r' <> VS a.
Proof. exact rename_follows. Qed.
Print Assumptions C25_rename_follows_in_table.
Example C25_rename_follows_nonvacuous :
  rename_net [("A", [("r_ohm_per_km", q 1 8)])] (Some [[("std_type", VS "A"); ("length_km", N 2)]; [("std_type", VNaN)]]) "A" "B" =
  ([("B", [("r_ohm_per_km", q 1 8)])], Some [[("std_type", VS "B"); ("std_type", VS "A"); ("length_km", N 2)]; [("std_type", VNaN)]], None).
Proof. exact rename_follows_nonvacuous. Qed.
(* if every std_type cell of the table named a type of the library (or none), the same holds afterwards *)
Theorem C25_rename_keeps_references : forall l t a b l' t',
  rename_net l (Some t) a b = (l', Some t', None) ->
  (forall r, In r t -> resolve l r <> None \/ (forall s, row_type r <> VS s)) ->
  (forall r', In r' t' -> resolve l' r' <> None \/ (forall s, row_type r' <> VS s)).
Proof. exact rename_keeps_references. Qed.
Print Assumptions C25_rename_keeps_references.
(* the call is all-or-nothing for every kind — with an element table or without (fuse library) — as it is in /repo after
   "fix: rename_std_type no longer raises KeyError for libraries without an element table" *)
Theorem C25_rename_atomic : forall l tab a b,
  let '(l', tab', e) := rename_net l tab a b in
  (e = None <-> exists l1, rename_std l a b = Ok l1) /\ (e <> None -> l' = l /\ tab' = tab).
Proof. exact rename_atomic. Qed.
Print Assumptions C25_rename_atomic.
(* the rule before the repair (rename_net_gen true): all-or-nothing only for kinds with a table (G25r); for the fuse library it
   renamed the type and then raised KeyError (regression witness) *)
Theorem C25_rename_atomic_old_partial : forall raises l tab a b, G25r tab = true ->
  let '(l', tab', e) := rename_net_gen raises l tab a b in
  (e = None <-> exists l1, rename_std l a b = Ok l1) /\ (e <> None -> l' = l /\ tab' = tab).
Proof. exact rename_atomic_partial. Qed.
Print Assumptions C25_rename_atomic_old_partial.
Theorem C25_rename_atomic_old_refuted : exists l a b, let '(l', tab', e) := rename_net_gen true l None a b in e <> None /\ l' <> l.
Proof. exact rename_atomic_old_refuted. Qed.
Print Assumptions C25_rename_atomic_old_refuted.

(* ====================================================================== change_std_type: exact write set and stale columns
   written_cols cols ty = std_type + the existing columns the type defines; fresh_val ds ty c = what create_<kind>(std_type=ty)
   writes into column c (C24 descriptor ds); type_col ds c = column c is filled from type parameter c;
   stale_cols ds cols ty r = the type columns of the table which the new type does not define and whose old value differs
   from the fresh element's. *)
Theorem C25_change_write_set : forall cols l name r r' ty, change_std cols l name r = Ok r' -> lget l name = Some ty ->
  rowget r' "std_type" = VS name /\
  (forall c, In c (written_cols cols ty) -> c <> "std_type" -> rowget r' c = valof (lookup ty c)) /\
  (forall c, ~ In c (written_cols cols ty) -> rowget r' c = rowget r c).
Proof. exact change_write_set. Qed.
Print Assumptions C25_change_write_set.
(* the recorded finding, exactly: a type column of the changed row differs from the fresh element iff it is in stale_cols *)
Theorem C25_change_stale_exact : forall ds cols l name r r' ty c, change_std cols l name r = Ok r' -> lget l name = Some ty ->
  type_col ds c = true -> G25_col cols c = true -> String.eqb "std_type" c = false ->
  (rowget r' c = fresh_val ds ty c <-> ~ In c (stale_cols ds cols ty r)).
Proof. exact stale_exact. Qed.
Print Assumptions C25_change_stale_exact.
Theorem C25_change_stale_keeps_old : forall ds cols l name r r' ty c, change_std cols l name r = Ok r' -> lget l name = Some ty ->
  In c (stale_cols ds cols ty r) -> rowget r' c = rowget r c /\ rowget r' c <> fresh_val ds ty c /\ lookup ty c = None.
Proof. exact stale_keeps_old. Qed.
Print Assumptions C25_change_stale_keeps_old.
Theorem C25_change_eq_fresh_nostale_partial : forall ds cols l name r r' ty, change_std cols l name r = Ok r' -> lget l name = Some ty ->
  G25_nostale ds cols ty r = true ->
  forall c, type_col ds c = true -> G25_col cols c = true -> String.eqb "std_type" c = false -> rowget r' c = fresh_val ds ty c.
Proof. exact nostale_partial. Qed.
Print Assumptions C25_change_eq_fresh_nostale_partial.
Theorem C25_change_stale_refuted : exists r', change_std w_cols [("NEW", w_ty)] "NEW" w_row = Ok r' /\
  stale_cols d_trafo_s w_cols w_ty w_row = ["tap_side"; "tap_step_percent"; "shift_degree"] /\
  rowget r' "tap_side" = VS "hv" /\ fresh_val d_trafo_s w_ty "tap_side" = VNaN /\
  rowget r' "shift_degree" = N 150 /\ fresh_val d_trafo_s w_ty "shift_degree" = N 0.
Proof. exact stale_refuted. Qed.
Print Assumptions C25_change_stale_refuted.
Example C25_change_nostale_nonvacuous :
  G25_nostale d_trafo_s w_cols (w_ty ++ [("tap_side", VS "lv"); ("tap_step_percent", q 5 2); ("shift_degree", N 0)])%list w_row = true /\
  type_col d_trafo_s "tap_side" = true.
Proof. exact nostale_nonvacuous. Qed.
(* the columns that can go stale, per kind (computed from the C24 descriptors of create_line / create_transformer / ...3w) *)
Theorem C25_type_columns :
  filter (type_col d_line_s) (map fst (d_cols d_line_s)) =
    ["r_ohm_per_km"; "x_ohm_per_km"; "c_nf_per_km"; "max_i_ka"; "g_us_per_km"; "type"; "r0_ohm_per_km"; "x0_ohm_per_km"; "c0_nf_per_km"; "alpha"] /\
  filter (type_col d_trafo_s) (map fst (d_cols d_trafo_s)) =
    (trafo_req ++ ["vk0_percent"; "vkr0_percent"; "mag0_percent"; "mag0_rx"; "si0_hv_partial"; "vector_group"; "shift_degree";
                  "tap_neutral"; "tap_max"; "tap_min"; "tap_side"; "tap_step_percent"; "tap_step_degree";
                  "tap2_neutral"; "tap2_max"; "tap2_min"; "tap2_side"; "tap2_step_percent"; "tap2_step_degree"; "tap2_changer_type";
                  "tap_changer_type"])%list /\
  filter (type_col d_t3_s) (map fst (d_cols d_t3_s)) =
    (t3_req ++ ["shift_mv_degree"; "shift_lv_degree"; "tap_neutral"; "tap_max"; "tap_min"; "tap_side"; "tap_step_percent"; "tap_step_degree";
               "tap_changer_type"])%list.
Proof. exact (conj type_cols_line (conj type_cols_trafo type_cols_t3)). Qed.
Print Assumptions C25_type_columns.
