(* C25 — standard types are applied completely and consistently (statements only; proofs in C25/Proofs.v) *)
From Coq Require Import ZArith QArith List Bool String.
From PPV Require Import Base.QN C24.Model C24.Proofs C25.Model C25.Proofs.
Import ListNotations.
Open Scope string_scope.

(* the type library behaves as a finite map under every sequence of create / delete / rename / copy calls
   (raising calls included): lookups in the implementation's dict = lookups in the abstract map *)
Theorem C25_library_refines_finite_map : forall req ops l x,
  lget (run_ops req l ops) x = fold_left (spec_step req) ops (lget l) x.
Proof. exact lib_refines. Qed.
Print Assumptions C25_library_refines_finite_map.

(* created / renamed / copied types are returned unchanged by load_std_type; other names are untouched *)
Theorem C25_created_is_loaded : forall req l d n ck l',
  create_std req l d n true ck = Ok l' ->
  load_std l' n = Ok d /\ (forall m, String.eqb n m = false -> load_std l' m = load_std l m).
Proof. exact created_is_loaded. Qed.
Print Assumptions C25_created_is_loaded.
Theorem C25_renamed_is_loaded : forall l a b l', rename_std l a b = Ok l' ->
  exists d, load_std l a = Ok d /\ load_std l' b = Ok d /\ load_std l' a = Err "UserWarning" /\
            (forall m, String.eqb a m = false -> String.eqb b m = false -> load_std l' m = load_std l m).
Proof. exact renamed_is_loaded. Qed.
Print Assumptions C25_renamed_is_loaded.
Theorem C25_copied_is_loaded : forall req src dst,
  NoDup (map fst src) -> (forall n d, In (n, d) src -> forallb (has d) req = true) ->
  let dst' := fst (copy_std req dst src true) in
  snd (copy_std req dst src true) = false /\
  (forall n d, In (n, d) src -> load_std dst' n = Ok d) /\
  (forall m, ~ In m (map fst src) -> load_std dst' m = load_std dst m).
Proof. exact copied_is_loaded. Qed.
Print Assumptions C25_copied_is_loaded.
Theorem C25_deleted_is_gone : forall l n l', delete_std l n = Ok l' ->
  load_std l' n = Err "UserWarning" /\ forall m, String.eqb n m = false -> load_std l' m = load_std l m.
Proof. exact deleted_is_gone. Qed.
Print Assumptions C25_deleted_is_gone.

(* change_std_type: FULL statement "every parameter defined by the type ends up in the row" is refuted
   (a parameter without a column is skipped); partial under the guard G25_col (the column exists) *)
Theorem C25_change_sets_all_refuted : exists cols l name r r' ty p v,
  change_std cols l name r = Ok r' /\ lget l name = Some ty /\ lookup ty p = Some v /\ rowget r' p <> v.
Proof. exact change_full_refuted. Qed.
Print Assumptions C25_change_sets_all_refuted.
Theorem C25_change_sets_all_partial : forall cols l name r r' ty p v,
  change_std cols l name r = Ok r' -> lget l name = Some ty ->
  G25_col cols p = true -> String.eqb "std_type" p = false -> lookup ty p = Some v -> rowget r' p = v.
Proof. exact change_sets_partial. Qed.
Print Assumptions C25_change_sets_all_partial.
Example C25_change_partial_nonvacuous :
  change_std ["r_ohm_per_km"] [("T", [("r_ohm_per_km", q 1 8)])] "T" [("r_ohm_per_km", q 1 2)] =
  Ok [("std_type", VS "T"); ("r_ohm_per_km", q 1 8); ("r_ohm_per_km", q 1 2)].
Proof. reflexivity. Qed.

(* a changed element equals a freshly created one on the type's columns: refuted (stale parameters of the
   previous type survive); partial under G25_fresh (the new type redefines everything the row holds) *)
Theorem C25_changed_eq_fresh_refuted : exists cols l name r r' ty c,
  change_std cols l name r = Ok r' /\ lget l name = Some ty /\ G25_col cols c = true /\ rowget r' c <> valof (lookup ty c).
Proof. exact change_fresh_refuted. Qed.
Print Assumptions C25_changed_eq_fresh_refuted.
Theorem C25_changed_eq_fresh_partial : forall cols l name r r' ty stdcols,
  change_std cols l name r = Ok r' -> lget l name = Some ty -> G25_fresh stdcols ty r = true ->
  forall c, In c stdcols -> G25_col cols c = true -> String.eqb "std_type" c = false ->
  rowget r' c = valof (lookup ty c).
Proof. exact change_fresh_partial. Qed.
Print Assumptions C25_changed_eq_fresh_partial.

(* created from a type == created from explicit parameters carrying the type's values, for every column c
   that both functions handle alike (ce_ok, decided by computation) *)
Theorem C25_created_eq_explicit_partial : forall ds de c, ce_ok ds de c = true ->
  forall std a ex ex', has a c = false ->
  single_val (spec_of ds c) ex std a = single_val (spec_of de c) ex' [] (a ++ std)%list.
Proof. exact created_eq_explicit. Qed.
Print Assumptions C25_created_eq_explicit_partial.
(* ... which holds for every parameter of a transformer type, for the power-flow and zero-sequence parameters of a
   line type and for the parameters create_transformer3w copies *)
Theorem C25_created_eq_explicit_kinds :
  forallb (ce_ok d_trafo_s d_trafo_par) trafo_type_params = true /\
  forallb (ce_ok d_line_s d_line_par) (line_type_params_copied ++ ["r0_ohm_per_km"; "x0_ohm_per_km"; "c0_nf_per_km"])%list = true /\
  forallb (ce_ok d_t3_s d_t3_par) t3_type_params_copied = true.
Proof. repeat split; reflexivity. Qed.
Print Assumptions C25_created_eq_explicit_kinds.
(* ... and fails for alpha / endtemp_degree of line types and the zero-sequence data / vector group of 3W types *)
Theorem C25_created_line_refuted : exists std a c,
  has a c = false /\ single_val (spec_of d_line_s c) false std a <> single_val (spec_of d_line_par c) false [] (a ++ std)%list.
Proof. exact created_line_refuted. Qed.
Print Assumptions C25_created_line_refuted.
Theorem C25_created_trafo3w_refuted : exists std a c,
  has a c = false /\ single_val (spec_of d_t3_s c) false std a <> single_val (spec_of d_t3_par c) false [] (a ++ std)%list.
Proof. exact created_t3_refuted. Qed.
Print Assumptions C25_created_trafo3w_refuted.
Theorem C25_not_copied_params :
  filter (fun c => negb (ce_ok d_line_s d_line_par c)) line_type_params = ["alpha"; "endtemp_degree"] /\
  filter (fun c => negb (ce_ok d_t3_s d_t3_par c)) t3_type_params =
  ["vk0_hv_percent"; "vk0_mv_percent"; "vk0_lv_percent"; "vkr0_hv_percent"; "vkr0_mv_percent"; "vkr0_lv_percent"; "vector_group"].
Proof. split; reflexivity. Qed.
Print Assumptions C25_not_copied_params.
