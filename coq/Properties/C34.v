(* C34 — explicit runpp arguments take precedence over stored user options
   (statements only; proofs are in C34/Proofs.v).
   runpp_options f stored explicit = net._options after  runpp(net, **explicit)  with
   net.user_pf_options = stored, f = the facts about the net and the installation that the option code reads. *)
From Coq Require Import ZArith QArith List Bool String.
From PPV Require Import Base.QN C34.Model C34.Proofs.
Import ListNotations.
Open Scope string_scope.

(* FULL STATEMENT (false of the code, see C34_explicit_wins_refuted):
     forall f stored explicit,
       runpp_options f stored explicit = runpp_options f (remove_keys (keys explicit) stored) explicit
   i.e. a stored option whose key is passed explicitly has no influence whatsoever on net._options. *)

(* holds under the guard G34 = every explicitly passed named argument differs (python !=) from its default *)
Theorem C34_explicit_wins_partial : forall f stored explicit,
  G34 explicit = true ->
  runpp_options f stored explicit = runpp_options f (remove_keys (keys explicit) stored) explicit.
Proof. exact explicit_wins_partial. Qed.
Print Assumptions C34_explicit_wins_partial.

Theorem C34_explicit_wins_refuted :
  exists f stored explicit,
    runpp_options f stored explicit <> runpp_options f (remove_keys (keys explicit) stored) explicit.
Proof. exact explicit_wins_refuted. Qed.
Print Assumptions C34_explicit_wins_refuted.

(* an explicitly passed, plainly copied option shows up in net._options with the passed value,
   whatever is stored (per-key guard: the value differs from the default, vacuous for **kwargs keys) *)
Theorem C34_explicit_value_visible_partial : forall f stored explicit k v o,
  mem k plain_keys = true ->
  lookup k explicit = Some v ->
  G34_key explicit k = true ->
  runpp_options f stored explicit = Ok o ->
  lookup k o = Some v.
Proof. exact explicit_value_visible. Qed.
Print Assumptions C34_explicit_value_visible_partial.

Theorem C34_explicit_value_visible_refuted :
  exists f stored explicit k v o,
    mem k plain_keys = true /\ lookup k explicit = Some v /\
    runpp_options f stored explicit = Ok o /\ lookup k o <> Some v.
Proof. exact explicit_value_visible_refuted. Qed.
Print Assumptions C34_explicit_value_visible_refuted.

(* which keys the code regards as passed: a named argument whose value differs from the signature default,
   or any **kwargs key *)
Theorem C34_passed_iff : forall explicit k,
  mem k (keys (passed_set explicit))
  = match lookup k named_defaults with
    | Some d => negb (val_eqb (getd k explicit d) d)
    | None => mem k (keys explicit)
    end.
Proof. exact passed_set_char. Qed.
Print Assumptions C34_passed_iff.

(* stored options apply to every argument the code regards as not passed ... *)
Theorem C34_stored_applies_when_not_passed : forall f stored explicit k v o,
  NoDup (keys stored) ->
  lookup k stored = Some v ->
  mem k (keys (passed_set explicit)) = false ->
  runpp_options f stored explicit = Ok o ->
  lookup k o = Some v.
Proof. exact stored_applies_when_not_passed. Qed.
Print Assumptions C34_stored_applies_when_not_passed.

(* ... which pins down the recorded defect exactly: an explicit value python-equal to the default loses *)
Theorem C34_explicit_default_loses : forall f stored explicit k d v s o,
  NoDup (keys stored) ->
  lookup k named_defaults = Some d -> lookup k explicit = Some v -> val_eqb v d = true ->
  lookup k stored = Some s ->
  runpp_options f stored explicit = Ok o ->
  lookup k o = Some s.
Proof. exact explicit_default_loses. Qed.
Print Assumptions C34_explicit_default_loses.

Example C34_nonvacuous :
  G34 explicit_nv = true /\ NoDup (keys stored_nv) /\
  (exists o, runpp_options facts0 stored_nv explicit_nv = Ok o
             /\ lookup "tolerance_mva" o = Some (VQ (1 # 1000000))
             /\ lookup "max_iteration" o = Some (VZ 25)
             /\ lookup "numba" o = Some (VB true)) /\
  mem "max_iteration" (keys (passed_set explicit_nv)) = false.
Proof. exact nonvacuous. Qed.
Print Assumptions C34_nonvacuous.
