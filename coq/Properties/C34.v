(* C34 — explicit runpp arguments take precedence over stored user options
   (statements only; proofs are in C34/Proofs.v).
   runpp_options f stored explicit = net._options after  runpp(net, **explicit)  with
   net.user_pf_options = stored, f = the facts about the net and the installation that the option code reads. *)
From Coq Require Import ZArith QArith List Bool String.
From PPV Require Import Base.QN C34.Model C34.Proofs C34.ModelCtl C34.ProofsCtl.
Import ListNotations.
Open Scope string_scope.

(* FULL STATEMENT (false of the code, see C34_explicit_wins_refuted):
     forall f stored explicit,
       runpp_options f stored explicit = runpp_options f (remove_keys (keys explicit) stored) explicit
   i.e. a stored option whose key is passed explicitly has no influence whatsoever on net._options. *)

(* holds under the guard G34 = for every explicitly passed named argument, bool(value != default) evaluates to True
   (python != incl. list / dict / array values, Model.ne_truth) *)
Theorem C34_explicit_wins_partial : forall f stored explicit,
  G34 explicit = true ->
  runpp_options f stored explicit = runpp_options f (remove_keys (keys explicit) stored) explicit.
Proof. exact explicit_wins_partial. Qed.
Print Assumptions C34_explicit_wins_partial.

Theorem C34_explicit_wins_refuted :
  exists f stored explicit,
    runpp_options f stored explicit <> runpp_options f (remove_keys (keys explicit) stored) explicit.
Proof. exact explicit_wins_refuted. Qed.
Print Assumptions C34_explicit_wins_refuted.

(* an explicitly passed, plainly copied option shows up in net._options with the passed value,
   whatever is stored (per-key guard: the value differs from the default, vacuous for **kwargs keys) *)
Theorem C34_explicit_value_visible_partial : forall f stored explicit k v o,
  mem k plain_keys = true ->
  lookup k explicit = Some v ->
  G34_key explicit k = true ->
  runpp_options f stored explicit = Ok o ->
  lookup k o = Some v.
Proof. exact explicit_value_visible. Qed.
Print Assumptions C34_explicit_value_visible_partial.

Theorem C34_explicit_value_visible_refuted :
  exists f stored explicit k v o,
    mem k plain_keys = true /\ lookup k explicit = Some v /\
    runpp_options f stored explicit = Ok o /\ lookup k o <> Some v.
Proof. exact explicit_value_visible_refuted. Qed.
Print Assumptions C34_explicit_value_visible_refuted.

(* which keys the code regards as passed: a named argument whose value differs from the signature default,
   or any **kwargs key *)
Theorem C34_passed_iff : forall explicit k,
  mem k (keys (passed_set explicit))
  = match lookup k named_defaults with
    | Some d => ne_true (getd k explicit d) d
    | None => mem k (keys explicit)
    end.
Proof. exact passed_set_char. Qed.
Print Assumptions C34_passed_iff.

(* stored options apply to every argument the code regards as not passed ... *)
Theorem C34_stored_applies_when_not_passed : forall f stored explicit k v o,
  NoDup (keys stored) ->
  lookup k stored = Some v ->
  mem k (keys (passed_set explicit)) = false ->
  runpp_options f stored explicit = Ok o ->
  lookup k o = Some v.
Proof. exact stored_applies_when_not_passed. Qed.
Print Assumptions C34_stored_applies_when_not_passed.

(* ... which pins down the recorded defect exactly: an explicit value python-equal to the default loses *)
Theorem C34_explicit_default_loses : forall f stored explicit k d v s o,
  NoDup (keys stored) ->
  lookup k named_defaults = Some d -> lookup k explicit = Some v -> ne_true v d = false ->
  lookup k stored = Some s ->
  runpp_options f stored explicit = Ok o ->
  lookup k o = Some s.
Proof. exact explicit_default_loses. Qed.
Print Assumptions C34_explicit_default_loses.

Example C34_nonvacuous :
  G34 explicit_nv = true /\ NoDup (keys stored_nv) /\
  (exists o, runpp_options facts0 stored_nv explicit_nv = Ok o
             /\ lookup "tolerance_mva" o = Some (VQ (1 # 1000000))
             /\ lookup "max_iteration" o = Some (VZ 25)
             /\ lookup "numba" o = Some (VB true)) /\
  mem "max_iteration" (keys (passed_set explicit_nv)) = false.
Proof. exact nonvacuous. Qed.
Print Assumptions C34_nonvacuous.

(* ---- composite (list / dict / array / Series) option values in `val != default` (run.py:543) *)

(* every default of the signature is a scalar, so two composite values are never compared *)
Theorem C34_defaults_scalar : forall k d, lookup k named_defaults = Some d -> is_scalar d = true.
Proof. exact named_defaults_scalar. Qed.
Print Assumptions C34_defaults_scalar.

(* list / tuple / dict / object values always differ from the default and never raise: they satisfy the guard *)
Theorem C34_container_always_passed : forall v d, is_container v = true -> ne_truth v d = Some true.
Proof. exact container_always_passed. Qed.
Print Assumptions C34_container_always_passed.

(* arrays: size 1 - the element decides; every other size raises (None = ValueError) *)
Theorem C34_array_ne_truth : forall l d,
  ne_truth (VA l) d = match l with [x] => Some (negb (val_eqb x d)) | _ => None end.
Proof. exact array_ne_truth. Qed.
Print Assumptions C34_array_ne_truth.

(* a named argument whose comparison raises makes runpp raise ValueError, for every net - but only when user
   options are stored; without stored options no comparison is evaluated at all *)
Theorem C34_raising_value_raises : forall f stored explicit k d v,
  stored <> [] -> lookup k named_defaults = Some d -> lookup k explicit = Some v -> ne_raises v d = true ->
  runpp_options f stored explicit = Err "ValueError".
Proof. exact raising_value_raises. Qed.
Print Assumptions C34_raising_value_raises.

Theorem C34_no_stored_no_comparison : forall f explicit,
  runpp_options f [] explicit = init_core f (call_named explicit) (call_kwargs explicit) [].
Proof. exact no_stored_no_comparison. Qed.
Print Assumptions C34_no_stored_no_comparison.

Example C34_composite_nonvacuous :
  runpp_options facts0 stored_c [("tolerance_mva", VA [VQ (1 # 100); VQ (1 # 10)])] = Err "ValueError" /\
  (exists o, runpp_options facts0 [] [("tolerance_mva", VA [VQ (1 # 100); VQ (1 # 10)])] = Ok o
             /\ lookup "tolerance_mva" o = Some (VA [VQ (1 # 100); VQ (1 # 10)])) /\
  (exists o, runpp_options facts0 stored_c [("tolerance_mva", VA [VQ tol_default])] = Ok o
             /\ lookup "tolerance_mva" o = Some (VQ (1 # 1000))) /\
  (exists o, runpp_options facts0 stored_c [("tolerance_mva", VL [VQ tol_default]); ("recycle", VD [])] = Ok o
             /\ lookup "tolerance_mva" o = Some (VL [VQ tol_default]) /\ lookup "recycle" o = Some (VD [])).
Proof. exact composite_nonvacuous. Qed.
Print Assumptions C34_composite_nonvacuous.

(* ---- the run_control branch of runpp (ModelCtl):
   runpp_control fs pf steps initial_run stored explicit = (net._options of every inner power flow in order, outcome)
   of  runpp(net, ** explicit)  with run_control=True and controllers in service;  fs i = facts seen by inner power
   flow #i, pf i = does it converge, steps = control steps per controller level.
   plain_explicit explicit = the explicit arguments without run_control / continue_on_divergence / check_each_level /
   max_iter.  Gctl = no stored option under a key that run_control adds or consumes, caller passes none of
   recycle / only_v_results / ctrl_variables / run / kwargs. *)

(* the keyword arguments handed to every inner run configure it exactly like the plain call ... *)
Theorem C34_inner_call_is_plain_call : forall f stored explicit,
  NoDup (keys explicit) -> Gctl stored explicit = true ->
  runpp_options f stored (inner_explicit explicit) = runpp_options f stored (plain_explicit explicit).
Proof. exact inner_call_is_plain_call. Qed.
Print Assumptions C34_inner_call_is_plain_call.

(* ... the inner call cannot re-enter run_control or take the recycle shortcut ... *)
Theorem C34_inner_call_takes_plain_branch : forall internal_stored ctrl_in_service explicit,
  NoDup (keys explicit) ->
  runpp_branch internal_stored ctrl_in_service (inner_explicit explicit) = BPlain.
Proof. exact inner_call_takes_plain_branch. Qed.
Print Assumptions C34_inner_call_takes_plain_branch.

(* ... so EVERY inner power flow of the control loop (initial run, control iterations, the retry after
   repair_control with continue_on_divergence), whatever converges or diverges, sees the plain call's options *)
Theorem C34_control_every_inner_run_is_plain : forall fs pf steps initial_run stored explicit i o,
  NoDup (keys explicit) -> Gctl stored explicit = true ->
  nth_error (fst (runpp_control fs pf steps initial_run stored explicit)) i = Some o ->
  o = runpp_options (fs i) stored (plain_explicit explicit).
Proof. exact control_every_inner_run_is_plain. Qed.
Print Assumptions C34_control_every_inner_run_is_plain.

(* explicit-wins carries over to every inner run under G34 *)
Theorem C34_control_explicit_wins_partial : forall fs pf steps initial_run stored explicit i o,
  NoDup (keys explicit) -> Gctl stored explicit = true -> G34 (plain_explicit explicit) = true ->
  nth_error (fst (runpp_control fs pf steps initial_run stored explicit)) i = Some o ->
  o = runpp_options (fs i) (remove_keys (keys (plain_explicit explicit)) stored) (plain_explicit explicit).
Proof. exact control_explicit_wins_partial. Qed.
Print Assumptions C34_control_explicit_wins_partial.

(* the guard Gctl is needed: run_control overwrites the caller's only_v_results (and recycle), run_control.py:277 *)
Theorem C34_control_only_v_results_overwritten :
  exists o p, runpp_options facts0 [] (inner_explicit explicit_ovr) = Ok o /\
              runpp_options facts0 [] (plain_explicit explicit_ovr) = Ok p /\
              lookup "only_v_results" o = Some (VB false) /\ lookup "only_v_results" p = Some (VB true).
Proof. exact control_only_v_results_overwritten. Qed.
Print Assumptions C34_control_only_v_results_overwritten.

Theorem C34_control_stored_only_v_results_overruled :
  exists o p, runpp_options facts0 stored_ovr (inner_explicit [("run_control", VB true)]) = Ok o /\
              runpp_options facts0 stored_ovr (plain_explicit [("run_control", VB true)]) = Ok p /\
              lookup "only_v_results" o = Some (VB false) /\ lookup "only_v_results" p = Some (VB true).
Proof. exact control_stored_only_v_results_overruled. Qed.
Print Assumptions C34_control_stored_only_v_results_overruled.

Example C34_control_nonvacuous :
  NoDup (keys explicit_cnv) /\ Gctl stored_cnv explicit_cnv = true /\ G34 (plain_explicit explicit_cnv) = true /\
  let '(tr, out) := runpp_control (fun _ => facts0) (fun i => negb (Nat.eqb i 1)) [2%nat] true stored_cnv explicit_cnv in
  List.length tr = 4%nat /\ out = "ok" /\
  (exists o, nth_error tr 2 = Some (Ok o) /\ lookup "tolerance_mva" o = Some (VQ (1 # 1000000))
             /\ lookup "max_iteration" o = Some (VZ 25) /\ lookup "numba" o = Some (VB false)).
Proof. exact control_nonvacuous. Qed.
Print Assumptions C34_control_nonvacuous.
