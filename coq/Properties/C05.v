(* C05 — property theorems (statements only; proofs in C07/UnionFind.v and C05/Proofs.v).
   Model-level metamorphic theorems about the bookkeeping that a re-representation touches; the end-to-end invariance
   of runpp results is searched differentially by harness/props/c05.py. *)
From Coq Require Import QArith List Bool Arith Permutation.
From PPV Require Import Base.QN Base.QC Base.C07Graph C07.Model C07.UnionFind C05.Model C05.Proofs.
From PPV Require C31.Model C02.Model C02.Proofs C05.BranchProofs.
Import ListNotations.

(* fuse_lookup: two buses share a ppc row iff connected by closed zero-impedance bus-bus switches between in-service buses *)
Theorem C05_fuse_lookup : forall n a b, rep n a = rep n b <-> upath (fuse_edges n) a b.
Proof. exact rep_iff_fused. Qed.
Print Assumptions C05_fuse_lookup.

(* ... whatever the order of the rows of net.switch *)
Theorem C05_fuse_partition_switch_perm : forall n n' a b,
  buses n' = buses n -> Permutation (switches n) (switches n') -> (rep n a = rep n b <-> rep n' a = rep n' b).
Proof. exact fuse_partition_switch_perm. Qed.
Print Assumptions C05_fuse_partition_switch_perm.

(* per-bus aggregation: every value reported by _sum_by_group is the sum over the rows of that bus ... *)
Theorem C05_sum_by_group_is_group_sum : forall rows b v, In (b, v) (sum_by_group rows) -> v == gsum b rows.
Proof. exact sum_by_group_is_group_sum. Qed.
Print Assumptions C05_sum_by_group_is_group_sum.
(* ... hence invariant under any permutation of the element rows, *)
Theorem C05_row_perm_invariance : forall rows rows' b v v', Permutation rows rows' ->
  In (b, v) (sum_by_group rows) -> In (b, v') (sum_by_group rows') -> v == v'.
Proof. exact sum_by_group_perm. Qed.
Print Assumptions C05_row_perm_invariance.
(* under splitting one element into two at the same bus, *)
Theorem C05_split_pq : forall l1 l2 bx p p1 p2 b v v', p == p1 + p2 ->
  In (b, v) (sum_by_group (l1 ++ (bx, p) :: l2)) -> In (b, v') (sum_by_group (l1 ++ (bx, p1) :: (bx, p2) :: l2)) -> v == v'.
Proof. exact sum_by_group_split. Qed.
Print Assumptions C05_split_pq.
(* and under adding a zero-power row (an out-of-service element contributes no row at all) *)
Theorem C05_inert_elements : forall l1 l2 bx b v v',
  In (b, v) (sum_by_group (l1 ++ l2)) -> In (b, v') (sum_by_group (l1 ++ (bx, 0) :: l2)) -> v == v'.
Proof. exact sum_by_group_inert. Qed.
Print Assumptions C05_inert_elements.

(* the consecutive bus lookup commutes with any injective relabelling of the bus indices *)
Theorem C05_relabel_invariance : forall f idx b, (forall x y, f x = f y -> x = y) ->
  consec_lookup (map f idx) (f b) = consec_lookup idx b.
Proof. exact consec_lookup_relabel. Qed.
Print Assumptions C05_relabel_invariance.

(* the physical series impedance / shunt admittance encoded by the per-unit line row do not depend on sn_mva *)
Theorem C05_sn_mva_invariance_line : forall k vn l, ~ vn == 0 -> ~ par l == 0 -> forall sn, ~ sn == 0 ->
  br_r (line_param k vn sn l) * (vn * vn / sn) == r_km l * len l / par l /\
  br_x (line_param k vn sn l) * (vn * vn / sn) == x_km l * len l / par l /\
  br_b (line_param k vn sn l) / (vn * vn / sn) == k * c_nf l * len l * par l /\
  br_g (line_param k vn sn l) / (vn * vn / sn) == g_us l * (1 # 1000000) * len l * par l.
Proof. exact line_physical_sn_invariant. Qed.
Print Assumptions C05_sn_mva_invariance_line.

(* parallel = n is n single lines: series impedance / n, shunt admittance * n *)
Theorem C05_parallel_n_lines : forall k vn l, ~ vn == 0 -> ~ par l == 0 -> forall sn, ~ sn == 0 ->
  let p1 := line_param k vn sn {| r_km := r_km l; x_km := x_km l; c_nf := c_nf l; g_us := g_us l; len := len l; par := 1 |} in
  let pn := line_param k vn sn l in
  br_r pn * par l == br_r p1 /\ br_x pn * par l == br_x p1 /\ br_b pn == par l * br_b p1 /\ br_g pn == par l * br_g p1.
Proof. exact line_parallel_scaling. Qed.
Print Assumptions C05_parallel_n_lines.

(* swapping the ends of a line swaps its two terminal flows *)
Theorem C05_swap_line_ends : forall p vf vt, s_from p vt vf ==c s_to p vf vt /\ s_to p vt vf ==c s_from p vf vt.
Proof. exact line_swap_flows. Qed.
Print Assumptions C05_swap_line_ends.

(* ------------------------------------------------------------------ sn_mva invariance of transformer / impedance rows
   (rows, Ybus stamps and pfsoln flows: the model C02/Model.v of build_branch.py, makeYbus.py, pfsoln.py) *)
Module Br.
Import C31.Model C02.Model C02.Proofs C05.BranchProofs.
(* two branch rows that are the same element on two system bases (impedances * k, admittances / k, k = sn2/sn1, same
   tap / shift / status) yield the same MW / Mvar terminal powers from the same per-unit voltages *)
Theorem C05_sn_mva_invariance_rows : forall b1 b2 e vf vt sn1 sn2,
  ~ sn1 == 0 -> ~ sn2 == 0 -> row_scaled (sn2 / sn1) b1 b2 -> b_stat b1 = true ->
  ~ (b_r b1) * (b_r b1) + (b_x b1) * (b_x b1) == 0 ->
  ~ (b_r b1 + b_ra b1) * (b_r b1 + b_ra b1) + (b_x b1 + b_xa b1) * (b_x b1 + b_xa b1) == 0 ->
  ~ b_tap b1 == 0 -> re e * re e + im e * im e == 1 ->
  Ceq2 (flows (stamps_core b1 e) vf vt sn1) (flows (stamps_core b2 e) vf vt sn2).
Proof. exact flows_sn_scale. Qed.
Print Assumptions C05_sn_mva_invariance_rows.

(* impedance element: the row built by _calc_impedance_parameters_from_dataframe on base sn2 is the rescaled row of
   base sn1, and its terminal powers do not depend on net.sn_mva *)
Theorem C05_impedance_row_scaled : forall sn1 sn2 i, ~ sn1 == 0 -> ~ sn2 == 0 -> ~ i_sn i == 0 ->
  row_scaled (sn2 / sn1) (impedance_branch sn1 i) (impedance_branch sn2 i).
Proof. exact impedance_row_scaled. Qed.
Print Assumptions C05_impedance_row_scaled.
Theorem C05_sn_mva_invariance_impedance : forall sn1 sn2 i vf vt,
  i_in i = true -> ~ sn1 == 0 -> ~ sn2 == 0 -> ~ i_sn i == 0 ->
  ~ i_rft i * i_rft i + i_xft i * i_xft i == 0 -> ~ i_rtf i * i_rtf i + i_xtf i * i_xtf i == 0 ->
  Ceq2 (flows (stamps_core (impedance_branch sn1 i) C1) vf vt sn1)
       (flows (stamps_core (impedance_branch sn2 i) C1) vf vt sn2).
Proof. exact impedance_sn_invariant. Qed.
Print Assumptions C05_sn_mva_invariance_impedance.
(* swapping the ends of an impedance element (z_ft <-> z_tf, y_f <-> y_t, voltages exchanged) swaps its terminal flows *)
Theorem C05_swap_impedance_ends : forall sn i vf vt,
  i_in i = true -> ~ sn == 0 -> ~ i_sn i == 0 ->
  ~ i_rft i * i_rft i + i_xft i * i_xft i == 0 -> ~ i_rtf i * i_rtf i + i_xtf i * i_xtf i == 0 ->
  let s := flows (stamps_core (impedance_branch sn i) C1) vf vt sn in
  Ceq2 (flows (stamps_core (impedance_branch sn (imp_swap i)) C1) vt vf sn) (snd s, fst s).
Proof. exact impedance_swap_flows. Qed.
Print Assumptions C05_swap_impedance_ends.

(* transformer (trafo_model = "pi"): with the sqrt oracles of the two runs satisfying their defining equations, the row
   on base sn2 is the rescaled row of base sn1 (r, x * k; g, b / k; same ratio and shift), hence the hv / lv powers in
   MW / Mvar do not depend on net.sn_mva *)
Theorem C05_trafo_row_scaled : forall sn1 sn2 t o1 o2 vnh vnl shift basehv baselv,
  0 < sn1 -> 0 < sn2 -> ~ t_sn t == 0 -> ~ t_par t == 0 -> ~ baselv == 0 -> ~ vnl == 0 -> ~ t_vnl0 t == 0 ->
  o_x o1 * o_x o1 == fst (trafo_zr sn1 t vnl baselv) * fst (trafo_zr sn1 t vnl baselv)
                     - snd (trafo_zr sn1 t vnl baselv) * snd (trafo_zr sn1 t vnl baselv) ->
  o_x o2 * o_x o2 == fst (trafo_zr sn2 t vnl baselv) * fst (trafo_zr sn2 t vnl baselv)
                     - snd (trafo_zr sn2 t vnl baselv) * snd (trafo_zr sn2 t vnl baselv) ->
  0 <= o_x o1 -> 0 <= o_x o2 -> o_bm o1 * o_bm o1 == o_bm o2 * o_bm o2 -> 0 <= o_bm o1 -> 0 <= o_bm o2 ->
  forall b1 b2,
  trafo_branch sn1 false t o1 vnh vnl shift basehv baselv = Ok b1 ->
  trafo_branch sn2 false t o2 vnh vnl shift basehv baselv = Ok b2 ->
  row_scaled (sn2 / sn1) b1 b2.
Proof. exact trafo_pi_row_scaled. Qed.
Print Assumptions C05_trafo_row_scaled.
Theorem C05_sn_mva_invariance_trafo : forall sn1 sn2 t o1 o2 vnh vnl shift basehv baselv,
  0 < sn1 -> 0 < sn2 -> ~ t_sn t == 0 -> ~ t_par t == 0 -> ~ baselv == 0 -> ~ vnl == 0 -> ~ t_vnl0 t == 0 ->
  o_x o1 * o_x o1 == fst (trafo_zr sn1 t vnl baselv) * fst (trafo_zr sn1 t vnl baselv)
                     - snd (trafo_zr sn1 t vnl baselv) * snd (trafo_zr sn1 t vnl baselv) ->
  o_x o2 * o_x o2 == fst (trafo_zr sn2 t vnl baselv) * fst (trafo_zr sn2 t vnl baselv)
                     - snd (trafo_zr sn2 t vnl baselv) * snd (trafo_zr sn2 t vnl baselv) ->
  0 <= o_x o1 -> 0 <= o_x o2 -> o_bm o1 * o_bm o1 == o_bm o2 * o_bm o2 -> 0 <= o_bm o1 -> 0 <= o_bm o2 ->
  forall b1 b2 e vf vt,
  trafo_branch sn1 false t o1 vnh vnl shift basehv baselv = Ok b1 ->
  trafo_branch sn2 false t o2 vnh vnl shift basehv baselv = Ok b2 ->
  b_stat b1 = true -> ~ (b_r b1) * (b_r b1) + (b_x b1) * (b_x b1) == 0 -> ~ b_tap b1 == 0 ->
  re e * re e + im e * im e == 1 ->
  Ceq2 (flows (stamps_core b1 e) vf vt sn1) (flows (stamps_core b2 e) vf vt sn2).
Proof. exact trafo_pi_sn_invariant. Qed.
Print Assumptions C05_sn_mva_invariance_trafo.

(* relabelling: the ppc row of a transformer (bus positions, per-unit parameters) commutes with an injective
   relabelling of the buses when the lookup tables are relabelled with it *)
Theorem C05_trafo_row_relabel : forall f idx bkv bkv' hv lv sn m t o vnh vnl shift,
  (forall x y, f x = f y -> x = y) -> (forall b, bkv' (f b) = bkv b) ->
  trafo_ppc_row (map f idx) bkv' (f hv) (f lv) sn m t o vnh vnl shift = trafo_ppc_row idx bkv hv lv sn m t o vnh vnl shift.
Proof. exact trafo_row_relabel. Qed.
Print Assumptions C05_trafo_row_relabel.
Example C05_trafo_sn_nonvacuous :
  (o_x w_o1 * o_x w_o1 == fst (trafo_zr 1 w_trafo 1 1) * fst (trafo_zr 1 w_trafo 1 1)
                          - snd (trafo_zr 1 w_trafo 1 1) * snd (trafo_zr 1 w_trafo 1 1)) /\
  (o_x w_o2 * o_x w_o2 == fst (trafo_zr 4 w_trafo 1 1) * fst (trafo_zr 4 w_trafo 1 1)
                          - snd (trafo_zr 4 w_trafo 1 1) * snd (trafo_zr 4 w_trafo 1 1)) /\
  exists b1 b2, trafo_branch 1 false w_trafo w_o1 1 1 0 1 1 = Ok b1 /\ trafo_branch 4 false w_trafo w_o2 1 1 0 1 1 = Ok b2 /\
    b_stat b1 = true /\ b_r b1 == 3 # 100 /\ b_x b1 == 4 # 100 /\ b_r b2 == 12 # 100 /\ b_x b2 == 16 # 100 /\ b_tap b1 == 1.
Proof. exact trafo_sn_nonvacuous. Qed.
Print Assumptions C05_trafo_sn_nonvacuous.
End Br.

(* the Newton convergence test compares the per-unit mismatch with tolerance_mva: on base 1 MVA it is the documented
   test; on another base a mismatch 50 times the tolerance passes (the sn_mva sentence holds only up to sn_mva*tolerance) *)
Theorem C05_tolerance_partial : forall tol mis, nr_converged tol 1 mis = true <-> mis < tol.
Proof. exact nr_tolerance_partial. Qed.
Print Assumptions C05_tolerance_partial.
Theorem C05_tolerance_refuted : exists tol sn mis, nr_converged tol sn mis = true /\ tol * 50 <= mis.
Proof. exact nr_tolerance_refuted. Qed.
Print Assumptions C05_tolerance_refuted.

Example C05_nonvacuous :
  sum_by_group [(3%nat, 1 # 2); (1%nat, 2); (3%nat, 1 # 4); (1%nat, -1)] = [(1%nat, 1); (3%nat, 3 # 4)].
Proof. vm_compute. reflexivity. Qed.
Print Assumptions C05_nonvacuous.
