(* C05 — property theorems (statements only; proofs in C07/UnionFind.v and C05/Proofs.v).
   Model-level metamorphic theorems about the bookkeeping that a re-representation touches; the end-to-end invariance
   of runpp results is searched differentially by harness/props/c05.py. *)
From Coq Require Import QArith List Bool Arith Permutation.
From PPV Require Import Base.QN Base.QC Base.C07Graph C07.Model C07.UnionFind C05.Model C05.Proofs.
Import ListNotations.

(* fuse_lookup: two buses share a ppc row iff connected by closed zero-impedance bus-bus switches between in-service buses *)
Theorem C05_fuse_lookup : forall n a b, rep n a = rep n b <-> upath (fuse_edges n) a b.
Proof. exact rep_iff_fused. Qed.
Print Assumptions C05_fuse_lookup.

(* ... whatever the order of the rows of net.switch *)
Theorem C05_fuse_partition_switch_perm : forall n n' a b,
  buses n' = buses n -> Permutation (switches n) (switches n') -> (rep n a = rep n b <-> rep n' a = rep n' b).
Proof. exact fuse_partition_switch_perm. Qed.
Print Assumptions C05_fuse_partition_switch_perm.

(* per-bus aggregation: every value reported by _sum_by_group is the sum over the rows of that bus ... *)
Theorem C05_sum_by_group_is_group_sum : forall rows b v, In (b, v) (sum_by_group rows) -> v == gsum b rows.
Proof. exact sum_by_group_is_group_sum. Qed.
Print Assumptions C05_sum_by_group_is_group_sum.
(* ... hence invariant under any permutation of the element rows, *)
Theorem C05_row_perm_invariance : forall rows rows' b v v', Permutation rows rows' ->
  In (b, v) (sum_by_group rows) -> In (b, v') (sum_by_group rows') -> v == v'.
Proof. exact sum_by_group_perm. Qed.
Print Assumptions C05_row_perm_invariance.
(* under splitting one element into two at the same bus, *)
Theorem C05_split_pq : forall l1 l2 bx p p1 p2 b v v', p == p1 + p2 ->
  In (b, v) (sum_by_group (l1 ++ (bx, p) :: l2)) -> In (b, v') (sum_by_group (l1 ++ (bx, p1) :: (bx, p2) :: l2)) -> v == v'.
Proof. exact sum_by_group_split. Qed.
Print Assumptions C05_split_pq.
(* and under adding a zero-power row (an out-of-service element contributes no row at all) *)
Theorem C05_inert_elements : forall l1 l2 bx b v v',
  In (b, v) (sum_by_group (l1 ++ l2)) -> In (b, v') (sum_by_group (l1 ++ (bx, 0) :: l2)) -> v == v'.
Proof. exact sum_by_group_inert. Qed.
Print Assumptions C05_inert_elements.

(* the consecutive bus lookup commutes with any injective relabelling of the bus indices *)
Theorem C05_relabel_invariance : forall f idx b, (forall x y, f x = f y -> x = y) ->
  consec_lookup (map f idx) (f b) = consec_lookup idx b.
Proof. exact consec_lookup_relabel. Qed.
Print Assumptions C05_relabel_invariance.

(* the physical series impedance / shunt admittance encoded by the per-unit line row do not depend on sn_mva *)
Theorem C05_sn_mva_invariance_line : forall k vn l, ~ vn == 0 -> ~ par l == 0 -> forall sn, ~ sn == 0 ->
  br_r (line_param k vn sn l) * (vn * vn / sn) == r_km l * len l / par l /\
  br_x (line_param k vn sn l) * (vn * vn / sn) == x_km l * len l / par l /\
  br_b (line_param k vn sn l) / (vn * vn / sn) == k * c_nf l * len l * par l /\
  br_g (line_param k vn sn l) / (vn * vn / sn) == g_us l * (1 # 1000000) * len l * par l.
Proof. exact line_physical_sn_invariant. Qed.
Print Assumptions C05_sn_mva_invariance_line.

(* parallel = n is n single lines: series impedance / n, shunt admittance * n *)
Theorem C05_parallel_n_lines : forall k vn l, ~ vn == 0 -> ~ par l == 0 -> forall sn, ~ sn == 0 ->
  let p1 := line_param k vn sn {| r_km := r_km l; x_km := x_km l; c_nf := c_nf l; g_us := g_us l; len := len l; par := 1 |} in
  let pn := line_param k vn sn l in
  br_r pn * par l == br_r p1 /\ br_x pn * par l == br_x p1 /\ br_b pn == par l * br_b p1 /\ br_g pn == par l * br_g p1.
Proof. exact line_parallel_scaling. Qed.
Print Assumptions C05_parallel_n_lines.

(* swapping the ends of a line swaps its two terminal flows *)
Theorem C05_swap_line_ends : forall p vf vt, s_from p vt vf ==c s_to p vf vt /\ s_to p vt vf ==c s_from p vf vt.
Proof. exact line_swap_flows. Qed.
Print Assumptions C05_swap_line_ends.

(* the Newton convergence test compares the per-unit mismatch with tolerance_mva: on base 1 MVA it is the documented
   test; on another base a mismatch 50 times the tolerance passes (the sn_mva sentence holds only up to sn_mva*tolerance) *)
Theorem C05_tolerance_partial : forall tol mis, nr_converged tol 1 mis = true <-> mis < tol.
Proof. exact nr_tolerance_partial. Qed.
Print Assumptions C05_tolerance_partial.
Theorem C05_tolerance_refuted : exists tol sn mis, nr_converged tol sn mis = true /\ tol * 50 <= mis.
Proof. exact nr_tolerance_refuted. Qed.
Print Assumptions C05_tolerance_refuted.

Example C05_nonvacuous :
  sum_by_group [(3%nat, 1 # 2); (1%nat, 2); (3%nat, 1 # 4); (1%nat, -1)] = [(1%nat, 1); (3%nat, 3 # 4)].
Proof. vm_compute. reflexivity. Qed.
Print Assumptions C05_nonvacuous.
