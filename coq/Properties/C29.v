(* C29 — property theorems (statements only; proofs in C29/Proofs.v, C29/IdmtReal.v) *)
From Coq Require Import ZArith QArith List Bool Reals String.
From PPV Require Import Base.QN C32.Model C32.Whole C29.Model C29.Proofs C29.IdmtReal C29.FusePchip C29.Grading C29.GradingProofs C29.GradingGuard.
Import ListNotations.

Open Scope Q_scope.

(* Fuse: for every melting curve c that is non-increasing and non-negative on [i_start, i_stop] (monotone characteristic
   data + shape-preserving interpolation: hypothesis, validated at run time), the reported melt time is non-increasing in the
   switch current over the whole axis (inf below i_start, c inside, 0 above i_stop) *)
Theorem C29_fuse_time_antitone : forall i_start i_stop (c : Q -> Q),
  (forall a b, i_start <= a -> a <= b -> b <= i_stop -> c b <= c a) ->
  (forall a, i_start <= a -> a <= i_stop -> 0 <= c a) ->
  forall i1 i2, i1 <= i2 ->
  tle (ttime (fuse_at i_start i_stop c i2)) (ttime (fuse_at i_start i_stop c i1)).
Proof. exact fuse_antitone. Qed.
Print Assumptions C29_fuse_time_antitone.

(* the same WITHOUT the curve hypotheses: the melting curve is LogSplineCharacteristic(Pchip) = 10 ** pchip(log10 i) over the
   characteristic points (a :: t) (fuse.py:70-79, i_start = first, i_stop = last current).  For positive data with strictly
   increasing currents and non-increasing times (the "monotone characteristic data" of the property) shape preservation is the
   whole-curve theorem of C32 (C32/Whole.v), so the melt time is non-increasing in the switch current over the whole axis,
   for every pair lg / pw with the order contract of log10 / 10** *)
Theorem C29_fuse_pchip_time_antitone : forall (lg pw : Q -> Q),
  (forall y, 0 < y -> pw (lg y) == y) -> (forall a b, a <= b -> pw a <= pw b) ->
  (forall a b, 0 < a -> a <= b -> lg a <= lg b) -> (forall a b, 0 < a -> a < b -> lg a < lg b) ->
  forall (a : pt) (t : list pt), t <> [] -> positive (a :: t) -> sorted (a :: t) -> nonincreasing (a :: t) ->
  forall i1 i2, i1 <= i2 ->
  tle (ttime (fuse_at (fst a) (fst (last t a)) (melt lg pw (a :: t)) i2))
      (ttime (fuse_at (fst a) (fst (last t a)) (melt lg pw (a :: t)) i1)).
Proof. exact fuse_pchip_antitone. Qed.
Print Assumptions C29_fuse_pchip_time_antitone.
(* on [i_start, i_stop] the characteristic is defined and its value lies between the last and the first melting time *)
Theorem C29_fuse_pchip_curve_defined : forall (lg pw : Q -> Q),
  (forall y, 0 < y -> pw (lg y) == y) -> (forall a b, a <= b -> pw a <= pw b) ->
  (forall a b, 0 < a -> a <= b -> lg a <= lg b) -> (forall a b, 0 < a -> a < b -> lg a < lg b) ->
  forall (a : pt) (t : list pt), t <> [] -> positive (a :: t) -> sorted (a :: t) -> nonincreasing (a :: t) ->
  forall x, fst a <= x -> x <= fst (last t a) ->
  exists v, logspline lg pw (a :: t) x = Some v /\ snd (last t a) <= v /\ v <= snd a.
Proof. exact melt_defined. Qed.
Print Assumptions C29_fuse_pchip_curve_defined.
Example C29_fuse_pchip_nonvacuous :
  let l := [(100, 10); (200 # 1, 1); (400 # 1, 1 # 10)] in
  positive l /\ sorted l /\ nonincreasing l /\
  ttime (fuse_at 100 (400 # 1) (melt (fun y => y) (fun y => y) l) (15 # 100)) = TFin (2251 # 544).
Proof.
  cbv zeta. split.
  - intros p [<-|[<-|[<-|[]]]]; split; reflexivity.
  - split; [simpl; repeat split; reflexivity|]. split; [simpl; repeat split; discriminate|]. vm_compute. reflexivity.
Qed.

(* the fuse melts exactly when there is a current (not NaN) and it reaches the start value (in A) *)
Theorem C29_fuse_trip_iff : forall i_start i_stop cv (i : F),
  tripped (fuse i_start i_stop cv i) = true <-> exists x, i = Some x /\ i_start <= x * 1000.
Proof. exact fuse_trip_iff_full. Qed.
Print Assumptions C29_fuse_trip_iff.

(* before "fix: a fuse does not melt on a NaN switch current": a NaN current melted the fuse with time 0 (regression witness) *)
Theorem C29_fuse_trip_iff_old_refuted :
  exists i_start i_stop cv (i : F), tripped (fuse_old i_start i_stop cv i) = true /\
    ~ (exists x, i = Some x /\ i_start <= x * 1000).
Proof. exact fuse_trip_iff_old_refuted. Qed.
Print Assumptions C29_fuse_trip_iff_old_refuted.

(* DTOC, consistent grading (t>> <= t>, or the I>> stage not above the I> stage): trip time non-increasing in the current *)
Theorem C29_dtoc_antitone : forall s i1 i2,
  (t_gg s <= t_g s \/ I_gg s <= I_g s) -> i1 <= i2 ->
  tle (ttime (dtoc s (Some i2))) (ttime (dtoc s (Some i1))).
Proof. exact dtoc_antitone. Qed.
Print Assumptions C29_dtoc_antitone.

Theorem C29_dtoc_ungraded_refuted :
  exists s i1 i2, i1 <= i2 /\ ~ tle (ttime (dtoc s (Some i2))) (ttime (dtoc s (Some i1))).
Proof. exact dtoc_ungraded_refuted. Qed.
Print Assumptions C29_dtoc_ungraded_refuted.

Theorem C29_dtoc_trip_iff : forall s i, I_g s <= I_gg s -> (tripped (dtoc s (Some i)) = true <-> I_g s < i).
Proof. exact dtoc_trip_iff. Qed.
Print Assumptions C29_dtoc_trip_iff.

(* IDMT and IDTOC, for every power oracle pw (= (i/I_s)^alpha) that exceeds 1 above I_s and is non-decreasing there *)
Theorem C29_idmt_antitone : forall s (pw : Q -> Q),
  (forall i, I_s s < i -> 1 < pw i) ->
  (forall i1 i2, I_s s < i1 -> i1 <= i2 -> pw i1 <= pw i2) ->
  0 <= tms s * kk s ->
  forall i1 i2, i1 <= i2 -> tle (ttime (idmt s (pw i2) (Some i2))) (ttime (idmt s (pw i1) (Some i1))).
Proof. exact idmt_antitone. Qed.
Print Assumptions C29_idmt_antitone.

Theorem C29_idtoc_antitone : forall s (pw : Q -> Q),
  (forall i, I_s s < i -> 1 < pw i) ->
  (forall i1 i2, I_s s < i1 -> i1 <= i2 -> pw i1 <= pw i2) ->
  0 <= tms s * kk s ->
  forall d, I_s s <= I_g d -> I_g d <= I_gg d -> t_gg d <= t_g d ->
  (I_s s < I_g d -> tle (TFin (t_g d)) (idmt_time s (pw (I_g d)))) ->
  forall i1 i2, i1 <= i2 -> tle (ttime (idtoc d s (pw i2) (Some i2))) (ttime (idtoc d s (pw i1) (Some i1))).
Proof. exact idtoc_antitone. Qed.
Print Assumptions C29_idtoc_antitone.

Theorem C29_idmt_trip_iff : forall s p i, tripped (idmt s p (Some i)) = true <-> I_s s < i.
Proof. exact idmt_trip_iff. Qed.
Print Assumptions C29_idmt_trip_iff.

Theorem C29_idtoc_trip_iff : forall s d, I_s s <= I_g d -> I_g d <= I_gg d ->
  forall p i, tripped (idtoc d s p (Some i)) = true <-> I_s s < i.
Proof. intros s d g1 g2. exact (idtoc_trip_iff s d g1 g2). Qed.
Print Assumptions C29_idtoc_trip_iff.

(* the reported activation value is the switch current of the chosen result table *)
Theorem C29_activation_value_is_switch_current : forall s a b v,
  select s a b = Some v -> (s = Sc /\ v = a) \/ (s = Pp /\ v = b).
Proof. exact activation_value. Qed.
Print Assumptions C29_activation_value_is_switch_current.

(* ---- where the relay gets its settings from (C29/Grading.v: time_grading + the reads of create_protection_function) ----
   DataFrame form (DTOC columns switch_id,t_gg,t_g / IDMT columns switch_id,tms,t_grade), the code as it is (after "fix: OCRelay reads
   its time settings and manual pick-up currents by the switch_id column"): for EVERY frame with unique switch ids — any row order,
   any row labels — the relay of switch s holds the user's values of the row with switch_id = s *)
Theorem C29_frame_times_are_users : forall g c rows r, c = ColsDtoc \/ c = ColsIdmt -> NoDup (map sid rows) -> In r rows ->
  relay_times DTOC g (TFrame c rows) (sid r) = Ok {| r_tg := Some (c2 r); r_tgg := Some (c1 r); r_tms := None; r_tgrade := None |} /\
  relay_times IDMT g (TFrame c rows) (sid r) = Ok {| r_tg := None; r_tgg := None; r_tms := Some (c1 r); r_tgrade := Some (c2 r) |}.
Proof. exact frame_times_users. Qed.
Print Assumptions C29_frame_times_are_users.
Example C29_frame_nonvacuous :
  let rows := [{| lbl := 7; sid := 1; c1 := 5 # 100; c2 := 4 # 5 |}; {| lbl := 3; sid := 0; c1 := 7 # 100; c2 := 1 # 2 |}] in
  NoDup (map sid rows) /\
  relay_times DTOC {| paths := []; par := []; lines := []; closed := [] |} (TFrame ColsDtoc rows) 1 =
    Ok {| r_tg := Some (4 # 5); r_tgg := Some (5 # 100); r_tms := None; r_tgrade := None |}.
Proof.
  simpl. split; [|reflexivity].
  constructor; [intros [H|[]]; discriminate|]. constructor; [intros []|constructor].
Qed.
(* regression witnesses: before the repair the rows were read by ROW LABEL — correct only if every row was labelled with its
   switch id, and wrong otherwise *)
Theorem C29_frame_times_are_users_old_partial : forall g c rows r, c = ColsDtoc \/ c = ColsIdmt ->
  G29_frame_labels rows = true -> NoDup (map sid rows) -> In r rows ->
  relay_times_old DTOC g (TFrame c rows) (sid r) = Ok {| r_tg := Some (c2 r); r_tgg := Some (c1 r); r_tms := None; r_tgrade := None |} /\
  relay_times_old IDMT g (TFrame c rows) (sid r) = Ok {| r_tg := None; r_tgg := None; r_tms := Some (c1 r); r_tgrade := Some (c2 r) |}.
Proof. exact frame_times_old_partial. Qed.
Print Assumptions C29_frame_times_are_users_old_partial.
Theorem C29_frame_times_are_users_old_refuted : exists g c rows r, (c = ColsDtoc \/ c = ColsIdmt) /\ NoDup (map sid rows) /\ In r rows /\
  relay_times_old DTOC g (TFrame c rows) (sid r) <> Ok {| r_tg := Some (c2 r); r_tgg := Some (c1 r); r_tms := None; r_tgrade := None |}.
Proof. exact frame_times_old_refuted. Qed.
Print Assumptions C29_frame_times_are_users_old_refuted.

(* list form (topological grading), the code as it is: in every net with a unique switch index — open switches, gapped or shuffled
   switch ids included — the relay of a closed switch s holds the user's t>> and the stage time t> + depth * t_diff of ITS OWN line *)
Theorem C29_list_stage_time_is_own : forall g a b c s el v,
  NoDup (map fst (closed g)) -> In (s, el) (closed g) -> get (line_time g b c) el = Some v ->
  forall tab, grading_list g [a; b; c] = Ok tab ->
  relay_times DTOC g (TList [a; b; c]) s = Ok {| r_tg := Some v; r_tgg := Some a; r_tms := None; r_tgrade := None |}.
Proof. exact list_stage_users. Qed.
Print Assumptions C29_list_stage_time_is_own.
Example C29_list_nonvacuous :
  let g := {| paths := [[0%Z]; [0%Z; 1%Z]]; par := []; lines := [0%Z; 1%Z]; closed := [(7%Z, 1%Z); (2%Z, 0%Z)] |} in
  NoDup (map fst (closed g)) /\ get (line_time g (1 # 2) (1 # 4)) 0%Z = Some (3 # 4) /\
  relay_times DTOC g (TList [1 # 16; 1 # 2; 1 # 4]) 2 = Ok {| r_tg := Some (3 # 4); r_tgg := Some (1 # 16); r_tms := None; r_tgrade := None |} /\
  relay_times DTOC g (TList [1 # 16; 1 # 2; 1 # 4]) 7 = Ok {| r_tg := Some (1 # 2); r_tgg := Some (1 # 16); r_tms := None; r_tgrade := None |}.
Proof.
  cbv zeta. split; [simpl; constructor; [intros [H|[]]; discriminate|]; constructor; [intros []|constructor]|].
  repeat split; vm_compute; reflexivity.
Qed.
(* whenever the relay can be constructed its t>> (DTOC) / tms (IDMT) IS the user's value *)
Theorem C29_list_tgg_is_users : forall g a b c s rt, relay_times DTOC g (TList [a; b; c]) s = Ok rt -> r_tgg rt = Some a.
Proof. exact list_tgg_is_users. Qed.
Print Assumptions C29_list_tgg_is_users.
Theorem C29_list_tms_is_users : forall g a b s rt, relay_times IDMT g (TList [a; b]) s = Ok rt -> r_tms rt = Some a.
Proof. exact list_tms_is_users. Qed.
Print Assumptions C29_list_tms_is_users.
(* regression witnesses: before the repair the relay read the table row at POSITION s (sorted by switch id): its own row only when
   the closed switches were 0 .. n-1, another switch's stage time or a KeyError otherwise *)
Theorem C29_list_old_reads_row_at_position : forall g a b c s tab, grading_list g [a; b; c] = Ok tab -> (0 <= s)%Z ->
  exists l, tab = relabel 0 l /\
    relay_times_old DTOC g (TList [a; b; c]) s =
    match nth_error l (Z.to_nat s) with
    | Some (_, tg, tgg) => Ok {| r_tg := Some tg; r_tgg := Some tgg; r_tms := None; r_tgrade := None |}
    | None => Raise "KeyError"%string
    end.
Proof. exact list_old_reads_position. Qed.
Print Assumptions C29_list_old_reads_row_at_position.
Theorem C29_list_stage_time_is_own_old_partial : forall g a b c s el v,
  G29_list_positions g = true -> In (s, el) (closed g) -> get (line_time g b c) el = Some v ->
  forall tab, grading_list g [a; b; c] = Ok tab ->
  relay_times_old DTOC g (TList [a; b; c]) s = Ok {| r_tg := Some v; r_tgg := Some a; r_tms := None; r_tgrade := None |}.
Proof. exact list_stage_old_partial. Qed.
Print Assumptions C29_list_stage_time_is_own_old_partial.
Theorem C29_list_stage_time_is_own_old_refuted : exists g a b c s el v rt, NoDup (map fst (closed g)) /\ In (s, el) (closed g) /\
  get (line_time g b c) el = Some v /\ relay_times_old DTOC g (TList [a; b; c]) s = Ok rt /\ r_tg rt <> Some v.
Proof. exact list_old_position_refuted. Qed.
Print Assumptions C29_list_stage_time_is_own_old_refuted.

(* manual pick-up currents, the code as it is: the relay of switch s holds the user's row with switch_id = s (any order) *)
Theorem C29_pickup_is_users : forall rows r, NoDup (map k_sid rows) -> In r rows -> pickup_by_sid rows (k_sid r) = Ok r.
Proof. exact pickup_users. Qed.
Print Assumptions C29_pickup_is_users.
Theorem C29_pickup_is_users_sound : forall rows r s, pickup_by_sid rows s = Ok r -> In r rows /\ k_sid r = s.
Proof. exact pickup_sound. Qed.
Print Assumptions C29_pickup_is_users_sound.
(* before the repair they were read by row POSITION *)
Theorem C29_pickup_is_users_old_partial : forall rows r s, G29_positions (map k_sid rows) = true -> pickup_iloc rows s = Ok r -> k_sid r = s.
Proof. exact pickup_old_partial. Qed.
Print Assumptions C29_pickup_is_users_old_partial.
Theorem C29_pickup_is_users_old_refuted : exists rows r s, pickup_iloc rows s = Ok r /\ k_sid r <> s.
Proof. exact pickup_old_refuted. Qed.
Print Assumptions C29_pickup_is_users_old_refuted.

Close Scope Q_scope.
Open Scope R_scope.

(* over the reals the true power function satisfies the two oracle hypotheses, and the IDMT curve
   tms*k / ((i/I_s)^alpha - 1) + t_grade is antitone in the current above the pick-up value *)
Theorem C29_power_oracle_hypotheses : forall Is alpha, 0 < Is -> 0 < alpha ->
  (forall i, Is < i -> 1 < pw Is alpha i) /\
  (forall i1 i2, Is < i1 -> i1 <= i2 -> pw Is alpha i1 <= pw Is alpha i2).
Proof. intros Is alpha H1 H2. split; [intros i; apply pw_gt1 | intros i1 i2; apply pw_mono]; assumption. Qed.
Print Assumptions C29_power_oracle_hypotheses.

Theorem C29_idmt_curve_antitone : forall Is alpha c tg i1 i2,
  0 < Is -> 0 < alpha -> 0 <= c -> Is < i1 -> i1 <= i2 ->
  idmt_curve Is alpha c tg i2 <= idmt_curve Is alpha c tg i1.
Proof. exact idmt_antitone_R. Qed.
Print Assumptions C29_idmt_curve_antitone.
