(* C29 — property theorems (statements only; proofs in C29/Proofs.v, C29/IdmtReal.v) *)
From Coq Require Import ZArith QArith List Bool Reals.
From PPV Require Import Base.QN C29.Model C29.Proofs C29.IdmtReal.
Import ListNotations.

Open Scope Q_scope.

(* Fuse: for every melting curve c that is non-increasing and non-negative on [i_start, i_stop] (monotone characteristic
   data + shape-preserving interpolation: hypothesis, validated at run time), the reported melt time is non-increasing in the
   switch current over the whole axis (inf below i_start, c inside, 0 above i_stop) *)
Theorem C29_fuse_time_antitone : forall i_start i_stop (c : Q -> Q),
  (forall a b, i_start <= a -> a <= b -> b <= i_stop -> c b <= c a) ->
  (forall a, i_start <= a -> a <= i_stop -> 0 <= c a) ->
  forall i1 i2, i1 <= i2 ->
  tle (ttime (fuse_at i_start i_stop c i2)) (ttime (fuse_at i_start i_stop c i1)).
Proof. exact fuse_antitone. Qed.
Print Assumptions C29_fuse_time_antitone.

(* the fuse melts exactly when there is a current (not NaN) and it reaches the start value (in A) *)
Theorem C29_fuse_trip_iff : forall i_start i_stop cv (i : F),
  tripped (fuse i_start i_stop cv i) = true <-> exists x, i = Some x /\ i_start <= x * 1000.
Proof. exact fuse_trip_iff_full. Qed.
Print Assumptions C29_fuse_trip_iff.

(* before "fix: a fuse does not melt on a NaN switch current": a NaN current melted the fuse with time 0 (regression witness) *)
Theorem C29_fuse_trip_iff_old_refuted :
  exists i_start i_stop cv (i : F), tripped (fuse_old i_start i_stop cv i) = true /\
    ~ (exists x, i = Some x /\ i_start <= x * 1000).
Proof. exact fuse_trip_iff_old_refuted. Qed.
Print Assumptions C29_fuse_trip_iff_old_refuted.

(* DTOC, consistent grading (t>> <= t>, or the I>> stage not above the I> stage): trip time non-increasing in the current *)
Theorem C29_dtoc_antitone : forall s i1 i2,
  (t_gg s <= t_g s \/ I_gg s <= I_g s) -> i1 <= i2 ->
  tle (ttime (dtoc s (Some i2))) (ttime (dtoc s (Some i1))).
Proof. exact dtoc_antitone. Qed.
Print Assumptions C29_dtoc_antitone.

Theorem C29_dtoc_ungraded_refuted :
  exists s i1 i2, i1 <= i2 /\ ~ tle (ttime (dtoc s (Some i2))) (ttime (dtoc s (Some i1))).
Proof. exact dtoc_ungraded_refuted. Qed.
Print Assumptions C29_dtoc_ungraded_refuted.

Theorem C29_dtoc_trip_iff : forall s i, I_g s <= I_gg s -> (tripped (dtoc s (Some i)) = true <-> I_g s < i).
Proof. exact dtoc_trip_iff. Qed.
Print Assumptions C29_dtoc_trip_iff.

(* IDMT and IDTOC, for every power oracle pw (= (i/I_s)^alpha) that exceeds 1 above I_s and is non-decreasing there *)
Theorem C29_idmt_antitone : forall s (pw : Q -> Q),
  (forall i, I_s s < i -> 1 < pw i) ->
  (forall i1 i2, I_s s < i1 -> i1 <= i2 -> pw i1 <= pw i2) ->
  0 <= tms s * kk s ->
  forall i1 i2, i1 <= i2 -> tle (ttime (idmt s (pw i2) (Some i2))) (ttime (idmt s (pw i1) (Some i1))).
Proof. exact idmt_antitone. Qed.
Print Assumptions C29_idmt_antitone.

Theorem C29_idtoc_antitone : forall s (pw : Q -> Q),
  (forall i, I_s s < i -> 1 < pw i) ->
  (forall i1 i2, I_s s < i1 -> i1 <= i2 -> pw i1 <= pw i2) ->
  0 <= tms s * kk s ->
  forall d, I_s s <= I_g d -> I_g d <= I_gg d -> t_gg d <= t_g d ->
  (I_s s < I_g d -> tle (TFin (t_g d)) (idmt_time s (pw (I_g d)))) ->
  forall i1 i2, i1 <= i2 -> tle (ttime (idtoc d s (pw i2) (Some i2))) (ttime (idtoc d s (pw i1) (Some i1))).
Proof. exact idtoc_antitone. Qed.
Print Assumptions C29_idtoc_antitone.

Theorem C29_idmt_trip_iff : forall s p i, tripped (idmt s p (Some i)) = true <-> I_s s < i.
Proof. exact idmt_trip_iff. Qed.
Print Assumptions C29_idmt_trip_iff.

Theorem C29_idtoc_trip_iff : forall s d, I_s s <= I_g d -> I_g d <= I_gg d ->
  forall p i, tripped (idtoc d s p (Some i)) = true <-> I_s s < i.
Proof. intros s d g1 g2. exact (idtoc_trip_iff s d g1 g2). Qed.
Print Assumptions C29_idtoc_trip_iff.

(* the reported activation value is the switch current of the chosen result table *)
Theorem C29_activation_value_is_switch_current : forall s a b v,
  select s a b = Some v -> (s = Sc /\ v = a) \/ (s = Pp /\ v = b).
Proof. exact activation_value. Qed.
Print Assumptions C29_activation_value_is_switch_current.

Close Scope Q_scope.
Open Scope R_scope.

(* over the reals the true power function satisfies the two oracle hypotheses, and the IDMT curve
   tms*k / ((i/I_s)^alpha - 1) + t_grade is antitone in the current above the pick-up value *)
Theorem C29_power_oracle_hypotheses : forall Is alpha, 0 < Is -> 0 < alpha ->
  (forall i, Is < i -> 1 < pw Is alpha i) /\
  (forall i1 i2, Is < i1 -> i1 <= i2 -> pw Is alpha i1 <= pw Is alpha i2).
Proof. intros Is alpha H1 H2. split; [intros i; apply pw_gt1 | intros i1 i2; apply pw_mono]; assumption. Qed.
Print Assumptions C29_power_oracle_hypotheses.

Theorem C29_idmt_curve_antitone : forall Is alpha c tg i1 i2,
  0 < Is -> 0 < alpha -> 0 <= c -> Is < i1 -> i1 <= i2 ->
  idmt_curve Is alpha c tg i2 <= idmt_curve Is alpha c tg i1.
Proof. exact idmt_antitone_R. Qed.
Print Assumptions C29_idmt_curve_antitone.
