(* C16 — property theorems (statements only; proofs are in C16/Proofs.v) *)
From Coq Require Import ZArith QArith List Bool.
From PPV Require Import Base.QN C16.Model C16.Proofs.
Import ListNotations.
Open Scope Q_scope.

(* for every element kind that is an OPF variable (gen, ext_grid, controllable sgen / load / storage) the ppc box
   [PMIN, PMAX], read back through the sign with which results are written (res p = rsign * PG), is exactly the
   declared interval [min_p_mw, max_p_mw] widened by delta *)
Theorem C16_box_roundtrip_p : forall k e delta plim x mn mx,
  e_min_p e = Some mn -> e_max_p e = Some mx -> fixed_gen k e = false ->
  (PMIN (gen_row k e delta plim) <= x /\ x <= PMAX (gen_row k e delta plim))
  <-> (mn - delta <= rsign k * x /\ rsign k * x <= mx + delta).
Proof. exact box_roundtrip_p. Qed.
Print Assumptions C16_box_roundtrip_p.

Theorem C16_box_roundtrip_q : forall k e delta plim x mn mx,
  e_min_q e = Some mn -> e_max_q e = Some mx ->
  (QMIN (gen_row k e delta plim) <= x /\ x <= QMAX (gen_row k e delta plim))
  <-> (mn - delta <= rsign k * x /\ rsign k * x <= mx + delta).
Proof. exact box_roundtrip_q. Qed.
Print Assumptions C16_box_roundtrip_q.

Theorem C16_box_default_p : forall k e delta plim x,
  e_min_p e = None -> e_max_p e = None -> fixed_gen k e = false ->
  (PMIN (gen_row k e delta plim) <= x /\ x <= PMAX (gen_row k e delta plim))
  <-> (- plim <= rsign k * x /\ rsign k * x <= plim).
Proof. exact box_default_p. Qed.
Print Assumptions C16_box_default_p.

(* the OPF start value of gen / controllable sgen / load / storage is the scaled setpoint *)
Theorem C16_start_is_scaled_setpoint : forall k e delta plim,
  k <> KExt -> rsign k * PG (gen_row k e delta plim) == e_p e * e_scaling e.
Proof. exact start_is_scaled_setpoint. Qed.
Print Assumptions C16_start_is_scaled_setpoint.

(* a non-controllable generator is pinned (within delta) to its setpoint p_mw * scaling *)
Theorem C16_fixed_gen_pinned : forall e delta plim x,
  e_ctrl e = Some false ->
  PMIN (gen_row KGen e delta plim) <= x /\ x <= PMAX (gen_row KGen e delta plim) ->
  e_p e * e_scaling e - delta <= x /\ x <= e_p e * e_scaling e + delta.
Proof. exact fixed_gen_pinned. Qed.
Print Assumptions C16_fixed_gen_pinned.

(* regression: the box before the repair (around the unscaled p_mw) pins the setpoint only under G16gen_old *)
Theorem C16_fixed_gen_old_refuted :
  exists e delta x, e_ctrl e = Some false /\ 0 <= delta /\
    (fst (fixed_box_old e delta) <= x /\ x <= snd (fixed_box_old e delta)) /\
    ~ (e_p e * e_scaling e - delta <= x /\ x <= e_p e * e_scaling e + delta).
Proof. exact fixed_gen_old_refuted. Qed.
Print Assumptions C16_fixed_gen_old_refuted.
Theorem C16_fixed_gen_old_partial : forall e delta x,
  G16gen_old e = true -> e_ctrl e = Some false ->
  fst (fixed_box_old e delta) <= x /\ x <= snd (fixed_box_old e delta) ->
  e_p e * e_scaling e - delta <= x /\ x <= e_p e * e_scaling e + delta.
Proof. exact fixed_gen_old_partial. Qed.
Print Assumptions C16_fixed_gen_old_partial.

(* dcline: the generator pair of the power-flow model (_add_dcline_gens) satisfies the linear constraint the OPF
   adds (_add_dcline_constraints) — for every dcline, any loss_percent / loss_mw, both flow directions *)
Theorem C16_dcline_opf_eq_pf : forall d,
  opf_lhs d (g_to (pf_dcline d)) (g_from (pf_dcline d)) == opf_rhs d.
Proof. exact dcline_opf_eq_pf. Qed.
Print Assumptions C16_dcline_opf_eq_pf.

(* and the OPF constraint determines the receiving-end power from the sending-end power: an OPF result is a valid
   power-flow operating point of the dcline *)
Theorem C16_dcline_opf_determines_receiving : forall d pg_to pg_from,
  opf_lhs d pg_to pg_from == opf_rhs d ->
  (0 < d_p d -> pg_from == g_from (pf_dcline d) -> pg_to == g_to (pf_dcline d)) /\
  (d_p d <= 0 -> pg_to == g_to (pf_dcline d) -> pg_from == g_from (pf_dcline d)).
Proof. exact dcline_opf_determines_receiving. Qed.
Print Assumptions C16_dcline_opf_determines_receiving.

(* regression: the constraint before the repair ((1 + l) Pg_to + Pg_from = -loss_mw) *)
Theorem C16_dcline_old_refuted :
  exists d, d_in d = true /\ 0 < d_p d /\
    ~ opf_lhs_old d (g_to (pf_dcline d)) (g_from (pf_dcline d)) == opf_rhs d.
Proof. exact dcline_old_refuted. Qed.
Print Assumptions C16_dcline_old_refuted.
Theorem C16_dcline_old_partial : forall d, G16dc_old d = true -> 0 < d_p d ->
  opf_lhs_old d (g_to (pf_dcline d)) (g_from (pf_dcline d)) == opf_rhs d.
Proof. exact dcline_old_partial. Qed.
Print Assumptions C16_dcline_old_partial.
Theorem C16_dcline_old_deviation : forall d, 0 < d_p d ->
  opf_lhs_old d (g_to (pf_dcline d)) (g_from (pf_dcline d)) - opf_rhs d
  == - (d_loss_pct d / 100) * (d_p d * (d_loss_pct d / 100) + d_loss_mw d).
Proof. exact dcline_old_deviation. Qed.
Print Assumptions C16_dcline_old_deviation.

(* constraint matrix: one row per in-service dcline, stating that dcline's own constraint (any in/out-of-service mix) *)
Theorem C16_dcline_rows_spec : forall ds,
  exists rows, dcline_rows ds = Some rows /\ List.length rows = List.length (filter d_in ds) /\
    forall k d, nth_error (filter d_in ds) k = Some d ->
      exists r, nth_error rows k = Some r /\
        forall pg_to pg_from, fst (fst r) * pg_to + snd (fst r) * pg_from == opf_lhs d pg_to pg_from /\ snd r == opf_rhs d.
Proof. exact dcline_rows_spec. Qed.
Print Assumptions C16_dcline_rows_spec.

(* regression: before the repair a mixture of in-service and out-of-service dclines could not be set up *)
Theorem C16_dcline_rows_old_mixed : forall ds,
  existsb d_in ds = true -> forallb d_in ds = false -> dcline_rows_old ds = None.
Proof. exact dcline_rows_old_mixed. Qed.
Print Assumptions C16_dcline_rows_old_mixed.

(* branch limit: the current limit the OPF enforces (|I| * baseMVA <= RATE_A) is the declared max_loading_percent
   on the loading the result table reports; s3 stands for sqrt 3 (any positive value cancels) *)
Theorem C16_rate_a_is_loading_limit : forall max_load max_i_ka df par vn s3 i_ka,
  0 < max_i_ka * df * par -> 0 < vn -> 0 < s3 ->
  (i_ka * vn * s3 <= rate_a max_load max_i_ka df par vn s3
   <-> i_ka / (max_i_ka * df * par) * 100 <= max_load).
Proof. exact rate_a_loading. Qed.
Print Assumptions C16_rate_a_is_loading_limit.

(* transformer limit: apparent power within RATE_A <-> reported loading within max_loading_percent *)
Theorem C16_rate_a_trafo_is_loading_limit : forall max_load sn df par s,
  0 < sn * df * par ->
  (s <= rate_a_trafo max_load sn df par <-> s / (sn * df * par) * 100 <= max_load).
Proof. exact rate_a_trafo_loading. Qed.
Print Assumptions C16_rate_a_trafo_is_loading_limit.

(* bus voltage limits: untouched buses keep the bus table limits, the last fixed-voltage element pins vm +- delta *)
Theorem C16_vm_untouched : forall lims ws delta b,
  (forall w, In w ws -> fst w <> b) -> nth_error (vm_writes lims ws delta) b = nth_error lims b.
Proof. exact vm_writes_untouched. Qed.
Print Assumptions C16_vm_untouched.

Theorem C16_vm_pinned : forall lims ws delta b v ws',
  (b < List.length lims)%nat -> (forall w, In w ws' -> fst w <> b) ->
  nth_error (vm_writes lims (ws ++ (b, v) :: ws') delta) b = Some (qsub v delta, qadd v delta).
Proof. exact vm_writes_last. Qed.
Print Assumptions C16_vm_pinned.

Example C16_nonvacuous :
  G16gen_old {| e_p := 1; e_q := 0; e_scaling := 1; e_min_p := None; e_max_p := None; e_min_q := None; e_max_q := None;
                e_ctrl := Some false |} = true
  /\ G16dc_old {| d_p := 1; d_loss_pct := 0; d_loss_mw := 1 # 16; d_max_p := 2; d_in := true |} = true
  /\ fixed_gen KLoad {| e_p := 1; e_q := 0; e_scaling := 1; e_min_p := Some 0; e_max_p := Some 2; e_min_q := None;
                        e_max_q := None; e_ctrl := None |} = false.
Proof. repeat split. Qed.
