(* C16 — property theorems (statements only; proofs are in C16/Proofs.v) *)
From Coq Require Import ZArith QArith Qabs List Bool.
From PPV Require Import Base.QN Base.QC C16.Model C16.Proofs C16.Balance C16.VmLimits.
Import ListNotations.
Open Scope Q_scope.

(* for every element kind that is an OPF variable (gen, ext_grid, controllable sgen / load / storage) the ppc box
   [PMIN, PMAX], read back through the sign with which results are written (res p = rsign * PG), is exactly the
   declared interval [min_p_mw, max_p_mw] widened by delta *)
Theorem C16_box_roundtrip_p : forall k e delta plim x mn mx,
  e_min_p e = Some mn -> e_max_p e = Some mx -> fixed_gen k e = false ->
  (PMIN (gen_row k e delta plim) <= x /\ x <= PMAX (gen_row k e delta plim))
  <-> (mn - delta <= rsign k * x /\ rsign k * x <= mx + delta).
Proof. exact box_roundtrip_p. Qed.
Print Assumptions C16_box_roundtrip_p.

Theorem C16_box_roundtrip_q : forall k e delta plim x mn mx,
  e_min_q e = Some mn -> e_max_q e = Some mx ->
  (QMIN (gen_row k e delta plim) <= x /\ x <= QMAX (gen_row k e delta plim))
  <-> (mn - delta <= rsign k * x /\ rsign k * x <= mx + delta).
Proof. exact box_roundtrip_q. Qed.
Print Assumptions C16_box_roundtrip_q.

Theorem C16_box_default_p : forall k e delta plim x,
  e_min_p e = None -> e_max_p e = None -> fixed_gen k e = false ->
  (PMIN (gen_row k e delta plim) <= x /\ x <= PMAX (gen_row k e delta plim))
  <-> (- plim <= rsign k * x /\ rsign k * x <= plim).
Proof. exact box_default_p. Qed.
Print Assumptions C16_box_default_p.

(* the OPF start value of gen / controllable sgen / load / storage is the scaled setpoint *)
Theorem C16_start_is_scaled_setpoint : forall k e delta plim,
  k <> KExt -> rsign k * PG (gen_row k e delta plim) == e_p e * e_scaling e.
Proof. exact start_is_scaled_setpoint. Qed.
Print Assumptions C16_start_is_scaled_setpoint.

(* a non-controllable generator is pinned (within delta) to its setpoint p_mw * scaling *)
Theorem C16_fixed_gen_pinned : forall e delta plim x,
  e_ctrl e = Some false ->
  PMIN (gen_row KGen e delta plim) <= x /\ x <= PMAX (gen_row KGen e delta plim) ->
  e_p e * e_scaling e - delta <= x /\ x <= e_p e * e_scaling e + delta.
Proof. exact fixed_gen_pinned. Qed.
Print Assumptions C16_fixed_gen_pinned.

(* regression: the box before the repair (around the unscaled p_mw) pins the setpoint only under G16gen_old *)
Theorem C16_fixed_gen_old_refuted :
  exists e delta x, e_ctrl e = Some false /\ 0 <= delta /\
    (fst (fixed_box_old e delta) <= x /\ x <= snd (fixed_box_old e delta)) /\
    ~ (e_p e * e_scaling e - delta <= x /\ x <= e_p e * e_scaling e + delta).
Proof. exact fixed_gen_old_refuted. Qed.
Print Assumptions C16_fixed_gen_old_refuted.
Theorem C16_fixed_gen_old_partial : forall e delta x,
  G16gen_old e = true -> e_ctrl e = Some false ->
  fst (fixed_box_old e delta) <= x /\ x <= snd (fixed_box_old e delta) ->
  e_p e * e_scaling e - delta <= x /\ x <= e_p e * e_scaling e + delta.
Proof. exact fixed_gen_old_partial. Qed.
Print Assumptions C16_fixed_gen_old_partial.

(* dcline: the generator pair of the power-flow model (_add_dcline_gens) satisfies the linear constraint the OPF
   adds (_add_dcline_constraints) — for every dcline, any loss_percent / loss_mw, both flow directions *)
Theorem C16_dcline_opf_eq_pf : forall d,
  opf_lhs d (g_to (pf_dcline d)) (g_from (pf_dcline d)) == opf_rhs d.
Proof. exact dcline_opf_eq_pf. Qed.
Print Assumptions C16_dcline_opf_eq_pf.

(* and the OPF constraint determines the receiving-end power from the sending-end power: an OPF result is a valid
   power-flow operating point of the dcline *)
Theorem C16_dcline_opf_determines_receiving : forall d pg_to pg_from,
  opf_lhs d pg_to pg_from == opf_rhs d ->
  (0 < d_p d -> pg_from == g_from (pf_dcline d) -> pg_to == g_to (pf_dcline d)) /\
  (d_p d <= 0 -> pg_to == g_to (pf_dcline d) -> pg_from == g_from (pf_dcline d)).
Proof. exact dcline_opf_determines_receiving. Qed.
Print Assumptions C16_dcline_opf_determines_receiving.

(* regression: the constraint before the repair ((1 + l) Pg_to + Pg_from = -loss_mw) *)
Theorem C16_dcline_old_refuted :
  exists d, d_in d = true /\ 0 < d_p d /\
    ~ opf_lhs_old d (g_to (pf_dcline d)) (g_from (pf_dcline d)) == opf_rhs d.
Proof. exact dcline_old_refuted. Qed.
Print Assumptions C16_dcline_old_refuted.
Theorem C16_dcline_old_partial : forall d, G16dc_old d = true -> 0 < d_p d ->
  opf_lhs_old d (g_to (pf_dcline d)) (g_from (pf_dcline d)) == opf_rhs d.
Proof. exact dcline_old_partial. Qed.
Print Assumptions C16_dcline_old_partial.
Theorem C16_dcline_old_deviation : forall d, 0 < d_p d ->
  opf_lhs_old d (g_to (pf_dcline d)) (g_from (pf_dcline d)) - opf_rhs d
  == - (d_loss_pct d / 100) * (d_p d * (d_loss_pct d / 100) + d_loss_mw d).
Proof. exact dcline_old_deviation. Qed.
Print Assumptions C16_dcline_old_deviation.

(* constraint matrix: one row per in-service dcline, stating that dcline's own constraint (any in/out-of-service mix) *)
Theorem C16_dcline_rows_spec : forall ds,
  exists rows, dcline_rows ds = Some rows /\ List.length rows = List.length (filter d_in ds) /\
    forall k d, nth_error (filter d_in ds) k = Some d ->
      exists r, nth_error rows k = Some r /\
        forall pg_to pg_from, fst (fst r) * pg_to + snd (fst r) * pg_from == opf_lhs d pg_to pg_from /\ snd r == opf_rhs d.
Proof. exact dcline_rows_spec. Qed.
Print Assumptions C16_dcline_rows_spec.

(* regression: before the repair a mixture of in-service and out-of-service dclines could not be set up *)
Theorem C16_dcline_rows_old_mixed : forall ds,
  existsb d_in ds = true -> forallb d_in ds = false -> dcline_rows_old ds = None.
Proof. exact dcline_rows_old_mixed. Qed.
Print Assumptions C16_dcline_rows_old_mixed.

(* branch limit: the current limit the OPF enforces (|I| * baseMVA <= RATE_A) is the declared max_loading_percent
   on the loading the result table reports; s3 stands for sqrt 3 (any positive value cancels) *)
Theorem C16_rate_a_is_loading_limit : forall max_load max_i_ka df par vn s3 i_ka,
  0 < max_i_ka * df * par -> 0 < vn -> 0 < s3 ->
  (i_ka * vn * s3 <= rate_a max_load max_i_ka df par vn s3
   <-> i_ka / (max_i_ka * df * par) * 100 <= max_load).
Proof. exact rate_a_loading. Qed.
Print Assumptions C16_rate_a_is_loading_limit.

(* transformer limit: apparent power within RATE_A <-> reported loading within max_loading_percent *)
Theorem C16_rate_a_trafo_is_loading_limit : forall max_load sn df par s,
  0 < sn * df * par ->
  (s <= rate_a_trafo max_load sn df par <-> s / (sn * df * par) * 100 <= max_load).
Proof. exact rate_a_trafo_loading. Qed.
Print Assumptions C16_rate_a_trafo_is_loading_limit.

(* bus voltage limits: untouched buses keep the bus table limits, the last fixed-voltage element pins vm +- delta *)
Theorem C16_vm_untouched : forall lims ws delta b,
  (forall w, In w ws -> fst w <> b) -> nth_error (vm_writes lims ws delta) b = nth_error lims b.
Proof. exact vm_writes_untouched. Qed.
Print Assumptions C16_vm_untouched.

Theorem C16_vm_pinned : forall lims ws delta b v ws',
  (b < List.length lims)%nat -> (forall w, In w ws' -> fst w <> b) ->
  nth_error (vm_writes lims (ws ++ (b, v) :: ws') delta) b = Some (qsub v delta, qadd v delta).
Proof. exact vm_writes_last. Qed.
Print Assumptions C16_vm_pinned.

Example C16_nonvacuous :
  G16gen_old {| e_p := 1; e_q := 0; e_scaling := 1; e_min_p := None; e_max_p := None; e_min_q := None; e_max_q := None;
                e_ctrl := Some false |} = true
  /\ G16dc_old {| d_p := 1; d_loss_pct := 0; d_loss_mw := 1 # 16; d_max_p := 2; d_in := true |} = true
  /\ fixed_gen KLoad {| e_p := 1; e_q := 0; e_scaling := 1; e_min_p := Some 0; e_max_p := Some 2; e_min_q := None;
                        e_max_q := None; e_ctrl := None |} = false.
Proof. repeat split. Qed.

(* ================================================================ "the reported results are a valid power flow"
   opf_g: the OPF's power-balance constraints [Re mis; Im mis] at every bus (opf_consfcn), pf_F: the equations of the power
   flow [Re mis[pv]; Re mis[pq]; Im mis[pq]] (newtonpf), both  V conj(Ybus V) - Sbus  with Sbus = makeSbus of the respective ppc:
   sb_opf — controllable sgens / loads / storages are generator rows with PG = rsign * p, fixed ones are bus demand;
   sb_pf  — the ppc of the power flow that takes the dispatch as setpoints: gens keep p, every sgen / load / storage is bus
   demand with its result power, the Q of gens / ext_grids and the P of ext_grids are whatever the power flow holds (l_xp, l_xq).
   If the OPF's final V satisfies every balance constraint within eps, the SAME V satisfies every equation of that power flow
   within eps: any network, any element mix, any number of elements per bus, in / out of service. *)
Theorem C16_opf_point_is_pf_point : forall base nb Y V els pv pq eps,
  (forall i, In i pv \/ In i pq -> (i < nb)%nat /\ no_ext_at els i) ->
  (forall i, In i pq -> no_vctrl_at els i) ->
  Forall (fun x => Qabs x <= eps) (opf_g nb Y V (sb_opf base els)) ->
  Forall (fun x => Qabs x <= eps) (pf_F Y V (sb_pf base els) pv pq).
Proof. exact opf_point_is_pf_point. Qed.
Print Assumptions C16_opf_point_is_pf_point.

(* hence the power flow's own convergence test (norm(F, inf) < tol) accepts the OPF's V *)
Theorem C16_opf_point_passes_pf_test : forall base nb Y V els pv pq eps tol,
  (forall i, In i pv \/ In i pq -> (i < nb)%nat /\ no_ext_at els i) ->
  (forall i, In i pq -> no_vctrl_at els i) ->
  Forall (fun x => Qabs x <= eps) (opf_g nb Y V (sb_opf base els)) -> 0 <= eps -> eps < tol ->
  pf_converged (pf_F Y V (sb_pf base els) pv pq) tol = true.
Proof. exact opf_point_passes_pf_test. Qed.
Print Assumptions C16_opf_point_passes_pf_test.

(* the Sbus of the two calculations: equal active part at every bus without an ext_grid, equal reactive part at every bus
   without a gen / ext_grid *)
Theorem C16_sbus_same_function : forall base els i,
  (no_ext_at els i -> re (sb_pf base els i) == re (sb_opf base els i)) /\
  (no_vctrl_at els i -> im (sb_pf base els i) == im (sb_opf base els i)).
Proof. exact (fun base els i => conj (sbus_re_eq base els i) (sbus_im_eq base els i)). Qed.
Print Assumptions C16_sbus_same_function.

(* what the power flow reports for the voltage-controlling elements of a bus (computed injection plus demand, pfsoln) differs
   from their OPF dispatch by exactly baseMVA times the OPF's mismatch at that bus: slack P and generator Q are reproduced
   within baseMVA * eps *)
Theorem C16_pf_reports_opf_infeed : forall base Y V els i, ~ base == 0 ->
  let reported := Cadd (Cscale base (calc_inj Y V i)) (dem_sum_pf els i) in
  Csub reported (gen_sum els i) ==c Cscale base (mis_at Y V (sb_opf base els) i).
Proof. exact pf_reports_opf_infeed. Qed.
Print Assumptions C16_pf_reports_opf_infeed.

Example C16_balance_nonvacuous :
  (forall i, In i [] \/ In i [1%nat] -> (i < 2)%nat /\ no_ext_at ex_els i) /\
  (forall i, In i [1%nat] -> no_vctrl_at ex_els i) /\
  sb_opf 1 ex_els 1 ==c mkC (-1) (- (1 # 4)) /\ sb_pf 1 ex_els 1 ==c mkC (-1) (- (1 # 4)) /\
  ~ sb_pf 1 ex_els 0 ==c sb_opf 1 ex_els 0.
Proof. exact balance_nonvacuous. Qed.

(* ================================================================ voltage limits of controllable ext_grids and of gens
   ext_grid.controllable: every fixed (in service, not controllable) ext_grid pins its bus to its OWN vm_pu, controllable and
   out-of-service ones write nothing — for any index labels *)
Theorem C16_eg_writes_own : forall egs, eg_writes egs = Some (eg_writes_spec egs).
Proof. exact eg_writes_own. Qed.
Print Assumptions C16_eg_writes_own.
(* regression: the rule before the repair (vm_pu.values[index label]) held only when the labels are the positions; otherwise
   it read the voltage of another ext_grid or raised *)
Theorem C16_eg_writes_old_partial : forall egs, G16eg_old egs = true -> eg_writes_old egs = Some (eg_writes_spec egs).
Proof. exact eg_writes_old_partial. Qed.
Print Assumptions C16_eg_writes_old_partial.
Theorem C16_eg_writes_old_refuted :
  eg_writes_old eg_swapped = Some [(0%nat, 51 # 50); (2%nat, 1)] /\ eg_writes_spec eg_swapped = [(0%nat, 1); (2%nat, 51 # 50)] /\
  eg_writes_old [ {| x_label := 3; x_bus := 0; x_vm := 1; x_on := true; x_ctrl := Some false |} ] = None.
Proof. exact eg_writes_old_refuted. Qed.
Print Assumptions C16_eg_writes_old_refuted.

(* gen.max_vm_pu: the upper limit handed to the OPF at a bus respects the bus limit and the max_vm_pu of EVERY in-service gen
   at that bus (none of them NaN), any number of gens per bus, any order *)
Theorem C16_gen_vmax_all : forall lims gens b lo0 hi0,
  nth_error lims b = Some (lo0, Some hi0) ->
  (forall g, In g gens -> fst (fst g) = b -> exists m, snd (fst g) = Some m) ->
  exists v, nth b (fold_left (gen_vmax_step lims) gens lims) (None, None) = (lo0, Some v) /\ v <= hi0 /\
    forall g m, In g gens -> fst (fst g) = b -> snd (fst g) = Some m -> v <= m.
Proof. exact gen_vmax_all. Qed.
Print Assumptions C16_gen_vmax_all.
(* regression: before the repair (plain assignment, last gen wins) this held only with one in-service gen per bus *)
Theorem C16_gen_vmax_old_partial : forall lims gens b mx mn hi0 lo0,
  G16vm_old gens = true -> In (b, Some mx, mn) gens -> nth_error lims b = Some (lo0, Some hi0) ->
  exists v, nth b (fold_left (gen_vmax_step_old lims) gens lims) (None, None) = (lo0, Some v) /\ v <= hi0 /\ v <= mx /\
            (v == hi0 \/ v == mx).
Proof. exact gen_vmax_old_partial. Qed.
Print Assumptions C16_gen_vmax_old_partial.
Theorem C16_gen_vmax_old_refuted :
  exists lims gens b mx mn, In (b, Some mx, mn) gens /\
    exists v, nth b (gen_vm_limits_old lims gens true false) (None, None) = (Some (19 # 20), Some v) /\ mx < v.
Proof. exact gen_vmax_old_refuted. Qed.
Print Assumptions C16_gen_vmax_old_refuted.
Theorem C16_gen_vmax_witness_repaired :
  nth 1%nat (gen_vm_limits [(Some (19 # 20), Some (11 # 10)); (Some (19 # 20), Some (11 # 10))]
                           [(1%nat, Some (103 # 100), None); (1%nat, Some (105 # 100), None)] true false) (None, None)
  = (Some (19 # 20), Some (103 # 100)).
Proof. exact gen_vmax_witness_repaired. Qed.
Example C16_vm_limits_nonvacuous :
  G16vm_old [(1%nat, Some (103 # 100), None); (2%nat, Some (105 # 100), None)] = true /\
  G16eg_old [ {| x_label := 0; x_bus := 0; x_vm := 1; x_on := true; x_ctrl := Some false |};
              {| x_label := 1; x_bus := 2; x_vm := 51 # 50; x_on := true; x_ctrl := Some true |} ] = true.
Proof. exact vm_limits_nonvacuous. Qed.
