(* C01 — nodal power balance: property theorems (statements only; proofs in C01/Proofs.v, C01/Balance.v).

   Reading guide.  For a ppc bus k (one bus, or several pandapower buses fused by closed bus-bus switches):
     cons_p/cons_q n k v      consumption reported in the element result tables at k (loads with their own ZIP
                              fractions at |V| = v, sgens with sign -1, storages, motors, wards, shunts * v^2)
     gen_p/gen_q n ref k s    generation reported for the gen rows at k after pfsoln (_update_p/_update_q)
     flows n k v s            sum of the branch terminal flows at k = injection s*baseMVA minus the bus shunt v^2*(GS - jBS)
     resid_p/resid_q          cons - gen + flows          (nodal balance  <=>  resid == 0)
     mism_p/mism_q            the Newton mismatch of bus k in MVA (zero up to the solver tolerance on convergence)
     zipdef_*                 closed-form size of the ZIP-averaging defect,  qsplit_loss  the EPS loss of the Q split
     gendef_*, *_old          the rule before the repair of pfsoln (static PD/QD at generator buses) and of the DC shunt results
   Injection s = V_k conj((Ybus V)_k) and |V_k| = v are arbitrary rationals (the solver is an oracle). *)
From Coq Require Import ZArith QArith Qabs List Bool.
From PPV Require Import Base.QN Base.QC C01.Model C01.Proofs C01.Balance C01.YbusModel C01.Ybus C01.BranchModel C01.Branch.
From PPV Require C31.Model C02.Model C02.Run C02.Proofs.     (* the branch model, names written qualified *)
Import ListNotations.
Open Scope Q_scope.

(* flow-sum identity (for every branch list, shunt and voltage vector): with Ybus = Cf'Yf + Ct'Yt + diag(ysh) the
   injection V_k conj((Ybus V)_k) is the sum of the terminal flows Sf/St of the branches at k plus |V_k|^2 conj(ysh_k);
   hence [flows] (injection minus bus shunt, used below) is the sum of the branch terminal flows in MVA *)
Theorem C01_flow_sum_identity : forall brs ysh V k,
  s_inj brs ysh V k ==c Cadd (flow_sum brs V k) (Cscale (cnorm2 (vat V k)) (Cconj ysh)).
Proof. exact flow_sum_identity. Qed.
Print Assumptions C01_flow_sum_identity.
Theorem C01_flows_are_branch_flows : forall n brs V k v,
  ~ base n == 0 -> v * v == cnorm2 (vat V k) ->
  flows n k v (s_inj brs (mkC (qdiv (GS n k) (base n)) (qdiv (BS n k) (base n))) V k)
  ==c Cscale (base n) (flow_sum brs V k).
Proof. exact flows_is_flow_sum. Qed.
Print Assumptions C01_flows_are_branch_flows.

(* The size of the nodal P imbalance at every bus whose generators are not assigned slack power (PQ and PV buses):
   Newton mismatch minus the ZIP-averaging defect
   (v-1)(PD*mean(ci) - sum p_i ci_i) + (v^2-1)(PD*mean(cz) - sum p_i cz_i). *)
Theorem C01_imbalance_formula_p : forall n ref k v s,
  (memn k ref && has_gen n k) = false ->
  resid_p n ref k v s (flows n k v s) == mism_p n k v s - zipdef_p n k v.
Proof. exact imbalance_p. Qed.
Print Assumptions C01_imbalance_formula_p.

Theorem C01_imbalance_formula_q : forall n k v s,
  has_gen n k = false ->
  resid_q n k v s (flows n k v s) == mism_q n k v s - zipdef_q n k v.
Proof. exact imbalance_q. Qed.
Print Assumptions C01_imbalance_formula_q.

(* generator buses (repaired pfsoln: injection + the demand the solver used): the same formula without a mismatch term
   at reference buses, plus the EPS loss of the split for Q *)
Theorem C01_imbalance_ref_bus_p : forall n ref k v s,
  memn k ref = true -> split_ok n k = true ->
  resid_p n ref k v s (flows n k v s) == - zipdef_p n k v.
Proof. exact imbalance_ref_p. Qed.
Print Assumptions C01_imbalance_ref_bus_p.

Theorem C01_imbalance_gen_bus_q : forall n k v s,
  has_gen n k = true -> ~ qg_den n k == 0 ->
  resid_q n k v s (flows n k v s) == - zipdef_q n k v + qsplit_loss n k v s.
Proof. exact imbalance_gen_q. Qed.
Print Assumptions C01_imbalance_gen_bus_q.

(* generator result extraction: the gen rows of a reference bus sum to  inj P + local Pd  (equal and weighted split),
   the gen rows of any bus sum to  inj Q + local Qd  minus the EPS loss of the range-proportional split *)
Theorem C01_gen_p_split_sums : forall n ref k v s,
  memn k ref = true -> split_ok n k = true -> gen_p n ref k v s == p_bus n k v s.
Proof. exact gen_p_sum. Qed.
Print Assumptions C01_gen_p_split_sums.

Theorem C01_gen_q_split_sums : forall n k v s,
  has_gen n k = true -> ~ qg_den n k == 0 -> gen_q n k v s == q_tot0 n k v s - qsplit_loss n k v s.
Proof. exact gen_q_sum. Qed.
Print Assumptions C01_gen_q_split_sums.

Theorem C01_qsplit_loss_bound : forall n k v s,
  0 < sumf g_qmax (gens_on_at n k) - sumf g_qmin (gens_on_at n k) ->
  Qabs (qsplit_loss n k v s) <=
  Qabs (q_tot0 n k v s - sumf g_qmin (gens_on_at n k)) * EPS / (sumf g_qmax (gens_on_at n k) - sumf g_qmin (gens_on_at n k)).
Proof. exact qsplit_loss_bound. Qed.
Print Assumptions C01_qsplit_loss_bound.

(* Partial theorems: under the guards G01p/G01q the balance holds exactly when the Newton mismatch is zero,
   at PQ buses, at PV buses and at reference buses. *)
Theorem C01_balance_partial : forall n ref k v s,
  has_gen n k = false -> G01p n k = true -> G01q n k = true ->
  mism_p n k v s == 0 -> mism_q n k v s == 0 ->
  resid_p n ref k v s (flows n k v s) == 0 /\ resid_q n k v s (flows n k v s) == 0.
Proof. exact balance_partial_pq. Qed.
Print Assumptions C01_balance_partial.

Theorem C01_balance_partial_pv : forall n ref k v s,
  memn k ref = false -> has_gen n k = true -> ~ qg_den n k == 0 -> G01p n k = true -> G01q n k = true ->
  mism_p n k v s == 0 ->
  resid_p n ref k v s (flows n k v s) == 0 /\ resid_q n k v s (flows n k v s) == qsplit_loss n k v s.
Proof. exact balance_partial_pv. Qed.
Print Assumptions C01_balance_partial_pv.

Theorem C01_balance_partial_ref : forall n ref k v s,
  memn k ref = true -> split_ok n k = true -> has_gen n k = true -> ~ qg_den n k == 0 ->
  G01p n k = true -> G01q n k = true ->
  resid_p n ref k v s (flows n k v s) == 0 /\ resid_q n k v s (flows n k v s) == qsplit_loss n k v s.
Proof. exact balance_partial_ref. Qed.
Print Assumptions C01_balance_partial_ref.

(* The full statement is false of the faithful model: zero mismatch, yet the reported powers do not balance. *)
Theorem C01_balance_refuted :
  exists n ref k v s, has_gen n k = false /\ mism_p n k v s == 0 /\ mism_q n k v s == 0 /\
    ~ resid_p n ref k v s (flows n k v s) == 0.
Proof. exact balance_refuted. Qed.
Print Assumptions C01_balance_refuted.

(* the rule before the repair of pfsoln is refuted (and its formula proved): static PD/QD at a generator bus; the same
   witness balances under the repaired rule *)
Theorem C01_old_gen_bus_rule_formula : forall n k v s,
  resid_p_ref_old n k v s == gendef_p n k v /\ resid_q_gen_old n k v s == gendef_q n k v.
Proof. intros. split; [apply old_ref_p | apply old_gen_q]. Qed.
Print Assumptions C01_old_gen_bus_rule_formula.
Theorem C01_old_gen_bus_rule_refuted :
  G01p witg_net 0 = true /\ G01gp witg_net 0 = false /\
  (forall s, ~ resid_p_ref_old witg_net 0 witg_v s == 0) /\
  (forall s, resid_p witg_net [0%nat] 0 witg_v s (flows witg_net 0 witg_v s) == 0).
Proof. exact old_rule_refuted_gen_bus. Qed.
Print Assumptions C01_old_gen_bus_rule_refuted.

(* The guards are exact: when one fails, the corresponding defect is non-zero at some positive voltage
   (G01gp/G01gq are the guards of the old generator-bus rule). *)
Theorem C01_guard_exact_p : forall n k, G01p n k = false -> exists v, 0 < v /\ ~ zipdef_p n k v == 0.
Proof. exact G01p_exact. Qed.
Print Assumptions C01_guard_exact_p.
Theorem C01_guard_exact_q : forall n k, G01q n k = false -> exists v, 0 < v /\ ~ zipdef_q n k v == 0.
Proof. exact G01q_exact. Qed.
Print Assumptions C01_guard_exact_q.
Theorem C01_guard_exact_gen_p : forall n k, G01gp n k = false -> exists v, 0 < v /\ ~ gendef_p n k v == 0.
Proof. exact G01gp_exact. Qed.
Print Assumptions C01_guard_exact_gen_p.
Theorem C01_guard_exact_gen_q : forall n k, G01gq n k = false -> exists v, 0 < v /\ ~ gendef_q n k v == 0.
Proof. exact G01gq_exact. Qed.
Print Assumptions C01_guard_exact_gen_q.

(* DC power flow (repaired: shunt / ward powers reported at unit voltage): the reported powers balance the DC bus equation *)
Theorem C01_dc_balance : forall n k pinj gsum, dc_resid_p n k pinj gsum == dc_mism n k pinj gsum.
Proof. exact dc_balance. Qed.
Print Assumptions C01_dc_balance.
(* the rule before the repair (VM^2 scaling): formula, exact guard and refutation *)
Theorem C01_dc_old_imbalance_formula : forall n k v pinj gsum,
  dc_resid_p_old n k v pinj gsum == dc_mism n k pinj gsum + dcdef_p n k v.
Proof. exact dc_imbalance_old. Qed.
Print Assumptions C01_dc_old_imbalance_formula.
Theorem C01_dc_old_refuted :
  exists n k v pinj gsum, dc_mism n k pinj gsum == 0 /\ ~ dc_resid_p_old n k v pinj gsum == 0.
Proof. exact dc_old_refuted. Qed.
Print Assumptions C01_dc_old_refuted.
Theorem C01_dc_old_guard_exact : forall n k v, G01dc n k v = false -> ~ dcdef_p n k v == 0.
Proof. exact G01dc_exact. Qed.
Print Assumptions C01_dc_old_guard_exact.

(* res_bus.p_mw/q_mvar (stacked arrays summed by pandapower bus) = net consumption reported by the element tables *)
Theorem C01_res_bus_is_net_consumption : forall n ref vs ss pb,
  res_bus_p n ref vs ss pb == net_cons_p n ref vs ss pb /\ res_bus_q n vs ss pb == net_cons_q n vs ss pb.
Proof. intros. split; [apply res_bus_p_spec | apply res_bus_q_spec]. Qed.
Print Assumptions C01_res_bus_is_net_consumption.

(* dcline terminals: stacked once as gen rows and once more (with the opposite sign) as res_dcline powers, they cancel out
   of res_bus: res_bus = net consumption minus the dcline terminal power of that bus; refuted / partial under G01dcl *)
Theorem C01_res_bus_misses_dcline : forall n ref vs ss dcl pb,
  res_bus_p_dcl n ref vs ss dcl pb == net_cons_p n ref vs ss pb - sum_group pb dcl.
Proof. exact res_bus_dcl_p. Qed.
Print Assumptions C01_res_bus_misses_dcline.
Theorem C01_res_bus_dcline_partial : forall n ref vs ss dcl pb, G01dcl dcl pb = true ->
  res_bus_p_dcl n ref vs ss dcl pb == net_cons_p n ref vs ss pb.
Proof. exact res_bus_dcl_partial. Qed.
Print Assumptions C01_res_bus_dcline_partial.
Theorem C01_res_bus_dcline_refuted :
  exists n ref vs ss dcl pb, ~ res_bus_p_dcl n ref vs ss dcl pb == net_cons_p n ref vs ss pb.
Proof. exact res_bus_dcl_refuted. Qed.
Print Assumptions C01_res_bus_dcline_refuted.

(* enforce_q_lims: a gen at its limit is folded into the bus demand PD/QD, which _get_Sload scales with the ZIP voltage
   factor: extra imbalance pl*(ci(v-1)+cz(v^2-1)); partial under G01ql (no limited generation at a voltage dependent bus),
   refuted by a witness that satisfies the ZIP-averaging guard G01p *)
Theorem C01_imbalance_qlim_fold : forall n ref k v s pl ql,
  ((memn k ref && has_gen n k) = false ->
   resid_fold_p n ref k v s pl == mism_fold_p n k v s pl ql - zipdef_p n k v + qlimdef_p n k v pl) /\
  (has_gen n k = false ->
   resid_fold_q n k v s ql == mism_fold_q n k v s pl ql - zipdef_q n k v + qlimdef_q n k v ql).
Proof. intros. split; [apply imbalance_fold_p | apply imbalance_fold_q]. Qed.
Print Assumptions C01_imbalance_qlim_fold.
Theorem C01_qlim_fold_partial : forall n k v pl ql,
  G01ql n k pl ql = true -> qlimdef_p n k v pl == 0 /\ qlimdef_q n k v ql == 0.
Proof. exact G01ql_def. Qed.
Print Assumptions C01_qlim_fold_partial.
Theorem C01_qlim_fold_refuted :
  G01p witq_net 1 = true /\ G01ql witq_net 1 20 5 = false /\
  exists s, mism_fold_p witq_net 1 (99#100) s 20 5 == 0 /\ ~ resid_fold_p witq_net [] 1 (99#100) s 20 == 0.
Proof. exact qlim_fold_refuted. Qed.
Print Assumptions C01_qlim_fold_refuted.

(* the hypotheses of the partial theorem are satisfiable by a non-trivial bus (two ZIP loads + a stepped shunt) *)
Example C01_nonvacuous :
  has_gen ok_net 1 = false /\ G01p ok_net 1 = true /\ G01q ok_net 1 = true /\
  mism_p ok_net 1 wit_v (Copp (Sload ok_net 1 wit_v)) == 0 /\ mism_q ok_net 1 wit_v (Copp (Sload ok_net 1 wit_v)) == 0.
Proof. exact ok_net_guard. Qed.
Print Assumptions C01_nonvacuous.

(* ================================================================ composed statement on the C02 branch model
   rows -> stamps -> flows -> nodal sum.  The two-port entries of C01_flow_sum_identity are no longer inputs: a branch is a
   ppc branch row of C02/Model.v (prow: from/to bus, row, e^{j SHIFT}; rows come from line_branch, trafo_branch,
   impedance_branch, xward_branch, switch_branch and the trafo3w blocks), branch_of stamps it with the C02 model of
   makeYbus.branch_vectors, row_flow_sum adds the terminal flows of the C02 model of pfsoln (MVA).
   For every list of rows, bus shunt, voltage vector, base power and bus: *)
Theorem C01_flow_sum_identity_rows : forall ps ysh V sn k,
  Cscale sn (s_inj (map branch_of ps) ysh V k)
  ==c Cadd (row_flow_sum ps V sn k) (Cscale (sn * cnorm2 (vat V k)) (Cconj ysh)).
Proof. exact rows_flow_sum_identity. Qed.
Print Assumptions C01_flow_sum_identity_rows.
(* rows built from element models (build_rows: every element model and every stamp returns without an exception;
   out-of-service rows are dropped as in ppc -> ppci): the built rows are in service, stamped by [stamps] itself, and
   satisfy the identity *)
Theorem C01_built_rows_balance : forall es ps ysh V sn k,
  build_rows es = C02.Model.Ok ps ->
  Forall (fun p => C02.Model.b_stat (pr_row p) = true /\ C02.Model.stamps (pr_row p) (pr_e p) = C02.Model.Ok (stamps_of p)) ps /\
  Cscale sn (s_inj (map branch_of ps) ysh V k)
  ==c Cadd (row_flow_sum ps V sn k) (Cscale (sn * cnorm2 (vat V k)) (Cconj ysh)).
Proof. intros. split; [eapply built_rows_ok; eassumption | eapply built_rows_flow_sum_identity; eassumption]. Qed.
Print Assumptions C01_built_rows_balance.
(* continued to physical units with C02_pu_eq_physical: the injection is the sum of the terminal powers of the rows'
   documented circuits (ideal transformer TAP e^{j SHIFT}, pi two-port in Ohm / Siemens on kV voltages) *)
Theorem C01_rows_nodal_sum_physical : forall ps ysh V sn k, Forall (row_ok sn) ps ->
  Cscale sn (s_inj (map branch_of ps) ysh V k)
  ==c Cadd (phys_flow_sum ps V sn k) (Cscale (sn * cnorm2 (vat V k)) (Cconj ysh)).
Proof. exact rows_nodal_sum_physical. Qed.
Print Assumptions C01_rows_nodal_sum_physical.
(* element level, a network of lines: per-km data -> _calc_line_parameter row -> stamps -> flows -> nodal sum equals the
   sum of the documented line pi circuits (Z = (r'+jx') l/parallel, Y = (g' + j 2 pi f c') l parallel) at the bus *)
Theorem C01_lines_nodal_sum_documented : forall sn fhz pi sqrt3 ls ysh V k, ~ sn == 0 -> Forall line_ok ls ->
  Cscale sn (s_inj (map branch_of (map (line_prow sn fhz pi sqrt3) ls)) ysh V k)
  ==c Cadd (line_flow_sum fhz pi ls V k) (Cscale (sn * cnorm2 (vat V k)) (Cconj ysh)).
Proof. exact lines_nodal_sum_documented. Qed.
Print Assumptions C01_lines_nodal_sum_documented.
(* the balance formulas end to end on the C02 rows: [flows n k v s], the quantity of C01_imbalance_formula_p/q, is the sum of the
   terminal flows of the C02 rows at k when s is the injection of the Ybus assembled from these rows; hence
   reported consumption - reported generation + branch flows of the rows = Newton mismatch - ZIP-averaging defect *)
Theorem C01_flows_are_row_flows : forall n ps V k v,
  ~ base n == 0 -> v * v == cnorm2 (vat V k) ->
  flows n k v (s_inj (map branch_of ps) (mkC (qdiv (GS n k) (base n)) (qdiv (BS n k) (base n))) V k)
  ==c row_flow_sum ps V (base n) k.
Proof. exact flows_is_row_flow_sum. Qed.
Print Assumptions C01_flows_are_row_flows.
Theorem C01_rows_imbalance_p : forall n ref ps V k v,
  ~ base n == 0 -> v * v == cnorm2 (vat V k) -> (memn k ref && has_gen n k) = false ->
  let s := s_inj (map branch_of ps) (mkC (qdiv (GS n k) (base n)) (qdiv (BS n k) (base n))) V k in
  resid_p n ref k v s (row_flow_sum ps V (base n) k) == mism_p n k v s - zipdef_p n k v.
Proof. exact rows_imbalance_p. Qed.
Print Assumptions C01_rows_imbalance_p.
Theorem C01_rows_imbalance_q : forall n ps V k v,
  ~ base n == 0 -> v * v == cnorm2 (vat V k) -> has_gen n k = false ->
  let s := s_inj (map branch_of ps) (mkC (qdiv (GS n k) (base n)) (qdiv (BS n k) (base n))) V k in
  resid_q n k v s (row_flow_sum ps V (base n) k) == mism_q n k v s - zipdef_q n k v.
Proof. exact rows_imbalance_q. Qed.
Print Assumptions C01_rows_imbalance_q.
(* non-vacuity: two lines 0-1, 1-2 (20 kV, sn = 10) and an out-of-service row build two in-service rows that satisfy
   row_ok; the flow sum at bus 1 is not trivially zero *)
Definition ex_line : C02.Model.line :=
  C02.Model.Build_line (1 # 4) (1 # 2) 10 0 2 1 true (Some 100) (1 # 2) 1 None.
Definition ex_es : list (nat * nat * C02.Model.res C02.Model.brow * C * Q) :=
  [(0%nat, 1%nat, C02.Model.Ok (C02.Model.line_branch 10 50 (355 # 113) (19 # 11) 20 20 ex_line), C1, 20);
   (1%nat, 2%nat, C02.Model.Ok (C02.Model.line_branch 10 50 (355 # 113) (19 # 11) 20 20 ex_line), C1, 20);
   (0%nat, 2%nat, C02.Model.Ok (C02.Model.xward_branch 10 20 1 4 false), C1, 20)].
Example C01_rows_nonvacuous :
  exists ps, build_rows ex_es = C02.Model.Ok ps /\ length ps = 2%nat /\ Forall (row_ok 10) ps /\
             ~ row_flow_sum ps [C1; mkC (99 # 100) (-1 # 100); mkC (49 # 50) (-1 # 50)] 10 1 ==c C0 /\
             Forall line_ok [mkL 0 1 ex_line 20 20; mkL 1 2 ex_line 20 20].
Proof.
  eexists. split; [vm_compute; reflexivity|]. split; [reflexivity|].
  split; [repeat constructor; vm_compute; try reflexivity; discriminate|].
  split; [vm_compute; intros [_ H]; discriminate H|].
  repeat constructor; vm_compute; try reflexivity; discriminate.
Qed.
Print Assumptions C01_rows_nonvacuous.
