(* C31 — property theorems (statements only; proofs are in C31/Proofs.v).
   Model: C31/Model.v = the table lookups of build_branch.py (_calc_tap_from_dataframe :628-672,
   _get_vk_values_from_table :738-790) as they are in /repo (after the repair keying the dict by (id, step)).
   Reading guide:  tab = net.trafo_characteristic_table;  flt = the masked transformers of one lookup group
   (id, tap_pos, mask);  lookup col tab flt k pos = the value the impl uses for a transformer with characteristic
   id k at tap position pos;  own_row tab k pos = the table row with the transformer's own id AND own tap position
   (what the property demands);  tab_consistent = rows with equal (id, step) carry equal values. *)
From Coq Require Import ZArith QArith List Bool.
From PPV Require Import Base.QN C31.Model C31.Proofs C31.ModelLoop C31.ProofsLoop.
Import ListNotations.
Open Scope Q_scope.

(* FULL statement: every masked transformer gets the value of its own (id, tap_pos) row — any number of
   transformers in the group, sharing ids or not, at any positions; any table size and row order *)
Theorem C31_lookup_own_row : forall col tab flt t k r,
  tab_consistent col tab = true ->
  In t flt -> f_mask t = true -> f_id t = Some k ->
  own_row tab k (f_pos t) = Some r ->
  lookup col tab flt k (f_pos t) == col r.
Proof. exact lookup_own_row. Qed.
Print Assumptions C31_lookup_own_row.

(* "regardless of how many other transformers share the table or at which positions they are" *)
Theorem C31_lookup_independent_of_others : forall col tab flt1 flt2 t k r,
  tab_consistent col tab = true ->
  In t flt1 -> In t flt2 -> f_mask t = true -> f_id t = Some k ->
  own_row tab k (f_pos t) = Some r ->
  lookup col tab flt1 k (f_pos t) == lookup col tab flt2 k (f_pos t).
Proof. exact lookup_independent. Qed.
Print Assumptions C31_lookup_independent_of_others.

(* when the table has no row for (id, tap_pos) the impl silently uses 1 (ratio 1, angle 1 degree, vk 1 %) *)
Theorem C31_lookup_missing_row_default : forall col tab flt k p,
  own_row tab k p = None -> lookup col tab flt k p = 1.
Proof. exact lookup_no_own_row. Qed.
Print Assumptions C31_lookup_missing_row_default.

(* "behaves exactly like the same transformer with those values entered directly": the adjusted
   vn_hv / vn_lv / shift of a table-dependent transformer equal those obtained from the own row's
   voltage_ratio and angle_deg without any table (2W and 3W incl. tap_at_star_point) *)
Theorem C31_tap_eq_explicit : forall is3w tab rows t k r,
  tab_consistent c_ratio tab = true -> tab_consistent c_angle tab = true ->
  In t rows -> t_dep t = true -> t_id t = Some k -> own_row tab k (t_pos t) = Some r ->
  trow_eqv (apply_side is3w LV tab rows (apply_side is3w HV tab rows t))
           (explicit_step is3w (c_ratio r) (c_angle r) t).
Proof. exact tap_row_eq_explicit. Qed.
Print Assumptions C31_tap_eq_explicit.

(* the i-th output row of the vectorised step is the per-row function of the i-th input row *)
Theorem C31_tap_step_rowwise : forall is3w tab rows i d,
  nth i (tap_table_step is3w tab rows) (apply_side is3w LV tab rows (apply_side is3w HV tab rows d)) =
  apply_side is3w LV tab rows (apply_side is3w HV tab rows (nth i rows d)).
Proof. exact tap_table_step_nth. Qed.
Print Assumptions C31_tap_step_rowwise.

(* transformers without tap_dependency_table are untouched by the table step, whatever the others do *)
Theorem C31_not_dependent_untouched : forall is3w tab rows t, t_dep t = false ->
  apply_side is3w LV tab rows (apply_side is3w HV tab rows t) = t.
Proof. exact tap_row_not_dep. Qed.
Print Assumptions C31_not_dependent_untouched.

(* vk / vkr (2W) and the six 3W columns: column j of the own row *)
Theorem C31_vk_own_row : forall tab rows t k r j,
  tab_consistent (col_vk j) tab = true ->
  In t rows -> v_dep t = true -> v_id t = Some k -> own_row tab k (v_pos t) = Some r ->
  (j < length (v_vk t))%nat ->
  nth j (vk_values tab rows t) 0 == nth j (c_vk r) 0.
Proof. exact vk_own_row. Qed.
Print Assumptions C31_vk_own_row.

Theorem C31_vk_not_dependent_untouched : forall tab rows t, v_dep t = false -> vk_values tab rows t = v_vk t.
Proof. exact vk_not_dep. Qed.
Print Assumptions C31_vk_not_dependent_untouched.

(* non-vacuity: one id shared at taps -2 / +2 (G31 false) — each transformer gets its own row *)
Example C31_nonvacuous :
  tab_consistent c_ratio wit_tab = true /\ G31 wit_flt = false /\
  lookup c_ratio wit_tab wit_flt 0 (-2 # 1) == 95 # 100 /\ lookup c_ratio wit_tab wit_flt 0 (2 # 1) == 105 # 100 /\
  lookup (col_vk 0) wit_tab wit_flt 0 (-2 # 1) == 11.
Proof. exact nonvacuous. Qed.
Print Assumptions C31_nonvacuous.

(* ---- regression witnesses: the lookup before the repair (dict keyed by id only) *)
Theorem C31_old_lookup_refuted :
  exists col tab flt t k r,
    tab_consistent col tab = true /\ In t flt /\ f_mask t = true /\ f_id t = Some k /\
    own_row tab k (f_pos t) = Some r /\ ~ lookup_old col tab flt k == col r.
Proof. exact lookup_old_refuted. Qed.
Print Assumptions C31_old_lookup_refuted.

(* the old rule was right exactly under the guard G31 (no shared id at different positions) *)
Theorem C31_old_lookup_partial : forall col tab flt t k r,
  G31 flt = true -> tab_consistent col tab = true ->
  In t flt -> f_mask t = true -> f_id t = Some k ->
  own_row tab k (f_pos t) = Some r ->
  lookup_old col tab flt k == col r.
Proof. exact lookup_old_own_row. Qed.
Print Assumptions C31_old_lookup_partial.

Example C31_old_nonvacuous : G31 nv_flt = true /\ lookup_old c_ratio wit_tab nv_flt 0 == 105 # 100.
Proof. exact old_nonvacuous. Qed.
Print Assumptions C31_old_nonvacuous.

From Coq Require Import String.
(* ---- both tap changers: the loop  for t in ("", "2")  of _calc_tap_from_dataframe (C31/ModelLoop.v).
   tap_pass ord is3w has_dep tab deps rows taps = one pass: has_dep = the frame has a tap{t}_dependency_table column,
   deps = the tap_dependency_table flags, taps = the tap{t}_* columns, ord = the ordinary (non-tabular) rule, a parameter.
   tap_loop ... has_dep1 has_pos2 has_dep2 = first pass, then the pass "2" iff the frame has tap2_pos. *)

(* a pass without its dependency column (the second tap changer of every standard frame) is the ordinary rule applied
   row by row: no table value is read, no NA-id error is raised, whatever tap_dependency_table says *)
Theorem C31_tap2_never_looked_up : forall ord is3w tab deps rows taps,
  tap_pass ord is3w false tab deps rows taps
  = if existsb (fun dx => ideal_both false (snd dx)) (combine deps taps) then inr "UserWarning"%string
    else inl (map3 (fun (_ : bool) t x => apply_ord ord x (retap false x t)) deps rows taps).
Proof. exact pass_without_dep_column. Qed.
Print Assumptions C31_tap2_never_looked_up.

Theorem C31_tap2_table_free : forall ord is3w tab1 tab2 deps rows taps,
  tap_pass ord is3w false tab1 deps rows taps = tap_pass ord is3w false tab2 deps rows taps.
Proof. exact pass_without_dep_column_table_free. Qed.
Print Assumptions C31_tap2_table_free.

(* the composition on a standard frame: the output row of a table-dependent transformer after BOTH passes is the
   ordinary second tap changer applied to the explicit-values transformer (voltage_ratio / angle_deg of its own
   (id, tap_pos) row entered directly) - for every ordinary rule that respects ==, any number of other transformers *)
Theorem C31_loop_dependent_row_eq_explicit : forall ord,
  (forall x u u', u == u' -> fst (ord x u) == fst (ord x u') /\ snd (ord x u) == snd (ord x u')) ->
  forall is3w tab deps rows taps1 taps2 out i t x1 x2 k r,
  tab_consistent c_ratio tab = true -> tab_consistent c_angle tab = true ->
  tap_loop ord is3w true true false tab deps rows taps1 taps2 = inl out ->
  nth_error deps i = Some true -> nth_error rows i = Some t -> nth_error taps1 i = Some x1 ->
  nth_error taps2 i = Some x2 ->
  t_id t = Some k -> own_row tab k (x_pos x1) = Some r ->
  exists o, nth_error out i = Some o /\
    trow_eqv o (apply_ord ord x2 (retap false x2 (explicit_step is3w (c_ratio r) (c_angle r) (retap true x1 t)))).
Proof. exact loop_dependent_row_eq_explicit. Qed.
Print Assumptions C31_loop_dependent_row_eq_explicit.

(* the rational instance used by the correspondence run satisfies the hypothesis *)
Theorem C31_ord_rat_proper : forall x u u', u == u' ->
  fst (ord_rat x u) == fst (ord_rat x u') /\ snd (ord_rat x u) == snd (ord_rat x u').
Proof. exact ord_rat_proper. Qed.
Print Assumptions C31_ord_rat_proper.

Example C31_loop_nonvacuous :
  tab_consistent c_ratio wit_tab = true /\ tab_consistent c_angle wit_tab = true /\
  exists o1 o2, tap_loop ord_rat false true true false wit_tab [true; true] lp_rows lp_taps1 lp_taps2 = inl [o1; o2] /\
    t_vnh o1 == 110 * (95 # 100) * (105 # 100) /\ t_vnh o2 == 110 * (105 # 100).
Proof. exact loop_nonvacuous. Qed.
Print Assumptions C31_loop_nonvacuous.
