(* C19 — state estimation: property theorems (proofs in C19/Proofs.v) *)
From Coq Require Import ZArith QArith List Bool Permutation Lia Lqa.
From PPV Require Import Base.QN Base.QC C19.Model C19.Proofs.
Import ListNotations.
Open Scope Q_scope.

(* _merge_mask + boolean row selection: for the strictly increasing index lists produced by np.flatnonzero the
   Jacobian rows of the P (Q) measurements come out in exactly the order in which h(x) and z list them *)
Theorem C19_merge_mask_rows_aligned : forall m1 m2,
  strictly_sorted m1 = true -> strictly_sorted m2 = true ->
  rows_P m1 m2 = rows_hx m1 /\ rows_Q m1 m2 = rows_hx m2.
Proof. exact merge_mask_rows_aligned. Qed.
Print Assumptions C19_merge_mask_rows_aligned.

(* the invariant is needed: an unsorted mask would misalign H and h(x) *)
Theorem C19_merge_mask_unsorted_refuted : exists m1 m2, rows_P m1 m2 <> rows_hx m1.
Proof. exact rows_P_unsorted_refuted. Qed.
Print Assumptions C19_merge_mask_unsorted_refuted.

Example C19_merge_mask_nonvacuous :
  strictly_sorted [0; 2; 5]%nat = true /\ strictly_sorted [1; 2]%nat = true /\
  rows_P [0; 2; 5]%nat [1; 2]%nat = [0; 2; 5]%nat.
Proof. vm_compute. repeat split. Qed.

(* bus-injection measurement function = sum of the branch-flow measurement functions at the bus + shunt term:
   exact power-flow values of all three kinds form one consistent (zero-residual) measurement set *)
Theorem C19_h_bus_is_sum_of_h_branch : forall V i ysh brs,
  S_bus V i (stamp_row i ysh brs) ==c
  Cadd (Cmul (nthC V i) (Cconj (Cmul ysh (nthC V i)))) (Csum (inj_S V i brs)).
Proof. exact bus_injection_is_flow_sum. Qed.
Print Assumptions C19_h_bus_is_sum_of_h_branch.

(* z = h(x): the right-hand side H^T R^-1 r of the normal equations vanishes and the WLS objective attains its
   global minimum 0 *)
Theorem C19_zero_residual_rhs_zero : forall ms j,
  (forall m, In m ms -> res m == 0) -> rhs j ms == 0.
Proof. exact rhs_zero_residual. Qed.
Print Assumptions C19_zero_residual_rhs_zero.

Theorem C19_zero_residual_is_global_minimum : forall ms ms',
  (forall m, In m ms -> res m == 0) -> (forall m, In m ms' -> 0 <= wgt m) ->
  objective ms == 0 /\ objective ms <= objective ms'.
Proof. exact zero_residual_global_minimum. Qed.
Print Assumptions C19_zero_residual_is_global_minimum.

(* with a nonsingular gain matrix the step computed by the linear solver (oracle: G d = rhs) is zero: the
   power-flow state is a fixed point of the WLS iteration, the loop stops with current_error = 0 <= tolerance *)
Theorem C19_zero_residual_fixed_point : forall n ms d,
  (forall m, In m ms -> res m == 0) ->
  (forall j, (j < n)%nat -> gain_times n ms d j == rhs j ms) ->
  (forall d', (forall j, (j < n)%nat -> gain_times n ms d' j == 0) -> forall k, (k < n)%nat -> nth k d' 0 == 0) ->
  forall k, (k < n)%nat -> nth k d 0 == 0.
Proof. exact zero_residual_fixed_point. Qed.
Print Assumptions C19_zero_residual_fixed_point.

(* G, the right-hand side and the objective are sums over the measurements: any reordering leaves them unchanged *)
Theorem C19_normal_equations_order_invariant : forall ms ms' j k, Permutation ms ms' ->
  gain j k ms == gain j k ms' /\ rhs j ms == rhs j ms' /\ objective ms == objective ms'.
Proof. exact normal_eq_perm. Qed.
Print Assumptions C19_normal_equations_order_invariant.

(* redundant readings of one quantity (values z_i, standard deviations s_i) are replaced by their weighted mean with
   std s = sqrt(1/sum(1/s_i^2)) (oracle: s*s == merged_var): same contribution to G and to the right-hand side *)
Theorem C19_redundant_measurements_equiv_merged : forall h hx zs s j k,
  ~ wsum zs == 0 -> s * s == merged_var zs ->
  gain j k (dup_meas h hx zs) == gain j k [merged_meas h hx zs s] /\
  rhs j (dup_meas h hx zs) == rhs j [merged_meas h hx zs s].
Proof. exact duplicates_equiv_merged. Qed.
Print Assumptions C19_redundant_measurements_equiv_merged.

Example C19_redundant_nonvacuous :
  let zs := [(1, 1 # 2); (3, 1 # 2); (1, 1 # 2); (3, 1 # 2)] in
  ~ wsum zs == 0 /\ (1 # 4) * (1 # 4) == merged_var zs /\ merged_value zs == 2.
Proof. vm_compute. repeat split; intro H; discriminate H. Qed.

(* "no bad data is flagged": the chi^2 / largest-normalised-residual tests read solver.r.  After the repair
   ("fix: WLS state estimation stores residual, Jacobian and gain matrix of the returned state") the stored residual is
   the residual z - h(x) of the returned state for every iteration history, hence 0 on exact data *)
Theorem C19_stored_residual_is_final : forall h z x0 steps,
  stored_residual h z x0 steps == z - h (final_state h z x0 steps).
Proof. exact stored_residual_final. Qed.
Print Assumptions C19_stored_residual_is_final.

Theorem C19_stored_residual_zero_on_exact_data : forall h z x0 steps,
  z == h (final_state h z x0 steps) -> stored_residual h z x0 steps == 0.
Proof. exact stored_residual_exact_data. Qed.
Print Assumptions C19_stored_residual_zero_on_exact_data.

(* the rule before the repair (r of the last loop pass) violates it (regression witness) and was right only when the last
   increment was exactly zero *)
Theorem C19_stored_residual_old_refuted :
  exists (h : Q -> Q) z x0 steps,
    z - h (final_state h z x0 steps) == 0 /\ ~ stored_residual_old h z x0 steps == z - h (final_state h z x0 steps).
Proof. exact stored_residual_old_refuted. Qed.
Print Assumptions C19_stored_residual_old_refuted.

Theorem C19_stored_residual_old_partial : forall h z x0 steps,
  (forall a b, a == b -> h a == h b) ->
  G19_last_step_zero steps = true ->
  stored_residual_old h z x0 steps == z - h (final_state h z x0 steps).
Proof. exact stored_residual_old_partial. Qed.
Print Assumptions C19_stored_residual_old_partial.

Example C19_stored_residual_nonvacuous : G19_last_step_zero [1 # 2; 1 # 4; 0] = true.
Proof. reflexivity. Qed.

(* d^T G d = sum_i w_i (h_i . d)^2 : with positive weights G d = 0 forces h_i . d = 0 for every measurement, so for a
   Jacobian of full column rank (observable system) the zero-residual state is a fixed point without assuming anything
   about G itself *)
Theorem C19_gain_quadratic_form : forall n ms d,
  qf_l n (seq 0 n) ms d == qsum (map (fun m => qmul (wgt m) (qmul (hd n m d) (hd n m d))) ms).
Proof. exact quadratic_form. Qed.
Print Assumptions C19_gain_quadratic_form.

Theorem C19_zero_residual_fixed_point_full_rank : forall n ms d,
  (forall m, In m ms -> res m == 0) ->
  (forall m, In m ms -> 0 < wgt m) ->
  (forall j, (j < n)%nat -> gain_times n ms d j == rhs j ms) ->
  (forall d', (forall m, In m ms -> hd n m d' == 0) -> forall k, (k < n)%nat -> nth k d' 0 == 0) ->
  forall k, (k < n)%nat -> nth k d 0 == 0.
Proof. exact zero_residual_fixed_point_rank. Qed.
Print Assumptions C19_zero_residual_fixed_point_full_rank.

Example C19_full_rank_nonvacuous :
  let ms := [{| hrow := [1; 0]; wgt := 4; res := 0 |}; {| hrow := [1; 1]; wgt := 1; res := 0 |}] in
  (forall m, In m ms -> 0 < wgt m) /\ (forall m, In m ms -> res m == 0) /\
  (forall d', (forall m, In m ms -> hd 2 m d' == 0) -> forall k, (k < 2)%nat -> nth k d' 0 == 0).
Proof. exact full_rank_nonvacuous. Qed.
