(* C19 — state estimation: property theorems (proofs in C19/Proofs.v) *)
From Coq Require Import ZArith QArith List Bool Permutation Lia Lqa.
From PPV Require Import Base.QN Base.QC C19.Model C19.Proofs C19.Jacobian.
Import ListNotations.
Open Scope Q_scope.

(* _merge_mask + boolean row selection: for the strictly increasing index lists produced by np.flatnonzero the
   Jacobian rows of the P (Q) measurements come out in exactly the order in which h(x) and z list them *)
Theorem C19_merge_mask_rows_aligned : forall m1 m2,
  strictly_sorted m1 = true -> strictly_sorted m2 = true ->
  rows_P m1 m2 = rows_hx m1 /\ rows_Q m1 m2 = rows_hx m2.
Proof. exact merge_mask_rows_aligned. Qed.
Print Assumptions C19_merge_mask_rows_aligned.

(* the invariant is needed: an unsorted mask would misalign H and h(x) *)
Theorem C19_merge_mask_unsorted_refuted : exists m1 m2, rows_P m1 m2 <> rows_hx m1.
Proof. exact rows_P_unsorted_refuted. Qed.
Print Assumptions C19_merge_mask_unsorted_refuted.

Example C19_merge_mask_nonvacuous :
  strictly_sorted [0; 2; 5]%nat = true /\ strictly_sorted [1; 2]%nat = true /\
  rows_P [0; 2; 5]%nat [1; 2]%nat = [0; 2; 5]%nat.
Proof. vm_compute. repeat split. Qed.

(* bus-injection measurement function = sum of the branch-flow measurement functions at the bus + shunt term:
   exact power-flow values of all three kinds form one consistent (zero-residual) measurement set *)
Theorem C19_h_bus_is_sum_of_h_branch : forall V i ysh brs,
  S_bus V i (stamp_row i ysh brs) ==c
  Cadd (Cmul (nthC V i) (Cconj (Cmul ysh (nthC V i)))) (Csum (inj_S V i brs)).
Proof. exact bus_injection_is_flow_sum. Qed.
Print Assumptions C19_h_bus_is_sum_of_h_branch.

(* z = h(x): the right-hand side H^T R^-1 r of the normal equations vanishes and the WLS objective attains its
   global minimum 0 *)
Theorem C19_zero_residual_rhs_zero : forall ms j,
  (forall m, In m ms -> res m == 0) -> rhs j ms == 0.
Proof. exact rhs_zero_residual. Qed.
Print Assumptions C19_zero_residual_rhs_zero.

Theorem C19_zero_residual_is_global_minimum : forall ms ms',
  (forall m, In m ms -> res m == 0) -> (forall m, In m ms' -> 0 <= wgt m) ->
  objective ms == 0 /\ objective ms <= objective ms'.
Proof. exact zero_residual_global_minimum. Qed.
Print Assumptions C19_zero_residual_is_global_minimum.

(* with a nonsingular gain matrix the step computed by the linear solver (oracle: G d = rhs) is zero: the
   power-flow state is a fixed point of the WLS iteration, the loop stops with current_error = 0 <= tolerance *)
Theorem C19_zero_residual_fixed_point : forall n ms d,
  (forall m, In m ms -> res m == 0) ->
  (forall j, (j < n)%nat -> gain_times n ms d j == rhs j ms) ->
  (forall d', (forall j, (j < n)%nat -> gain_times n ms d' j == 0) -> forall k, (k < n)%nat -> nth k d' 0 == 0) ->
  forall k, (k < n)%nat -> nth k d 0 == 0.
Proof. exact zero_residual_fixed_point. Qed.
Print Assumptions C19_zero_residual_fixed_point.

(* G, the right-hand side and the objective are sums over the measurements: any reordering leaves them unchanged *)
Theorem C19_normal_equations_order_invariant : forall ms ms' j k, Permutation ms ms' ->
  gain j k ms == gain j k ms' /\ rhs j ms == rhs j ms' /\ objective ms == objective ms'.
Proof. exact normal_eq_perm. Qed.
Print Assumptions C19_normal_equations_order_invariant.

(* redundant readings of one quantity (values z_i, standard deviations s_i) are replaced by their weighted mean with
   std s = sqrt(1/sum(1/s_i^2)) (oracle: s*s == merged_var): same contribution to G and to the right-hand side *)
Theorem C19_redundant_measurements_equiv_merged : forall h hx zs s j k,
  ~ wsum zs == 0 -> s * s == merged_var zs ->
  gain j k (dup_meas h hx zs) == gain j k [merged_meas h hx zs s] /\
  rhs j (dup_meas h hx zs) == rhs j [merged_meas h hx zs s].
Proof. exact duplicates_equiv_merged. Qed.
Print Assumptions C19_redundant_measurements_equiv_merged.

Example C19_redundant_nonvacuous :
  let zs := [(1, 1 # 2); (3, 1 # 2); (1, 1 # 2); (3, 1 # 2)] in
  ~ wsum zs == 0 /\ (1 # 4) * (1 # 4) == merged_var zs /\ merged_value zs == 2.
Proof. vm_compute. repeat split; intro H; discriminate H. Qed.

(* "no bad data is flagged": the chi^2 / largest-normalised-residual tests read solver.r.  After the repair
   ("fix: WLS state estimation stores residual, Jacobian and gain matrix of the returned state") the stored residual is
   the residual z - h(x) of the returned state for every iteration history, hence 0 on exact data *)
Theorem C19_stored_residual_is_final : forall h z x0 steps,
  stored_residual h z x0 steps == z - h (final_state h z x0 steps).
Proof. exact stored_residual_final. Qed.
Print Assumptions C19_stored_residual_is_final.

Theorem C19_stored_residual_zero_on_exact_data : forall h z x0 steps,
  z == h (final_state h z x0 steps) -> stored_residual h z x0 steps == 0.
Proof. exact stored_residual_exact_data. Qed.
Print Assumptions C19_stored_residual_zero_on_exact_data.

(* the rule before the repair (r of the last loop pass) violates it (regression witness) and was right only when the last
   increment was exactly zero *)
Theorem C19_stored_residual_old_refuted :
  exists (h : Q -> Q) z x0 steps,
    z - h (final_state h z x0 steps) == 0 /\ ~ stored_residual_old h z x0 steps == z - h (final_state h z x0 steps).
Proof. exact stored_residual_old_refuted. Qed.
Print Assumptions C19_stored_residual_old_refuted.

Theorem C19_stored_residual_old_partial : forall h z x0 steps,
  (forall a b, a == b -> h a == h b) ->
  G19_last_step_zero steps = true ->
  stored_residual_old h z x0 steps == z - h (final_state h z x0 steps).
Proof. exact stored_residual_old_partial. Qed.
Print Assumptions C19_stored_residual_old_partial.

Example C19_stored_residual_nonvacuous : G19_last_step_zero [1 # 2; 1 # 4; 0] = true.
Proof. reflexivity. Qed.

(* d^T G d = sum_i w_i (h_i . d)^2 : with positive weights G d = 0 forces h_i . d = 0 for every measurement, so for a
   Jacobian of full column rank (observable system) the zero-residual state is a fixed point without assuming anything
   about G itself *)
Theorem C19_gain_quadratic_form : forall n ms d,
  qf_l n (seq 0 n) ms d == qsum (map (fun m => qmul (wgt m) (qmul (hd n m d) (hd n m d))) ms).
Proof. exact quadratic_form. Qed.
Print Assumptions C19_gain_quadratic_form.

Theorem C19_zero_residual_fixed_point_full_rank : forall n ms d,
  (forall m, In m ms -> res m == 0) ->
  (forall m, In m ms -> 0 < wgt m) ->
  (forall j, (j < n)%nat -> gain_times n ms d j == rhs j ms) ->
  (forall d', (forall m, In m ms -> hd n m d' == 0) -> forall k, (k < n)%nat -> nth k d' 0 == 0) ->
  forall k, (k < n)%nat -> nth k d 0 == 0.
Proof. exact zero_residual_fixed_point_rank. Qed.
Print Assumptions C19_zero_residual_fixed_point_full_rank.

Example C19_full_rank_nonvacuous :
  let ms := [{| hrow := [1; 0]; wgt := 4; res := 0 |}; {| hrow := [1; 1]; wgt := 1; res := 0 |}] in
  (forall m, In m ms -> 0 < wgt m) /\ (forall m, In m ms -> res m == 0) /\
  (forall d', (forall m, In m ms -> hd 2 m d' == 0) -> forall k, (k < 2)%nat -> nth k d' 0 == 0).
Proof. exact full_rank_nonvacuous. Qed.

(* ------------------------------------------------------------------ the Jacobian rows of a branch are the derivatives of h
   Model: C19.Model.dS_dth_s/dS_dth_e/dS_dvm_s/dS_dvm_e (= _dSbr_dv, real part = dP row, imaginary part = dQ row) and
   dIm_dth/dIm_dvm (= _dImbr_dV), for the "own side" bus s and the other end e of one branch (from side: ys = yff,
   ye = yft; to side: ys = ytt, ye = ytf).  S_side ys ye Vs Ve = Vs*conj(ys*Vs + ye*Ve) is the measurement function
   of create_hx.  Polar state of a bus: pol = (vm, cos th, sin th), the pair being an oracle; an angle increment delta is
   given by the oracle pair (cd, sd) = (cos delta, sin delta); move p cd sd dv is the state (th + delta, vm + dv).
   DS is the real-linear differential of S in rectangular coordinates; lin p sd dv = sd*(j*V) + dv*(V/|V|) is the
   first-order displacement of V and rho the rest of it. *)

(* rectangular form: S is a quadratic form; the expansion is exact and the remainder is the quadratic form of the increment *)
Theorem C19_S_rectangular_expansion : forall ys ye Vs Ve dVs dVe,
  S_side ys ye (Cadd Vs dVs) (Cadd Ve dVe) ==c
  Cadd (Cadd (S_side ys ye Vs Ve) (DS ys ye Vs Ve dVs dVe)) (S_side ys ye dVs dVe).
Proof. exact S_expand. Qed.
Print Assumptions C19_S_rectangular_expansion.

Theorem C19_S_remainder_is_quadratic : forall ys ye t dVs dVe,
  S_side ys ye (Cscale t dVs) (Cscale t dVe) ==c Cscale (t * t) (S_side ys ye dVs dVe).
Proof. exact S_quadratic. Qed.
Print Assumptions C19_S_remainder_is_quadratic.

(* the four entries of a _dSbr_dv row are the differential applied to the tangent vectors of the polar parametrisation:
   d/dth_k -> j*V_k, d/dvm_k -> V_k/|V_k| *)
Theorem C19_dSbr_entries_are_partial_derivatives : forall ys ye s e,
  dS_dth_s ys ye s e ==c DS ys ye (Vof s) (Vof e) (Cmul Cj (Vof s)) C0 /\
  dS_dth_e ys ye s e ==c DS ys ye (Vof s) (Vof e) C0 (Cmul Cj (Vof e)) /\
  dS_dvm_s ys ye s e ==c DS ys ye (Vof s) (Vof e) (Vn s) C0 /\
  dS_dvm_e ys ye s e ==c DS ys ye (Vof s) (Vof e) C0 (Vn e).
Proof.
  intros. split; [apply dS_dth_s_is_DS | split; [apply dS_dth_e_is_DS | split; [apply dS_dvm_s_is_DS | apply dS_dvm_e_is_DS]]].
Qed.
Print Assumptions C19_dSbr_entries_are_partial_derivatives.

(* the polar parametrisation: exact displacement of V, the moved pair is again a unit pair, and rho is of second order
   (every term carries sd*sd or dv*sd) *)
Theorem C19_polar_displacement : forall p cd sd dv,
  Vof (move p cd sd dv) ==c Cadd (Cadd (Vof p) (lin p sd dv)) (rho p cd sd dv).
Proof. exact move_expand. Qed.
Print Assumptions C19_polar_displacement.

Theorem C19_polar_move_keeps_unit : forall p cd sd dv,
  unit (pc p) (ps p) -> unit cd sd -> unit (pc (move p cd sd dv)) (ps (move p cd sd dv)).
Proof. exact move_unit. Qed.
Print Assumptions C19_polar_move_keeps_unit.

Theorem C19_polar_rest_is_second_order : forall p cd sd dv, unit cd sd -> ~ 1 + cd == 0 ->
  rho p cd sd dv ==c
  Cadd (Cscale (- (sd * sd) / (1 + cd)) (Cadd (Vof p) (Cscale dv (Vn p)))) (Cscale (dv * sd) (Cmul Cj (Vn p))).
Proof. exact rho_second_order. Qed.
Print Assumptions C19_polar_rest_is_second_order.

(* power-flow rows: h(x (+) d) - h(x) - J*d equals, exactly, the differential of the second-order rest plus the quadratic
   form of the whole displacement - no first-order term is left, for every state, every increment, every branch *)
Theorem C19_dSbr_first_order_exact : forall ys ye s e cds sds dvs cde sde dve,
  let s' := move s cds sds dvs in let e' := move e cde sde dve in
  Csub (Csub (S_side ys ye (Vof s') (Vof e')) (S_side ys ye (Vof s) (Vof e))) (Jd_S ys ye s e sds sde dvs dve) ==c
  Cadd (DS ys ye (Vof s) (Vof e) (rho s cds sds dvs) (rho e cde sde dve))
       (S_side ys ye (Cadd (lin s sds dvs) (rho s cds sds dvs)) (Cadd (lin e sde dve) (rho e cde sde dve))).
Proof. exact S_polar_taylor. Qed.
Print Assumptions C19_dSbr_first_order_exact.

(* current-magnitude rows: J*d is the linear form re(conj(I)/|I| * dI_lin) ... *)
Theorem C19_dImbr_entries_are_partial_derivatives : forall ys ye s e m sds sde dvs dve,
  Jd_I ys ye s e m sds sde dvs dve ==
  re (Cmul (Inorm ys ye s e m) (I_side ys ye (lin s sds dvs) (lin e sde dve))).
Proof. exact Jd_I_is_linear_form. Qed.
Print Assumptions C19_dImbr_entries_are_partial_derivatives.

(* ... and with the oracles m = |I(x)|, m' = |I(x (+) d)| (constrained by their squares) the deviation m' - m - J*d times
   the positive number m' + m is a sum of second-order terms (|dI|^2, (J*d + r2)*(m' - m), r2*(m' + m) with r2 linear in rho) *)
Theorem C19_dImbr_first_order_exact : forall ys ye s e cds sds dvs cde sde dve m m',
  let s' := move s cds sds dvs in let e' := move e cde sde dve in
  let I := I_side ys ye (Vof s) (Vof e) in
  let dI := I_side ys ye (Cadd (lin s sds dvs) (rho s cds sds dvs)) (Cadd (lin e sde dve) (rho e cde sde dve)) in
  ~ m == 0 -> m * m == cnorm2 I -> m' * m' == cnorm2 (I_side ys ye (Vof s') (Vof e')) ->
  let Jd := Jd_I ys ye s e m sds sde dvs dve in
  let r2 := re (Cmul (Inorm ys ye s e m) (I_side ys ye (rho s cds sds dvs) (rho e cde sde dve))) in
  (m' - m - Jd) * (m' + m) == cnorm2 dI - (Jd + r2) * (m' - m) + r2 * (m' + m).
Proof. exact I_polar_taylor. Qed.
Print Assumptions C19_dImbr_first_order_exact.

(* non-vacuity: a series branch y = 3-4j between V_s = 1.1*(3/5+4/5j) and V_e = 1.0*(3/5+4/5j), both angles advanced by
   (cos, sin) = (12/13, 5/13), vm_s raised by 0.1: unit pairs, |I| = 1/2 before and 1 after, 1 + cd <> 0 *)
Example C19_jacobian_nonvacuous :
  let ys := mkC 3 (-4) in let ye := mkC (-3) 4 in
  let s := {| vm := 11 # 10; pc := 3 # 5; ps := 4 # 5 |} in let e := {| vm := 1; pc := 3 # 5; ps := 4 # 5 |} in
  let s' := move s (12 # 13) (5 # 13) (1 # 10) in let e' := move e (12 # 13) (5 # 13) 0 in
  unit (pc s) (ps s) /\ unit (12 # 13) (5 # 13) /\ ~ 1 + (12 # 13) == 0 /\
  ~ (1 # 2) == 0 /\ (1 # 2) * (1 # 2) == cnorm2 (I_side ys ye (Vof s) (Vof e)) /\
  1 * 1 == cnorm2 (I_side ys ye (Vof s') (Vof e')) /\
  ~ Jd_S ys ye s e (5 # 13) (5 # 13) (1 # 10) 0 ==c C0.
Proof.
  vm_compute. repeat split; try (intro H; discriminate H). intros [H _]. discriminate H.
Qed.
