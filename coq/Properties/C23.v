(* C23 — property theorems (statements only; proofs in C23/Proofs.v).
   z_line_r/x l = series impedance in ohm of a line (r' * length / parallel), z_imp_r/x m v = series impedance in ohm of an
   impedance element whose per-unit values refer to v^2/sn.  Equal series (and shunt) parameters give the same ppc branch,
   hence the same power flow problem. *)
From Coq Require Import ZArith QArith List Bool String.
From PPV Require Import Base.QN C23.Model C23.Proofs.
Import ListNotations.
Open Scope Q_scope.

(* replace_line_by_impedance as it is in /repo (after "fix: replace_line_by_impedance takes parallel and length_km from the
   line's own row"): for EVERY line index (shuffled, gapped) the created impedance has the series impedance of the line *)
Theorem C23_line_to_impedance_equiv : forall tab sn idx l m,
  by_label tab idx = Some l -> line_to_imp tab sn idx = Ok m ->
  ~ vn l == 0 -> ~ sn == 0 -> ~ par l == 0 ->
  z_imp_r m (vn l) == z_line_r l /\ z_imp_x m (vn l) == z_line_x l.
Proof. exact label_conversion_preserves. Qed.
Print Assumptions C23_line_to_impedance_equiv.
Example C23_line_to_impedance_equiv_nonvacuous :
  exists l m, by_label w_tab 1%Z = Some l /\ line_to_imp w_tab 1 1%Z = Ok m /\ z_imp_r m (vn l) == z_line_r l.
Proof. eexists. eexists. split; [reflexivity|]. split; [reflexivity|]. vm_compute. reflexivity. Qed.
Print Assumptions C23_line_to_impedance_equiv_nonvacuous.
(* the rule before the repair read the positional arrays parallel/length_km at the line LABEL: correct only under G23a
   (line index = 0..n-1 in order), wrong values or IndexError otherwise (regression witnesses) *)
Theorem C23_line_to_impedance_old_equiv_partial : forall tab sn idx l m,
  G23a tab = true -> by_label tab idx = Some l -> line_to_imp_old tab sn idx = Ok m ->
  ~ vn l == 0 -> ~ sn == 0 -> ~ par l == 0 ->
  z_imp_r m (vn l) == z_line_r l /\ z_imp_x m (vn l) == z_line_x l.
Proof. exact line_to_imp_partial. Qed.
Print Assumptions C23_line_to_impedance_old_equiv_partial.
Theorem C23_line_to_impedance_old_equiv_refuted :
  exists tab sn idx l m, by_label tab idx = Some l /\ line_to_imp_old tab sn idx = Ok m /\ ~ z_imp_r m (vn l) == z_line_r l.
Proof. exact line_to_imp_refuted. Qed.
Print Assumptions C23_line_to_impedance_old_equiv_refuted.
Theorem C23_line_to_impedance_old_index_error :
  exists tab sn idx, by_label tab idx <> None /\ line_to_imp_old tab sn idx = Err "IndexError".
Proof. exact line_to_imp_index_error. Qed.
Print Assumptions C23_line_to_impedance_old_index_error.
Theorem C23_impedance_to_line_equiv : forall m v i,
  ~ isn m == 0 -> z_line_r (imp_to_line m v i) == z_imp_r m v /\ z_line_x (imp_to_line m v i) == z_imp_x m v.
Proof. exact imp_to_line_preserves. Qed.
Print Assumptions C23_impedance_to_line_equiv.
(* merge_parallel_line: same series impedance, same total capacitance and conductance *)
Theorem C23_merge_parallel_line_equiv : forall l,
  ~ par l == 0 -> ~ r_km l * r_km l + x_km l * x_km l == 0 ->
  z_line_r (merge_parallel l) == z_line_r l /\ z_line_x (merge_parallel l) == z_line_x l /\
  c_km (merge_parallel l) * par (merge_parallel l) == c_km l * par l /\ g_km (merge_parallel l) * par (merge_parallel l) == g_km l * par l.
Proof. exact merge_parallel_preserves. Qed.
Print Assumptions C23_merge_parallel_line_equiv.
