(* C23 — property theorems (statements only; proofs in C23/Proofs.v).
   z_line_r/x l = series impedance in ohm of a line (r' * length / parallel), z_imp_r/x m v = series impedance in ohm of an
   impedance element whose per-unit values refer to v^2/sn.  Equal series (and shunt) parameters give the same ppc branch,
   hence the same power flow problem. *)
From Coq Require Import ZArith QArith List Bool String.
From PPV Require Import Base.QN C23.Model C23.Proofs.
From PPV Require Base.C07Graph C07.Model C07.UnionFind C23.Repl C23.ReplProofs C23.Fuse C23.FuseProofs.
Import ListNotations.
Open Scope Q_scope.

(* replace_line_by_impedance as it is in /repo (after "fix: replace_line_by_impedance takes parallel and length_km from the
   line's own row"): for EVERY line index (shuffled, gapped) the created impedance has the series impedance of the line *)
Theorem C23_line_to_impedance_equiv : forall tab sn idx l m,
  by_label tab idx = Some l -> line_to_imp tab sn idx = Ok m ->
  ~ vn l == 0 -> ~ sn == 0 -> ~ par l == 0 ->
  z_imp_r m (vn l) == z_line_r l /\ z_imp_x m (vn l) == z_line_x l.
Proof. exact label_conversion_preserves. Qed.
Print Assumptions C23_line_to_impedance_equiv.
Example C23_line_to_impedance_equiv_nonvacuous :
  exists l m, by_label w_tab 1%Z = Some l /\ line_to_imp w_tab 1 1%Z = Ok m /\ z_imp_r m (vn l) == z_line_r l.
Proof. eexists. eexists. split; [reflexivity|]. split; [reflexivity|]. vm_compute. reflexivity. Qed.
Print Assumptions C23_line_to_impedance_equiv_nonvacuous.
(* the rule before the repair read the positional arrays parallel/length_km at the line LABEL: correct only under G23a
   (line index = 0..n-1 in order), wrong values or IndexError otherwise (regression witnesses) *)
Theorem C23_line_to_impedance_old_equiv_partial : forall tab sn idx l m,
  G23a tab = true -> by_label tab idx = Some l -> line_to_imp_old tab sn idx = Ok m ->
  ~ vn l == 0 -> ~ sn == 0 -> ~ par l == 0 ->
  z_imp_r m (vn l) == z_line_r l /\ z_imp_x m (vn l) == z_line_x l.
Proof. exact line_to_imp_partial. Qed.
Print Assumptions C23_line_to_impedance_old_equiv_partial.
Theorem C23_line_to_impedance_old_equiv_refuted :
  exists tab sn idx l m, by_label tab idx = Some l /\ line_to_imp_old tab sn idx = Ok m /\ ~ z_imp_r m (vn l) == z_line_r l.
Proof. exact line_to_imp_refuted. Qed.
Print Assumptions C23_line_to_impedance_old_equiv_refuted.
Theorem C23_line_to_impedance_old_index_error :
  exists tab sn idx, by_label tab idx <> None /\ line_to_imp_old tab sn idx = Err "IndexError".
Proof. exact line_to_imp_index_error. Qed.
Print Assumptions C23_line_to_impedance_old_index_error.
Theorem C23_impedance_to_line_equiv : forall m v i,
  ~ isn m == 0 -> z_line_r (imp_to_line m v i) == z_imp_r m v /\ z_line_x (imp_to_line m v i) == z_imp_x m v.
Proof. exact imp_to_line_preserves. Qed.
Print Assumptions C23_impedance_to_line_equiv.
(* merge_parallel_line: same series impedance, same total capacitance and conductance *)
Theorem C23_merge_parallel_line_equiv : forall l,
  ~ par l == 0 -> ~ r_km l * r_km l + x_km l * x_km l == 0 ->
  z_line_r (merge_parallel l) == z_line_r l /\ z_line_x (merge_parallel l) == z_line_x l /\
  c_km (merge_parallel l) * par (merge_parallel l) == c_km l * par l /\ g_km (merge_parallel l) * par (merge_parallel l) == g_km l * par l.
Proof. exact merge_parallel_preserves. Qed.
Print Assumptions C23_merge_parallel_line_equiv.

(* ====================================================================== ward / xward / ext_grid replacements (C23/Repl.v)
   bus_row lk bk n r = the columns PD, QD, GS and the q-sum behind BS of ppc bus row r as _calc_pq_elements_and_add_on_ppc and
   _calc_shunts_and_add_on_ppc fill them from the load / shunt / ward / xward tables of n (lk = bus lookup, bk = BASE_KV per
   row); =r= is == on the four columns; pu_eq compares Sbus = -(PD + jQD)/sn_mva and Ysh = (GS + jBS)/sn_mva.
   base_ok lk bk n b: BASE_KV of the ppc row of bus b is the vn_kv of b (fused buses have one rated voltage) and not 0. *)
Module Repl.
Import C23.Repl C23.ReplProofs.
Open Scope Q_scope.

(* replace_ward_by_internal_elements: for EVERY net, selection of distinct ward indices, lookup and ppc row: the load(ps, qs) and
   shunt(pz, qz, vn_kv of the bus, step 1) created per ward put exactly the ward's P, Q and shunt admittance on the row *)
Theorem C23_ward_replacement_bus_rows : forall lk bk n sel m r,
  replace_wards n sel = Ok m -> NoDup sel -> NoDup (map w_id (wards n)) ->
  (forall w, In w (wards n) -> base_ok lk bk n (w_bus w)) ->
  bus_row lk bk m r =r= bus_row lk bk n r /\ pu_eq (sn m) (bus_row lk bk m r) (sn n) (bus_row lk bk n r).
Proof. exact replace_wards_bus_rows. Qed.
Print Assumptions C23_ward_replacement_bus_rows.
Example C23_ward_replacement_nonvacuous : exists m,
  replace_wards w_rnet [4%nat] = Ok m /\ NoDup [4%nat] /\ NoDup (map w_id (wards w_rnet)) /\
  (forall w, In w (wards w_rnet) -> base_ok (fun x => x) (fun _ => 20) w_rnet (w_bus w)) /\
  ~ pd (bus_row (fun x => x) (fun _ => 20) w_rnet 3) == 0 /\ List.length (loads m) = 2%nat /\ List.length (wards m) = 1%nat.
Proof. exact replace_wards_nonvacuous. Qed.
Print Assumptions C23_ward_replacement_nonvacuous.

(* replace_xward_by_internal_elements (the loop creates bus, load, shunt, gen, impedance per xward): rows of every ppc bus *)
Theorem C23_xward_replacement_bus_rows : forall lk bk n sel m r,
  replace_xwards n sel = Ok m -> NoDup sel -> NoDup (map x_id (xwards n)) ->
  (forall x, In x (xwards n) -> base_ok lk bk n (x_bus x) /\ vn_of n (x_bus x) <> None) ->
  (forall l, In l (loads n) -> vn_of n (l_bus l) <> None) -> (forall s, In s (shunts n) -> vn_of n (s_bus s) <> None) ->
  (forall w, In w (wards n) -> vn_of n (w_bus w) <> None) ->
  bus_row lk bk m r =r= bus_row lk bk n r /\ pu_eq (sn m) (bus_row lk bk m r) (sn n) (bus_row lk bk n r).
Proof. exact replace_xwards_bus_rows. Qed.
Print Assumptions C23_xward_replacement_bus_rows.
Example C23_xward_replacement_nonvacuous : exists m,
  replace_xwards w_rnet [2%nat] = Ok m /\ NoDup [2%nat] /\ NoDup (map x_id (xwards w_rnet)) /\
  (forall x, In x (xwards w_rnet) -> base_ok (fun x => x) (fun _ => 20) w_rnet (x_bus x) /\ vn_of w_rnet (x_bus x) <> None) /\
  List.length (buses m) = 3%nat /\ List.length (imps m) = 1%nat /\ xwards m = [].
Proof. exact replace_xwards_nonvacuous. Qed.
Print Assumptions C23_xward_replacement_nonvacuous.
(* the voltage source behind r + jx: the ppc branch of the created impedance (C02.Model.impedance_branch, per unit on its own
   sn_mva = net.sn_mva) and the PV set point of the created gen equal the xward's internal branch (C02.Model.xward_branch,
   r_ohm / (BASE_KV^2 / sn_mva)) and set point (VG = vm_pu, PG = 0) — for every xward, rated voltage and net.sn_mva *)
Theorem C23_xward_voltage_source_equiv : forall snet basekv vn nb x,
  basekv == vn -> ~ vn == 0 -> ~ snet == 0 ->
  vsrc_eq (vsrc_of_internal snet (xward_imped false snet vn x) (xward_gen nb x)) (vsrc_of_xward snet basekv true x).
Proof. exact xward_vsrc. Qed.
Print Assumptions C23_xward_voltage_source_equiv.
(* the rule before "fix: replace_xward_by_internal_elements converts the xward impedance to per unit with net.sn_mva" *)
Theorem C23_xward_voltage_source_old_partial : forall snet basekv vn nb x,
  snet == 1 -> basekv == vn -> ~ vn == 0 ->
  vsrc_eq (vsrc_of_internal snet (xward_imped true snet vn x) (xward_gen nb x)) (vsrc_of_xward snet basekv true x).
Proof. exact xward_vsrc_old_partial. Qed.
Print Assumptions C23_xward_voltage_source_old_partial.
Theorem C23_xward_voltage_source_old_refuted : exists snet vn nb x, ~ vn == 0 /\ ~ snet == 0 /\
  ~ z_r (vsrc_of_internal snet (xward_imped true snet vn x) (xward_gen nb x)) == z_r (vsrc_of_xward snet vn true x).
Proof. exact xward_vsrc_old_refuted. Qed.
Print Assumptions C23_xward_voltage_source_old_refuted.

(* replace_ext_grid_by_gen(slack=True): what the element writes into the ppc row of its bus (reference flag, VM, VA).
   Full statement (all ext_grids) is false: a gen has no angle set point; it holds under G23e (va_degree = 0 or
   calculate_voltage_angles = False); reference flag and VM survive always; slack=False (the default) loses the reference *)
Theorem C23_ext_grid_by_gen_partial : forall cva bis p e, G23e cva e = true ->
  vref_eq (vref_of_gen bis (egrid_gen true p e)) (vref_of_egrid cva bis e).
Proof. exact egrid_vref_partial. Qed.
Print Assumptions C23_ext_grid_by_gen_partial.
Theorem C23_ext_grid_by_gen_refuted : exists cva bis p e, ~ vref_eq (vref_of_gen bis (egrid_gen true p e)) (vref_of_egrid cva bis e).
Proof. exact egrid_vref_refuted. Qed.
Print Assumptions C23_ext_grid_by_gen_refuted.
Theorem C23_ext_grid_by_gen_vm_and_reference : forall cva bis p e,
  match vref_of_gen bis (egrid_gen true p e), vref_of_egrid cva bis e with
  | Some u, Some v => is_ref u = is_ref v /\ vm_set u == vm_set v
  | None, None => True | _, _ => False end.
Proof. exact egrid_vm_ref. Qed.
Print Assumptions C23_ext_grid_by_gen_vm_and_reference.
Theorem C23_ext_grid_by_gen_noslack_refuted : exists cva bis p e, G23e cva e = true /\
  ~ vref_eq (vref_of_gen bis (egrid_gen false p e)) (vref_of_egrid cva bis e).
Proof. exact egrid_noslack_refuted. Qed.
Print Assumptions C23_ext_grid_by_gen_noslack_refuted.
End Repl.

(* ====================================================================== fuse_buses (C23/Fuse.v on C07.Model.net)
   rep n = the bus -> root bus lookup of the power flow build (C07.Model, proved in C07/UnionFind.v to be the partition by
   fusing switches); sb b1 b2s = the rerouting b2 -> b1.  If every fused bus already shares the ppc row of b1, the partition of
   the buses into ppc rows is the same before and after fuse_buses — in particular for b2 behind a closed bus-bus switch
   without impedance (G23f); across an open switch it is not. *)
Module Fuse.
Import Base.C07Graph C07.Model C07.UnionFind C23.Fuse C23.FuseProofs.
Theorem C23_fuse_buses_partition : forall n b1 b2s,
  (forall x, in_b2 b1 b2s x = true -> rep n x = rep n b1) ->
  forall a b, rep (fuse_buses n b1 b2s) (sb b1 b2s a) = rep (fuse_buses n b1 b2s) (sb b1 b2s b) <-> rep n a = rep n b.
Proof. exact fuse_partition_rep. Qed.
Print Assumptions C23_fuse_buses_partition.
Theorem C23_fuse_closed_switch_partition : forall n b1 b2, G23f n b1 b2 = true ->
  forall a b, rep (fuse_buses n b1 [b2]) (sb b1 [b2] a) = rep (fuse_buses n b1 [b2]) (sb b1 [b2] b) <-> rep n a = rep n b.
Proof. exact fuse_closed_switch_partition. Qed.
Print Assumptions C23_fuse_closed_switch_partition.
Theorem C23_fuse_surviving_buses_partition : forall n b1 b2s,
  (forall x, in_b2 b1 b2s x = true -> rep n x = rep n b1) ->
  forall a b, in_b2 b1 b2s a = false -> in_b2 b1 b2s b = false ->
  (rep (fuse_buses n b1 b2s) a = rep (fuse_buses n b1 b2s) b <-> rep n a = rep n b).
Proof. exact fuse_partition_surviving_rep. Qed.
Print Assumptions C23_fuse_surviving_buses_partition.
Theorem C23_fuse_open_switch_refuted : exists n b1 b2 a b,
  ~ (rep (fuse_buses n b1 [b2]) (sb b1 [b2] a) = rep (fuse_buses n b1 [b2]) (sb b1 [b2] b) <-> rep n a = rep n b).
Proof. exact fuse_open_switch_refuted. Qed.
Print Assumptions C23_fuse_open_switch_refuted.
Example C23_fuse_closed_switch_nonvacuous :
  G23f w_net_closed 1 2 = true /\ rep w_net_closed 1 = rep w_net_closed 2 /\ rep w_net_closed 0 <> rep w_net_closed 1.
Proof. exact fuse_nonvacuous. Qed.
Print Assumptions C23_fuse_closed_switch_nonvacuous.
End Fuse.
