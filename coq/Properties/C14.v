(* C14 — property theorems (statements only; proofs are in C14/Proofs.v) *)
From Coq Require Import ZArith QArith List Bool.
From Coq Require Import String.
From PPV Require Import Base.QN Base.Out C14.Model C14.Proofs C14.Write C14.WriteProofs.
Import ListNotations.

(* the reported maximum is the maximum over the converged cases in which the element is in service
   (its own outage has in_service = false and is excluded); None/NaN iff there is no such case *)
Theorem C14_max_is_spec_max : forall l,
  match mx (run_col l acc0) with None => valid_vals l = [] | Some m => is_max m (valid_vals l) end.
Proof. exact max_is_spec_max. Qed.
Print Assumptions C14_max_is_spec_max.

Theorem C14_min_is_spec_min : forall l,
  match mn (run_col l acc0) with None => valid_vals l = [] | Some m => is_min m (valid_vals l) end.
Proof. exact min_is_spec_min. Qed.
Print Assumptions C14_min_is_spec_min.

(* cause_element/cause_index name a valid case that attains the reported maximum *)
Theorem C14_cause_attains_max : forall l,
  attains l (cause (run_col l acc0)) (mx (run_col l acc0)).
Proof. exact cause_attains_max. Qed.
Print Assumptions C14_cause_attains_max.

(* the table-level fold of the impl is the per-element fold on each column *)
Theorem C14_table_is_columns : forall n cases j,
  (j < n)%nat -> (forall c, In c cases -> nth_error (rows c) j <> None) ->
  nth_error (run_table n cases) j = Some (run_col (col j cases) acc0).
Proof. exact run_table_col. Qed.
Print Assumptions C14_table_is_columns.

Theorem C14_causes_overloading_iff : forall cases c,
  causes_overloading cases c = true <->
  exists k, In k cases /\ lab k = c /\ exists o, In o (rows k) /\ gt (o_val o) (o_lim o) = true.
Proof. exact causes_overloading_iff. Qed.
Print Assumptions C14_causes_overloading_iff.

Theorem C14_in_service_restored : forall idxs raises raise_errors l,
  fst (run_loop idxs raises raise_errors l) = l.
Proof. exact in_service_restored. Qed.
Print Assumptions C14_in_service_restored.

(* the pre-repair update rule violates the cause statement (regression witness) *)
Theorem C14_old_cause_refuted :
  exists l, ~ attains l (cause (run_col_old true l acc0)) (mx (run_col_old true l acc0)).
Proof. exact old_cause_refuted. Qed.
Print Assumptions C14_old_cause_refuted.

(* ======== table level: whole run_contingency with the evaluation function as an input (C14/Write.v) ======== *)
Open Scope string_scope.

(* N-0 = plain power flow: whatever outages are listed, whichever of them raise, and whatever the min/max fold
   accumulated, the <var> entry of every returned table dict is the result of the evaluation made after the
   N-1 loop (call number n_evals = number of in-service listed outages) on the INITIAL in_service flags ins0
   (no outage), and the flags are ins0 again afterwards *)
Theorem C14_n0_is_plain_pf : forall ev lims outs tabs ins0 r,
  run_contingency_m ev lims outs tabs ins0 = Some r ->
  exists v0, ev (n_evals outs ins0) ins0 = Some v0 /\ r_ins r = ins0 /\
    forall i ts d, nth_error tabs i = Some ts -> nth_error (r_dicts r) i = Some d ->
      dget d (t_var ts) = Some (map ooq (slice (t_off ts) (t_len ts) v0)).
Proof. exact n0_is_plain_pf. Qed.
Print Assumptions C14_n0_is_plain_pf.

(* for an evaluation function that is a function of the net state, the N-0 entries do not depend on the N-1 case
   list or the limits at all *)
Theorem C14_n0_independent_of_cases : forall (ev : evalT) lims lims' outs outs' tabs ins0 r r',
  (forall k k' l, ev k l = ev k' l) ->
  run_contingency_m ev lims outs tabs ins0 = Some r ->
  run_contingency_m ev lims' outs' tabs ins0 = Some r' ->
  forall i ts d d', nth_error tabs i = Some ts ->
    nth_error (r_dicts r) i = Some d -> nth_error (r_dicts r') i = Some d' ->
    dget d (t_var ts) = dget d' (t_var ts).
Proof. exact n0_independent_of_cases. Qed.
Print Assumptions C14_n0_independent_of_cases.
Example C14_n0_is_plain_pf_nonvacuous :
  exists r d, run_contingency_m ex_ev ex_lims ex_outs ex_tabs ex_ins = Some r /\
    n_evals ex_outs ex_ins = 3%nat /\ List.length (r_trace r) = 4%nat /\
    nth_error (r_dicts r) 0 = Some d /\
    dget d "loading_percent" = Some [OQ 40 1; OQ 40 1; OQ 0 1] /\
    dget d "max_loading_percent" = Some [ONone; OQ 30 1; ONone].
Proof. exact n0_is_plain_pf_nonvacuous. Qed.

(* write_to_net, for ANY res table t and ANY dict d with distinct keys (python dicts have distinct keys;
   C14_result_dict_keys_nodup shows it for the model's dict):
   (1) exactly the listed keys (all keys except "index" and the names already present) become new columns, in dict order *)
Theorem C14_write_columns_exact : forall d t, NoDup (map fst d) ->
  map fst (write_table t d) = (map fst t ++ listed t d)%list.
Proof. exact write_columns. Qed.
Print Assumptions C14_write_columns_exact.
Theorem C14_write_only_listed : forall t d c, NoDup (map fst d) ->
  has_col (write_table t d) c = true -> has_col t c = true \/ In c (listed t d).
Proof. exact write_only_listed. Qed.
Print Assumptions C14_write_only_listed.
(* (2) frame: the table before is a prefix of the table afterwards: every pre-existing column (also one whose name
   is a key of the dict, e.g. loading_percent, vm_pu or a stale max_loading_percent) keeps position, name and values *)
Theorem C14_write_frame_prefix : forall t d, firstn (List.length t) (write_table t d) = t.
Proof. exact write_frame_prefix. Qed.
Print Assumptions C14_write_frame_prefix.
Theorem C14_write_frame : forall t d c, has_col t c = true -> tget (write_table t d) c = tget t c.
Proof. exact write_frame. Qed.
Print Assumptions C14_write_frame.
(* (3) the values of a written column are the dict entry *)
Theorem C14_write_values : forall d t k v, NoDup (map fst d) -> In (k, v) d -> k <> "index" -> has_col t k = false ->
  tget (write_table t d) k = Some v.
Proof. exact write_values. Qed.
Print Assumptions C14_write_values.
Theorem C14_result_dict_keys_nodup : forall ts cases n0,
  t_var ts = "loading_percent" \/ t_var ts = "vm_pu" -> NoDup (map fst (result_dict ts cases n0)).
Proof. exact result_dict_keys_nodup. Qed.
Print Assumptions C14_result_dict_keys_nodup.

(* the documented columns (docstring of run_contingency): a branch table that has loading_percent and none of the
   five names gets exactly these five, a bus table max_vm_pu/min_vm_pu; without any successful N-1 case no max_/min_ *)
Theorem C14_written_columns_branch : forall ts c cases n0 t,
  t_bus ts = false -> t_var ts = "loading_percent" -> has_col t "loading_percent" = true ->
  (forall k, In k (branch_keys ++ ["max_loading_percent"; "min_loading_percent"])%list -> has_col t k = false) ->
  map fst (write_table t (result_dict ts (c :: cases) n0)) =
  (map fst t ++ ["causes_overloading"; "cause_element"; "cause_index"; "max_loading_percent"; "min_loading_percent"])%list.
Proof. exact written_columns_branch. Qed.
Print Assumptions C14_written_columns_branch.
Theorem C14_written_columns_bus : forall ts c cases n0 t,
  t_bus ts = true -> t_var ts = "vm_pu" -> has_col t "vm_pu" = true ->
  (forall k, In k ["max_vm_pu"; "min_vm_pu"] -> has_col t k = false) ->
  map fst (write_table t (result_dict ts (c :: cases) n0)) = (map fst t ++ ["max_vm_pu"; "min_vm_pu"])%list.
Proof. exact written_columns_bus. Qed.
Print Assumptions C14_written_columns_bus.
Theorem C14_written_columns_no_case : forall ts n0 t,
  t_bus ts = false -> t_var ts = "loading_percent" -> has_col t "loading_percent" = true ->
  (forall k, In k branch_keys -> has_col t k = false) ->
  map fst (write_table t (result_dict ts [] n0)) = (map fst t ++ branch_keys)%list.
Proof. exact written_columns_no_case. Qed.
Print Assumptions C14_written_columns_no_case.
(* the written max_loading_percent column is the aggregated maximum of C14_max_is_spec_max / C14_table_is_columns *)
Theorem C14_written_max_is_fold : forall ts c cases n0 t,
  t_bus ts = false -> t_var ts = "loading_percent" -> has_col t "max_loading_percent" = false ->
  tget (write_table t (result_dict ts (c :: cases) n0)) "max_loading_percent" =
  Some (map (fun a => ooq (mx a)) (run_table (t_len ts) (tab_cases ts (c :: cases)))).
Proof. exact written_max_is_fold. Qed.
Print Assumptions C14_written_max_is_fold.
Example C14_write_frame_nonvacuous :
  exists r d, run_contingency_m ex_ev ex_lims ex_outs ex_tabs ex_ins = Some r /\ nth_error (r_dicts r) 0 = Some d /\
    map fst (write_table ex_table d) =
      ["loading_percent"; "p_from_mw"; "cause_index"; "causes_overloading"; "cause_element"; "max_loading_percent"; "min_loading_percent"] /\
    listed ex_table d = ["causes_overloading"; "cause_element"; "max_loading_percent"; "min_loading_percent"] /\
    tget (write_table ex_table d) "cause_index" = Some [OZ 7; OZ 7; OZ 7] /\
    dget d "cause_index" = Some [OZ (-1); OZ 5; OZ (-1)] /\
    tget (write_table ex_table d) "loading_percent" = Some [OZ 1; OZ 2; OZ 3] /\
    tget (write_table ex_table d) "causes_overloading" = Some [OB true; OB false; OB false].
Proof. exact write_frame_nonvacuous. Qed.
