(* C14 — property theorems (statements only; proofs are in C14/Proofs.v) *)
From Coq Require Import ZArith QArith List Bool.
From PPV Require Import Base.QN C14.Model C14.Proofs.
Import ListNotations.

(* the reported maximum is the maximum over the converged cases in which the element is in service
   (its own outage has in_service = false and is excluded); None/NaN iff there is no such case *)
Theorem C14_max_is_spec_max : forall l,
  match mx (run_col l acc0) with None => valid_vals l = [] | Some m => is_max m (valid_vals l) end.
Proof. exact max_is_spec_max. Qed.
Print Assumptions C14_max_is_spec_max.

Theorem C14_min_is_spec_min : forall l,
  match mn (run_col l acc0) with None => valid_vals l = [] | Some m => is_min m (valid_vals l) end.
Proof. exact min_is_spec_min. Qed.
Print Assumptions C14_min_is_spec_min.

(* cause_element/cause_index name a valid case that attains the reported maximum *)
Theorem C14_cause_attains_max : forall l,
  attains l (cause (run_col l acc0)) (mx (run_col l acc0)).
Proof. exact cause_attains_max. Qed.
Print Assumptions C14_cause_attains_max.

(* the table-level fold of the impl is the per-element fold on each column *)
Theorem C14_table_is_columns : forall n cases j,
  (j < n)%nat -> (forall c, In c cases -> nth_error (rows c) j <> None) ->
  nth_error (run_table n cases) j = Some (run_col (col j cases) acc0).
Proof. exact run_table_col. Qed.
Print Assumptions C14_table_is_columns.

Theorem C14_causes_overloading_iff : forall cases c,
  causes_overloading cases c = true <->
  exists k, In k cases /\ lab k = c /\ exists o, In o (rows k) /\ gt (o_val o) (o_lim o) = true.
Proof. exact causes_overloading_iff. Qed.
Print Assumptions C14_causes_overloading_iff.

Theorem C14_in_service_restored : forall idxs raises raise_errors l,
  fst (run_loop idxs raises raise_errors l) = l.
Proof. exact in_service_restored. Qed.
Print Assumptions C14_in_service_restored.

(* the pre-repair update rule violates the cause statement (regression witness) *)
Theorem C14_old_cause_refuted :
  exists l, ~ attains l (cause (run_col_old true l acc0)) (mx (run_col_old true l acc0)).
Proof. exact old_cause_refuted. Qed.
Print Assumptions C14_old_cause_refuted.
