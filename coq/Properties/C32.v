(* C32 — characteristics interpolate through their support points (statements only; proofs in C32/Proofs.v) *)
From Coq Require Import ZArith QArith List Bool.
From PPV Require Import Base.QN C32.Model C32.Proofs.
Import ListNotations.
Open Scope Q_scope.

(* Characteristic (numpy.interp): for strictly increasing x data the curve returns y_i at every x_i ... *)
Theorem C32_interp_through_points : forall l p, sorted l -> In p l ->
  exists v, interp (fst p) l = Some v /\ v == snd p.
Proof. exact interp_through_points. Qed.
Print Assumptions C32_interp_through_points.

(* ... stays between the two neighbouring support values on every segment (any y data) ... *)
Theorem C32_interp_within_neighbours : forall l p q x, sorted l -> consec p q l -> fst p <= x -> x <= fst q ->
  exists v, interp x l = Some v /\ between (snd p) (snd q) v.
Proof. exact interp_within_neighbours. Qed.
Print Assumptions C32_interp_within_neighbours.
Example C32_interp_nonvacuous :
  sorted [(0, 1); (1, 3); (2 # 1, 2 # 1)] /\ consec (1, 3) (2 # 1, 2 # 1) [(0, 1); (1, 3); (2 # 1, 2 # 1)] /\
  interp (3 # 2) [(0, 1); (1, 3); (2 # 1, 2 # 1)] = Some (5 # 2).
Proof. split; [simpl; repeat split; reflexivity|]. split; [right; left; split; reflexivity | reflexivity]. Qed.

(* ... and is constant beyond the ends *)
Theorem C32_interp_clamps : forall l a x,
  (x <= fst a -> interp x (a :: l) = Some (snd a)) /\
  ((forall q, In q (a :: l) -> fst q <= x) -> sorted (a :: l) -> exists v, interp x (a :: l) = Some v /\ v == snd (last l a)).
Proof. intros l a x. split; [apply interp_left_clamp | apply interp_right_clamp]. Qed.
Print Assumptions C32_interp_clamps.

(* SplineCharacteristic(Pchip): passes through every support point, whatever slopes were chosen *)
Theorem C32_pchip_through_points : forall l p v, sorted l -> In p l -> pchip (fst p) l = Some v -> v == snd p.
Proof. exact pchip_through_points. Qed.
Print Assumptions C32_pchip_through_points.
Example C32_pchip_nonvacuous : pchip 1 [(0, 0); (1, 1); (3 # 1, 2 # 1)] = Some 1 /\ slopes [(0, 0); (1, 1); (3 # 1, 2 # 1)] = Some [7 # 6; 9 # 13; 1 # 6].
Proof. split; vm_compute; reflexivity. Qed.

(* shape preservation (Fritsch-Carlson): a Hermite piece whose end slopes lie in [0, 3*secant] stays between its end values;
   the interior and the end slopes scipy computes for nondecreasing data lie in that box *)
Theorem C32_pchip_piece_monotone_range : forall x0 y0 d0 x1 y1 d1 x s,
  x0 < x1 -> x0 <= x -> x <= x1 -> y1 - y0 == (x1 - x0) * s ->
  0 <= d0 -> d0 <= 3 * s -> 0 <= d1 -> d1 <= 3 * s ->
  y0 <= hermite x0 y0 d0 x1 y1 d1 x /\ hermite x0 y0 d0 x1 y1 d1 x <= y1.
Proof. exact hermite_range. Qed.
Print Assumptions C32_pchip_piece_monotone_range.
Theorem C32_pchip_slopes_in_box : forall h1 d1 h2 d2, 0 < h1 -> 0 < h2 -> 0 <= d1 -> 0 <= d2 ->
  0 <= slope_in h1 d1 h2 d2 /\ slope_in h1 d1 h2 d2 <= 3 * d1 /\ slope_in h1 d1 h2 d2 <= 3 * d2.
Proof. exact slope_in_box. Qed.
Print Assumptions C32_pchip_slopes_in_box.
Theorem C32_pchip_edge_slope_in_box : forall h0 h1 m0 m1, 0 < h0 -> 0 < h1 -> 0 <= m0 -> 0 <= m1 ->
  0 <= slope_edge h0 h1 m0 m1 /\ slope_edge h0 h1 m0 m1 <= 3 * m0.
Proof. exact slope_edge_box. Qed.
Print Assumptions C32_pchip_edge_slope_in_box.

(* LogSplineCharacteristic = 10 ** f(log10 x): pass-through and range carry over through any order isomorphism
   (log10, 10** are Section variables with their contract; no axiom) *)
Theorem C32_log_through : forall (lg pw : Q -> Q),
  (forall y, 0 < y -> pw (lg y) == y) -> (forall a b, a == b -> pw a == pw b) ->
  forall (f : Q -> Q) x y, 0 < y -> f (lg x) == lg y -> pw (f (lg x)) == y.
Proof. intros lg pw H1 H2 f x y. apply (log_through lg pw H1 H2). Qed.
Print Assumptions C32_log_through.
Theorem C32_log_between : forall (lg pw : Q -> Q),
  (forall y, 0 < y -> pw (lg y) == y) -> (forall a b, a <= b -> pw a <= pw b) ->
  forall (f : Q -> Q) x y0 y1, 0 < y0 -> 0 < y1 -> lg y0 <= f (lg x) -> f (lg x) <= lg y1 ->
  y0 <= pw (f (lg x)) /\ pw (f (lg x)) <= y1.
Proof. intros lg pw H1 H2 f x y0 y1. apply (log_between lg pw H1 H2). Qed.
Print Assumptions C32_log_between.
