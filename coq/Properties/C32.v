(* C32 — characteristics interpolate through their support points (statements only; proofs in C32/Proofs.v) *)
From Coq Require Import ZArith QArith List Bool.
From PPV Require Import Base.QN C32.Model C32.Proofs C32.Whole.
Import ListNotations.
Open Scope Q_scope.

(* Characteristic (numpy.interp): for strictly increasing x data the curve returns y_i at every x_i ... *)
Theorem C32_interp_through_points : forall l p, sorted l -> In p l ->
  exists v, interp (fst p) l = Some v /\ v == snd p.
Proof. exact interp_through_points. Qed.
Print Assumptions C32_interp_through_points.

(* ... stays between the two neighbouring support values on every segment (any y data) ... *)
Theorem C32_interp_within_neighbours : forall l p q x, sorted l -> consec p q l -> fst p <= x -> x <= fst q ->
  exists v, interp x l = Some v /\ between (snd p) (snd q) v.
Proof. exact interp_within_neighbours. Qed.
Print Assumptions C32_interp_within_neighbours.
Example C32_interp_nonvacuous :
  sorted [(0, 1); (1, 3); (2 # 1, 2 # 1)] /\ consec (1, 3) (2 # 1, 2 # 1) [(0, 1); (1, 3); (2 # 1, 2 # 1)] /\
  interp (3 # 2) [(0, 1); (1, 3); (2 # 1, 2 # 1)] = Some (5 # 2).
Proof. split; [simpl; repeat split; reflexivity|]. split; [right; left; split; reflexivity | reflexivity]. Qed.

(* ... and is constant beyond the ends *)
Theorem C32_interp_clamps : forall l a x,
  (x <= fst a -> interp x (a :: l) = Some (snd a)) /\
  ((forall q, In q (a :: l) -> fst q <= x) -> sorted (a :: l) -> exists v, interp x (a :: l) = Some v /\ v == snd (last l a)).
Proof. intros l a x. split; [apply interp_left_clamp | apply interp_right_clamp]. Qed.
Print Assumptions C32_interp_clamps.

(* SplineCharacteristic(Pchip): passes through every support point, whatever slopes were chosen *)
Theorem C32_pchip_through_points : forall l p v, sorted l -> In p l -> pchip (fst p) l = Some v -> v == snd p.
Proof. exact pchip_through_points. Qed.
Print Assumptions C32_pchip_through_points.
Example C32_pchip_nonvacuous : pchip 1 [(0, 0); (1, 1); (3 # 1, 2 # 1)] = Some 1 /\ slopes [(0, 0); (1, 1); (3 # 1, 2 # 1)] = Some [7 # 6; 9 # 13; 1 # 6].
Proof. split; vm_compute; reflexivity. Qed.

(* shape preservation (Fritsch-Carlson): a Hermite piece whose end slopes lie in [0, 3*secant] stays between its end values;
   the interior and the end slopes scipy computes for nondecreasing data lie in that box *)
Theorem C32_pchip_piece_monotone_range : forall x0 y0 d0 x1 y1 d1 x s,
  x0 < x1 -> x0 <= x -> x <= x1 -> y1 - y0 == (x1 - x0) * s ->
  0 <= d0 -> d0 <= 3 * s -> 0 <= d1 -> d1 <= 3 * s ->
  y0 <= hermite x0 y0 d0 x1 y1 d1 x /\ hermite x0 y0 d0 x1 y1 d1 x <= y1.
Proof. exact hermite_range. Qed.
Print Assumptions C32_pchip_piece_monotone_range.
Theorem C32_pchip_slopes_in_box : forall h1 d1 h2 d2, 0 < h1 -> 0 < h2 -> 0 <= d1 -> 0 <= d2 ->
  0 <= slope_in h1 d1 h2 d2 /\ slope_in h1 d1 h2 d2 <= 3 * d1 /\ slope_in h1 d1 h2 d2 <= 3 * d2.
Proof. exact slope_in_box. Qed.
Print Assumptions C32_pchip_slopes_in_box.
Theorem C32_pchip_edge_slope_in_box : forall h0 h1 m0 m1, 0 < h0 -> 0 < h1 -> 0 <= m0 -> 0 <= m1 ->
  0 <= slope_edge h0 h1 m0 m1 /\ slope_edge h0 h1 m0 m1 <= 3 * m0.
Proof. exact slope_edge_box. Qed.
Print Assumptions C32_pchip_edge_slope_in_box.

(* the whole Pchip curve (composition of the piece and slope lemmas over the support list, C32/Whole.v): for strictly increasing
   abscissae and nondecreasing (nonincreasing) ordinates the characteristic is defined, stays between the two neighbouring
   support values on every segment, and is monotone on the whole range [x_0, x_n] *)
Theorem C32_pchip_monotone_data_within_neighbours : forall l p q x, sorted l -> consec p q l -> fst p <= x -> x <= fst q ->
  (nondecreasing l -> exists v, pchip x l = Some v /\ snd p <= v /\ v <= snd q) /\
  (nonincreasing l -> exists v, pchip x l = Some v /\ snd q <= v /\ v <= snd p).
Proof.
  intros l p q x Hs Hc X1 X2. split; intros Hm; [apply pchip_nondec_within | apply pchip_noninc_within]; assumption.
Qed.
Print Assumptions C32_pchip_monotone_data_within_neighbours.
Theorem C32_pchip_monotone_data_monotone_curve : forall a t x x', t <> [] -> sorted (a :: t) ->
  fst a <= x -> x <= x' -> x' <= fst (last t a) ->
  (nondecreasing (a :: t) -> exists v v', pchip x (a :: t) = Some v /\ pchip x' (a :: t) = Some v' /\ v <= v') /\
  (nonincreasing (a :: t) -> exists v v', pchip x (a :: t) = Some v /\ pchip x' (a :: t) = Some v' /\ v' <= v).
Proof.
  intros a t x x' Hne Hs X1 X2 X3. split; intros Hm; [apply pchip_nondec_monotone | apply pchip_noninc_monotone]; assumption.
Qed.
Print Assumptions C32_pchip_monotone_data_monotone_curve.
(* every node slope scipy computes lies in the Fritsch-Carlson box of both neighbouring segments (what the two theorems rest on) *)
Theorem C32_pchip_all_slopes_in_box : forall p t, t <> [] -> incr p t ->
  (nondec p t -> exists S, slopes (p :: t) = Some S /\ boxedD boxP (deltas p t) S) /\
  (noninc p t -> exists S, slopes (p :: t) = Some S /\ boxedD boxN (deltas p t) S).
Proof. intros p t Hne Hi. split; intros Hm; [apply slopes_boxP | apply slopes_boxN]; assumption. Qed.
Print Assumptions C32_pchip_all_slopes_in_box.
Example C32_pchip_whole_nonvacuous :
  sorted [(0, 0); (1, 1); (3 # 1, 2 # 1)] /\ nondecreasing [(0, 0); (1, 1); (3 # 1, 2 # 1)] /\
  consec (1, 1) (3 # 1, 2 # 1) [(0, 0); (1, 1); (3 # 1, 2 # 1)] /\ pchip (2 # 1) [(0, 0); (1, 1); (3 # 1, 2 # 1)] = Some (509 # 312) /\
  sorted [(0, 5 # 1); (1, 1); (3 # 1, 1); (4 # 1, 0)] /\ nonincreasing [(0, 5 # 1); (1, 1); (3 # 1, 1); (4 # 1, 0)] /\
  pchip (1 # 2) [(0, 5 # 1); (1, 1); (3 # 1, 1); (4 # 1, 0)] = Some (7 # 3).
Proof.
  repeat split; try (vm_compute; congruence); try (right; left; split; reflexivity).
Qed.

(* LogSplineCharacteristic(interpolator_kind="Pchip") as a whole: 10 ** pchip(log10 x) over (log10 x_i, log10 y_i), for every pair
   lg / pw with the order contract of log10 / 10** (pw (lg y) = y for y > 0, both monotone): positive monotone data give a
   curve between the neighbouring support values on every segment and monotone on [x_0, x_n] *)
Theorem C32_logspline_pchip_within_neighbours : forall (lg pw : Q -> Q),
  (forall y, 0 < y -> pw (lg y) == y) -> (forall a b, a <= b -> pw a <= pw b) ->
  (forall a b, 0 < a -> a <= b -> lg a <= lg b) -> (forall a b, 0 < a -> a < b -> lg a < lg b) ->
  forall l p q x, positive l -> sorted l -> consec p q l -> fst p <= x -> x <= fst q ->
  (nondecreasing l -> exists v, logspline lg pw l x = Some v /\ snd p <= v /\ v <= snd q) /\
  (nonincreasing l -> exists v, logspline lg pw l x = Some v /\ snd q <= v /\ v <= snd p).
Proof.
  intros lg pw H1 H2 H3 H4 l p q x Hp Hs Hc X1 X2. split; intros Hm;
    [apply (logspline_nondec_within lg pw H1 H2 H3 H4) | apply (logspline_noninc_within lg pw H1 H2 H3 H4)]; assumption.
Qed.
Print Assumptions C32_logspline_pchip_within_neighbours.
Theorem C32_logspline_pchip_monotone_curve : forall (lg pw : Q -> Q),
  (forall y, 0 < y -> pw (lg y) == y) -> (forall a b, a <= b -> pw a <= pw b) ->
  (forall a b, 0 < a -> a <= b -> lg a <= lg b) -> (forall a b, 0 < a -> a < b -> lg a < lg b) ->
  forall a t x x', t <> [] -> positive (a :: t) -> sorted (a :: t) -> fst a <= x -> x <= x' -> x' <= fst (last t a) ->
  (nondecreasing (a :: t) -> exists v v', logspline lg pw (a :: t) x = Some v /\ logspline lg pw (a :: t) x' = Some v' /\ v <= v') /\
  (nonincreasing (a :: t) -> exists v v', logspline lg pw (a :: t) x = Some v /\ logspline lg pw (a :: t) x' = Some v' /\ v' <= v).
Proof.
  intros lg pw H1 H2 H3 H4 a t x x' Hne Hp Hs X1 X2 X3. split; intros Hm;
    [apply (logspline_nondec_monotone lg pw H2 H3 H4) | apply (logspline_noninc_monotone lg pw H2 H3 H4)]; assumption.
Qed.
Print Assumptions C32_logspline_pchip_monotone_curve.
(* the contract is satisfiable (identity pair): the theorems are not vacuous in lg / pw *)
Example C32_logspline_contract_nonvacuous :
  let lg := fun y : Q => y in let pw := fun y : Q => y in
  (forall y, 0 < y -> pw (lg y) == y) /\ (forall a b, a <= b -> pw a <= pw b) /\
  (forall a b, 0 < a -> a <= b -> lg a <= lg b) /\ (forall a b, 0 < a -> a < b -> lg a < lg b) /\
  positive [(1, 4 # 1); (2 # 1, 1)] /\ logspline lg pw [(1, 4 # 1); (2 # 1, 1)] (3 # 2) = Some (5 # 2).
Proof.
  simpl. repeat split; try (intros; assumption); try reflexivity;
    try (destruct H as [<-|[<-|[]]]; reflexivity).
Qed.

(* LogSplineCharacteristic = 10 ** f(log10 x): pass-through and range carry over through any order isomorphism
   (log10, 10** are Section variables with their contract; no axiom) *)
Theorem C32_log_through : forall (lg pw : Q -> Q),
  (forall y, 0 < y -> pw (lg y) == y) -> (forall a b, a == b -> pw a == pw b) ->
  forall (f : Q -> Q) x y, 0 < y -> f (lg x) == lg y -> pw (f (lg x)) == y.
Proof. intros lg pw H1 H2 f x y. apply (log_through lg pw H1 H2). Qed.
Print Assumptions C32_log_through.
Theorem C32_log_between : forall (lg pw : Q -> Q),
  (forall y, 0 < y -> pw (lg y) == y) -> (forall a b, a <= b -> pw a <= pw b) ->
  forall (f : Q -> Q) x y0 y1, 0 < y0 -> 0 < y1 -> lg y0 <= f (lg x) -> f (lg x) <= lg y1 ->
  y0 <= pw (f (lg x)) /\ pw (f (lg x)) <= y1.
Proof. intros lg pw H1 H2 f x y0 y1. apply (log_between lg pw H1 H2). Qed.
Print Assumptions C32_log_between.
