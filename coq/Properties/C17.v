(* C17 — property theorems (statements only; proofs are in C17/*.v) *)
From Coq Require Import ZArith QArith List Bool.
From PPV Require Import Base.QN C17.Model C17.Proofs C17.KKT C17.Table C17.Pwl C17.Rows.
Import ListNotations.
Open Scope Q_scope.

(* the gencost row written for an active-power poly entry, evaluated by polycost at the generator variable
   res_sign * p of an element whose own result power is p, is the user's polynomial c2 p^2 + c1 p + c0 —
   for every element kind (gen, sgen, ext_grid: res_sign = 1; load, storage, dcline: res_sign = -1) *)
Theorem C17_poly_cost : forall t isq c0 c1 c2 p,
  (isq = false -> c2 == 0) ->
  polycost (row_of (cells_of isq (sign_p t) c2 c1 c0)) (res_sign t * p) == user_poly c0 c1 c2 p.
Proof. exact poly_cost. Qed.
Print Assumptions C17_poly_cost.

(* regression: the rule before the repair (all coefficients times the sign) violates the statement, holds only under
   G17old, and deviates by exactly -2 (c2 p^2 + c0) for load / storage / dcline *)
Theorem C17_poly_cost_old_refuted :
  exists t isq c0 c1 c2 p, (isq = false -> c2 == 0) /\
    ~ polycost (row_of (cells_of_old isq (sign_p t) c2 c1 c0)) (res_sign t * p) == user_poly c0 c1 c2 p.
Proof. exact poly_cost_old_refuted. Qed.
Print Assumptions C17_poly_cost_old_refuted.
Theorem C17_poly_cost_old_partial : forall t isq c0 c1 c2 p,
  (isq = false -> c2 == 0) -> G17old t c0 c2 = true ->
  polycost (row_of (cells_of_old isq (sign_p t) c2 c1 c0)) (res_sign t * p) == user_poly c0 c1 c2 p.
Proof. exact poly_cost_old_partial. Qed.
Print Assumptions C17_poly_cost_old_partial.
Theorem C17_poly_cost_old_deviation : forall t isq c0 c1 c2 p,
  (isq = false -> c2 == 0) -> is_neg_et t = true ->
  polycost (row_of (cells_of_old isq (sign_p t) c2 c1 c0)) (res_sign t * p)
  == user_poly c0 c1 c2 p - 2 * (c2 * p * p + c0).
Proof. exact poly_cost_old_deviation. Qed.
Print Assumptions C17_poly_cost_old_deviation.

(* reactive power: likewise for every element kind (the dcline takes the sign -1 for q as res_dcline.q_from_mvar = -Qg) *)
Theorem C17_poly_qcost : forall t isq c0 c1 c2 q,
  (isq = false -> c2 == 0) ->
  polycost (row_of (cells_of isq (sign_q t) c2 c1 c0)) (res_sign t * q) == user_poly c0 c1 c2 q.
Proof. exact poly_qcost. Qed.
Print Assumptions C17_poly_qcost.
(* regression: the reactive sign rule before the repair (dcline +1) holds only without a linear term on a dcline *)
Theorem C17_poly_qcost_old_refuted :
  exists t isq c0 c1 c2 q, (isq = false -> c2 == 0) /\
    ~ polycost (row_of (cells_of isq (sign_q_old t) c2 c1 c0)) (res_sign t * q) == user_poly c0 c1 c2 q.
Proof. exact poly_qcost_old_refuted. Qed.
Print Assumptions C17_poly_qcost_old_refuted.
Theorem C17_poly_qcost_old_partial : forall t isq c0 c1 c2 q,
  (isq = false -> c2 == 0) -> G17q_old t c1 = true ->
  polycost (row_of (cells_of isq (sign_q_old t) c2 c1 c0)) (res_sign t * q) == user_poly c0 c1 c2 q.
Proof. exact poly_qcost_old_partial. Qed.
Print Assumptions C17_poly_qcost_old_partial.

Example C17_nonvacuous : G17old Load 0 0 = true /\ G17old Gen 5 2 = true /\ G17q_old Storage 1 = true /\ G17q_old Dcline 0 = true.
Proof. repeat split. Qed.

(* whole table: when the mapped row indices are valid and pairwise distinct, after all writes of _fill_gencost_poly
   (no reactive costs) every entry's own row evaluates to the user's polynomial at the element's own power and every
   row without an entry costs 0 — so the objective is the sum of the user's cost functions *)
Theorem C17_poly_rows_spec : forall (isq : bool) (gcs : list (Z * pcost)) (rows : nat),
  (forall gc, In gc gcs -> (0 <= fst gc < Z.of_nat rows)%Z) -> NoDup (map fst gcs) ->
  (isq = false -> forall gc, In gc gcs -> cp2 (snd gc) == 0) ->
  exists m', writes _ fst (fun gc => p_cells isq (snd gc)) gcs (repeat (zero_row isq) rows) = Ok m' /\
    List.length m' = rows /\
    (forall gc p, In gc gcs -> exists r, nth_error m' (Z.to_nat (fst gc)) = Some r /\
        polycost r (res_sign (pc_et (snd gc)) * p) == user_poly (cp0 (snd gc)) (cp1 (snd gc)) (cp2 (snd gc)) p) /\
    (forall j x, (j < rows)%nat -> (forall gc, In gc gcs -> Z.to_nat (fst gc) <> j) ->
        exists r, nth_error m' j = Some r /\ polycost r x == 0).
Proof. exact poly_rows_spec. Qed.
Print Assumptions C17_poly_rows_spec.

Theorem C17_fill_poly_is_writes : forall e m cs isq,
  fill_poly e m cs isq false
  = bind (map_costs e (fun c => (pc_et c, pc_el c)) cs) (fun gcs => writes _ fst (fun gc => p_cells isq (snd gc)) gcs m).
Proof. exact fill_poly_is_writes. Qed.
Print Assumptions C17_fill_poly_is_writes.

(* the table WITH reactive cost rows (q_costs = true: 2 ng rows, reactive writes at row g + ng after the active ones):
   every entry owns its active row g and its reactive row g + ng, which evaluate to the user's active / reactive
   polynomial at the element's own p / q; all other rows cost 0 *)
Theorem C17_poly_rows_spec_q : forall (isq : bool) (gcs : list (Z * pcost)) (ngn : nat),
  (forall gc, In gc gcs -> (0 <= fst gc < Z.of_nat ngn)%Z) -> NoDup (map fst gcs) ->
  (isq = false -> forall gc, In gc gcs -> cp2 (snd gc) == 0 /\ cq2 (snd gc) == 0) ->
  exists m', fill_writes isq ngn gcs (repeat (zero_row isq) (2 * ngn)) = Ok m' /\
    List.length m' = (2 * ngn)%nat /\
    (forall gc p q, In gc gcs -> exists rp rq,
        nth_error m' (Z.to_nat (fst gc)) = Some rp /\ nth_error m' (Z.to_nat (fst gc) + ngn) = Some rq /\
        polycost rp (res_sign (pc_et (snd gc)) * p) == user_poly (cp0 (snd gc)) (cp1 (snd gc)) (cp2 (snd gc)) p /\
        polycost rq (res_sign (pc_et (snd gc)) * q) == user_poly (cq0 (snd gc)) (cq1 (snd gc)) (cq2 (snd gc)) q) /\
    (forall j x, (j < 2 * ngn)%nat ->
        (forall gc, In gc gcs -> Z.to_nat (fst gc) <> j /\ (Z.to_nat (fst gc) + ngn)%nat <> j) ->
        exists r, nth_error m' j = Some r /\ polycost r x == 0).
Proof. exact poly_rows_spec_q. Qed.
Print Assumptions C17_poly_rows_spec_q.

Theorem C17_fill_poly_q_is_writes : forall e m cs isq,
  fill_poly e m cs isq true
  = bind (map_costs e (fun c => (pc_et c, pc_el c)) cs) (fun gcs => fill_writes isq (ng e) gcs m).
Proof. exact fill_poly_q_is_writes. Qed.
Print Assumptions C17_fill_poly_q_is_writes.

(* ... and stated on _fill_gencost_poly itself: with lookups that point into the ppc gen table the row bounds need not be
   assumed, they follow from _map_costs_to_gen / _get_gen_index (no negative row, no wrap-around) *)
Theorem C17_fill_poly_q_spec : forall e cs isq gcs,
  lookups_below e -> map_costs e (fun c => (pc_et c, pc_el c)) cs = Ok gcs -> NoDup (map fst gcs) ->
  (isq = false -> forall gc, In gc gcs -> cp2 (snd gc) == 0 /\ cq2 (snd gc) == 0) ->
  exists m', fill_poly e (repeat (zero_row isq) (2 * ng e)) cs isq true = Ok m' /\
    List.length m' = (2 * ng e)%nat /\
    (forall gc p q, In gc gcs -> exists rp rq,
        nth_error m' (Z.to_nat (fst gc)) = Some rp /\ nth_error m' (Z.to_nat (fst gc) + ng e) = Some rq /\
        polycost rp (res_sign (pc_et (snd gc)) * p) == user_poly (cp0 (snd gc)) (cp1 (snd gc)) (cp2 (snd gc)) p /\
        polycost rq (res_sign (pc_et (snd gc)) * q) == user_poly (cq0 (snd gc)) (cq1 (snd gc)) (cq2 (snd gc)) q) /\
    (forall j x, (j < 2 * ng e)%nat ->
        (forall gc, In gc gcs -> Z.to_nat (fst gc) <> j /\ (Z.to_nat (fst gc) + ng e)%nat <> j) ->
        exists r, nth_error m' j = Some r /\ polycost r x == 0).
Proof. exact fill_poly_q_spec. Qed.
Print Assumptions C17_fill_poly_q_spec.

Example C17_poly_rows_q_nonvacuous :
  exists m', fill_writes true 2
      [(1%Z, {| pc_et := Load; pc_el := 0; cp0 := 5; cp1 := 2; cp2 := 1; cq0 := 3; cq1 := 1; cq2 := 1 # 2 |})]
      (repeat (zero_row true) 4) = Ok m' /\
    nth_error m' 1 = Some {| g_model := 2; g_ncost := 3; g_c := [1; -2; 5] |} /\
    nth_error m' 3 = Some {| g_model := 2; g_ncost := 3; g_c := [1 # 2; -1; 3] |}.
Proof. exact poly_rows_q_nonvacuous. Qed.

(* _map_costs_to_gen / _get_gen_index: the mapped list holds exactly the entries that have a row; a row index is the
   lookup value of the element and never negative; an element outside the ppc (lookup value -1) has NO row, its entry
   writes nothing; with lookups into the ppc gen table every mapped row is a valid row *)
Theorem C17_map_costs_in : forall e (cs : list pcost) gcs, map_costs e (fun c => (pc_et c, pc_el c)) cs = Ok gcs ->
  forall g c, In (g, c) gcs <-> In c cs /\ get_gen_index e (pc_et c) (pc_el c) = Ok (Some g).
Proof. exact (fun e cs => map_costs_in e (fun c => (pc_et c, pc_el c)) cs). Qed.
Print Assumptions C17_map_costs_in.
Theorem C17_row_index_is_lookup_nonneg : forall e t el g, t <> Dcline -> get_gen_index e t el = Ok (Some g) ->
  lookup_get (lookup_of e t) el = Some g /\ (0 <= g)%Z.
Proof. exact (fun e t el g Ht H => conj (get_gen_index_is_lookup e t el g Ht H) (get_gen_index_nonneg e t el g H)). Qed.
Print Assumptions C17_row_index_is_lookup_nonneg.
Theorem C17_absent_element_no_row : forall e t el v, t <> Dcline ->
  lookup_get (lookup_of e t) el = Some v -> (v < 0)%Z -> get_gen_index e t el = Ok None.
Proof. exact absent_element_no_row. Qed.
Print Assumptions C17_absent_element_no_row.
Theorem C17_absent_element_dropped : forall e (c : pcost) cs v, pc_et c <> Dcline ->
  lookup_get (lookup_of e (pc_et c)) (pc_el c) = Some v -> (v < 0)%Z ->
  map_costs e (fun c => (pc_et c, pc_el c)) (c :: cs) = map_costs e (fun c => (pc_et c, pc_el c)) cs.
Proof. exact (fun e => absent_element_dropped e (fun c => (pc_et c, pc_el c))). Qed.
Print Assumptions C17_absent_element_dropped.
Theorem C17_map_costs_rows_valid : forall e (cs : list pcost) gcs, lookups_below e ->
  map_costs e (fun c => (pc_et c, pc_el c)) cs = Ok gcs -> forall gc, In gc gcs -> (0 <= fst gc < Z.of_nat (ng e))%Z.
Proof. exact (fun e => map_costs_rows_valid e (fun c => (pc_et c, pc_el c))). Qed.
Print Assumptions C17_map_costs_rows_valid.
(* regression: before the repair the value -1 was used as the row index and addressed the last row of the table *)
Theorem C17_absent_old_refuted :
  get_gen_index_wrap_old env_absent Sgen 0 = Ok (Some (-1)%Z) /\
  (exists m', write_row (repeat (zero_row false) 2) (-1) 2 [7; 0] = Ok m' /\
              nth_error m' 1 = Some {| g_model := 2; g_ncost := 2; g_c := [7; 0] |}) /\
  get_gen_index env_absent Sgen 0 = Ok None.
Proof. exact absent_old_refuted. Qed.
Print Assumptions C17_absent_old_refuted.

(* dcline, position -> label: net.gen = user's gens ++ auxiliary gens (to-bus, from-bus per dcline, in the order of
   net.dcline).  The cost entry of the dcline labelled el, k-th row of net.dcline, addresses the ppc row of the gen
   labelled aux[2k+1] — its from-bus generator — for any (gapped, unsorted) labels *)
Theorem C17_dcline_row_spec : forall e (user aux : list Z) k el lab,
  gen_labels e = user ++ aux -> List.length aux = (2 * List.length (dcl_index e))%nat ->
  n_gen_tab e = Z.of_nat (List.length (gen_labels e)) -> NoDup (dcl_index e) ->
  nth_error (dcl_index e) k = Some el -> nth_error aux (2 * k + 1) = Some lab ->
  get_gen_index e Dcline el = Ok (nonneg (lookup_get (lk_gen e) lab)).
Proof. exact dcline_row_spec. Qed.
Print Assumptions C17_dcline_row_spec.
Example C17_dcline_row_spec_nonvacuous :
  gen_labels env_gapped = [0; 2]%Z ++ [3; 4]%Z /\ nth_error (dcl_index env_gapped) 0 = Some 0%Z /\
  get_gen_index env_gapped Dcline 0 = Ok (Some 4%Z).
Proof. exact dcline_row_spec_nonvacuous. Qed.

(* piecewise linear cost with one area: for every element kind the gencost row, evaluated as the OPF objective
   evaluates it at the generator variable res_sign * p, is the user's function slope * p *)
Theorem C17_pwl_single_area : forall t l u sl p, ~ u == l ->
  exists v, obj_of_res (pwl_row t [(l, u, sl)]) (res_sign t * p) = Some v /\ v == user_pwl [(l, u, sl)] p.
Proof. exact pwl_single_area. Qed.
Print Assumptions C17_pwl_single_area.

(* two convex areas: for every element kind (load / storage / dcline with mirrored breakpoints) the cost variable of the
   row — the maximum of its segment lines — is the user's function at the element's own power *)
Theorem C17_pwl_two_areas : forall t l m u s1 s2 p, l < m -> m < u -> s1 <= s2 ->
  exists v, obj_of_res (pwl_row t [(l, m, s1); (m, u, s2)]) (res_sign t * p) = Some v
            /\ v == user_pwl [(l, m, s1); (m, u, s2)] p.
Proof. exact pwl_two_areas. Qed.
Print Assumptions C17_pwl_two_areas.

(* ANY number of consecutive areas with non-decreasing slopes (convex_areas = consecutive && nondecr_slopes), every
   element kind (load / storage / dcline: breakpoints mirrored and listed in reverse): the value the OPF objective
   gives the row at the generator variable res_sign * p is the user's function at the element's own power p *)
Theorem C17_pwl_convex_areas : forall t pts p, pts <> [] -> convex_areas pts = true ->
  exists v, obj_of_res (pwl_row t pts) (res_sign t * p) = Some v /\ v == user_pwl pts p.
Proof. exact pwl_convex_areas. Qed.
Print Assumptions C17_pwl_convex_areas.

(* the cost-variable formulation itself (makeAy: m * Pg - y <= m p_i - c_i for every segment): the values y that satisfy
   all constraints of the row are exactly those with y >= user function, hence the minimised cost variable is the user's
   function — no appeal to "y is the maximum of the lines" *)
Theorem C17_pwl_ccv_min : forall t pts p, pts <> [] -> convex_areas pts = true ->
  exists r, pwl_row t pts = Ok r /\
    forall y, ay_feasible r (res_sign t * p) y <-> user_pwl pts p <= y.
Proof. exact pwl_ccv_min. Qed.
Print Assumptions C17_pwl_ccv_min.

Example C17_pwl_convex_nonvacuous :
  convex_areas [(0, 2, 1); (2, 3, 3); (3, 5, 4)] = true /\
  obj_of_res (pwl_row Load [(0, 2, 1); (2, 3, 3); (3, 5, 4)]) (res_sign Load * (5 # 2)) = Some (7 # 2) /\
  user_pwl [(0, 2, 1); (2, 3, 3); (3, 5, 4)] (5 # 2) == 7 # 2.
Proof. exact pwl_convex_nonvacuous. Qed.

(* convexity is needed (pypower's formulation cannot represent a concave cost): decreasing slopes on a gen *)
Theorem C17_pwl_nonconvex_refuted :
  exists t pts p, consecutive pts = true /\
    forall v, obj_of_res (pwl_row t pts) (res_sign t * p) = Some v -> ~ v == user_pwl pts p.
Proof. exact pwl_nonconvex_refuted. Qed.
Print Assumptions C17_pwl_nonconvex_refuted.

(* regression: costs_from_areas before the repair (values times sign, breakpoints not mirrored) on a load *)
Theorem C17_pwl_old_refuted :
  exists t pts p, consecutive pts = true /\
    forall v, obj_of_res (pwl_row_old t pts) (res_sign t * p) = Some v -> ~ v == user_pwl pts p.
Proof. exact pwl_old_refuted. Qed.
Print Assumptions C17_pwl_old_refuted.

(* dcline cost entries address the row of the from-bus generator's index label; regression of the positional rule *)
Theorem C17_dcline_row_is_from_gen : forall e el k lab,
  index_of (dcl_index e) el 0 = Some k -> np_get (gen_labels e) (dcl_pos e k) = Some lab ->
  get_gen_index e Dcline el = Ok (nonneg (lookup_get (lk_gen e) lab)).
Proof. exact dcline_row_is_from_gen. Qed.
Print Assumptions C17_dcline_row_is_from_gen.
Theorem C17_dcline_row_old_refuted :
  get_gen_index_old env_gapped Dcline 0 = Ok (Some 3%Z) /\ get_gen_index env_gapped Dcline 0 = Ok (Some 4%Z).
Proof. exact dcline_row_old_refuted. Qed.
Print Assumptions C17_dcline_row_old_refuted.

(* a constant reactive cost creates the reactive rows; regression of the old q_costs test *)
Theorem C17_cq0_creates_q_rows : forall c ws, ~ cq0 c == 0 -> q_costs [c] ws = true.
Proof. exact cq0_creates_q_rows. Qed.
Print Assumptions C17_cq0_creates_q_rows.
Theorem C17_cq0_old_refuted : exists c, ~ cq0 c == 0 /\ q_costs_old [c] [] = false.
Proof. exact cq0_old_refuted. Qed.
Print Assumptions C17_cq0_old_refuted.

(* every row is evaluated at its own variable; regression of the reactive cost-variable column offset *)
Theorem C17_var_index_own : forall ngn i r, var_index ngn i r = i.
Proof. exact var_index_own. Qed.
Print Assumptions C17_var_index_own.
Theorem C17_var_index_old_refuted : exists ngn i r, var_index_old ngn i r <> i.
Proof. exact var_index_old_refuted. Qed.
Print Assumptions C17_var_index_old_refuted.

(* DC OPF is a convex program: any KKT point of  min sum a_i x_i^2 + b_i x_i + c_i  (a_i >= 0)
   s.t. A x = b, G x <= h  is a global minimiser *)
Theorem C17_kkt_global_min : forall cs A b G h x lam mu,
  Forall (fun c => 0 <= qa c) cs -> length x = length cs ->
  KKT cs A b G h x lam mu ->
  forall y, length y = length cs -> eq_feasible A b y -> le_feasible G h y ->
  cost cs x <= cost cs y.
Proof. exact kkt_global_min. Qed.
Print Assumptions C17_kkt_global_min.

Example C17_kkt_nonvacuous :
  KKT [{| qa := 1; qb := 0; qc := 0 |}; {| qa := 1; qb := 2; qc := 0 |}] [[1; 1]] [2] [[0; 1]] [1 # 4]
      [7 # 4; 1 # 4] [- (7 # 2)] [1].
Proof. exact kkt_example. Qed.
