(* C17 — property theorems (statements only; proofs are in C17/*.v) *)
From Coq Require Import ZArith QArith List Bool.
From PPV Require Import Base.QN C17.Model C17.Proofs C17.KKT C17.Table.
Import ListNotations.
Open Scope Q_scope.

(* the gencost row written for an active-power poly entry, evaluated by polycost at the generator variable
   res_sign * p of an element whose own result power is p, is the user's polynomial c2 p^2 + c1 p + c0 —
   for every element kind (gen, sgen, ext_grid: res_sign = 1; load, storage, dcline: res_sign = -1) *)
Theorem C17_poly_cost : forall t isq c0 c1 c2 p,
  (isq = false -> c2 == 0) ->
  polycost (row_of (cells_of isq (sign_p t) c2 c1 c0)) (res_sign t * p) == user_poly c0 c1 c2 p.
Proof. exact poly_cost. Qed.
Print Assumptions C17_poly_cost.

(* regression: the rule before the repair (all coefficients times the sign) violates the statement, holds only under
   G17old, and deviates by exactly -2 (c2 p^2 + c0) for load / storage / dcline *)
Theorem C17_poly_cost_old_refuted :
  exists t isq c0 c1 c2 p, (isq = false -> c2 == 0) /\
    ~ polycost (row_of (cells_of_old isq (sign_p t) c2 c1 c0)) (res_sign t * p) == user_poly c0 c1 c2 p.
Proof. exact poly_cost_old_refuted. Qed.
Print Assumptions C17_poly_cost_old_refuted.
Theorem C17_poly_cost_old_partial : forall t isq c0 c1 c2 p,
  (isq = false -> c2 == 0) -> G17old t c0 c2 = true ->
  polycost (row_of (cells_of_old isq (sign_p t) c2 c1 c0)) (res_sign t * p) == user_poly c0 c1 c2 p.
Proof. exact poly_cost_old_partial. Qed.
Print Assumptions C17_poly_cost_old_partial.
Theorem C17_poly_cost_old_deviation : forall t isq c0 c1 c2 p,
  (isq = false -> c2 == 0) -> is_neg_et t = true ->
  polycost (row_of (cells_of_old isq (sign_p t) c2 c1 c0)) (res_sign t * p)
  == user_poly c0 c1 c2 p - 2 * (c2 * p * p + c0).
Proof. exact poly_cost_old_deviation. Qed.
Print Assumptions C17_poly_cost_old_deviation.

(* reactive power: likewise for every element kind (the dcline takes the sign -1 for q as res_dcline.q_from_mvar = -Qg) *)
Theorem C17_poly_qcost : forall t isq c0 c1 c2 q,
  (isq = false -> c2 == 0) ->
  polycost (row_of (cells_of isq (sign_q t) c2 c1 c0)) (res_sign t * q) == user_poly c0 c1 c2 q.
Proof. exact poly_qcost. Qed.
Print Assumptions C17_poly_qcost.
(* regression: the reactive sign rule before the repair (dcline +1) holds only without a linear term on a dcline *)
Theorem C17_poly_qcost_old_refuted :
  exists t isq c0 c1 c2 q, (isq = false -> c2 == 0) /\
    ~ polycost (row_of (cells_of isq (sign_q_old t) c2 c1 c0)) (res_sign t * q) == user_poly c0 c1 c2 q.
Proof. exact poly_qcost_old_refuted. Qed.
Print Assumptions C17_poly_qcost_old_refuted.
Theorem C17_poly_qcost_old_partial : forall t isq c0 c1 c2 q,
  (isq = false -> c2 == 0) -> G17q_old t c1 = true ->
  polycost (row_of (cells_of isq (sign_q_old t) c2 c1 c0)) (res_sign t * q) == user_poly c0 c1 c2 q.
Proof. exact poly_qcost_old_partial. Qed.
Print Assumptions C17_poly_qcost_old_partial.

Example C17_nonvacuous : G17old Load 0 0 = true /\ G17old Gen 5 2 = true /\ G17q_old Storage 1 = true /\ G17q_old Dcline 0 = true.
Proof. repeat split. Qed.

(* whole table: when the mapped row indices are valid and pairwise distinct, after all writes of _fill_gencost_poly
   (no reactive costs) every entry's own row evaluates to the user's polynomial at the element's own power and every
   row without an entry costs 0 — so the objective is the sum of the user's cost functions *)
Theorem C17_poly_rows_spec : forall (isq : bool) (gcs : list (Z * pcost)) (rows : nat),
  (forall gc, In gc gcs -> (0 <= fst gc < Z.of_nat rows)%Z) -> NoDup (map fst gcs) ->
  (isq = false -> forall gc, In gc gcs -> cp2 (snd gc) == 0) ->
  exists m', writes _ fst (fun gc => p_cells isq (snd gc)) gcs (repeat (zero_row isq) rows) = Ok m' /\
    List.length m' = rows /\
    (forall gc p, In gc gcs -> exists r, nth_error m' (Z.to_nat (fst gc)) = Some r /\
        polycost r (res_sign (pc_et (snd gc)) * p) == user_poly (cp0 (snd gc)) (cp1 (snd gc)) (cp2 (snd gc)) p) /\
    (forall j x, (j < rows)%nat -> (forall gc, In gc gcs -> Z.to_nat (fst gc) <> j) ->
        exists r, nth_error m' j = Some r /\ polycost r x == 0).
Proof. exact poly_rows_spec. Qed.
Print Assumptions C17_poly_rows_spec.

Theorem C17_fill_poly_is_writes : forall e m cs isq,
  fill_poly e m cs isq false
  = bind (map_costs e (fun c => (pc_et c, pc_el c)) cs) (fun gcs => writes _ fst (fun gc => p_cells isq (snd gc)) gcs m).
Proof. exact fill_poly_is_writes. Qed.
Print Assumptions C17_fill_poly_is_writes.

(* piecewise linear cost with one area: for every element kind the gencost row, evaluated as the OPF objective
   evaluates it at the generator variable res_sign * p, is the user's function slope * p *)
Theorem C17_pwl_single_area : forall t l u sl p, ~ u == l ->
  exists v, obj_of_res (pwl_row t [(l, u, sl)]) (res_sign t * p) = Some v /\ v == user_pwl [(l, u, sl)] p.
Proof. exact pwl_single_area. Qed.
Print Assumptions C17_pwl_single_area.

(* two convex areas: for every element kind (load / storage / dcline with mirrored breakpoints) the cost variable of the
   row — the maximum of its segment lines — is the user's function at the element's own power *)
Theorem C17_pwl_two_areas : forall t l m u s1 s2 p, l < m -> m < u -> s1 <= s2 ->
  exists v, obj_of_res (pwl_row t [(l, m, s1); (m, u, s2)]) (res_sign t * p) = Some v
            /\ v == user_pwl [(l, m, s1); (m, u, s2)] p.
Proof. exact pwl_two_areas. Qed.
Print Assumptions C17_pwl_two_areas.

(* regression: costs_from_areas before the repair (values times sign, breakpoints not mirrored) on a load *)
Theorem C17_pwl_old_refuted :
  exists t pts p, consecutive pts = true /\
    forall v, obj_of_res (pwl_row_old t pts) (res_sign t * p) = Some v -> ~ v == user_pwl pts p.
Proof. exact pwl_old_refuted. Qed.
Print Assumptions C17_pwl_old_refuted.

(* dcline cost entries address the row of the from-bus generator's index label; regression of the positional rule *)
Theorem C17_dcline_row_is_from_gen : forall e el k lab,
  index_of (dcl_index e) el 0 = Some k -> np_get (gen_labels e) (dcl_pos e k) = Some lab ->
  get_gen_index e Dcline el = Ok (nonneg (lookup_get (lk_gen e) lab)).
Proof. exact dcline_row_is_from_gen. Qed.
Print Assumptions C17_dcline_row_is_from_gen.
Theorem C17_dcline_row_old_refuted :
  get_gen_index_old env_gapped Dcline 0 = Ok (Some 3%Z) /\ get_gen_index env_gapped Dcline 0 = Ok (Some 4%Z).
Proof. exact dcline_row_old_refuted. Qed.
Print Assumptions C17_dcline_row_old_refuted.

(* a constant reactive cost creates the reactive rows; regression of the old q_costs test *)
Theorem C17_cq0_creates_q_rows : forall c ws, ~ cq0 c == 0 -> q_costs [c] ws = true.
Proof. exact cq0_creates_q_rows. Qed.
Print Assumptions C17_cq0_creates_q_rows.
Theorem C17_cq0_old_refuted : exists c, ~ cq0 c == 0 /\ q_costs_old [c] [] = false.
Proof. exact cq0_old_refuted. Qed.
Print Assumptions C17_cq0_old_refuted.

(* every row is evaluated at its own variable; regression of the reactive cost-variable column offset *)
Theorem C17_var_index_own : forall ngn i r, var_index ngn i r = i.
Proof. exact var_index_own. Qed.
Print Assumptions C17_var_index_own.
Theorem C17_var_index_old_refuted : exists ngn i r, var_index_old ngn i r <> i.
Proof. exact var_index_old_refuted. Qed.
Print Assumptions C17_var_index_old_refuted.

(* DC OPF is a convex program: any KKT point of  min sum a_i x_i^2 + b_i x_i + c_i  (a_i >= 0)
   s.t. A x = b, G x <= h  is a global minimiser *)
Theorem C17_kkt_global_min : forall cs A b G h x lam mu,
  Forall (fun c => 0 <= qa c) cs -> length x = length cs ->
  KKT cs A b G h x lam mu ->
  forall y, length y = length cs -> eq_feasible A b y -> le_feasible G h y ->
  cost cs x <= cost cs y.
Proof. exact kkt_global_min. Qed.
Print Assumptions C17_kkt_global_min.

Example C17_kkt_nonvacuous :
  KKT [{| qa := 1; qb := 0; qc := 0 |}; {| qa := 1; qb := 2; qc := 0 |}] [[1; 1]] [2] [[0; 1]] [1 # 4]
      [7 # 4; 1 # 4] [- (7 # 2)] [1].
Proof. exact kkt_example. Qed.
