(* C04 — setpoints and response laws: property theorems (proofs in C04/Proofs.v, C01/Balance.v).
   srcs = in-service voltage sources (ext_grid, gen, slack gen, xward) in the order they are written into the ppc;
   bus_vm/bus_va/bus_type = what build_gen.py leaves in ppc["bus"]; the Newton solver keeps |V| (and the angle at REF)
   of REF/PV buses at these values (solver contract, checked per run).
   qrun solve qlim2 gens = the loop of _run_ac_pf_with_qlims_enforced over an arbitrary PF oracle [solve]. *)
From Coq Require Import ZArith QArith Qabs List Bool.
From PPV Require Import Base.QN Base.QC C01.Model C01.Proofs C01.Balance C04.Model C04.Proofs C04.Demand.
Import ListNotations.
Open Scope Q_scope.

(* ext_grid / gen setpoints: the value written to a bus is the setpoint of one of its in-service sources, every bus
   with a source gets one, and when the setpoints at the bus agree it is the setpoint of each of them *)
Theorem C04_bus_setpoint_is_a_source : forall srcs k v,
  bus_vm srcs k = Some v -> exists s, In s srcs /\ v_bus s = k /\ v_vm s = v.
Proof. exact bus_vm_is_source. Qed.
Print Assumptions C04_bus_setpoint_is_a_source.

Theorem C04_setpoint_held : forall srcs k s v,
  same_vm srcs k = true -> In s srcs -> v_bus s = k -> bus_vm srcs k = Some v -> v_vm s == v.
Proof. exact same_vm_holds. Qed.
Print Assumptions C04_setpoint_held.

(* setpoints accepted by _check_voltage_setpoints_at_same_bus (np.allclose) differ from the bus value by at most
   twice the allclose tolerance: "exactly" holds only up to rtol 1e-5 when users give slightly different values *)
Theorem C04_setpoint_tolerance : forall srcs k s v f,
  setpoints_consistent srcs = true -> In s srcs -> v_bus s = k -> bus_vm srcs k = Some v -> first_vm srcs k = Some f ->
  Qabs (v_vm s - v) <= 2 * (ATOL + RTOL * Qabs f).
Proof. exact consistent_close. Qed.
Print Assumptions C04_setpoint_tolerance.

Theorem C04_reference_bus_iff : forall srcs k,
  bus_type srcs k = 3%nat <-> exists s, In s srcs /\ v_bus s = k /\ is_ref_kind s = true.
Proof. exact bus_type_ref. Qed.
Print Assumptions C04_reference_bus_iff.

(* Q-limit loop, for every PF oracle, both modes (all violations / largest violation only) and every gen table *)
Theorem C04_qlim_terminates : forall solve qlim2 gens, qrun solve qlim2 gens <> QErr 3.
Proof. exact qrun_terminates. Qed.
Print Assumptions C04_qlim_terminates.

Theorem C04_qlim_exit_within_limits : forall solve qlim2 gens st qg c i g,
  qrun solve qlim2 gens = QDone st qg c ->
  nthg gens i = Some g -> g_on g = true -> g_ref g = false -> memn i (limited st) = false ->
  g_qmin g <= final_qg st qg i <= g_qmax g.
Proof. exact qrun_within_limits. Qed.
Print Assumptions C04_qlim_exit_within_limits.

Theorem C04_qlim_limited_sit_at_limit : forall solve qlim2 gens st qg c i,
  qrun solve qlim2 gens = QDone st qg c -> In i (limited st) ->
  (exists g, nthg gens i = Some g /\ g_on g = true /\ g_ref g = false) /\
  (final_qg st qg i = qmax_of gens i \/ final_qg st qg i = qmin_of gens i).
Proof. exact qrun_limited_at_limit. Qed.
Print Assumptions C04_qlim_limited_sit_at_limit.

(* the loop never raises the IndexError of the largest-violation selection (both modes, every oracle) ... *)
Theorem C04_qlim_no_index_error : forall solve qlim2 gens, qrun solve qlim2 gens <> QErr 1.
Proof. intros. apply qloop_no_index_error. Qed.
Print Assumptions C04_qlim_no_index_error.
(* ... which the rule before the repair (`if k > len(mx)`) did on a single lower-limit violation *)
Theorem C04_qlim2_old_index_error :
  select_old true g2 [0; -2] [] [1%nat] = SelErr /\ select true g2 [0; -2] [] [1%nat] = SelOk [] [1%nat].
Proof. exact select_old_index_error. Qed.
Print Assumptions C04_qlim2_old_index_error.
Example C04_qlim_nonvacuous : exists st qg c,
  qrun (fun l => match l with [] => Some [0; -2] | _ => Some [-1; 0] end) true g2 = QDone st qg c
  /\ limited st = [1%nat] /\ final_qg st qg 1 = -1.
Proof. exact qlim2_same_input_ok. Qed.
Print Assumptions C04_qlim_nonvacuous.

(* the PYPOWER algorithms run the same loop; their rule before the repair exempted gens with a zero limit *)
Theorem C04_pypower_old_zero_limit_refuted :
  viol_max_old_pypower gz [] [0; 7#4] = [] /\ viol_max gz [] [0; 7#4] = [1%nat].
Proof. exact pypower_old_zero_limit_refuted. Qed.
Print Assumptions C04_pypower_old_zero_limit_refuted.

(* pfsoln addresses the gens of a reference bus by row; the rule before the repair used positions in the list of switched-on
   gens, which differ as soon as an earlier row is off (PYPOWER q-limit loop) *)
Theorem C04_pfsoln_old_row_index_refuted : gens_at_bus_old grow 2 = [1%nat] /\ gens_at_bus_rows grow 2 = [2%nat].
Proof. exact pfsoln_old_row_index_refuted. Qed.
Print Assumptions C04_pfsoln_old_row_index_refuted.

(* the whole call: when every in-service bus is a reference bus powerflow.py bypasses the solver and with it the q-limit
   loop, so the limit statement holds under the guard G04b (some bus is PV or PQ) and is refuted without it *)
Theorem C04_qlim_within_limits_partial : forall srcs nb solve qlim2 gens st qg c i g,
  G04b srcs nb = true -> run_q srcs nb solve qlim2 gens = QDone st qg c ->
  nthg gens i = Some g -> g_on g = true -> g_ref g = false -> memn i (limited st) = false ->
  g_qmin g <= final_qg st qg i <= g_qmax g.
Proof. exact run_q_within_limits. Qed.
Print Assumptions C04_qlim_within_limits_partial.
Theorem C04_qlim_bypass_refuted :
  G04b byp_srcs 2 = false /\
  exists st qg c, run_q byp_srcs 2 (fun _ => Some [0; 3; 3]) false byp_gens = QDone st qg c /\
                  limited st = [] /\ ~ final_qg st qg 2 <= g_qmax (mkGen 1 1 1 (-1) 1 0 true false).
Proof. exact run_q_bypass_refuted. Qed.
Print Assumptions C04_qlim_bypass_refuted.

(* non-slack gens deliver their setpoint: rows at non-reference buses, and non-reference rows sharing a reference bus *)
Theorem C04_gen_keeps_p_setpoint : forall n ref g v s,
  memn (g_bus g) ref = false \/ (g_ref g = false /\ (1 < length (gens_on_at n (g_bus g)))%nat) ->
  pg_after n ref g v s = g_pg g.
Proof. exact pg_after_keeps. Qed.
Print Assumptions C04_gen_keeps_p_setpoint.

(* response laws of the result tables *)
Theorem C04_load_law : forall n l v, vdl n = true -> l_on l = true ->
  res_load_p n l v == load_law_p l v /\ res_load_q n l v == load_law_q l v.
Proof. intros. split; [apply load_law_p_holds | apply load_law_q_holds]; assumption. Qed.
Print Assumptions C04_load_law.
Theorem C04_load_constant_power_when_option_off : forall n l v, vdl n = false -> l_on l = true ->
  res_load_p n l v == l_p l * l_sc l /\ res_load_q n l v == l_q l * l_sc l.
Proof. exact load_const_when_vdl_off. Qed.
Print Assumptions C04_load_constant_power_when_option_off.
Theorem C04_shunt_law : forall s v, s_on s = true -> ~ s_vn s == 0 ->
  res_sh_p s v == shunt_law_p s v /\ res_sh_q s v == shunt_law_q s v.
Proof. exact shunt_law_holds. Qed.
Print Assumptions C04_shunt_law.
Theorem C04_pq_results_are_setpoints : forall e, e_on e = true ->
  res_pq_p e == e_p e * e_sc e /\ res_pq_q e == e_q e * e_sc e.
Proof. exact pq_setpoint. Qed.
Print Assumptions C04_pq_results_are_setpoints.

(* ---- the PD/QD backup / restore history of _run_ac_pf_with_qlims_enforced (run_newton_raphson_pf.py:182-250), for EVERY iteration
   history.  passes = the violating passes of the loop (bus PD / gen PG columns left by ppci_to_pfsoln are arbitrary oracle data, the
   rows limited by the pass with their limit), fresh_passes = a pass limits rows that are not limited yet, rows_ok = GEN_BUS of the
   limited rows points into the bus table.  drun = the demand columns the next PF call sees. *)
(* QD seen by the solver = backup minus the limit of every limited row of the bus, each limit counted exactly once although the
   loop subtracts gen[i, QG] for ALL limited rows in every pass (pfsoln has zeroed the QG of the rows switched off earlier) *)
Theorem C04_qlim_demand_qd : forall gbus pd0 qd0 passes k,
  rows_ok gbus (length qd0) passes -> fresh_passes [] passes = true ->
  nth k (ds_qd (drun gbus pd0 qd0 passes)) 0 == nth k qd0 0 - fixed_total gbus k passes.
Proof. exact demand_qd. Qed.
Print Assumptions C04_qlim_demand_qd.
(* PD seen by the solver = the column the last pfsoln left (the backup, plus the distributed slack share where pfsoln writes it)
   minus the PG of every limited row of the bus *)
Theorem C04_qlim_demand_pd : forall gbus pd0 qd0 passes p k,
  (forall i, In i (ds_lim (drun gbus pd0 qd0 (passes ++ [p]))) -> (gbus i < length (ps_pd1 p))%nat) ->
  nth k (ds_pd (drun gbus pd0 qd0 (passes ++ [p]))) 0 ==
  nth k (ps_pd1 p) 0 - sumf (fun i => nth i (ps_pg p) 0)
                            (filter (fun i => Nat.eqb (gbus i) k) (ds_lim (drun gbus pd0 qd0 (passes ++ [p])))).
Proof. exact demand_pd. Qed.
Print Assumptions C04_qlim_demand_pd.
(* frame: after the loop the bus QD column is the column before the loop, for every history; PD is the column the last pfsoln
   wrote, i.e. the column before the loop whenever pfsoln does not write PD (no distributed slack) *)
Theorem C04_qlim_demand_frame : forall gbus pd0 qd0 passes last_pd1 k,
  rows_ok gbus (length qd0) passes -> fresh_passes [] passes = true ->
  nth k (snd (dfinal qd0 (drun gbus pd0 qd0 passes) last_pd1)) 0 == nth k qd0 0 /\
  (last_pd1 = pd0 -> fst (dfinal qd0 (drun gbus pd0 qd0 passes) last_pd1) = pd0).
Proof. exact demand_frame. Qed.
Print Assumptions C04_qlim_demand_frame.
Example C04_qlim_demand_nonvacuous :
  fresh_passes [] wit_passes = true /\
  ds_qd (drun wit_gbus [0; 5; 6] [0; 4; 6] wit_passes) = [0; 5 # 2; 6] /\
  ds_pd (drun wit_gbus [0; 5; 6] [0; 4; 6] wit_passes) = [0; 0; 6] /\
  dfinal [0; 4; 6] (drun wit_gbus [0; 5; 6] [0; 4; 6] wit_passes) [0; 5; 6] = ([0; 5; 6], [0; 4; 6]).
Proof. exact demand_witness. Qed.
Print Assumptions C04_qlim_demand_nonvacuous.

(* ---- default q limits.  row_limits = the QMIN/QMAX of a gen row: min_q_mvar / max_q_mvar, a missing (NaN) limit replaced by
   -/+ q_lim_default; since "fix: a recycled power flow with recycle["gen"] keeps the default q limits of gens without limits" the
   recycled path writes the same limits.  A gen row without limits is never selected by the q-limit loop while |QG| stays within the
   default; the rule before the repair (NaN -> 0 in the recycled path) limited such a gen to q = 0. *)
Theorem C04_unlimited_gen_never_limited : forall gens limited qg qdef i g,
  nth_error gens i = Some g ->
  (g_qmin g, g_qmax g) = row_limits qdef None None ->
  Qabs (nthq qg i) <= qdef ->
  ~ In i (viol_max gens limited qg) /\ ~ In i (viol_min gens limited qg).
Proof. exact unlimited_row_never_limited. Qed.
Print Assumptions C04_unlimited_gen_never_limited.
Theorem C04_recycled_old_limits_refuted :
  row_limits_recycled_old None None = (0, 0) /\
  viol_max [wit_nolim_gen] [] [1 # 2] = [0%nat] /\
  (let l := row_limits 1000000000 None None in viol_max [mkGen 1 1 1 (fst l) (snd l) 0 true false] [] [1 # 2] = []).
Proof. exact recycled_old_limits_refuted. Qed.
Print Assumptions C04_recycled_old_limits_refuted.
