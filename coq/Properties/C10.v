(* C10 — distributed slack: property theorems (proofs in C10/Proofs.v; split model of C01).
   n : net with the gen rows' reference flags widened (rows with SL_FAC != 0), ref : reference buses widened by the
   buses with SL_FAC_BUS != 0 (run_newton_raphson_pf.py:77-90);  s : the slack variable of the Newton iteration;
   ds_mism = Newton P mismatch of the bus + w_bus*s*baseMVA (zero on convergence);  dev = PG after pfsoln - PG setpoint. *)
From Coq Require Import ZArith QArith Qabs List Bool.
From PPV Require Import Base.QN Base.QC C01.Model C01.Balance C10.Model C10.Proofs.
Import ListNotations.
Open Scope Q_scope.

(* every participating (or reference) gen / ext_grid row deviates by  - s*baseMVA * w_g / W : the same value per unit
   of weight on every bus, whatever the mix of rows at its bus *)
Theorem C10_gen_share : forall n ref k v sinj wb s W g,
  memn k ref = true -> In g (gens_on_at n k) -> g_ref g = true ->
  ((1 < length (gens_on_at n k))%nat -> 0 < sumf g_w (filter g_ref (gens_on_at n k))) ->
  wb * W == sumf g_w (filter g_ref (gens_on_at n k)) ->
  ds_mism n k v sinj wb s == 0 -> re (Sload n k v) == PD n k ->
  dev n ref g sinj * W == - (s * base n) * g_w g.
Proof. exact gen_share. Qed.
Print Assumptions C10_gen_share.

Theorem C10_equal_ratio : forall n ref s W sinj1 sinj2 g1 g2,
  ~ W == 0 ->
  dev n ref g1 sinj1 * W == - (s * base n) * g_w g1 ->
  dev n ref g2 sinj2 * W == - (s * base n) * g_w g2 ->
  dev n ref g1 sinj1 * g_w g2 == dev n ref g2 sinj2 * g_w g1.
Proof. exact equal_ratio. Qed.
Print Assumptions C10_equal_ratio.

Theorem C10_non_participants_keep_setpoints : forall n ref g sinj,
  memn (g_bus g) ref = false \/ (g_ref g = false /\ (1 < length (gens_on_at n (g_bus g)))%nat) ->
  dev n ref g sinj == 0.
Proof. exact non_participant_keeps. Qed.
Print Assumptions C10_non_participants_keep_setpoints.

(* weight normalisation on one island: the written bus weights sum to 1 and each is the island-normalised sum of the
   weights paired with that bus *)
Theorem C10_weights_normalised : forall buses ws sub bw,
  norm_loop buses ws [sub] [] = NOk bw -> sumf snd bw == 1.
Proof. exact norm_single_total. Qed.
Print Assumptions C10_weights_normalised.
Theorem C10_bus_weight_formula : forall buses ws sub bw b q,
  norm_loop buses ws [sub] [] = NOk bw -> In (b, q) bw ->
  q == sumf snd (filter (fun p => Nat.eqb (fst p) b) (filter (fun p => memn (fst p) sub) (combine buses ws)))
       / masked_sum buses ws sub.
Proof. exact norm_single_entry. Qed.
Print Assumptions C10_bus_weight_formula.
(* ... but the xward weights (table order) are paired with the sorted-unique PQ buses: refuted outside G10w *)
Theorem C10_xward_weight_pairing_refuted :
  G10w wit_xwb = false /\
  exists bw, normalise wit_wsrc wit_xwb [[0; 1; 2; 3]%nat] 4 = NOk bw /\
             bw_lookup bw 3 == 2 # 4 /\ bw_lookup bw 2 == 1 # 4.
Proof. exact xward_weight_order_refuted. Qed.
Print Assumptions C10_xward_weight_pairing_refuted.

(* xward share: partial (single xward, raw p_mw of its bus = static demand) and refuted in general *)
Theorem C10_xward_share_partial : forall n ref others x v sinj wb s r,
  G10x n others [x] = true ->
  memn (xr_k x) ref = true -> has_gen n (xr_k x) = false ->
  ds_mism n (xr_k x) v sinj wb s == 0 -> re (Sload n (xr_k x) v) == PD n (xr_k x) ->
  xward_p (fun k => PD_after n ref k sinj) others [x] = XOk [Some r] ->
  r - xr_ps x == wb * s * base n.
Proof. exact xward_share. Qed.
Print Assumptions C10_xward_share_partial.
Theorem C10_xward_share_refuted :
  exists pd, xward_p pd [] wit_x2 = XOk [Some (5 + (pd 3%nat - 5) + (pd 2%nat - 3)); Some (3 + (pd 3%nat - 5) + (pd 2%nat - 3))]%Q
             /\ pd 3%nat = 6 /\ pd 2%nat = 5.
Proof. exact xward_extraction_refuted. Qed.
Print Assumptions C10_xward_share_refuted.

(* non-vacuity: the guard of the xward theorem is satisfiable (one xward next to a load on its bus) *)
Example C10_nonvacuous :
  G10x (mkNet [mkLoad 2 2 (3#2) 0 1 true 0 0 0 0] [mkPq 2 2 5 1 1 true false] [] [] true 1 [(2%nat, 2%nat)])
       [mkNe 2 (3#2) true] [mkXw 2 2 5 (1#2) true true] = true.
Proof. reflexivity. Qed.
Print Assumptions C10_nonvacuous.
