(* C10 — distributed slack: property theorems (proofs in C10/Proofs.v; split model of C01).
   n : net with the gen rows' reference flags widened (rows with SL_FAC != 0), ref : reference buses widened by the
   buses with SL_FAC_BUS != 0 (run_newton_raphson_pf.py:77-90);  s : the slack variable of the Newton iteration;
   ds_mism = Newton P mismatch of the bus + w_bus*s*baseMVA (zero on convergence);  dev = PG after pfsoln - PG setpoint.
   The model follows the repaired code (weights paired with the bus of their own xward, per-bus weighted xward shares,
   pfsoln adds the demand the solver used); the rules before the repairs are kept as *_old and refuted. *)
From Coq Require Import ZArith QArith Qabs List Bool.
From PPV Require Import Base.QN Base.QC C01.Model C01.Balance C10.Model C10.Proofs C10.Islands.
From PPV Require Base.C07Graph.
Import ListNotations.
Open Scope Q_scope.

(* every participating (or reference) gen / ext_grid row deviates by  - s*baseMVA * w_g / W : the same value per unit
   of weight on every bus, whatever the mix of rows and loads (ZIP included) at its bus *)
Theorem C10_gen_share : forall n ref k v sinj wb s W g,
  memn k ref = true -> In g (gens_on_at n k) -> g_ref g = true ->
  ((1 < length (gens_on_at n k))%nat -> 0 < sumf g_w (filter g_ref (gens_on_at n k))) ->
  wb * W == sumf g_w (filter g_ref (gens_on_at n k)) ->
  ds_mism n k v sinj wb s == 0 ->
  dev n ref g v sinj * W == - (s * base n) * g_w g.
Proof. exact gen_share. Qed.
Print Assumptions C10_gen_share.

Theorem C10_equal_ratio : forall n ref s W v1 v2 sinj1 sinj2 g1 g2,
  ~ W == 0 ->
  dev n ref g1 v1 sinj1 * W == - (s * base n) * g_w g1 ->
  dev n ref g2 v2 sinj2 * W == - (s * base n) * g_w g2 ->
  dev n ref g1 v1 sinj1 * g_w g2 == dev n ref g2 v2 sinj2 * g_w g1.
Proof. exact equal_ratio. Qed.
Print Assumptions C10_equal_ratio.

Theorem C10_non_participants_keep_setpoints : forall n ref g v sinj,
  memn (g_bus g) ref = false \/ (g_ref g = false /\ (1 < length (gens_on_at n (g_bus g)))%nat) ->
  dev n ref g v sinj == 0.
Proof. exact non_participant_keeps. Qed.
Print Assumptions C10_non_participants_keep_setpoints.

(* xwards (consumption up = generation down): every participating xward gets  w_bus*s*baseMVA * w_x / (weight of its bus),
   for any number of xwards and any other elements on the bus; with w_bus * W = weight of the bus this is the same
   s*baseMVA/W per unit of weight as for the gens.  Non-participating xwards keep ps. *)
Theorem C10_xward_share : forall n ref vs xws x sinj wb s,
  memn (xr_k x) ref = true -> has_gen n (xr_k x) = false ->
  ~ xw_weight x == 0 -> ~ xw_bus_weight xws (xr_k x) == 0 ->
  ds_mism n (xr_k x) (vof vs (xr_k x)) sinj wb s == 0 ->
  (xward_row n vs (fun k => PD_after n ref k sinj) xws x - qmul (xr_ps x) (b2q (xr_on x))) * xw_bus_weight xws (xr_k x)
  == wb * s * base n * xw_weight x.
Proof. exact xward_share. Qed.
Print Assumptions C10_xward_share.
Theorem C10_xward_non_participants_keep_setpoints : forall n vs pd xws x,
  xw_weight x == 0 -> xward_row n vs pd xws x == qmul (xr_ps x) (b2q (xr_on x)).
Proof. exact xward_keeps. Qed.
Print Assumptions C10_xward_non_participants_keep_setpoints.

(* weight normalisation on one island: the written bus weights sum to 1 and each is the island-normalised sum of the
   weights paired with that bus; the j-th xward weight is paired with the PQ bus of the j-th in-service xward *)
Theorem C10_weights_normalised : forall buses ws sub bw,
  norm_loop buses ws [sub] [] = NOk bw -> sumf snd bw == 1.
Proof. exact norm_single_total. Qed.
Print Assumptions C10_weights_normalised.
Theorem C10_bus_weight_formula : forall buses ws sub bw b q,
  norm_loop buses ws [sub] [] = NOk bw -> In (b, q) bw ->
  q == sumf snd (filter (fun p => Nat.eqb (fst p) b) (filter (fun p => memn (fst p) sub) (combine buses ws)))
       / masked_sum buses ws sub.
Proof. exact norm_single_entry. Qed.
Print Assumptions C10_bus_weight_formula.
Theorem C10_xward_weight_pairing : forall xws j b,
  nth_error (xward_pq_buses xws) j = Some b <-> exists x, nth_error (filter x_on xws) j = Some x /\ x_pq x = b.
Proof. exact xward_pairing. Qed.
Print Assumptions C10_xward_weight_pairing.

(* ---- the island search (_subnetworks) as part of the normalisation.
   subnetworks brs bt = Base.C07Graph.components over the in-service branch rows between in-service buses, started at the
   reference buses in bus order (auxiliary.py:907-940).  Spec of the search: every island is the undirected-path class of a
   reference bus, the islands are pairwise disjoint and every reference bus lies in one. *)
Theorem C10_subnetworks_partition : forall brs bt,
  (forall isl, In isl (subnetworks brs bt) ->
     exists x, In x (slack_buses bt) /\ forall y, In y isl <-> C07Graph.upath (island_arcs brs bt) x y) /\
  C07Graph.pairwise_disjoint (subnetworks brs bt) /\
  (forall x, In x (slack_buses bt) -> exists isl, In isl (subnetworks brs bt) /\ In x isl).
Proof. exact subnetworks_spec. Qed.
Print Assumptions C10_subnetworks_partition.
(* the normalisation loop on ANY pairwise disjoint island list (any number of islands): the bus weights written on the buses of
   every island sum to one (the in-place division of ALL weights by each island's sum does not disturb the islands already
   written, later assignments do not overwrite them) *)
Theorem C10_weights_normalised_per_island : forall buses subs ws bw,
  C07Graph.pairwise_disjoint subs -> (forall sub, In sub subs -> NoDup sub) ->
  norm_loop buses ws subs [] = NOk bw ->
  forall sub, In sub subs -> sumf (bw_lookup bw) sub == 1.
Proof. exact norm_loop_per_island0. Qed.
Print Assumptions C10_weights_normalised_per_island.
(* _normalise_slack_weights with its own island search: success means exactly one island, whose bus weights sum to one and
   which has a participant (non-zero paired weight sum) *)
Theorem C10_normalise_computed_partition : forall gens xws brs bt bw,
  wf_branches brs bt = true -> normalise_net gens xws brs bt = NOk bw ->
  length (subnetworks brs bt) = 1%nat /\
  forall isl, In isl (subnetworks brs bt) -> sumf (bw_lookup bw) isl == 1 /\ ~ island_weight gens xws isl == 0.
Proof. exact normalise_net_ok. Qed.
Print Assumptions C10_normalise_computed_partition.
(* error otherwise: an island in which every paired weight is zero (no participant), or more than one island / none *)
Theorem C10_island_without_participant_is_an_error : forall gens xws brs bt isl,
  In isl (subnetworks brs bt) ->
  (forall b w, In (b, w) (pairing gens xws) -> In b isl -> w == 0) ->
  exists e, normalise_net gens xws brs bt = NErr e.
Proof. exact normalise_net_no_participant. Qed.
Print Assumptions C10_island_without_participant_is_an_error.
Theorem C10_several_islands_is_an_error : forall gens xws brs bt,
  wf_branches brs bt = true -> length (subnetworks brs bt) <> 1%nat -> exists e, normalise_net gens xws brs bt = NErr e.
Proof. exact normalise_net_several_islands. Qed.
Print Assumptions C10_several_islands_is_an_error.
(* non-vacuity: 0 -- 1 | 2 -- 3 with reference buses 0 and 3: two islands, each sums to one inside the loop, the zone check
   rejects; the second island without participant is a ValueError; with the middle branch closed one island is accepted *)
Example C10_islands_nonvacuous :
  subnetworks wit_brs wit_bt = [[1; 0]; [2; 3]]%nat /\
  (exists bw, norm_loop [0; 3]%nat [1; 3] (subnetworks wit_brs wit_bt) [] = NOk bw /\ bw_lookup bw 0 == 1 /\ bw_lookup bw 3 == 1) /\
  normalise_net [mkW 0 1 false; mkW 3 3 false] [] wit_brs wit_bt = NErr 1 /\
  normalise_net [mkW 0 1 false; mkW 3 0 false] [] wit_brs wit_bt = NErr 3 /\
  (exists bw, normalise_net [mkW 0 1 false; mkW 3 3 false] [] [mkPbr 0 1 true; mkPbr 1 2 true; mkPbr 2 3 true] wit_bt = NOk bw /\
              bw_lookup bw 0 == 1 # 4 /\ bw_lookup bw 3 == 3 # 4).
Proof. exact islands_witness. Qed.
Print Assumptions C10_islands_nonvacuous.

(* the rules before the repairs are refuted by witnesses: sorted-unique pairing swapped the weights of two xwards,
   the old extraction gave two xwards each other's variable part; under the old guard G10x it was right *)
Theorem C10_old_xward_weight_pairing_refuted :
  G10w wit_xwb = false /\
  (exists bw, normalise_old wit_wsrc wit_xwb [[0; 1; 2; 3]%nat] 4 = NOk bw /\ bw_lookup bw 3 == 2 # 4 /\ bw_lookup bw 2 == 1 # 4) /\
  (exists bw, normalise wit_wsrc wit_xwb [[0; 1; 2; 3]%nat] 4 = NOk bw /\ bw_lookup bw 3 == 1 # 4 /\ bw_lookup bw 2 == 2 # 4).
Proof. exact xward_weight_order_old_refuted. Qed.
Print Assumptions C10_old_xward_weight_pairing_refuted.
Theorem C10_old_xward_extraction_refuted :
  exists pd, xward_p_old pd [] wit_x2 = XOk [Some (5 + (pd 3%nat - 5) + (pd 2%nat - 3)); Some (3 + (pd 3%nat - 5) + (pd 2%nat - 3))]%Q
             /\ pd 3%nat = 6 /\ pd 2%nat = 5.
Proof. exact xward_extraction_old_refuted. Qed.
Print Assumptions C10_old_xward_extraction_refuted.
Theorem C10_old_xward_extraction_partial : forall n others x pd,
  G10x n others [x] = true ->
  exists r, xward_p_old pd others [x] = XOk [Some r] /\ r == xr_ps x + (pd (xr_k x) - PD n (xr_k x)).
Proof. exact xward_single_old. Qed.
Print Assumptions C10_old_xward_extraction_partial.

(* enforce_q_lims: the rule before the repair restored the whole PD column after a q-limit pass, so the xward lost its share *)
Theorem C10_old_qlims_xward_share_refuted :
  xward_row witql_net [1;1;1;1] (fun k => PD_after_qlims_old witql_net [3%nat] k (mkC (-6) 0) true) [witql_x] witql_x == 5 /\
  xward_row witql_net [1;1;1;1] (fun k => PD_after witql_net [3%nat] k (mkC (-6) 0)) [witql_x] witql_x == 6.
Proof. exact qlims_old_xward_refuted. Qed.
Print Assumptions C10_old_qlims_xward_share_refuted.

(* non-vacuity: two participating xwards on one bus next to a ZIP load satisfy the hypotheses of C10_xward_share *)
Example C10_nonvacuous :
  let xws := [mkXw 2 2 5 (1#2) true true; mkXw 2 2 3 1 true true] in
  ~ xw_weight (mkXw 2 2 5 (1#2) true true) == 0 /\ xw_bus_weight xws 2 == 3 # 2.
Proof. split; [intros E; discriminate E | vm_compute; reflexivity]. Qed.
Print Assumptions C10_nonvacuous.
