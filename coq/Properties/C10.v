(* C10 — distributed slack: property theorems (proofs in C10/Proofs.v; split model of C01).
   n : net with the gen rows' reference flags widened (rows with SL_FAC != 0), ref : reference buses widened by the
   buses with SL_FAC_BUS != 0 (run_newton_raphson_pf.py:77-90);  s : the slack variable of the Newton iteration;
   ds_mism = Newton P mismatch of the bus + w_bus*s*baseMVA (zero on convergence);  dev = PG after pfsoln - PG setpoint.
   The model follows the repaired code (weights paired with the bus of their own xward, per-bus weighted xward shares,
   pfsoln adds the demand the solver used); the rules before the repairs are kept as *_old and refuted. *)
From Coq Require Import ZArith QArith Qabs List Bool.
From PPV Require Import Base.QN Base.QC C01.Model C01.Balance C10.Model C10.Proofs.
Import ListNotations.
Open Scope Q_scope.

(* every participating (or reference) gen / ext_grid row deviates by  - s*baseMVA * w_g / W : the same value per unit
   of weight on every bus, whatever the mix of rows and loads (ZIP included) at its bus *)
Theorem C10_gen_share : forall n ref k v sinj wb s W g,
  memn k ref = true -> In g (gens_on_at n k) -> g_ref g = true ->
  ((1 < length (gens_on_at n k))%nat -> 0 < sumf g_w (filter g_ref (gens_on_at n k))) ->
  wb * W == sumf g_w (filter g_ref (gens_on_at n k)) ->
  ds_mism n k v sinj wb s == 0 ->
  dev n ref g v sinj * W == - (s * base n) * g_w g.
Proof. exact gen_share. Qed.
Print Assumptions C10_gen_share.

Theorem C10_equal_ratio : forall n ref s W v1 v2 sinj1 sinj2 g1 g2,
  ~ W == 0 ->
  dev n ref g1 v1 sinj1 * W == - (s * base n) * g_w g1 ->
  dev n ref g2 v2 sinj2 * W == - (s * base n) * g_w g2 ->
  dev n ref g1 v1 sinj1 * g_w g2 == dev n ref g2 v2 sinj2 * g_w g1.
Proof. exact equal_ratio. Qed.
Print Assumptions C10_equal_ratio.

Theorem C10_non_participants_keep_setpoints : forall n ref g v sinj,
  memn (g_bus g) ref = false \/ (g_ref g = false /\ (1 < length (gens_on_at n (g_bus g)))%nat) ->
  dev n ref g v sinj == 0.
Proof. exact non_participant_keeps. Qed.
Print Assumptions C10_non_participants_keep_setpoints.

(* xwards (consumption up = generation down): every participating xward gets  w_bus*s*baseMVA * w_x / (weight of its bus),
   for any number of xwards and any other elements on the bus; with w_bus * W = weight of the bus this is the same
   s*baseMVA/W per unit of weight as for the gens.  Non-participating xwards keep ps. *)
Theorem C10_xward_share : forall n ref vs xws x sinj wb s,
  memn (xr_k x) ref = true -> has_gen n (xr_k x) = false ->
  ~ xw_weight x == 0 -> ~ xw_bus_weight xws (xr_k x) == 0 ->
  ds_mism n (xr_k x) (vof vs (xr_k x)) sinj wb s == 0 ->
  (xward_row n vs (fun k => PD_after n ref k sinj) xws x - qmul (xr_ps x) (b2q (xr_on x))) * xw_bus_weight xws (xr_k x)
  == wb * s * base n * xw_weight x.
Proof. exact xward_share. Qed.
Print Assumptions C10_xward_share.
Theorem C10_xward_non_participants_keep_setpoints : forall n vs pd xws x,
  xw_weight x == 0 -> xward_row n vs pd xws x == qmul (xr_ps x) (b2q (xr_on x)).
Proof. exact xward_keeps. Qed.
Print Assumptions C10_xward_non_participants_keep_setpoints.

(* weight normalisation on one island: the written bus weights sum to 1 and each is the island-normalised sum of the
   weights paired with that bus; the j-th xward weight is paired with the PQ bus of the j-th in-service xward *)
Theorem C10_weights_normalised : forall buses ws sub bw,
  norm_loop buses ws [sub] [] = NOk bw -> sumf snd bw == 1.
Proof. exact norm_single_total. Qed.
Print Assumptions C10_weights_normalised.
Theorem C10_bus_weight_formula : forall buses ws sub bw b q,
  norm_loop buses ws [sub] [] = NOk bw -> In (b, q) bw ->
  q == sumf snd (filter (fun p => Nat.eqb (fst p) b) (filter (fun p => memn (fst p) sub) (combine buses ws)))
       / masked_sum buses ws sub.
Proof. exact norm_single_entry. Qed.
Print Assumptions C10_bus_weight_formula.
Theorem C10_xward_weight_pairing : forall xws j b,
  nth_error (xward_pq_buses xws) j = Some b <-> exists x, nth_error (filter x_on xws) j = Some x /\ x_pq x = b.
Proof. exact xward_pairing. Qed.
Print Assumptions C10_xward_weight_pairing.

(* the rules before the repairs are refuted by witnesses: sorted-unique pairing swapped the weights of two xwards,
   the old extraction gave two xwards each other's variable part; under the old guard G10x it was right *)
Theorem C10_old_xward_weight_pairing_refuted :
  G10w wit_xwb = false /\
  (exists bw, normalise_old wit_wsrc wit_xwb [[0; 1; 2; 3]%nat] 4 = NOk bw /\ bw_lookup bw 3 == 2 # 4 /\ bw_lookup bw 2 == 1 # 4) /\
  (exists bw, normalise wit_wsrc wit_xwb [[0; 1; 2; 3]%nat] 4 = NOk bw /\ bw_lookup bw 3 == 1 # 4 /\ bw_lookup bw 2 == 2 # 4).
Proof. exact xward_weight_order_old_refuted. Qed.
Print Assumptions C10_old_xward_weight_pairing_refuted.
Theorem C10_old_xward_extraction_refuted :
  exists pd, xward_p_old pd [] wit_x2 = XOk [Some (5 + (pd 3%nat - 5) + (pd 2%nat - 3)); Some (3 + (pd 3%nat - 5) + (pd 2%nat - 3))]%Q
             /\ pd 3%nat = 6 /\ pd 2%nat = 5.
Proof. exact xward_extraction_old_refuted. Qed.
Print Assumptions C10_old_xward_extraction_refuted.
Theorem C10_old_xward_extraction_partial : forall n others x pd,
  G10x n others [x] = true ->
  exists r, xward_p_old pd others [x] = XOk [Some r] /\ r == xr_ps x + (pd (xr_k x) - PD n (xr_k x)).
Proof. exact xward_single_old. Qed.
Print Assumptions C10_old_xward_extraction_partial.

(* enforce_q_lims: the rule before the repair restored the whole PD column after a q-limit pass, so the xward lost its share *)
Theorem C10_old_qlims_xward_share_refuted :
  xward_row witql_net [1;1;1;1] (fun k => PD_after_qlims_old witql_net [3%nat] k (mkC (-6) 0) true) [witql_x] witql_x == 5 /\
  xward_row witql_net [1;1;1;1] (fun k => PD_after witql_net [3%nat] k (mkC (-6) 0)) [witql_x] witql_x == 6.
Proof. exact qlims_old_xward_refuted. Qed.
Print Assumptions C10_old_qlims_xward_share_refuted.

(* non-vacuity: two participating xwards on one bus next to a ZIP load satisfy the hypotheses of C10_xward_share *)
Example C10_nonvacuous :
  let xws := [mkXw 2 2 5 (1#2) true true; mkXw 2 2 3 1 true true] in
  ~ xw_weight (mkXw 2 2 5 (1#2) true true) == 0 /\ xw_bus_weight xws 2 == 3 # 2.
Proof. split; [intros E; discriminate E | vm_compute; reflexivity]. Qed.
Print Assumptions C10_nonvacuous.
