(* C06 — property theorems (statements only; proofs in C06/Proofs.v).  Model: C06/Model.v (BIBC index bookkeeping of
   pf/run_bfswpf.py _make_bibc_bcbv, algorithm dispatch).  Agreement of the iterative solvers themselves is searched
   differentially by harness/props/c06.py, not proved. *)
From Coq Require Import String ZArith List Bool Arith.
From PPV Require Import C06.Model C06.Proofs.
Import ListNotations.
Local Open Scope Z_scope.

(* under G06 (reference buses are the first rows; at most one island is meshed) no column passed to csr_matrix is
   negative — _make_bibc_bcbv does not fail with "negative axis 1 index" ... *)
Theorem C06_bibc_guarded_not_negative : forall nobus isls, G06 isls = true -> (length isls <= nobus)%nat ->
  forall nobranch, bibc nobus nobranch isls <> BNeg.
Proof. exact guarded_not_negative. Qed.
Print Assumptions C06_bibc_guarded_not_negative.
(* ... and distinct loops get distinct columns of BIBC *)
Theorem C06_bibc_guarded_loop_cols_distinct : forall nobus isls, G06 isls = true -> (length isls <= nobus)%nat ->
  NoDup (loop_cols nobus isls).
Proof. exact guarded_loop_cols_distinct. Qed.
Print Assumptions C06_bibc_guarded_loop_cols_distinct.

(* without the guard: a radial feeder whose reference bus is not row 0 makes csr_matrix raise (the "internal error") *)
Theorem C06_bibc_ref_not_first_refuted : exists nobus nobranch isls, bibc nobus nobranch isls = BNeg.
Proof. exact bibc_ref_not_first_refuted. Qed.
Print Assumptions C06_bibc_ref_not_first_refuted.
(* and two meshed islands give two different loops the same column without any error *)
Theorem C06_bibc_multi_island_refuted :
  exists nobus nobranch isls, (exists es, bibc nobus nobranch isls = BOk es) /\ ~ NoDup (loop_cols nobus isls).
Proof. exact bibc_multi_island_refuted. Qed.
Print Assumptions C06_bibc_multi_island_refuted.

Example C06_bibc_nonvacuous :
  let isls := [{| i_tree := [(0%nat, [1%nat; 2%nat; 3%nat]); (1%nat, [2%nat]); (2%nat, [3%nat])];
                  i_loops := [[(1%nat, 1); (3%nat, 1); (2%nat, -1)]] |}] in
  G06 isls = true /\ exists es, bibc 4 4 isls = BOk es /\ length es = 8%nat.
Proof. exact bibc_nonvacuous. Qed.
Print Assumptions C06_bibc_nonvacuous.

(* every documented AC algorithm name selects a solver (no AlgorithmUnknown) *)
Theorem C06_dispatch_total : forall alg, In alg ["nr"; "iwamoto_nr"; "bfsw"; "gs"; "fdbx"; "fdxb"]%string ->
  forall o d f, dispatch true alg o d f <> SRaise.
Proof. exact dispatch_total. Qed.
Print Assumptions C06_dispatch_total.

(* iwamoto_nr after "fix: iwamoto_nr works on networks without PQ buses": the root that is used always exists ... *)
Theorem C06_iwamoto_pick_in_range : forall (g3 g2 g1 g0 : QArith_base.Q) k,
  iwamoto_pick g3 g2 g1 g0 = Some k -> (k < n_roots [g3; g2; g1; g0])%nat.
Proof. exact iwamoto_pick_in_range. Qed.
Print Assumptions C06_iwamoto_pick_in_range.
(* ... and is the former one (index 2) for a genuine cubic *)
Theorem C06_iwamoto_pick_cubic : forall g3 g2 g1 g0 : QArith_base.Q, ~ (QArith_base.Qeq g3 (QArith_base.Qmake 0 1)) ->
  iwamoto_pick g3 g2 g1 g0 = Some 2%nat.
Proof. exact iwamoto_pick_cubic. Qed.
Print Assumptions C06_iwamoto_pick_cubic.
(* regression witness: before the repair roots(...)[2] did not exist for a net without PQ buses (IndexError) *)
Theorem C06_iwamoto_index_old_refuted : exists g1 g0, ~ (QArith_base.Qeq g1 (QArith_base.Qmake 0 1)) /\
  iwamoto_index_ok_old (QArith_base.Qmake 0 1) (QArith_base.Qmake 0 1) g1 g0 = false.
Proof. exact iwamoto_index_old_refuted. Qed.
Print Assumptions C06_iwamoto_index_old_refuted.

(* ================= result extraction after Newton-Raphson: pypower pfsoln / numba pfsoln / pf_solution_single_slack
   (model: C06/Pfsoln.v, proofs: C06/PfsolnProofs.v) ================= *)
From Coq Require Import QArith.
From PPV Require Import Base.QN Base.QC C06.Pfsoln C06.PfsolnProofs C06.Shift C06.ShiftProofs.
Local Open Scope Q_scope.

(* all three variants write the same branch flows PF QF PT QT (matrix product vs. the numba CSR loop) *)
Theorem C06_pfsoln_flows_equal : forall p v w, flows_eq (flows_of v p) (flows_of w p).
Proof. exact flows_all_equal. Qed.
Print Assumptions C06_pfsoln_flows_equal.

(* complex power balance of the net: sum of the bus injections = sum of the branch flows + power of the bus shunts *)
Theorem C06_power_balance : forall p, wf p = true -> ~ p_base p == 0 ->
  Csum (map (fun k => Cscale (p_base p) (sbus p k)) (seq 0 (nb p))) ==c Cadd (Sbr p) (shunt_c p).
Proof. exact power_balance. Qed.
Print Assumptions C06_power_balance.

(* quantitative: slack P (Q) of pf_solution_single_slack minus that of pfsoln = total P (Q) mismatch of the non-slack
   buses minus the P (Q) of the bus shunts sum_k |V_k|^2 (GS_k - j BS_k); for any V, solved or not *)
Theorem C06_single_vs_std : forall p, wf p = true -> ~ p_base p == 0 ->
  fst (slack_single p) - fst (slack_std p false) == re (rest_mis p) - re (shunt_c p) /\
  snd (slack_single p) - snd (slack_std p false) == im (rest_mis p) - im (shunt_c p).
Proof. exact single_vs_std. Qed.
Print Assumptions C06_single_vs_std.

(* under exactly the guard of _get_numba_functions (one generator row, no ZIP loads, no distributed slack, no GS/BS) and
   for a solved net the fast variant returns the slack P and Q of the general one *)
Theorem C06_single_eq_std_guarded : forall p ngen dist, wf p = true -> ~ p_base p == 0 -> solved p ->
  G06s ngen false dist (p_bus p) = true -> slack_eq (slack_single p) (slack_std p false).
Proof. exact single_eq_std_guarded. Qed.
Print Assumptions C06_single_eq_std_guarded.

(* the selection picks pf_solution_single_slack exactly under that guard (and numba on) *)
Theorem C06_select_single_iff : forall numba ngen vdl dist buses,
  select numba ngen vdl dist buses = VSingle <-> numba = true /\ G06s ngen vdl dist buses = true.
Proof. exact select_single_iff. Qed.
Print Assumptions C06_select_single_iff.

(* numba on/off and every option combination: the selected variant gives the slack P/Q of the numba-off pfsoln *)
Theorem C06_selected_agrees : forall numba vdl dist p, wf p = true -> ~ p_base p == 0 -> solved p ->
  slack_eq (slack_of (select numba 1 vdl dist (p_bus p)) p vdl) (slack_of VPypower p vdl).
Proof. exact selected_agrees. Qed.
Print Assumptions C06_selected_agrees.

(* the shunt conjunct of the guard is necessary: with a bus conductance the fast variant is wrong on a solved net *)
Theorem C06_single_with_conductance_refuted : exists p, wf p = true /\ ~ p_base p == 0 /\ solved p /\
  ~ slack_eq (slack_single p) (slack_std p false).
Proof. exact single_with_conductance_refuted. Qed.
Print Assumptions C06_single_with_conductance_refuted.
(* so is the voltage-dependent-load conjunct *)
Theorem C06_single_with_zip_refuted : exists p, wf p = true /\ ~ p_base p == 0 /\ solved p /\
  forallb (fun r => qeqb (gs r) 0 && qeqb (bs r) 0) (p_bus p) = true /\ ~ slack_eq (slack_single p) (slack_std p true).
Proof. exact single_with_zip_refuted. Qed.
Print Assumptions C06_single_with_zip_refuted.

Example C06_pfsoln_guarded_nonvacuous : wf w_ok = true /\ solved w_ok /\ G06s 1 false false (p_bus w_ok) = true /\
  select true 1 false false (p_bus w_ok) = VSingle /\ fst (slack_single w_ok) == 1#10 /\ snd (slack_single w_ok) == 1#5.
Proof. exact guarded_nonvacuous. Qed.
Print Assumptions C06_pfsoln_guarded_nonvacuous.

(* ================= bfsw: phase-shift post-rotation (model: C06/Shift.v, proofs: C06/ShiftProofs.v) ================= *)
(* after "fix: bfsw applies the phase shift of a loop-closing transformer only once": for every BFS tree and every set of
   phase-shifting branches (tree branches or loop-closing ones) the angle that _run_bfswpf adds to a bus is the cumulative
   shift along the tree path from the root *)
Theorem C06_bfsw_rotation_is_path_shift : forall root es trafos b, tree_ok root es = true ->
  rot_impl root es trafos b == path_shift es trafos b.
Proof. exact rot_eq_path. Qed.
Print Assumptions C06_bfsw_rotation_is_path_shift.

(* the path shift is the sum over the tree branches whose sub-tree contains the bus (for any branch weights) *)
Theorem C06_path_shift_as_subtree_sum : forall w root r, ok_rev root r = true -> forall b,
  path_rev w r b == qsum (map (fun e : edge => if memb b (desc (rev r) (snd e)) then w (fst e) (snd e) else 0) r).
Proof. exact path_as_sum. Qed.
Print Assumptions C06_path_shift_as_subtree_sum.

(* the code before the repair was right only when every phase-shifting branch is a branch of the spanning tree (G06t) ... *)
Theorem C06_bfsw_rotation_old_guarded : forall root es trafos b, tree_ok root es = true -> G06t es trafos = true ->
  exists r, rot_impl_old root es trafos b = Some r /\ r == path_shift es trafos b.
Proof. exact rot_old_eq_path. Qed.
Print Assumptions C06_bfsw_rotation_old_guarded.
(* ... regression witness: a phase-shifting transformer that closes a loop rotated a sub-tree a second time (-60 instead of
   -30 degrees) *)
Theorem C06_bfsw_rotation_old_refuted : exists root es trafos b r, tree_ok root es = true /\
  rot_impl_old root es trafos b = Some r /\ ~ r == path_shift es trafos b.
Proof. exact rot_old_chord_refuted. Qed.
Print Assumptions C06_bfsw_rotation_old_refuted.

Example C06_bfsw_rotation_nonvacuous :
  let es := [(0, 1); (0, 2); (2, 3)]%nat in let trafos := [(0%nat, 2%nat, 30); (1%nat, 2%nat, 30); (1%nat, 2%nat, 30)] in
  tree_ok 0 es = true /\ G06t es trafos = false /\ rot_impl 0 es trafos 3 == -30 /\ rot_impl 0 es trafos 1 == 0 /\
  path_shift es trafos 3 == -30.
Proof. exact rot_nonvacuous. Qed.
Print Assumptions C06_bfsw_rotation_nonvacuous.
