(* C06 — property theorems (statements only; proofs in C06/Proofs.v).  Model: C06/Model.v (BIBC index bookkeeping of
   pf/run_bfswpf.py _make_bibc_bcbv, algorithm dispatch).  Agreement of the iterative solvers themselves is searched
   differentially by harness/props/c06.py, not proved. *)
From Coq Require Import String ZArith List Bool Arith.
From PPV Require Import C06.Model C06.Proofs.
Import ListNotations.
Local Open Scope Z_scope.

(* under G06 (reference buses are the first rows; at most one island is meshed) no column passed to csr_matrix is
   negative — _make_bibc_bcbv does not fail with "negative axis 1 index" ... *)
Theorem C06_bibc_guarded_not_negative : forall nobus isls, G06 isls = true -> (length isls <= nobus)%nat ->
  forall nobranch, bibc nobus nobranch isls <> BNeg.
Proof. exact guarded_not_negative. Qed.
Print Assumptions C06_bibc_guarded_not_negative.
(* ... and distinct loops get distinct columns of BIBC *)
Theorem C06_bibc_guarded_loop_cols_distinct : forall nobus isls, G06 isls = true -> (length isls <= nobus)%nat ->
  NoDup (loop_cols nobus isls).
Proof. exact guarded_loop_cols_distinct. Qed.
Print Assumptions C06_bibc_guarded_loop_cols_distinct.

(* without the guard: a radial feeder whose reference bus is not row 0 makes csr_matrix raise (the "internal error") *)
Theorem C06_bibc_ref_not_first_refuted : exists nobus nobranch isls, bibc nobus nobranch isls = BNeg.
Proof. exact bibc_ref_not_first_refuted. Qed.
Print Assumptions C06_bibc_ref_not_first_refuted.
(* and two meshed islands give two different loops the same column without any error *)
Theorem C06_bibc_multi_island_refuted :
  exists nobus nobranch isls, (exists es, bibc nobus nobranch isls = BOk es) /\ ~ NoDup (loop_cols nobus isls).
Proof. exact bibc_multi_island_refuted. Qed.
Print Assumptions C06_bibc_multi_island_refuted.

Example C06_bibc_nonvacuous :
  let isls := [{| i_tree := [(0%nat, [1%nat; 2%nat; 3%nat]); (1%nat, [2%nat]); (2%nat, [3%nat])];
                  i_loops := [[(1%nat, 1); (3%nat, 1); (2%nat, -1)]] |}] in
  G06 isls = true /\ exists es, bibc 4 4 isls = BOk es /\ length es = 8%nat.
Proof. exact bibc_nonvacuous. Qed.
Print Assumptions C06_bibc_nonvacuous.

(* every documented AC algorithm name selects a solver (no AlgorithmUnknown) *)
Theorem C06_dispatch_total : forall alg, In alg ["nr"; "iwamoto_nr"; "bfsw"; "gs"; "fdbx"; "fdxb"]%string ->
  forall o d f, dispatch true alg o d f <> SRaise.
Proof. exact dispatch_total. Qed.
Print Assumptions C06_dispatch_total.

(* iwamoto_nr after "fix: iwamoto_nr works on networks without PQ buses": the root that is used always exists ... *)
Theorem C06_iwamoto_pick_in_range : forall (g3 g2 g1 g0 : QArith_base.Q) k,
  iwamoto_pick g3 g2 g1 g0 = Some k -> (k < n_roots [g3; g2; g1; g0])%nat.
Proof. exact iwamoto_pick_in_range. Qed.
Print Assumptions C06_iwamoto_pick_in_range.
(* ... and is the former one (index 2) for a genuine cubic *)
Theorem C06_iwamoto_pick_cubic : forall g3 g2 g1 g0 : QArith_base.Q, ~ (QArith_base.Qeq g3 (QArith_base.Qmake 0 1)) ->
  iwamoto_pick g3 g2 g1 g0 = Some 2%nat.
Proof. exact iwamoto_pick_cubic. Qed.
Print Assumptions C06_iwamoto_pick_cubic.
(* regression witness: before the repair roots(...)[2] did not exist for a net without PQ buses (IndexError) *)
Theorem C06_iwamoto_index_old_refuted : exists g1 g0, ~ (QArith_base.Qeq g1 (QArith_base.Qmake 0 1)) /\
  iwamoto_index_ok_old (QArith_base.Qmake 0 1) (QArith_base.Qmake 0 1) g1 g0 = false.
Proof. exact iwamoto_index_old_refuted. Qed.
Print Assumptions C06_iwamoto_index_old_refuted.
