(* C15 — property theorems (proofs in C15/Proofs.v) *)
From Coq Require Import ZArith QArith List Bool Permutation.
From PPV Require Import Base.QN C14.Model C15.Model C15.Proofs C15.Chunk C15.ChunkProofs.
Import ListNotations.

(* Whatever the number of workers and their completion order, Pool.map hands back the packs in task
   order (contract, validated on the impl by every run); then the parallel aggregation equals the
   sequential one on every field (max, min, cause), for every evaluation function and task list. *)
Theorem C15_par_eq_seq : forall n tasks ev, run_par n (pool_map tasks ev) = run_seq n tasks ev.
Proof. exact par_eq_seq. Qed.
Print Assumptions C15_par_eq_seq.

(* Even if the packs were aggregated in a different (completion) order, max and min do not change ... *)
Theorem C15_max_order_independent : forall l l',
  Permutation l l' -> feq (mx (run_col l acc0)) (mx (run_col l' acc0)).
Proof. exact max_order_independent. Qed.
Print Assumptions C15_max_order_independent.
Theorem C15_min_order_independent : forall l l',
  Permutation l l' -> feq (mn (run_col l acc0)) (mn (run_col l' acc0)).
Proof. exact min_order_independent. Qed.
Print Assumptions C15_min_order_independent.
Theorem C15_col_perm : forall j cases cases', Permutation cases cases' -> Permutation (col j cases) (col j cases').
Proof. exact col_perm. Qed.
Print Assumptions C15_col_perm.

(* ... and the cause still names an outage attaining the maximum; only among exact ties may the named
   outage depend on the order, which is why the Pool.map order contract is needed for C15_par_eq_seq. *)
Theorem C15_cause_attains_any_order : forall l l',
  Permutation l l' -> attains l (cause (run_col l' acc0)) (mx (run_col l' acc0)).
Proof. exact cause_attains_any_order. Qed.
Print Assumptions C15_cause_attains_any_order.
Theorem C15_cause_order_dependent_on_ties_refuted :
  exists l l', Permutation l l' /\ cause (run_col l acc0) <> cause (run_col l' acc0).
Proof. exact cause_order_dependent_on_ties. Qed.
Print Assumptions C15_cause_order_dependent_on_ties_refuted.

(* ======== Pool.map chunking (C15/Chunk.v): the order contract used above is now derived from a model of
   chunking, worker assignment and per-chunk nets ======== *)

(* With the worker as it is (every task on its own copy of the element table) Pool.map returns, for every chunk size
   k >= 1, every assignment of chunks to workers, every start order that covers all chunks, and whether or not a
   worker keeps its net between chunks, exactly: each task evaluated on a fresh copy of the initial net with its own
   outage only, in task order. *)
Theorem C15_chunked_eq_plain : forall ev persist st0 k assign order tasks,
  (1 <= k)%nat -> (forall i, (i < length (chunks k tasks))%nat -> In i order) ->
  pool_map_chunked (work_copy ev) persist st0 k assign order tasks = map (plain_pack ev st0) tasks.
Proof. exact chunked_eq_plain. Qed.
Print Assumptions C15_chunked_eq_plain.

Theorem C15_chunked_schedule_independent : forall ev st0 tasks persist k assign order persist' k' assign' order',
  (1 <= k)%nat -> (forall i, (i < length (chunks k tasks))%nat -> In i order) ->
  (1 <= k')%nat -> (forall i, (i < length (chunks k' tasks))%nat -> In i order') ->
  pool_map_chunked (work_copy ev) persist st0 k assign order tasks =
  pool_map_chunked (work_copy ev) persist' st0 k' assign' order' tasks.
Proof. exact chunked_schedule_independent. Qed.
Print Assumptions C15_chunked_schedule_independent.

(* chunking itself: the chunks concatenate to the task list; the default chunk size of Pool.map is >= 1 *)
Theorem C15_chunks_concat : forall k (l : list task), (1 <= k)%nat -> concat (chunks k l) = l.
Proof. exact (@chunks_concat task). Qed.
Print Assumptions C15_chunks_concat.
Theorem C15_pool_chunksize_pos : forall ntasks procs,
  (1 <= ntasks)%nat -> (1 <= procs)%nat -> (1 <= pool_chunksize ntasks procs)%nat.
Proof. exact pool_chunksize_pos. Qed.
Print Assumptions C15_pool_chunksize_pos.

(* the packs of the parallel path are those of the sequential loop on the net itself (outage, evaluation, finally
   back in service), given that tasks are only built for in-service elements (:104-107) ... *)
Theorem C15_chunked_par_eq_seq : forall ev persist st0 k assign order tasks,
  (1 <= k)%nat -> (forall i, (i < length (chunks k tasks))%nat -> In i order) ->
  tasks_in_service st0 tasks = true ->
  pool_map_chunked (work_copy ev) persist st0 k assign order tasks = snd (seq_packs ev st0 tasks).
Proof. exact chunked_par_eq_seq. Qed.
Print Assumptions C15_chunked_par_eq_seq.
(* ... and so is every aggregated field, for the default chunk size of any number of processes *)
Theorem C15_chunked_aggregate_eq_seq : forall n lims ev persist st0 procs assign order tasks,
  (1 <= procs)%nat -> tasks <> [] ->
  (forall i, (i < length (chunks (pool_chunksize (length tasks) procs) tasks))%nat -> In i order) ->
  tasks_in_service st0 tasks = true ->
  run_par n (map (to_pack lims) (pool_map_chunked (work_copy ev) persist st0 (pool_chunksize (length tasks) procs) assign order tasks)) =
  run_par n (map (to_pack lims) (snd (seq_packs ev st0 tasks))).
Proof. exact chunked_aggregate_eq_seq. Qed.
Print Assumptions C15_chunked_aggregate_eq_seq.
Example C15_chunked_eq_plain_nonvacuous :
  pool_map_chunked (work_copy m2_ev) false m2_st0 2 (fun i => i) [1%nat; 0%nat] m2_tasks =
  pool_map_chunked (work_copy m2_ev) true m2_st0 1 (fun _ => 0%nat) [2%nat; 0%nat; 1%nat; 0%nat] m2_tasks /\
  map (fun p : wpack => match snd p with Some _ => true | None => false end)
      (pool_map_chunked (work_copy m2_ev) false m2_st0 2 (fun i => i) [1%nat; 0%nat] m2_tasks) = [false; true; true] /\
  chunks 2 m2_tasks = [[((0%nat, 10%Z), 0%nat); ((0%nat, 11%Z), 1%nat)]; [((0%nat, 12%Z), 2%nat)]] /\
  pool_chunksize 10 2 = 2%nat /\ pool_chunksize 10 3 = 1%nat /\ pool_chunksize 3 2 = 1%nat.
Proof. exact chunked_eq_plain_nonvacuous. Qed.

(* State shared within a chunk (the seeded scenario C15-m2: no per-task deepcopy, the outage toggled on the chunk's
   table and switched back on only on the success path): the statement is REFUTED — the result depends on the chunk
   size and differs from the sequential one as soon as a raising outage is not the last task of its chunk ... *)
Theorem C15_shared_chunksize_dependent_refuted :
  exists ev st0 tasks k k' assign order,
    (1 <= k)%nat /\ (1 <= k')%nat /\
    (forall i, (i < length (chunks k tasks))%nat -> In i order) /\
    (forall i, (i < length (chunks k' tasks))%nat -> In i order) /\
    tasks_in_service st0 tasks = true /\
    pool_map_chunked (work_shared ev) false st0 k assign order tasks <>
    pool_map_chunked (work_shared ev) false st0 k' assign order tasks.
Proof. exact shared_chunksize_dependent. Qed.
Print Assumptions C15_shared_chunksize_dependent_refuted.
Theorem C15_shared_not_seq_refuted :
  exists ev st0 tasks k assign order,
    (1 <= k)%nat /\ (forall i, (i < length (chunks k tasks))%nat -> In i order) /\
    tasks_in_service st0 tasks = true /\
    pool_map_chunked (work_shared ev) false st0 k assign order tasks <> snd (seq_packs ev st0 tasks).
Proof. exact shared_not_plain. Qed.
Print Assumptions C15_shared_not_seq_refuted.
(* ... and holds under the boolean guard "no evaluation raises" *)
Theorem C15_shared_partial : forall ev persist st0 k assign order tasks,
  (1 <= k)%nat -> (forall i, (i < length (chunks k tasks))%nat -> In i order) ->
  tasks_in_service st0 tasks = true -> all_succeed ev st0 tasks = true ->
  pool_map_chunked (work_shared ev) persist st0 k assign order tasks = map (plain_pack ev st0) tasks.
Proof. exact shared_partial. Qed.
Print Assumptions C15_shared_partial.
Example C15_shared_partial_nonvacuous :
  tasks_in_service m2_st0 (tl m2_tasks) = true /\ all_succeed m2_ev m2_st0 (tl m2_tasks) = true /\
  all_succeed m2_ev m2_st0 m2_tasks = false.
Proof. exact shared_partial_nonvacuous. Qed.
