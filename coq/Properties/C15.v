(* C15 — property theorems (proofs in C15/Proofs.v) *)
From Coq Require Import ZArith QArith List Bool Permutation.
From PPV Require Import Base.QN C14.Model C15.Model C15.Proofs.
Import ListNotations.

(* Whatever the number of workers and their completion order, Pool.map hands back the packs in task
   order (contract, validated on the impl by every run); then the parallel aggregation equals the
   sequential one on every field (max, min, cause), for every evaluation function and task list. *)
Theorem C15_par_eq_seq : forall n tasks ev, run_par n (pool_map tasks ev) = run_seq n tasks ev.
Proof. exact par_eq_seq. Qed.
Print Assumptions C15_par_eq_seq.

(* Even if the packs were aggregated in a different (completion) order, max and min do not change ... *)
Theorem C15_max_order_independent : forall l l',
  Permutation l l' -> feq (mx (run_col l acc0)) (mx (run_col l' acc0)).
Proof. exact max_order_independent. Qed.
Print Assumptions C15_max_order_independent.
Theorem C15_min_order_independent : forall l l',
  Permutation l l' -> feq (mn (run_col l acc0)) (mn (run_col l' acc0)).
Proof. exact min_order_independent. Qed.
Print Assumptions C15_min_order_independent.
Theorem C15_col_perm : forall j cases cases', Permutation cases cases' -> Permutation (col j cases) (col j cases').
Proof. exact col_perm. Qed.
Print Assumptions C15_col_perm.

(* ... and the cause still names an outage attaining the maximum; only among exact ties may the named
   outage depend on the order, which is why the Pool.map order contract is needed for C15_par_eq_seq. *)
Theorem C15_cause_attains_any_order : forall l l',
  Permutation l l' -> attains l (cause (run_col l' acc0)) (mx (run_col l' acc0)).
Proof. exact cause_attains_any_order. Qed.
Print Assumptions C15_cause_attains_any_order.
Theorem C15_cause_order_dependent_on_ties_refuted :
  exists l l', Permutation l l' /\ cause (run_col l acc0) <> cause (run_col l' acc0).
Proof. exact cause_order_dependent_on_ties. Qed.
Print Assumptions C15_cause_order_dependent_on_ties_refuted.
