(* C24 — batch create == sequence of single creates (statements only; proofs in C24/Proofs.v).
   ds / db are the descriptors of a single / batch create function (C24/Model.v); [fold_col] is the sequence of
   single calls, [batch_col] the batch call, both observed on one column; [new_vals] = the rows they added. *)
From Coq Require Import ZArith QArith List Bool String.
From PPV Require Import Base.QN C24.Model C24.Proofs C24.ModelX C24.ProofsX.
Import ListNotations.
Open Scope string_scope.

(* FULL statement of the property on the faithful model: for every pair, every std type, every argument vectors,
   every column, the batch rows equal the rows of the single calls, and the same inputs are rejected.
   It is still false of pandapower for create_transformers (std-type parameters, a recorded finding) and for alpha of create_lines;
   the other pairs were repaired (fix: commits da5bd7f7c..3fe9b260d): their previous behaviour is kept as *_old and refuted. *)

(* --- for all inputs, under the boolean guard G24 (= the two functions take the value of every electrical column
   from the same place, given this std type): the rows are equal, column by column.
   Covers the NaN-optional column protocol: single calls create/fill a column one by one
   (_set_value_if_not_nan), the batch call decides once for the whole vector (_add_to_entries_if_not_nan). *)
Theorem C24_batch_rows_eq_fold_partial : forall std ds db, G24 std ds db = true ->
  forall c, existsb (String.eqb c) flags = false ->
  forall (l : list amap) (oc : ocol),
    new_vals oc (batch_col (spec_of db c) std l oc) = new_vals oc (fold_col (spec_of ds c) std l oc).
Proof. exact batch_eq_fold_rows. Qed.
Print Assumptions C24_batch_rows_eq_fold_partial.

(* column-wise version: any column on which the two descriptors are compatible *)
Theorem C24_batch_col_eq_fold_partial : forall std ds db c, col_compat std ds db c = true ->
  forall (l : list amap) (oc : ocol),
    new_vals oc (batch_col (spec_of db c) std l oc) = new_vals oc (fold_col (spec_of ds c) std l oc).
Proof. exact batch_eq_fold_col. Qed.
Print Assumptions C24_batch_col_eq_fold_partial.

(* --- rejections and returned indices: when both functions check the same node arguments / positivity / std
   parameters and consult the index of the table they extend, the batch call raises iff some call of the sequence
   of single calls raises (non-existent node, index already present or repeated in the vector), else both
   return the same indices (free ids: max+1, ... ; or the requested ones) *)
Theorem C24_batch_rejects_iff_fold_partial : forall ds db, checks_compat ds db = true ->
  forall t std idxs l, (match idxs with Some li => List.length li = List.length l | None => True end) ->
  batch_ok db t std idxs l = fold_ok ds t std idxs l.
Proof. exact batch_rejects_iff_fold. Qed.
Print Assumptions C24_batch_rejects_iff_fold_partial.

(* --- pairs for which the guards hold for every std type: loads, storages, wards (rows and rejections), buses / gens (rejections),
   3W transformers and lines (all electrical columns incl. everything taken from the std type, except alpha of lines;
   rejections), transformers (rejections incl. df <= 0) *)
Theorem C24_load_storage_full : forall std,
  (G24 std d_load_s d_load_b = true /\ checks_compat d_load_s d_load_b = true) /\
  (G24 std d_storage_s d_storage_b = true /\ checks_compat d_storage_s d_storage_b = true).
Proof. intros std. split; [apply compat_load | apply compat_storage]. Qed.
Print Assumptions C24_load_storage_full.

Theorem C24_ward_full : forall std, G24 std d_ward_s d_ward_b = true /\ checks_compat d_ward_s d_ward_b = true.
Proof. exact compat_ward. Qed.
Print Assumptions C24_ward_full.
Theorem C24_bus_gen_checks_full : checks_compat d_bus_s d_bus_b = true /\ checks_compat d_gen_s d_gen_b = true.
Proof. exact compat_bus_gen_checks. Qed.
Print Assumptions C24_bus_gen_checks_full.

Theorem C24_trafo3w_full : (forall std c, In c elec_trafo3w -> col_compat std d_t3_s d_t3_b c = true) /\
  checks_compat d_t3_s d_t3_b = true.
Proof. split; [exact compat_t3 | exact compat_t3_checks]. Qed.
Print Assumptions C24_trafo3w_full.

Theorem C24_line_full : (forall std c, In c elec_line -> col_compat std d_line_s d_line_b c = true) /\
  checks_compat d_line_s d_line_b = true.
Proof. split; [exact compat_line | exact compat_line_checks]. Qed.
Print Assumptions C24_line_full.

Theorem C24_trafo_checks_full : checks_compat d_trafo_s d_trafo_b = true.
Proof. exact compat_trafo_checks. Qed.
Print Assumptions C24_trafo_checks_full.

(* --- still refuted: create_transformers drops shift_degree and the tap changer data of the std type (known finding) *)
Theorem C24_trafo_refuted : exists std l c oc,
  new_vals oc (batch_col (spec_of d_trafo_b c) std l oc) <> new_vals oc (fold_col (spec_of d_trafo_s c) std l oc).
Proof. exact trafo_refuted. Qed.
Print Assumptions C24_trafo_refuted.
Example C24_trafo_partial_nonvacuous : G24 std_trafo_plain d_trafo_s d_trafo_b = true.
Proof. exact trafo_nonvacuous. Qed.
(* alpha is the only column on which create_lines and create_line are not compatible (create_line copies it from the
   type only when the column exists) *)
Theorem C24_line_alpha_only : incompat_cols std_line_w d_line_s d_line_b = ["alpha"; "alpha"].
Proof. exact line_alpha_only. Qed.

(* create_buses / create_gens leave min_vm_pu / max_vm_pu NaN where create_bus / create_gen write 0.0 / 2.0 (known
   finding: the repair was withdrawn because the REI code of grid_equivalents relies on it); these are the only
   incompatible columns, and with the proposed repair (default_val passed) the pairs are compatible for every input *)
Theorem C24_bus_refuted : exists l c oc,
  new_vals oc (batch_col (spec_of d_bus_b c) [] l oc) <> new_vals oc (fold_col (spec_of d_bus_s c) [] l oc).
Proof. exact bus_refuted. Qed.
Print Assumptions C24_bus_refuted.
Theorem C24_bus_gen_only_vm_limits : forall std,
  incompat_cols std d_bus_s d_bus_b = ["min_vm_pu"; "max_vm_pu"; "min_vm_pu"; "max_vm_pu"] /\
  incompat_cols std d_gen_s d_gen_b = ["max_vm_pu"; "min_vm_pu"; "max_vm_pu"; "min_vm_pu"].
Proof. intros std. split; [apply bus_incompat | apply gen_incompat]. Qed.
Print Assumptions C24_bus_gen_only_vm_limits.
Theorem C24_bus_gen_repair_full : forall std,
  (G24 std d_bus_s d_bus_b_repair = true /\ checks_compat d_bus_s d_bus_b_repair = true) /\
  (G24 std d_gen_s d_gen_b_repair = true /\ checks_compat d_gen_s d_gen_b_repair = true).
Proof. intros std. split; [apply compat_bus_repair | apply compat_gen_repair]. Qed.
Print Assumptions C24_bus_gen_repair_full.

(* --- regression witnesses: the behaviour before the repairs violates the property *)
Theorem C24_trafo_old_checks_differ : checks_compat d_trafo_s d_trafo_b_old = false.
Proof. exact trafo_old_df_check_differs. Qed.
Theorem C24_line_old_refuted : exists std l c oc,
  new_vals oc (batch_col (spec_of d_line_b_old c) std l oc) <> new_vals oc (fold_col (spec_of d_line_s c) std l oc).
Proof. exact line_old_refuted. Qed.
Print Assumptions C24_line_old_refuted.
Theorem C24_ward_old_refuted : exists t idxs l, batch_ok d_ward_b_old t [] idxs l <> fold_ok d_ward_s t [] idxs l.
Proof. exact ward_old_refuted. Qed.
Print Assumptions C24_ward_old_refuted.

(* --- duplicate costs (et given as one string): the repaired batch check is the sequence of single checks, for all
   existing cost tables and element lists *)
Theorem C24_cost_batch_eq_fold_full : forall is_poly et pt els poly pwl,
  costs_batch_rejects is_poly poly pwl els et pt = cost_fold_rejects is_poly poly pwl els et pt.
Proof. exact cost_batch_eq_fold. Qed.
Print Assumptions C24_cost_batch_eq_fold_full.
(* the check before the repair (sum(poly) & sum(pwl)): sound but far from complete *)
Theorem C24_cost_old_rejects_only_duplicates : forall is_poly poly pwl els et pt,
  costs_batch_rejects_old is_poly poly pwl els et pt = true -> cost_fold_rejects is_poly poly pwl els et pt = true.
Proof. exact cost_old_batch_sound. Qed.
Print Assumptions C24_cost_old_rejects_only_duplicates.
Theorem C24_cost_old_refuted : exists is_poly poly pwl els et pt,
  cost_fold_rejects is_poly poly pwl els et pt = true /\ costs_batch_rejects_old is_poly poly pwl els et pt = false.
Proof. exact cost_old_refuted. Qed.
Print Assumptions C24_cost_old_refuted.
Theorem C24_cost_old_partial : forall is_poly poly pwl els et pt, G24_cost poly pwl els et = true ->
  cost_fold_rejects is_poly poly pwl els et pt = false /\ costs_batch_rejects_old is_poly poly pwl els et pt = false.
Proof. exact cost_old_partial. Qed.
Print Assumptions C24_cost_old_partial.
Example C24_cost_partial_nonvacuous : G24_cost [mkcost 3 "gen" "p"] [mkcost 1 "load" "p"] [0%Z; 1%Z; 2%Z] "gen" = true.
Proof. exact cost_partial_nonvacuous. Qed.

(* ======================================================================================================================
   Extended descriptors (C24/ModelX.v): pairs with conditional column writes / argument defaults computed from other
   arguments: sgen(s), shunt(s), impedance(s), line(s)_from_parameters, transformer(s)_from_parameters,
   transformer(s)3w_from_parameters, bus(es)_dc, switch(es); costs with et / power_type per element.
   [xfold_col] = the sequence of single calls, each following the column specification its own arguments select;
   [xbatch_col] = the batch call following the specification the whole argument vectors select. *)

(* --- for all inputs, under the boolean guard GX (every single call of the sequence takes the same branch, and that
   branch is compatible with the branch the batch call takes for these vectors): equal rows, column by column *)
Theorem C24_xbatch_rows_eq_fold_partial : forall std xs xb c l, GX std xs xb c l = true ->
  forall oc, new_vals oc (xbatch_col xb c std l oc) = new_vals oc (xfold_col xs c std l oc).
Proof. exact xbatch_eq_fold. Qed.
Print Assumptions C24_xbatch_rows_eq_fold_partial.

(* --- rejections: same node / index / positivity checks and the extra raise conditions agree on these vectors *)
Theorem C24_xbatch_rejects_iff_fold_partial : forall xs xb l, xchecks_compat xs xb l = true ->
  forall t std idxs, (match idxs with Some li => List.length li = List.length l | None => True end) ->
  xbatch_ok xb t std idxs l = xfold_ok xs t std idxs l.
Proof. exact xbatch_rejects_iff_fold. Qed.
Print Assumptions C24_xbatch_rejects_iff_fold_partial.

(* --- the guards hold for EVERY argument vector list on the listed columns (= all columns the single function writes
   except the named exceptions) *)
Theorem C24_sgen_cols_full : forall std c, In c elec_sgen -> forall l, GX std x_sgen_s x_sgen_b c l = true.
Proof. exact compat_sgen. Qed.
Print Assumptions C24_sgen_cols_full.
Theorem C24_shunt_cols_full : forall std c, In c elec_shunt -> forall l, GX std x_shunt_s x_shunt_b c l = true.
Proof. exact compat_shunt. Qed.
Theorem C24_impedance_cols_full : forall std c, In c elec_imp -> forall l, GX std x_imp_s x_imp_b c l = true.
Proof. exact compat_imp. Qed.
Theorem C24_linepar_cols_full : forall std c, In c elec_linepar -> forall l, GX std x_linepar_s x_linepar_b c l = true.
Proof. exact compat_linepar. Qed.
(* every column of create_transformer_from_parameters (after "fix: create_transformers_from_parameters defaults tap2_pos
   to tap2_neutral") *)
Theorem C24_trafopar_cols_full : forall std c, In c elec_trafopar -> forall l, GX std x_trafopar_s x_trafopar_b c l = true.
Proof. exact compat_trafopar. Qed.
Print Assumptions C24_trafopar_cols_full.
(* every column of create_transformer3w_from_parameters *)
Theorem C24_trafo3wpar_cols_full : forall std c, In c elec_t3par -> forall l, GX std x_t3par_s x_t3par_b c l = true.
Proof. exact compat_t3par. Qed.
Print Assumptions C24_trafo3wpar_cols_full.
Theorem C24_switch_cols_full : forall std c, In c elec_switch -> forall l, GX std x_switch_s x_switch_b c l = true.
Proof. exact compat_switch. Qed.
Theorem C24_busdc_cols_full : forall std c, In c elec_busdc -> forall l, GX std x_busdc_s x_busdc_b c l = true.
Proof. exact compat_busdc. Qed.
Theorem C24_xchecks_full : forall l,
  xchecks_compat x_shunt_s x_shunt_b l = true /\ xchecks_compat x_linepar_s x_linepar_b l = true /\
  xchecks_compat x_busdc_s x_busdc_b l = true /\ xchecks_compat x_switch_s x_switch_b l = true /\
  xchecks_compat x_trafopar_s x_trafopar_b l = true /\ xchecks_compat x_t3par_s x_t3par_b l = true.
Proof. exact xchecks_plain. Qed.
Print Assumptions C24_xchecks_full.

(* --- sgens (known finding C24-sgens-generator-type): with the generator type passed and equal for every row the
   remaining four columns and the rejections agree too; refuted otherwise *)
Theorem C24_sgen_partial : forall std g l, sgen_hom g l = true ->
  (forall c, In c [GT; "k"; "lrc_pu"; "max_ik_ka"] -> GX std x_sgen_s x_sgen_b c l = true) /\
  (l <> [] -> xchecks_compat x_sgen_s x_sgen_b l = true).
Proof. intros std g l H. split; [apply (sgen_hom_compat std g l H) | apply (xchecks_sgen g l H)]. Qed.
Print Assumptions C24_sgen_partial.
Example C24_sgen_partial_nonvacuous : sgen_hom "async" [sg (VS "async") (q 3 2); sg (VS "async") VNaN] = true.
Proof. exact sgen_hom_nonvacuous. Qed.
Theorem C24_sgen_refuted :
  (exists l c oc, new_vals oc (xbatch_col x_sgen_b c [] l oc) <> new_vals oc (xfold_col x_sgen_s c [] l oc)) /\
  (exists l oc, new_vals oc (xbatch_col x_sgen_b "k" [] l oc) <> new_vals oc (xfold_col x_sgen_s "k" [] l oc)) /\
  (exists t l, xbatch_ok x_sgen_b_old t [] None l <> xfold_ok x_sgen_s t [] None l).
Proof. split; [exact sgen_refuted | split; [exact sgen_mixed_refuted | exact sgen_old_rej_refuted]]. Qed.
Print Assumptions C24_sgen_refuted.

(* --- lines_from_parameters (known finding C24-lines-from-parameters-zero-seq) *)
Theorem C24_linepar_refuted : exists l c oc,
  new_vals oc (xbatch_col x_linepar_b c [] l oc) <> new_vals oc (xfold_col x_linepar_s c [] l oc).
Proof. exact linepar_refuted. Qed.
Example C24_linepar_partial_nonvacuous :
  forallb (fun c => GX [] x_linepar_s x_linepar_b c [lp_full; lp_full]) ["r0_ohm_per_km"; "x0_ohm_per_km"; "c0_nf_per_km"; "g0_us_per_km"] = true.
Proof. exact linepar_nonvacuous. Qed.

(* --- regression witnesses for the repaired *_from_parameters batch functions: before the repairs tap2_pos did not fall
   back to tap2_neutral, and a string-valued optional argument passed as a list (vector_group, tap2_side, tap2_changer_type;
   tap_changer_type of the 3W function) raised TypeError in _not_nan *)
Theorem C24_trafopar_old_refuted :
  (exists l oc, new_vals oc (xbatch_col x_trafopar_b_old "tap2_pos" [] l oc) <> new_vals oc (xfold_col x_trafopar_s "tap2_pos" [] l oc)) /\
  (exists t l, xbatch_ok x_trafopar_b_old t [] None l <> xfold_ok x_trafopar_s t [] None l) /\
  (exists t l, xbatch_ok x_t3par_b_old t [] None l <> xfold_ok x_t3par_s t [] None l).
Proof. split; [exact trafopar_old_refuted | split; [exact trafopar_old_rej_refuted | exact t3par_old_rej_refuted]]. Qed.
Print Assumptions C24_trafopar_old_refuted.

(* --- impedances: after "fix: create_impedances accepts the zero-sequence arguments" the zero-sequence columns are written
   by the batch call as by the single calls (example); before it the batch call raised InvalidIndexError (old, refuted).
   Still: "is None" is tested on the whole argument, so a None inside a vector is not replaced by the ft value *)
Theorem C24_impedance_old_refuted : exists t l, xbatch_ok x_imp_b_old t [] None l <> xfold_ok x_imp_s t [] None l.
Proof. exact imp_old_rej_refuted. Qed.
Print Assumptions C24_impedance_old_refuted.
Theorem C24_impedance_refuted : exists l oc,
  new_vals oc (xbatch_col x_imp_b "rtf_pu" [] l oc) <> new_vals oc (xfold_col x_imp_s "rtf_pu" [] l oc).
Proof. exact imp_col_refuted. Qed.
Print Assumptions C24_impedance_refuted.
Example C24_impedance_partial_nonvacuous :
  forallb (fun c => GX [] x_imp_s x_imp_b c [imp_a [("rtf_pu", q 3 8)]; imp_a [("rtf_pu", q 1 2)]]) ["rtf_pu"; "xtf_pu"; "gt_pu"; "bt_pu"] = true
  /\ xchecks_compat x_imp_s x_imp_b [imp_a []; imp_a []] = true.
Proof. exact imp_nonvacuous. Qed.
Example C24_impedance_zero_seq_nonvacuous :
  forallb (fun c => GX [] x_imp_s x_imp_b c [imp_z; imp_z])
          ["rft0_pu"; "xft0_pu"; "rtf0_pu"; "xtf0_pu"; "gf0_pu"; "bf0_pu"; "gt0_pu"; "bt0_pu"] = true
  /\ xchecks_compat x_imp_s x_imp_b [imp_z; imp_z] = true
  /\ new_vals {| oc_ex := false; oc_vals := [] |} (xbatch_col x_imp_b "rtf0_pu" [] [imp_z; imp_z] {| oc_ex := false; oc_vals := [] |})
     = [q 1 2; q 1 2].
Proof. exact imp_zero_seq_nonvacuous. Qed.

(* --- shunts: vn_kv defaults to the bus voltage per element / for the whole argument *)
Theorem C24_shunt_refuted : exists l oc,
  new_vals oc (xbatch_col x_shunt_b "vn_kv" [] l oc) <> new_vals oc (xfold_col x_shunt_s "vn_kv" [] l oc).
Proof. exact shunt_refuted. Qed.
Example C24_shunt_partial_nonvacuous : GX [] x_shunt_s x_shunt_b "vn_kv" [sh []; sh []] = true /\
                         GX [] x_shunt_s x_shunt_b "vn_kv" [sh [("vn_kv", q 10 1)]; sh [("vn_kv", q 20 1)]] = true.
Proof. exact shunt_nonvacuous. Qed.

(* --- buses_dc: the vm limits, as for buses (finding C24-vm-limit-default-missing-in-batch) *)
Theorem C24_busdc_refuted : exists l c oc,
  new_vals oc (xbatch_col x_busdc_b c [] l oc) <> new_vals oc (xfold_col x_busdc_s c [] l oc).
Proof. exact busdc_refuted. Qed.

(* --- switches: the vector-wise checks of create_switches (buses exist, element types implemented, elements exist per
   type, each bus is one of the buses of its own element) accept exactly the vectors every row of which create_switch
   accepts; with the index checks: create_switches raises iff some create_switch call of the sequence raises, same indices *)
Theorem C24_switch_checks_full : forall env l, sw_batch_ok env l = forallb (sw_single_ok env) l.
Proof. exact sw_batch_ok_forall. Qed.
Print Assumptions C24_switch_checks_full.
Theorem C24_switch_rejects_iff_fold_full : forall env idx idxs l,
  (match idxs with Some li => List.length li = List.length l | None => True end) ->
  sw_batch env idx idxs l = sw_fold env idx idxs l.
Proof. exact sw_batch_eq_fold. Qed.
Print Assumptions C24_switch_rejects_iff_fold_full.
Example C24_switch_nonvacuous : sw_batch swenv_w [] None [mksw 0 0 "l"; mksw 2 1 "l"; mksw 0 2 "b"] = Some [0; 1; 2]%Z /\
                      sw_batch swenv_w [] None [mksw 0 1 "l"] = None.
Proof. exact sw_nonvacuous. Qed.

(* --- duplicate costs with et and power_type given per element: _costs_existance_check = the sequence of single checks *)
Theorem C24_cost_list_batch_eq_fold_full : forall is_poly items poly pwl,
  costs_batch_rejects_l is_poly poly pwl items = cost_fold_rejects_l is_poly poly pwl items.
Proof. exact cost_batch_eq_fold_l. Qed.
Print Assumptions C24_cost_list_batch_eq_fold_full.
