(* C24 — batch create == sequence of single creates (statements only; proofs in C24/Proofs.v).
   ds / db are the descriptors of a single / batch create function (C24/Model.v); [fold_col] is the sequence of
   single calls, [batch_col] the batch call, both observed on one column; [new_vals] = the rows they added. *)
From Coq Require Import ZArith QArith List Bool String.
From PPV Require Import Base.QN C24.Model C24.Proofs.
Import ListNotations.
Open Scope string_scope.

(* FULL statement of the property on the faithful model: for every pair, every std type, every argument vectors,
   every column, the batch rows equal the rows of the single calls, and the same inputs are rejected.
   It is still false of pandapower for create_transformers (std-type parameters, a recorded finding) and for alpha of create_lines;
   the other pairs were repaired (fix: commits da5bd7f7c..3fe9b260d): their previous behaviour is kept as *_old and refuted. *)

(* --- for all inputs, under the boolean guard G24 (= the two functions take the value of every electrical column
   from the same place, given this std type): the rows are equal, column by column.
   Covers the NaN-optional column protocol: single calls create/fill a column one by one
   (_set_value_if_not_nan), the batch call decides once for the whole vector (_add_to_entries_if_not_nan). *)
Theorem C24_batch_rows_eq_fold_partial : forall std ds db, G24 std ds db = true ->
  forall c, existsb (String.eqb c) flags = false ->
  forall (l : list amap) (oc : ocol),
    new_vals oc (batch_col (spec_of db c) std l oc) = new_vals oc (fold_col (spec_of ds c) std l oc).
Proof. exact batch_eq_fold_rows. Qed.
Print Assumptions C24_batch_rows_eq_fold_partial.

(* column-wise version: any column on which the two descriptors are compatible *)
Theorem C24_batch_col_eq_fold_partial : forall std ds db c, col_compat std ds db c = true ->
  forall (l : list amap) (oc : ocol),
    new_vals oc (batch_col (spec_of db c) std l oc) = new_vals oc (fold_col (spec_of ds c) std l oc).
Proof. exact batch_eq_fold_col. Qed.
Print Assumptions C24_batch_col_eq_fold_partial.

(* --- rejections and returned indices: when both functions check the same node arguments / positivity / std
   parameters and consult the index of the table they extend, the batch call raises iff some call of the sequence
   of single calls raises (non-existent node, index already present or repeated in the vector), else both
   return the same indices (free ids: max+1, ... ; or the requested ones) *)
Theorem C24_batch_rejects_iff_fold_partial : forall ds db, checks_compat ds db = true ->
  forall t std idxs l, (match idxs with Some li => List.length li = List.length l | None => True end) ->
  batch_ok db t std idxs l = fold_ok ds t std idxs l.
Proof. exact batch_rejects_iff_fold. Qed.
Print Assumptions C24_batch_rejects_iff_fold_partial.

(* --- pairs for which the guards hold for every std type: loads, storages, wards (rows and rejections), buses / gens (rejections),
   3W transformers and lines (all electrical columns incl. everything taken from the std type, except alpha of lines;
   rejections), transformers (rejections incl. df <= 0) *)
Theorem C24_load_storage_full : forall std,
  (G24 std d_load_s d_load_b = true /\ checks_compat d_load_s d_load_b = true) /\
  (G24 std d_storage_s d_storage_b = true /\ checks_compat d_storage_s d_storage_b = true).
Proof. intros std. split; [apply compat_load | apply compat_storage]. Qed.
Print Assumptions C24_load_storage_full.

Theorem C24_ward_full : forall std, G24 std d_ward_s d_ward_b = true /\ checks_compat d_ward_s d_ward_b = true.
Proof. exact compat_ward. Qed.
Print Assumptions C24_ward_full.
Theorem C24_bus_gen_checks_full : checks_compat d_bus_s d_bus_b = true /\ checks_compat d_gen_s d_gen_b = true.
Proof. exact compat_bus_gen_checks. Qed.
Print Assumptions C24_bus_gen_checks_full.

Theorem C24_trafo3w_full : (forall std c, In c elec_trafo3w -> col_compat std d_t3_s d_t3_b c = true) /\
  checks_compat d_t3_s d_t3_b = true.
Proof. split; [exact compat_t3 | exact compat_t3_checks]. Qed.
Print Assumptions C24_trafo3w_full.

Theorem C24_line_full : (forall std c, In c elec_line -> col_compat std d_line_s d_line_b c = true) /\
  checks_compat d_line_s d_line_b = true.
Proof. split; [exact compat_line | exact compat_line_checks]. Qed.
Print Assumptions C24_line_full.

Theorem C24_trafo_checks_full : checks_compat d_trafo_s d_trafo_b = true.
Proof. exact compat_trafo_checks. Qed.
Print Assumptions C24_trafo_checks_full.

(* --- still refuted: create_transformers drops shift_degree and the tap changer data of the std type (known finding) *)
Theorem C24_trafo_refuted : exists std l c oc,
  new_vals oc (batch_col (spec_of d_trafo_b c) std l oc) <> new_vals oc (fold_col (spec_of d_trafo_s c) std l oc).
Proof. exact trafo_refuted. Qed.
Print Assumptions C24_trafo_refuted.
Example C24_trafo_partial_nonvacuous : G24 std_trafo_plain d_trafo_s d_trafo_b = true.
Proof. exact trafo_nonvacuous. Qed.
(* alpha is the only column on which create_lines and create_line are not compatible (create_line copies it from the
   type only when the column exists) *)
Theorem C24_line_alpha_only : incompat_cols std_line_w d_line_s d_line_b = ["alpha"; "alpha"].
Proof. exact line_alpha_only. Qed.

(* create_buses / create_gens leave min_vm_pu / max_vm_pu NaN where create_bus / create_gen write 0.0 / 2.0 (known
   finding: the repair was withdrawn because the REI code of grid_equivalents relies on it); these are the only
   incompatible columns, and with the proposed repair (default_val passed) the pairs are compatible for every input *)
Theorem C24_bus_refuted : exists l c oc,
  new_vals oc (batch_col (spec_of d_bus_b c) [] l oc) <> new_vals oc (fold_col (spec_of d_bus_s c) [] l oc).
Proof. exact bus_refuted. Qed.
Print Assumptions C24_bus_refuted.
Theorem C24_bus_gen_only_vm_limits : forall std,
  incompat_cols std d_bus_s d_bus_b = ["min_vm_pu"; "max_vm_pu"; "min_vm_pu"; "max_vm_pu"] /\
  incompat_cols std d_gen_s d_gen_b = ["max_vm_pu"; "min_vm_pu"; "max_vm_pu"; "min_vm_pu"].
Proof. intros std. split; [apply bus_incompat | apply gen_incompat]. Qed.
Print Assumptions C24_bus_gen_only_vm_limits.
Theorem C24_bus_gen_repair_full : forall std,
  (G24 std d_bus_s d_bus_b_repair = true /\ checks_compat d_bus_s d_bus_b_repair = true) /\
  (G24 std d_gen_s d_gen_b_repair = true /\ checks_compat d_gen_s d_gen_b_repair = true).
Proof. intros std. split; [apply compat_bus_repair | apply compat_gen_repair]. Qed.
Print Assumptions C24_bus_gen_repair_full.

(* --- regression witnesses: the behaviour before the repairs violates the property *)
Theorem C24_trafo_old_checks_differ : checks_compat d_trafo_s d_trafo_b_old = false.
Proof. exact trafo_old_df_check_differs. Qed.
Theorem C24_line_old_refuted : exists std l c oc,
  new_vals oc (batch_col (spec_of d_line_b_old c) std l oc) <> new_vals oc (fold_col (spec_of d_line_s c) std l oc).
Proof. exact line_old_refuted. Qed.
Print Assumptions C24_line_old_refuted.
Theorem C24_ward_old_refuted : exists t idxs l, batch_ok d_ward_b_old t [] idxs l <> fold_ok d_ward_s t [] idxs l.
Proof. exact ward_old_refuted. Qed.
Print Assumptions C24_ward_old_refuted.

(* --- duplicate costs (et given as one string): the repaired batch check is the sequence of single checks, for all
   existing cost tables and element lists *)
Theorem C24_cost_batch_eq_fold_full : forall is_poly et pt els poly pwl,
  costs_batch_rejects is_poly poly pwl els et pt = cost_fold_rejects is_poly poly pwl els et pt.
Proof. exact cost_batch_eq_fold. Qed.
Print Assumptions C24_cost_batch_eq_fold_full.
(* the check before the repair (sum(poly) & sum(pwl)): sound but far from complete *)
Theorem C24_cost_old_rejects_only_duplicates : forall is_poly poly pwl els et pt,
  costs_batch_rejects_old is_poly poly pwl els et pt = true -> cost_fold_rejects is_poly poly pwl els et pt = true.
Proof. exact cost_old_batch_sound. Qed.
Print Assumptions C24_cost_old_rejects_only_duplicates.
Theorem C24_cost_old_refuted : exists is_poly poly pwl els et pt,
  cost_fold_rejects is_poly poly pwl els et pt = true /\ costs_batch_rejects_old is_poly poly pwl els et pt = false.
Proof. exact cost_old_refuted. Qed.
Print Assumptions C24_cost_old_refuted.
Theorem C24_cost_old_partial : forall is_poly poly pwl els et pt, G24_cost poly pwl els et = true ->
  cost_fold_rejects is_poly poly pwl els et pt = false /\ costs_batch_rejects_old is_poly poly pwl els et pt = false.
Proof. exact cost_old_partial. Qed.
Print Assumptions C24_cost_old_partial.
Example C24_cost_partial_nonvacuous : G24_cost [mkcost 3 "gen" "p"] [mkcost 1 "load" "p"] [0%Z; 1%Z; 2%Z] "gen" = true.
Proof. exact cost_partial_nonvacuous. Qed.
