(* C21 — PYPOWER/MATPOWER conversion round trip: property theorems (proofs in C21/Proofs.v).
   to_* = pandapower -> per-unit ppc row (to_ppc/_pd2ppc), from_* = ppc row -> pandapower element (from_ppc).
   Square roots taken by the implementation are oracle inputs constrained by 0 <= s /\ s*s == argument. *)
From Coq Require Import ZArith QArith List Bool.
From PPV Require Import Base.QN C21.Model C21.Proofs C21.GenWhich C21.Impedance.
Import ListNotations.
Open Scope Q_scope.

(* ppc -> net -> ppc on a branch converted to a line: r, x, b and g are reproduced (after the repair
   "fix: from_ppc no longer halves the line conductance") *)
Theorem C21_line_roundtrip : forall pif S vn r,
  ~ pif == 0 -> ~ S == 0 -> ~ vn == 0 ->
  let r' := to_line pif S vn (from_line pif S vn r) in
  br_r r' == br_r r /\ br_x r' == br_x r /\ br_b r' == br_b r /\ br_g r' == br_g r.
Proof. exact ppc_line_roundtrip. Qed.
Print Assumptions C21_line_roundtrip.

Example C21_line_roundtrip_nonvacuous : ~ (157 # 1) == 0 /\ ~ (10 # 1) == 0 /\ ~ (20 # 1) == 0.
Proof. repeat split; intro H; discriminate H. Qed.

(* the rule before the repair (g = G/Zni*1e6/2) halved the conductance: exact characterisation, regression witness and
   the guard under which it was right *)
Theorem C21_line_roundtrip_old_faithful : forall pif S vn r,
  ~ pif == 0 -> ~ S == 0 -> ~ vn == 0 ->
  let r' := to_line pif S vn (from_line_old pif S vn r) in
  br_r r' == br_r r /\ br_x r' == br_x r /\ br_b r' == br_b r /\ br_g r' == br_g r / 2.
Proof. exact ppc_line_roundtrip_old. Qed.
Print Assumptions C21_line_roundtrip_old_faithful.

Theorem C21_line_roundtrip_old_refuted :
  exists pif S vn r, ~ pif == 0 /\ ~ S == 0 /\ ~ vn == 0 /\
    ~ br_g (to_line pif S vn (from_line_old pif S vn r)) == br_g r.
Proof. exact line_roundtrip_old_refuted. Qed.
Print Assumptions C21_line_roundtrip_old_refuted.

Theorem C21_line_roundtrip_old_partial : forall pif S vn r,
  ~ pif == 0 -> ~ S == 0 -> ~ vn == 0 -> G21_line r = true ->
  let r' := to_line pif S vn (from_line_old pif S vn r) in
  br_r r' == br_r r /\ br_x r' == br_x r /\ br_b r' == br_b r /\ br_g r' == br_g r.
Proof. exact line_roundtrip_old_partial. Qed.
Print Assumptions C21_line_roundtrip_old_partial.

(* net -> ppc -> net: the created line (length 1, parallel 1) carries the same total ohmic r, x, c, g *)
Theorem C21_line_ohmic_equivalent : forall pif S vn l,
  ~ pif == 0 -> ~ S == 0 -> ~ vn == 0 -> ~ l_par l == 0 ->
  let l' := from_line pif S vn (to_line pif S vn l) in
  l_len l' == 1 /\ l_par l' == 1 /\
  l_r l' == l_r l * l_len l / l_par l /\ l_x l' == l_x l * l_len l / l_par l /\
  l_c l' == l_c l * l_len l * l_par l /\ l_g l' == l_g l * l_len l * l_par l.
Proof. exact line_ohmic_equiv. Qed.
Print Assumptions C21_line_ohmic_equivalent.

(* a branch is converted to a line only if it joins equal base voltages with neutral tap and no shift,
   so base voltage of from bus (to_ppc) and to bus (from_ppc) coincide *)
Theorem C21_line_class_same_base : forall fvn tvn tap shift,
  which fvn tvn tap shift = 0%nat -> fvn == tvn /\ (tap == 0 \/ tap == 1) /\ shift == 0.
Proof. exact which_line_same_vn. Qed.
Print Assumptions C21_line_class_same_base.

Theorem C21_class_exclusive : forall fvn tvn tap shift,
  is_line fvn tvn tap shift = true -> is_trafo tap shift = false.
Proof. exact which_exclusive. Qed.
Print Assumptions C21_class_exclusive.

(* ppc transformer row -> net.trafo (vk, vkr, pfe, i0, tap as one Ratio step, shift) -> ppc row:
   r, x, g, b, tap ratio and shift are reproduced (pi model; hv side = from bus; RATE_A a number) *)
Theorem C21_trafo_roundtrip : forall S fvn tvn zk ym r x b g tap shift rate sq_vn sq_x sq_b,
  0 < S -> 0 < tvn -> tvn <= fvn -> isclose0 tap = false -> 0 < tap -> ~ x == 0 -> b <= 0 -> 0 <= rate ->
  0 <= zk /\ zk * zk == r * r + x * x ->
  0 <= ym /\ ym * ym == b * b + g * g ->
  let t := fst (from_trafo S fvn tvn zk ym r x b g tap shift (Some rate)) in
  0 <= sq_vn /\ sq_vn * sq_vn == tap_arg t * tap_arg t ->
  is_sqrt sq_x (x_arg S tvn sq_vn t) ->
  is_sqrt sq_b (b_arg t) ->
  let row := to_trafo S fvn tvn sq_vn sq_x sq_b t in
  feq (tr_r row) r /\ feq (tr_x row) x /\ feq (tr_g row) g /\ feq (tr_b row) b /\
  tr_tap row == tap /\ tr_shift row == shift.
Proof. exact trafo_roundtrip_sec. Qed.
Print Assumptions C21_trafo_roundtrip.

(* RATE_A = NaN (max_loading_percent NaN for that transformer): after the repair "fix: from_ppc treats a NaN branch rating
   like a missing one" every rating yields a positive sn_mva (so C21_trafo_roundtrip applies); before it NaN stayed NaN *)
Theorem C21_rating_always_positive : forall rate, (match rate with Some r => 0 <= r | None => True end) ->
  exists s, sn_of_rate rate = Some s /\ 0 < s.
Proof. exact sn_of_rate_total. Qed.
Print Assumptions C21_rating_always_positive.
Theorem C21_rating_old_nan_refuted : sn_of_rate_old None = None.
Proof. exact sn_of_rate_old_nan. Qed.
Print Assumptions C21_rating_old_nan_refuted.

(* impedance-class branches (different base voltages, tap 0/1, no shift): ppc row -> net.impedance -> ppc row reproduces
   r, x, b, g for EVERY rating, zero and NaN included (after the repair "fix: from_ppc treats a NaN rating of an impedance
   branch like a missing one") *)
Theorem C21_impedance_roundtrip : forall S r x b g rate, ~ S == 0 ->
  let row := to_impedance S (from_impedance S r x b g rate) in
  feq (ir_r row) r /\ feq (ir_x row) x /\ feq (ir_b row) b /\ feq (ir_g row) g.
Proof. exact impedance_roundtrip. Qed.
Print Assumptions C21_impedance_roundtrip.

Example C21_impedance_roundtrip_nonvacuous :
  ~ (10 # 1) == 0 /\ i_sn (from_impedance (10 # 1) (1 # 100) (4 # 100) 0 0 None) = Some MAX_VAL /\
  i_sn (from_impedance (10 # 1) (1 # 100) (4 # 100) 0 0 (Some (25 # 1))) = Some (25 # 1).
Proof. repeat split. intro H; discriminate H. Qed.

(* the rule before the repair kept a NaN rating: regression witness and the guard under which it was right *)
Theorem C21_impedance_roundtrip_old_refuted : exists S r x b g rate, ~ S == 0 /\
  ~ feq (ir_r (to_impedance S (from_impedance_old S r x b g rate))) r.
Proof. exact impedance_roundtrip_old_refuted. Qed.
Print Assumptions C21_impedance_roundtrip_old_refuted.

Theorem C21_impedance_roundtrip_old_partial : forall S r x b g rate, ~ S == 0 -> G21_imp_rate rate = true ->
  let row := to_impedance S (from_impedance_old S r x b g rate) in
  feq (ir_r row) r /\ feq (ir_x row) x /\ feq (ir_b row) b /\ feq (ir_g row) g.
Proof. exact impedance_roundtrip_old_partial. Qed.
Print Assumptions C21_impedance_roundtrip_old_partial.

(* bus rows: PD/QD -> load or sgen -> PD/QD ; GS/BS -> shunt -> GS/BS *)
Theorem C21_bus_pq_roundtrip : forall pd qd,
  fst (to_bus_pq (from_bus_pq pd qd)) == pd /\ snd (to_bus_pq (from_bus_pq pd qd)) == qd.
Proof. exact bus_pq_roundtrip. Qed.
Print Assumptions C21_bus_pq_roundtrip.

Theorem C21_shunt_roundtrip : forall vn gs bs, ~ vn == 0 ->
  fst (to_bus_shunt vn (from_bus_shunt vn gs bs)) == gs /\ snd (to_bus_shunt vn (from_bus_shunt vn gs bs)) == bs.
Proof. exact shunt_roundtrip. Qed.
Print Assumptions C21_shunt_roundtrip.

(* generator rows: every slack bus with gen rows gets exactly one ext_grid, every PV bus exactly one gen
   (classification "first row of the bus"; the implementation's regrouped computation gen_which equals it:
   C21_gen_which_is_first_row_of_bus below) *)
Theorem C21_one_ext_grid_per_slack_bus : forall b l,
  (forall g, In g l -> g_bus g = b -> g_type g = 3%Z) ->
  count_class b 0 l (gen_which_spec l) = if memz b (map g_bus l) then 1%nat else 0%nat.
Proof. exact gen_spec_one_ext_grid_per_slack_bus. Qed.
Print Assumptions C21_one_ext_grid_per_slack_bus.

Theorem C21_one_gen_per_pv_bus : forall b l,
  (forall g, In g l -> g_bus g = b -> g_type g = 2%Z) ->
  count_class b 1 l (gen_which_spec l) = if memz b (map g_bus l) then 1%nat else 0%nat.
Proof. exact gen_spec_one_gen_per_pv_bus. Qed.
Print Assumptions C21_one_gen_per_pv_bus.

(* _gen_to_which as implemented (rows regrouped by bus type 3,2,1,4; duplicated() over that order; sort_index) is the
   direct rule "ext_grid / gen = FIRST gen row of its bus in the original ppc order, every later row of a slack/PV bus
   and every row of a PQ bus = sgen, rows of isolated buses are dropped", for every list of gen rows in which the bus
   type is a function of the bus (in the implementation the type column is ppc["bus"][bus_pos, BUS_TYPE]). *)
Theorem C21_gen_which_is_first_row_of_bus : forall l,
  (forall g g', In g l -> In g' l -> g_bus g = g_bus g' -> g_type g = g_type g') ->
  gen_which l = gen_which_spec l.
Proof. exact gen_which_eq_spec. Qed.
Print Assumptions C21_gen_which_is_first_row_of_bus.

(* the hypothesis is needed: rows of ONE bus typed 2 then 3 are classified differently by the regrouped computation *)
Theorem C21_gen_which_inconsistent_types_refuted : exists l, gen_which l <> gen_which_spec l.
Proof. exact gen_which_neq_spec_without_consistency. Qed.
Print Assumptions C21_gen_which_inconsistent_types_refuted.

(* hence the implementation's own classification creates exactly one ext_grid per slack bus / one gen per PV bus *)
Theorem C21_impl_one_ext_grid_per_slack_bus : forall b l,
  (forall g g', In g l -> In g' l -> g_bus g = g_bus g' -> g_type g = g_type g') ->
  (forall g, In g l -> g_bus g = b -> g_type g = 3%Z) ->
  count_class b 0 l (gen_which l) = if memz b (map g_bus l) then 1%nat else 0%nat.
Proof. exact gen_which_one_ext_grid_per_slack_bus. Qed.
Print Assumptions C21_impl_one_ext_grid_per_slack_bus.

Theorem C21_impl_one_gen_per_pv_bus : forall b l,
  (forall g g', In g l -> In g' l -> g_bus g = g_bus g' -> g_type g = g_type g') ->
  (forall g, In g l -> g_bus g = b -> g_type g = 2%Z) ->
  count_class b 1 l (gen_which l) = if memz b (map g_bus l) then 1%nat else 0%nat.
Proof. exact gen_which_one_gen_per_pv_bus. Qed.
Print Assumptions C21_impl_one_gen_per_pv_bus.

(* non-vacuity: 7 rows, buses 5(PQ) 2(PV) 7(slack) 2 7 9(isolated) 3(PV): consistent, several rows per bus, first rows
   not in type order; classes sgen, gen, ext_grid, sgen, sgen, dropped, gen *)
Example C21_gen_which_nonvacuous :
  (forall g g', In g gw_example -> In g' gw_example -> g_bus g = g_bus g' -> g_type g = g_type g') /\
  gen_which gw_example = [2; 1; 0; 2; 2; 3; 1]%nat.
Proof. split; [exact gw_example_consistent | exact gw_example_value]. Qed.

(* the hypotheses of C21_trafo_roundtrip are satisfiable: 110/20 kV, tap ratio 1.1, r+jx = 0.03+0.04j, g+jb = 0.004-0.003j *)
Example C21_trafo_roundtrip_nonvacuous :
  let S := 1 in let fvn := 110 # 1 in let tvn := 20 # 1 in
  let t := fst (from_trafo S fvn tvn (5 # 100) (5 # 1000) (3 # 100) (4 # 100) (-3 # 1000) (4 # 1000) (11 # 10) (150 # 1) (Some (25 # 1))) in
  isclose0 (11 # 10) = false /\
  (0 <= 5 # 100 /\ (5 # 100) * (5 # 100) == (3 # 100) * (3 # 100) + (4 # 100) * (4 # 100)) /\
  (0 <= 5 # 1000 /\ (5 # 1000) * (5 # 1000) == (-3 # 1000) * (-3 # 1000) + (4 # 1000) * (4 # 1000)) /\
  (0 <= 121 # 1 /\ (121 # 1) * (121 # 1) == tap_arg t * tap_arg t) /\
  is_sqrt (4 # 100) (x_arg S tvn (121 # 1) t) /\ is_sqrt (3 # 1000) (b_arg t).
Proof. vm_compute. repeat split; intro H; discriminate H. Qed.
