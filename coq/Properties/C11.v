(* C11 — three-phase vs symmetric: symmetrical-component theorems (proofs in C11/Proofs.v).
   All statements are in the exact field Q(sqrt3, j) (Base/C11K.v) where a = exp(j*120deg) is an element: no oracle and
   no hypothesis about a is needed; ==k is component-wise equality. *)
From Coq Require Import ZArith QArith List Bool.
From PPV Require Import Base.QN Base.QC Base.C11K C11.Model C11.Proofs C11.Base3 C11.Base3Proofs C11.Zero C11.ZeroProofs.
Import ListNotations.
Open Scope Q_scope.

(* the operator of the implementation's Tabc/T012 satisfies a^2 + a + 1 = 0, asq = a^2 = conj a = 1/a, |a| = 1 *)
Theorem C11_a_is_primitive_cube_root :
  Kadd (Kadd (Kmul Ka Ka) Ka) K1 ==k K0 /\
  Kasq ==k Kmul Ka Ka /\ Kmul Ka Kasq ==k K1 /\ Kconj Ka ==k Kasq /\ Knorm2 Ka ==k K1 /\ Kmul Ka (Kmul Ka Ka) ==k K1.
Proof. split; [exact a_minimal_polynomial | exact a_facts]. Qed.
Print Assumptions C11_a_is_primitive_cube_root.

(* sequence_to_phase and phase_to_sequence are mutually inverse *)
Theorem C11_transformations_inverse : forall x,
  K3eq (phase_to_sequence (sequence_to_phase x)) x /\ K3eq (sequence_to_phase (phase_to_sequence x)) x.
Proof. intros x. split; [apply p2s_s2p | apply s2p_p2s]. Qed.
Print Assumptions C11_transformations_inverse.

(* symmetric network (zero and negative sequence vanish): phase a carries the positive-sequence (= symmetric power flow)
   voltage, phases b and c are the same phasor rotated by -120 / +120 degrees, all three magnitudes are equal *)
Theorem C11_balanced_phases : forall x0 x1 x2, x0 ==k K0 -> x2 ==k K0 ->
  let '(va, vb, vc) := sequence_to_phase (x0, x1, x2) in
  va ==k x1 /\ vb ==k Kmul Kasq va /\ vc ==k Kmul Ka va /\
  Knorm2 vb ==k Knorm2 va /\ Knorm2 vc ==k Knorm2 va.
Proof. exact balanced_phases. Qed.
Print Assumptions C11_balanced_phases.

(* the per-phase powers sum to three times the sum of the sequence powers (every V, I) *)
Theorem C11_power_invariance : forall v i,
  sum3 (S_from_VI (sequence_to_phase v) (sequence_to_phase i)) ==k Kscale 3 (sum3 (S_from_VI v i)).
Proof. exact power_invariance. Qed.
Print Assumptions C11_power_invariance.

(* symmetric network: every phase carries one third of the total *)
Theorem C11_per_phase_thirds : forall v0 v1 v2 i0 i1 i2,
  v0 ==k K0 -> v2 ==k K0 -> i0 ==k K0 -> i2 ==k K0 ->
  let '(sa, sb, sc) := S_from_VI (sequence_to_phase (v0, v1, v2)) (sequence_to_phase (i0, i1, i2)) in
  sa ==k Kmul v1 (Kconj i1) /\ sb ==k sa /\ sc ==k sa /\
  sa ==k Kscale (1 # 3) (Kadd (Kadd sa sb) sc).
Proof. exact per_phase_thirds. Qed.
Print Assumptions C11_per_phase_thirds.

(* res_line_3ph: the per-phase powers of each side sum to sqrt3 * sum of V_s conj(I_s) (the symmetric formula
   S = sqrt3 * V * conj(I) when only the positive sequence is present), losses are from + to, the neutral current is 3*I0 *)
Theorem C11_line_phase_sum_is_total : forall vf jf vt jt,
  let r := line_results_3ph vf jf vt jt in
  sum3 (sf r) ==k Kmul Ksqrt3 (sum3 (S_from_VI vf jf)) /\
  sum3 (st r) ==k Kmul Ksqrt3 (sum3 (S_from_VI vt jt)) /\
  sum3 (sl r) ==k Kadd (sum3 (sf r)) (sum3 (st r)) /\
  in_f r ==k Kscale 3 (fst (fst jf)) /\ in_t r ==k Kscale 3 (fst (fst jt)).
Proof. exact line_total_power. Qed.
Print Assumptions C11_line_phase_sum_is_total.

Theorem C11_line_balanced_thirds : forall v1 j1 vt jt,
  let r := line_results_3ph (K0, v1, K0) (K0, j1, K0) vt jt in
  let '(sa, sb, sc) := sf r in
  sa ==k Kmul Kinvsqrt3 (Kmul v1 (Kconj j1)) /\ sb ==k sa /\ sc ==k sa /\
  sa ==k Kscale (1 # 3) (sum3 (sf r)) /\ in_f r ==k K0.
Proof. exact line_balanced_thirds. Qed.
Print Assumptions C11_line_balanced_thirds.

(* element result writers: the three phase values of every load/sgen/asymmetric element sum to its total, and the
   per-phase bus sums add up to the signed total of the elements at the bus (any element list) *)
Theorem C11_element_phase_sum_is_total : forall e, q3sum (elem_phases e) == elem_total e.
Proof. exact elem_phase_sum. Qed.
Print Assumptions C11_element_phase_sum_is_total.

Theorem C11_bus_phase_sum_is_total : forall els, q3sum (bus_pq_3ph els) == signed_total els.
Proof. exact bus_phase_sum_is_total. Qed.
Print Assumptions C11_bus_phase_sum_is_total.

(* per-phase nodal balance at the ext_grid bus needs the ext_grid's zero sequence current to be the current that leaves
   the bus into the branches: true for every admittance, voltage and current after the repair
   "fix: runpp_3ph removes the zero sequence ext_grid admittance from the zero sequence network" *)
Theorem C11_ext_grid_zero_seq_current : forall y0 v i, eg_zero_seq_current y0 v i ==c i.
Proof. exact eg_current_full. Qed.
Print Assumptions C11_ext_grid_zero_seq_current.

(* the rule before the repair subtracted the NEGATIVE sequence admittance y2: it reported -y2*v instead of -y0*v
   (regression witness) and was right only for y0 = y2 (x0x_max = 1, r0x0_max = rx_max) *)
Theorem C11_ext_grid_current_old_refuted :
  exists y0 y2 v i, i ==c Copp (Cmul y0 v) /\ ~ eg_zero_seq_current_old y0 y2 v i ==c i.
Proof. exact eg_current_old_refuted. Qed.
Print Assumptions C11_ext_grid_current_old_refuted.
Theorem C11_ext_grid_current_old_faithful : forall y0 y2 v i, i ==c Copp (Cmul y0 v) ->
  eg_zero_seq_current_old y0 y2 v i ==c Copp (Cmul y2 v).
Proof. exact eg_current_old_faithful. Qed.
Print Assumptions C11_ext_grid_current_old_faithful.
Theorem C11_ext_grid_current_old_partial : forall y0 y2 v i, G11_eg y0 y2 = true -> eg_zero_seq_current_old y0 y2 v i ==c i.
Proof. exact eg_current_old_partial. Qed.
Print Assumptions C11_ext_grid_current_old_partial.
Example C11_ext_grid_current_nonvacuous : G11_eg (mkC (3 # 4) (-15 # 4)) (mkC (3 # 4) (-15 # 4)) = true.
Proof. reflexivity. Qed.

(* ------------------------------------------------------------------------------------------------------------------
   The one-third base of the pf_3ph branch rows (C11/Base3.v = build_branch.py as it is; proofs in C11/Base3Proofs.v).
   The ppc of runpp_3ph carries baseMVA = net.sn_mva (the per-phase base power); its positive-sequence branch rows are
   per unit on the three-phase base 3*sn_mva.  pf3ph = true is mode "pf_3ph", false is mode "pf" (runpp).
   sqrt is an oracle input: the statements hold for ALL oracle values meeting the contract is_sqrt s x := 0 <= s /\ s*s == x. *)

(* lines: the pf_3ph row at sn = s is the pf row at sn = 3*s, i.e. r, x three times and b, g one third of the pf row at s;
   and the ohmic values recovered with the respective base (V^2/(3s) resp. V^2/s) are the sn-free physical values
   r*l/parallel [ohm], x*l/parallel [ohm], 2*pi*f*c*1e-9*l*parallel [S], g*1e-6*l*parallel [S] *)
Theorem C11_base_third_consistency_line : forall s f pi l,
  line_row_eq (line_row_of true s f pi l) (line_row_of false (3 * s) f pi l) /\
  (G11_line s l = true ->
   (let r3 := line_row_of true s f pi l in let r1 := line_row_of false s f pi l in
    lr_r r3 == 3 * lr_r r1 /\ lr_x r3 == 3 * lr_x r1 /\ lr_b r3 == lr_b r1 / 3 /\ lr_g r3 == lr_g r1 / 3) /\
   (let v2 := l_basekv l * l_basekv l in
    q4eq (line_ohm_of (v2 / (3 * s)) (line_row_of true s f pi l)) (line_ohm_spec f pi l) /\
    q4eq (line_ohm_of (v2 / s) (line_row_of false s f pi l)) (line_ohm_spec f pi l))).
Proof. exact base_third_line_all. Qed.
Print Assumptions C11_base_third_consistency_line.
Example C11_base_third_line_nonvacuous : G11_line 10 line_wit = true /\ ~ lr_r (line_row_of true 10 50 (355 # 113) line_wit) == 0 /\
  ~ lr_b (line_row_of true 10 50 (355 # 113) line_wit) == 0 /\ ~ lr_g (line_row_of true 10 50 (355 # 113) line_wit) == 0.
Proof. exact line_nonvacuous. Qed.

(* two-winding transformers, the complete row written for trafo_model "t" (r, x, g, b, g_asym, b_asym after the T -> pi
   conversion _wye_delta; incl. pfe/3, vnl^2/3, i0/3, the clamp of b_mva_squared and both sqrt calls):
   the pf_3ph row at sn = s is the pf row at sn = 3*s (trow_scaled 1 = component-wise equality) *)
Theorem C11_base_third_consistency : forall s t q sx3 sb3 sx1 sb1,
  G11_trafo true s t q = true ->
  is_sqrt sx3 (x_sqrt_arg true s t q) -> is_sqrt sx1 (x_sqrt_arg false (3 * s) t q) ->
  is_sqrt sb3 (b_sqrt_arg true t) -> is_sqrt sb1 (b_sqrt_arg false t) ->
  trow_scaled 1 (trafo_row_t true s t q sx3 sb3) (trafo_row_t false (3 * s) t q sx1 sb1).
Proof. exact base_third_trafo_consistency. Qed.
Print Assumptions C11_base_third_consistency.

(* ... i.e. against the pf row at the same sn: impedances three times, admittances one third *)
Theorem C11_base_third_scaling : forall s t q sx3 sb3 sx1 sb1,
  G11_trafo true s t q = true ->
  is_sqrt sx3 (x_sqrt_arg true s t q) -> is_sqrt sx1 (x_sqrt_arg false s t q) ->
  is_sqrt sb3 (b_sqrt_arg true t) -> is_sqrt sb1 (b_sqrt_arg false t) ->
  trow_scaled 3 (trafo_row_t true s t q sx3 sb3) (trafo_row_t false s t q sx1 sb1) /\
  rxgb_scaled 3 (trafo_rxgb true s t q sx3 sb3) (trafo_rxgb false s t q sx1 sb1).
Proof. exact base_third_trafo_scaling. Qed.
Print Assumptions C11_base_third_scaling.

(* sn-free ohmic specification: the values recovered from the rows with the base they were computed on
   (zb3 = V^2/(3s) for pf_3ph, zb1 = V^2/s for pf) are  r = vkr/100 * vn_trafo_lv^2/sn_trafo/parallel [ohm] and
   g = pfe/vn_trafo_lv^2 * parallel [S]  in both modes, and the recovered x [ohm] and b [S] of the two modes coincide *)
Theorem C11_base_third_ohmic : forall s t q sx3 sb3 sx1 sb1,
  G11_trafo true s t q = true ->
  is_sqrt sx3 (x_sqrt_arg true s t q) -> is_sqrt sx1 (x_sqrt_arg false s t q) ->
  is_sqrt sb3 (b_sqrt_arg true t) -> is_sqrt sb1 (b_sqrt_arg false t) ->
  let zb3 := t_basekv_lv t * t_basekv_lv t / (3 * s) in let zb1 := t_basekv_lv t * t_basekv_lv t / s in
  (trafo_r true s t q * zb3 == trafo_ohm_r t q /\ trafo_r false s t q * zb1 == trafo_ohm_r t q /\
   trafo_g true s t q / zb3 == trafo_siemens_g t q /\ trafo_g false s t q / zb1 == trafo_siemens_g t q) /\
  (trafo_x true s t q sx3 * zb3 == trafo_x false s t q sx1 * zb1 /\
   trafo_b true s t q sb3 / zb3 == trafo_b false s t q sb1 / zb1).
Proof. exact base_third_trafo_ohmic. Qed.
Print Assumptions C11_base_third_ohmic.

(* the T -> pi conversion itself is homogeneous of degree one: any base change by k commutes with it *)
Theorem C11_wye_delta_base_change : forall k v' v rr xr, ~ k == 0 -> rxgb_scaled k v' v ->
  trow_scaled k (wye_delta v' rr xr) (wye_delta v rr xr).
Proof. exact wye_delta_homogeneous. Qed.
Print Assumptions C11_wye_delta_base_change.

(* the tapped voltage of a "Ratio" tap changer is |u1 + du| for every oracle value meeting the contract *)
Theorem C11_tap_voltage : forall t q, is_sqrt q (tap_sqrt_arg t) -> q == Qabs.Qabs (tap_u1 t + tap_du t).
Proof. exact tap_voltage_is_abs. Qed.
Print Assumptions C11_tap_voltage.

Example C11_base_third_nonvacuous :
  let s := 1 in let t := trafo_wit in let q := 21 in
  is_sqrt q (tap_sqrt_arg t) /\ G11_trafo true s t q = true /\ G11_trafo false s t q = true /\ G11_trafo false (3 * s) t q = true /\
  is_sqrt (1323 # 200000) (x_sqrt_arg true s t q) /\ is_sqrt (441 # 200000) (x_sqrt_arg false s t q) /\
  is_sqrt (1323 # 200000) (x_sqrt_arg false (3 * s) t q) /\
  is_sqrt (8 # 3000) (b_sqrt_arg true t) /\ is_sqrt (8 # 1000) (b_sqrt_arg false t) /\
  ~ tr_g (trafo_row_t true s t q (1323 # 200000) (8 # 3000)) == 0 /\ ~ tr_b (trafo_row_t true s t q (1323 # 200000) (8 # 3000)) == 0.
Proof. exact trafo_nonvacuous. Qed.

(* impedance elements: the series part of the pf_3ph row is on the base 3*s, the SHUNT part is not — the code multiplies
   gf/bf/gt/bt by sn_factor = 3 where the base change needs the division (build_branch.py:1027-1030, under its own "todo"):
   the row is a consistent base change only without shunt part; otherwise the shunt admittances are 3 times the pf values
   instead of one third (9 times too large) *)
Theorem C11_base_third_impedance_partial : forall s i, G11_imp_noshunt i = true ->
  imp_row_scaled 3 (imp_row_of true s i) (imp_row_of false s i).
Proof. exact imp_row_third_partial. Qed.
Print Assumptions C11_base_third_impedance_partial.
Theorem C11_base_third_impedance_refuted :
  exists s i, ~ s == 0 /\ ~ i_sn i == 0 /\ ~ imp_row_scaled 3 (imp_row_of true s i) (imp_row_of false s i).
Proof. exact imp_row_third_refuted. Qed.
Print Assumptions C11_base_third_impedance_refuted.
Theorem C11_base_third_impedance_faithful : forall s i,
  let r3 := imp_row_of true s i in let r1 := imp_row_of false s i in
  ir_g r3 == 3 * ir_g r1 /\ ir_b r3 == 3 * ir_b r1 /\ ir_g_asym r3 == 3 * ir_g_asym r1 /\ ir_b_asym r3 == 3 * ir_b_asym r1.
Proof. exact imp_row_shunt_faithful. Qed.
Print Assumptions C11_base_third_impedance_faithful.
(* with the proposed repair (admittances divided by sn_factor) the impedance row is a consistent base change for all inputs *)
Theorem C11_base_third_impedance_repaired : forall s i, imp_row_scaled 3 (imp_row_repaired true s i) (imp_row_repaired false s i).
Proof. exact imp_row_third_repaired. Qed.
Print Assumptions C11_base_third_impedance_repaired.
Example C11_base_third_impedance_nonvacuous :
  G11_imp_noshunt {| i_rft := 1 # 100; i_xft := 1 # 50; i_rtf := 1 # 100; i_xtf := 1 # 50; i_gf := 0; i_bf := 0; i_gt := 0; i_bt := 0; i_sn := 10 |} = true.
Proof. reflexivity. Qed.

(* ------------------------------------------------------------------------------------------------------------------
   Zero-sequence transformer equivalents of runpp_3ph (C11/Zero.v = pd2ppc_zero.py:_add_trafo_sc_impedance_zero for the
   vector groups YNyn, Dyn (and Yzn, correspondence only) in mode pf_3ph, followed by makeYbus.branch_vectors).
   T equivalent of the documentation:  z1 = si0_hv_partial * z0 (hv leakage), z2 = (1 - si0_hv_partial) * z0 (lv leakage),
   z3 = z_m0 (magnetising), D = z1 z2 + z2 z3 + z1 z3.  tap = TAP * exp(j*shift) is the ideal transformer at the hv side.
   All statements are identities in the field Q(j) for ALL inputs under the listed non-degeneracy conditions. *)

(* what z0 and z_m0 are: Re z0 = vkr0, |z0| = vk0 (per unit of the transformer rating, referred to the lv bus voltage level on
   the base V^2/(3 sn)); in ohm |z0| = vk0/100 * vn_trafo_lv^2 / sn_trafo — free of net.sn_mva;  |z_m0| = mag0_percent * |z0|
   (mag0_percent is the plain ratio z_mag0/z0),  Re z_m0 = mag0_rx * Im z_m0 *)
Theorem C11_zero_seq_impedances : forall sn z q sx sm,
  is_sqrt sx (z0_sqrt_arg sn z q) -> is_sqrt sm (mag_sqrt_arg z) ->
  ~ z0_zsc sn z q == 0 -> ~ t_par (z_t z) == 0 -> ~ sm == 0 -> ~ sn == 0 -> ~ t_basekv_lv (z_t z) == 0 -> ~ t_sn (z_t z) == 0 ->
  (re (z0_k sn z q sx) == z0_rsc sn z q / t_par (z_t z) /\
   cnorm2 (z0_k sn z q sx) == (z0_zsc sn z q / t_par (z_t z)) * (z0_zsc sn z q / t_par (z_t z))) /\
  (let zbase := t_basekv_lv (z_t z) * t_basekv_lv (z_t z) / (3 * sn) in
   z0_zsc sn z q * zbase == vk0_eff z / 100 * (vn_trafo_lv (z_t z) q * vn_trafo_lv (z_t z) q) / t_sn (z_t z) /\
   z0_rsc sn z q * zbase == vkr0_eff z / 100 * (vn_trafo_lv (z_t z) q * vn_trafo_lv (z_t z) q) / t_sn (z_t z)) /\
  (re (z0_mag sn z q sm) == z_mag0_rx z * im (z0_mag sn z q sm) /\
   cnorm2 (z0_mag sn z q sm) == (z_mag0 z * z0_zsc sn z q / t_par (z_t z)) * (z_mag0 z * z0_zsc sn z q / t_par (z_t z))).
Proof. exact zero_seq_impedances. Qed.
Print Assumptions C11_zero_seq_impedances.

(* YNyn: the two-port that makeYbus stamps for the row is exactly the two-port of the T equivalent behind the ideal
   transformer:  Y11 = (z2+z3)/D, Y12 = Y21 = -z3/D, Y22 = (z1+z3)/D *)
Theorem C11_zero_seq_YNyn_two_port : forall sn bm z q sx sm e,
  z_vg z = YNyn -> z_ins z = true ->
  ~ sn == 0 -> ~ t_basekv_lv (z_t z) == 0 -> ~ t_basekv_hv (z_t z) == 0 ->
  ~ vn_trafo_lv (z_t z) q == 0 -> ~ vn_trafo_hv (z_t z) q == 0 ->
  let z0 := z0_k sn z q sx in let z1 := z1_of z z0 in let z2 := z2_of z z0 in let z3 := z0_mag sn z q sm in
  let D := Dsum z1 z2 z3 in
  ~ z1 ==c C0 -> ~ z2 ==c C0 -> ~ z3 ==c C0 -> ~ D ==c C0 ->
  let r := zero_row sn bm z q sx sm in let s := branch_vectors r e in let tap := ctap r e in
  ~ tap ==c C0 -> ~ Cconj tap ==c C0 ->
  Cmul (Yff s) (Cmul tap (Cconj tap)) ==c Cdiv (Cadd z2 z3) D /\
  Cmul (Yft s) (Cconj tap) ==c Copp (Cdiv z3 D) /\
  Cmul (Ytf s) tap ==c Copp (Cdiv z3 D) /\
  Ytt s ==c Cdiv (Cadd z1 z3) D.
Proof. exact ynyn_two_port. Qed.
Print Assumptions C11_zero_seq_YNyn_two_port.

(* YNyn: impedance seen from hv (referred through the ideal transformer) with lv grounded is z1 + z2||z3, from lv with hv
   grounded z2 + z1||z3  (stated as admittance * impedance = 1) *)
Theorem C11_zero_seq_YNyn_short_circuit : forall sn bm z q sx sm e,
  z_vg z = YNyn -> z_ins z = true ->
  ~ sn == 0 -> ~ t_basekv_lv (z_t z) == 0 -> ~ t_basekv_hv (z_t z) == 0 ->
  ~ vn_trafo_lv (z_t z) q == 0 -> ~ vn_trafo_hv (z_t z) q == 0 ->
  let z0 := z0_k sn z q sx in let z1 := z1_of z z0 in let z2 := z2_of z z0 in let z3 := z0_mag sn z q sm in
  let D := Dsum z1 z2 z3 in
  ~ z1 ==c C0 -> ~ z2 ==c C0 -> ~ z3 ==c C0 -> ~ D ==c C0 -> ~ Cadd z2 z3 ==c C0 -> ~ Cadd z1 z3 ==c C0 ->
  let r := zero_row sn bm z q sx sm in let s := branch_vectors r e in let tap := ctap r e in
  ~ tap ==c C0 -> ~ Cconj tap ==c C0 ->
  Cmul (Cmul (Yff s) (Cmul tap (Cconj tap))) (Cadd z1 (Cdiv (Cmul z2 z3) (Cadd z2 z3))) ==c C1 /\
  Cmul (Ytt s) (Cadd z2 (Cdiv (Cmul z1 z3) (Cadd z1 z3))) ==c C1.
Proof. exact ynyn_short_circuit. Qed.
Print Assumptions C11_zero_seq_YNyn_short_circuit.

(* Dyn: the hv side is open for the zero sequence — the only thing the row puts at the hv bus (and between the buses) is
   the series impedance BIG*(1+j), BIG = 1e20*baseMVA, with no shunt; at the lv bus it adds the shunt admittance whose
   impedance is z2 + z1||z3 (lv leakage in series with hv leakage parallel to the magnetising impedance: the delta winding
   short-circuits the zero sequence) *)
Theorem C11_zero_seq_Dyn : forall sn bm z q sx sm e,
  z_vg z = Dyn -> z_ins z = true -> ~ bm == 0 ->
  let z0 := z0_k sn z q sx in let z1 := z1_of z z0 in let z2 := z2_of z z0 in let z3 := z0_mag sn z q sm in
  let D := Dsum z1 z2 z3 in
  ~ z1 ==c C0 -> ~ z2 ==c C0 -> ~ z3 ==c C0 -> ~ D ==c C0 -> ~ Cadd z1 z3 ==c C0 ->
  let r := zero_row sn bm z q sx sm in let s := branch_vectors r e in let tap := ctap r e in
  ~ tap ==c C0 -> ~ Cconj tap ==c C0 ->
  let Zbig := mkC (BIG bm) (BIG bm) in
  Cmul (Cmul (Yff s) (Cmul tap (Cconj tap))) Zbig ==c C1 /\
  Cmul (Cmul (Yft s) (Cconj tap)) Zbig ==c Copp C1 /\
  Cmul (Cmul (Ytf s) tap) Zbig ==c Copp C1 /\
  Cmul (Csub (Ytt s) (Cinv Zbig)) (Cadd z2 (Cdiv (Cmul z1 z3) (Cadd z1 z3))) ==c C1.
Proof. exact dyn_two_port. Qed.
Print Assumptions C11_zero_seq_Dyn.

(* the factor (tap_lv/tap_hv)*TAP^2 in the YNyn hv shunt is 1: it only undoes the division by |tap|^2 of makeYbus *)
Theorem C11_zero_seq_ratio_factor : forall sn z q,
  ~ sn == 0 -> ~ t_basekv_lv (z_t z) == 0 -> ~ t_basekv_hv (z_t z) == 0 ->
  ~ vn_trafo_lv (z_t z) q == 0 -> ~ vn_trafo_hv (z_t z) q == 0 ->
  trafo_ratio (z_t z) q * trafo_ratio (z_t z) q * (ztap_lv sn z q / ztap_hv sn z q) == 1.
Proof. exact ratio_factor. Qed.
Print Assumptions C11_zero_seq_ratio_factor.

Example C11_zero_seq_nonvacuous : forall vg, vg = Dyn \/ vg = YNyn ->
  let z := zero_wit vg in let sn := 1 in let q := 21 in let sx := 1323 # 200000 in let sm := 5 # 4 in let e := mkC (-3 # 5) (4 # 5) in
  G11_zero sn 1 z q sm = true /\ is_sqrt q (tap_sqrt_arg (z_t z)) /\ is_sqrt sx (z0_sqrt_arg sn z q) /\ is_sqrt sm (mag_sqrt_arg z) /\
  cnorm2 e == 1 /\
  let z0 := z0_k sn z q sx in let z1 := z1_of z z0 in let z2 := z2_of z z0 in let z3 := z0_mag sn z q sm in
  ~ z1 ==c C0 /\ ~ z2 ==c C0 /\ ~ z3 ==c C0 /\ ~ Dsum z1 z2 z3 ==c C0 /\ ~ Cadd z2 z3 ==c C0 /\ ~ Cadd z1 z3 ==c C0 /\
  let r := zero_row sn 1 z q sx sm in ~ ctap r e ==c C0 /\ ~ Cconj (ctap r e) ==c C0.
Proof. exact zero_nonvacuous. Qed.
