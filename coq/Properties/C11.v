(* C11 — three-phase vs symmetric: symmetrical-component theorems (proofs in C11/Proofs.v).
   All statements are in the exact field Q(sqrt3, j) (Base/C11K.v) where a = exp(j*120deg) is an element: no oracle and
   no hypothesis about a is needed; ==k is component-wise equality. *)
From Coq Require Import ZArith QArith List Bool.
From PPV Require Import Base.QN Base.QC Base.C11K C11.Model C11.Proofs.
Import ListNotations.
Open Scope Q_scope.

(* the operator of the implementation's Tabc/T012 satisfies a^2 + a + 1 = 0, asq = a^2 = conj a = 1/a, |a| = 1 *)
Theorem C11_a_is_primitive_cube_root :
  Kadd (Kadd (Kmul Ka Ka) Ka) K1 ==k K0 /\
  Kasq ==k Kmul Ka Ka /\ Kmul Ka Kasq ==k K1 /\ Kconj Ka ==k Kasq /\ Knorm2 Ka ==k K1 /\ Kmul Ka (Kmul Ka Ka) ==k K1.
Proof. split; [exact a_minimal_polynomial | exact a_facts]. Qed.
Print Assumptions C11_a_is_primitive_cube_root.

(* sequence_to_phase and phase_to_sequence are mutually inverse *)
Theorem C11_transformations_inverse : forall x,
  K3eq (phase_to_sequence (sequence_to_phase x)) x /\ K3eq (sequence_to_phase (phase_to_sequence x)) x.
Proof. intros x. split; [apply p2s_s2p | apply s2p_p2s]. Qed.
Print Assumptions C11_transformations_inverse.

(* symmetric network (zero and negative sequence vanish): phase a carries the positive-sequence (= symmetric power flow)
   voltage, phases b and c are the same phasor rotated by -120 / +120 degrees, all three magnitudes are equal *)
Theorem C11_balanced_phases : forall x0 x1 x2, x0 ==k K0 -> x2 ==k K0 ->
  let '(va, vb, vc) := sequence_to_phase (x0, x1, x2) in
  va ==k x1 /\ vb ==k Kmul Kasq va /\ vc ==k Kmul Ka va /\
  Knorm2 vb ==k Knorm2 va /\ Knorm2 vc ==k Knorm2 va.
Proof. exact balanced_phases. Qed.
Print Assumptions C11_balanced_phases.

(* the per-phase powers sum to three times the sum of the sequence powers (every V, I) *)
Theorem C11_power_invariance : forall v i,
  sum3 (S_from_VI (sequence_to_phase v) (sequence_to_phase i)) ==k Kscale 3 (sum3 (S_from_VI v i)).
Proof. exact power_invariance. Qed.
Print Assumptions C11_power_invariance.

(* symmetric network: every phase carries one third of the total *)
Theorem C11_per_phase_thirds : forall v0 v1 v2 i0 i1 i2,
  v0 ==k K0 -> v2 ==k K0 -> i0 ==k K0 -> i2 ==k K0 ->
  let '(sa, sb, sc) := S_from_VI (sequence_to_phase (v0, v1, v2)) (sequence_to_phase (i0, i1, i2)) in
  sa ==k Kmul v1 (Kconj i1) /\ sb ==k sa /\ sc ==k sa /\
  sa ==k Kscale (1 # 3) (Kadd (Kadd sa sb) sc).
Proof. exact per_phase_thirds. Qed.
Print Assumptions C11_per_phase_thirds.

(* res_line_3ph: the per-phase powers of each side sum to sqrt3 * sum of V_s conj(I_s) (the symmetric formula
   S = sqrt3 * V * conj(I) when only the positive sequence is present), losses are from + to, the neutral current is 3*I0 *)
Theorem C11_line_phase_sum_is_total : forall vf jf vt jt,
  let r := line_results_3ph vf jf vt jt in
  sum3 (sf r) ==k Kmul Ksqrt3 (sum3 (S_from_VI vf jf)) /\
  sum3 (st r) ==k Kmul Ksqrt3 (sum3 (S_from_VI vt jt)) /\
  sum3 (sl r) ==k Kadd (sum3 (sf r)) (sum3 (st r)) /\
  in_f r ==k Kscale 3 (fst (fst jf)) /\ in_t r ==k Kscale 3 (fst (fst jt)).
Proof. exact line_total_power. Qed.
Print Assumptions C11_line_phase_sum_is_total.

Theorem C11_line_balanced_thirds : forall v1 j1 vt jt,
  let r := line_results_3ph (K0, v1, K0) (K0, j1, K0) vt jt in
  let '(sa, sb, sc) := sf r in
  sa ==k Kmul Kinvsqrt3 (Kmul v1 (Kconj j1)) /\ sb ==k sa /\ sc ==k sa /\
  sa ==k Kscale (1 # 3) (sum3 (sf r)) /\ in_f r ==k K0.
Proof. exact line_balanced_thirds. Qed.
Print Assumptions C11_line_balanced_thirds.

(* element result writers: the three phase values of every load/sgen/asymmetric element sum to its total, and the
   per-phase bus sums add up to the signed total of the elements at the bus (any element list) *)
Theorem C11_element_phase_sum_is_total : forall e, q3sum (elem_phases e) == elem_total e.
Proof. exact elem_phase_sum. Qed.
Print Assumptions C11_element_phase_sum_is_total.

Theorem C11_bus_phase_sum_is_total : forall els, q3sum (bus_pq_3ph els) == signed_total els.
Proof. exact bus_phase_sum_is_total. Qed.
Print Assumptions C11_bus_phase_sum_is_total.

(* per-phase nodal balance at the ext_grid bus needs the ext_grid's zero sequence current to be the current that leaves
   the bus into the branches: true for every admittance, voltage and current after the repair
   "fix: runpp_3ph removes the zero sequence ext_grid admittance from the zero sequence network" *)
Theorem C11_ext_grid_zero_seq_current : forall y0 v i, eg_zero_seq_current y0 v i ==c i.
Proof. exact eg_current_full. Qed.
Print Assumptions C11_ext_grid_zero_seq_current.

(* the rule before the repair subtracted the NEGATIVE sequence admittance y2: it reported -y2*v instead of -y0*v
   (regression witness) and was right only for y0 = y2 (x0x_max = 1, r0x0_max = rx_max) *)
Theorem C11_ext_grid_current_old_refuted :
  exists y0 y2 v i, i ==c Copp (Cmul y0 v) /\ ~ eg_zero_seq_current_old y0 y2 v i ==c i.
Proof. exact eg_current_old_refuted. Qed.
Print Assumptions C11_ext_grid_current_old_refuted.
Theorem C11_ext_grid_current_old_faithful : forall y0 y2 v i, i ==c Copp (Cmul y0 v) ->
  eg_zero_seq_current_old y0 y2 v i ==c Copp (Cmul y2 v).
Proof. exact eg_current_old_faithful. Qed.
Print Assumptions C11_ext_grid_current_old_faithful.
Theorem C11_ext_grid_current_old_partial : forall y0 y2 v i, G11_eg y0 y2 = true -> eg_zero_seq_current_old y0 y2 v i ==c i.
Proof. exact eg_current_old_partial. Qed.
Print Assumptions C11_ext_grid_current_old_partial.
Example C11_ext_grid_current_nonvacuous : G11_eg (mkC (3 # 4) (-15 # 4)) (mkC (3 # 4) (-15 # 4)) = true.
Proof. reflexivity. Qed.
