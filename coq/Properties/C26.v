(* C26 — property theorems (statements only; proofs in Base/C07Graph.v, Base/C26Dist.v, C26/Proofs.v).
   Model: C26/Model.v (create_nxgraph under all options, connected_components, calc_distance_to_bus). *)
From Coq Require Import String.
From Coq Require Import List Bool Arith QArith.
From PPV Require Import Base.C07Graph Base.C26Dist C07.Model C26.Model C26.Proofs C26.Stages.
Import ListNotations.
Local Open Scope nat_scope.

(* which elements become edges: a line iff it counts as in service (in_service or include_out_of_service) and, when
   switches are respected, no open switch sits at it; key ("line", index), weight length_km *)
Theorem C26_line_edges_exact : forall o n rows e,
  In e (line_edges o n rows) <->
  exists l w, In (l, w) rows /\ counted o (r_is l) /\ (o_respect o = true -> open_sw n ETl (r_id l) = false)
              /\ e = (r_f l, r_t l, (0, r_id l), w).
Proof. exact line_edges_spec. Qed.
Print Assumptions C26_line_edges_exact.

Theorem C26_trafo_edges_exact : forall o n rows e,
  In e (trafo_edges o n rows) <->
  exists t, In t rows /\ counted o (r_is t) /\ (o_respect o = true -> open_sw n ETt (r_id t) = false)
            /\ e = (r_f t, r_t t, (3, r_id t), qopt (o_trafo_len o)).
Proof. exact trafo_edges_spec. Qed.
Print Assumptions C26_trafo_edges_exact.

(* a pair of trafo3w terminals iff the trafo3w counts as in service and, when switches are respected, neither of the
   two terminals carries an open switch of this trafo3w *)
Theorem C26_trafo3w_edges_exact : forall o n rows e,
  In e (t3_edges o n rows) <->
  exists t f t', In t rows /\ In (f, t') [(0, 1); (0, 2); (1, 2)] /\ counted o (t_is t) /\
     (o_respect o = true -> open_t3 n (t_id t) (t3_bus t f) = false /\ open_t3 n (t_id t) (t3_bus t t') = false)
     /\ e = (t3_bus t f, t3_bus t t', (4, t_id t), qopt (o_trafo_len o)).
Proof. exact t3_edges_spec. Qed.
Print Assumptions C26_trafo3w_edges_exact.

(* a bus-bus switch iff include_switches and (closed or switches are not respected) *)
Theorem C26_switch_edges_exact : forall o n e,
  In e (switch_edges o n) <->
  o_switches o = true /\ exists p s, In (p, s) (enum (switches n)) /\ s_et s = ETb /\
     (s_closed s = true \/ o_respect o = false) /\ e = (s_bus s, s_el s, (5, p), qopt (o_switch_len o)).
Proof. exact switch_edges_spec. Qed.
Print Assumptions C26_switch_edges_exact.

(* connected_components (no notravbuses) on an undirected graph: cover, classes of the connectivity relation made
   of nodes only, pairwise disjoint — a partition of the node set *)
Theorem C26_cc_partition : forall g, sym_arcs g = true ->
  (forall x, In x (g_nodes g) -> exists c, In c (connected_components g []) /\ In x c) /\
  (forall c, In c (connected_components g []) ->
     (exists x, In x (g_nodes g) /\ forall y, In y c <-> path (uarcs g) x y) /\ incl c (g_nodes g)) /\
  pairwise_disjoint (connected_components g []).
Proof. exact cc_partition. Qed.
Print Assumptions C26_cc_partition.

(* with notravbuses the components overlap in the notravbuses (by design of the search): not a partition *)
Theorem C26_cc_partition_notrav_refuted : exists g nt, ~ pairwise_disjoint (connected_components g nt).
Proof. exact cc_partition_notrav_refuted. Qed.
Print Assumptions C26_cc_partition_notrav_refuted.

(* distances: every listed value is the weight of a walk from the source and no walk is shorter; every node that
   has a walk is listed (reference for calc_distance_to_bus / dijkstra) *)
Theorem C26_distances_shortest : forall g src l, distances g src = Ok l ->
  forall x q, In (x, q) l ->
    (exists W, walk (warcs g) src x W /\ W == q) /\ (forall W, walk (warcs g) src x W -> (q <= W)%Q).
Proof. exact distances_shortest. Qed.
Print Assumptions C26_distances_shortest.
Theorem C26_distances_complete : forall g src l, distances g src = Ok l ->
  forall x W, walk (warcs g) src x W -> exists q, In (x, q) l.
Proof. exact distances_complete. Qed.
Print Assumptions C26_distances_complete.

(* regression witness for "create_nxgraph removes out-of-service buses before the notravbuses edges": the old stage
   order raised KeyError (out-of-service bus next to a notravbus) or left a dangling adjacency entry (out-of-service
   notravbus); the new order returns graphs whose arcs all end at nodes *)
Theorem C26_notrav_oos_old_refuted :
  create_nxgraph_old (o_default [1]) w_chain [1; 1; 1]%Q = Raise "KeyError"%string /\
  (exists g, create_nxgraph_old (o_default [2]) w_chain [1; 1; 1]%Q = Ok g /\ no_dangling g = false) /\
  (exists g, create_nxgraph (o_default [1]) w_chain [1; 1; 1]%Q = Ok g /\ no_dangling g = true) /\
  (exists g, create_nxgraph (o_default [2]) w_chain [1; 1; 1]%Q = Ok g /\ no_dangling g = true).
Proof. exact notrav_oos_old_refuted. Qed.
Print Assumptions C26_notrav_oos_old_refuted.

(* ------------------------------------------------------------------ the stages of create_nxgraph, for every input *)
(* build stage, on the edge list: an arc is an edge of the list (or its mirror image) that no later edge between the
   same pair of nodes (MultiGraph: with the same key) has overwritten; the nodes are the edge ends and all buses *)
Theorem C26_build_arcs_exact : forall o n es a,
  In a (g_arcs (build_graph o n es)) <->
  exists es1 e es2, es = es1 ++ e :: es2 /\ (a = e \/ a = mirror e) /\
                    forall e', In e' es2 -> clash (o_multi o) a e' = false.
Proof. exact build_arcs_exact. Qed.
Print Assumptions C26_build_arcs_exact.
Theorem C26_build_nodes_exact : forall o n es x,
  In x (g_nodes (build_graph o n es)) <->
  (exists e, In e es /\ (x = e_u e \/ x = e_v e)) \/ exists r, In r (buses n) /\ b_id r = x.
Proof. exact build_nodes. Qed.
Print Assumptions C26_build_nodes_exact.
(* every edge of the list is represented by an arc between the same ordered pair (MultiGraph: with the same key) *)
Theorem C26_build_arcs_complete : forall m es e, In e es ->
  exists a, In a (fold_left (add_edge m) es []) /\ e_u a = e_u e /\ e_v a = e_v e /\ (m = true -> e_k a = e_k e).
Proof. exact build_arcs_complete. Qed.
Print Assumptions C26_build_arcs_complete.

(* the returned graph = the build-stage graph restricted to the buses that are not gone (gone = nogobus, or out of
   service unless include_out_of_service), minus the arcs that leave a notravbus; no arc dangles *)
Theorem C26_stages_exact : forall o n lens g, create_nxgraph o n lens = Ok g ->
  exists es, raw_edges o n lens = Ok es /\
    (forall x, In x (g_nodes g) <-> In x (g_nodes (build_graph o n es)) /\ ~ gone o n x) /\
    (forall a, In a (g_arcs g) <->
       In a (g_arcs (build_graph o n es)) /\ ~ gone o n (e_u a) /\ ~ gone o n (e_v a) /\ ~ In (e_u a) (notrav_list o)) /\
    no_dangling g = true.
Proof. exact create_nxgraph_stages. Qed.
Print Assumptions C26_stages_exact.

(* once the edge tables are found, create_nxgraph raises only for a nogobus that is no node of the graph (or is listed
   twice): networkx' remove_node never fails on the out-of-service buses, the notravbuses deletion never fails *)
Theorem C26_valid_options_never_raise : forall o n lens es, raw_edges o n lens = Ok es ->
  NoDup (nogo_list o) -> (forall b, In b (nogo_list o) -> In b (g_nodes (build_graph o n es))) ->
  exists g, create_nxgraph o n lens = Ok g.
Proof. exact create_nxgraph_total. Qed.
Print Assumptions C26_valid_options_never_raise.

(* without notravbuses the returned adjacency is symmetric and closed, so C26_cc_partition applies to every returned graph *)
Theorem C26_created_graph_symmetric : forall o n lens g,
  create_nxgraph o n lens = Ok g -> notrav_list o = [] -> sym_arcs g = true.
Proof. exact create_nxgraph_sym. Qed.
Print Assumptions C26_created_graph_symmetric.
Theorem C26_cc_partition_created : forall o n lens g, create_nxgraph o n lens = Ok g -> notrav_list o = [] ->
  (forall x, In x (g_nodes g) -> exists c, In c (connected_components g []) /\ In x c) /\
  (forall c, In c (connected_components g []) ->
     (exists x, In x (g_nodes g) /\ forall y, In y c <-> path (uarcs g) x y) /\ incl c (g_nodes g)) /\
  pairwise_disjoint (connected_components g []).
Proof. exact cc_partition_created. Qed.
Print Assumptions C26_cc_partition_created.

(* nogobuses / notravbuses semantics on walks (walk_to E x l y: l = the nodes visited after x, ending in y; equivalent
   to Base/C07Graph.path): on every walk of the returned graph all nodes but the last are no notravbuses (a notravbus is
   reached, never traversed), and a walk with at least one arc visits only nodes of the graph, none of them gone *)
Theorem C26_path_is_walk : forall E x y, path E x y <-> exists l, walk_to E x l y.
Proof. exact path_walk. Qed.
Print Assumptions C26_path_is_walk.
Theorem C26_walk_avoids : forall o n lens g, create_nxgraph o n lens = Ok g ->
  forall l x y, walk_to (uarcs g) x l y ->
    (forall b, In b (removelast (x :: l)) -> ~ In b (notrav_list o)) /\
    (l <> [] -> forall b, In b (x :: l) -> In b (g_nodes g) /\ ~ gone o n b).
Proof. exact walk_avoids. Qed.
Print Assumptions C26_walk_avoids.
(* and exactly those: compared with the same call without notravbuses, the walks of the graph are the walks of that
   graph on which no notravbus is left again; the node lists are equal *)
Theorem C26_notrav_walks_exact : forall o n lens g g0,
  create_nxgraph o n lens = Ok g -> create_nxgraph (without_notrav o) n lens = Ok g0 ->
  g_nodes g = g_nodes g0 /\
  forall l x y, walk_to (uarcs g) x l y <->
                walk_to (uarcs g0) x l y /\ forall b, In b (removelast (x :: l)) -> ~ In b (notrav_list o).
Proof. exact notrav_walks. Qed.
Print Assumptions C26_notrav_walks_exact.
(* graph_searches.connected_component called with the notravbuses the graph was built with = reachability in the graph *)
Theorem C26_cc_built_notrav : forall o n lens g x y, create_nxgraph o n lens = Ok g ->
  In y (connected_component g (notrav_list o) x) <-> path (uarcs g) x y.
Proof. exact cc_built_notrav. Qed.
Print Assumptions C26_cc_built_notrav.

Example C26_stages_nonvacuous :
  exists g, create_nxgraph (o_default [1]) w_chain [1; 1; 1]%Q = Ok g /\
    g_nodes g = [0; 1; 3] /\ g_arcs g = [(0, 1, (0, 0), 1%Q)] /\ walk_to (uarcs g) 0 [1] 1.
Proof. exact stages_nonvacuous. Qed.
Print Assumptions C26_stages_nonvacuous.

Example C26_nonvacuous :
  let g := {| g_nodes := [0; 1; 2; 3]; g_arcs := [(0, 1, (0, 0), 2%Q); (1, 0, (0, 0), 2%Q); (1, 2, (0, 1), 1%Q); (2, 1, (0, 1), 1%Q);
                                                (0, 2, (0, 2), 4%Q); (2, 0, (0, 2), 4%Q)] |} in
  sym_arcs g = true /\ connected_components g [] = [[2; 1; 0]; [3]] /\
  distances g 0 = Ok [(1, 2%Q); (2, 3%Q); (0, 0%Q)].
Proof. vm_compute. repeat split. Qed.
Print Assumptions C26_nonvacuous.
