(* C30 — Diagnostic instances are stateless with respect to each other and to earlier calls
   (statements only; proofs are in C30/Proofs.v).
   exec step (init d0 f0) ops : the heap model of the repaired diagnostic.py run over an arbitrary history of
   Diagnostic(...) / register_function / diagnose_network operations on any number of instances, starting from the
   module-level defaults d0 (default_argument_values) and f0 (default_diagnostic_functions).
   spec_event d0 f0 flag regs kw : what diagnose_network(net, **kw) has to call for an instance created with
   add_default_functions=flag on which exactly the functions regs were registered - no heap, no history. *)
From Coq Require Import ZArith List Bool.
From PPV Require Import C30.Model C30.Proofs C30.ModelRestore C30.ProofsRestore.
Import ListNotations.

(* FULL: after ANY history, what instance i calls (names, function objects, kwargs each receives, ValueError exit)
   is determined by the module defaults at process start, i's own constructor flag, the functions registered on i,
   and the kwargs of this very call *)
Theorem C30_instance_noninterference : forall d0 f0 ops i kw flag,
  nth_error (flags_of ops) i = Some flag ->
  snd (step (fst (exec step (init d0 f0) ops)) (Diagnose i kw))
  = spec_event d0 f0 flag (regs_of i 0%nat ops) kw.
Proof. exact diagnose_noninterference. Qed.
Print Assumptions C30_instance_noninterference.

(* the same as a statement about two histories: other instances, their registrations and every earlier call
   (with whatever kwargs) are irrelevant *)
Theorem C30_history_independent : forall d0 f0 ops ops' (i i' : nat) kw flag,
  nth_error (flags_of ops) i = Some flag -> nth_error (flags_of ops') i' = Some flag ->
  regs_of i 0%nat ops = regs_of i' 0%nat ops' ->
  snd (step (fst (exec step (init d0 f0) ops)) (Diagnose i kw))
  = snd (step (fst (exec step (init d0 f0) ops')) (Diagnose i' kw)).
Proof. exact history_independent. Qed.
Print Assumptions C30_history_independent.

(* ... and so are the result and error dicts, for every behaviour of the diagnostic function objects *)
Theorem C30_results_history_independent : forall d0 f0 beh ops ops' (i i' : nat) kw flag,
  nth_error (flags_of ops) i = Some flag -> nth_error (flags_of ops') i' = Some flag ->
  regs_of i 0%nat ops = regs_of i' 0%nat ops' ->
  event_results beh (snd (step (fst (exec step (init d0 f0) ops)) (Diagnose i kw)))
  = event_results beh (snd (step (fst (exec step (init d0 f0) ops')) (Diagnose i' kw))).
Proof. exact results_history_independent. Qed.
Print Assumptions C30_results_history_independent.

(* the module-level defaults are never modified *)
Theorem C30_defaults_preserved : forall d0 f0 ops,
  get_dict (hp (fst (exec step (init d0 f0) ops))) L_DEFAULT_KW = d0 /\
  get_list (hp (fst (exec step (init d0 f0) ops))) L_DEFAULT_FN = f0.
Proof. exact defaults_preserved. Qed.
Print Assumptions C30_defaults_preserved.

(* an instance owns its kwargs dict and function list (distinct from the module-level objects); kwargs keep the
   value __init__ gave them (no call leaves options behind), the function list is defaults ++ own registrations *)
Theorem C30_instance_state : forall d0 f0 ops i flag,
  nth_error (flags_of ops) i = Some flag ->
  exists it, nth_error (insts (fst (exec step (init d0 f0) ops))) i = Some it /\
    i_kw it <> L_DEFAULT_KW /\ i_fn it <> L_DEFAULT_FN /\
    get_dict (hp (fst (exec step (init d0 f0) ops))) (i_kw it) = base_kw d0 flag /\
    get_list (hp (fst (exec step (init d0 f0) ops))) (i_fn it) = base_fn f0 flag ++ regs_of i 0%nat ops.
Proof. exact instance_state. Qed.
Print Assumptions C30_instance_state.

(* the code before the repair violates the statement (regression witnesses):
   a function registered on instance 0 is called by instance 1 ... *)
Theorem C30_old_register_leaks_refuted :
  snd (step_old (fst (exec step_old (init [] []) ops_w1)) (Diagnose 1%nat []))
  <> spec_event [] [] true (regs_of 1%nat 0%nat ops_w1) [].
Proof. exact old_register_leaks. Qed.
Print Assumptions C30_old_register_leaks_refuted.

(* ... and an option passed to one call is still in force in the next call *)
Theorem C30_old_kwargs_persist_refuted :
  snd (step_old (fst (exec step_old (init [] [fA]) ops_w2)) (Diagnose 0%nat []))
  <> spec_event [] [fA] true (regs_of 0%nat 0%nat ops_w2) [].
Proof. exact old_kwargs_persist. Qed.
Print Assumptions C30_old_kwargs_persist_refuted.

Example C30_nonvacuous :
  nth_error (flags_of ops_nv) 2%nat = Some true /\
  regs_of 0%nat 0%nat ops_nv = [fA] /\ regs_of 1%nat 0%nat ops_nv = [fB] /\ regs_of 2%nat 0%nat ops_nv = [] /\
  snd (step (fst (exec step (init [(1, 10)] [fB]) ops_nv)) (Diagnose 2%nat [(5, 3)]))
  = ECalls [(101, 8, [(5, 3)])] false.
Proof. exact nonvacuous. Qed.
Print Assumptions C30_nonvacuous.

(* ---- "running the diagnostic tool leaves the network unchanged": the diagnostic functions that modify the network
   temporarily, as stage machines (C30/ModelRestore.v).  o i = outcome of the function's i-th power flow: Conv, Exp
   (one of expected_exceptions) or Unexp (anything else - the crash); fst (f ... o n) = the net after the call.
   Main model = the code after the repair "diagnostic experiments restore the network in a finally clause". *)

(* the impedance experiment restores its nine tables on EVERY path: every verdict, expected and unexpected exceptions of
   both power flows, a crash after any number of the table writes of the replacement *)
Theorem C30_impedance_preserved : forall w k crash_at o n, fst (impedance w k crash_at o n) = n.
Proof. exact impedance_preserved. Qed.
Print Assumptions C30_impedance_preserved.

(* FULL: the overload, line capacitance and switch configuration experiments leave the net unchanged for every verdict
   and every crash point *)
Theorem C30_overload_preserved : forall F o n, fst (overload F o n) = n.
Proof. exact overload_preserved. Qed.
Print Assumptions C30_overload_preserved.
Theorem C30_line_cap_preserved : forall C' o n, fst (line_cap C' o n) = n.
Proof. exact line_cap_preserved. Qed.
Print Assumptions C30_line_cap_preserved.
Theorem C30_switch_conf_preserved : forall ALL o n, fst (switch_conf ALL o n) = n.
Proof. exact switch_conf_preserved. Qed.
Print Assumptions C30_switch_conf_preserved.

(* the repair changed no verdict and no raised error *)
Theorem C30_repair_same_result : forall F o n,
  snd (overload F o n) = snd (overload_old F o n) /\ snd (line_cap F o n) = snd (line_cap_old F o n) /\
  snd (switch_conf F o n) = snd (switch_conf_old F o n).
Proof. exact repair_same_result. Qed.
Print Assumptions C30_repair_same_result.

(* ---- regression witnesses: the code before the repair (restore lines after the inner try statement) *)
Theorem C30_overload_old_refuted : exists F o n, fst (overload_old F o n) <> n.
Proof. exact overload_old_refuted. Qed.
Print Assumptions C30_overload_old_refuted.
Theorem C30_line_cap_old_refuted : exists C' o n, fst (line_cap_old C' o n) <> n.
Proof. exact line_cap_old_refuted. Qed.
Print Assumptions C30_line_cap_old_refuted.
Theorem C30_switch_conf_old_refuted : exists ALL o n, fst (switch_conf_old ALL o n) <> n.
Proof. exact switch_conf_old_refuted. Qed.
Print Assumptions C30_switch_conf_old_refuted.
(* it restored the net exactly when no power flow of the experiment (run #1..#3) raised an unexpected exception *)
Theorem C30_overload_old_partial : forall F o n, no_unexp o = true -> fst (overload_old F o n) = n.
Proof. exact overload_old_preserved_partial. Qed.
Print Assumptions C30_overload_old_partial.
Theorem C30_line_cap_old_partial : forall C' o n, no_unexp o = true -> fst (line_cap_old C' o n) = n.
Proof. exact line_cap_old_preserved_partial. Qed.
Print Assumptions C30_line_cap_old_partial.
Theorem C30_switch_conf_old_partial : forall ALL o n, no_unexp o = true -> fst (switch_conf_old ALL o n) = n.
Proof. exact switch_conf_old_preserved_partial. Qed.
Print Assumptions C30_switch_conf_old_partial.
Theorem C30_overload_old_crash_leaves : forall F n,
  fst (overload_old F (fun i => match i with 0%nat => Exp | _ => Unexp end) n) = set_load F n /\
  fst (overload_old F (fun i => match i with 2%nat => Unexp | _ => Exp end) n) = set_sgen F (set_gen F n) /\
  fst (overload_old F (fun i => match i with 3%nat => Unexp | _ => Exp end) n) = set_sgen F (set_gen F (set_load F n)).
Proof. exact overload_old_crash_leaves. Qed.
Print Assumptions C30_overload_old_crash_leaves.

Example C30_restore_nonvacuous :
  overload 100 (fun _ => Exp) net0 = (net0, Ret 0) /\
  overload 100 (fun i => match i with 3%nat => Conv | _ => Exp end) net0 = (net0, Ret 3) /\
  overload 100 o_crash1 net0 = (net0, Raised) /\ line_cap 101 o_crash1 net0 = (net0, Raised) /\
  switch_conf 102 o_crash1 net0 = (net0, Raised) /\
  impedance (fun i => 200 + Z.of_nat i) 5 (Some 2%nat) (fun _ => Exp) net0 = (net0, Raised) /\
  impedance (fun i => 200 + Z.of_nat i) 5 None (fun i => match i with O => Exp | _ => Unexp end) net0 = (net0, Raised).
Proof. exact restore_nonvacuous. Qed.
Print Assumptions C30_restore_nonvacuous.
