(* C30 — Diagnostic instances are stateless with respect to each other and to earlier calls
   (statements only; proofs are in C30/Proofs.v).
   exec step (init d0 f0) ops : the heap model of the repaired diagnostic.py run over an arbitrary history of
   Diagnostic(...) / register_function / diagnose_network operations on any number of instances, starting from the
   module-level defaults d0 (default_argument_values) and f0 (default_diagnostic_functions).
   spec_event d0 f0 flag regs kw : what diagnose_network(net, **kw) has to call for an instance created with
   add_default_functions=flag on which exactly the functions regs were registered - no heap, no history. *)
From Coq Require Import ZArith List Bool.
From PPV Require Import C30.Model C30.Proofs.
Import ListNotations.

(* FULL: after ANY history, what instance i calls (names, function objects, kwargs each receives, ValueError exit)
   is determined by the module defaults at process start, i's own constructor flag, the functions registered on i,
   and the kwargs of this very call *)
Theorem C30_instance_noninterference : forall d0 f0 ops i kw flag,
  nth_error (flags_of ops) i = Some flag ->
  snd (step (fst (exec step (init d0 f0) ops)) (Diagnose i kw))
  = spec_event d0 f0 flag (regs_of i 0%nat ops) kw.
Proof. exact diagnose_noninterference. Qed.
Print Assumptions C30_instance_noninterference.

(* the same as a statement about two histories: other instances, their registrations and every earlier call
   (with whatever kwargs) are irrelevant *)
Theorem C30_history_independent : forall d0 f0 ops ops' (i i' : nat) kw flag,
  nth_error (flags_of ops) i = Some flag -> nth_error (flags_of ops') i' = Some flag ->
  regs_of i 0%nat ops = regs_of i' 0%nat ops' ->
  snd (step (fst (exec step (init d0 f0) ops)) (Diagnose i kw))
  = snd (step (fst (exec step (init d0 f0) ops')) (Diagnose i' kw)).
Proof. exact history_independent. Qed.
Print Assumptions C30_history_independent.

(* ... and so are the result and error dicts, for every behaviour of the diagnostic function objects *)
Theorem C30_results_history_independent : forall d0 f0 beh ops ops' (i i' : nat) kw flag,
  nth_error (flags_of ops) i = Some flag -> nth_error (flags_of ops') i' = Some flag ->
  regs_of i 0%nat ops = regs_of i' 0%nat ops' ->
  event_results beh (snd (step (fst (exec step (init d0 f0) ops)) (Diagnose i kw)))
  = event_results beh (snd (step (fst (exec step (init d0 f0) ops')) (Diagnose i' kw))).
Proof. exact results_history_independent. Qed.
Print Assumptions C30_results_history_independent.

(* the module-level defaults are never modified *)
Theorem C30_defaults_preserved : forall d0 f0 ops,
  get_dict (hp (fst (exec step (init d0 f0) ops))) L_DEFAULT_KW = d0 /\
  get_list (hp (fst (exec step (init d0 f0) ops))) L_DEFAULT_FN = f0.
Proof. exact defaults_preserved. Qed.
Print Assumptions C30_defaults_preserved.

(* an instance owns its kwargs dict and function list (distinct from the module-level objects); kwargs keep the
   value __init__ gave them (no call leaves options behind), the function list is defaults ++ own registrations *)
Theorem C30_instance_state : forall d0 f0 ops i flag,
  nth_error (flags_of ops) i = Some flag ->
  exists it, nth_error (insts (fst (exec step (init d0 f0) ops))) i = Some it /\
    i_kw it <> L_DEFAULT_KW /\ i_fn it <> L_DEFAULT_FN /\
    get_dict (hp (fst (exec step (init d0 f0) ops))) (i_kw it) = base_kw d0 flag /\
    get_list (hp (fst (exec step (init d0 f0) ops))) (i_fn it) = base_fn f0 flag ++ regs_of i 0%nat ops.
Proof. exact instance_state. Qed.
Print Assumptions C30_instance_state.

(* the code before the repair violates the statement (regression witnesses):
   a function registered on instance 0 is called by instance 1 ... *)
Theorem C30_old_register_leaks_refuted :
  snd (step_old (fst (exec step_old (init [] []) ops_w1)) (Diagnose 1%nat []))
  <> spec_event [] [] true (regs_of 1%nat 0%nat ops_w1) [].
Proof. exact old_register_leaks. Qed.
Print Assumptions C30_old_register_leaks_refuted.

(* ... and an option passed to one call is still in force in the next call *)
Theorem C30_old_kwargs_persist_refuted :
  snd (step_old (fst (exec step_old (init [] [fA]) ops_w2)) (Diagnose 0%nat []))
  <> spec_event [] [fA] true (regs_of 0%nat 0%nat ops_w2) [].
Proof. exact old_kwargs_persist. Qed.
Print Assumptions C30_old_kwargs_persist_refuted.

Example C30_nonvacuous :
  nth_error (flags_of ops_nv) 2%nat = Some true /\
  regs_of 0%nat 0%nat ops_nv = [fA] /\ regs_of 1%nat 0%nat ops_nv = [fB] /\ regs_of 2%nat 0%nat ops_nv = [] /\
  snd (step (fst (exec step (init [(1, 10)] [fB]) ops_nv)) (Diagnose 2%nat [(5, 3)]))
  = ECalls [(101, 8, [(5, 3)])] false.
Proof. exact nonvacuous. Qed.
Print Assumptions C30_nonvacuous.
