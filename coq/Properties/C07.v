(* C07 — property theorems (statements only; proofs are in C07/UnionFind.v, C07/Proofs.v, Base/C07Graph.v).
   Model: C07/Model.v (power-flow connectivity on the ppc rows, result NaN rule, create_nxgraph + unsupplied_buses).
   Spec:  C07/Spec.v  (Supplied = the property text; SuppliedPF / SuppliedT = what the two modules implement). *)
From Coq Require Import List Bool Arith QArith.
From PPV Require Import Base.C07Graph C07.Model C07.UnionFind C07.Spec C07.Proofs.
Import ListNotations.
Local Open Scope nat_scope.

(* ds_create of build_bus.py never loops: the disjoint-set forest exists for every net ... *)
Theorem C07_ds_find_terminates : forall n, exists ar, forest_of n = Some ar.
Proof. intros n. destruct (forest_of_some n) as [ar [H _]]. eauto. Qed.
Print Assumptions C07_ds_find_terminates.

(* ... and two buses share a ppc row iff they are connected by closed zero-impedance bus-bus switches between
   in-service buses (any chain, any order of the switch table, any root-selection flags) *)
Theorem C07_bus_lookup_fuses_exactly : forall n a b, rep n a = rep n b <-> upath (fuse_edges n) a b.
Proof. exact rep_iff_fused. Qed.
Print Assumptions C07_bus_lookup_fuses_exactly.

(* power flow: a bus has a finite (non-NaN) voltage row exactly when it is in service and SuppliedPF *)
Theorem C07_nan_iff_not_supplied_pf : forall n b,
  nan_bus n b = false <-> (bus_is n b = true /\ SuppliedPF n b).
Proof. exact nan_iff_not_supplied_pf. Qed.
Print Assumptions C07_nan_iff_not_supplied_pf.

(* topology module: unsupplied_buses(net) = the graph nodes that are not SuppliedT *)
Theorem C07_topo_unsupplied_iff : forall n b,
  In b (topo_unsupplied n) <-> (In b (nx_nodes n) /\ ~ SuppliedT n b).
Proof. exact topo_unsupplied_iff. Qed.
Print Assumptions C07_topo_unsupplied_iff.

(* neither module loses a bus that the property text calls supplied *)
Theorem C07_supplied_is_solved : forall n b, Supplied n b -> nan_bus n b = false /\ ~ In b (topo_unsupplied n).
Proof.
  intros n b S. split.
  - apply nan_iff_not_supplied_pf. split; [apply (supplied_ok _ _ _ _ S)|now apply supplied_supplied_pf].
  - intros U. apply topo_unsupplied_iff in U. destruct U as [_ U]. apply U. now apply supplied_suppliedT.
Qed.
Print Assumptions C07_supplied_is_solved.

(* the property, under the guard G07 (no in-service dcline; references of in-service branches and closed bus-bus
   switches resolve) and distinct trafo3w terminals: for every bus of the bus table,
   finite voltage <=> Supplied, and reported by the topology module <=> in service and not Supplied *)
Theorem C07_unsupplied_nan_topology_partial : forall n, G07 n = true -> t3_distinct n = true ->
  forall b, bus_known n b = true ->
  (nan_bus n b = false <-> Supplied n b) /\
  (In b (topo_unsupplied n) <-> (bus_is n b = true /\ ~ Supplied n b)).
Proof. exact c07_partial. Qed.
Print Assumptions C07_unsupplied_nan_topology_partial.

(* without the guard the full statement is false of the faithful model: a bus fed only through a dcline is NaN in the power flow but not reported by the topology module *)
Theorem C07_topo_eq_pf_refuted :
  exists n b, bus_is n b = true /\ nan_bus n b = true /\ ~ In b (topo_unsupplied n).
Proof. exact topo_eq_pf_refuted. Qed.
Print Assumptions C07_topo_eq_pf_refuted.
(* regression witness: before the repair "the connectivity check does not walk through out-of-service buses" an
   in-service bus behind an out-of-service bus (two impedances) was not isolated by the power flow; now it is *)
Theorem C07_pf_isolated_iff_supplied_old_refuted :
  exists n b, bus_is n b = true /\ nan_bus_old n b = false /\ ~ Supplied n b.
Proof. exact pf_isolated_iff_supplied_old_refuted. Qed.
Print Assumptions C07_pf_isolated_iff_supplied_old_refuted.
Example C07_bridge_now_isolated : nan_bus w_bridge 3 = true /\ G07 w_bridge = true.
Proof. vm_compute. split; reflexivity. Qed.
Print Assumptions C07_bridge_now_isolated.

Example C07_partial_nonvacuous :
  G07 w_ok = true /\ t3_distinct w_ok = true /\
  map (nan_bus w_ok) [0; 1; 2; 3; 4; 5; 6] = [false; false; true; true; true; false; false] /\
  topo_unsupplied w_ok = [4; 2] /\ rep w_ok 6 = rep w_ok 5.
Proof. exact c07_partial_nonvacuous. Qed.
Print Assumptions C07_partial_nonvacuous.

(* zero power of dead elements, ext_grid rows: an ext_grid that is not an in-service element reports exactly 0 *)
Theorem C07_ext_grid_zero : forall egs k e, nth_error egs k = Some e -> snd (fst e) = false ->
  nth_error (res_ext_grid_p egs) k = Some (Some 0%Q).
Proof. exact ext_grid_zero. Qed.
Print Assumptions C07_ext_grid_zero.
(* regression witness: before the repair "res_ext_grid is written also when no ext_grid is in service" it reported NaN *)
Theorem C07_ext_grid_zero_old_refuted :
  exists egs k e, nth_error egs k = Some e /\ snd (fst e) = false /\ nth_error (res_ext_grid_p_old egs) k = Some None.
Proof. exact ext_grid_zero_old_refuted. Qed.
Print Assumptions C07_ext_grid_zero_old_refuted.
