(* C07 — property theorems (statements only; proofs are in C07/UnionFind.v, C07/Proofs.v, Base/C07Graph.v).
   Model: C07/Model.v (power-flow connectivity on the ppc rows, result NaN rule, create_nxgraph + unsupplied_buses).
   Spec:  C07/Spec.v  (Supplied = the property text; SuppliedPF / SuppliedT = what the two modules implement). *)
From Coq Require Import List Bool Arith QArith.
From PPV Require Import Base.C07Graph C07.Model C07.UnionFind C07.Spec C07.Proofs C07.Aux.
Import ListNotations.
Local Open Scope nat_scope.

(* ds_create of build_bus.py never loops: the disjoint-set forest exists for every net ... *)
Theorem C07_ds_find_terminates : forall n, exists ar, forest_of n = Some ar.
Proof. intros n. destruct (forest_of_some n) as [ar [H _]]. eauto. Qed.
Print Assumptions C07_ds_find_terminates.

(* ... and two buses share a ppc row iff they are connected by closed zero-impedance bus-bus switches between
   in-service buses (any chain, any order of the switch table, any root-selection flags) *)
Theorem C07_bus_lookup_fuses_exactly : forall n a b, rep n a = rep n b <-> upath (fuse_edges n) a b.
Proof. exact rep_iff_fused. Qed.
Print Assumptions C07_bus_lookup_fuses_exactly.

(* power flow: a bus has a finite (non-NaN) voltage row exactly when it is in service and SuppliedPF *)
Theorem C07_nan_iff_not_supplied_pf : forall n b,
  nan_bus n b = false <-> (bus_is n b = true /\ SuppliedPF n b).
Proof. exact nan_iff_not_supplied_pf. Qed.
Print Assumptions C07_nan_iff_not_supplied_pf.

(* topology module: unsupplied_buses(net) = the graph nodes that are not SuppliedT *)
Theorem C07_topo_unsupplied_iff : forall n b,
  In b (topo_unsupplied n) <-> (In b (nx_nodes n) /\ ~ SuppliedT n b).
Proof. exact topo_unsupplied_iff. Qed.
Print Assumptions C07_topo_unsupplied_iff.

(* neither module loses a bus that the property text calls supplied *)
Theorem C07_supplied_is_solved : forall n b, Supplied n b -> nan_bus n b = false /\ ~ In b (topo_unsupplied n).
Proof.
  intros n b S. split.
  - apply nan_iff_not_supplied_pf. split; [apply (supplied_ok _ _ _ _ S)|now apply supplied_supplied_pf].
  - intros U. apply topo_unsupplied_iff in U. destruct U as [_ U]. apply U. now apply supplied_suppliedT.
Qed.
Print Assumptions C07_supplied_is_solved.

(* the property, under the guard G07 (no in-service dcline; references of in-service branches and closed bus-bus
   switches resolve) and distinct trafo3w terminals: for every bus of the bus table,
   finite voltage <=> Supplied, and reported by the topology module <=> in service and not Supplied *)
Theorem C07_unsupplied_nan_topology_partial : forall n, G07 n = true -> t3_distinct n = true ->
  forall b, bus_known n b = true ->
  (nan_bus n b = false <-> Supplied n b) /\
  (In b (topo_unsupplied n) <-> (bus_is n b = true /\ ~ Supplied n b)).
Proof. exact c07_partial. Qed.
Print Assumptions C07_unsupplied_nan_topology_partial.

(* without the guard the full statement is false of the faithful model: a bus fed only through a dcline is NaN in the power flow but not reported by the topology module *)
Theorem C07_topo_eq_pf_refuted :
  exists n b, bus_is n b = true /\ nan_bus n b = true /\ ~ In b (topo_unsupplied n).
Proof. exact topo_eq_pf_refuted. Qed.
Print Assumptions C07_topo_eq_pf_refuted.
(* regression witness: before the repair "the connectivity check does not walk through out-of-service buses" an
   in-service bus behind an out-of-service bus (two impedances) was not isolated by the power flow; now it is *)
Theorem C07_pf_isolated_iff_supplied_old_refuted :
  exists n b, bus_is n b = true /\ nan_bus_old n b = false /\ ~ Supplied n b.
Proof. exact pf_isolated_iff_supplied_old_refuted. Qed.
Print Assumptions C07_pf_isolated_iff_supplied_old_refuted.
Example C07_bridge_now_isolated : nan_bus w_bridge 3 = true /\ G07 w_bridge = true.
Proof. vm_compute. split; reflexivity. Qed.
Print Assumptions C07_bridge_now_isolated.

Example C07_partial_nonvacuous :
  G07 w_ok = true /\ t3_distinct w_ok = true /\
  map (nan_bus w_ok) [0; 1; 2; 3; 4; 5; 6] = [false; false; true; true; true; false; false] /\
  topo_unsupplied w_ok = [4; 2] /\ rep w_ok 6 = rep w_ok 5.
Proof. exact c07_partial_nonvacuous. Qed.
Print Assumptions C07_partial_nonvacuous.

(* ------------------------------------------------------------------ the auxiliary ppc rows *)
(* numbering: row k = k-th bus of net.bus; then one internal row per xward, then one star-point row per trafo3w
   (build_bus.py:341-353); the rows of _switch_branches / _branches_with_oos_buses follow (all_nodes); net._isolated_buses
   lists exactly the numbers of the rows the search does not reach *)
Theorem C07_row_of_bus : forall n rp k r, nth_error (buses n) k = Some r -> nth_error (all_nodes rp n) k = Some (L (NB (b_id r))).
Proof. exact row_of_bus. Qed.
Print Assumptions C07_row_of_bus.
Theorem C07_row_of_xward : forall n rp j, j < length (xwards n) ->
  nth_error (all_nodes rp n) (length (buses n) + j) = Some (L (NXW j)).
Proof. exact row_of_xward. Qed.
Print Assumptions C07_row_of_xward.
Theorem C07_row_of_trafo3w : forall n rp j, j < length (trafo3ws n) ->
  nth_error (all_nodes rp n) (length (buses n) + length (xwards n) + j) = Some (L (NT3 j)).
Proof. exact row_of_trafo3w. Qed.
Print Assumptions C07_row_of_trafo3w.
Theorem C07_isolated_rows_exact : forall n rp R k,
  In k (isolated_rows_with rp R n) <-> exists x, nth_error (all_nodes rp n) k = Some x /\ isolated_in R x = true.
Proof. exact isolated_rows_spec. Qed.
Print Assumptions C07_isolated_rows_exact.

(* an auxiliary row never changes the supplied set: the row of a bus is reached iff the bus is SuppliedPF (whatever
   auxiliary rows exist), and each auxiliary row is reached exactly when its element conducts to a reached bus row —
   xward internal bus: the xward is an in-service element at a SuppliedPF bus; *)
Theorem C07_bus_row_isolated_iff : forall n b, isolated n (L (NB (rep n b))) = false <-> SuppliedPF n b.
Proof. exact bus_row_isolated_iff. Qed.
Print Assumptions C07_bus_row_isolated_iff.
Theorem C07_xward_row_isolated_iff : forall n j,
  isolated n (L (NXW j)) = false <->
  exists x, In (j, x) (enum (xwards n)) /\ x_is x = true /\ bus_is n (x_bus x) = true /\ SuppliedPF n (x_bus x).
Proof. exact xward_row_isolated_iff. Qed.
Print Assumptions C07_xward_row_isolated_iff.
(* trafo3w star point: the trafo3w is in service and some winding without open switch ends at a SuppliedPF bus that is
   not out of service; *)
Theorem C07_trafo3w_row_isolated_iff : forall n j,
  isolated n (L (NT3 j)) = false <->
  exists t s, In (j, t) (enum (trafo3ws n)) /\ t_is t = true /\ s < 3 /\
              t3_open_pf n t s = false /\ bus_oos n (t3_bus t s) = false /\ SuppliedPF n (t3_bus t s).
Proof. exact trafo3w_row_isolated_iff. Qed.
Print Assumptions C07_trafo3w_row_isolated_iff.
(* auxiliary bus at an open line / trafo / trafo3w switch or at the out-of-service end of a line (D o kind j side p):
   it names the row l at the other end of its branch (o = Some l), and it is reached iff that branch is a status-1 branch
   of the search graph and l is reached; a branch re-routed at both ends (o = None) is never reached *)
Theorem C07_switch_row_isolated_iff : forall n o k j s p,
  isolated n (D o k j s p) = false <->
  exists l, o = Some l /\ In (D o k j s p, L l) (sym (ppc_edges (rep n) n)) /\ isolated n (L l) = false.
Proof. exact switch_row_isolated_iff. Qed.
Print Assumptions C07_switch_row_isolated_iff.

Example C07_aux_rows_nonvacuous :
  all_nodes (rep w_ok) w_ok = [L (NB 0); L (NB 1); L (NB 2); L (NB 3); L (NB 4); L (NB 5); L (NB 6); L (NT3 0);
                               D (Some (NB 2)) 0 1 0 0; D (Some (NT3 0)) 2 0 1 2; D (Some (NB 2)) 3 2 1 0] /\
  map (isolated w_ok) (all_nodes (rep w_ok) w_ok) = [false; false; true; true; true; false; true; false; true; false; true] /\
  isolated_rows w_ok = [2; 3; 4; 6; 8; 10].
Proof. exact aux_rows_nonvacuous. Qed.
Print Assumptions C07_aux_rows_nonvacuous.

(* zero power of dead elements, ext_grid rows: an ext_grid that is not an in-service element reports exactly 0 *)
Theorem C07_ext_grid_zero : forall egs k e, nth_error egs k = Some e -> snd (fst e) = false ->
  nth_error (res_ext_grid_p egs) k = Some (Some 0%Q).
Proof. exact ext_grid_zero. Qed.
Print Assumptions C07_ext_grid_zero.
(* regression witness: before the repair "res_ext_grid is written also when no ext_grid is in service" it reported NaN *)
Theorem C07_ext_grid_zero_old_refuted :
  exists egs k e, nth_error egs k = Some e /\ snd (fst e) = false /\ nth_error (res_ext_grid_p_old egs) k = Some None.
Proof. exact ext_grid_zero_old_refuted. Qed.
Print Assumptions C07_ext_grid_zero_old_refuted.
