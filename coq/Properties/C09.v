(* C09 — calculation results do not depend on the history of the network object
   (statements only; proofs are in C09/Proofs.v).
   State = (user-visible tables T, private caches and result tables C).  A calculation is a sequence of field
   assignments with explicit read sets; what is computed (`sem`) is arbitrary, so solvers and numerics are covered.
   hrun sem ops T C = the state after a history of edits and calculations. *)
From Coq Require Import ZArith QArith List Bool.
From PPV Require Import Base.QN C09.Model C09.Proofs.
Import ListNotations.

(* frame lemma: the values a calculation writes depend on the caches only through the fields it reads before it
   writes them *)
Theorem C09_run_frame : forall sem T p C1 C2,
  (forall c, In c (rbw p) -> C1 c = C2 c) ->
  forall c, In c (writes p) -> exec sem T p C1 c = exec sem T p C2 c.
Proof. exact exec_agree. Qed.
Print Assumptions C09_run_frame.

(* FULL for power flows that do not start from previous results: after ANY history the next power flow gives on every
   field it writes (options, lookups, ppc, converged, all result tables) exactly what it gives from any other cache
   state with an empty auxiliary-element tracking state (C08), e.g. from a fresh copy or a net rebuilt from the tables *)
Theorem C09_history_independent : forall sem ops T C C0,
  Forall hop_ok ops ->
  C F_AUX = sem FN_CLEAN [] -> C0 F_AUX = sem FN_CLEAN [] ->
  forall c, In c (writes prog_pf) ->
  exec sem (fst (hrun sem ops T C)) prog_pf (snd (hrun sem ops T C)) c = exec sem (fst (hrun sem ops T C)) prog_pf C0 c.
Proof. intros sem ops T C C0. apply history_independent. exact frame_ok_pf. Qed.
Print Assumptions C09_history_independent.

(* the same for the optimal power flow (AC/DC), now that it clears the lookups of the previous calculation; DC power flows
   run prog_pf since they re-initialise the result tables *)
Theorem C09_history_independent_opf : forall sem ops T C C0,
  Forall hop_ok ops ->
  C F_AUX = sem FN_CLEAN [] -> C0 F_AUX = sem FN_CLEAN [] ->
  forall c, In c (writes prog_opf) ->
  exec sem (fst (hrun sem ops T C)) prog_opf (snd (hrun sem ops T C)) c = exec sem (fst (hrun sem ops T C)) prog_opf C0 c.
Proof. intros sem ops T C C0. apply history_independent. exact frame_ok_opf. Qed.
Print Assumptions C09_history_independent_opf.

(* the OPF before that repair read the lookups first and really depended on them *)
Theorem C09_opf_old_depends_on_history_refuted :
  exists sem T C1 C2, C1 F_AUX = C2 F_AUX /\ exec sem T prog_opf_old C1 F_RES_BUS <> exec sem T prog_opf_old C2 F_RES_BUS.
Proof. exact opf_old_depends_on_history. Qed.
Print Assumptions C09_opf_old_depends_on_history_refuted.

(* the read-before-write sets of the three modelled calculations (compared with the access log of the real code) *)
Theorem C09_read_before_write_sets :
  rbw prog_pf = [F_AUX] /\ rbw prog_pf_results = [F_RES_BUS; F_AUX; F_RES_BUS; F_RES_OTHER] /\ rbw prog_opf = [F_AUX] /\
  rbw prog_opf_old = [F_AUX; F_LOOKUPS].
Proof. exact rbw_sets. Qed.
Print Assumptions C09_read_before_write_sets.

(* init="results" is outside the frame theorem (it reads the previous results by design), and the dependence is real *)
Theorem C09_results_depend_on_history_refuted :
  exists sem T C1 C2, C1 F_AUX = C2 F_AUX /\ exec sem T prog_pf_results C1 F_RES_BUS <> exec sem T prog_pf_results C2 F_RES_BUS.
Proof. exact results_depend_on_history. Qed.
Print Assumptions C09_results_depend_on_history_refuted.

(* FULL (after the repair of get_voltage_init_vector): every entry of the start vector handed to the solver for
   init="results" is a number, whatever the previous result tables contain (e.g. NaN of an unsupplied bus) *)
Theorem C09_start_vector_defined : forall bs, defined (start_vector bs) = true.
Proof. exact start_vector_defined. Qed.
Print Assumptions C09_start_vector_defined.

(* ... and it is the previous result wherever that has numbers (G09 = it has them at every bus taking part) *)
Theorem C09_start_vector_keeps_numbers : forall bs, G09 bs = true -> start_vector bs = start_vector_old bs.
Proof. exact start_vector_keeps_numbers. Qed.
Print Assumptions C09_start_vector_keeps_numbers.

(* the code before the repair copied the NaN: refuted, with the exact guard *)
Theorem C09_old_start_vector_defined_refuted : exists bs, defined (start_vector_old bs) = false.
Proof. exact old_start_vector_defined_refuted. Qed.
Print Assumptions C09_old_start_vector_defined_refuted.

Theorem C09_old_guard_exact : forall bs, defined (start_vector_old bs) = G09 bs.
Proof. exact defined_old_iff_G09. Qed.
Print Assumptions C09_old_guard_exact.

Theorem C09_old_nan_propagates : forall bs b,
  In b bs -> b_kept b = true -> b_set_vm b = None -> b_prev_vm b = None ->
  exists va, In (None, va) (start_vector_old bs).
Proof. exact old_nan_propagates. Qed.
Print Assumptions C09_old_nan_propagates.

Example C09_nonvacuous :
  start_vector feeder = [(Some 1, Some 0); (Some (100000328 # 100000000), Some 0); (Some 1, Some 0)] /\
  G09 [ {| b_prev_vm := Some 1; b_prev_va := Some 0; b_set_vm := Some (51 # 50); b_set_va := Some 0; b_kept := true |};
        {| b_prev_vm := None; b_prev_va := None; b_set_vm := None; b_set_va := None; b_kept := false |};
        {| b_prev_vm := Some (99 # 100); b_prev_va := Some (-1 # 2); b_set_vm := None; b_set_va := None; b_kept := true |} ] = true
  /\ frame_ok prog_pf = true /\ In F_RES_BUS (writes prog_pf).
Proof. exact nonvacuous. Qed.
Print Assumptions C09_nonvacuous.

(* ---- short circuit, three-phase power flow, state estimation (they occur in the histories: hop_ok = the calculation
   leaves the auxiliary tracking state empty, true of all sixteen modelled programs).
   allkinds (first argument true) = every kind of generating element whose pd2ppc lookup is read has an in-service element,
   so that _build_gen_lookups rewrites the entry; these three calculations do not clear net._pd2ppc_lookups. *)
Theorem C09_all_programs_may_occur_in_histories :
  forallb leaves_clean [prog_pf; prog_pf_results; prog_opf; prog_opf_old; prog_sc true false; prog_sc false false;
                        prog_sc true true; prog_sc false true; prog_pf3ph true; prog_pf3ph false; prog_est true false;
                        prog_est false false; prog_est true true; prog_est false true; prog_est_bb true; prog_est_bb false] = true.
Proof. exact leaves_clean_all. Qed.
Print Assumptions C09_all_programs_may_occur_in_histories.

(* PARTIAL (guard allkinds): after ANY history calc_sc gives on everything it computes (options, is_elements, lookups, ppc,
   res_*_sc) what it gives from any cache state with an empty tracking state; the power flow result tables pass through *)
Theorem C09_history_independent_sc_partial : forall sem ops T C C0,
  Forall hop_ok ops -> C F_AUX = sem FN_CLEAN [] -> C0 F_AUX = sem FN_CLEAN [] ->
  forall c, In c [F_OPTIONS; F_RES_SC; F_IS_ELEMENTS; F_SWITCH_INFO; F_LOOKUPS; F_LK_GEN; F_ISOLATED; F_PPC] ->
  exec sem (fst (hrun sem ops T C)) (prog_sc true false) (snd (hrun sem ops T C)) c =
  exec sem (fst (hrun sem ops T C)) (prog_sc true false) C0 c.
Proof. exact sc_history_independent. Qed.
Print Assumptions C09_history_independent_sc_partial.

(* PARTIAL (guard allkinds): runpp_3ph, every field it writes *)
Theorem C09_history_independent_pf3ph_partial : forall sem ops T C C0,
  Forall hop_ok ops -> C F_AUX = sem FN_CLEAN [] -> C0 F_AUX = sem FN_CLEAN [] ->
  forall c, In c (writes (prog_pf3ph true)) ->
  exec sem (fst (hrun sem ops T C)) (prog_pf3ph true) (snd (hrun sem ops T C)) c =
  exec sem (fst (hrun sem ops T C)) (prog_pf3ph true) C0 c.
Proof. intros sem ops T C C0. apply history_independent. exact frame_ok_pf3ph. Qed.
Print Assumptions C09_history_independent_pf3ph_partial.

(* PARTIAL (guard allkinds): estimate with a start vector that is not taken from previous results, all buses fused / with
   the bus-bus switch substitution (which begins with complete power flows) *)
Theorem C09_history_independent_estimate_partial : forall sem ops T C C0,
  Forall hop_ok ops -> C F_AUX = sem FN_CLEAN [] -> C0 F_AUX = sem FN_CLEAN [] ->
  (forall c, In c [F_OPTIONS; F_IS_ELEMENTS; F_SWITCH_INFO; F_LOOKUPS; F_LK_GEN; F_ISOLATED; F_PPC; F_RES_EST] ->
     exec sem (fst (hrun sem ops T C)) (prog_est true false) (snd (hrun sem ops T C)) c =
     exec sem (fst (hrun sem ops T C)) (prog_est true false) C0 c) /\
  (forall c, In c (writes (prog_est_bb true)) ->
     exec sem (fst (hrun sem ops T C)) (prog_est_bb true) (snd (hrun sem ops T C)) c =
     exec sem (fst (hrun sem ops T C)) (prog_est_bb true) C0 c).
Proof.
  intros sem ops T C C0 Fo HC HC0. split; intros c Hc;
    [now apply est_history_independent | now apply est_bb_history_independent].
Qed.
Print Assumptions C09_history_independent_estimate_partial.

(* the full statement (without the guard) is false of the model: a stale generator-type lookup is read *)
Theorem C09_stale_gen_lookup_refuted :
  exists sem T C1 C2, C1 F_AUX = C2 F_AUX /\
    exec sem T (prog_sc false false) C1 F_RES_SC <> exec sem T (prog_sc false false) C2 F_RES_SC /\
    exec sem T (prog_pf3ph false) C1 F_RES_3PH <> exec sem T (prog_pf3ph false) C2 F_RES_3PH /\
    exec sem T (prog_est false false) C1 F_RES_EST <> exec sem T (prog_est false false) C2 F_RES_EST.
Proof. exact stale_gen_lookup_depends. Qed.
Print Assumptions C09_stale_gen_lookup_refuted.

(* the read-before-write sets of the new programs (compared with the access log of the real code, lookups entry-wise) *)
Theorem C09_read_before_write_sets_sc_3ph_est :
  rbw (prog_sc true false) = [F_AUX; F_RES_OTHER] /\ rbw (prog_sc false false) = [F_AUX; F_LK_GEN; F_RES_OTHER] /\
  rbw (sc_front true false) = [F_AUX] /\
  rbw (prog_sc true true) = [F_OPTIONS; F_AUX; F_RES_BUS; F_RES_OTHER; F_RES_OTHER] /\
  rbw (prog_pf3ph true) = [F_AUX] /\ rbw (prog_pf3ph false) = [F_LK_GEN; F_AUX] /\
  rbw (prog_est true false) = [] /\ rbw (prog_est false false) = [F_LK_GEN] /\
  rbw (prog_est true true) = [F_RES_BUS; F_RES_BUS; F_RES_OTHER] /\
  rbw (prog_est_bb true) = [F_AUX] /\ rbw (prog_est_bb false) = [F_AUX; F_LK_GEN].
Proof. exact rbw_sets_x. Qed.
Print Assumptions C09_read_before_write_sets_sc_3ph_est.

(* FULL: start values at auxiliary buses (xward, trafo3w star point): every entry handed to the solver is a number for ALL
   previous result tables, and it is the internal voltage of the element where that exists, else the start of its bus *)
Theorem C09_start_vector_aux_defined : forall bs axs, aux_wf bs axs = true -> defined (start_vector_aux bs axs) = true.
Proof. exact start_vector_aux_defined. Qed.
Print Assumptions C09_start_vector_aux_defined.

Theorem C09_aux_start_spec : forall bs a b, nth_error bs (a_bus a) = Some b -> a_set_vm a = None ->
  (forall v, a_prev_vm a = Some v -> aux_vm bs a = Some v) /\
  (a_prev_vm a = None -> aux_vm bs a = init_vm b) /\
  (forall v, a_prev_va a = Some v -> aux_va bs a = Some v) /\
  (a_prev_va a = None -> aux_va bs a = init_va b).
Proof. exact aux_start_spec. Qed.
Print Assumptions C09_aux_start_spec.

Example C09_nonvacuous_aux :
  start_vector_aux feeder
    [ {| a_prev_vm := None; a_prev_va := None; a_bus := 2%nat; a_set_vm := None; a_kept := true |};
      {| a_prev_vm := Some (101 # 100); a_prev_va := Some (-3 # 2); a_bus := 1%nat; a_set_vm := Some (51 # 50); a_kept := true |};
      {| a_prev_vm := None; a_prev_va := None; a_bus := 0%nat; a_set_vm := None; a_kept := false |} ]
  = [(Some 1, Some 0); (Some (100000328 # 100000000), Some 0); (Some 1, Some 0); (Some 1, Some 0); (Some (51 # 50), Some (-3 # 2))].
Proof. exact nonvacuous_aux. Qed.
Print Assumptions C09_nonvacuous_aux.
