(* C18 — property theorems (statements only; proofs are in C18/*.v) *)
From Coq Require Import ZArith QArith List Bool Reals.
From PPV Require Import Base.QN Base.QC C18.Model C18.Proofs C18.ChainModel C18.Chain C18.Kappa C18.Zbus.
From mathcomp Require Import ssreflect ssrbool ssrnat eqtype fintype ssralg matrix.

Section OverQ.
Local Open Scope Q_scope.

(* ikss = c Un / (sqrt3 |Zk|) with Zk = rk + j xk in ohm as reported; s3 = sqrt 3, zabs = |R_EQUIV + j X_EQUIV| *)
Theorem C18_ikss_formula : forall c zabs vn sn s3,
  0 < zabs -> 0 < vn -> 0 < sn -> 0 < s3 ->
  ikss_3ph c zabs vn sn s3 * (s3 * to_ohm zabs vn sn) == c * vn.
Proof. exact ikss_formula. Qed.
Print Assumptions C18_ikss_formula.

(* the same free of square roots: 3 ikss^2 (rk_ohm^2 + xk_ohm^2) = c^2 Un^2 *)
Theorem C18_ikss_formula_sq : forall c zr zx zabs vn sn s3,
  0 < zabs -> 0 < vn -> 0 < sn -> 0 < s3 -> s3 * s3 == 3 -> zabs * zabs == zr * zr + zx * zx ->
  3 * (ikss_3ph c zabs vn sn s3 * ikss_3ph c zabs vn sn s3)
    * (to_ohm zr vn sn * to_ohm zr vn sn + to_ohm zx vn sn * to_ohm zx vn sn) == c * c * (vn * vn).
Proof. exact ikss_formula_sq. Qed.
Print Assumptions C18_ikss_formula_sq.

Theorem C18_skss_formula_sq : forall ikss vn s3, s3 * s3 == 3 ->
  skss_3ph ikss vn s3 * skss_3ph ikss vn s3 == 3 * (vn * vn) * (ikss * ikss).
Proof. exact skss_formula_sq. Qed.
Print Assumptions C18_skss_formula_sq.

(* the 2ph current is sqrt3/2 of the 3ph current: 4 ikss2ph^2 = 3 ikss3ph^2 *)
Theorem C18_two_ph_ratio_sq : forall c zabs vn sn s3,
  0 < zabs -> 0 < vn -> 0 < sn -> 0 < s3 -> s3 * s3 == 3 ->
  4 * (ikss_2ph c zabs vn sn * ikss_2ph c zabs vn sn) == 3 * (ikss_3ph c zabs vn sn s3 * ikss_3ph c zabs vn sn s3).
Proof. exact two_ph_ratio_sq. Qed.
Print Assumptions C18_two_ph_ratio_sq.

(* ip = kappa sqrt2 ikss without current sources: ip^2 = 2 kappa^2 ikss^2 *)
Theorem C18_ip_formula_sq : forall s2 kappa ikss, s2 * s2 == 2 ->
  ip_of s2 kappa ikss 0 * ip_of s2 kappa ikss 0 == 2 * (kappa * kappa) * (ikss * ikss).
Proof. exact ip_formula_sq. Qed.
Print Assumptions C18_ip_formula_sq.

(* kappa in [1.02, 2] for every exponential value in [0,1] — plain formula and method B (correction >= 1, clip) *)
Theorem C18_kappa_range_q : forall e, 0 <= e -> e <= 1 -> (102 # 100) <= kappa_of e /\ kappa_of e <= 2.
Proof. exact kappa_range_q. Qed.
Print Assumptions C18_kappa_range_q.
Theorem C18_kappa_b_range : forall korr e vn, 0 <= e -> e <= 1 -> 1 <= korr ->
  (102 # 100) <= kappa_b korr e vn /\ kappa_b korr e vn <= 2.
Proof. exact kappa_b_range. Qed.
Print Assumptions C18_kappa_b_range.

(* results do not depend on net.sn_mva: equal ohmic Thevenin impedance, any two bases, equal current *)
Theorem C18_ikss_sn_invariant : forall c zohm vn sn1 sn2 s3,
  0 < zohm -> 0 < vn -> 0 < sn1 -> 0 < sn2 -> 0 < s3 ->
  ikss_3ph c (zohm * sn1 / (vn * vn)) vn sn1 s3 == ikss_3ph c (zohm * sn2 / (vn * vn)) vn sn2 s3.
Proof. exact ikss_sn_invariant. Qed.
Print Assumptions C18_ikss_sn_invariant.

(* a fault impedance adds in ohm to the reported Thevenin impedance *)
Theorem C18_fault_impedance_ohm : forall zr zx rf xf vn sn,
  0 < vn -> 0 < sn -> (0 < rf \/ 0 < xf) ->
  to_ohm (fst (calc_rx zr zx rf xf vn sn)) vn sn == to_ohm zr vn sn + rf /\
  to_ohm (snd (calc_rx zr zx rf xf vn sn)) vn sn == to_ohm zx vn sn + xf.
Proof. exact fault_impedance_ohm. Qed.
Print Assumptions C18_fault_impedance_ohm.

(* external grid short-circuit model: |Z| = c / (S_sc/baseMVA) p.u. (= c Un^2 / S_sc in ohm), R = rx X, and the shunt
   written into the bus row is its inverse *)
Theorem C18_ext_grid_impedance : forall c s_sc rx sn sq,
  0 < c -> 0 < s_sc -> 0 < sn -> 0 < sq -> sq * sq == rx * rx + 1 ->
  let z := c / (s_sc / sn) in let x := z / sq in let r := rx * x in
  let g := fst (ext_grid_gb c s_sc rx sn sq) / sn in let b := snd (ext_grid_gb c s_sc rx sn sq) / sn in
  r * r + x * x == z * z /\ g * r - b * x == 1 /\ g * x + b * r == 0.
Proof. exact ext_grid_impedance. Qed.
Print Assumptions C18_ext_grid_impedance.

Example C18_nonvacuous : 0 < (1 # 2) /\ (1 # 2) <= 1 /\ (102 # 100) <= kappa_of (1 # 2).
Proof. repeat split; vm_compute; discriminate. Qed.

(* ---- the per-unit pipeline of a radial two-voltage-level chain  ext_grid - line - transformer (K_T) - line
   (C18/ChainModel.v: rows of ppc["branch"], ext_grid shunt, TAP, makeYbus).  For ANY solution z of Ybus z = e_k (the Zbus
   column the implementation reads the Thevenin impedance from, by inversion or LU) the reported rk_ohm + j xk_ohm =
   BASE_KV^2/baseMVA * z_k is the series formula of the elements' IEC short-circuit impedances in ohm
   (Zthev_ohm: Z_Q = c Un^2/S_sc with R = rx X; line R (with end temperature factor) + jX; K_T (u_kr + j u_kx) U_rT,lv^2/S_rT;
   the hv part referred with (U_rT,lv/U_rT,hv)^2), which does not mention net.sn_mva. *)
Theorem C18_chain_thevenin_ohm : forall (n : chain) (sn : Q) (o : oracles) (xk : Q),
  chain_ok n -> 0 < sn -> oracle_ok n sn o xk ->
  forall (vs : list C) (k : nat), (List.length vs = 4)%nat -> Nat.lt k 4 ->
  Ceq_list (mat_vec (chain_ybus n sn o) vs) (unit_vec k 4) ->
  to_ohm_c (List.nth k vs C0) (bus_vn n k) sn ==c Zthev_ohm n (o_sq o) xk k.
Proof. exact chain_thevenin. Qed.
Print Assumptions C18_chain_thevenin_ohm.

(* results do not depend on net.sn_mva across the two voltage levels: two runs with different net.sn_mva, each with its own
   square-root values and its own solve, report the same ohmic Thevenin impedance at every bus *)
Theorem C18_chain_thevenin_sn_invariant : forall (n : chain) (sn1 sn2 : Q) (o1 o2 : oracles) (xk : Q) (vs1 vs2 : list C) (k : nat),
  chain_ok n -> 0 < sn1 -> 0 < sn2 -> oracle_ok n sn1 o1 xk -> oracle_ok n sn2 o2 xk -> o_sq o1 == o_sq o2 ->
  (List.length vs1 = 4)%nat -> (List.length vs2 = 4)%nat -> Nat.lt k 4 ->
  Ceq_list (mat_vec (chain_ybus n sn1 o1) vs1) (unit_vec k 4) ->
  Ceq_list (mat_vec (chain_ybus n sn2 o2) vs2) (unit_vec k 4) ->
  to_ohm_c (List.nth k vs1 C0) (bus_vn n k) sn1 ==c to_ohm_c (List.nth k vs2 C0) (bus_vn n k) sn2.
Proof. exact chain_thevenin_sn_invariant. Qed.
Print Assumptions C18_chain_thevenin_sn_invariant.

(* a concrete chain (110/20 kV) with exact square roots satisfies all hypotheses for sn_mva = 1 and 100, and its p.u. Zbus
   entries differ between the two bases (the invariance is not trivial) *)
Example C18_chain_nonvacuous :
  chain_ok ex_chain /\ oracle_ok ex_chain 1 (ex_oracles 1) 4 /\ oracle_ok ex_chain 100 (ex_oracles 100) 4 /\
  Ceq_list (mat_vec (chain_ybus ex_chain 1 (ex_oracles 1)) (ex_col 1)) (unit_vec 3 4) /\
  Ceq_list (mat_vec (chain_ybus ex_chain 100 (ex_oracles 100)) (ex_col 100)) (unit_vec 3 4) /\
  ~ List.nth 3 (ex_col 1) C0 ==c List.nth 3 (ex_col 100) C0.
Proof. exact chain_nonvacuous. Qed.
Print Assumptions C18_chain_nonvacuous.

(* branch results: Kirchhoff's current law under the fault voltages V = c - ikss1 * Zbus[:, k] (any network, any size):
   at the faulted bus the current leaving into branches and shunts is c * (row sum of Ybus) - ikss1, elsewhere c * (row sum) *)
Theorem C18_kcl_fault_bus : forall row zcol c i, cdot row zcol ==c C1 ->
  cdot row (v_ikss true c i zcol) ==c Csub (Cmul c (cdot row (ones zcol))) i.
Proof. exact kcl_fault_bus. Qed.
Print Assumptions C18_kcl_fault_bus.
Theorem C18_kcl_other_bus : forall row zcol c i, cdot row zcol ==c C0 ->
  cdot row (v_ikss true c i zcol) ==c Cmul c (cdot row (ones zcol)).
Proof. exact kcl_other_bus. Qed.
Print Assumptions C18_kcl_other_bus.
(* res_line_sc of the chain: for a fault at the end bus the last line carries the whole fault current at its to end *)
Theorem C18_chain_line2_current : forall (n : chain) (sn : Q) (o : oracles) (xk : Q),
  chain_ok n -> 0 < sn -> oracle_ok n sn o xk ->
  forall (vs : list C) (c i : C), (List.length vs = 4)%nat ->
  Ceq_list (mat_vec (chain_ybus n sn o) vs) (unit_vec 3 4) ->
  match v_ikss true c i vs with
  | (_ :: _ :: vf :: vt :: nil)%list => branch_i_to (line_row (ch_l2 n) (ch_vlv n) sn) 1 vf vt ==c Copp i
  | _ => False
  end.
Proof. exact chain_line2_current. Qed.
Print Assumptions C18_chain_line2_current.

(* single-phase fault: ikss = sqrt3 c Un / |2 Z1 + Z0| (Z in ohm), root-free form on the reported rk, xk, rk0, xk0, and
   independence of net.sn_mva for equal ohmic impedance *)
Theorem C18_ikss_1ph_formula : forall c zabs vn sn s3, 0 < zabs -> 0 < vn -> 0 < sn ->
  ikss_1ph c zabs vn sn s3 * to_ohm zabs vn sn == s3 * c * vn.
Proof. exact ikss_1ph_formula. Qed.
Print Assumptions C18_ikss_1ph_formula.
Theorem C18_ikss_1ph_formula_sq : forall c z1 z0 zabs vn sn s3, 0 < zabs -> 0 < vn -> 0 < sn -> s3 * s3 == 3 ->
  zabs * zabs == cnorm2 (z_1ph z1 z0) ->
  ikss_1ph c zabs vn sn s3 * ikss_1ph c zabs vn sn s3
    * cnorm2 (Cadd (Cscale 2 (to_ohm_c z1 vn sn)) (to_ohm_c z0 vn sn)) == 3 * (c * c) * (vn * vn).
Proof. exact ikss_1ph_formula_sq. Qed.
Print Assumptions C18_ikss_1ph_formula_sq.
Theorem C18_ikss_1ph_sn_invariant : forall c zohm vn sn1 sn2 s3, 0 < zohm -> 0 < vn -> 0 < sn1 -> 0 < sn2 ->
  ikss_1ph c (zohm * sn1 / (vn * vn)) vn sn1 s3 == ikss_1ph c (zohm * sn2 / (vn * vn)) vn sn2 s3.
Proof. exact ikss_1ph_sn_invariant. Qed.
Print Assumptions C18_ikss_1ph_sn_invariant.
End OverQ.

(* over the reals: kappa = 1.02 + 0.98 exp(-3 R/X) is in [1.02, 2] for every R/X >= 0 (standard real axioms) *)
Theorem C18_kappa_range : forall rx : R, (0 <= rx)%R -> (1.02 <= kappa rx <= 2)%R.
Proof. exact kappa_range. Qed.
Print Assumptions C18_kappa_range.
Theorem C18_exp_oracle_range : forall rx : R, (0 <= rx)%R -> (0 < exp (- 3 * rx) <= 1)%R.
Proof. exact exp_oracle_range. Qed.
Print Assumptions C18_exp_oracle_range.

(* Zbus column uniqueness over any field: the explicit inverse and the factorised solve give the same column, and
   the column of bus k depends on Y and k only *)
Theorem C18_zbus_column_unique : forall (F : GRing.Field.type) (n : nat) (Y Z : 'M[F]_n) (k : 'I_n) (z : 'cV[F]_n),
  (Y *m Z = 1%:M -> Y *m z = delta_mx k ord0 -> z = col k Z)%R.
Proof. exact zbus_column_unique. Qed.
Print Assumptions C18_zbus_column_unique.
Theorem C18_zbus_solution_unique : forall (F : GRing.Field.type) (n : nat) (Y Z : 'M[F]_n) (k : 'I_n) (z1 z2 : 'cV[F]_n),
  (Y *m Z = 1%:M -> Y *m z1 = delta_mx k ord0 -> Y *m z2 = delta_mx k ord0 -> z1 = z2)%R.
Proof. exact zbus_solution_unique. Qed.
Print Assumptions C18_zbus_solution_unique.
