(* C18 — property theorems (statements only; proofs are in C18/*.v) *)
From Coq Require Import ZArith QArith List Bool Reals.
From PPV Require Import Base.QN C18.Model C18.Proofs C18.Kappa C18.Zbus.
From mathcomp Require Import ssreflect ssrbool ssrnat eqtype fintype ssralg matrix.

Section OverQ.
Local Open Scope Q_scope.

(* ikss = c Un / (sqrt3 |Zk|) with Zk = rk + j xk in ohm as reported; s3 = sqrt 3, zabs = |R_EQUIV + j X_EQUIV| *)
Theorem C18_ikss_formula : forall c zabs vn sn s3,
  0 < zabs -> 0 < vn -> 0 < sn -> 0 < s3 ->
  ikss_3ph c zabs vn sn s3 * (s3 * to_ohm zabs vn sn) == c * vn.
Proof. exact ikss_formula. Qed.
Print Assumptions C18_ikss_formula.

(* the same free of square roots: 3 ikss^2 (rk_ohm^2 + xk_ohm^2) = c^2 Un^2 *)
Theorem C18_ikss_formula_sq : forall c zr zx zabs vn sn s3,
  0 < zabs -> 0 < vn -> 0 < sn -> 0 < s3 -> s3 * s3 == 3 -> zabs * zabs == zr * zr + zx * zx ->
  3 * (ikss_3ph c zabs vn sn s3 * ikss_3ph c zabs vn sn s3)
    * (to_ohm zr vn sn * to_ohm zr vn sn + to_ohm zx vn sn * to_ohm zx vn sn) == c * c * (vn * vn).
Proof. exact ikss_formula_sq. Qed.
Print Assumptions C18_ikss_formula_sq.

Theorem C18_skss_formula_sq : forall ikss vn s3, s3 * s3 == 3 ->
  skss_3ph ikss vn s3 * skss_3ph ikss vn s3 == 3 * (vn * vn) * (ikss * ikss).
Proof. exact skss_formula_sq. Qed.
Print Assumptions C18_skss_formula_sq.

(* the 2ph current is sqrt3/2 of the 3ph current: 4 ikss2ph^2 = 3 ikss3ph^2 *)
Theorem C18_two_ph_ratio_sq : forall c zabs vn sn s3,
  0 < zabs -> 0 < vn -> 0 < sn -> 0 < s3 -> s3 * s3 == 3 ->
  4 * (ikss_2ph c zabs vn sn * ikss_2ph c zabs vn sn) == 3 * (ikss_3ph c zabs vn sn s3 * ikss_3ph c zabs vn sn s3).
Proof. exact two_ph_ratio_sq. Qed.
Print Assumptions C18_two_ph_ratio_sq.

(* ip = kappa sqrt2 ikss without current sources: ip^2 = 2 kappa^2 ikss^2 *)
Theorem C18_ip_formula_sq : forall s2 kappa ikss, s2 * s2 == 2 ->
  ip_of s2 kappa ikss 0 * ip_of s2 kappa ikss 0 == 2 * (kappa * kappa) * (ikss * ikss).
Proof. exact ip_formula_sq. Qed.
Print Assumptions C18_ip_formula_sq.

(* kappa in [1.02, 2] for every exponential value in [0,1] — plain formula and method B (correction >= 1, clip) *)
Theorem C18_kappa_range_q : forall e, 0 <= e -> e <= 1 -> (102 # 100) <= kappa_of e /\ kappa_of e <= 2.
Proof. exact kappa_range_q. Qed.
Print Assumptions C18_kappa_range_q.
Theorem C18_kappa_b_range : forall korr e vn, 0 <= e -> e <= 1 -> 1 <= korr ->
  (102 # 100) <= kappa_b korr e vn /\ kappa_b korr e vn <= 2.
Proof. exact kappa_b_range. Qed.
Print Assumptions C18_kappa_b_range.

(* results do not depend on net.sn_mva: equal ohmic Thevenin impedance, any two bases, equal current *)
Theorem C18_ikss_sn_invariant : forall c zohm vn sn1 sn2 s3,
  0 < zohm -> 0 < vn -> 0 < sn1 -> 0 < sn2 -> 0 < s3 ->
  ikss_3ph c (zohm * sn1 / (vn * vn)) vn sn1 s3 == ikss_3ph c (zohm * sn2 / (vn * vn)) vn sn2 s3.
Proof. exact ikss_sn_invariant. Qed.
Print Assumptions C18_ikss_sn_invariant.

(* a fault impedance adds in ohm to the reported Thevenin impedance *)
Theorem C18_fault_impedance_ohm : forall zr zx rf xf vn sn,
  0 < vn -> 0 < sn -> (0 < rf \/ 0 < xf) ->
  to_ohm (fst (calc_rx zr zx rf xf vn sn)) vn sn == to_ohm zr vn sn + rf /\
  to_ohm (snd (calc_rx zr zx rf xf vn sn)) vn sn == to_ohm zx vn sn + xf.
Proof. exact fault_impedance_ohm. Qed.
Print Assumptions C18_fault_impedance_ohm.

(* external grid short-circuit model: |Z| = c / (S_sc/baseMVA) p.u. (= c Un^2 / S_sc in ohm), R = rx X, and the shunt
   written into the bus row is its inverse *)
Theorem C18_ext_grid_impedance : forall c s_sc rx sn sq,
  0 < c -> 0 < s_sc -> 0 < sn -> 0 < sq -> sq * sq == rx * rx + 1 ->
  let z := c / (s_sc / sn) in let x := z / sq in let r := rx * x in
  let g := fst (ext_grid_gb c s_sc rx sn sq) / sn in let b := snd (ext_grid_gb c s_sc rx sn sq) / sn in
  r * r + x * x == z * z /\ g * r - b * x == 1 /\ g * x + b * r == 0.
Proof. exact ext_grid_impedance. Qed.
Print Assumptions C18_ext_grid_impedance.

Example C18_nonvacuous : 0 < (1 # 2) /\ (1 # 2) <= 1 /\ (102 # 100) <= kappa_of (1 # 2).
Proof. repeat split; vm_compute; discriminate. Qed.
End OverQ.

(* over the reals: kappa = 1.02 + 0.98 exp(-3 R/X) is in [1.02, 2] for every R/X >= 0 (standard real axioms) *)
Theorem C18_kappa_range : forall rx : R, (0 <= rx)%R -> (1.02 <= kappa rx <= 2)%R.
Proof. exact kappa_range. Qed.
Print Assumptions C18_kappa_range.
Theorem C18_exp_oracle_range : forall rx : R, (0 <= rx)%R -> (0 < exp (- 3 * rx) <= 1)%R.
Proof. exact exp_oracle_range. Qed.
Print Assumptions C18_exp_oracle_range.

(* Zbus column uniqueness over any field: the explicit inverse and the factorised solve give the same column, and
   the column of bus k depends on Y and k only *)
Theorem C18_zbus_column_unique : forall (F : GRing.Field.type) (n : nat) (Y Z : 'M[F]_n) (k : 'I_n) (z : 'cV[F]_n),
  (Y *m Z = 1%:M -> Y *m z = delta_mx k ord0 -> z = col k Z)%R.
Proof. exact zbus_column_unique. Qed.
Print Assumptions C18_zbus_column_unique.
Theorem C18_zbus_solution_unique : forall (F : GRing.Field.type) (n : nat) (Y Z : 'M[F]_n) (k : 'I_n) (z1 z2 : 'cV[F]_n),
  (Y *m Z = 1%:M -> Y *m z1 = delta_mx k ord0 -> Y *m z2 = delta_mx k ord0 -> z1 = z2)%R.
Proof. exact zbus_solution_unique. Qed.
Print Assumptions C18_zbus_solution_unique.
