(* C12 — property theorems (statements only; proofs are in C12/Proofs.v) *)
From Coq Require Import List Bool String.
From PPV Require Import C12.Model C12.Proofs.
Import ListNotations.
Open Scope string_scope.

(* histories: for any set of controllers each of which is individually sound (what it writes is rebuilt under its own
   recycle flags, or it switches recycling off), any number of time steps, with or without stored internals at the first
   step: in every time step all cached ppc parts (bus PQ, gen, transformer / line / other branch rows, shunts, topology,
   Ybus, Sbus) are fresh when the solver starts, i.e. the step solves the same system as a fresh power flow *)
Theorem C12_step_equals_fresh : forall n cs stored fr,
  Forall (fun c => sound c = true) cs -> fresh fr ->
  Forall (fun fr' => solve_is_fresh fr' = true) (run_steps n cs stored fr).
Proof. exact step_equals_fresh. Qed.
Print Assumptions C12_step_equals_fresh.

(* exhaustive over the finite domain (13 element tables x 43 columns = 559 pairs, [domain]): a ConstControl on net[e][v]
   is sound exactly on G12a = not (line with a power-flow relevant column) and not (trafo/trafo3w in_service) *)
Theorem C12_recycle_sound_partial : forall e v,
  In (e, v) domain -> (sound (CConst false e v) = true <-> G12a e v = true).
Proof. exact const_sound_iff. Qed.
Print Assumptions C12_recycle_sound_partial.

Theorem C12_tap_controller_sound : forall u e, sound (CTap u e) = true.
Proof. exact tap_sound. Qed.
Print Assumptions C12_tap_controller_sound.

(* the full statement is false of the faithful model: ConstControl("line","length_km") is recycled under the flag "trafo",
   which rebuilds transformers only; from the second time step on the line rows and Ybus are stale *)
Theorem C12_recycle_sound_refuted :
  exists cs n, ~ Forall (fun fr' => solve_is_fresh fr' = true) (run_steps n cs false all_fresh).
Proof. exact recycle_sound_refuted. Qed.
Print Assumptions C12_recycle_sound_refuted.

(* OutputWriter, lists of any length: for every request list admitted by the batch-eligibility test, run_timeseries
   records everything (does not raise) iff G12b: every variable is a key of its table's batch dict and no table other than
   res_trafo3w is requested twice *)
Theorem C12_batch_reader_total_partial : forall dc ft l b,
  eligible dc ft l = Some b -> (records_all dc ft l <-> G12b b = true).
Proof. exact writer_total_iff. Qed.
Print Assumptions C12_batch_reader_total_partial.

Theorem C12_not_eligible_records_all : forall dc ft l, eligible dc ft l = None -> records_all dc ft l.
Proof. exact not_eligible_records. Qed.
Print Assumptions C12_not_eligible_records_all.

(* refuted: OutputWriter(log_variables=[("res_line","p_from_mw")]) -> KeyError *)
Theorem C12_batch_reader_total_refuted :
  exists l, eligible false false l <> None /\ ~ records_all false false l.
Proof. exact batch_reader_refuted_key. Qed.
Print Assumptions C12_batch_reader_total_refuted.

(* refuted even when every variable is known to the reader: two variables of one table -> ValueError *)
Theorem C12_batch_reader_same_table_refuted :
  exists l, eligible false false l <> None /\
            (forall o, In o l -> mems (l_var o) (keys (l_table o)) = true) /\ ~ records_all false false l.
Proof. exact batch_reader_refuted_twice. Qed.
Print Assumptions C12_batch_reader_same_table_refuted.

(* non-vacuity: a sound non-trivial controller set that really recycles, and an eligible list that satisfies G12b *)
Example C12_nonvacuous :
  Forall (fun c => sound c = true) [CConst false "load" "p_mw"; CConst false "gen" "vm_pu"; CTap false "trafo"] /\
  recyclability [CConst false "load" "p_mw"; CConst false "gen" "vm_pu"; CTap false "trafo"] <> None /\
  exists b, eligible false false [{| l_table := "res_bus"; l_var := "vm_pu"; l_long := false |};
                                  {| l_table := "res_line"; l_var := "loading_percent"; l_long := false |}] = Some b /\ G12b b = true.
Proof.
  split; [repeat constructor|]. split; [vm_compute; discriminate|]. eexists. split; [vm_compute; reflexivity | reflexivity].
Qed.
