(* C12 — property theorems (statements only; proofs are in C12/Proofs.v) *)
From Coq Require Import List Bool String.
From PPV Require Import C12.Model C12.Proofs.
Import ListNotations.
Open Scope string_scope.

(* histories: for any set of controllers each of which is individually sound (what it writes is rebuilt under its own
   recycle flags, or it switches recycling off), any number of time steps, with or without stored internals at the first
   step: in every time step all cached ppc parts (bus PQ, gen, transformer / line / other branch rows, shunts, topology,
   Ybus, Sbus) are fresh when the solver starts, i.e. the step solves the same system as a fresh power flow *)
Theorem C12_step_equals_fresh : forall n cs stored fr,
  Forall (fun c => sound c = true) cs -> fresh fr ->
  Forall (fun fr' => solve_is_fresh fr' = true) (run_steps n cs stored fr).
Proof. exact step_equals_fresh. Qed.
Print Assumptions C12_step_equals_fresh.

(* exhaustive over the finite domain (13 element tables x 81 columns = 1053 pairs, [domain]): every ConstControl on
   net[e][v], recyclable or not, is sound *)
Theorem C12_recycle_sound : forall u e v, In (e, v) domain -> sound (CConst u e v) = true.
Proof. exact const_sound_all. Qed.
Print Assumptions C12_recycle_sound.

(* the finite domain is structurally complete: every (element, variable) from which the dependency table computes any cached
   part lies in the domain (the table itself is compared with a mechanical derivation from the code on every run) *)
Theorem C12_deps_in_domain : forall e v, deps e v <> [] -> In (e, v) domain.
Proof. exact deps_in_domain. Qed.
Print Assumptions C12_deps_in_domain.

(* hence without the domain hypothesis: a ConstControl on ANY (element, variable) string pair is sound, and every controller set
   the model can express, over any number of time steps, solves every step with fresh parts *)
Theorem C12_recycle_sound_any : forall u e v, sound (CConst u e v) = true.
Proof. exact const_sound_any. Qed.
Print Assumptions C12_recycle_sound_any.

Theorem C12_time_series_equals_fresh_any : forall n cs stored fr,
  fresh fr -> Forall (fun fr' => solve_is_fresh fr' = true) (run_steps n cs stored fr).
Proof. exact step_equals_fresh_any. Qed.
Print Assumptions C12_time_series_equals_fresh_any.

Theorem C12_tap_controller_sound : forall u e, sound (CTap u e) = true.
Proof. exact tap_sound. Qed.
Print Assumptions C12_tap_controller_sound.

(* the full statement: any controller set over the domain (ConstControl on any pair, tap controllers, other classes), any
   number of time steps: every step solves with fresh parts *)
Theorem C12_time_series_equals_fresh : forall n cs stored fr,
  Forall in_domain cs -> fresh fr ->
  Forall (fun fr' => solve_is_fresh fr' = true) (run_steps n cs stored fr).
Proof. exact step_equals_fresh_full. Qed.
Print Assumptions C12_time_series_equals_fresh.

(* histories with diverging steps (continue_on_divergence=True): for every sequence of diverging / solvable time steps and
   every set of sound controllers, every solvable step solves with fresh parts, every diverging step is reported as failed
   and no other step is *)
Theorem C12_divergence_history : forall divs cs stored fr,
  Forall (fun c => sound c = true) cs -> fresh fr ->
  Forall2 step_ok divs (run_steps_div divs cs stored fr).
Proof. exact run_steps_div_ok. Qed.
Print Assumptions C12_divergence_history.

(* before the two divergence repairs this held only under G12c (no controller with an initial run, or no recycling) and
   without batch reading; regression witnesses: a tap controller + a recyclable ConstControl (the steps after a diverging one
   were reported as failed), and only_v_results (a diverging recycled step was recorded silently) *)
Theorem C12_divergence_history_old_partial : forall divs cs stored fr,
  G12c cs = true -> Forall (fun c => sound c = true) cs -> fresh fr ->
  Forall2 step_ok divs (run_steps_div_old divs cs false stored false fr).
Proof. exact run_steps_div_old_ok. Qed.
Print Assumptions C12_divergence_history_old_partial.

Theorem C12_divergence_history_old_refuted :
  exists cs divs, Forall (fun c => sound c = true) cs /\
    ~ Forall2 step_ok divs (run_steps_div_old divs cs false false false all_fresh).
Proof. exact divergence_poisons_refuted. Qed.
Print Assumptions C12_divergence_history_old_refuted.

Theorem C12_divergence_silent_old_refuted :
  exists cs divs, G12c cs = true /\ Forall (fun c => sound c = true) cs /\
    ~ Forall2 step_ok divs (run_steps_div_old divs cs true false false all_fresh).
Proof. exact divergence_silent_refuted. Qed.
Print Assumptions C12_divergence_silent_old_refuted.

(* the rule before "fix: ConstControl only claims the recycle flag trafo for transformer parameters" was sound exactly
   on G12a and unsound at (line, length_km): regression witness *)
Theorem C12_recycle_old_partial : forall e v,
  In (e, v) domain -> (sound_old (CConst false e v) = true <-> G12a e v = true).
Proof. exact const_sound_old_iff. Qed.
Print Assumptions C12_recycle_old_partial.

Theorem C12_recycle_old_refuted : sound_old (CConst false "line" "length_km") = false /\ In ("line", "length_km") domain.
Proof. exact recycle_old_refuted. Qed.
Print Assumptions C12_recycle_old_refuted.

(* OutputWriter, request lists of any length, any controller flags: run_timeseries records every requested variable
   instead of failing on it *)
Theorem C12_batch_reader_total : forall dc ft l, records_all dc ft l.
Proof. exact writer_total. Qed.
Print Assumptions C12_batch_reader_total.

(* before the two writer repairs: total exactly on G12b, refuted by [(res_line,p_from_mw)] (KeyError) and by two variables
   of one table (ValueError) *)
Theorem C12_batch_reader_old_partial : forall dc ft l b,
  eligible_old dc ft l = Some b -> (records_all_old dc ft l <-> G12b b = true).
Proof. exact writer_old_total_iff. Qed.
Print Assumptions C12_batch_reader_old_partial.

Theorem C12_batch_reader_old_refuted :
  exists l, eligible_old false false l <> None /\ ~ records_all_old false false l.
Proof. exact batch_old_refuted_key. Qed.
Print Assumptions C12_batch_reader_old_refuted.

Theorem C12_batch_reader_old_same_table_refuted :
  exists l, eligible_old false false l <> None /\
            (forall o, In o l -> mems (l_var o) (keys (l_table o)) = true) /\ ~ records_all_old false false l.
Proof. exact batch_old_refuted_twice. Qed.
Print Assumptions C12_batch_reader_old_same_table_refuted.

(* non-vacuity: a non-trivial controller set that really recycles, and an eligible list that is read in batch *)
Example C12_nonvacuous :
  Forall in_domain [CConst false "load" "p_mw"; CConst false "gen" "vm_pu"; CTap false "trafo"] /\
  recyclability [CConst false "load" "p_mw"; CConst false "gen" "vm_pu"; CTap false "trafo"] <> None /\
  writer false false [{| l_table := "res_bus"; l_var := "vm_pu"; l_long := false |};
                      {| l_table := "res_bus"; l_var := "va_degree"; l_long := false |}] = WBatchOk.
Proof.
  split; [repeat constructor; apply pair_in_domain_In; vm_compute; reflexivity|]. split; [vm_compute; discriminate | reflexivity].
Qed.
