(* C33 — property theorems (statements only; proofs in C33/Proofs.v) *)
From Coq Require Import ZArith QArith List Bool.
From PPV Require Import Base.QN C33.Model C33.Proofs C33.Area4130.
From PPV Require C32.Model.
Import ListNotations.
Open Scope Q_scope.

(* after _saturate_sn_mva_step, for both priorities, p^2 + q^2 <= s^2, for every value rt the sqrt oracle may return
   (rt*rt equal to the argument handed to np.sqrt; the sign of rt is irrelevant) *)
Theorem C33_saturate_sn_disc : forall s q_prio rt p q,
  0 <= s -> rt * rt == sqrt_arg s q_prio p q ->
  in_disc s (fst (saturate_sn (Some s) q_prio rt p q)) (snd (saturate_sn (Some s) q_prio rt p q)).
Proof. exact saturate_sn_disc. Qed.
Print Assumptions C33_saturate_sn_disc.

(* the oracle hypothesis is satisfiable: the argument of np.sqrt is never negative *)
Theorem C33_sqrt_arg_nonneg : forall s q_prio p q, 0 <= s -> 0 <= sqrt_arg s q_prio p q.
Proof. exact sqrt_arg_nonneg. Qed.
Print Assumptions C33_sqrt_arg_nonneg.

Theorem C33_clamp_in_area : forall x lo hi, lo <= hi -> lo <= clamp x lo hi <= hi.
Proof. exact clamp_in. Qed.
Print Assumptions C33_clamp_in_area.

(* PQArea4120: in_area implies membership in the interval reported by q_flexibility (consistent object constants) *)
Theorem C33_pq4120_in_area_sound : forall a p q,
  lf_ind a <= 0 ->
  a_min_q a <= k_ind a + (p1 a - p0 a) * lf_ind a ->
  k_cap a + (p1 a - p0 a) * lf_cap a <= a_max_q a ->
  pq4120_in a p q = true -> within (pq4120_flex a p) q = true.
Proof. exact pq4120_in_sound. Qed.
Print Assumptions C33_pq4120_in_area_sound.

(* merged PQ / QV flexibility: a returned interval is non-empty and equals the intersection when that is non-empty *)
Theorem C33_pqv_merge_interval : forall r pq qv lo hi,
  merge r pq qv = Some (lo, hi) ->
  lo <= hi /\
  (qmax (fst pq) (fst qv) <= qmin (snd pq) (snd qv) -> lo = qmax (fst pq) (fst qv) /\ hi = qmin (snd pq) (snd qv)).
Proof. exact merge_spec. Qed.
Print Assumptions C33_pqv_merge_interval.

(* only a PQV area applies: whenever _saturate returns, q lies within the area's q_flexibility at the element's p and vm
   (VDE 4120 variants and STATCOM fully modelled; polygon areas under the stated contract of the shapely oracle) *)
Theorem C33_area_result_in_flex : forall ar q_prio rt p q vm p' q',
  ar <> ANone -> area_ok ar q ->
  saturate ar None q_prio rt p q vm = Res p' q' ->
  p' = p /\ exists lo hi, area_flex ar p vm = Some (lo, hi) /\ lo <= q' /\ q' <= hi.
Proof. exact area_result_in_flex. Qed.
Print Assumptions C33_area_result_in_flex.

(* VDE AR-N-4130 (PQVArea4130V1-V3) inside the model: the two QV limits are numpy.interp over their tables, i.e. piecewise linear:
   they return the tabulated q at every tabulated voltage, stay between the neighbouring tabulated values on every segment, are
   constant beyond the ends, and never leave the range of the table *)
Theorem C33_qv4130_limit_piecewise_linear : forall l,
  C32.Model.sorted l ->
  (forall p, In p l -> interp1 (fst p) l == snd p) /\
  (forall p q x, C32.Model.consec p q l -> fst p <= x -> x <= fst q ->
     (snd p <= interp1 x l /\ interp1 x l <= snd q) \/ (snd q <= interp1 x l /\ interp1 x l <= snd p)) /\
  (forall a t x, l = a :: t -> x <= fst a -> interp1 x l = snd a) /\
  (forall a t x, l = a :: t -> (forall q, In q l -> fst q <= x) -> interp1 x l == snd (last t a)).
Proof.
  intros l Hs. split; [intros p Hp; apply interp1_through; assumption|].
  split; [intros p q x Hc X1 X2; apply interp1_between; assumption|].
  split; [intros a t x -> H; apply interp1_left; exact H|].
  intros a t x E H. subst l. apply interp1_right; assumption.
Qed.
Print Assumptions C33_qv4130_limit_piecewise_linear.
Theorem C33_qv4130_limit_in_table_range : forall m M a l x, C32.Model.sorted (a :: l) ->
  (forall r, In r (a :: l) -> m <= snd r /\ snd r <= M) -> m <= interp1 x (a :: l) /\ interp1 x (a :: l) <= M.
Proof. exact interp1_bounds. Qed.
Print Assumptions C33_qv4130_limit_in_table_range.

(* clamp-in-area for the 4130 variants (only the area applies): p is unchanged and the returned q lies in the merged flexibility;
   when the PQ interval and the two interpolated limits overlap, q lies in the PQ interval and between the two limit curves at
   the element's voltage (consistent PQArea4130 constants, checked on the real objects by the harness) *)
Theorem C33_area4130_clamp_in_area : forall a lo_pts hi_pts r q_prio rt p q vm p' q',
  lf_ind a <= 0 /\ a_min_q a <= k_ind a + (p1 a - p0 a) * lf_ind a /\ k_cap a + (p1 a - p0 a) * lf_cap a <= a_max_q a ->
  saturate (A4130 a lo_pts hi_pts r) None q_prio rt p q vm = Res p' q' ->
  p' = p /\
  exists lo hi, merge r (pq4120_flex a p) (qv4130_flex lo_pts hi_pts vm) = Some (lo, hi) /\ lo <= q' /\ q' <= hi /\
    (qmax (fst (pq4120_flex a p)) (interp1 vm lo_pts) <= qmin (snd (pq4120_flex a p)) (interp1 vm hi_pts) ->
     fst (pq4120_flex a p) <= q' /\ q' <= snd (pq4120_flex a p) /\ interp1 vm lo_pts <= q' /\ q' <= interp1 vm hi_pts).
Proof. exact area4130_clamp_in_area. Qed.
Print Assumptions C33_area4130_clamp_in_area.
Example C33_area4130_nonvacuous :
  let a := {| p0 := 1 # 20; p1 := 1 # 5; a_min_q := -(1 # 4); a_max_q := 1 # 2; q_under := 1 # 20; lf_ind := -(1); lf_cap := 8 # 3;
              k_low := -(1 # 20); k_ind := -(1 # 10); k_cap := 1 # 10 |} in
  let lo_pts := [(9 # 10, 1 # 2); (1, 0); (21 # 20, -(1 # 4))] in
  let hi_pts := [(11 # 10, 1 # 2); (23 # 20, -(1 # 4))] in
  (lf_ind a <= 0 /\ a_min_q a <= k_ind a + (p1 a - p0 a) * lf_ind a /\ k_cap a + (p1 a - p0 a) * lf_cap a <= a_max_q a) /\
  saturate (A4130 a lo_pts hi_pts true) None true 0 1 (3 # 4) 1 = Res 1 (1 # 2) /\
  saturate (A4130 a lo_pts hi_pts true) None true 0 1 (-(1 # 4)) (39 # 40) = Res 1 (1 # 8) /\
  qv4130_flex lo_pts hi_pts (39 # 40) = (1 # 8, 1 # 2).
Proof. cbv zeta. split; [split; [|split]; vm_compute; discriminate|]. repeat split; vm_compute; reflexivity. Qed.

(* G33: damping >= 1 and the previous point inside.  The damped update keeps the disc / the interval (convexity) *)
Theorem C33_damped_step_in_disc_partial : forall d s pc qc pt qt,
  1 <= d -> in_disc s pc qc -> in_disc s pt qt -> in_disc s (damp d pc pt) (damp d qc qt).
Proof. exact damped_step_in_disc. Qed.
Print Assumptions C33_damped_step_in_disc_partial.

Theorem C33_damped_step_in_interval_partial : forall d lo hi cur tgt,
  1 <= d -> in_iv lo hi cur -> in_iv lo hi tgt -> in_iv lo hi (damp d cur tgt).
Proof. exact damped_step_in_iv. Qed.
Print Assumptions C33_damped_step_in_interval_partial.

(* refuted without the guard: previous point outside the disc (damping 2), or damping < 1 from inside *)
Theorem C33_damped_step_refuted :
  exists d s pc qc pt qt, 1 <= d /\ in_disc s pt qt /\ ~ in_disc s (damp d pc pt) (damp d qc qt).
Proof. exact damped_step_refuted. Qed.
Print Assumptions C33_damped_step_refuted.

Theorem C33_small_damping_refuted :
  exists d s pc qc pt qt, 0 < d /\ in_disc s pc qc /\ in_disc s pt qt /\ ~ in_disc s (damp d pc pt) (damp d qc qt).
Proof. exact damped_step_small_damping_refuted. Qed.
Print Assumptions C33_small_damping_refuted.

(* one whole controller step (_determine_target_powers + control_step), any area, any Q model value, any voltage:
   with saturation active, damping >= 1 and the sgen inside the disc before the step, it is inside after the step *)
Theorem C33_step_keeps_apparent_power_partial : forall ar m q_prio rt d sn alias pc qc ps qraw vm p' q',
  0 < sn -> 0 <= m -> 1 <= d ->
  in_disc m pc qc ->
  (forall q1, area_step ar (fst (pu_point sn ps qc qraw)) (snd (pu_point sn ps qc qraw)) vm = Some q1 ->
              rt * rt == sqrt_arg (qdiv m sn) q_prio (fst (pu_point sn ps qc qraw)) q1) ->
  target ar (Some m) q_prio rt d sn alias pc qc ps qraw vm = Res p' q' ->
  in_disc m p' q'.
Proof. exact target_in_disc. Qed.
Print Assumptions C33_step_keeps_apparent_power_partial.

(* non-vacuity: a saturating step with q priority and a STATCOM area *)
Example C33_nonvacuous :
  target (AStatcom (-(3#5)) (3#5)) (Some 1) true (4#5) 2 1 false (1#2) 0 1 (Some (4#5)) 1 = Res (13 # 20) (3 # 10)
  /\ (4#5) * (4#5) == sqrt_arg (qdiv 1 1) true 1 (3#5).
Proof. split; vm_compute; reflexivity. Qed.
