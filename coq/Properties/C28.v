(* C28 — grid equivalents: Kron reduction and ward parameters (proofs in C28/Proofs.v).
   rowdot r v = sum_j r_j*v_j ; a system row of a kept bus is (rb, yie) = (entries at kept buses, entry at the eliminated
   bus), the eliminated bus' row is (re_, yee).  elim_row is the Schur-complement row  rb - yie/yee * re_. *)
From Coq Require Import ZArith QArith List Bool.
From PPV Require Import Base.QN Base.QC C28.Model C28.Proofs C28.Kron C28.Coupling C28.Block.
Import ListNotations.
Open Scope Q_scope.

(* eliminating a bus keeps the nodal equation of every other bus: the same voltages solve the reduced system, with the
   current of the eliminated bus transferred (I_i - yie/yee * I_e).  Entry-wise, for every row and every size. *)
Theorem C28_kron_one_bus_preserves_equation : forall rb yie re_ yee vb ve ii ie,
  ~ re yee * re yee + im yee * im yee == 0 ->
  length rb = length re_ -> length rb = length vb ->
  Cadd (rowdot rb vb) (Cmul yie ve) ==c ii ->
  Cadd (rowdot re_ vb) (Cmul yee ve) ==c ie ->
  rowdot (elim_row rb yie re_ yee) vb ==c Csub ii (Cmul (Cdiv yie yee) ie).
Proof. exact kron_one_row. Qed.
Print Assumptions C28_kron_one_bus_preserves_equation.

(* all kept rows at once (one elimination step of the whole system) *)
Theorem C28_kron_step_preserves_system : forall rows re_ yee vb ve Is ie,
  ~ re yee * re yee + im yee * im yee == 0 ->
  (forall r, In r rows -> length (fst r) = length re_) -> length re_ = length vb ->
  Forall2 (fun r i => Cadd (rowdot (fst r) vb) (Cmul (snd r) ve) ==c i) rows Is ->
  Cadd (rowdot re_ vb) (Cmul yee ve) ==c ie ->
  Forall2 (fun r i => rowdot (elim_row (fst r) (snd r) re_ yee) vb ==c Csub i (Cmul (Cdiv (snd r) yee) ie)) rows Is.
Proof. exact kron_step. Qed.
Print Assumptions C28_kron_step_preserves_system.

Example C28_kron_nonvacuous :
  let yee := mkC 4 (-2) in let rb := [mkC 3 (-1)] in let re_ := [mkC (-1) 1] in
  let vb := [mkC 1 0] in let ve := mkC 1 (1 # 2) in
  ~ re yee * re yee + im yee * im yee == 0 /\ length rb = length re_ /\
  rowdot (elim_row rb (mkC (-1) 1) re_ yee) vb ==c
    Csub (Cadd (rowdot rb vb) (Cmul (mkC (-1) 1) ve)) (Cmul (Cdiv (mkC (-1) 1) yee) (Cadd (rowdot re_ vb) (Cmul yee ve))).
Proof. vm_compute. repeat split; try (intro H; discriminate H). Qed.

(* ---- composition of the single steps (induction over the elimination order).
   square n Y : n rows of length n ; system Y v I : Y*v == I row by row ; kron_exact k Y : the last k buses eliminated one
   after the other (Model.elim_last each time) ; pivots_ok k Y : the k diagonal entries met on the way are non-zero ;
   kron_cur k Y I : the currents with the eliminated buses' currents transferred (I_i - y_ie/y_ee * I_e at each step). *)

(* general form: every solution (v, I) of the full system gives a solution of the reduced system on the kept buses *)
Theorem C28_kron_sequence_preserves_system : forall k m Y v I,
  square (m + k) Y -> length v = (m + k)%nat -> pivots_ok k Y ->
  system Y v I -> system (kron_exact k Y) (firstn m v) (kron_cur k Y I).
Proof. exact kron_exact_sound. Qed.
Print Assumptions C28_kron_sequence_preserves_system.

(* the defining equations of the Schur complement Ykk - Yke*inv(Yee)*Yek: for EVERY voltage vector whose k external
   equations are homogeneous (no current at the eliminated buses), the reduced matrix applied to the kept (internal and
   boundary) voltages gives exactly the original currents of the kept buses *)
Theorem C28_kron_sequence_is_schur_complement : forall k m Y v I,
  square (m + k) Y -> length v = (m + k)%nat -> pivots_ok k Y ->
  system Y v I -> tail_zero k I ->
  system (kron_exact k Y) (firstn m v) (firstn m I).
Proof. exact kron_exact_schur. Qed.
Print Assumptions C28_kron_sequence_is_schur_complement.

(* the boolean pivot test evaluated by the correspondence run implies the hypothesis *)
Theorem C28_pivot_test_sound : forall k Y, pivots_okb k Y = true -> pivots_ok k Y.
Proof. exact pivots_okb_ok. Qed.
Print Assumptions C28_pivot_test_sound.

(* non-vacuity: a 4-bus ring with two buses eliminated: square, pivots non-zero, and a voltage vector with zero external
   currents exists (v = 1 at every bus of a ring without shunts gives I = 0) *)
Example C28_kron_sequence_nonvacuous :
  square (2 + 2) ex_Y /\ pivots_ok 2 ex_Y /\
  system ex_Y [C1; C1; C1; C1] [C0; C0; C0; C0] /\ tail_zero 2 [C0; C0; C0; C0] /\
  kron_exact 2 ex_Y <> [].
Proof.
  split; [exact ex_Y_square | split; [exact ex_Y_pivots | split; [| split]]].
  - repeat constructor; vm_compute; split; reflexivity.
  - cbn. repeat split; reflexivity.
  - vm_compute. discriminate.
Qed.

(* ---- the block formula itself.  mvec A v = A*v ; vzip f a b = entry-wise f ; Veq = entry-wise ==c.
   The boundary block  Ybb - Ybe*Z*Yeb  computed by _calculate_equivalent_Ybus (Model.equivalent_Ybus_true builds exactly
   msub Ybb (mmul (mmul Ybe Z ne) Yeb nb) from the blocks of Ybus_sorted) satisfies the defining equations of the Schur
   complement whenever the oracle Z inverts Yee on the external voltages: for every (vb, ve) with Yeb*vb + Yee*ve == 0 it
   maps vb to Ybb*vb + Ybe*ve - the same equations that the bus-by-bus elimination satisfies
   (C28_kron_sequence_is_schur_complement). *)
Theorem C28_block_formula_is_schur_complement : forall (Ybb Ybe Yeb Yee Z : M) nb ne vb ve,
  (forall r, In r Yeb -> length r = nb) -> length vb = nb ->
  length Yeb = ne -> (forall r, In r Z -> length r = ne) ->
  length Ybe = length Ybb -> (forall r, In r Ybb -> length r = nb) ->
  Veq (mvec Z (mvec Yee ve)) ve ->
  Veq (mvec Yeb vb) (map Copp (mvec Yee ve)) ->
  Veq (mvec (msub Ybb (mmul (mmul Ybe Z ne) Yeb nb)) vb) (vzip Cadd (mvec Ybb vb) (mvec Ybe ve)).
Proof. exact block_formula_schur. Qed.
Print Assumptions C28_block_formula_is_schur_complement.

(* matrix product of the model is associative with the matrix-vector product *)
Theorem C28_mmul_vec : forall A B n v, (forall r, In r B -> length r = n) -> length v = n ->
  Veq (mvec (mmul A B n) v) (mvec A (mvec B v)).
Proof. exact mmul_vec. Qed.
Print Assumptions C28_mmul_vec.

Example C28_block_formula_nonvacuous :
  let Ybb := [[mkC 2 (-1)]] in let Ybe := [[mkC (-1) 1]] in let Yeb := [[mkC (-1) 1]] in let Yee := [[mkC 4 (-2)]] in
  let Z := [[Cinv (mkC 4 (-2))]] in let vb := [mkC 1 0] in let ve := [Cmul (Cinv (mkC 4 (-2))) (mkC 1 (-1))] in
  Veq (mvec Z (mvec Yee ve)) ve /\ Veq (mvec Yeb vb) (map Copp (mvec Yee ve)).
Proof. exact block_formula_nonvacuous. Qed.

(* ---- the implementation's block formula and the coupling block *)
(* under the guard G28 (Ybus_be equals the transpose of Ybus_eb, entry by entry) the implementation's formula
   (rei_generation.py: Ybus_be = Ybus_eb.T) equals the block formula with the true coupling block, for every oracle
   inverse Z; Meq = entry-wise ==c *)
Theorem C28_equivalent_Ybus_partial : forall Ys ni nb ne Z, G28 Ys ni nb ne = true ->
  Meq (equivalent_Ybus Ys ni nb ne Z) (equivalent_Ybus_true Ys ni nb ne Z).
Proof. exact equivalent_Ybus_symmetric_coupling. Qed.
Print Assumptions C28_equivalent_Ybus_partial.

Theorem C28_equivalent_Ybus_refuted :
  G28 wit_Ys 0 1 1 = false /\
  ~ Meq (equivalent_Ybus wit_Ys 0 1 1 [[mkC (1 # 4) 0]]) (equivalent_Ybus_true wit_Ys 0 1 1 [[mkC (1 # 4) 0]]).
Proof. exact equivalent_Ybus_unsymmetric_refuted. Qed.
Print Assumptions C28_equivalent_Ybus_refuted.

Example C28_equivalent_Ybus_nonvacuous : G28 sym_Ys 0 1 1 = true.
Proof. exact sym_Ys_guard. Qed.

(* the implementation builds the coupling block as the TRANSPOSE of Ybus_eb (rei_generation.py: Ybus_be = Ybus_eb.T).
   Its one-bus instance is the Schur row with y_ei in place of y_ie: equal when the coupling is symmetric ... *)
Theorem C28_impl_coupling_partial : forall rb y_ie y_ei re_ yee, y_ei ==c y_ie ->
  Forall2 Ceq (elim_row rb y_ei re_ yee) (elim_row rb y_ie re_ yee).
Proof. intros. apply elim_row_symmetric. assumption. Qed.
Print Assumptions C28_impl_coupling_partial.
(* ... and different for an unsymmetric admittance matrix (phase-shifting transformer between boundary and external area) *)
Theorem C28_impl_coupling_refuted : exists Y, ~ Forall2 (Forall2 Ceq) (elim_last_impl Y) (elim_last Y).
Proof. exact elim_impl_refuted. Qed.
Print Assumptions C28_impl_coupling_refuted.

(* ward/impedance parameters stamp exactly the reduced matrix: off-diagonal entry from z = -1/Y_ij, diagonal from the
   row-sum shunt *)
Theorem C28_ward_impedance_reproduces_entry : forall y, ~ re y * re y + im y * im y == 0 ->
  Copp (Cinv (z_of_y y)) ==c y.
Proof. exact ward_impedance_reproduces_entry. Qed.
Print Assumptions C28_ward_impedance_reproduces_entry.

Theorem C28_ward_shunt_reproduces_diagonal : forall a x b,
  Csub (row_sum (a ++ x :: b)) (Csum (a ++ b)) ==c x.
Proof. exact ward_shunt_reproduces_diagonal. Qed.
Print Assumptions C28_ward_shunt_reproduces_diagonal.
