(* C28 — grid equivalents: Kron reduction and ward parameters (proofs in C28/Proofs.v).
   rowdot r v = sum_j r_j*v_j ; a system row of a kept bus is (rb, yie) = (entries at kept buses, entry at the eliminated
   bus), the eliminated bus' row is (re_, yee).  elim_row is the Schur-complement row  rb - yie/yee * re_. *)
From Coq Require Import ZArith QArith List Bool.
From PPV Require Import Base.QN Base.QC C28.Model C28.Proofs.
Import ListNotations.
Open Scope Q_scope.

(* eliminating a bus keeps the nodal equation of every other bus: the same voltages solve the reduced system, with the
   current of the eliminated bus transferred (I_i - yie/yee * I_e).  Entry-wise, for every row and every size. *)
Theorem C28_kron_one_bus_preserves_equation : forall rb yie re_ yee vb ve ii ie,
  ~ re yee * re yee + im yee * im yee == 0 ->
  length rb = length re_ -> length rb = length vb ->
  Cadd (rowdot rb vb) (Cmul yie ve) ==c ii ->
  Cadd (rowdot re_ vb) (Cmul yee ve) ==c ie ->
  rowdot (elim_row rb yie re_ yee) vb ==c Csub ii (Cmul (Cdiv yie yee) ie).
Proof. exact kron_one_row. Qed.
Print Assumptions C28_kron_one_bus_preserves_equation.

(* all kept rows at once (one elimination step of the whole system) *)
Theorem C28_kron_step_preserves_system : forall rows re_ yee vb ve Is ie,
  ~ re yee * re yee + im yee * im yee == 0 ->
  (forall r, In r rows -> length (fst r) = length re_) -> length re_ = length vb ->
  Forall2 (fun r i => Cadd (rowdot (fst r) vb) (Cmul (snd r) ve) ==c i) rows Is ->
  Cadd (rowdot re_ vb) (Cmul yee ve) ==c ie ->
  Forall2 (fun r i => rowdot (elim_row (fst r) (snd r) re_ yee) vb ==c Csub i (Cmul (Cdiv (snd r) yee) ie)) rows Is.
Proof. exact kron_step. Qed.
Print Assumptions C28_kron_step_preserves_system.

Example C28_kron_nonvacuous :
  let yee := mkC 4 (-2) in let rb := [mkC 3 (-1)] in let re_ := [mkC (-1) 1] in
  let vb := [mkC 1 0] in let ve := mkC 1 (1 # 2) in
  ~ re yee * re yee + im yee * im yee == 0 /\ length rb = length re_ /\
  rowdot (elim_row rb (mkC (-1) 1) re_ yee) vb ==c
    Csub (Cadd (rowdot rb vb) (Cmul (mkC (-1) 1) ve)) (Cmul (Cdiv (mkC (-1) 1) yee) (Cadd (rowdot re_ vb) (Cmul yee ve))).
Proof. vm_compute. repeat split; try (intro H; discriminate H). Qed.

(* the implementation builds the coupling block as the TRANSPOSE of Ybus_eb (rei_generation.py: Ybus_be = Ybus_eb.T).
   Its one-bus instance is the Schur row with y_ei in place of y_ie: equal when the coupling is symmetric ... *)
Theorem C28_impl_coupling_partial : forall rb y_ie y_ei re_ yee, y_ei ==c y_ie ->
  Forall2 Ceq (elim_row rb y_ei re_ yee) (elim_row rb y_ie re_ yee).
Proof. intros. apply elim_row_symmetric. assumption. Qed.
Print Assumptions C28_impl_coupling_partial.
(* ... and different for an unsymmetric admittance matrix (phase-shifting transformer between boundary and external area) *)
Theorem C28_impl_coupling_refuted : exists Y, ~ Forall2 (Forall2 Ceq) (elim_last_impl Y) (elim_last Y).
Proof. exact elim_impl_refuted. Qed.
Print Assumptions C28_impl_coupling_refuted.

(* ward/impedance parameters stamp exactly the reduced matrix: off-diagonal entry from z = -1/Y_ij, diagonal from the
   row-sum shunt *)
Theorem C28_ward_impedance_reproduces_entry : forall y, ~ re y * re y + im y * im y == 0 ->
  Copp (Cinv (z_of_y y)) ==c y.
Proof. exact ward_impedance_reproduces_entry. Qed.
Print Assumptions C28_ward_impedance_reproduces_entry.

Theorem C28_ward_shunt_reproduces_diagonal : forall a x b,
  Csub (row_sum (a ++ x :: b)) (Csum (a ++ b)) ==c x.
Proof. exact ward_shunt_reproduces_diagonal. Qed.
Print Assumptions C28_ward_shunt_reproduces_diagonal.
