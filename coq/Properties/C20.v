(* C20 — JSON save/load loses nothing: cell codec theorems (statements only; proofs in C20/Proofs.v) *)
From Coq Require Import ZArith QArith Qabs List Bool String.
From PPV Require Import Base.QN C20.Model C20.Proofs C20.Column C20.ColumnProofs.
Import ListNotations.
Open Scope Q_scope.

(* floats in fixed notation (1e-15 <= |x| <= 1e16): the text carries x to within 0.5e-15 (bound of the property: 1e-14) *)
Theorem C20_float_roundtrip_within : forall q, Qabs (round_fixed q - q) <= (1 # 2) / p10 15.
Proof. exact round_fixed_within. Qed.
Print Assumptions C20_float_roundtrip_within.
(* floats in exponent notation: 15 significant digits, |r - x| <= scale/2 with scale*1e14 <= |x| *)
Theorem C20_float_roundtrip_sig_within : forall q scale r, 0 < scale -> round_sig q scale = Some r ->
  Qabs (r - q) <= (1 # 2) * scale /\ scale * p10 14 <= Qabs q.
Proof. exact round_sig_within. Qed.
Print Assumptions C20_float_roundtrip_sig_within.
Theorem C20_decode_float_ok : forall q, (q == 0 \/ min_normal <= Qabs q) -> decode DFloat (JNum q) = Some (CF q).
Proof. exact decode_float_ok. Qed.
Print Assumptions C20_decode_float_ok.
Example C20_float_nonvacuous : roundtrip DFloat 1 (CF (1 # 3)) = Some (CF (333333333333333 # 1000000000000000)).
Proof. exact fixed_nonvacuous. Qed.

(* ints, bools, None/NA, NaN of float columns and every string (incl. numeric-looking ones) come back identical,
   under the boolean guard G20_exact (not a float, not an infinity, no NaN inside an object column) *)
Theorem C20_cell_roundtrip_exact_partial : forall d scale c, fits d c = true -> G20_exact d c = true -> roundtrip d scale c = Some c.
Proof. exact roundtrip_exact. Qed.
Print Assumptions C20_cell_roundtrip_exact_partial.
Theorem C20_str_roundtrip_full : forall s scale,
  roundtrip DObject scale (CS s) = Some (CS s) /\ roundtrip DString scale (CS s) = Some (CS s).
Proof. exact str_roundtrip. Qed.
Print Assumptions C20_str_roundtrip_full.
Theorem C20_missing_stays_missing : forall d scale c, fits d c = true -> (c = CNaN \/ c = CNone) ->
  exists c', roundtrip d scale c = Some c' /\ cell_equiv c c'.
Proof. exact missing_roundtrip. Qed.
Print Assumptions C20_missing_stays_missing.

(* the full statement is refuted: +-inf is written as null and read as NaN; a subnormal float is written with 15
   significant digits and the reader raises "Range error" *)
Theorem C20_inf_refuted : exists d scale c, fits d c = true /\ roundtrip d scale c = Some CNaN /\ ~ cell_equiv c CNaN.
Proof. exact inf_refuted. Qed.
Print Assumptions C20_inf_refuted.
Theorem C20_subnormal_refuted : fits DFloat (CF q_sub) = true /\ roundtrip DFloat sc_sub (CF q_sub) = None.
Proof. exact subnormal_refuted. Qed.
Print Assumptions C20_subnormal_refuted.

(* ======================================================================================================================
   Column / table level (C20/Column.v): the writer stores per column the dtype string and the tokens of the cells; the
   reader [decode_col] infers a raw dtype from the tokens (DataFrame constructor), applies astype(stored dtype) (keeping
   the raw data when astype raises) and resets the nulls of object columns to None.  One round-trip theorem per stored
   dtype class the code distinguishes; [fitsall d cs] = the column can hold the cells. *)

(* int64 / bool / string / nullable Int64 columns: the dtype and every cell come back exactly, for every column content
   (also empty; an Int64 column with missing values travels as float64 and is converted back; an all-missing one as object) *)
Theorem C20_col_roundtrip_int : forall cs, fitsall DInt cs = true -> decode_col DInt (encode_col cs) = ColOk DInt (map snd cs).
Proof. exact col_roundtrip_int. Qed.
Print Assumptions C20_col_roundtrip_int.
Theorem C20_col_roundtrip_bool : forall cs, fitsall DBool cs = true -> decode_col DBool (encode_col cs) = ColOk DBool (map snd cs).
Proof. exact col_roundtrip_bool. Qed.
Print Assumptions C20_col_roundtrip_bool.
Theorem C20_col_roundtrip_string : forall cs, fitsall DString cs = true -> decode_col DString (encode_col cs) = ColOk DString (map snd cs).
Proof. exact col_roundtrip_string. Qed.
Print Assumptions C20_col_roundtrip_string.
Theorem C20_col_roundtrip_nullint : forall cs, fitsall DNullInt cs = true ->
  decode_col DNullInt (encode_col cs) = ColOk DNullInt (map snd cs).
Proof. exact col_roundtrip_nullint. Qed.
Print Assumptions C20_col_roundtrip_nullint.
Example C20_col_nullint_nonvacuous :
  decode_col DNullInt (encode_col [(1, CI 5); (1, CNone); (1, CI (-3))]) = ColOk DNullInt [CI 5; CNone; CI (-3)].
Proof. exact col_nullint_nonvacuous. Qed.

(* float64 column without a cell written as a subnormal: dtype float64 restored, same rows, every cell is the result of the
   per-cell codec (error bounds: C20_float_roundtrip_within / _sig_within; NaN stays NaN; +-inf -> NaN is the known finding) *)
Theorem C20_col_roundtrip_float_partial : forall cs, fitsall DFloat cs = true -> existsb is_err (encode_col cs) = false ->
  decode_col DFloat (encode_col cs) = ColOk DFloat (map fdec (encode_col cs)) /\
  map (fun p => roundtrip DFloat (fst p) (snd p)) cs = map Some (map fdec (encode_col cs)).
Proof. exact col_roundtrip_float. Qed.
Print Assumptions C20_col_roundtrip_float_partial.
Example C20_col_float_inf_refuted :
  decode_col DFloat (encode_col [(1, CInf false); (1, CF (1 # 2))]) = ColOk DFloat [CNaN; CF (1 # 2)].
Proof. exact col_float_inf_refuted. Qed.

(* object column holding at least one string (names, types, ...): raw dtype object, dtype object restored, every cell is the
   result of the per-cell codec of class DObject (strings, bools, ints exact; NaN/None -> None by the null reset) *)
Theorem C20_col_roundtrip_object_partial : forall cs,
  existsb (fun p => match snd p with CS _ => true | _ => false end) cs = true -> existsb is_err (encode_col cs) = false ->
  decode_col DObject (encode_col cs) = ColOk DObject (map odec (encode_col cs)) /\
  map (fun p => roundtrip DObject (fst p) (snd p)) cs = map Some (map odec (encode_col cs)).
Proof. exact col_roundtrip_object_str. Qed.
Print Assumptions C20_col_roundtrip_object_partial.
(* without a string the statement "ints stay ints" is false: an all-numeric object column with a missing value is parsed as
   float64, its ints come back as floats (class DObjNum of the cell codec, computed by col_class) *)
Example C20_col_objnum_refuted :
  decode_col DObject (encode_col [(1, CI 1); (1, CNone)]) = ColOk DObject [CF (inject_Z 1); CNone] /\
  col_class DObject [CI 1; CNone] = DObjNum.
Proof. exact col_objnum_ints_become_floats. Qed.

(* tables: the index labels, the column names and their order are those of the saved table; column i is decoded with its
   own stored dtype *)
Theorem C20_table_roundtrip_shape : forall t,
  fst (decode_table (encode_table t)) = t_index t /\
  map fst (snd (decode_table (encode_table t))) = map fst (t_cols t) /\
  List.length (snd (decode_table (encode_table t))) = List.length (t_cols t).
Proof. exact table_roundtrip_shape. Qed.
Print Assumptions C20_table_roundtrip_shape.
Theorem C20_table_roundtrip_cols : forall t,
  snd (decode_table (encode_table t)) =
  map (fun c => (fst c, decode_col (fst (snd c)) (encode_col (snd (snd c))))) (t_cols t).
Proof. exact table_roundtrip_cols. Qed.
Print Assumptions C20_table_roundtrip_cols.
