(* C20 — JSON save/load loses nothing: cell codec theorems (statements only; proofs in C20/Proofs.v) *)
From Coq Require Import ZArith QArith Qabs List Bool String.
From PPV Require Import Base.QN C20.Model C20.Proofs.
Open Scope Q_scope.

(* floats in fixed notation (1e-15 <= |x| <= 1e16): the text carries x to within 0.5e-15 (bound of the property: 1e-14) *)
Theorem C20_float_roundtrip_within : forall q, Qabs (round_fixed q - q) <= (1 # 2) / p10 15.
Proof. exact round_fixed_within. Qed.
Print Assumptions C20_float_roundtrip_within.
(* floats in exponent notation: 15 significant digits, |r - x| <= scale/2 with scale*1e14 <= |x| *)
Theorem C20_float_roundtrip_sig_within : forall q scale r, 0 < scale -> round_sig q scale = Some r ->
  Qabs (r - q) <= (1 # 2) * scale /\ scale * p10 14 <= Qabs q.
Proof. exact round_sig_within. Qed.
Print Assumptions C20_float_roundtrip_sig_within.
Theorem C20_decode_float_ok : forall q, (q == 0 \/ min_normal <= Qabs q) -> decode DFloat (JNum q) = Some (CF q).
Proof. exact decode_float_ok. Qed.
Print Assumptions C20_decode_float_ok.
Example C20_float_nonvacuous : roundtrip DFloat 1 (CF (1 # 3)) = Some (CF (333333333333333 # 1000000000000000)).
Proof. exact fixed_nonvacuous. Qed.

(* ints, bools, None/NA, NaN of float columns and every string (incl. numeric-looking ones) come back identical,
   under the boolean guard G20_exact (not a float, not an infinity, no NaN inside an object column) *)
Theorem C20_cell_roundtrip_exact_partial : forall d scale c, fits d c = true -> G20_exact d c = true -> roundtrip d scale c = Some c.
Proof. exact roundtrip_exact. Qed.
Print Assumptions C20_cell_roundtrip_exact_partial.
Theorem C20_str_roundtrip_full : forall s scale,
  roundtrip DObject scale (CS s) = Some (CS s) /\ roundtrip DString scale (CS s) = Some (CS s).
Proof. exact str_roundtrip. Qed.
Print Assumptions C20_str_roundtrip_full.
Theorem C20_missing_stays_missing : forall d scale c, fits d c = true -> (c = CNaN \/ c = CNone) ->
  exists c', roundtrip d scale c = Some c' /\ cell_equiv c c'.
Proof. exact missing_roundtrip. Qed.
Print Assumptions C20_missing_stays_missing.

(* the full statement is refuted: +-inf is written as null and read as NaN; a subnormal float is written with 15
   significant digits and the reader raises "Range error" *)
Theorem C20_inf_refuted : exists d scale c, fits d c = true /\ roundtrip d scale c = Some CNaN /\ ~ cell_equiv c CNaN.
Proof. exact inf_refuted. Qed.
Print Assumptions C20_inf_refuted.
Theorem C20_subnormal_refuted : fits DFloat (CF q_sub) = true /\ roundtrip DFloat sc_sub (CF q_sub) = None.
Proof. exact subnormal_refuted. Qed.
Print Assumptions C20_subnormal_refuted.
